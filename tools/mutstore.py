#!/usr/bin/env python3
"""tools/mutstore.py <Cxx> <m3|m4|...> <srcdir> [--recheck] — confirm a seeded change (tools/mutvalidate.sh), run the
property's quick check against it (tools/mutcheck.py) and store it as seeded/<Cxx>-<m>/ with meta.json.
With --recheck on an already stored change only the `after_strengthening` field is refreshed."""
import json, os, shutil, subprocess, sys
ROOT = os.path.dirname(os.path.dirname(os.path.abspath(__file__)))
prop, m, src = sys.argv[1], sys.argv[2], os.path.abspath(sys.argv[3])
recheck = "--recheck" in sys.argv
dst = os.path.join(ROOT, "seeded", "%s-%s" % (prop, m))


def sh(cmd):
    return subprocess.run(cmd, shell=True, stdout=subprocess.PIPE, stderr=subprocess.STDOUT, text=True).stdout


meta_path = os.path.join(dst, "meta.json")
if recheck and os.path.exists(meta_path):
    meta = json.load(open(meta_path))
    src = dst
else:
    val = [l for l in sh("%s/tools/mutvalidate.sh %s" % (ROOT, src)).split("\n") if l.startswith("RESULT")]
    res = val[-1] if val else "RESULT none"
    if "base_demo_pass=1 suite_pass=1 demo_fails_with_patch=1" not in res:
        print("NOT CONFIRMED:", res)
        sys.exit(1)
    os.makedirs(dst, exist_ok=True)
    for f in ("patch.diff", "demo_test.go", "README.md"):
        shutil.copyfile(os.path.join(src, f), os.path.join(dst, f))
    meta = {
        "id": "%s-%s" % (prop, m), "breaks_property": prop,
        "source": "independent sub-agent (round 2) given only the property text, the list of round-1 mechanisms to avoid and a scratch worktree of /repo (nothing from /verif)",
        "needs_to_manifest": open(os.path.join(src, "README.md")).read()[:1800],
        "confirmed": {"how": "tools/mutvalidate.sh in a scratch worktree: with the patch the repository builds, the existing suite (root + fuzz) passes and TestDemo fails; without it TestDemo passes",
                      "result": res.replace("RESULT ", "")},
        "checked": {"how": "tools/mutcheck.py: git -C /repo apply patch.diff; bin/check %s --tier quick; git -C /repo checkout -- ." % prop},
    }
out = [l for l in sh("%s/tools/mutcheck.py %s/patch.diff %s" % (ROOT, dst, prop)).split("\n") if l.startswith(prop + " ")]
line = out[-1] if out else prop + " (no output)"
key = "after_strengthening" if "first_run" in meta["checked"] else "first_run"
meta["checked"][key] = line
meta["caught_by"] = prop if "VIOLATION" in line else None
meta["caught_with_failing_input"] = "VIOLATION " in line and "no-failing-input" not in line
json.dump(meta, open(meta_path, "w"), indent=1)
print("%s-%s: %s" % (prop, m, line))
