#!/bin/bash
# tools/mutrecheck-all.sh — re-run the property check of every stored seeded change (applies each patch to /repo in turn)
cd "$(dirname "$0")/.."
for d in seeded/C*-m*; do
  id=$(basename $d); p=${id%%-*}; m=${id##*-}
  tools/mutstore.py $p $m x --recheck 2>&1 | tail -1
done
