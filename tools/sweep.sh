#!/bin/bash
# tools/sweep.sh <tier> <seed...> [env PROPS="C12 C13"] — run every check on the unchanged tree for the given seeds; print a summary line per run
tier=$1; shift
cd "$(dirname "$0")/.."
bin/check setup >/dev/null 2>&1
for seed in "$@"; do
  for p in ${PROPS:-C01 C02 C03 C04 C05 C06 C07 C08 C09 C10 C11 C12 C13 C14 C15 C16}; do
    start=$(date +%s)
    out=$(VERIF_SEED=$seed bin/check $p --tier $tier 2>&1); rc=$?
    viol=$(echo "$out" | grep -c '^VIOLATION')
    echo "seed=$seed $p rc=$rc violations=$viol wall=$(( $(date +%s) - start ))s $(echo "$out" | grep '^VIOLATION' | head -2 | tr '\n' ' ')"
  done
done
