#!/bin/bash
# tools/refcheck-all.sh <dir with */r*/patch.diff> ... — run tools/refcheck.sh on every refactoring found
cd "$(dirname "$0")/.."
for d in "$@"; do
  for r in $d/r*; do
    [ -f $r/patch.diff ] || continue
    echo "== $r"
    tools/refcheck.sh $r/patch.diff
  done
done
