#!/bin/bash
# tools/effcheck.sh <patch.diff>... — for each patch: scratch worktree of /repo, regenerate the effect graph, rebuild
# GoLucene.Proofs.EffectsCheck and EffectsFold; prints OK / BROKEN per patch.  Restores the generated file for the unchanged tree at the end.
cd "$(dirname "$0")/.."
for p in "$@"; do
  wt=/tmp/effwt-$$
  git -C /repo worktree add -q --detach $wt HEAD || exit 2
  if git -C $wt apply --whitespace=nowarn "$(readlink -f $p)" 2>/dev/null; then
    if .build/effects $wt lean/GoLucene/Generated/Effects.lean .build/effects-facts.mut.txt 2>/tmp/effcheck.err; then
      out=$(cd lean && lake build GoLucene.Proofs.EffectsCheck GoLucene.Proofs.EffectsFold 2>&1)
      if [ $? = 0 ]; then echo "OK      $p"; else echo "BROKEN  $p  [$(echo "$out" | grep -o 'EffectsCheck.lean:[0-9]*\|EffectsFold.lean:[0-9]*' | sort -u | tr '\n' ' ')]  $(diff <(grep ^write .build/effects-facts.txt) <(grep ^write .build/effects-facts.mut.txt) | grep '^[<>]' | head -3 | tr '\n' ';')"; fi
    else echo "EXTRACT-FAILED $p $(head -2 /tmp/effcheck.err)"; fi
  else echo "NOAPPLY $p"; fi
  git -C /repo worktree remove --force $wt
done
.build/effects /repo lean/GoLucene/Generated/Effects.lean .build/effects-facts.txt
