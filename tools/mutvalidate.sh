#!/bin/bash
# tools/mutvalidate.sh <dir with patch.diff demo_test.go> — confirm a seeded change in a scratch worktree:
# with the patch: it compiles, the existing suite passes, TestDemo FAILS; without it: TestDemo passes.
set -u
d=$(readlink -f "$1")
wt=/tmp/mutval-$$
export GOPROXY=off GOSUMDB=off GOTOOLCHAIN=local
git -C /repo worktree add -q --detach $wt HEAD || exit 2
cleanup() { git -C /repo worktree remove --force $wt >/dev/null 2>&1; }
trap cleanup EXIT
cd $wt
race=""
grep -qi "race" "$d/README.md" 2>/dev/null && race="-race"
cp "$d/demo_test.go" ./zz_demo_test.go
base=$(go test -vet=off -count=1 $race -run 'TestDemo' . 2>&1 | tail -3 | tr '\n' ' ')
echo "$base" | grep -q '^ok\|ok  ' && basepass=1 || basepass=0
rm -f zz_demo_test.go
git apply --whitespace=nowarn "$d/patch.diff" || { echo "RESULT apply-failed"; exit 1; }
suite=$( (go build ./... && go test -vet=off -count=1 ./... && cd fuzz && go test -vet=off -count=1 ./...) 2>&1 | grep -v "no test files" | tr '\n' ' ')
echo "$suite" | grep -q "FAIL\|cannot\|error" && suitepass=0 || suitepass=1
cp "$d/demo_test.go" ./zz_demo_test.go
demo=$(go test -vet=off -count=1 $race -run 'TestDemo' . 2>&1 | tail -4 | tr '\n' ' ')
echo "$demo" | grep -q "FAIL" && demofail=1 || demofail=0
lines=$(grep -c '^[+-][^+-]' "$d/patch.diff")
echo "RESULT base_demo_pass=$basepass suite_pass=$suitepass demo_fails_with_patch=$demofail changed_lines=$lines race=$race"
[ $basepass = 1 ] && [ $suitepass = 1 ] && [ $demofail = 1 ]
