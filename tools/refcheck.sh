#!/bin/bash
# tools/refcheck.sh <patch.diff> [props...] — a behaviour-PRESERVING refactoring: apply it in a scratch worktree, run the
# repository's tests and the quick checks against it (VERIF_REPO); every check is expected to stay quiet.
patch=$(readlink -f "$1"); shift
props=${@:-C01 C02 C03 C04 C05 C06 C07 C08 C09 C10 C11 C12 C13 C14 C15 C16}
cd "$(dirname "$0")/.."
wt=/root/refwt-$$
git -C /repo worktree add -q --detach $wt HEAD || exit 2
trap 'git -C /repo worktree remove --force $wt >/dev/null 2>&1; git -C /repo worktree prune; cp .build/evid-ref/* evidence/ 2>/dev/null; rm -rf .build/evid-ref' EXIT
mkdir -p .build/evid-ref && cp evidence/*.json .build/evid-ref/
git -C $wt apply --whitespace=nowarn "$patch" || { echo "cannot apply"; exit 2; }
(cd $wt && GOPROXY=off GOSUMDB=off GOTOOLCHAIN=local go build ./... && GOPROXY=off GOSUMDB=off GOTOOLCHAIN=local go test -vet=off -count=1 ./... >/dev/null 2>&1) || { echo "suite fails"; exit 2; }
for p in $props; do
  out=$(VERIF_REPO=$wt bin/check $p 2>&1); rc=$?
  v=$(echo "$out" | grep '^VIOLATION' | head -1)
  echo "$p rc=$rc $v"
done
