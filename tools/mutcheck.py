#!/usr/bin/env python3
"""tools/mutcheck.py <patch.diff> [props...] — apply a seeded change to /repo, run the quick checks, undo it.
Prints one line per property: OK / VIOLATION (with or without a failing input) / KNOWN only. Never leaves /repo dirty."""
import subprocess, sys, os, json, re
ROOT = os.path.dirname(os.path.dirname(os.path.abspath(__file__)))
def sh(cmd, **kw):
    return subprocess.run(cmd, shell=True, stdout=subprocess.PIPE, stderr=subprocess.STDOUT, text=True, **kw)
patch = os.path.abspath(sys.argv[1])
props = sys.argv[2:] or ["C%02d" % i for i in range(1, 17)]
SCRATCH = os.environ.get("MUT_SCRATCH") == "1"   # check in a scratch worktree (VERIF_REPO) instead of applying to /repo
TARGET = "/repo"
if SCRATCH:
    TARGET = "/root/mutwt-%d" % os.getpid()
    assert sh("git -C /repo worktree add -q --detach %s HEAD" % TARGET).returncode == 0
else:
    assert SCRATCH or sh("git -C /repo status --porcelain").stdout.strip() == "", "/repo is dirty"
r = sh("git -C %s apply --whitespace=nowarn %s" % (TARGET, patch))
if r.returncode != 0:
    print("cannot apply:", r.stdout)
    if SCRATCH:
        sh("git -C /repo worktree remove --force " + TARGET)
    sys.exit(2)
res = {}
# evidence files describe the UNCHANGED tree: keep them out of the way while the mutated tree is checked
import shutil, tempfile
evid_backup = tempfile.mkdtemp(prefix="evid-", dir=os.path.join(ROOT, ".build"))
for f in os.listdir(os.path.join(ROOT, "evidence")):
    shutil.copy2(os.path.join(ROOT, "evidence", f), evid_backup)
try:
    b = sh("cd %s && GOPROXY=off GOSUMDB=off GOTOOLCHAIN=local go build ./... " % TARGET)
    if b.returncode != 0:
        print("does not compile:", b.stdout[-500:]); sys.exit(2)
    for p in props:
        r = sh("cd %s && %sbin/check %s --tier quick" % (ROOT, ("VERIF_REPO=%s " % TARGET) if SCRATCH else "", p), timeout=1800)
        viol = [l for l in r.stdout.split("\n") if l.startswith("VIOLATION")]
        if not viol:
            res[p] = "ok" if r.returncode == 0 else "exit %d: %s" % (r.returncode, r.stdout[-300:])
        else:
            nofail = all(v.rstrip().endswith("no-failing-input-found") for v in viol)
            m = re.search(r"replay=(\S+)", viol[0])
            clause = ""
            try:
                j = json.load(open(m.group(1)))
                f = j.get("failure", j)
                clause = (f.get("clause") or j.get("broken") or "")[:110]
                c = f.get("case", {})
                clause += " | " + repr(c.get("s", ""))[:60]
            except Exception as e:
                clause = str(e)
            res[p] = ("VIOLATION(no-failing-input) " if nofail else "VIOLATION ") + clause
        print("%s %s" % (p, res[p]), flush=True)
finally:
    for f in os.listdir(evid_backup):
        shutil.copy2(os.path.join(evid_backup, f), os.path.join(ROOT, "evidence", f))
    shutil.rmtree(evid_backup, ignore_errors=True)
    if SCRATCH:
        sh("git -C /repo worktree remove --force " + TARGET)
        sh("git -C /repo worktree prune")
    else:
        sh("git -C /repo checkout -- .")
        sh("git -C /repo clean -fdq")
    # restore the generated tables for the unchanged tree
    sh("cd %s && .build/extract /repo lean/GoLucene/Generated/Tables.lean" % ROOT)
assert SCRATCH or sh("git -C /repo status --porcelain").stdout.strip() == ""
