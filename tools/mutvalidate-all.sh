#!/bin/bash
# tools/mutvalidate-all.sh — re-confirm every stored seeded change against the current /repo HEAD (suite passes, demo fails with the patch, passes without)
cd "$(dirname "$0")/.."
for d in seeded/C*-m*; do echo "$(basename $d): $(tools/mutvalidate.sh $d | tail -1)"; done
