// Corpus generator for validating GoLucene.Sql against PostgreSQL's parser.
//
// Categories (the letter is what the validation report groups by):
//
//	A-pg     lucene.ToPostgres(query)               over grammar-generated Lucene queries
//	A-param  lucene.ToParameterizedPostgres(query)  over the same queries
//	A-tree   driver.Render / RenderParam            over directly built expression trees (hostile names/values
//	                                                that Lucene's own lexer would not let through)
//	B-mut    hostile mutations of A texts
//	B-expr   random expressions over the fragment's vocabulary with parentheses left out (precedence stress)
//	B-soup   random token sequences
//	B-lex    systematic scanner families: all operator-character strings up to length 3, all strings up to length 5
//	         over a number alphabet, every byte / ASCII byte pair in many contexts, random 58..70-byte identifiers
//	         built from UTF-8 fragments (63-byte truncation), random sequences of lexically interesting chunks
//	C-hand   hand-written edge cases
//	C-deep   deeply nested expressions around the parser-stack limit (PostgreSQL: 10000 entries; model: 9000)
package main

import (
	"bufio"
	"encoding/hex"
	"flag"
	"fmt"
	"math/rand"
	"os"
	"strconv"
	"strings"

	lucene "github.com/grindlemire/go-lucene"
	"github.com/grindlemire/go-lucene/pkg/driver"
	"github.com/grindlemire/go-lucene/pkg/lucene/expr"
)

type item struct {
	cat string
	sql string
}

type gen struct {
	r    *rand.Rand
	seen map[string]bool
	out  []item
}

func (g *gen) add(cat, sql string) bool {
	if g.seen[sql] {
		return false
	}
	g.seen[sql] = true
	g.out = append(g.out, item{cat, sql})
	return true
}

func (g *gen) pick(xs ...string) string { return xs[g.r.Intn(len(xs))] }
func (g *gen) p(x float64) bool         { return g.r.Float64() < x }

// ---------------------------------------------------------------------------------------------------------------
// hostile material

var nasty = []string{
	"'", "''", "'''", "\\", "\\'", "\\\\", ";", "--", "-- x", "/*", "*/", "/* x */", "\n", "\r", "\r\n", "\t", "\f", "\v",
	"$$", "$a$", "$1", "$", "E'", "e'", "U&'", "N'", "B'", "X'", "\"", "\"\"", "%", "_", "?", "*", " ", "  ", "(", ")", ",",
	"::int", "::", ":", ".", "..", "[", "]", "{", "}", "é", "日本", "\u00a0", "\u2028", "İ", "K", "NULL", "null", "TRUE",
	" OR 1=1", "' OR '1'='1", "'; DROP TABLE t; --", "') OR ('1'='1", "=", "<>", "!=", "~", "~*", "!~", "-", "+", "||", "<=>",
	"1e5", "5a", "1e", "0x1F", "1_000", "\x7f", "\x01", "\x1b", "\x80", "\xff", "\xc3", "\xe2\x82", "\xf0\x9f\x98", "\xc3\xa9",
	"AND", "OR", "NOT", "BETWEEN", "IN", "SIMILAR TO", "TO", "LIKE", "IS", "SELECT", "😀",
}

func (g *gen) hostileString(maxParts int) string {
	n := 1 + g.r.Intn(maxParts)
	var sb strings.Builder
	for i := 0; i < n; i++ {
		switch g.r.Intn(4) {
		case 0:
			sb.WriteString(g.pick("a", "b", "foo", "bar", "x1", "The Right Way", "z", "0", "42", "-5", "1.5"))
		case 1:
			sb.WriteByte(byte(32 + g.r.Intn(95)))
		default:
			sb.WriteString(nasty[g.r.Intn(len(nasty))])
		}
	}
	return sb.String()
}

// names of exactly n bytes, optionally with a multi-byte character straddling the 63-byte truncation point
func (g *gen) longName(n int) string {
	fill := g.pick("a", "x", "é", "日", "😀", "ab ", "a'", "a\\")
	var sb strings.Builder
	lead := g.r.Intn(4)
	for i := 0; i < lead; i++ {
		sb.WriteByte('p')
	}
	for sb.Len() < n {
		sb.WriteString(fill)
	}
	s := sb.String()
	if len(s) > n {
		// cut to the exact byte length, then repair a split character with ASCII padding
		s = s[:n]
		for len(s) > 0 && !validTail(s) {
			s = s[:len(s)-1]
		}
		for len(s) < n {
			s += "q"
		}
	}
	return s
}

func validTail(s string) bool {
	// true when s does not end in the middle of a UTF-8 sequence
	i := len(s) - 1
	for i >= 0 && s[i]&0xc0 == 0x80 {
		i--
	}
	if i < 0 {
		return false
	}
	c := s[i]
	need := 1
	switch {
	case c&0x80 == 0:
		need = 1
	case c&0xe0 == 0xc0:
		need = 2
	case c&0xf0 == 0xe0:
		need = 3
	case c&0xf8 == 0xf0:
		need = 4
	}
	return len(s)-i == need
}

var longLens = []int{60, 61, 62, 63, 64, 65, 66, 67, 100, 126, 127, 128, 200}

func (g *gen) fieldName() string {
	switch x := g.r.Intn(20); {
	case x < 9:
		return g.pick("a", "b", "c", "title", "age_in_months", "Color", "x1", "1a", "default", "select", "from", "e", "n", "u")
	case x < 16:
		return g.hostileString(4)
	default:
		return g.longName(longLens[g.r.Intn(len(longLens))])
	}
}

// ---------------------------------------------------------------------------------------------------------------
// Lucene query text

func isWordRune(r rune) bool {
	return r == '_' || (r >= '0' && r <= '9') || (r >= 'a' && r <= 'z') || (r >= 'A' && r <= 'Z') || r >= 0x80
}

// luceneEscape writes s as a Lucene term with every special character backslash-escaped
func luceneEscape(s string) string {
	var sb strings.Builder
	for _, r := range s {
		if !isWordRune(r) {
			sb.WriteByte('\\')
		}
		sb.WriteRune(r)
	}
	return sb.String()
}

var numbers = []string{
	"0", "1", "5", "22", "42", "007", "-1", "-5", "-20", "-0", "2147483647", "2147483648", "-2147483648", "-2147483649",
	"9223372036854775807", "9223372036854775808", "99999999999999999999", "1.5", "-1.5", "0.5", "0.001", "0.00001", "3.14159",
	"100.0", "1e6", "1e-7", "1E+10", "1.5e300", "-2.5e-3", "1e5", "123456789.123", "999999", "1000000", "0.0001", "5.", "1_000",
	"0x1F", "0b11", "0o17", "1e999", "+5", "1e", "5a", "1.2.3", "inf", "nan", "-inf", "Infinity", "NaN",
}

func (g *gen) number() string { return numbers[g.r.Intn(len(numbers))] }

func (g *gen) word() string {
	return g.pick("a", "b", "foo", "bar", "baz", "red", "x1", "honey", "z9", "to", "and2", "nul", "true", "null", "e", "E", "U", "n", "b")
}

func (g *gen) phraseBody() string {
	if g.p(0.5) {
		return g.pick("The Right Way", "honey crisp", "a b", "", " ", "x") + g.pick("", "", "!", "?", "*")
	}
	return g.hostileString(5)
}

func (g *gen) simpleValue() string {
	switch g.r.Intn(12) {
	case 0, 1, 2:
		return g.word()
	case 3, 4:
		return g.number()
	case 5:
		return `"` + strings.ReplaceAll(g.phraseBody(), `"`, "") + `"`
	case 6:
		return `'` + strings.ReplaceAll(g.phraseBody(), `'`, "") + `'`
	case 7:
		return luceneEscape(g.hostileString(3))
	case 8:
		return g.word() + g.pick("*", "?", "*x", "?y?", "**")
	case 9:
		return g.pick("*", "?", "*a", "a*b?c", "%", "_x", "a%", `a\*`, `a\?b`)
	case 10:
		return luceneEscape(g.word()+g.pick("'", "\\", ";", "--", "/*", " ", "$$")) + g.pick("", "*", "?")
	default:
		return g.word()
	}
}

func (g *gen) regex() string {
	body := g.pick("re", "b [c]", `b "[c]`, `example.com\/foo\/bar\/.*`, "a|b", "[a-z]+", "^x$", "", " ", "a'b", `a\\b`, "a;b--c", "a/*b*/", "(x)", "x{2,3}", ".", "é+")
	if g.p(0.3) {
		body = strings.ReplaceAll(g.hostileString(3), "/", "")
	}
	return "/" + body + "/"
}

func (g *gen) bound() string {
	switch g.r.Intn(8) {
	case 0, 1:
		return "*"
	case 2, 3, 4:
		return g.number()
	case 5:
		return g.word()
	case 6:
		return `"` + strings.ReplaceAll(g.phraseBody(), `"`, "") + `"`
	default:
		return luceneEscape(g.hostileString(2))
	}
}

func (g *gen) value(depth int) string {
	switch g.r.Intn(16) {
	case 0, 1, 2, 3, 4:
		return g.simpleValue()
	case 5:
		return g.regex()
	case 6, 7, 8:
		open, close := "[", "]"
		if g.p(0.5) {
			open, close = "{", "}"
		}
		if g.p(0.05) {
			close = g.pick("]", "}")
		}
		return open + g.bound() + g.pick(" TO ", " TO ", " to ", " To ") + g.bound() + close
	case 9, 10:
		n := 1 + g.r.Intn(4)
		parts := make([]string, n)
		for i := range parts {
			parts[i] = g.simpleValue()
		}
		return "(" + strings.Join(parts, g.pick(" OR ", " OR ", " or ", " ", " AND ")) + ")"
	case 11, 12:
		return g.pick(">", ">=", "<", "<=") + g.pick(g.number(), g.number(), g.word(), `"x y"`)
	case 13:
		return g.simpleValue() + g.pick("~", "~2", "^2", "^0.5", "^", "~0")
	case 14:
		if depth > 0 {
			return "(" + g.query(depth-1) + ")"
		}
		return g.simpleValue()
	default:
		return g.simpleValue()
	}
}

func (g *gen) clause(depth int) string {
	prefix := g.pick("", "", "", "", "", "NOT ", "not ", "+", "-", "!", "NOT NOT ", "NOT(")
	suffix := ""
	if prefix == "NOT(" {
		suffix = ")"
	}
	var body string
	switch {
	case depth > 0 && g.p(0.25):
		body = "(" + g.query(depth-1) + ")"
	case g.p(0.8):
		body = luceneEscape(g.fieldName()) + ":" + g.value(depth)
	default:
		body = g.value(depth)
	}
	return prefix + body + suffix
}

func (g *gen) query(depth int) string {
	n := 1 + g.r.Intn(3)
	if g.p(0.1) {
		n += g.r.Intn(4)
	}
	var sb strings.Builder
	for i := 0; i < n; i++ {
		if i > 0 {
			sb.WriteString(g.pick(" AND ", " AND ", " OR ", " OR ", " ", " and ", " or ", " && ", " || ", "\n", " AND NOT ", " OR NOT "))
		}
		sb.WriteString(g.clause(depth))
	}
	return sb.String()
}

func safely(f func()) {
	defer func() { _ = recover() }()
	f()
}

func (g *gen) luceneOutputs(n int) {
	for tries := 0; len(g.out) < n && tries < 40*n; tries++ {
		q := g.query(g.r.Intn(4))
		var opts = []func() (string, error){}
		df := ""
		useDF := g.p(0.4)
		if useDF {
			df = g.fieldName()
		}
		opts = append(opts, func() (string, error) {
			if useDF {
				return lucene.ToPostgres(q, lucene.WithDefaultField(df))
			}
			return lucene.ToPostgres(q)
		})
		safely(func() {
			if s, err := opts[0](); err == nil {
				g.add("A-pg", s)
			}
		})
		safely(func() {
			var s string
			var err error
			if useDF {
				s, _, err = lucene.ToParameterizedPostgres(q, lucene.WithDefaultField(df))
			} else {
				s, _, err = lucene.ToParameterizedPostgres(q)
			}
			if err == nil {
				g.add("A-param", s)
			}
		})
	}
}

// ---------------------------------------------------------------------------------------------------------------
// directly built expression trees

func (g *gen) treeValue() any {
	switch g.r.Intn(10) {
	case 0, 1:
		return g.r.Intn(2000) - 1000
	case 2:
		return []any{0, 1, -1, 2147483647, 2147483648, -2147483648, -2147483649, 1 << 62}[g.r.Intn(8)]
	case 3:
		return []any{1.5, -1.5, 0.0, 1e6, 1e-7, 1e21, 123456.789, -2.5e-300, 1e300, 0.1, 100.0, 999999.0, 1000000.0}[g.r.Intn(13)]
	case 4, 5:
		return g.word()
	default:
		return g.hostileString(5)
	}
}

func (g *gen) treeLeaf() *expr.Expression {
	name := g.fieldName()
	switch g.r.Intn(12) {
	case 0, 1, 2:
		return expr.Eq(name, g.treeValue())
	case 3:
		return expr.Eq(name, expr.WILD(g.hostileString(3)+g.pick("*", "?", "")))
	case 4:
		return expr.Eq(name, expr.REGEXP("/"+g.hostileString(3)+"/"))
	case 5:
		return expr.Expr(name, []expr.Operator{expr.Greater, expr.GreaterEq, expr.Less, expr.LessEq}[g.r.Intn(4)], g.treeValue())
	case 6, 7:
		lo, hi := g.treeValue(), g.treeValue()
		if g.p(0.3) {
			lo = "*"
		} else if g.p(0.3) {
			hi = "*"
		}
		if g.p(0.5) {
			// same kind on both sides
			switch lo.(type) {
			case int:
				hi = g.r.Intn(100)
			case float64:
				hi = g.r.Float64() * 100
			}
		}
		return expr.Rang(name, lo, hi, g.p(0.5))
	case 8, 9:
		n := 1 + g.r.Intn(4)
		items := make([]any, n)
		for i := range items {
			items[i] = expr.Lit(g.treeValue())
		}
		return expr.IN(name, expr.LIST(items...))
	case 10:
		return expr.Lit(g.treeValue())
	default:
		return expr.Eq(name, expr.OR(expr.Lit(g.treeValue()), expr.Lit(g.treeValue())))
	}
}

func (g *gen) tree(depth int) *expr.Expression {
	if depth == 0 || g.p(0.3) {
		return g.treeLeaf()
	}
	switch g.r.Intn(7) {
	case 0, 1:
		return expr.AND(g.tree(depth-1), g.tree(depth-1))
	case 2, 3:
		return expr.OR(g.tree(depth-1), g.tree(depth-1))
	case 4:
		return expr.NOT(g.tree(depth - 1))
	case 5:
		return expr.MUSTNOT(g.tree(depth - 1))
	default:
		return expr.MUST(g.tree(depth - 1))
	}
}

func (g *gen) treeOutputs(n int) {
	pg := driver.NewPostgresDriver()
	start := len(g.out)
	for tries := 0; len(g.out)-start < n && tries < 40*n; tries++ {
		safely(func() {
			e := g.tree(g.r.Intn(4))
			if s, err := pg.Render(e); err == nil {
				g.add("A-tree", s)
			}
			if s, _, err := pg.RenderParam(e); err == nil {
				g.add("A-tree", s)
			}
		})
	}
}

// ---------------------------------------------------------------------------------------------------------------
// hostile mutations

var constSwaps = []string{
	"E'x'", "e'x\\'y'", "U&'x'", "u&'\\0041'", "N'x'", "n'x'", "B'1'", "b'0'", "X'ff'", "x'1F'", "$$x$$", "$a$x$a$", "$1", "$2", "$0", "$01",
	"$99999999999", "'x'::text", "5::int", "CAST(5 AS int)", "f('x')", "lower('x')", "\"f\"('x')", "x", "\"x\"", "\"\"", "\"x\"\"y\"", "U&\"x\"",
	"5a", "1e", "1e+", "1.2.3", "1..2", ".5", "5.", "1.e5", ".5e-3", "1e+5", "1E5", "-5", "- 5", "+5", "--5", "- -5", "-(5)", "-'x'", "-$1", "-\"a\"",
	"(1,2)", "(1, 2)", "ROW(1)", "(SELECT 1)", "NULL", "TRUE", "false", "ARRAY[1]", "'{1}'", "1 2", "'a' 'b'", "'a'\n'b'", "'a'\r'b'", "'a'\n\n 'b'",
	"'a' \n 'b' \n 'c'", "'a'\f'b'", "'a'\v'b'", "'a'\t'b'", "'a'--x\n'b'", "'a'/**/'b'", "'a'\n--x\n'b'", "''", "''''", "'\\'", "'\\''", "?", "??",
	"2147483647", "2147483648", "00000000002147483648", "0000000000000000000000000000001", "1e400", "0.0", "00.10", "9" + strings.Repeat("9", 70),
	"NOT 1", "NOT NOT 1", "1 IN (2)", "1 BETWEEN 2 AND 3", "(1 = 2)", "((3))", "1 ~ 2", "~ 1", "1 ~", "@ 1", "1 IS NULL", "1 ISNULL", "1 NOTNULL",
}

var opSwaps = []string{
	"=", "<", ">", "<=", ">=", "<>", "!=", "~", "~*", "!~", "!~*", "||", "+", "-", "*", "/", "%", "^", "<=>", "=>", "==", "<<", ">>", "&&", "@>",
	"=-", "<=-", ">=-", "<>-", "~-", "=+", "=--", "=/*", "= -", "=- -", "<-", "<+-", "?", "?-", "-?", "= ?", "=?", "|", "&", "#", "`", "@", "!", "~~", "!!",
	" AND ", " OR ", " and ", " Or ", " aNd ", " NOT ", " not ", " IN ", " in ", " BETWEEN ", " SIMILAR TO ", " similar\nto ", " TO ", " LIKE ", " ILIKE ",
	" NOT IN ", " NOT BETWEEN ", " NOT SIMILAR TO ", " NOT LIKE ", " IS ", " IS NOT ", " ESCAPE ", " COLLATE ", " AT TIME ZONE ", " OPERATOR(pg_catalog.=) ",
	" BETWEEN SYMMETRIC ", " IS DISTINCT FROM ", ",", ", ", ";", "; ", ":", "::", ".", "[", "]", "(", ")", " ",
}

var wsSwaps = []string{"", "\n", "\r", "\r\n", "\t", "\f", "\v", "  ", " \n ", "--\n", "-- c\n", "/**/", "/* c */", "/*", "\x00", "\u00a0", "\xa0", ";", " ; "}

func (g *gen) mutate(s string) string {
	b := []byte(s)
	pos := func() int {
		if len(b) == 0 {
			return 0
		}
		return g.r.Intn(len(b) + 1)
	}
	insert := func(i int, t string) {
		b = append(b[:i:i], append([]byte(t), b[i:]...)...)
	}
	// positions of a given byte class
	find := func(pred func(byte) bool) []int {
		var ps []int
		for i, c := range b {
			if pred(c) {
				ps = append(ps, i)
			}
		}
		return ps
	}
	switch g.r.Intn(16) {
	case 0: // flip a byte
		if len(b) > 0 {
			i := g.r.Intn(len(b))
			if g.p(0.5) {
				b[i] = byte(g.r.Intn(256))
			} else {
				const flipSet = "'\"\\;-/*$ \n()?,=<>~.:eE0+"
				b[i] = flipSet[g.r.Intn(len(flipSet))]
			}
		}
	case 1: // insert a nasty snippet anywhere
		insert(pos(), nasty[g.r.Intn(len(nasty))])
	case 2: // insert next to a quote
		if ps := find(func(c byte) bool { return c == '\'' || c == '"' }); len(ps) > 0 {
			i := ps[g.r.Intn(len(ps))] + g.r.Intn(2)
			insert(i, nasty[g.r.Intn(len(nasty))])
		}
	case 3: // delete a byte or a range
		if len(b) > 0 {
			i := g.r.Intn(len(b))
			j := i + 1
			if g.p(0.3) {
				j = i + 1 + g.r.Intn(len(b)-i)
			}
			b = append(b[:i:i], b[j:]...)
		}
	case 4: // replace a whitespace byte
		if ps := find(func(c byte) bool { return c == ' ' }); len(ps) > 0 {
			i := ps[g.r.Intn(len(ps))]
			b = append(b[:i:i], append([]byte(wsSwaps[g.r.Intn(len(wsSwaps))]), b[i+1:]...)...)
		}
	case 5: // replace an operator / keyword region between two spaces
		if ps := find(func(c byte) bool { return c == ' ' }); len(ps) >= 2 {
			k := g.r.Intn(len(ps) - 1)
			i, j := ps[k], ps[k+1]
			b = append(b[:i+1:i+1], append([]byte(strings.TrimSpace(opSwaps[g.r.Intn(len(opSwaps))])), b[j:]...)...)
		}
	case 6: // insert an operator
		insert(pos(), opSwaps[g.r.Intn(len(opSwaps))])
	case 7: // replace a constant ('...' or number or ?) by something else
		s2 := string(b)
		if i := strings.IndexAny(s2, "'?0123456789"); i >= 0 {
			// choose a random occurrence
			var occ []int
			for k := 0; k < len(s2); k++ {
				if strings.IndexByte("'?0123456789", s2[k]) >= 0 && (k == 0 || s2[k-1] == ' ' || s2[k-1] == '(') {
					occ = append(occ, k)
				}
			}
			if len(occ) > 0 {
				i = occ[g.r.Intn(len(occ))]
			}
			j := i + 1
			if s2[i] == '\'' {
				for j < len(s2) && s2[j] != '\'' {
					j++
				}
				if j < len(s2) {
					j++
				}
			} else {
				for j < len(s2) && s2[j] != ' ' && s2[j] != ')' && s2[j] != ',' {
					j++
				}
			}
			b = []byte(s2[:i] + constSwaps[g.r.Intn(len(constSwaps))] + s2[j:])
		}
	case 8: // append / prepend
		t := g.pick(" AND 1", " OR 1=1", "; SELECT 1", " --", " -- x", "/*", " /* x */", ")", ") OR (1=1", "(", " ", "\n", "'", "\"", ";", " AND", " NOT", " = 5", " IN (1)",
			" BETWEEN 1 AND 2", " SIMILAR TO 'x'", " ~ 'x'", " IS NULL", "::int", " x", " AS x", ", 2", " LIMIT 1", " ORDER BY 1", " UNION SELECT 1", ") UNION SELECT 1 WHERE (1",
			") FROM u WHERE (1", " GROUP BY 1", " FOR UPDATE", " OFFSET 1")
		if g.p(0.75) {
			b = append(b, t...)
		} else {
			t = g.pick("NOT ", "NOT(", "(", "1 = ", "- ", "-", "~ ", "+", "1 AND ", "NOT NOT ", "\"a\" IN ", "\"a\" = ", "\"a\" BETWEEN ", "1 BETWEEN 2 AND ", "1 ~ ", "TRUE AND ", "x AND ")
			b = append([]byte(t), b...)
		}
	case 9: // duplicate a slice
		if len(b) > 1 {
			i := g.r.Intn(len(b))
			j := i + 1 + g.r.Intn(len(b)-i)
			insert(pos(), string(b[i:j]))
		}
	case 10: // drop or add parentheses
		if ps := find(func(c byte) bool { return c == '(' || c == ')' }); len(ps) > 0 && g.p(0.7) {
			i := ps[g.r.Intn(len(ps))]
			b = append(b[:i:i], b[i+1:]...)
		} else {
			insert(pos(), g.pick("(", ")", "()", "(("))
		}
	case 11: // strip all parentheses that are not inside quotes: exposes raw precedence
		var o []byte
		inS, inD := false, false
		for _, c := range b {
			if c == '\'' && !inD {
				inS = !inS
			} else if c == '"' && !inS {
				inD = !inD
			}
			if (c == '(' || c == ')') && !inS && !inD && g.p(0.8) {
				o = append(o, ' ')
				continue
			}
			o = append(o, c)
		}
		b = o
	case 12: // keyword case / spelling
		s2 := string(b)
		for _, kw := range []string{"AND", "OR", "NOT", "BETWEEN", "IN", "SIMILAR TO"} {
			if g.p(0.5) {
				alt := ""
				for _, c := range kw {
					if g.p(0.5) {
						alt += strings.ToLower(string(c))
					} else {
						alt += string(c)
					}
				}
				if kw == "SIMILAR TO" && g.p(0.5) {
					alt = strings.Replace(alt, " ", g.pick("\n", "  ", "\t", "/**/", ""), 1)
				}
				s2 = strings.Replace(s2, " "+kw+" ", " "+alt+g.pick(" ", " ", "", "\n"), 1+g.r.Intn(2))
			}
		}
		b = []byte(s2)
	case 13: // glue: remove a space
		if ps := find(func(c byte) bool { return c == ' ' }); len(ps) > 0 {
			i := ps[g.r.Intn(len(ps))]
			b = append(b[:i:i], b[i+1:]...)
		}
	case 14: // swap quotes
		if ps := find(func(c byte) bool { return c == '\'' || c == '"' }); len(ps) > 0 {
			i := ps[g.r.Intn(len(ps))]
			b[i] = "'\"`"[g.r.Intn(3)]
		}
	default: // insert a constant-like thing at a token boundary
		if ps := find(func(c byte) bool { return c == ' ' || c == '(' || c == ',' }); len(ps) > 0 {
			i := ps[g.r.Intn(len(ps))] + 1
			insert(i, constSwaps[g.r.Intn(len(constSwaps))]+g.pick("", " "))
		}
	}
	return string(b)
}

func (g *gen) mutations(n int) {
	base := make([]string, 0, len(g.out))
	for _, it := range g.out {
		if strings.HasPrefix(it.cat, "A-") {
			base = append(base, it.sql)
		}
	}
	if len(base) == 0 {
		return
	}
	start := len(g.out)
	for tries := 0; len(g.out)-start < n && tries < 20*n; tries++ {
		s := base[g.r.Intn(len(base))]
		if len(s) > 400 && g.p(0.8) {
			continue
		}
		k := 1
		if g.p(0.3) {
			k += g.r.Intn(3)
		}
		for i := 0; i < k; i++ {
			s = g.mutate(s)
		}
		if g.p(0.1) {
			// combine with another text without protective parentheses
			t := base[g.r.Intn(len(base))]
			s = s + g.pick(" AND ", " OR ", " = ", " AND NOT ", " ~ ", " BETWEEN ", " IN ", ", ", " ", "\n") + t
		}
		g.add("B-mut", s)
	}
}

// ---------------------------------------------------------------------------------------------------------------
// random expressions over the vocabulary of the fragment, with most parentheses left out

func (g *gen) atom() string {
	switch g.r.Intn(14) {
	case 0, 1:
		return g.pick(`"a"`, `"b"`, `"c d"`, `"x""y"`, `"é"`)
	case 2, 3:
		return g.pick("'x'", "'*'", "''", "'it''s'", "'a\\'", "'%'", "'a'\n'b'")
	case 4, 5:
		return g.pick("1", "5", "0", "007", "2147483647", "2147483648", "1.5", "0.00", ".5", "5.", "1e+06", "1e-7", "1E5")
	case 6:
		return g.pick("-1", "-5", "- 5", "-1.50", "-.5", "-1e3", "-2147483648", "-0")
	case 7:
		return "?"
	case 8:
		return "$" + strconv.Itoa(1+g.r.Intn(3))
	default:
		return g.pick(`"a"`, "1", "'x'", "2", `"b"`)
	}
}

func (g *gen) sqlExpr(depth int, params string) string {
	at := func() string {
		a := g.atom()
		if a == "?" && params == "$" {
			return "$1"
		}
		if strings.HasPrefix(a, "$") && params == "?" {
			return "?"
		}
		return a
	}
	if depth == 0 {
		return at()
	}
	sub := func() string {
		e := g.sqlExpr(depth-1, params)
		if g.p(0.25) {
			return "(" + e + ")"
		}
		return e
	}
	sp := func() string { return g.pick(" ", " ", " ", " ", "", "\n", "  ", "\t") }
	switch g.r.Intn(16) {
	case 0, 1:
		return sub() + " " + g.pick("AND", "and", "And") + " " + sub()
	case 2, 3:
		return sub() + " " + g.pick("OR", "or") + " " + sub()
	case 4:
		return g.pick("NOT ", "NOT", "not ", "NOT NOT ") + sub()
	case 5:
		return "NOT(" + g.sqlExpr(depth-1, params) + ")"
	case 6, 7, 8:
		return sub() + sp() + g.pick("=", "<", ">", "<=", ">=", "<>") + sp() + sub()
	case 9:
		return sub() + " BETWEEN " + sub() + " AND " + sub()
	case 10:
		n := 1 + g.r.Intn(3)
		items := make([]string, n)
		for i := range items {
			items[i] = sub()
		}
		return sub() + " IN" + sp() + "(" + strings.Join(items, ","+sp()) + ")"
	case 11:
		return sub() + " SIMILAR TO " + sub()
	case 12:
		return sub() + sp() + "~" + sp() + sub()
	case 13:
		return "(" + g.sqlExpr(depth-1, params) + ")"
	case 14:
		return sub() + " " + g.pick("NOT IN (1)", "NOT BETWEEN 1 AND 2", "NOT SIMILAR TO 'x'", "IS NULL", "= ANY (1)", "- 1", "+ 1", "-1", "|| 'x'", "!= 1", "~* 'x'", "=-1", "<=-1", "~-1")
	default:
		return at()
	}
}

func (g *gen) exprs(n int) {
	start := len(g.out)
	for tries := 0; len(g.out)-start < n && tries < 20*n; tries++ {
		g.add("B-expr", g.sqlExpr(1+g.r.Intn(4), g.pick("?", "$", "mixed")))
	}
}

var soupToks = []string{
	"AND", "OR", "NOT", "BETWEEN", "IN", "SIMILAR", "TO", "and", "not", "(", ")", ",", "=", "<", ">", "<=", ">=", "<>", "~", "-", "+", "?", "$1", "$2",
	`"a"`, `"b"`, "'x'", "'y'", "''", "1", "2", "1.5", ".5", "5.", "1e5", "x", "NULL", "!=", "||", "::", ";", "--", "/*", "*/", ".", "E'x'", "IS", "LIKE",
}

func (g *gen) soup(n int) {
	start := len(g.out)
	for tries := 0; len(g.out)-start < n && tries < 20*n; tries++ {
		k := 1 + g.r.Intn(9)
		var sb strings.Builder
		for i := 0; i < k; i++ {
			if i > 0 {
				sb.WriteString(g.pick(" ", " ", " ", "", "\n", "\t"))
			}
			sb.WriteString(soupToks[g.r.Intn(len(soupToks))])
		}
		g.add("B-soup", sb.String())
	}
}

// ---------------------------------------------------------------------------------------------------------------
// systematic scanner families (B-lex)

const opChars = "~!@#^&|`?+-*/%<>="

func allStrings(alphabet string, maxLen int) []string {
	var out []string
	var rec func(prefix string, n int)
	rec = func(prefix string, n int) {
		if prefix != "" {
			out = append(out, prefix)
		}
		if n == 0 {
			return
		}
		for i := 0; i < len(alphabet); i++ {
			rec(prefix+string(alphabet[i]), n-1)
		}
	}
	rec("", maxLen)
	return out
}

func (g *gen) randomOver(alphabet string, n int) string {
	b := make([]byte, n)
	for j := range b {
		b[j] = alphabet[g.r.Intn(len(alphabet))]
	}
	return string(b)
}

func (g *gen) lexFamilies(nRandom int) {
	// (1) every operator-character string up to length 3 (and a sample of longer ones) between / before operands
	ops := allStrings(opChars, 3)
	for i := 0; i < 6000; i++ {
		ops = append(ops, g.randomOver(opChars, 4+g.r.Intn(3)))
	}
	for _, op := range ops {
		g.add("B-lex", "1"+op+"2")
		g.add("B-lex", `"a" `+op+`5`)
		if len(op) <= 2 {
			g.add("B-lex", "1 "+op+" 2")
			g.add("B-lex", op+"1")
			g.add("B-lex", "1"+op)
			g.add("B-lex", "'a'"+op+"'b'")
			g.add("B-lex", "1 "+op+"- 2")
			g.add("B-lex", "1 "+op+" -2")
		}
	}
	// (2) every string up to length 5 over a number alphabet, as a constant
	for _, n := range allStrings("10.eE+-x", 5) {
		g.add("B-lex", `"a" = `+n)
	}
	for i := 0; i < 4000; i++ {
		x := g.randomOver("1234567890.eE+-_$a ", 6+g.r.Intn(6))
		g.add("B-lex", `"a" = `+x)
		g.add("B-lex", x)
	}
	// (3) every single byte, and every pair of ASCII bytes, in several contexts
	for c := 1; c < 256; c++ {
		x := string([]byte{byte(c)})
		for _, t := range []string{"%s", "1%s", "%s1", "1 %s 2", "1%s2", "'a'%s'b'", "'a'%s", `"a"%s`, `"a"%s = 1`, "1 =%s 2", "1 = %s2", "a%s", "'a'\n%s'b'",
			"'a'%s\n'b'", "'%s'", `"%s" = 1`, "NOT%s1", "1 AND%s2", "$1%s", "?%s", "1 IN%s(2)", "1e%s5", "1%s5"} {
			g.add("B-lex", strings.ReplaceAll(t, "%s", x))
		}
	}
	for c := 1; c < 128; c++ {
		for d := 1; d < 128; d++ {
			x := string([]byte{byte(c), byte(d)})
			g.add("B-lex", "1"+x+"2")
			g.add("B-lex", "'a'"+x+"'b'")
		}
	}
	// (4) identifier truncation: random byte strings of 58..70 bytes from UTF-8 fragments
	frag := []string{"a", "a", "a", "b", "\xc3\xa9", "\xe2\x82\xac", "\xf0\x9f\x98\x80", "\xc3", "\xa9", "\xe2", "\x82", "\xf0", "\x9f", "\xff", "\xf8", "\xc0", "\x80", "'", " ", "\"\""}
	for i := 0; i < 12000; i++ {
		target := 58 + g.r.Intn(13)
		var sb strings.Builder
		for sb.Len() < target {
			sb.WriteString(frag[g.r.Intn(len(frag))])
		}
		g.add("B-lex", `"`+sb.String()+`" = 1`)
	}
	// (5) random chunk sequences from a lexical alphabet, embedded in templates
	chunks := []string{"'", "''", "\"", "\"\"", " ", "\n", "\r", "\t", "\f", "\v", "-", "--", "/*", "*/", "/", "*", "0", "5", "12", ".", "e", "E", "+", "$", "$1", "?", "=", "<", ">", "<=", ">=", "<>",
		"!=", "~", "!", "@", "#", "^", "&", "|", "`", "%", "a", "b", "x", "n", "N", "u", "U", "U&", "_", "\\", "\xc3\xa9", "\xff", "(", ")", ",", ";", ":", "::", "[", "]", "{", "}",
		"AND", "OR", "NOT", "IN", "TO", "and", "'x'", "\"a\"", "1", " 1", "1 "}
	for i := 0; i < nRandom; i++ {
		k := 1 + g.r.Intn(6)
		var sb strings.Builder
		for j := 0; j < k; j++ {
			sb.WriteString(chunks[g.r.Intn(len(chunks))])
		}
		x := sb.String()
		switch g.r.Intn(8) {
		case 0:
			g.add("B-lex", x)
		case 1:
			g.add("B-lex", `"a" = `+x)
		case 2:
			g.add("B-lex", "'x'"+x+"'y'")
		case 3:
			g.add("B-lex", "1"+x+"2")
		case 4:
			g.add("B-lex", `"a"`+x+"5")
		case 5:
			g.add("B-lex", "1 = "+x+" AND 2")
		case 6:
			g.add("B-lex", "'"+x+"'")
		default:
			g.add("B-lex", `"a" IN (1,`+x+`2)`)
		}
	}
}

// ---------------------------------------------------------------------------------------------------------------
// deep nesting (C-deep): PostgreSQL's parser stack (bison, YYMAXDEPTH = 10000) overflows on deeply nested
// expressions ("memory exhausted"); the model computes the stack need exactly and rejects from 9000 entries on.

func deepCases() []string {
	rep := strings.Repeat
	fams := []func(n int) string{
		func(n int) string { return rep("(", n) + "1" + rep(")", n) },
		func(n int) string { return rep("(", n) + "?" + rep(")", n) },
		func(n int) string { return rep("(", n) + "-1" + rep(")", n) },
		func(n int) string { return rep("(", n) + `"a"` + rep(")", n) },
		func(n int) string { return rep("NOT ", n) + "1" },
		func(n int) string { return rep("NOT ", n) + "$1" },
		func(n int) string { return rep("NOT ", n) + "-1.5" },
		func(n int) string { return rep("NOT(", n) + "'a'" + rep(")", n) },
		func(n int) string { return rep("1 = (1 AND ", n) + "1" + rep(")", n) },
		func(n int) string { return "1" + rep(" OR (1 AND 1", n) + rep(")", n) },
		func(n int) string { return rep(`("a" = 1) AND (`, n) + `"a" = 1` + rep(")", n) },
		func(n int) string { return rep(`("a" = 1) OR (NOT(`, n) + `"a" = 1` + rep("))", n) },
		func(n int) string { return rep("1 IN (2, ", n) + "3" + rep(")", n) },
		func(n int) string { return rep("1 IN (", n) + "3" + rep(")", n) },
		func(n int) string { return rep("(", n) + "1 IN (2, 3)" + rep(")", n) },
		func(n int) string { return rep("(", n) + "1 IN (2)" + rep(")", n) },
		func(n int) string { return rep("1 BETWEEN 0 AND (", n) + "1" + rep(")", n) },
		func(n int) string { return rep("1 BETWEEN (", n) + "0" + rep(") AND 2", n) },
		func(n int) string { return rep("(", n) + "1 BETWEEN 0 AND 2" + rep(")", n) },
		func(n int) string { return rep("(", n) + "1 BETWEEN ? AND 2" + rep(")", n) },
		func(n int) string { return rep("1 SIMILAR TO (", n) + "1" + rep(")", n) },
		func(n int) string { return rep("(", n) + "1 SIMILAR TO ?" + rep(")", n) },
		func(n int) string { return rep("1 ~ (", n) + "1" + rep(")", n) },
		func(n int) string { return rep("(", n) + "1 ~ -1" + rep(")", n) },
		func(n int) string { return rep("(", n) + "1 >= ?" + rep(")", n) },
		func(n int) string { return rep("(", n) + "1 AND 2 AND 3 OR 4 OR NOT 5 = 6" + rep(")", n) },
		func(n int) string { return rep("1 OR 2 AND NOT 3 = 4 BETWEEN 5 AND 6 ~ (", n) + "?" + rep(")", n) },
		func(n int) string { return "1" + rep(" AND 1", n) },
		func(n int) string { return `"a" IN (1` + rep(", 1", n) + ")" },
	}
	// around the model's bound (9000) and PostgreSQL's (10000) for stack needs of 1, 2, 3, 4, 5, 6, 15 entries per level
	ns := []int{100, 590, 600, 610, 660, 670, 1490, 1500, 1510, 1660, 1670, 1790, 1800, 1810, 1990, 2000, 2240, 2250, 2260, 2490, 2500,
		2990, 3000, 3010, 3320, 3330, 3340, 4490, 4500, 4510, 4990, 5000, 8970, 8980, 8990, 9000, 9970, 9980, 9990, 10000, 11000}
	var xs []string
	for _, f := range fams {
		for _, n := range ns {
			xs = append(xs, f(n))
		}
	}
	return xs
}

// ---------------------------------------------------------------------------------------------------------------
// hand-written edge cases

func handWritten() []string {
	long := func(n int, fill string) string { return strings.Repeat(fill, n) }
	xs := []string{
		// every shape go-lucene emits
		`"col" = 'x'`, `"col" = 5`, `"col" = -5`, `"col" = 1.5`, `"col" = 1e+06`, `5 = 'x'`, `'a'`, `5`, `("a" = 'b') AND ("c" = 'd')`,
		`NOT("a" = 'b')`, `NOT('a')`, `"a" > 5`, `"a" >= 1 AND "a" <= 5`, `("a" >= 1 AND "a" <= 5) OR ("b" = 1)`, `"a" BETWEEN 'x' AND 'y'`,
		`"a" BETWEEN 1.5 AND '*'`, `"a" IN (1, 2, 'x')`, `"a" SIMILAR TO 'foo%'`, `"a" ~ '/re/'`, `"a" = (('b') OR ('c'))`, `"a" = ?`, `"a" IN (?, ?)`,
		`"a" >= ? AND "a" <= ?`, `? >= ? AND ? <= ?`, `"a" BETWEEN ? AND '*'`, `"a" <= 0.00`, `"a" > -1.50`, `"a" >= -1.50 AND "a" <= 2.25`,
		`((("a" = 'b')))`, `NOT(NOT('a'))`, `'a' AND 'b'`, `('a' OR ('b' AND 'c')) OR 'd'`, `"a" = '''b'''`, `"a" = ''`, `"foo bar" = 'b'`,
		// string scanning
		"'a'\n'b'", "'a'\r'b'", "'a' \n\t 'b'", "'a' 'b'", "'a'\t'b'", "'a'\f'b'", "'a'\v'b'", "'a'\n'b'\n'c'", "'a'\n''", "'a'\n", "'a'\n 5", "'a'\n'",
		"'a'--\n'b'", "'a'\n--x\n'b'", "'a' /* */ 'b'", "'a'\n/**/'b'", "'it''s'", "''''", "'''", "'", "'\\'", "'\\''", "'\\n'", "'a\nb'", "'a;b'", "'a--b'", "'a/*b'",
		"'\x00'", "a\x00", "\x00", "'\xff'", "'\xc3'", "'\xc3\xa9'", "\"\xff\" = 1", "\xff", "\xc3\xa9 = 1", "E'a'", "e'a'", "E 'a'", "U&'a'", "u&'a'", "U & 'a'", "N'a'", "B'1'", "X'1'",
		"NOT'a'", "NOT\n'a'", "'a'AND'b'", "1AND 2", "1 AND2", "1 AND 2", "IN'x'", "'a' IN('x')", "'a' BETWEEN'a'AND'b'", "'a'SIMILAR TO'b'", "'a'SIMILAR\nTO'b'", "'a' SIMILAR'b'",
		"$$a$$", "$x$a$x$", "$1", "$1 = 1", "$1a", "$", "$ 1", "$0", "$00", "$01", "$2147483647", "$2147483648", "$99999999999999999999", "AND$1", "1 = $1AND 2", "?", "??", "? ?", "?=?", "? = ?", "?,?",
		"? = $1", "$1 = ?", "'?'", `"?"`, "-?", "- ?", "?-1", "1 -?", "(?)", "NOT ?", "NOT?",
		// identifiers
		`""`, `"" = 1`, `"a""b" = 1`, `""""`, `"""" = 1`, `"a`, `"a" "b"`, `"a"."b" = 1`, `"a" . "b"`, `"a"[1]`, `"a"(1)`, `"a" (1)`, `"a" 'x'`, `"a"'x'`, `"a"1`, `U&"a" = 1`, `u&"a"`,
		`a`, `a = 1`, `A."b"`, `_x`, `é`, `NaN`, `"a" = NaN`, `"a" = +Inf`, `"a" = Infinity`, `true`, `NULL`, `"a" = null`, `"a" IS NULL`,
		`"` + long(62, "a") + `" = 1`, `"` + long(63, "a") + `" = 1`, `"` + long(64, "a") + `" = 1`, `"` + long(65, "a") + `" = 1`, `"` + long(200, "a") + `" = 1`,
		`"` + long(62, "a") + `é" = 1`, `"` + long(61, "a") + `é" = 1`, `"` + long(62, "a") + `éé" = 1`, `"` + long(61, "a") + `日b" = 1`, `"` + long(62, "a") + `日b" = 1`, `"` + long(60, "a") + `😀b" = 1`,
		`"` + long(61, "a") + `😀b" = 1`, `"` + long(62, "a") + "\xff\xff" + `" = 1`, `"` + long(62, "a") + "\xc3" + `" = 1`, `"` + long(62, "a") + "\xc3" + `b" = 1`, `"` + long(61, "a") + "\xe2\x82" + `" = 1`,
		`"` + long(60, "a") + "\xf0\x9f\x98\x80" + `" = 1`, `"` + long(30, "é") + `abcd" = 1`, `"` + long(31, "é") + `abcd" = 1`, `"` + long(32, "é") + `" = 1`, `"` + long(21, "日") + `ab" = 1`,
		`"` + long(62, "a") + "\x80\x80\x80" + `" = 1`, `"` + long(61, "a") + "\xf8\x80\x80\x80\x80" + `" = 1`, `"` + long(31, `""`) + `x` + long(40, "y") + `" = 1`,
		// numbers
		"5a", "1e", "1e+", "1e+5", "1e5", "1E5", "1e-5", "1.2.3", "1..2", "1.", "1.e5", ".5", ".", "5.", ". 5", "1. 5", "5 .", "1.5.", "0x10", "1_000", "1e5e5", "1e5.5", "1.5e+5x", "5_", "5$", "5$1", "5é", "5\xff",
		"007", "0", "-0", "- 0", "-0.0", "2147483647", "2147483648", "-2147483648", "-2147483647", "00000000002147483647", "00000000002147483648", "9223372036854775808", "1e400",
		"-5", "- 5", "-\n5", "--5", "- -5", "-(5)", "-(-5)", "+5", "-'a'", `-"a"`, "-$1", "- ?", "5 - 5", "5 -5", "5-5", `"a" -5`, `"a" = -5`, `"a" =-5`, `"a"=-5`, `"a" <=-5`, `"a" >=-5`, `"a" <>-5`, `"a" <-5`, `"a" >-5`, `"a" ~-5`, `"a" ~ -5`,
		`"a" =- 5`, `"a" =+5`, `"a" =+-5`, `"a" =-+5`, `"a" <-+-5`,
		// operators
		`1 = 1`, `1 == 1`, `1 != 1`, `1 <> 1`, `1 < > 1`, `1 <= 1`, `1 < = 1`, `1 >= 1`, `1 => 1`, `1 <=> 1`, `1 ~ 1`, `1 ~* 1`, `1 !~ 1`, `1 ~~ 1`, `1 || 1`, `1 + 1`, `1 * 1`, `1 / 1`, `1 % 1`, `1 ^ 1`, `1 & 1`, `1 | 1`, `1 # 1`, `1 @ 1`,
		`~ 1`, `1 ~`, `! 1`, `1 !`, `@ 1`, `1 =-- 2`, `1 =/* x */ 2`, `1 = -- x` + "\n2", `1 /* x */ = 2`, `1 -- x`, `1 --`, `--`, `/*`, `/**/1`, `1/**/`, `1 /* /* nested */ */`, `1 = 2;`, `1; 2`, `;`, `1 = 2 --`,
		`1 OPERATOR(=) 1`, `1 OPERATOR(pg_catalog.=) 1`,
		// grammar
		`1 = 2 = 3`, `1 < 2 > 3`, `1 = 2 AND 3 = 4`, `1 = 2 OR 3 = 4 AND 5 = 6`, `NOT 1 = 2`, `NOT NOT 1`, `1 = NOT 2`, `1 AND NOT 2`, `NOT 1 AND 2`, `NOT 1 OR 2`, `1 ~ 2 ~ 3`, `1 ~ 2 = 3`, `1 = 2 ~ 3`, `1 = 2 ~ 3 = 4`,
		`1 BETWEEN 2 AND 3`, `1 BETWEEN 2 AND 3 AND 4`, `1 BETWEEN 2 AND 3 OR 4`, `1 BETWEEN 2 AND 3 = 4`, `1 = 2 BETWEEN 3 AND 4`, `1 BETWEEN 2 = 3 AND 4`, `1 BETWEEN 2 AND 3 BETWEEN 4 AND 5`, `1 BETWEEN 2 ~ 3 AND 4 ~ 5`,
		`1 BETWEEN NOT 2 AND 3`, `1 BETWEEN 2 AND NOT 3`, `1 BETWEEN 2 AND NOT 3 = 4`, `1 BETWEEN (2 AND 3) AND 4`, `1 BETWEEN -2 AND -3`, `1 BETWEEN 2 AND`, `1 BETWEEN 2`, `1 BETWEEN SYMMETRIC 2 AND 3`, `1 NOT BETWEEN 2 AND 3`,
		`1 IN (2)`, `1 IN (2, 3)`, `1 IN ()`, `1 IN 2`, `1 IN (2`, `1 IN (2,)`, `1 IN ((2))`, `1 IN ((2), (3))`, `1 IN (2 AND 3)`, `1 IN (NOT 2)`, `1 IN (2) IN (3)`, `1 IN (2) = 3`, `1 = 2 IN (3)`, `1 IN (2) ~ 3`, `1 ~ 2 IN (3)`, `1 NOT IN (2)`, `1 IN (SELECT 2)`,
		`1 IN (2) AND 3`, `1 IN (2, 3) IS NULL`, `(1, 2) IN ((1, 2))`, `(1, 2)`, `(1, 2) = (1, 2)`, `1 IN (VALUES (1))`,
		`1 SIMILAR TO 2`, `1 SIMILAR TO 2 ESCAPE 3`, `1 SIMILAR TO 2 SIMILAR TO 3`, `1 SIMILAR TO 2 ~ 3`, `1 ~ 2 SIMILAR TO 3`, `1 SIMILAR TO 2 = 3`, `1 = 2 SIMILAR TO 3`, `1 NOT SIMILAR TO 2`, `1 SIMILAR 2`, `1 SIMILAR TO`, `1 SIMILAR TO NOT 2`, `1 LIKE 2`, `1 ILIKE 2`,
		`NOT(1)`, `NOT (1)`, `NOT(1, 2)`, `NOT()`, `not(1)`, `NOT IN (1)`, `NOT BETWEEN 1 AND 2`, `1 AND`, `AND 1`, `1 OR`, `OR`, `()`, `(`, `)`, `(1`, `1)`, `1) OR (2`, `1) UNION SELECT 1 WHERE (1`, `((1))`, `(1)(2)`, `(1) (2)`, `1 2`, `1, 2`, `,`, ``, ` `, "\n",
		`1 AND 2 AND 3`, `1 AND (2 AND 3)`, `(1 AND 2) AND 3`, `1 OR 2 OR 3`, `1 OR (2 OR (3 OR 4))`, `1 AND 2 OR 3 AND 4`, `(1 OR 2) AND (3 OR 4)`, `1 AND (2 OR 3) AND 4`, `NOT (1 AND 2) AND 3`,
		`f(1)`, `f()`, `lower('a') = 'a'`, `"a"::text = 'a'`, `CAST("a" AS text)`, `'a'::text`, `(SELECT 1)`, `EXISTS (SELECT 1)`, `ARRAY[1]`, `'{1}'`, `"a"[1]`, `1 = ANY ('{1}')`, `CASE WHEN 1 THEN 2 END`, `COALESCE(1, 2)`,
		`1 IS NULL`, `1 ISNULL`, `1 IS TRUE`, `1 IS DISTINCT FROM 2`, `1 COLLATE "C"`, `1 AT TIME ZONE 'x'`, `"a" = DEFAULT`, `*`, `t.*`, `1 AS x`,
		"1 =\n2", "1\n=\n2", "1\t=\r\n2", "1\f=\f2", "1\v=\v2", "1 \u00a0= 2", "1\u00a0", "\ufeff1",
	}
	// deep nesting: fuel must be sufficient
	for _, n := range []int{1, 5, 50, 200} {
		xs = append(xs, strings.Repeat("(", n)+"1"+strings.Repeat(")", n))
		xs = append(xs, strings.Repeat("NOT ", n)+"1")
		xs = append(xs, strings.Repeat("NOT(", n)+"1"+strings.Repeat(")", n))
		xs = append(xs, "1"+strings.Repeat(" AND 1", n))
		xs = append(xs, "1"+strings.Repeat(" OR (1 AND 1", n)+strings.Repeat(")", n))
		xs = append(xs, "1"+strings.Repeat(" ~ 1", n))
		xs = append(xs, `"a" IN (1`+strings.Repeat(", 1", n)+")")
		xs = append(xs, "'a'"+strings.Repeat("\n'a'", n))
	}
	return xs
}

// ---------------------------------------------------------------------------------------------------------------

type genConfig struct {
	seed                                     int64
	deep                                     bool
	nLucene, nTree, nMut, nExpr, nSoup, nLex int
}

func defaultGenConfig() genConfig {
	return genConfig{seed: 1, deep: true, nLucene: 90000, nTree: 40000, nMut: 90000, nExpr: 40000, nSoup: 15000, nLex: 40000}
}

func (c *genConfig) flags(fs *flag.FlagSet) {
	fs.Int64Var(&c.seed, "seed", c.seed, "random seed")
	fs.BoolVar(&c.deep, "deep", c.deep, "include the deep-nesting family C-deep (about 1200 texts, 20 MB)")
	fs.IntVar(&c.nLucene, "lucene", c.nLucene, "number of distinct ToPostgres/ToParameterizedPostgres outputs (A-pg + A-param)")
	fs.IntVar(&c.nTree, "tree", c.nTree, "number of distinct outputs of directly built trees (A-tree)")
	fs.IntVar(&c.nMut, "mut", c.nMut, "number of distinct hostile mutations (B-mut)")
	fs.IntVar(&c.nExpr, "expr", c.nExpr, "number of distinct random fragment expressions (B-expr)")
	fs.IntVar(&c.nSoup, "soup", c.nSoup, "number of distinct token soups (B-soup)")
	fs.IntVar(&c.nLex, "lex", c.nLex, "number of random chunk sequences in B-lex (the systematic scanner families are always generated; -1 turns B-lex off)")
}

func generate(c genConfig) []item {
	g := &gen{r: rand.New(rand.NewSource(c.seed)), seen: map[string]bool{}}
	for _, s := range handWritten() {
		g.add("C-hand", s)
	}
	g.luceneOutputs(len(g.out) + c.nLucene)
	g.treeOutputs(c.nTree)
	g.mutations(c.nMut)
	g.exprs(c.nExpr)
	g.soup(c.nSoup)
	if c.nLex >= 0 {
		g.lexFamilies(c.nLex)
	}
	if c.deep {
		for _, s := range deepCases() {
			g.add("C-deep", s)
		}
	}
	return g.out
}

func genMain(args []string) error {
	c := defaultGenConfig()
	fs := flag.NewFlagSet("gen", flag.ContinueOnError)
	c.flags(fs)
	if err := fs.Parse(args); err != nil {
		return err
	}
	w := bufio.NewWriterSize(os.Stdout, 1<<20)
	defer w.Flush()
	for _, it := range generate(c) {
		fmt.Fprintf(w, "%s\t%s\n", it.cat, hex.EncodeToString([]byte(it.sql)))
	}
	return nil
}
