// pgref: PostgreSQL's own parser as a reference for the Lean model GoLucene.Sql.
//
//	pgref                 filter: stdin lines hex(sql)  ->  stdout lines  ok <canon> | outside <reason> | error <msg>
//	pgref gen [...]       corpus generator: lines  <category>\t<hex(sql)>
//	pgref validate [...]  generate, run the reference and the Lean driver, compare
package main

import (
	"bufio"
	"encoding/hex"
	"fmt"
	"os"
	"runtime"
	"strings"
	"sync"
)

// checkAll runs the reference over all texts (in parallel, order preserved).
func checkAll(r *Ref, texts []string) []string {
	out := make([]string, len(texts))
	var wg sync.WaitGroup
	nw := runtime.NumCPU()
	chunk := (len(texts) + nw - 1) / nw
	for w := 0; w < nw; w++ {
		lo, hi := w*chunk, (w+1)*chunk
		if hi > len(texts) {
			hi = len(texts)
		}
		if lo >= hi {
			break
		}
		wg.Add(1)
		go func(lo, hi int) {
			defer wg.Done()
			runtime.LockOSThread()
			for i := lo; i < hi; i++ {
				k, v := r.Check(texts[i])
				out[i] = k + " " + v
			}
		}(lo, hi)
	}
	wg.Wait()
	return out
}

func filter(r *Ref) error {
	in := bufio.NewReaderSize(os.Stdin, 1<<20)
	w := bufio.NewWriterSize(os.Stdout, 1<<20)
	defer w.Flush()
	for {
		line, err := in.ReadString('\n')
		if line == "" && err != nil {
			return nil
		}
		line = strings.TrimRight(line, "\r\n")
		raw, herr := hex.DecodeString(line)
		if herr != nil {
			fmt.Fprintln(w, "error bad hex input")
		} else {
			k, v := r.Check(string(raw))
			fmt.Fprintln(w, k+" "+v)
		}
		if err != nil {
			return nil
		}
	}
}

func main() {
	r, err := NewRef()
	if err != nil {
		fmt.Fprintln(os.Stderr, "pgref:", err)
		os.Exit(2)
	}
	args := os.Args[1:]
	switch {
	case len(args) == 0:
		err = filter(r)
	case args[0] == "gen":
		err = genMain(args[1:])
	case args[0] == "validate":
		err = validateMain(r, args[1:])
	default:
		err = fmt.Errorf("usage: pgref [gen|validate] (see README.md)")
	}
	if err != nil {
		fmt.Fprintln(os.Stderr, "pgref:", err)
		os.Exit(1)
	}
}
