// validate: generate the corpus (or read one), run PostgreSQL's parser (in-process) and the Lean model (a driver
// process speaking the same line protocol), and compare.
//
//	REQUIRED (soundness):    Lean `ok c`  =>  pgref `ok c` with the identical canonical text
//	DESIRED  (completeness): pgref `ok` on category A (go-lucene output)  =>  Lean `ok`
package main

import (
	"bufio"
	"encoding/hex"
	"flag"
	"fmt"
	"io"
	"os"
	"os/exec"
	"sort"
	"strconv"
	"strings"
)

func runLean(cmdline string, texts []string) ([]string, error) {
	cmd := exec.Command("sh", "-c", cmdline)
	cmd.Stderr = os.Stderr
	stdin, err := cmd.StdinPipe()
	if err != nil {
		return nil, err
	}
	stdout, err := cmd.StdoutPipe()
	if err != nil {
		return nil, err
	}
	if err := cmd.Start(); err != nil {
		return nil, err
	}
	go func() {
		w := bufio.NewWriterSize(stdin, 1<<20)
		for _, t := range texts {
			w.WriteString(hex.EncodeToString([]byte(t)))
			w.WriteByte('\n')
		}
		w.Flush()
		stdin.Close()
	}()
	out := make([]string, 0, len(texts))
	rd := bufio.NewReaderSize(stdout, 1<<20)
	for {
		line, err := rd.ReadString('\n')
		if line != "" {
			out = append(out, strings.TrimRight(line, "\r\n"))
		}
		if err == io.EOF {
			break
		}
		if err != nil {
			return nil, err
		}
	}
	if err := cmd.Wait(); err != nil {
		return nil, fmt.Errorf("lean driver: %v", err)
	}
	if len(out) != len(texts) {
		return nil, fmt.Errorf("lean driver answered %d lines for %d texts", len(out), len(texts))
	}
	return out, nil
}

func readCorpus(path string) ([]item, error) {
	f, err := os.Open(path)
	if err != nil {
		return nil, err
	}
	defer f.Close()
	var items []item
	sc := bufio.NewScanner(f)
	sc.Buffer(make([]byte, 1<<20), 1<<26)
	for sc.Scan() {
		line := sc.Text()
		cat, hx := "file", line
		if i := strings.IndexByte(line, '\t'); i >= 0 {
			cat, hx = line[:i], line[i+1:]
		}
		raw, err := hex.DecodeString(hx)
		if err != nil {
			return nil, fmt.Errorf("bad hex line %q", line)
		}
		items = append(items, item{cat, string(raw)})
	}
	return items, sc.Err()
}

type catStat struct {
	n, leanOK, pgOK, pgOutside, pgError, agreeOK, unsound, incomplete int
}

func validateMain(r *Ref, args []string) error {
	c := defaultGenConfig()
	fs := flag.NewFlagSet("validate", flag.ContinueOnError)
	c.flags(fs)
	leanCmd := fs.String("lean", "", "shell command of the Lean driver (reads hex lines, prints `ok <canon>` / `none`)")
	inFile := fs.String("in", "", "read the corpus from this file (lines `cat<TAB>hex` or `hex`) instead of generating it")
	maxShow := fs.Int("show", 40, "number of examples to print per class")
	dump := fs.String("dump", "", "write every compared line (cat, hex, lean answer, pgref answer) to this file")
	if err := fs.Parse(args); err != nil {
		return err
	}
	if *leanCmd == "" {
		return fmt.Errorf("validate: -lean '<driver command>' is required")
	}
	var items []item
	var err error
	if *inFile != "" {
		items, err = readCorpus(*inFile)
		if err != nil {
			return err
		}
	} else {
		items = generate(c)
	}
	texts := make([]string, len(items))
	for i, it := range items {
		texts[i] = it.sql
	}
	fmt.Printf("corpus: %d distinct texts\n", len(texts))
	pg := checkAll(r, texts)
	lean, err := runLean(*leanCmd, texts)
	if err != nil {
		return err
	}
	if *dump != "" {
		f, err := os.Create(*dump)
		if err != nil {
			return err
		}
		w := bufio.NewWriterSize(f, 1<<20)
		for i, it := range items {
			fmt.Fprintf(w, "%s\t%s\t%s\t%s\n", it.cat, hex.EncodeToString([]byte(it.sql)), lean[i], pg[i])
		}
		w.Flush()
		f.Close()
	}

	stats := map[string]*catStat{}
	var unsound, incompleteA []int
	outsideA := map[string]int{}
	outsideAEx := map[string]int{}
	errorA := 0
	var errorAEx []int
	for i, it := range items {
		st := stats[it.cat]
		if st == nil {
			st = &catStat{}
			stats[it.cat] = st
		}
		st.n++
		lok := strings.HasPrefix(lean[i], "ok ")
		pok := strings.HasPrefix(pg[i], "ok ")
		if lok {
			st.leanOK++
		}
		switch {
		case pok:
			st.pgOK++
		case strings.HasPrefix(pg[i], "outside "):
			st.pgOutside++
		default:
			st.pgError++
		}
		if lok && pok && lean[i] == pg[i] {
			st.agreeOK++
		}
		if lok && lean[i] != pg[i] {
			st.unsound++
			unsound = append(unsound, i)
		}
		if pok && !lok {
			st.incomplete++
			if strings.HasPrefix(it.cat, "A-") {
				incompleteA = append(incompleteA, i)
			}
		}
		if strings.HasPrefix(it.cat, "A-") && !pok {
			if strings.HasPrefix(pg[i], "outside ") {
				k := strings.TrimPrefix(pg[i], "outside ")
				if _, ok := outsideAEx[k]; !ok {
					outsideAEx[k] = i
				}
				outsideA[k]++
			} else {
				errorA++
				if len(errorAEx) < *maxShow {
					errorAEx = append(errorAEx, i)
				}
			}
		}
	}
	cats := make([]string, 0, len(stats))
	for k := range stats {
		cats = append(cats, k)
	}
	sort.Strings(cats)
	fmt.Printf("\n%-8s %8s %8s %8s %10s %8s %9s | %8s %12s\n", "category", "texts", "lean-ok", "pg-ok", "pg-outside", "pg-error", "both-same", "UNSOUND", "pg-ok&lean-none")
	tot := catStat{}
	for _, k := range cats {
		s := stats[k]
		fmt.Printf("%-8s %8d %8d %8d %10d %8d %9d | %8d %12d\n", k, s.n, s.leanOK, s.pgOK, s.pgOutside, s.pgError, s.agreeOK, s.unsound, s.incomplete)
		tot.n += s.n
		tot.leanOK += s.leanOK
		tot.pgOK += s.pgOK
		tot.pgOutside += s.pgOutside
		tot.pgError += s.pgError
		tot.agreeOK += s.agreeOK
		tot.unsound += s.unsound
		tot.incomplete += s.incomplete
	}
	fmt.Printf("%-8s %8d %8d %8d %10d %8d %9d | %8d %12d\n", "total", tot.n, tot.leanOK, tot.pgOK, tot.pgOutside, tot.pgError, tot.agreeOK, tot.unsound, tot.incomplete)

	show := func(i int) {
		fmt.Printf("  [%s] %s\n      lean:  %s\n      pgref: %s\n", items[i].cat, strconv.QuoteToASCII(items[i].sql), lean[i], pg[i])
	}
	fmt.Printf("\nSOUNDNESS (required): Lean ok => pgref ok with identical canon: %d violations in %d Lean-ok texts\n", len(unsound), tot.leanOK)
	for k, i := range unsound {
		if k >= *maxShow {
			fmt.Printf("  ... %d more\n", len(unsound)-k)
			break
		}
		show(i)
	}
	nA, nAok := 0, 0
	for _, k := range cats {
		if strings.HasPrefix(k, "A-") {
			nA += stats[k].n
			nAok += stats[k].pgOK
		}
	}
	fmt.Printf("\nCOMPLETENESS (desired) on category A (go-lucene output): pgref ok => Lean ok: %d gaps in %d pgref-ok texts (of %d)\n", len(incompleteA), nAok, nA)
	for k, i := range incompleteA {
		if k >= *maxShow {
			fmt.Printf("  ... %d more\n", len(incompleteA)-k)
			break
		}
		show(i)
	}
	fmt.Printf("\ncategory A texts that PostgreSQL itself does not read as a confined expression (Lean must answer none, and does unless counted UNSOUND above):\n")
	fmt.Printf("  pgref error (PostgreSQL syntax error): %d\n", errorA)
	for _, i := range errorAEx {
		if len(items[i].sql) < 200 {
			show(i)
		}
	}
	keys := make([]string, 0, len(outsideA))
	for k := range outsideA {
		keys = append(keys, k)
	}
	sort.Strings(keys)
	for _, k := range keys {
		fmt.Printf("  pgref outside (%s): %d, e.g. %s\n", k, outsideA[k], strconv.QuoteToASCII(trunc(items[outsideAEx[k]].sql, 160)))
	}
	if len(unsound) > 0 {
		return fmt.Errorf("%d soundness violations", len(unsound))
	}
	return nil
}

func trunc(s string, n int) string {
	if len(s) > n {
		return s[:n] + "..."
	}
	return s
}
