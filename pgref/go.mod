module golucene-verif/pgref

go 1.22

require (
	github.com/grindlemire/go-lucene v0.0.0
	github.com/pganalyze/pg_query_go/v4 v4.2.3
)

require (
	github.com/golang/protobuf v1.4.2
	google.golang.org/protobuf v1.23.0
)

replace github.com/grindlemire/go-lucene => /repo
