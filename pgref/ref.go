// Reference reading of a WHERE text by PostgreSQL's own scanner and grammar (pg_query_go = libpg_query, PG 15),
// mapped into the canonical S-expression format of GoLucene.Sql.canon (lean/GoLucene/Model/Sql.lean).
package main

import (
	"encoding/hex"
	"fmt"
	"strconv"
	"strings"

	pg_query "github.com/pganalyze/pg_query_go/v4"
	"github.com/pganalyze/pg_query_go/v4/parser"
	"google.golang.org/protobuf/encoding/protowire"
	"google.golang.org/protobuf/proto"
	"google.golang.org/protobuf/reflect/protoreflect"
)

const (
	wrapPrefix = "SELECT 1 FROM t WHERE ("
	wrapSuffix = ")"
)

// hexStrings rewrites a serialized protobuf message so that every `string` field holds the lower-case hex
// encoding of its original bytes.  PostgreSQL's raw parser does not validate the encoding of string constants
// and quoted identifiers, but Go's protobuf decoder refuses proto3 strings that are not valid UTF-8; with this
// rewriting the tree of a hostile text can still be decoded, and every string is read back byte-exactly.
// Two passes (sizes of the rewritten sub-messages first, in pre-order) keep it linear for deeply nested trees.
type hexer struct {
	sizes []int
	pos   int
}

func (h *hexer) measure(md protoreflect.MessageDescriptor, b []byte) (int, error) {
	total := 0
	for len(b) > 0 {
		num, typ, n := protowire.ConsumeTag(b)
		if n < 0 {
			return 0, protowire.ParseError(n)
		}
		b = b[n:]
		total += n
		if typ != protowire.BytesType {
			m := protowire.ConsumeFieldValue(num, typ, b)
			if m < 0 {
				return 0, protowire.ParseError(m)
			}
			total += m
			b = b[m:]
			continue
		}
		v, m := protowire.ConsumeBytes(b)
		if m < 0 {
			return 0, protowire.ParseError(m)
		}
		b = b[m:]
		newLen := len(v)
		if fd := md.Fields().ByNumber(num); fd != nil {
			switch fd.Kind() {
			case protoreflect.StringKind:
				newLen = 2 * len(v)
			case protoreflect.MessageKind:
				idx := len(h.sizes)
				h.sizes = append(h.sizes, 0)
				sub, err := h.measure(fd.Message(), v)
				if err != nil {
					return 0, err
				}
				h.sizes[idx] = sub
				newLen = sub
			}
		}
		total += protowire.SizeBytes(newLen)
	}
	return total, nil
}

func (h *hexer) emit(md protoreflect.MessageDescriptor, b []byte, out []byte) []byte {
	for len(b) > 0 {
		num, typ, n := protowire.ConsumeTag(b)
		b = b[n:]
		out = protowire.AppendTag(out, num, typ)
		if typ != protowire.BytesType {
			m := protowire.ConsumeFieldValue(num, typ, b)
			out = append(out, b[:m]...)
			b = b[m:]
			continue
		}
		v, m := protowire.ConsumeBytes(b)
		b = b[m:]
		fd := md.Fields().ByNumber(num)
		switch {
		case fd != nil && fd.Kind() == protoreflect.StringKind:
			out = protowire.AppendVarint(out, uint64(2*len(v)))
			const digits = "0123456789abcdef"
			for _, c := range v {
				out = append(out, digits[c>>4], digits[c&15])
			}
		case fd != nil && fd.Kind() == protoreflect.MessageKind:
			size := h.sizes[h.pos]
			h.pos++
			out = protowire.AppendVarint(out, uint64(size))
			out = h.emit(fd.Message(), v, out)
		default:
			out = protowire.AppendBytes(out, v)
		}
	}
	return out
}

func hexStrings(md protoreflect.MessageDescriptor, b []byte) ([]byte, error) {
	h := &hexer{}
	total, err := h.measure(md, b)
	if err != nil {
		return nil, err
	}
	return h.emit(md, b, make([]byte, 0, total)), nil
}

// parseHexed parses sql with PostgreSQL's parser; all strings of the returned tree are hex-encoded.
func parseHexed(sql string) (*pg_query.ParseResult, error) {
	raw, err := parser.ParseToProtobuf(sql)
	if err != nil {
		return nil, err
	}
	res := &pg_query.ParseResult{}
	hexed, err := hexStrings(res.ProtoReflect().Descriptor(), raw)
	if err != nil {
		return nil, fmt.Errorf("protobuf wire: %v", err)
	}
	if err := proto.Unmarshal(hexed, res); err != nil {
		return nil, fmt.Errorf("protobuf decode: %v", err)
	}
	return res, nil
}

func hx(s string) string { return hex.EncodeToString([]byte(s)) }

type outsideErr struct{ reason string }

func (e *outsideErr) Error() string { return e.reason }

func outside(format string, a ...any) error { return &outsideErr{fmt.Sprintf(format, a...)} }

// Ref holds the parse of the empty frame `SELECT 1 FROM t`, against which the shape of every statement is compared.
type Ref struct {
	frame *pg_query.RawStmt
}

func NewRef() (*Ref, error) {
	res, err := parseHexed("SELECT 1 FROM t")
	if err != nil {
		return nil, err
	}
	if len(res.Stmts) != 1 {
		return nil, fmt.Errorf("frame: %d statements", len(res.Stmts))
	}
	return &Ref{frame: res.Stmts[0]}, nil
}

// allowed scanner tokens inside the text (everything else is outside the confined lexical fragment)
func tokenOutside(src string, t *pg_query.ScanToken) string {
	text := src[t.Start:t.End]
	switch t.Token {
	case pg_query.Token_SCONST:
		if text[0] != '\'' {
			return "string constant with prefix or dollar quoting"
		}
	case pg_query.Token_IDENT:
		if text[0] != '"' {
			return "unquoted identifier"
		}
	case pg_query.Token_ICONST, pg_query.Token_FCONST, pg_query.Token_PARAM:
	case pg_query.Token_ASCII_40, pg_query.Token_ASCII_41, pg_query.Token_ASCII_44, pg_query.Token_ASCII_45,
		pg_query.Token_ASCII_60, pg_query.Token_ASCII_61, pg_query.Token_ASCII_62,
		pg_query.Token_LESS_EQUALS, pg_query.Token_GREATER_EQUALS:
	case pg_query.Token_NOT_EQUALS:
		if text != "<>" {
			return "operator " + text
		}
	case pg_query.Token_Op:
		if text != "~" && text != "?" {
			return "operator " + text
		}
	case pg_query.Token_AND, pg_query.Token_OR, pg_query.Token_NOT, pg_query.Token_BETWEEN,
		pg_query.Token_IN_P, pg_query.Token_SIMILAR, pg_query.Token_TO:
	case pg_query.Token_SQL_COMMENT, pg_query.Token_C_COMMENT:
		return "comment"
	default:
		return "token " + t.Token.String()
	}
	return ""
}

// Check returns ("ok", canon), ("outside", reason) or ("error", message) for one WHERE text.
func (r *Ref) Check(sql string) (string, string) {
	if strings.IndexByte(sql, 0) >= 0 {
		return "error", "NUL byte (cannot be passed to PostgreSQL)"
	}
	src := wrapPrefix + sql + wrapSuffix
	scan, err := pg_query.Scan(src)
	if err != nil {
		return "error", "scan: " + oneLine(err.Error())
	}
	// token classes, and rewriting of `?` placeholders to $1, $2, ... (pg_query v4 has no `?` placeholders)
	lo, hi := int32(len(wrapPrefix)), int32(len(wrapPrefix)+len(sql))
	reason := ""
	var sb strings.Builder
	pos := int32(0)
	nq, ndollar := 0, 0
	closed := false
	for _, t := range scan.Tokens {
		if t.Start < lo {
			continue
		}
		if t.Start >= hi {
			if t.Start == hi && t.End == hi+1 && t.Token == pg_query.Token_ASCII_41 {
				closed = true
			}
			continue
		}
		if t.End > hi {
			if reason == "" {
				reason = "token runs over the closing parenthesis"
			}
			continue
		}
		if why := tokenOutside(src, t); why != "" && reason == "" {
			reason = why
		}
		if t.Token == pg_query.Token_PARAM {
			ndollar++
		}
		if t.Token == pg_query.Token_Op && src[t.Start:t.End] == "?" {
			nq++
			sb.WriteString(src[pos:t.Start])
			sb.WriteString(" $" + strconv.Itoa(nq) + " ")
			pos = t.End
		}
	}
	sb.WriteString(src[pos:])
	if !closed && reason == "" {
		reason = "closing parenthesis of the frame is not a token of its own"
	}
	if nq > 0 && ndollar > 0 && reason == "" {
		reason = "mixed ? and $n placeholders"
	}
	res, err := parseHexed(sb.String())
	if err != nil {
		return "error", "parse: " + oneLine(err.Error())
	}
	if reason != "" {
		return "outside", reason
	}
	if len(res.Stmts) != 1 {
		return "outside", fmt.Sprintf("%d statements", len(res.Stmts))
	}
	st := res.Stmts[0]
	sel := st.GetStmt().GetSelectStmt()
	if sel == nil {
		return "outside", "not a SELECT"
	}
	where := sel.WhereClause
	sel.WhereClause = nil
	if !proto.Equal(st, r.frame) {
		return "outside", "statement shape differs from SELECT 1 FROM t WHERE (...)"
	}
	if where == nil {
		return "outside", "no WHERE clause"
	}
	c, err := canonNode(where)
	if err != nil {
		if o, ok := err.(*outsideErr); ok {
			return "outside", o.reason
		}
		return "error", err.Error()
	}
	return "ok", c
}

func oneLine(s string) string {
	s = strings.ReplaceAll(s, "\n", " ")
	return strconv.QuoteToASCII(s)
}

func opName(name []*pg_query.Node) (string, error) {
	if len(name) != 1 {
		return "", outside("qualified operator name")
	}
	s := name[0].GetString_()
	if s == nil {
		return "", outside("operator name is not a string")
	}
	raw, err := hex.DecodeString(s.Sval)
	if err != nil {
		return "", err
	}
	return string(raw), nil
}

// canonWriter prints a tree in the format of GoLucene.Sql.canon (one buffer: linear also for very deep trees).
type canonWriter struct{ sb strings.Builder }

func canonNode(n *pg_query.Node) (string, error) {
	w := &canonWriter{}
	if err := w.node(n); err != nil {
		return "", err
	}
	return w.sb.String(), nil
}

// flat prints the arguments of nested same-operator AND / OR nodes as one space-separated sequence
func (w *canonWriter) flat(op pg_query.BoolExprType, n *pg_query.Node, first *bool) error {
	if b := n.GetBoolExpr(); b != nil && b.Boolop == op {
		for _, a := range b.Args {
			if err := w.flat(op, a, first); err != nil {
				return err
			}
		}
		return nil
	}
	if !*first {
		w.sb.WriteByte(' ')
	}
	*first = false
	return w.node(n)
}

func (w *canonWriter) list(head string, ns ...*pg_query.Node) error {
	w.sb.WriteString("(" + head)
	for _, n := range ns {
		w.sb.WriteByte(' ')
		if err := w.node(n); err != nil {
			return err
		}
	}
	w.sb.WriteByte(')')
	return nil
}

func (w *canonWriter) node(n *pg_query.Node) error {
	if n == nil {
		return outside("missing operand")
	}
	switch v := n.Node.(type) {
	case *pg_query.Node_ColumnRef:
		if len(v.ColumnRef.Fields) != 1 {
			return outside("qualified column reference")
		}
		s := v.ColumnRef.Fields[0].GetString_()
		if s == nil {
			return outside("column reference field is not a name")
		}
		w.sb.WriteString("(col " + s.Sval + ")")
		return nil
	case *pg_query.Node_AConst:
		c := v.AConst
		if c.Isnull {
			return outside("NULL constant")
		}
		switch val := c.Val.(type) {
		case *pg_query.A_Const_Ival:
			w.sb.WriteString("(int " + strconv.FormatInt(int64(val.Ival.Ival), 10) + ")")
		case *pg_query.A_Const_Fval:
			raw, err := hex.DecodeString(val.Fval.Fval)
			if err != nil {
				return err
			}
			w.sb.WriteString("(float " + string(raw) + ")")
		case *pg_query.A_Const_Sval:
			w.sb.WriteString("(str " + val.Sval.Sval + ")")
		default:
			return outside("constant of kind %T", c.Val)
		}
		return nil
	case *pg_query.Node_ParamRef:
		w.sb.WriteString("(param " + strconv.FormatInt(int64(v.ParamRef.Number), 10) + ")")
		return nil
	case *pg_query.Node_BoolExpr:
		be := v.BoolExpr
		switch be.Boolop {
		case pg_query.BoolExprType_AND_EXPR, pg_query.BoolExprType_OR_EXPR:
			if be.Boolop == pg_query.BoolExprType_AND_EXPR {
				w.sb.WriteString("(and ")
			} else {
				w.sb.WriteString("(or ")
			}
			first := true
			if err := w.flat(be.Boolop, n, &first); err != nil {
				return err
			}
			w.sb.WriteByte(')')
			return nil
		case pg_query.BoolExprType_NOT_EXPR:
			if len(be.Args) != 1 {
				return outside("NOT with %d arguments", len(be.Args))
			}
			return w.list("not", be.Args[0])
		}
		return outside("BoolExpr %v", be.Boolop)
	case *pg_query.Node_AExpr:
		e := v.AExpr
		name, err := opName(e.Name)
		if err != nil {
			return err
		}
		switch e.Kind {
		case pg_query.A_Expr_Kind_AEXPR_OP:
			switch name {
			case "=", "<", ">", "<=", ">=", "<>", "~":
			default:
				return outside("operator %s", name)
			}
			if e.Lexpr == nil {
				return outside("prefix operator %s", name)
			}
			return w.list(name, e.Lexpr, e.Rexpr)
		case pg_query.A_Expr_Kind_AEXPR_IN:
			if name != "=" {
				return outside("NOT IN")
			}
			lst := e.Rexpr.GetList()
			if lst == nil || len(lst.Items) == 0 {
				return outside("IN without a value list")
			}
			return w.list("in", append([]*pg_query.Node{e.Lexpr}, lst.Items...)...)
		case pg_query.A_Expr_Kind_AEXPR_BETWEEN:
			if name != "BETWEEN" {
				return outside("between kind %s", name)
			}
			lst := e.Rexpr.GetList()
			if lst == nil || len(lst.Items) != 2 {
				return outside("BETWEEN without two bounds")
			}
			return w.list("between", e.Lexpr, lst.Items[0], lst.Items[1])
		case pg_query.A_Expr_Kind_AEXPR_SIMILAR:
			if name != "~" {
				return outside("NOT SIMILAR TO")
			}
			fc := e.Rexpr.GetFuncCall()
			if fc == nil {
				return outside("SIMILAR TO without similar_to_escape wrapper")
			}
			if len(fc.Args) != 1 {
				return outside("SIMILAR TO ... ESCAPE")
			}
			// everything except the single argument must be the plain pg_catalog.similar_to_escape call
			got := &pg_query.FuncCall{
				Funcname: fc.Funcname, AggOrder: fc.AggOrder, AggFilter: fc.AggFilter, Over: fc.Over, AggWithinGroup: fc.AggWithinGroup,
				AggStar: fc.AggStar, AggDistinct: fc.AggDistinct, FuncVariadic: fc.FuncVariadic, Funcformat: fc.Funcformat,
			}
			if !proto.Equal(got, similarWrapper) {
				return outside("SIMILAR TO wrapper is not the plain similar_to_escape call")
			}
			return w.list("similar", e.Lexpr, fc.Args[0])
		}
		return outside("expression kind %v", e.Kind)
	default:
		return outside("node %s", strings.TrimPrefix(fmt.Sprintf("%T", n.Node), "*pg_query.Node_"))
	}
}

var similarWrapper = &pg_query.FuncCall{
	Funcname: []*pg_query.Node{
		{Node: &pg_query.Node_String_{String_: &pg_query.String{Sval: hx("pg_catalog")}}},
		{Node: &pg_query.Node_String_{String_: &pg_query.String{Sval: hx("similar_to_escape")}}},
	},
	Funcformat: pg_query.CoercionForm_COERCE_EXPLICIT_CALL,
}
