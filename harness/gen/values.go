package gen

import "strings"

// Generator G4: value-directed terms — field names and values with quotes, backslashes, SQL metacharacters, NUL,
// invalid UTF-8, NaN/Inf spellings, long names, commas, SIMILAR TO metacharacters, numbers at the int64 limits,
// decimals and exponent forms.

var hostileWords = []string{
	"a\\\"b", "\\\"", "x\\\"\\;y", "a\\'b", "na\\\"me",
	"010", "0x1F", "0b11", "0o17", "02134", "-010", "00", "08", "1e+5", "9007199254740993",
	"a", "foo", "x_y", "NaN", "nan", "inf", "Inf", "Infinity", "-inf", "1e5", "1e-5", "1e400", "0x1p-2", "1_000", "007", "-0", "-0.0", "5.0", "0.001", "0.005", "1.005",
	"2.675", "123456789.125", "1e21", "1e-7", "100000", "1000000", "9223372036854775807", "9223372036854775808", "-9223372036854775808", "-9223372036854775809",
	"日本*", "é?x", "ÅÄÖ*", "*日", "日*本?", "ÿ", "aÿb", "ÿ*", "\\/", "a~0", "a:b~0", "b~00",
	"1e6", "1000000.0", "-2e10", "1e15", "123456789.0", "1e20", "\\/x\\/", "\\/a", "a\\/",
	"3.14159", "0.1", "12.50", "-7", "+7", "w*", "*", "?", "a?c", "*a*", "foo_*", "a%b", "a_b", "(b|d)", "a\\*", "a\\?", "a\\\\b", "a\\:b", "a\\ b", "\\-a", "a\\",
	"é", "日本語", "😀", "ſ", "K", "\xff", "a\xc3", "a\x00b", "%!s(x)", "%!v(PANIC=x)", "x,y", "a;b", "a--b", "a/*b", "$$", "a'b", "a''b", "TO", "to", "AND", "and",
}

var hostileQuoted = []string{
	`"x', 'y"`, `", 'z"`, `"a', 'b', 'c"`, `"x'' OR ''1''=''1"`, `"x''y"`, `"''"`, `"C:\tmp\"`, `"\"`, `"a\\"`,
	`""`, `"*"`, `"a b"`, `"a*b"`, `"a?b"`, `"/re/"`, `"x:y"`, `"AND"`, `"a'b"`, `"a''b"`, `"a\b"`, `"a\\b"`, `"x,y"`, `"a;b--"`, `"/*x*/"`, `"$$"`, `"E'x'"`, `"5"`, `"5.0"`, `"NaN"`,
	`"C:\temp\new"`, `"tab\there"`, `"a\x41b"`, `"\u00e9"`, `"\101"`, "\"a\x7fb\"", "\"a\x01b\"", "\"a\vb\"", "\"a\x1bb\"", `"007"`, `"9"`, `"1.5"`, `"+3"`, `"-0"`, `"1e3"`,
	"\"caf\ufffd\"", "\"\ufffd\"", `"/"`, `"//"`, `"?"`, `"\"`, `"ÿ"`, `"a  b"`, `"a` + "\t" + `b c"`, `"日本*"`,
	`"é日"`, `"a` + "\n" + `b"`, `"a` + "\t" + `b"`, `"%!"`, `"a` + "\x00" + `b"`, `"a` + "\xff" + `b"`, `"(b|d)"`, `"a_b"`, `"a%b"`, `'single'`, `'a b'`, `"it's"`,
	`"` + strings.Repeat("n", 63) + `"`, `"` + strings.Repeat("n", 64) + `"`, `"` + strings.Repeat("é", 40) + `"`,
}

var hostileRegexps = []string{"/b/", "/re+/", "//", "/a\\/b/", "/a b/", "/[a-z]*/", "/a'b/", "/*/", "/?/",
	"/a\\\\/", "/a\\\\\\/b/", "/\\\\\\//", "/a\\\\\\\\/", "/\\\\\\\\\\/x/", "/日本*/", "/é\\/ü/"}

// ValueText is one term text from G4.
func ValueText(r *Rng) string {
	switch r.Intn(10) {
	case 0, 1, 2, 3:
		return Pick(r, hostileWords)
	case 4, 5, 6:
		return Pick(r, hostileQuoted)
	case 7:
		return Pick(r, hostileRegexps)
	case 8:
		// random decimal
		n := 1 + r.Intn(20)
		var sb strings.Builder
		if r.Chance(1, 4) {
			sb.WriteByte('-')
		}
		for i := 0; i < n; i++ {
			sb.WriteByte(byte('0' + r.Intn(10)))
			if i == n/2 && r.Chance(1, 2) {
				sb.WriteByte('.')
			}
		}
		return sb.String()
	default:
		return strings.Repeat(Pick(r, []string{"n", "é", "a_"}), 20+r.Intn(50))
	}
}

// FieldQuery builds a field-scoped query around hostile names and values.
func FieldQuery(r *Rng) string {
	f := ValueText(r)
	v := ValueText(r)
	switch r.Intn(9) {
	case 0, 1, 2:
		return f + ":" + v
	case 3:
		return f + ":" + Pick(r, []string{">", ">=", "<", "<="}) + v
	case 4:
		return f + ":" + Pick(r, []string{"[", "{"}) + v + " TO " + ValueText(r) + Pick(r, []string{"]", "}"})
	case 5:
		return f + ":(" + v + " OR " + ValueText(r) + ")"
	case 6:
		return f + ":" + v + " AND NOT " + ValueText(r) + ":" + ValueText(r)
	case 7:
		return f + "=" + v + " OR -" + ValueText(r)
	default:
		return v
	}
}
