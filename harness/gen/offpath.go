package gen

import "strings"

// Generator G6: inputs off the beaten path of the other generators — long flat queries, deep nesting of every
// nesting construct, words / values / field names at buffer-size thresholds, letters and digits of unusual Unicode
// classes, numeric boundary values, repeated operators.  Every item is a complete query text.

var thresholdLens = []int{7, 8, 9, 15, 16, 17, 31, 32, 33, 63, 64, 65, 127, 128, 129, 255, 256, 257, 511, 512, 513, 1023, 1024, 1025, 4095, 4096, 4097}

var unicodeWords = []string{
	"ǅx", "ǈ", "ᾈ", // title-case letters
	"x\u0301", "e\u0301t", "\u0301", // combining marks
	"٣", "٣٤", "-٣", "१२", "１２", "-１", "٣.٥", // digits of other scripts
	"Ⅷ", "ⅷa", "²", "½", // letter-numbers, other numbers
	"ａｂ", "ß", "ſ", "İ", "ı", "K", // case-mapping oddities
	"a\u200db", "\ufeffa", "a\ufeff", "a\u00a0b", "a\u2028b", "a\u3000b", // format chars and exotic spaces
	"\U0001F600", "\U000E0041", "\U0010FFFF", "a\U00010400", // astral planes
	"\xc3", "a\xc3", "\xe2\x82", "\xf0\x9f\x98", "\xc0\xaf", "\xed\xa0\x80", "\xf4\x90\x80\x80", "a\xffb", // invalid UTF-8 in several positions
	"ANDx", "xAND", "AnD", "ÀND", "ТО", // keyword look-alikes (the last is Cyrillic)
	"“hi”", "say “hi” to", "‘x’", "«x»", "„x“", "‹x›", "＂x＂", "＇x＇", "x”", "“", "′x″", "`x`", "´x´", // quotation marks that are not the ASCII ones
	"€5", "5¥", "£", "₿x", "x¢", "$5", "@bob", "#tag", "x§y", "x¶", "x°", "x±y", "x×y", "x÷y", "x©", // currency signs and other symbols
}

var boundaryNumbers = []string{
	"2147483647", "2147483648", "-2147483648", "-2147483649", "4294967295", "4294967296",
	"9223372036854775807", "9223372036854775808", "-9223372036854775808", "-9223372036854775809", "18446744073709551615", "18446744073709551616",
	"9007199254740991", "9007199254740992", "9007199254740993", "999999", "1000000", "1000001", "999999.5", "1e6", "1e21", "1e22", "1e-4", "1e-5", "0.0001", "0.00001",
	"1.7976931348623157e308", "1.7976931348623159e308", "4.9e-324", "2e-324", "5e-324", "1e309", "-1e309", "0e0", "00000000000000000001", "0.30000000000000004",
	"1." + strings.Repeat("0", 30) + "1", strings.Repeat("9", 40), "0." + strings.Repeat("0", 400) + "1", "1" + strings.Repeat("0", 310),
	"+5", "+1.5", "-+5", "--5", "5.", ".5", "-.5", "5e", "5e+", "1e1e1", "0x10", "1_0", "१", "Infinity", "+Inf", "-NaN",
}

var smallClauses = []string{
	"a:b", "x:[1 TO 5]", "NOT c:d", `"q r"`, "w*", "f:(a OR b)", "-a", "+b~2", "c^3", "(a OR b)", "n:>=10", "s:{a TO z}", "/re/", "f:/r.e/", `g:"x y"`, "h:te?t", "5", "1.5", "k=v",
}

// LengthWord is a word, quoted value or field:value whose critical part has a threshold length.
func LengthWord(r *Rng) string {
	n := Pick(r, thresholdLens)
	unit := Pick(r, []string{"a", "é", "n_", "1", "日", "\U0001F600", "a*", "\\ ", "''", "%"})
	reps := n / len(unit)
	if reps < 1 {
		reps = 1
	}
	w := strings.Repeat(unit, reps)
	if len(w) < n {
		w += strings.Repeat("x", n-len(w))
	}
	switch r.Intn(6) {
	case 0:
		return w
	case 1:
		return `"` + strings.ReplaceAll(w, `"`, "") + `"`
	case 2:
		return "f:" + w
	case 3:
		return w + ":v"
	case 4:
		return `f:"` + w + `"`
	default:
		return `"` + w + `":[` + w + " TO " + w + "]"
	}
}

// LongFlat joins k valid small clauses with random connectives.
func LongFlat(r *Rng) string {
	k := Pick(r, []int{7, 8, 9, 12, 13, 15, 16, 17, 24, 31, 32, 33, 63, 64, 65, 100, 127, 128, 129, 200})
	var sb strings.Builder
	for i := 0; i < k; i++ {
		if i > 0 {
			sb.WriteString(Pick(r, []string{" AND ", " OR ", " ", " AND NOT ", " OR -", "  "}))
		}
		sb.WriteString(Pick(r, smallClauses))
	}
	return sb.String()
}

// Nested wraps a clause in d levels of one nesting construct (or a mix).
func Nested(r *Rng) string {
	d := Pick(r, []int{5, 6, 7, 8, 9, 12, 15, 16, 17, 20, 31, 32, 33})
	inner := Pick(r, smallClauses)
	type wrap struct{ pre, post string }
	wraps := []wrap{{"(", ")"}, {"NOT ", ""}, {"NOT (", ")"}, {"-", ""}, {"+", ""}, {"+(", ")"}, {"f:(", ")"}, {"(", ")~2"}, {"(", ")^2"}, {"(a AND ", ")"}, {"(", " OR b)"},
		{"f:>(", ")"}, {"(", "):x"}, {"g:[(", ") TO 5]"}, {"", "~"}, {"", "^2"}, {"", "~1"}}
	mixed := r.Chance(1, 2)
	w := Pick(r, wraps)
	s := inner
	for i := 0; i < d; i++ {
		if mixed {
			w = Pick(r, wraps)
		}
		s = w.pre + s + w.post
	}
	return s
}

// Repeated repeats one operator or keyword.
func Repeated(r *Rng) string {
	n := Pick(r, []int{2, 3, 4, 5, 8, 16, 33})
	op := Pick(r, []string{"NOT ", "-", "+", "~", "^", "~2", "^2", ":", " AND ", " OR ", "(", ")", "NOT NOT ", "- -", "+-", "-+", "~^", "TO ", "* ", "? "})
	base := Pick(r, smallClauses)
	switch r.Intn(3) {
	case 0:
		return strings.Repeat(op, n) + base
	case 1:
		return base + strings.Repeat(op, n)
	default:
		return base + strings.Repeat(op, n) + base
	}
}

var sweepBoundaries = []rune{0x7f, 0x80, 0xa0, 0xff, 0x100, 0x17f, 0x180, 0x2ff, 0x300, 0x36f, 0x370, 0x7ff, 0x800, 0xd7ff, 0xe000, 0xfffd, 0xfffe, 0xffff, 0x10000, 0x1ffff, 0xe007f, 0x10fffd, 0x10ffff}

// CodePoint puts one code point — every one below U+0180 is reached, plus block boundaries — into one of the
// contexts in which the lexer classifies runes.
func CodePoint(r *Rng) string {
	var c rune
	if r.Chance(1, 6) {
		c = Pick(r, sweepBoundaries)
	} else {
		c = rune(r.Intn(0x180))
	}
	if c == 0 {
		c = 1
	}
	ch := string(c)
	switch r.Intn(12) {
	case 0:
		return ch
	case 1:
		return "a" + ch + "b"
	case 2:
		return ch + "a"
	case 3:
		return "a" + ch
	case 4:
		return `f:"` + ch + `"`
	case 5:
		return `f:"a` + ch + `b"`
	case 6:
		return "f:/a" + ch + "b/"
	case 7:
		return "f:[" + ch + " TO z" + ch + "]"
	case 8:
		return "f:a" + ch + "*"
	case 9:
		return ch + ":v"
	case 10:
		return "a\\" + ch + "b"
	default:
		return "a " + ch + " b"
	}
}

// EscapeRun puts a run of 1–6 backslashes before a special character inside a bare word, a quoted phrase or a regexp.
func EscapeRun(r *Rng) string {
	run := strings.Repeat("\\", 1+r.Intn(6))
	// special characters, and characters that would form an escape SEQUENCE in another language (\n, \t, \u0041, \x41, \101):
	// here a backslash escapes exactly one character and the next ones are ordinary text
	sp := Pick(r, []string{"/", `"`, "'", " ", ":", "*", "?", "(", ")", "", "a", "\t", "~", "u0041", "u00e9", "U0001F600", "x41", "n", "t", "r", "0", "101", "u12", "users"})
	switch r.Intn(6) {
	case 0:
		return "f:/a" + run + sp + "b/"
	case 1:
		return "f:/a" + run + sp
	case 2:
		return `f:"a` + run + sp + `b"`
	case 3:
		return "f:a" + run + sp + "b"
	case 4:
		return "a" + run + sp
	default:
		return "/" + run + sp + "/"
	}
}

// OffPath is one query text of generator G6, with the name of the sub-generator.
func OffPath(r *Rng) (string, string) {
	switch r.Intn(16) {
	case 12, 13, 14:
		return CodePoint(r), "G6-codepoint"
	case 15:
		return EscapeRun(r), "G6-escaperun"
	case 0, 1:
		return LongFlat(r), "G6-longflat"
	case 2, 3:
		return Nested(r), "G6-nested"
	case 4:
		return LengthWord(r), "G6-length"
	case 5, 6:
		w := Pick(r, unicodeWords)
		return Pick(r, []string{w, w + ":v", "f:" + w, `f:"` + w + `"`, w + " AND b", "NOT " + w, w + "*", "f:[" + w + " TO z]", "-" + w, w + "~2", "a " + w + " b", w + w}), "G6-unicode"
	case 7, 8:
		n := Pick(r, boundaryNumbers)
		return Pick(r, []string{n, "f:" + n, "f:>" + n, "f:[" + n + " TO " + Pick(r, boundaryNumbers) + "]", "f:(" + n + " OR " + Pick(r, boundaryNumbers) + ")", "a~" + n, "a^" + n, n + ":v", "f:{* TO " + n + "}", "-" + n, `f:"` + n + `"`}), "G6-boundary"
	case 9:
		return Repeated(r), "G6-repeated"
	default:
		// three-way operator interactions on one operand
		ops := []string{"+", "-", "NOT "}
		post := []string{"~", "~2", "^2", "^", "~1^2", "^2~1"}
		return Pick(r, ops) + Pick(r, ops) + Pick(r, []string{"a", "a:b", `"q r"`, "(a b)", "f:[1 TO 2]", "w*", "/re/"}) + Pick(r, post) + Pick(r, post) + Pick(r, []string{"", " AND c", " c", " OR NOT d"}), "G6-threeway"
	}
}
