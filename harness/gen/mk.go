package gen

import (
	"encoding/hex"
	"fmt"
	"math"
	"strconv"
	"strings"
)

// Generator G7: calls of the public constructor expr.Expr(left, op, right...) on argument values of every kind the
// `any` parameters admit — raw strings / ints / floats / bools / nil, Column, leaf and compound expressions, expression
// slices, range boundaries.  Arguments are written in the canonical node text (PROTOCOL.md); the harness rebuilds the
// Go values from it and the model parses the same text.

var mkStrings = []string{"a", "b", "foo bar", "", "*", "a*", "te?t", "/re/", "/", "//", "x'y", "5", "1.5", "é日", "日本*", "a\x00b", "\xff", "AND", "%!s(x)", "a,b"}

func hx(s string) string { return hex.EncodeToString([]byte(s)) }

func mkPrim(r *Rng) string {
	switch r.Intn(9) {
	case 0, 1, 2:
		return "s:" + hx(Pick(r, mkStrings))
	case 3, 4:
		return "i:" + strconv.Itoa(Pick(r, []int{0, 1, 5, -3, 42, 1000000, 9007199254740993, math.MaxInt64, math.MinInt64}))
	case 5:
		return fmt.Sprintf("f:%016x", math.Float64bits(Pick(r, []float64{0, 1.5, -0.25, 5, 1e6, 1e21, math.Copysign(0, -1), math.Inf(1), math.NaN(), 2.675})))
	case 6:
		return Pick(r, []string{"b:0", "b:1"})
	case 7:
		return "c:" + hx(Pick(r, []string{"a", "my col", "x\"y", "", "é"}))
	default:
		return "nil"
	}
}

const dflt = " f:3ff0000000000000 i:1)"

func mkLeaf(r *Rng) string {
	op := Pick(r, []int{11, 11, 11, 12, 13})
	return "(E " + strconv.Itoa(op) + " " + mkPrim(r) + " nil" + dflt
}

// MkNode is a random argument value of the given depth.
func MkNode(r *Rng, depth int) string {
	switch r.Intn(12) {
	case 0, 1, 2:
		return mkPrim(r)
	case 3, 4, 5:
		return mkLeaf(r)
	case 6:
		n := r.Intn(4)
		parts := make([]string, n)
		for i := range parts {
			parts[i] = mkLeaf(r)
		}
		return "(L" + strings.Repeat(" ", min(n, 1)) + strings.Join(parts, " ") + ")"
	case 7:
		return "(B " + MkNode(r, 0) + " " + MkNode(r, 0) + " " + Pick(r, []string{"b:0", "b:1"}) + ")"
	case 8:
		return "nil" // typed nil pointers (nilptr) are not representable in the model
	default:
		if depth <= 0 {
			return mkLeaf(r)
		}
		op := r.Intn(20)
		return "(E " + strconv.Itoa(op) + " " + MkNode(r, depth-1) + " " + MkNode(r, depth-1) + dflt
	}
}

// MkCall is one constructor call: "<op>\t<left>\t<right>…" — mostly of the shapes the named constructors use, sometimes arbitrary.
func MkCall(r *Rng) string {
	op := r.Intn(20)
	left := MkNode(r, 2)
	var rights []string
	switch {
	case r.Chance(1, 5):
		for n := r.Intn(4); n > 0; n-- {
			rights = append(rights, MkNode(r, 1))
		}
	case op == 9: // Boost: optional power
		if r.Chance(2, 3) {
			rights = []string{fmt.Sprintf("f:%016x", math.Float64bits(Pick(r, []float64{1, 2.5, 0, -1, math.Inf(1)})))}
		}
	case op == 10: // Fuzzy: optional distance
		if r.Chance(2, 3) {
			rights = []string{"i:" + strconv.Itoa(Pick(r, []int{0, 1, 2, -1, 100}))}
		}
	case op == 6: // Range: min, max, inclusive
		rights = []string{MkNode(r, 0), MkNode(r, 0), Pick(r, []string{"b:0", "b:1"})}
	case op == 5 || op == 7 || op == 8 || op == 11 || op == 12 || op == 13 || op == 19: // unary / leaf / list
	default:
		rights = []string{MkNode(r, 1)}
	}
	return strconv.Itoa(op) + "\t" + left + "\t" + strings.Join(rights, "\t")
}
