package gen

import "strings"

// Generator for C03/C04: expression trees over the *filterable fragment* — field-scoped terms (equality, the four
// comparisons, inclusive / exclusive / open-ended ranges, value lists, wildcard patterns) combined with AND, OR,
// NOT, +, - and parentheses.  Every field has one type per query so that rows can be well-typed.  The generator
// tags each tree with the known-finding classes its shape belongs to (Tags), so that a failure on such an input
// can be attributed, and keeps most trees outside every class.

// FField is a field with its type.
type FField struct {
	L   Leaf
	Num bool
}

var filterFields = []FField{
	{Leaf{Text: "n1", Kind: "str", Str: "n1"}, true},
	{Leaf{Text: "qty", Kind: "str", Str: "qty"}, true},
	{Leaf{Text: "s1", Kind: "str", Str: "s1"}, false},
	{Leaf{Text: "name", Kind: "str", Str: "name"}, false},
	{Leaf{Text: `"my col"`, Kind: "str", Str: "my col"}, false},
}

var intVals = []Leaf{{Text: "5", Kind: "int", Int: 5}, {Text: "-3", Kind: "int", Int: -3}, {Text: "0", Kind: "int", Int: 0},
	{Text: "42", Kind: "int", Int: 42}, {Text: "1000000", Kind: "int", Int: 1000000}, {Text: "7", Kind: "int", Int: 7},
	{Text: "9007199254740993", Kind: "int", Int: 9007199254740993}, {Text: "9223372036854775807", Kind: "int", Int: 9223372036854775807},
	{Text: "-9007199254740993", Kind: "int", Int: -9007199254740993}}

// decimals Go represents exactly as written with at most two fractional digits
var decVals2 = []Leaf{{Text: "1.5", Kind: "float", Flt: 1.5}, {Text: "-0.25", Kind: "float", Flt: -0.25}, {Text: "12.75", Kind: "float", Flt: 12.75},
	{Text: "0.1", Kind: "float", Flt: 0.1}, {Text: "99.99", Kind: "float", Flt: 99.99}}

// decimals needing more than two fractional digits (class range-float-round when used as a range bound)
var decValsFine = []Leaf{{Text: "0.001", Kind: "float", Flt: 0.001}, {Text: "2.675", Kind: "float", Flt: 2.675}, {Text: "100.125", Kind: "float", Flt: 100.125}}

var strVals = []Leaf{{Text: "foo", Kind: "str", Str: "foo"}, {Text: "bar", Kind: "str", Str: "bar"}, {Text: `"a b"`, Kind: "str", Str: "a b"},
	{Text: `"it's"`, Kind: "str", Str: "it's"}, {Text: "zed", Kind: "str", Str: "zed"}, {Text: `"Ünï"`, Kind: "str", Str: "Ünï"}, {Text: "m", Kind: "str", Str: "m"},
	{Text: `"x;--"`, Kind: "str", Str: "x;--"},
	// backslash sequences inside quotes are verbatim text; quoted digits are strings, not numbers
	{Text: `"C:\temp\new"`, Kind: "str", Str: `C:\temp\new`}, {Text: `"a\\b"`, Kind: "str", Str: `a\\b`}, {Text: `"\u00e9"`, Kind: "str", Str: `\u00e9`},
	{Text: `"a  b"`, Kind: "str", Str: "a  b"}, {Text: "\"a\tb\"", Kind: "str", Str: "a\tb"}, {Text: `" a b "`, Kind: "str", Str: " a b "},
	{Text: "\"a\ufffdb\"", Kind: "str", Str: "a\ufffdb"}, {Text: `"l'été"`, Kind: "str", Str: "l'été"}, {Text: `"日本's"`, Kind: "str", Str: "日本's"}, {Text: `""`, Kind: "str", Str: ""},
	{Text: `"007"`, Kind: "str", Str: "007"}, {Text: `"9"`, Kind: "str", Str: "9"}, {Text: `"1.5"`, Kind: "str", Str: "1.5"}, {Text: `"+3"`, Kind: "str", Str: "+3"}}

var strValsComma = []Leaf{{Text: `"x,y"`, Kind: "str", Str: "x,y"}}

var cleanPatterns = []Leaf{{Text: "fo*", Kind: "wild", Str: "fo*"}, {Text: "te?t", Kind: "wild", Str: "te?t"}, {Text: "*a*", Kind: "wild", Str: "*a*"},
	{Text: "?", Kind: "wild", Str: "?"}, {Text: "*", Kind: "wild", Str: "*"}, {Text: "b*r", Kind: "wild", Str: "b*r"}}

var metaPatterns = []Leaf{{Text: "foo_*", Kind: "wild", Str: "foo_*"}, {Text: "a_?", Kind: "wild", Str: "a_?"}}

// Filter is a generated filter query.
type Filter struct {
	T    *Ft
	Tags []string
}

type fgen struct {
	r    *Rng
	tags map[string]bool
	odd  bool // allow shapes of the known-finding classes
}

func (g *fgen) tag(t string) { g.tags[t] = true }

// decimals with many significant digits (equality, comparisons and value lists only: ranges print %.2f)
var decValsLong = []Leaf{{Text: "12345678.125", Kind: "float", Flt: 12345678.125}, {Text: "16777217.5", Kind: "float", Flt: 16777217.5},
	{Text: "3.1415926", Kind: "float", Flt: 3.1415926}, {Text: "0.1234567891", Kind: "float", Flt: 0.1234567891}, {Text: "-98765.4321", Kind: "float", Flt: -98765.4321}}

func (g *fgen) numVal() Leaf {
	switch g.r.Intn(11) {
	case 0, 1, 2, 3, 4, 5:
		return Pick(g.r, intVals)
	case 6:
		return Pick(g.r, decValsLong)
	default:
		return Pick(g.r, decVals2)
	}
}

func (g *fgen) strVal() Leaf { return Pick(g.r, strVals) }

var starLeaf = Leaf{Text: "*", Kind: "wild", Str: "*"}

func (g *fgen) rangeNode(f FField) *Ft {
	r := g.r
	t := &Ft{K: "range", F: f.L, LSq: true, RSq: true}
	if r.Chance(1, 3) {
		t.LSq, t.RSq = false, false
	}
	if g.odd && r.Chance(1, 6) {
		t.LSq, t.RSq = r.Chance(1, 2), false
		if t.LSq == t.RSq {
			t.LSq = true
		}
		g.tag("range-mixed")
	}
	openLo, openHi := r.Chance(1, 6), r.Chance(1, 6)
	if openLo && openHi {
		if g.odd && r.Chance(1, 2) {
			g.tag("range-both-open")
		} else {
			openHi = false
		}
	}
	if f.Num {
		// both bounds of one range have the same type: both ints or both decimals
		if r.Chance(2, 3) {
			t.Lo, t.Hi = Pick(r, intVals), Pick(r, intVals)
		} else {
			t.Lo, t.Hi = Pick(r, decVals2), Pick(r, decVals2)
			if g.odd && r.Chance(1, 3) {
				t.Lo = Pick(r, decValsFine)
				g.tag("range-float-round")
			}
			// open float ranges are ordinary since fix F12 (toFloats compares with '*')
		}
	} else {
		t.Lo, t.Hi = g.strVal(), g.strVal()
		if g.odd && r.Chance(1, 5) {
			t.Lo = Pick(r, strValsComma)
			g.tag("range-comma")
		}
		if g.odd && r.Chance(1, 6) {
			t.Hi = Leaf{Text: `"*"`, Kind: "str", Str: "*"}
			g.tag("range-quoted-star")
		}
		if !(t.LSq && t.RSq) {
			if g.odd {
				g.tag("range-str-excl")
			} else {
				t.LSq, t.RSq = true, true
			}
		}
		if openLo || openHi {
			if g.odd {
				g.tag("range-str-open")
			} else {
				openLo, openHi = false, false
			}
		}
	}
	if openLo {
		t.Lo = starLeaf
	}
	if openHi {
		t.Hi = starLeaf
	}
	return t
}

func (g *fgen) leaf() *Ft {
	r := g.r
	f := Pick(r, filterFields)
	switch r.Intn(10) {
	case 0, 1, 2:
		v := g.strVal()
		if f.Num {
			v = g.numVal()
		}
		return &Ft{K: "eq", F: f.L, V: v, UseEq: r.Chance(1, 5)}
	case 3, 4:
		v := g.strVal()
		if f.Num {
			v = g.numVal()
		}
		return &Ft{K: "cmp", F: f.L, V: v, Gt: r.Chance(1, 2), OrEq: r.Chance(1, 2)}
	case 5, 6:
		return g.rangeNode(f)
	case 7:
		// value list f:(v1 OR v2 OR ...)
		n := 2 + r.Intn(3)
		if r.Chance(1, 20) {
			// long lists of one kind, around the sizes at which code switches to a bulk path
			n = Pick(r, []int{15, 16, 17, 18, 31, 32, 33, 40})
		}
		vals := make([]Leaf, n)
		for i := range vals {
			vals[i] = g.strVal()
			if f.Num {
				vals[i] = g.numVal()
			}
		}
		return &Ft{K: "eqGroup", F: f.L, E: OrChain(r, vals)}
	default:
		// wildcard pattern on a string field
		for f.Num {
			f = Pick(r, filterFields)
		}
		p := Pick(r, cleanPatterns)
		if g.odd && r.Chance(1, 4) {
			p = Pick(r, metaPatterns)
			g.tag("like-meta")
		}
		return &Ft{K: "eq", F: f.L, V: p}
	}
}

func (g *fgen) tree(depth int) *Ft {
	r := g.r
	if depth <= 0 || r.Chance(1, 4) {
		return g.leaf()
	}
	switch r.Intn(9) {
	case 0, 1, 2:
		return &Ft{K: "and", L: g.tree(depth - 1), R: g.tree(depth - 1), Jux: r.Chance(1, 3)}
	case 3, 4:
		return &Ft{K: "or", L: g.tree(depth - 1), R: g.tree(depth - 1)}
	case 5:
		return &Ft{K: "not", E: g.tree(depth - 1)}
	case 6:
		return &Ft{K: "must", E: g.tree(depth - 1)}
	case 7:
		return &Ft{K: "mustNot", E: g.tree(depth - 1)}
	default:
		return &Ft{K: "paren", E: g.tree(depth - 1)}
	}
}

// RandomFilter builds a filter tree; odd allows the shapes of the known-finding classes.
func RandomFilter(r *Rng, depth int, odd bool) Filter {
	g := &fgen{r: r, tags: map[string]bool{}, odd: odd}
	t := g.tree(depth)
	var tags []string
	for k := range g.tags {
		tags = append(tags, k)
	}
	return Filter{T: t, Tags: tags}
}

// TagString joins tags for Case.Aux.
func TagString(tags []string) string { return strings.Join(tags, ",") }
