package gen

import (
	"fmt"
	"strings"
)

// Generator G5: JSON documents over the expression schema — well-typed, schema-aware-wrong, and byte-mutated.

var opNames = []string{"AND", "OR", "EQUALS", "LIKE", "NOT", "RANGE", "MUST", "MUST_NOT", "BOOST", "FUZZY", "LITERAL", "WILD",
	"REGEXP", "GREATER", "LESS", "GREATER_EQ", "LESS_EQ", "IN", "LIST"}

var oddOpNames = []string{"", "and", "Equals", "UNDEFINED", "XOR", "RANGE ", "MUST-NOT", "\\u0041ND", "LIST\x00"}

var jsonScalars = []string{
	`"a"`, `"b"`, `"foo bar"`, `""`, `"*"`, `"w*"`, `"te?t"`, `"/re/"`, `"/"`, `"//"`, `"a\"b"`, `"a'b"`, `"é日"`, `"é"`, `"😀"`, `"\ud800"`,
	`"日本*"`, `"é?x"`, `"ÅÄÖ*"`, `"日*本?"`, `"ÿ*"`, `"/日本/"`, `"a%b*"`, `"a_b?"`, `"''*"`, `"` + strings.Repeat("é", 70) + `*"`,
	`"a\u0000b"`, `"x,y"`, `"5"`, `"-"`, `"AND"`, `"%!s(int=1)"`,
	`0`, `1`, `5`, `-3`, `42`, `1.5`, `-0.25`, `5.0`, `-0`, `-0.0`, `1e2`, `1E-2`, `1e999`, `9223372036854775807`, `9223372036854775808`, `0.1e1`, `100000000000000000000`, `1e21`, `1e-7`,
	`true`, `false`, `null`,
}

var keyVariants = map[string][]string{
	"left":       {"left", "Left", "LEFT", "lEft"},
	"operator":   {"operator", "Operator", "OPERATOR"},
	"right":      {"right", "Right", "RIGHT"},
	"distance":   {"distance", "Distance", "diſtance"},
	"power":      {"power", "POWER"},
	"boundaries": {"boundaries", "Boundaries", "boundarieſ"},
	"min":        {"min", "Min", "MIN", "mi n"},
	"max":        {"max", "Max", "ma x"},
	"inclusive":  {"inclusive", "Inclusive", "incluſive"},
}

func jkey(r *Rng, name string) string {
	if r.Chance(1, 10) {
		return `"` + Pick(r, keyVariants[name]) + `"`
	}
	return `"` + name + `"`
}

func jws(r *Rng) string {
	if r.Chance(1, 8) {
		return Pick(r, []string{" ", "\n", "\t", "  ", "\r\n"})
	}
	return ""
}

func jsonAny(r *Rng, depth int) string {
	if depth <= 0 || r.Chance(2, 3) {
		return Pick(r, jsonScalars)
	}
	if r.Chance(1, 2) {
		n := r.Intn(4)
		parts := make([]string, n)
		for i := range parts {
			parts[i] = jsonAny(r, depth-1)
		}
		return "[" + strings.Join(parts, ",") + "]"
	}
	n := r.Intn(3)
	parts := make([]string, n)
	for i := range parts {
		parts[i] = fmt.Sprintf(`"%s":%s`, Pick(r, []string{"x", "min", "max", "left", "k"}), jsonAny(r, depth-1))
	}
	return "{" + strings.Join(parts, ",") + "}"
}

func jsonBoundary(r *Rng) string {
	var parts []string
	add := func(name, v string) {
		parts = append(parts, jws(r)+jkey(r, name)+jws(r)+":"+jws(r)+v)
	}
	if !r.Chance(1, 12) {
		add("min", jsonAny(r, 1))
	}
	if !r.Chance(1, 12) {
		add("max", jsonAny(r, 1))
	}
	if !r.Chance(1, 6) {
		add("inclusive", Pick(r, []string{"true", "false", "true", "false", "null", "1", `"true"`}))
	}
	if r.Chance(1, 15) {
		add("min", jsonAny(r, 1)) // duplicate key
	}
	if r.Chance(1, 20) {
		parts = append(parts, `"extra":[1,{"left":2}]`)
	}
	return "{" + strings.Join(parts, ",") + jws(r) + "}"
}

// JSONExpr builds a document over the expression schema; wellTyped biases towards documents the decoder accepts.
func JSONExpr(r *Rng, depth int, wellTyped bool) string {
	if depth <= 0 || r.Chance(1, 4) {
		return Pick(r, jsonScalars)
	}
	op := Pick(r, opNames)
	if !wellTyped && r.Chance(1, 6) {
		op = Pick(r, oddOpNames)
	}
	var parts []string
	add := func(name, v string) {
		parts = append(parts, jws(r)+jkey(r, name)+jws(r)+":"+jws(r)+v)
	}
	sub := func() string {
		if r.Chance(1, 15) {
			// a node that is malformed on its own (no pattern, no boundary, operand of the wrong kind)
			return Pick(r, []string{`{"left":"a","operator":"RANGE"}`, `{"left":"a","operator":"LIKE"}`, `{"left":"a","operator":"IN","right":5}`,
				`{"left":5,"operator":"LIKE","right":"b*"}`, `{"left":"a","operator":"RANGE","right":{"min":null,"max":null}}`, `{"operator":"NOT"}`})
		}
		if r.Chance(1, 10) {
			// a LEAF written in the verbose object form, holding a value of any JSON type (a decoder that unwraps such
			// objects into real leaves can build WILD(5), REGEXP(true), LITERAL(null) …)
			return fmt.Sprintf(`{"left":%s,"operator":"%s"}`, Pick(r, []string{"5", "1.5", "true", "null", `"b*"`, `"a"`, `"/r/"`, `[1,2]`, `{"min":1,"max":2}`, `""`, `-3`}),
				Pick(r, []string{"WILD", "REGEXP", "LITERAL"}))
		}
		return JSONExpr(r, depth-1, wellTyped)
	}
	scalarList := func() string {
		n := 1 + r.Intn(4)
		xs := make([]string, n)
		for i := range xs {
			if !wellTyped && r.Chance(1, 8) {
				xs[i] = jsonAny(r, 1)
			} else {
				xs[i] = Pick(r, jsonScalars)
			}
		}
		return "[" + strings.Join(xs, ","+jws(r)) + "]"
	}
	left := sub()
	right := ""
	switch op {
	case "LIST":
		left = scalarList()
	case "IN":
		right = fmt.Sprintf(`{"left":%s,"operator":"LIST"}`, scalarList())
	case "RANGE":
		right = jsonBoundary(r)
	case "AND", "OR", "EQUALS", "GREATER", "LESS", "GREATER_EQ", "LESS_EQ":
		right = sub()
	case "LIKE":
		right = Pick(r, []string{`"w*"`, `"/re/"`, `"*"`, `"a?"`, `"plain"`, `5`})
	}
	if r.Chance(1, 12) {
		// an array operand whose elements are expression objects (well-formed or not), under any operator
		n := 1 + r.Intn(3)
		xs := make([]string, n)
		for i := range xs {
			xs[i] = Pick(r, []string{sub(), `{"left":"a","operator":"RANGE"}`, `{"left":"a","operator":"LIKE"}`, `{"left":"a","operator":"EQUALS","right":{"min":null,"max":1}}`, Pick(r, jsonScalars)})
		}
		left = "[" + strings.Join(xs, ",") + "]"
	}
	if r.Chance(1, 15) {
		// a boundary-shaped right operand under a non-RANGE operator, possibly with null / empty ends
		right = Pick(r, []string{`{"min":null,"max":1}`, `{"min":"","max":"m"}`, `{"min":1,"max":null,"inclusive":true}`, jsonBoundary(r)})
	}
	if !wellTyped {
		switch r.Intn(12) {
		case 0:
			left = scalarList()
		case 1:
			right = jsonBoundary(r)
		case 2:
			right = sub()
		case 3:
			left = ""
		case 4:
			right = "null"
		case 5:
			left = "null"
		case 6:
			right = jsonAny(r, 2)
		case 7:
			left = jsonAny(r, 2)
		}
	}
	if left != "" {
		add("left", left)
	}
	if wellTyped || !r.Chance(1, 10) {
		if !wellTyped && r.Chance(1, 12) {
			add("operator", Pick(r, []string{"5", "null", "true", `["AND"]`, `{"x":1}`}))
		} else {
			add("operator", `"`+op+`"`)
		}
	}
	if right != "" {
		add("right", right)
	}
	if op == "FUZZY" || (!wellTyped && r.Chance(1, 8)) {
		if r.Chance(2, 3) {
			v := Pick(r, []string{"2", "1", "0", "-1", "7"})
			if !wellTyped {
				v = Pick(r, []string{"2", "1.0", "1e2", `"2"`, "null", "true", "9223372036854775808", "[2]"})
			}
			add("distance", v)
		}
	}
	if op == "BOOST" || (!wellTyped && r.Chance(1, 8)) {
		if r.Chance(2, 3) {
			v := Pick(r, []string{"2", "2.5", "1", "1.0", "0.5", "10"})
			if !wellTyped {
				v = Pick(r, []string{"2.5", "1e999", `"2"`, "null", "false", "-1", "{}", "1e-400"})
			}
			add("power", v)
		}
	}
	if !wellTyped && r.Chance(1, 10) {
		add("boundaries", Pick(r, []string{"null", jsonBoundary(r), "5", `{"min":1e999}`, "[]"}))
	}
	if !wellTyped && r.Chance(1, 12) {
		add("left", sub()) // duplicate key: last wins
	}
	if !wellTyped && r.Chance(1, 15) {
		parts = append(parts, `"unknown":{"left":[1,2,{"a":null}]}`)
	}
	if !wellTyped && r.Chance(1, 6) {
		// shuffle member order
		for i := len(parts) - 1; i > 0; i-- {
			j := r.Intn(i + 1)
			parts[i], parts[j] = parts[j], parts[i]
		}
	}
	return "{" + strings.Join(parts, ",") + jws(r) + "}"
}
