package gen

import "strings"

// fragments the byte-level generator G3 draws from: every character class the lexer distinguishes, multi-byte
// runes, invalid UTF-8 of every kind, escapes, delimiters, keywords in odd case, numbers.
var fragments = []string{
	"a", "b", "z", "A", "_", "0", "1", "9", "5", "42", "-", "-1", "- 1", "-a", "--", ".", "1.5", ".5", "5.", "1e5", "1e-5", "0x1p-2", "1_000",
	" ", "  ", "\t", "\n", "\r", "\r\n", "\v", "\f", "\u00a0", "\u0085", "\u3000", "\u2028",
	":", "=", ">", "<", ">=", "<=", "+", "~", "^", "(", ")", "[", "]", "{", "}", "*", "?", "\\", "\\\\", "\\ ", "\\:", "\\\"", "\\*",
	"\"", "'", "/", "\"x y\"", "'x y'", "/re/", "/a\\/b/", "\"\"", "''", "//", "\"a", "'a", "/a", "\"a'b\"", "'a\"b'",
	"AND", "and", "And", "OR", "or", "NOT", "not", "nOt", "TO", "to", "To", "ANDY", "NOTE", "TOO", "ORB", "AN", "AND1",
	"é", "ß", "ı", "ſ", "K", "Ω", "日本", "€", "😀", "１２", "-１", "\u0301", "\ufffd", "\ufeff",
	"\xff", "\xc0\x80", "\xe2\x82", "\xed\xa0\x80", "\xf4\x90\x80\x80", "\x80", "\xc3", "\xf0\x9f\x98", "\x00",
	"%", "!", "@", "#", "$", "&", "|", ";", ",", "`", "%!s(", "inf", "NaN", "Infinity", "nan", "-inf", "+5", "1e999", "9223372036854775807", "9223372036854775808", "-9223372036854775808",
}

// ByteString builds a hostile byte string of up to maxFrag fragments.
func ByteString(r *Rng, maxFrag int) string {
	n := 1 + r.Intn(maxFrag)
	var sb strings.Builder
	for i := 0; i < n; i++ {
		if r.Chance(1, 12) {
			sb.WriteByte(byte(r.Intn(256)))
			continue
		}
		sb.WriteString(Pick(r, fragments))
	}
	return sb.String()
}

// Mutate applies one byte-level mutation (insert, delete, replace, duplicate a slice, truncate).
func Mutate(r *Rng, s string) string {
	b := []byte(s)
	switch r.Intn(6) {
	case 0:
		i := r.Intn(len(b) + 1)
		f := Pick(r, fragments)
		return string(b[:i]) + f + string(b[i:])
	case 1:
		if len(b) == 0 {
			return s
		}
		i := r.Intn(len(b))
		return string(b[:i]) + string(b[i+1:])
	case 2:
		if len(b) == 0 {
			return s
		}
		i := r.Intn(len(b))
		b[i] = byte(r.Intn(256))
		return string(b)
	case 3:
		if len(b) == 0 {
			return s
		}
		i := r.Intn(len(b))
		j := i + r.Intn(len(b)-i)
		return string(b[:j]) + string(b[i:j]) + string(b[j:])
	case 4:
		if len(b) == 0 {
			return s
		}
		return string(b[:r.Intn(len(b))])
	default:
		i := r.Intn(len(b) + 1)
		return string(b[:i]) + " " + string(b[i:])
	}
}

// BigShapes are adversarial inputs of about n tokens: deep parentheses, long AND / OR / juxtaposition chains,
// operator-only runs, prefix-operator towers, long escape runs, unterminated delimiters after a long prefix.
func BigShapes(n int) []string {
	rep := strings.Repeat
	return []string{
		rep("(", n) + "a" + rep(")", n),
		rep("(", n) + "a",
		"a" + rep(")", n),
		rep("a AND ", n) + "b",
		rep("a OR ", n) + "b",
		rep("a:b ", n),
		rep("a ", n),
		rep("NOT ", n) + "a",
		rep("+", n) + "a",
		rep("- ", n) + "a",
		"a" + rep("~", n),
		"a" + rep("^2", n),
		rep("a:(", n/2) + "b" + rep(")", n/2),
		rep(":", n),
		rep("AND ", n),
		rep("[", n),
		rep("a:[1 TO 2] ", n/4),
		rep("\\", n),
		rep("a\\ ", n),
		"\"" + rep("x ", n),
		"/" + rep("x\\/", n),
		rep("(a OR b) AND ", n/4) + "c",
		rep("a:b OR c:d AND ", n/6) + "e",
		rep("-1 ", n),
		rep("1.5 ", n),
		rep("é", n),
		rep("\xff", n),
	}
}

// NestedShapes are small inputs with deep RIGHT nesting (the cheap way to make tree depth large while the text stays
// short): exponential behaviour in any recursive consumer shows up at a few dozen levels.
func NestedShapes() []string {
	rep := strings.Repeat
	var out []string
	for _, d := range []int{24, 40, 64} {
		out = append(out,
			rep("a:1 AND (", d)+"b"+rep(")", d),
			rep("a:1 OR (", d)+"b"+rep(")", d),
			rep("a:(", d)+"b"+rep(")", d),
			"x~("+rep("a:1 AND (", d)+"2"+rep(")", d)+")",
			rep("NOT (", d)+"a"+rep(")", d),
			rep("(a AND ", d)+"b"+rep(")", d),
			rep("a:>(b AND ", d)+"c"+rep(")", d),
		)
	}
	return out
}
