// Package gen holds the input generators of the correspondence check. Every random choice is drawn from one
// splitmix64 stream seeded from VERIF_SEED, so a (seed, generator, index) triple replays exactly.
package gen

import (
	"strings"
)

// Rng is a splitmix64 generator.
type Rng struct{ s uint64 }

// NewRng seeds a generator; stream separates independent uses of one seed.
func NewRng(seed uint64, stream uint64) *Rng {
	return &Rng{s: seed*0x9E3779B97F4A7C15 + stream*0xBF58476D1CE4E5B9 + 0x94D049BB133111EB}
}

// Next returns 64 random bits.
func (r *Rng) Next() uint64 {
	r.s += 0x9E3779B97F4A7C15
	z := r.s
	z = (z ^ (z >> 30)) * 0xBF58476D1CE4E5B9
	z = (z ^ (z >> 27)) * 0x94D049BB133111EB
	return z ^ (z >> 31)
}

// Intn returns a number in [0, n).
func (r *Rng) Intn(n int) int {
	if n <= 0 {
		return 0
	}
	return int(r.Next() % uint64(n))
}

// Chance is true with probability num/den.
func (r *Rng) Chance(num, den int) bool { return r.Intn(den) < num }

// Pick chooses one element.
func Pick[T any](r *Rng, xs []T) T { return xs[r.Intn(len(xs))] }

// Alphabet is the 26-symbol token alphabet of generator G1: every token type occurs, terms of every value kind.
var Alphabet = []string{
	"a", "b", "5", `"q r"`, "/re/", "w*", "1.5",
	":", "=", ">", "<", "+", "-", "~", "^",
	"NOT", "AND", "OR", "(", ")", "[", "]", "{", "}", "TO", "*",
}

// TokenParts decodes index i (mixed radix) into a token sequence of exactly n symbols.
func TokenParts(i int, n int) []string {
	parts := make([]string, n)
	for k := n - 1; k >= 0; k-- {
		parts[k] = Alphabet[i%len(Alphabet)]
		i /= len(Alphabet)
	}
	return parts
}

// TokenSeq is TokenParts joined by single spaces.
func TokenSeq(i int, n int) string { return strings.Join(TokenParts(i, n), " ") }

// Pow is len(Alphabet)^n.
func Pow(n int) int {
	p := 1
	for i := 0; i < n; i++ {
		p *= len(Alphabet)
	}
	return p
}

// DefaultFields are the default-field names used by generators ("" = no default field).
var DefaultFields = []string{"", "df", "d f", "x'y", "df*", "x\"y", "a\x00b", "d\xffz", " df", "df\t", " ", "\n", "a,b", "a;b", "a.b", "a:b", "a OR b"}
