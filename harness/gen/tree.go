package gen

import (
	"strings"
)

// Leaf is a term token together with what it must mean (the oracle value, independent of the parser).
type Leaf struct {
	Text string // as typed
	Kind string // str | int | float | wild | regexp
	Str  string // value for str / wild / regexp
	Int  int
	Flt  float64
}

// Leaves is the leaf alphabet of generator G2: every leaf form and value kind.
var Leaves = []Leaf{
	{Text: "a", Kind: "str", Str: "a"},
	{Text: "b", Kind: "str", Str: "b"},
	{Text: "foo_bar", Kind: "str", Str: "foo_bar"},
	{Text: "5", Kind: "int", Int: 5},
	{Text: "-3", Kind: "int", Int: -3},
	{Text: "0", Kind: "int", Int: 0},
	{Text: "1.5", Kind: "float", Flt: 1.5},
	{Text: "-0.25", Kind: "float", Flt: -0.25},
	{Text: `"q r"`, Kind: "str", Str: "q r"},
	{Text: `"x:y"`, Kind: "str", Str: "x:y"},
	{Text: `"AND"`, Kind: "str", Str: "AND"},
	{Text: "w*", Kind: "wild", Str: "w*"},
	{Text: "te?t", Kind: "wild", Str: "te?t"},
	{Text: "/re+/", Kind: "regexp", Str: "/re+/"},
	{Text: `a\:b`, Kind: "str", Str: "a:b"},
	{Text: "é日", Kind: "str", Str: "é日"},
	{Text: `"a*b"`, Kind: "str", Str: "a*b"},
	{Text: `"wh?t"`, Kind: "str", Str: "wh?t"},
	{Text: `"/sl/"`, Kind: "str", Str: "/sl/"},
	{Text: `""`, Kind: "str", Str: ""},
	{Text: `"l'été"`, Kind: "str", Str: "l'été"},
	{Text: "9007199254740993", Kind: "int", Int: 9007199254740993},
	{Text: "-9223372036854775807", Kind: "int", Int: -9223372036854775807},
}

// FieldLeaves are leaves used in field position (plain words, a quoted name, a numeric name).
var FieldLeaves = []Leaf{
	{Text: "a", Kind: "str", Str: "a"},
	{Text: "f", Kind: "str", Str: "f"},
	{Text: "n_1", Kind: "str", Str: "n_1"},
	{Text: `"my col"`, Kind: "str", Str: "my col"},
}

// NumLeaves are explicit fuzzy distances / boost powers.
var FuzzyNums = []Leaf{{Text: "2", Kind: "int", Int: 2}, {Text: "7", Kind: "int", Int: 7}, {Text: "0", Kind: "int", Int: 0}, {Text: "00", Kind: "int", Int: 0}, {Text: "1", Kind: "int", Int: 1}, {Text: "100", Kind: "int", Int: 100}}
var BoostNums = []Leaf{{Text: "2", Kind: "int", Int: 2}, {Text: "2.5", Kind: "float", Flt: 2.5}, {Text: "10", Kind: "int", Int: 10}, {Text: "1", Kind: "int", Int: 1}, {Text: "0.5", Kind: "float", Flt: 0.5}}

// Ft is a syntax tree over the whole printed grammar (mirrors GoLucene.Ft in Proofs/Full.lean).
type Ft struct {
	K      string // leaf eq eqGroup cmp range and or not must mustNot fuzzy boost paren
	Leaf   Leaf
	F, V   Leaf // field and value of eq / cmp; F of eqGroup / range
	Lo, Hi Leaf
	UseEq  bool // f=v instead of f:v
	Gt     bool
	OrEq   bool
	LSq    bool // '[' (else '{')
	RSq    bool // ']' (else '}')
	L, R   *Ft
	E      *Ft
	Num    *Leaf // explicit distance / power
	Jux    bool  // (and) written as juxtaposition when eligible
}

// Lvl is the precedence level of the root (0 = atom).
func (t *Ft) Lvl() int {
	switch t.K {
	case "leaf", "paren":
		return 0
	case "eq", "eqGroup", "cmp", "range":
		return 7
	case "must":
		return 8
	case "mustNot":
		return 9
	case "fuzzy":
		return 10
	case "boost":
		return 11
	case "not":
		return 12
	case "and":
		return 13
	case "or":
		return 14
	}
	return 0
}

// PTok is a printed token.
type PTok struct {
	Text string
	Term bool // a term token (literal, quoted, regexp)
	Sym  bool // a one-character symbol token
}

func sym(s string) PTok { return PTok{Text: s, Sym: true} }
func kw(s string) PTok  { return PTok{Text: s} }
func term(l Leaf) PTok  { return PTok{Text: l.Text, Term: true} }
func wrap(b bool, ts []PTok) []PTok {
	if !b {
		return ts
	}
	out := []PTok{sym("(")}
	out = append(out, ts...)
	return append(out, sym(")"))
}

// Print renders the tree as tokens with parentheses exactly where the precedence table requires them
// (mirrors GoLucene.fpp).  extra > 0 adds that many redundant parenthesis pairs at places chosen by pick.
func (t *Ft) Print() []PTok {
	switch t.K {
	case "leaf":
		return []PTok{term(t.Leaf)}
	case "eq":
		op := ":"
		if t.UseEq {
			op = "="
		}
		return []PTok{term(t.F), sym(op), term(t.V)}
	case "eqGroup":
		out := []PTok{term(t.F), sym(":"), sym("(")}
		out = append(out, t.E.Print()...)
		return append(out, sym(")"))
	case "cmp":
		out := []PTok{term(t.F), sym(":")}
		if t.Gt {
			out = append(out, sym(">"))
		} else {
			out = append(out, sym("<"))
		}
		if t.OrEq {
			out = append(out, sym("="))
		}
		return append(out, term(t.V))
	case "range":
		lb, rb := "{", "}"
		if t.LSq {
			lb = "["
		}
		if t.RSq {
			rb = "]"
		}
		return []PTok{term(t.F), sym(":"), sym(lb), term(t.Lo), kw("TO"), term(t.Hi), sym(rb)}
	case "and":
		l := wrap(13 < t.L.Lvl(), t.L.Print())
		r := wrap(12 < t.R.Lvl(), t.R.Print())
		if t.Jux && l[len(l)-1].Term && r[0].Term {
			return append(l, r...)
		}
		return append(append(l, kw("AND")), r...)
	case "or":
		l := wrap(14 < t.L.Lvl(), t.L.Print())
		r := wrap(13 < t.R.Lvl(), t.R.Print())
		return append(append(l, kw("OR")), r...)
	case "not":
		return append([]PTok{kw("NOT")}, wrap(12 < t.E.Lvl(), t.E.Print())...)
	case "must":
		return append([]PTok{sym("+")}, wrap(8 < t.E.Lvl(), t.E.Print())...)
	case "mustNot":
		return append([]PTok{PTok{Text: "-"}}, wrap(9 < t.E.Lvl(), t.E.Print())...)
	case "fuzzy":
		out := append(wrap(10 < t.E.Lvl(), t.E.Print()), sym("~"))
		if t.Num != nil {
			out = append(out, term(*t.Num))
		}
		return out
	case "boost":
		out := append(wrap(11 < t.E.Lvl(), t.E.Print()), sym("^"))
		if t.Num != nil {
			out = append(out, term(*t.Num))
		}
		return out
	case "paren":
		return wrap(true, t.E.Print())
	}
	return nil
}

// EligibleJux reports whether this AND node can be written as juxtaposition (term token on both sides of the gap).
func (t *Ft) EligibleJux() bool {
	if t.K != "and" {
		return false
	}
	l := wrap(13 < t.L.Lvl(), t.L.Print())
	r := wrap(12 < t.R.Lvl(), t.R.Print())
	return l[len(l)-1].Term && r[0].Term
}

func wordlike(p PTok) bool { return !p.Sym }

func startsWithDigit(s string) bool { return len(s) > 0 && s[0] >= '0' && s[0] <= '9' }

// needsSep: must there be whitespace between two adjacent printed tokens for the lexer to see them as written?
func needsSep(x, y PTok) bool {
	if x.Text == "-" {
		// "-5" is a negative number, "--" then digit likewise; "-a" is minus then word
		return startsWithDigit(y.Text) || y.Text == "-" || strings.HasPrefix(y.Text, "-")
	}
	xw := wordlike(x) && !strings.HasPrefix(x.Text, `"`) && !strings.HasPrefix(x.Text, "/")
	yw := wordlike(y) && !strings.HasPrefix(y.Text, `"`) && !strings.HasPrefix(y.Text, "/")
	if xw && yw {
		return true
	}
	if xw && strings.HasPrefix(y.Text, "-") {
		return true // '-' is a word character
	}
	if xw && (strings.HasPrefix(y.Text, `"`) || strings.HasPrefix(y.Text, "/")) {
		return false
	}
	if strings.HasSuffix(x.Text, `\`) {
		return true
	}
	return false
}

var wsRuns = []string{" ", "  ", "\t", "\n", "\r\n", " \t ", "\n\n"}

// Spell turns printed tokens into text. mode 0: single spaces; 1: random whitespace runs (also leading/trailing);
// 2: tight (no whitespace wherever the lexer does not need it).
func Spell(r *Rng, toks []PTok, mode int) string {
	var sb strings.Builder
	if mode == 1 && r.Chance(1, 2) {
		sb.WriteString(Pick(r, wsRuns))
	}
	for i, t := range toks {
		if i > 0 {
			switch mode {
			case 0:
				sb.WriteString(" ")
			case 1:
				sb.WriteString(Pick(r, wsRuns))
			case 2:
				if needsSep(toks[i-1], t) {
					sb.WriteString(" ")
				}
			}
		}
		sb.WriteString(t.Text)
	}
	if mode == 1 && r.Chance(1, 2) {
		sb.WriteString(Pick(r, wsRuns))
	}
	return sb.String()
}

// RecaseKeywords gives AND/OR/NOT/TO a random letter case.
func RecaseKeywords(r *Rng, toks []PTok) []PTok {
	out := make([]PTok, len(toks))
	copy(out, toks)
	for i, t := range out {
		if !t.Term && !t.Sym && (t.Text == "AND" || t.Text == "OR" || t.Text == "NOT" || t.Text == "TO") {
			bs := []byte(t.Text)
			for k := range bs {
				if r.Chance(1, 2) {
					bs[k] = bs[k] + 32
				}
			}
			out[i].Text = string(bs)
		}
	}
	return out
}

// atom makes a random atom-level tree (leaf, eq, cmp, range).
func atom(r *Rng) *Ft {
	switch r.Intn(8) {
	case 0, 1:
		return &Ft{K: "leaf", Leaf: Pick(r, Leaves)}
	case 2, 3, 4:
		return &Ft{K: "eq", F: Pick(r, FieldLeaves), V: Pick(r, Leaves), UseEq: r.Chance(1, 4)}
	case 5:
		v := Pick(r, Leaves)
		return &Ft{K: "cmp", F: Pick(r, FieldLeaves), V: v, Gt: r.Chance(1, 2), OrEq: r.Chance(1, 2)}
	default:
		lo, hi := Pick(r, Leaves), Pick(r, Leaves)
		star := Leaf{Text: "*", Kind: "wild", Str: "*"}
		// open ends, each with probability 1/5 (so both ends open in 1 range of 25), and the empty string as a bound
		if r.Chance(1, 5) {
			lo = star
		}
		if r.Chance(1, 5) {
			hi = star
		}
		if r.Chance(1, 20) {
			lo = Leaf{Text: `""`, Kind: "str", Str: ""}
		}
		if r.Chance(1, 20) {
			hi = Leaf{Text: `""`, Kind: "str", Str: ""}
		}
		return &Ft{K: "range", F: Pick(r, FieldLeaves), Lo: lo, Hi: hi, LSq: r.Chance(2, 3), RSq: r.Chance(2, 3)}
	}
}

// RandomTreeTop is RandomTree, now and then much deeper than asked (5 to 11 levels more).
func RandomTreeTop(r *Rng, depth int) *Ft {
	if r.Chance(1, 12) {
		depth += 5 + r.Intn(7)
	}
	return RandomTree(r, depth)
}

// RandomTree builds a random syntax tree of at most the given depth.
func RandomTree(r *Rng, depth int) *Ft {
	if depth <= 0 || r.Chance(1, 5) {
		return atom(r)
	}
	switch r.Intn(12) {
	case 0, 1, 2:
		return &Ft{K: "and", L: RandomTree(r, depth-1), R: RandomTree(r, depth-1), Jux: r.Chance(1, 2)}
	case 3, 4:
		return &Ft{K: "or", L: RandomTree(r, depth-1), R: RandomTree(r, depth-1)}
	case 5:
		return &Ft{K: "not", E: RandomTree(r, depth-1)}
	case 6:
		return &Ft{K: "must", E: RandomTree(r, depth-1)}
	case 7:
		return &Ft{K: "mustNot", E: RandomTree(r, depth-1)}
	case 8:
		t := &Ft{K: "fuzzy", E: RandomTree(r, depth-1)}
		if r.Chance(1, 2) {
			n := Pick(r, FuzzyNums)
			t.Num = &n
		}
		return t
	case 9:
		t := &Ft{K: "boost", E: RandomTree(r, depth-1)}
		if r.Chance(1, 2) {
			n := Pick(r, BoostNums)
			t.Num = &n
		}
		return t
	case 10:
		if r.Chance(1, 2) {
			// a value list f:(v1 OR v2 …) in a random association (right-nested groups get their parentheses from Print)
			n := 2 + r.Intn(4)
			if r.Chance(1, 12) {
				// long lists around the sizes at which code switches to a bulk path (2^4, 2^5, 2^6)
				n = Pick(r, []int{15, 16, 17, 18, 31, 32, 33, 34, 64, 65})
			}
			vals := make([]Leaf, n)
			same := r.Chance(1, 2) // all values of one kind (all strings, all integers) now and then
			first := Pick(r, PlainValueLeaves)
			for i := range vals {
				vals[i] = Pick(r, PlainValueLeaves)
				if same && n > 6 {
					for k := 0; k < 20 && vals[i].Kind != first.Kind; k++ {
						vals[i] = Pick(r, PlainValueLeaves)
					}
				}
			}
			return &Ft{K: "eqGroup", F: Pick(r, FieldLeaves), E: OrChain(r, vals)}
		}
		return &Ft{K: "eqGroup", F: Pick(r, FieldLeaves), E: RandomTree(r, depth-1)}
	default:
		return &Ft{K: "paren", E: RandomTree(r, depth-1)}
	}
}

// PlainValueLeaves are plain (non-pattern) values for value lists.
var PlainValueLeaves = []Leaf{
	{Text: "b", Kind: "str", Str: "b"}, {Text: "c", Kind: "str", Str: "c"}, {Text: "d", Kind: "str", Str: "d"}, {Text: "e", Kind: "str", Str: "e"},
	{Text: `"q r"`, Kind: "str", Str: "q r"}, {Text: "5", Kind: "int", Int: 5}, {Text: "-3", Kind: "int", Int: -3}, {Text: "1.5", Kind: "float", Flt: 1.5},
}

// OrChain joins the values, in order, with OR in a random association; a redundant pair of parentheses is added now and then.
func OrChain(r *Rng, vals []Leaf) *Ft {
	if len(vals) == 1 {
		t := &Ft{K: "leaf", Leaf: vals[0]}
		if r.Chance(1, 8) {
			return &Ft{K: "paren", E: t}
		}
		return t
	}
	k := 1 + r.Intn(len(vals)-1)
	t := &Ft{K: "or", L: OrChain(r, vals[:k]), R: OrChain(r, vals[k:])}
	if r.Chance(1, 8) {
		return &Ft{K: "paren", E: t}
	}
	return t
}

// HasFuzzyBoost reports whether the tree contains a fuzzy or boost node.
func (t *Ft) HasFuzzyBoost() bool {
	if t == nil {
		return false
	}
	if t.K == "fuzzy" || t.K == "boost" {
		return true
	}
	return t.L.HasFuzzyBoost() || t.R.HasFuzzyBoost() || t.E.HasFuzzyBoost()
}

// StripJux clears every juxtaposition flag (explicit AND everywhere).
func (t *Ft) StripJux() *Ft {
	if t == nil {
		return nil
	}
	c := *t
	c.Jux = false
	c.L, c.R, c.E = t.L.StripJux(), t.R.StripJux(), t.E.StripJux()
	return &c
}

// HasJux reports whether some AND node is actually printed as juxtaposition.
func (t *Ft) HasJux() bool {
	if t == nil {
		return false
	}
	if t.K == "and" && t.Jux && t.EligibleJux() {
		return true
	}
	return t.L.HasJux() || t.R.HasJux() || t.E.HasJux()
}

// AddParens wraps randomly chosen operands, field values and the whole query in redundant parentheses
// (the positions C09 names: the whole query, an operand of an explicitly written operator, a field's value).
func (t *Ft) AddParens(r *Rng, p int) *Ft {
	if t == nil {
		return nil
	}
	c := *t
	wrapIf := func(x *Ft) *Ft {
		if x == nil {
			return nil
		}
		y := x.AddParens(r, p)
		if r.Chance(p, 100) {
			return &Ft{K: "paren", E: y}
		}
		return y
	}
	switch t.K {
	case "and":
		if t.Jux && t.EligibleJux() {
			// operands of a juxtaposition are not operands of an explicitly written operator
			c.L, c.R = t.L.AddParens(r, p), t.R.AddParens(r, p)
			if !c.EligibleJux() {
				c.L, c.R = t.L, t.R
			}
		} else {
			c.L, c.R = wrapIf(t.L), wrapIf(t.R)
		}
	case "or":
		c.L, c.R = wrapIf(t.L), wrapIf(t.R)
	case "not", "must", "mustNot", "fuzzy", "boost":
		c.E = wrapIf(t.E)
	case "eqGroup", "paren":
		c.E = wrapIf(t.E)
	case "eq":
		// parentheses around a field's value: f:v written f:(v)
		if !t.UseEq && r.Chance(p, 100) {
			return &Ft{K: "eqGroup", F: t.F, E: &Ft{K: "leaf", Leaf: t.V}}
		}
	}
	return &c
}
