// Package oracle builds, through the PUBLIC constructors of pkg/lucene/expr, the expression a syntax tree denotes.
// It is the independent reference for C05/C07/C09: it never calls the parser.
package oracle

import (
	"github.com/grindlemire/go-lucene/pkg/lucene/expr"
	"github.com/grindlemire/go-lucene/verifharness/gen"
)

// LeafExpr is the typed value of a term.
func LeafExpr(l gen.Leaf) *expr.Expression {
	switch l.Kind {
	case "int":
		return expr.Lit(l.Int)
	case "float":
		return expr.Lit(l.Flt)
	case "wild":
		return expr.WILD(l.Str)
	case "regexp":
		return expr.REGEXP(l.Str)
	default:
		return expr.Lit(l.Str)
	}
}

// plainValues returns the plain literal values of an OR-chain (a value list), or nil if e is not one.
func plainValues(e *expr.Expression) []*expr.Expression {
	if e.Op == expr.Literal {
		return []*expr.Expression{e}
	}
	if e.Op == expr.Or {
		l, lok := e.Left.(*expr.Expression)
		r, rok := e.Right.(*expr.Expression)
		if !lok || !rok {
			return nil
		}
		lv, rv := plainValues(l), plainValues(r)
		if lv == nil || rv == nil {
			return nil
		}
		return append(lv, rv...)
	}
	return nil
}

// Build is the expression the tree denotes (no default field).
func Build(t *gen.Ft) *expr.Expression {
	switch t.K {
	case "leaf":
		return LeafExpr(t.Leaf)
	case "eq":
		return expr.Eq(LeafExpr(t.F), LeafExpr(t.V))
	case "eqGroup":
		v := Build(t.E)
		if vals := plainValues(v); len(vals) > 1 {
			return expr.IN(LeafExpr(t.F), expr.LIST(vals))
		}
		return expr.Eq(LeafExpr(t.F), v)
	case "cmp":
		f, v := LeafExpr(t.F), LeafExpr(t.V)
		switch {
		case t.Gt && t.OrEq:
			return expr.GREATEREQ(f, v)
		case t.Gt:
			return expr.GREATER(f, v)
		case t.OrEq:
			return expr.LESSEQ(f, v)
		default:
			return expr.LESS(f, v)
		}
	case "range":
		return expr.Rang(LeafExpr(t.F), LeafExpr(t.Lo), LeafExpr(t.Hi), t.LSq && t.RSq)
	case "and":
		return expr.AND(Build(t.L), Build(t.R))
	case "or":
		return expr.OR(Build(t.L), Build(t.R))
	case "not":
		return expr.NOT(Build(t.E))
	case "must":
		return expr.MUST(Build(t.E))
	case "mustNot":
		return expr.MUSTNOT(Build(t.E))
	case "fuzzy":
		if t.Num != nil {
			return expr.FUZZY(Build(t.E), t.Num.Int)
		}
		return expr.FUZZY(Build(t.E))
	case "boost":
		if t.Num != nil {
			if t.Num.Kind == "float" {
				return expr.BOOST(Build(t.E), t.Num.Flt)
			}
			return expr.BOOST(Build(t.E), float64(t.Num.Int))
		}
		return expr.BOOST(Build(t.E))
	case "paren":
		return Build(t.E)
	}
	return nil
}
