package oracle

import (
	"fmt"
	"strings"

	"github.com/grindlemire/go-lucene/pkg/lucene/expr"
)

// noParen is the set of operators whose operands are never parenthesised by Base.Render (README / base.go).
var noParen = map[expr.Operator]bool{expr.Range: true, expr.Not: true, expr.List: true, expr.In: true, expr.Literal: true, expr.Must: true, expr.MustNot: true}

func simple(in any) bool {
	switch v := in.(type) {
	case *expr.Expression:
		return v.Op == expr.Undefined || v.Op == expr.Literal || v.Op == expr.Regexp || v.Op == expr.Wild
	case expr.Column, nil, string, int, float64:
		return true
	}
	return false
}

// FoldTrace is what Render must produce with the all-tracing function map: the obvious catamorphism — children first,
// left then right, parentheses exactly when the operator is outside the exclusion list and the child is not simple,
// every node visited once.  ok=false when the fold meets something Render reports as an error (bad column name).
// calls counts the function applications (one per expression node).
func FoldTrace(e *expr.Expression, calls *int) (string, bool) {
	left, ok := foldAny(e.Left, calls)
	if !ok {
		return "", false
	}
	right, ok := foldAny(e.Right, calls)
	if !ok {
		return "", false
	}
	if !noParen[e.Op] {
		if !simple(e.Left) {
			left = "(" + left + ")"
		}
		if !simple(e.Right) {
			right = "(" + right + ")"
		}
	}
	*calls++
	return fmt.Sprintf("<%d|%s|%s>", int(e.Op), left, right), true
}

func foldAny(in any, calls *int) (string, bool) {
	switch v := in.(type) {
	case nil:
		return "", true
	case *expr.Expression:
		if v == nil {
			return "", true
		}
		return FoldTrace(v, calls)
	case []*expr.Expression:
		parts := []string{}
		for _, x := range v {
			s, ok := FoldTrace(x, calls)
			if !ok {
				return "", false
			}
			parts = append(parts, s)
		}
		return strings.Join(parts, ", "), true
	case *expr.RangeBoundary:
		mn, ok := foldAny(v.Min, calls)
		if !ok {
			return "", false
		}
		mx, ok := foldAny(v.Max, calls)
		if !ok {
			return "", false
		}
		if v.Inclusive {
			return "[" + mn + ", " + mx + "]", true
		}
		return "(" + mn + ", " + mx + ")", true
	case expr.Column:
		if len(v) == 0 || strings.ContainsRune(string(v), '"') {
			return "", false
		}
		return `"` + string(v) + `"`, true
	case string:
		return "'" + strings.ReplaceAll(v, "'", "''") + "'", true
	default:
		return fmt.Sprintf("%v", v), true
	}
}

// HasOp reports whether the operator occurs anywhere in the tree.
func HasOp(in any, op expr.Operator) bool {
	switch v := in.(type) {
	case *expr.Expression:
		if v == nil {
			return false
		}
		return v.Op == op || HasOp(v.Left, op) || HasOp(v.Right, op)
	case []*expr.Expression:
		for _, x := range v {
			if HasOp(x, op) {
				return true
			}
		}
	case *expr.RangeBoundary:
		if v == nil {
			return false
		}
		return HasOp(v.Min, op) || HasOp(v.Max, op)
	}
	return false
}
