package oracle

import (
	"github.com/grindlemire/go-lucene/pkg/lucene/expr"
	"github.com/grindlemire/go-lucene/verifharness/gen"
)

func isStar(l gen.Leaf) bool { return l.Kind == "wild" && l.Str == "*" }

// Meaning is the *meaning tree* of a filter: what the query text denotes, in expression form, with a range whose
// brackets differ spelled as the two comparisons it stands for.  It is built from the syntax tree the generator made,
// never from the parser's output.
func Meaning(t *gen.Ft) *expr.Expression {
	switch t.K {
	case "range":
		if t.LSq == t.RSq {
			return expr.Rang(LeafExpr(t.F), LeafExpr(t.Lo), LeafExpr(t.Hi), t.LSq)
		}
		var lo, hi *expr.Expression
		if !isStar(t.Lo) {
			if t.LSq {
				lo = expr.GREATEREQ(LeafExpr(t.F), LeafExpr(t.Lo))
			} else {
				lo = expr.GREATER(LeafExpr(t.F), LeafExpr(t.Lo))
			}
		}
		if !isStar(t.Hi) {
			if t.RSq {
				hi = expr.LESSEQ(LeafExpr(t.F), LeafExpr(t.Hi))
			} else {
				hi = expr.LESS(LeafExpr(t.F), LeafExpr(t.Hi))
			}
		}
		switch {
		case lo != nil && hi != nil:
			return expr.AND(lo, hi)
		case lo != nil:
			return lo
		case hi != nil:
			return hi
		default:
			return expr.Rang(LeafExpr(t.F), LeafExpr(t.Lo), LeafExpr(t.Hi), true)
		}
	case "and":
		return expr.AND(Meaning(t.L), Meaning(t.R))
	case "or":
		return expr.OR(Meaning(t.L), Meaning(t.R))
	case "not":
		return expr.NOT(Meaning(t.E))
	case "must":
		return expr.MUST(Meaning(t.E))
	case "mustNot":
		return expr.MUSTNOT(Meaning(t.E))
	case "paren":
		return Meaning(t.E)
	}
	return Build(t)
}
