// effects — regenerates GoLucene/Generated/Effects.lean from /repo's current working tree.
//
// A small static translator (go/parser + go/types, standard library only) that turns the non-test Go source of
// the library into an EFFECT GRAPH: one node per function, method, function literal and package-level variable
// initialiser; a conservative reference edge f → g whenever f's body mentions g (called or merely referenced, so
// function values stored in tables and passed around are followed), f → init:v whenever f mentions the package-level
// variable v (so the functions stored in a global table are reachable from whoever reads the table), edges from
// every function that calls out of the module to the "magic" methods the standard library may call back
// (String, GoString, Error, MarshalJSON, UnmarshalJSON, Format), and f → every method named m whenever f calls m
// through an interface.  Per node it records the WRITES of the body, classified by what memory is written:
//
//	global:<pkg>.<var>      the written location is (reached from) a package-level variable
//	field:<Type>.<field>    a field of a named struct type of the module written THROUGH a pointer (shared memory)
//	mapelem:<map type>      an element of a map (assignment, delete, clear)
//	elem:<slice type>       an element of a slice written through an index / copy / append into spare capacity
//	deref:<type>            *p = …
//
// together with the ROOT of the written expression (recv / param / local / global / other): a write whose root is a
// plain local variable holding a struct VALUE is no shared-memory write and is not recorded.
//
// The Lean side (GoLucene/Proofs/EffectsCheck.lean) computes reachability in this graph by kernel evaluation and
// proves, for the tree as it is now: no function reachable from any API entry point writes a package-level variable;
// no function reachable from the read-only consumers (Render, RenderParam, String, GoString, MarshalJSON, Validate)
// writes a field of an expression / range boundary or a map element.  That is the source-level fact the session
// model of C14 (`Op.readOnly`, history-free outputs) stands on.  What is trusted: this translator (the edges are
// over-approximated, the writes are syntactic assignments, inc/dec, delete, clear, copy, append; writes performed by
// standard-library code on memory handed to it — sort.Slice, json.Unmarshal into a pointer — are recorded as
// `stdlib-out:<callee>` facts when an address or slice of module memory is passed).
package main

import (
	"fmt"
	"go/ast"
	"go/importer"
	"go/parser"
	"go/token"
	"go/types"
	"os"
	"path/filepath"
	"sort"
	"strconv"
	"strings"
)

const modPath = "github.com/grindlemire/go-lucene"

var pkgDirs = []string{"", "internal/lex", "pkg/driver", "pkg/lucene/expr", "pkg/lucene/reduce"}

type loader struct {
	root  string
	fset  *token.FileSet
	std   types.Importer
	pkgs  map[string]*types.Package
	files map[string][]*ast.File
	infos map[string]*types.Info
}

func (l *loader) Import(path string) (*types.Package, error) {
	if path == modPath || strings.HasPrefix(path, modPath+"/") {
		return l.load(path)
	}
	return l.std.Import(path)
}

func (l *loader) load(path string) (*types.Package, error) {
	if p, ok := l.pkgs[path]; ok {
		return p, nil
	}
	dir := filepath.Join(l.root, strings.TrimPrefix(strings.TrimPrefix(path, modPath), "/"))
	ents, err := os.ReadDir(dir)
	if err != nil {
		return nil, err
	}
	var files []*ast.File
	for _, e := range ents {
		n := e.Name()
		if e.IsDir() || !strings.HasSuffix(n, ".go") || strings.HasSuffix(n, "_test.go") {
			continue
		}
		f, err := parser.ParseFile(l.fset, filepath.Join(dir, n), nil, parser.SkipObjectResolution)
		if err != nil {
			return nil, err
		}
		files = append(files, f)
	}
	info := &types.Info{Types: map[ast.Expr]types.TypeAndValue{}, Defs: map[*ast.Ident]types.Object{}, Uses: map[*ast.Ident]types.Object{},
		Selections: map[*ast.SelectorExpr]*types.Selection{}, Implicits: map[ast.Node]types.Object{}}
	conf := types.Config{Importer: l, Error: func(err error) {}}
	p, err := conf.Check(path, l.fset, files, info)
	if err != nil {
		return nil, fmt.Errorf("type-check %s: %v", path, err)
	}
	l.pkgs[path], l.files[path], l.infos[path] = p, files, info
	return p, nil
}

type node struct {
	name   string
	refs   map[string]bool // names of nodes referenced
	writes map[string]bool // "class|root"
	iface  map[string]bool // method names called through an interface or on an unknown receiver
	out    map[string]bool // method names the standard-library code called from here may call back
	dyn    map[string]bool // signatures of function VALUES called from here (a variable, field or table element)
	sig    string          // the node's own signature (functions, methods and function literals)
	nondet map[string]bool // constructs whose outcome is not a function of the arguments: map iteration, goroutines, select, clocks, randomness, environment
}

func sigString(t types.Type) string {
	if t == nil {
		return ""
	}
	s, ok := t.Underlying().(*types.Signature)
	if !ok {
		return ""
	}
	// parameter and result TYPES only: no receiver (a method value has the method's signature without it), no names
	anon := func(t *types.Tuple) *types.Tuple {
		vs := make([]*types.Var, t.Len())
		for i := range vs {
			vs[i] = types.NewVar(token.NoPos, nil, "", t.At(i).Type())
		}
		return types.NewTuple(vs...)
	}
	return types.TypeString(types.NewSignatureType(nil, nil, nil, anon(s.Params()), anon(s.Results()), s.Variadic()), func(p *types.Package) string { return p.Path() })
}

// callbacks: which methods of module types the code of a standard-library package may call on values handed to it.
// A package that is not listed is assumed to call back every one of them.
var allMagic = []string{"String", "GoString", "Error", "Format", "MarshalJSON", "MarshalText", "UnmarshalJSON", "UnmarshalText", "Unwrap", "Is", "As",
	"Len", "Less", "Swap", "Write", "Read"}

var callbacks = map[string][]string{
	"sync": {}, "sync/atomic": {}, "strings": {}, "strconv": {}, "unicode": {}, "unicode/utf8": {}, "math": {}, "bytes": {}, "reflect": {}, "regexp": {},
	"errors": {"Error", "Unwrap", "Is", "As"},
	"sort":   {"Len", "Less", "Swap"},
	"fmt":    {"String", "GoString", "Error", "Format", "Write"},
}

// nondetPkgs: packages whose functions read something other than their arguments (clock, randomness, environment,
// scheduler, file system, network).
var nondetPkgs = map[string]bool{"time": true, "math/rand": true, "math/rand/v2": true, "crypto/rand": true, "os": true, "runtime": true,
	"os/exec": true, "net": true, "net/http": true, "io/ioutil": true, "syscall": true, "unsafe": true, "reflect": false}

func callbacksOf(fn *types.Func) []string {
	p := fn.Pkg().Path()
	if p == "encoding/json" {
		n := fn.Name()
		if strings.HasPrefix(n, "Marshal") || n == "Encode" || n == "Valid" || n == "Compact" || n == "Indent" || n == "HTMLEscape" {
			return []string{"MarshalJSON", "MarshalText", "Write"}
		}
		if strings.HasPrefix(n, "Unmarshal") || n == "Decode" {
			return []string{"UnmarshalJSON", "UnmarshalText", "Read"}
		}
		if n == "NewDecoder" || n == "NewEncoder" || n == "UseNumber" || n == "DisallowUnknownFields" || n == "More" || n == "Token" {
			return []string{"Read", "Write"}
		}
		return allMagic
	}
	if c, ok := callbacks[p]; ok {
		return c
	}
	return allMagic
}

func short(path string) string {
	p := strings.TrimPrefix(strings.TrimPrefix(path, modPath), "/")
	if p == "" {
		return "lucene"
	}
	return p[strings.LastIndex(p, "/")+1:]
}

func typeName(t types.Type) string {
	return types.TypeString(t, func(p *types.Package) string { return short(p.Path()) })
}

func inModule(p *types.Package) bool {
	return p != nil && (p.Path() == modPath || strings.HasPrefix(p.Path(), modPath+"/"))
}

func funcNodeName(fn *types.Func) string {
	sig := fn.Type().(*types.Signature)
	if r := sig.Recv(); r != nil {
		t := r.Type()
		if p, ok := t.(*types.Pointer); ok {
			t = p.Elem()
		}
		if n, ok := t.(*types.Named); ok {
			return short(fn.Pkg().Path()) + "." + n.Obj().Name() + "." + fn.Name()
		}
	}
	return short(fn.Pkg().Path()) + "." + fn.Name()
}

type walker struct {
	l      *loader
	pkg    *types.Package
	info   *types.Info
	nodes  map[string]*node
	params map[types.Object]string // object → "recv" / "param"
	stale  map[types.Object]bool   // locals that (also) receive something other than a freshly allocated value
	lit    *ast.FuncLit            // the function literal being walked, if any (its free variables are "captured")
	alias  map[types.Object]string // locals assigned directly from a package-level variable (m := Shared): that variable
}

// globalOf: the expression is a package-level variable (possibly parenthesised / sliced): its name, else "".
func (w *walker) globalOf(e ast.Expr) string {
	switch v := e.(type) {
	case *ast.ParenExpr:
		return w.globalOf(v.X)
	case *ast.SliceExpr:
		return w.globalOf(v.X)
	case *ast.Ident:
		if vr, ok := w.info.Uses[v].(*types.Var); ok && vr.Pkg() != nil && vr.Parent() == vr.Pkg().Scope() {
			return short(vr.Pkg().Path()) + "." + vr.Name()
		}
	case *ast.SelectorExpr:
		if vr, ok := w.info.Uses[v.Sel].(*types.Var); ok && vr.Pkg() != nil && vr.Parent() == vr.Pkg().Scope() {
			return short(vr.Pkg().Path()) + "." + vr.Name()
		}
	}
	return ""
}

// freshRHS: the expression allocates a new value that nothing else refers to yet.
func (w *walker) freshRHS(e ast.Expr) bool {
	switch v := e.(type) {
	case *ast.ParenExpr:
		return w.freshRHS(v.X)
	case *ast.CompositeLit, *ast.FuncLit, *ast.BasicLit:
		return true
	case *ast.UnaryExpr:
		if v.Op == token.AND {
			_, ok := v.X.(*ast.CompositeLit)
			return ok
		}
	case *ast.CallExpr:
		if id, ok := v.Fun.(*ast.Ident); ok {
			if _, isB := w.info.Uses[id].(*types.Builtin); isB && (id.Name == "new" || id.Name == "make") {
				return true
			}
		}
	case *ast.Ident:
		return v.Name == "nil"
	}
	return false
}

// scanStale marks the local variables of a body that are ever given a value that is not freshly allocated.
func (w *walker) scanStale(b ast.Node) {
	mark := func(e ast.Expr) {
		if id, ok := e.(*ast.Ident); ok {
			obj := w.info.Defs[id]
			if obj == nil {
				obj = w.info.Uses[id]
			}
			if obj != nil {
				w.stale[obj] = true
			}
		}
	}
	ast.Inspect(b, func(x ast.Node) bool {
		switch v := x.(type) {
		case *ast.AssignStmt:
			if len(v.Lhs) != len(v.Rhs) {
				for _, l := range v.Lhs {
					mark(l)
				}
				return true
			}
			for i, l := range v.Lhs {
				if v.Tok != token.DEFINE && v.Tok != token.ASSIGN {
					continue // x += … on a local variable itself: no aliasing
				}
				if !w.freshRHS(v.Rhs[i]) {
					mark(l)
					if g := w.globalOf(v.Rhs[i]); g != "" {
						if id, ok := l.(*ast.Ident); ok {
							obj := w.info.Defs[id]
							if obj == nil {
								obj = w.info.Uses[id]
							}
							if obj != nil {
								w.alias[obj] = g
							}
						}
					}
				}
			}
		case *ast.RangeStmt:
			if v.Key != nil {
				mark(v.Key)
			}
			if v.Value != nil {
				mark(v.Value)
			}
		case *ast.ValueSpec:
			for i, nm := range v.Names {
				if len(v.Values) == 0 {
					continue // zero value
				}
				if len(v.Values) != len(v.Names) || !w.freshRHS(v.Values[i]) {
					mark(nm)
				}
			}
		case *ast.TypeSwitchStmt:
			if a, ok := v.Assign.(*ast.AssignStmt); ok {
				for _, l := range a.Lhs {
					mark(l)
				}
				// the per-clause implicit objects
				for _, cc := range v.Body.List {
					if obj := w.info.Implicits[cc]; obj != nil {
						w.stale[obj] = true
					}
				}
			}
		}
		return true
	})
}

func (w *walker) get(name string) *node {
	n, ok := w.nodes[name]
	if !ok {
		n = &node{name: name, refs: map[string]bool{}, writes: map[string]bool{}, iface: map[string]bool{}, out: map[string]bool{}, dyn: map[string]bool{}, nondet: map[string]bool{}}
		w.nodes[name] = n
	}
	return n
}

// rootOf peels an lvalue down to its root and says whether shared memory (pointer / map / slice) was crossed and what
// kind of memory the outermost step writes.
func (w *walker) classify(e ast.Expr) (class string, root string, shared bool) {
	class = ""
	cur := e
	for {
		switch v := cur.(type) {
		case *ast.ParenExpr:
			cur = v.X
			continue
		case *ast.StarExpr:
			if class == "" {
				class = "deref:" + typeName(w.info.TypeOf(v))
			}
			shared = true
			cur = v.X
			continue
		case *ast.IndexExpr:
			t := w.info.TypeOf(v.X)
			if t != nil {
				switch u := t.Underlying().(type) {
				case *types.Map:
					if class == "" {
						class = "mapelem:" + typeName(t)
					}
					shared = true
				case *types.Slice:
					if class == "" {
						class = "elem:" + typeName(t)
					}
					shared = true
				case *types.Pointer:
					if class == "" {
						class = "elem:" + typeName(u.Elem())
					}
					shared = true
				default:
					if class == "" {
						class = "arrayelem:" + typeName(t)
					}
				}
			}
			cur = v.X
			continue
		case *ast.SliceExpr:
			shared = true
			cur = v.X
			continue
		case *ast.SelectorExpr:
			if sel, ok := w.info.Selections[v]; ok && sel.Kind() == types.FieldVal {
				rt := sel.Recv()
				ptr := false
				if p, ok := rt.Underlying().(*types.Pointer); ok {
					rt, ptr = p.Elem(), true
				}
				if class == "" {
					class = "field:" + typeName(rt) + "." + v.Sel.Name
				}
				if ptr || sel.Indirect() {
					shared = true
				}
				cur = v.X
				continue
			}
			// package-qualified identifier
			if obj := w.info.Uses[v.Sel]; obj != nil {
				if vr, ok := obj.(*types.Var); ok && vr.Parent() == vr.Pkg().Scope() {
					if class == "" {
						class = "var"
					}
					return "global:" + short(vr.Pkg().Path()) + "." + vr.Name() + "/" + class, "global", true
				}
			}
			return class, "other", shared
		case *ast.Ident:
			obj := w.info.Uses[v]
			if obj == nil {
				obj = w.info.Defs[v]
			}
			if vr, ok := obj.(*types.Var); ok {
				if vr.Pkg() != nil && vr.Parent() == vr.Pkg().Scope() {
					if class == "" {
						class = "var"
					}
					return "global:" + short(vr.Pkg().Path()) + "." + vr.Name() + "/" + class, "global", true
				}
				if k, ok := w.params[vr]; ok {
					return class, k, shared
				}
				if g, ok := w.alias[vr]; ok && shared {
					if class == "" {
						class = "var"
					}
					return "global:" + g + "/" + class, "global", true
				}
				if w.lit != nil && (vr.Pos() < w.lit.Pos() || vr.Pos() > w.lit.End()) {
					// a variable of the enclosing function used inside a function literal: state shared by every call of the literal
					return class, "captured", true
				}
				if !w.stale[vr] {
					return class, "fresh", shared
				}
				return class, "local", shared
			}
			return class, "other", shared
		case *ast.CallExpr, *ast.TypeAssertExpr:
			return class, "other", shared
		default:
			return class, "other", shared
		}
	}
}

func (w *walker) recordWrite(n *node, e ast.Expr) {
	if id, ok := e.(*ast.Ident); ok && id.Name == "_" {
		return
	}
	class, root, shared := w.classify(e)
	if !shared {
		return // a plain local (or a field / array element of a local value): no shared memory is written
	}
	if class == "" {
		class = "var"
	}
	n.writes[class+"|"+root] = true
}

// splitClass turns "field:expr.Expression.Left" into (kind, owner, member).
func splitClass(c string) (kind, owner, member string) {
	i := strings.Index(c, ":")
	if i < 0 {
		return c, "", ""
	}
	kind, rest := c[:i], c[i+1:]
	if kind == "field" {
		if j := strings.LastIndex(rest, "."); j >= 0 {
			return kind, rest[:j], rest[j+1:]
		}
	}
	if j := strings.Index(kind, " "); j >= 0 { // "addr-of global", "append-into global", "stdlib-out:<f> global"
		kind = kind[:j]
	}
	return kind, rest, ""
}

func (w *walker) body(n *node, b ast.Node) {
	if b == nil {
		return
	}
	ast.Inspect(b, func(x ast.Node) bool {
		switch v := x.(type) {
		case *ast.FuncLit:
			// a function literal is its own node, referenced by the enclosing function
			pos := w.l.fset.Position(v.Pos())
			name := fmt.Sprintf("%s$lit@%s:%d", n.name, filepath.Base(pos.Filename), pos.Line)
			c := w.get(name)
			c.sig = sigString(w.info.TypeOf(v))
			n.refs[name] = true
			saved := w.params
			w.params = map[types.Object]string{}
			for k, val := range saved {
				w.params[k] = val // captured variables keep their classification
			}
			w.bindParams(v.Type, nil)
			savedLit := w.lit
			if w.lit == nil {
				w.lit = v // nested literals: anything outside the OUTERMOST literal is captured
			}
			w.body(c, v.Body)
			w.lit = savedLit
			w.params = saved
			return false
		case *ast.AssignStmt:
			if v.Tok != token.DEFINE {
				for _, l := range v.Lhs {
					w.recordWrite(n, l)
				}
			}
		case *ast.IncDecStmt:
			w.recordWrite(n, v.X)
		case *ast.GoStmt:
			n.nondet["go"] = true
		case *ast.SelectStmt:
			n.nondet["select"] = true
		case *ast.RangeStmt:
			if t := w.info.TypeOf(v.X); t != nil {
				if _, isMap := t.Underlying().(*types.Map); isMap {
					n.nondet["maprange:"+typeName(t)] = true
				}
			}
			if v.Tok == token.ASSIGN {
				if v.Key != nil {
					w.recordWrite(n, v.Key)
				}
				if v.Value != nil {
					w.recordWrite(n, v.Value)
				}
			}
		case *ast.UnaryExpr:
			if v.Op == token.AND {
				// the address of a package-level variable escapes: treat as a potential write
				if _, root, _ := w.classify(v.X); root == "global" {
					c, _, _ := w.classify(v.X)
					n.writes["addr-of "+c+"|global"] = true
				}
			}
		case *ast.CallExpr:
			w.call(n, v)
		case *ast.Ident:
			obj := w.info.Uses[v]
			switch o := obj.(type) {
			case *types.Func:
				if inModule(o.Pkg()) {
					n.refs[funcNodeName(o)] = true
				}
			case *types.Var:
				if o.Pkg() != nil && inModule(o.Pkg()) && o.Parent() == o.Pkg().Scope() {
					n.refs["init:"+short(o.Pkg().Path())+"."+o.Name()] = true
				}
			}
		}
		return true
	})
}

func (w *walker) call(n *node, c *ast.CallExpr) {
	// builtins that write
	if id, ok := c.Fun.(*ast.Ident); ok {
		if _, isB := w.info.Uses[id].(*types.Builtin); isB {
			switch id.Name {
			case "delete", "clear", "copy":
				if len(c.Args) > 0 {
					class, root, _ := w.classify(c.Args[0])
					t := w.info.TypeOf(c.Args[0])
					kind := "elem:"
					if t != nil {
						if _, ok := t.Underlying().(*types.Map); ok {
							kind = "mapelem:"
						}
						kind += typeName(t)
					}
					if strings.HasPrefix(class, "global:") {
						n.writes[class+"|global"] = true
					} else {
						n.writes[kind+"|"+root] = true
					}
				}
			case "append":
				// append may write into the spare capacity of its first argument's backing array
				if len(c.Args) > 0 {
					class, root, _ := w.classify(c.Args[0])
					if strings.HasPrefix(class, "global:") {
						n.writes["append-into "+class+"|global"] = true
					} else if root == "recv" || root == "param" {
						if t := w.info.TypeOf(c.Args[0]); t != nil {
							n.writes["append-into:"+typeName(t)+"|"+root] = true
						}
					}
				}
			}
			return
		}
	}
	// a call of a function VALUE: anything that is not a declared function, a method, a conversion or a builtin
	dynamic := func(fun ast.Expr) bool {
		if tv, ok := w.info.Types[fun]; ok && tv.IsType() {
			return false // conversion
		}
		switch f := fun.(type) {
		case *ast.Ident:
			switch w.info.Uses[f].(type) {
			case *types.Func, *types.Builtin, *types.TypeName:
				return false
			}
			return true
		case *ast.SelectorExpr:
			if sel, ok := w.info.Selections[f]; ok {
				return sel.Kind() == types.FieldVal
			}
			switch w.info.Uses[f.Sel].(type) {
			case *types.Func, *types.TypeName:
				return false
			}
			return true
		case *ast.FuncLit:
			return false // referenced as its own node already
		case *ast.ParenExpr, *ast.IndexExpr, *ast.CallExpr, *ast.TypeAssertExpr, *ast.StarExpr:
			return true
		}
		return false
	}
	if dynamic(c.Fun) {
		if sg := sigString(w.info.TypeOf(c.Fun)); sg != "" {
			n.dyn[sg] = true
		}
	}
	// method calls through an interface; calls out of the module
	switch f := c.Fun.(type) {
	case *ast.SelectorExpr:
		if sel, ok := w.info.Selections[f]; ok {
			if _, isI := sel.Recv().Underlying().(*types.Interface); isI {
				n.iface[f.Sel.Name] = true
			}
			if fn, ok := sel.Obj().(*types.Func); ok && fn.Pkg() != nil && !inModule(fn.Pkg()) {
				for _, m := range callbacksOf(fn) {
					n.out[m] = true
				}
				w.stdlibOut(n, fn, c)
				// a pointer-receiver method of a library type (sync.Pool, atomic.Int32, strings.Builder, bytes.Buffer, …)
				// may write its receiver: a write through the receiver expression
				if sig, ok := fn.Type().(*types.Signature); ok && sig.Recv() != nil {
					rt := typeName(sel.Recv())
					// documented as stateless and safe for concurrent use: not a write
					readOnlyLib := rt == "*strings.Replacer" || rt == "strings.Replacer" || rt == "*regexp.Regexp" || rt == "regexp.Regexp"
					if _, isPtr := sig.Recv().Type().(*types.Pointer); isPtr && !readOnlyLib {
						class, root, _ := w.classify(f.X)
						switch {
						case strings.HasPrefix(class, "global:"):
							n.writes["libmethod:"+rt+"."+fn.Name()+" "+class+"|global"] = true
						case root == "recv" || root == "param" || root == "captured":
							n.writes["libmethod:"+rt+"."+fn.Name()+"|"+root] = true
						}
					}
				}
			}
		} else if fn, ok := w.info.Uses[f.Sel].(*types.Func); ok && fn.Pkg() != nil && !inModule(fn.Pkg()) {
			if nondetPkgs[fn.Pkg().Path()] {
				n.nondet["call:"+fn.Pkg().Path()+"."+fn.Name()] = true
			}
			for _, m := range callbacksOf(fn) {
				n.out[m] = true
			}
			w.stdlibOut(n, fn, c)
		}
	}
}

// stdlibOut records module memory handed to standard-library code that may write it: an address (&x, a pointer-typed
// receiver/param/global) or a slice / map rooted in a receiver, parameter or global, for the callees known to write.
func (w *walker) stdlibOut(n *node, fn *types.Func, c *ast.CallExpr) {
	full := fn.Pkg().Path() + "." + fn.Name()
	writers := map[string]bool{"sort.Slice": true, "sort.SliceStable": true, "sort.Strings": true, "sort.Ints": true, "sort.Sort": true,
		"sort.Stable": true, "slices.Sort": true, "slices.SortFunc": true, "slices.Reverse": true, "encoding/json.Unmarshal": true,
		"maps.Copy": true, "maps.DeleteFunc": true, "slices.SortStableFunc": true}
	if !writers[full] {
		return
	}
	for _, a := range c.Args {
		arg := a
		if u, ok := a.(*ast.UnaryExpr); ok && u.Op == token.AND {
			arg = u.X
		}
		class, root, _ := w.classify(arg)
		if strings.HasPrefix(class, "global:") {
			n.writes["stdlib-out:"+full+" "+class+"|global"] = true
		} else if root == "recv" || root == "param" {
			n.writes["stdlib-out:"+full+"|"+root] = true
		}
	}
}

func (w *walker) bindParams(ft *ast.FuncType, recv *ast.FieldList) {
	bind := func(fl *ast.FieldList, kind string) {
		if fl == nil {
			return
		}
		for _, f := range fl.List {
			for _, nm := range f.Names {
				if obj := w.info.Defs[nm]; obj != nil {
					w.params[obj] = kind
				}
			}
		}
	}
	bind(recv, "recv")
	bind(ft.Params, "param")
}

func lstr(items []string) string {
	q := make([]string, len(items))
	for i, s := range items {
		q[i] = strconv.Quote(s)
	}
	return "[" + strings.Join(q, ", ") + "]"
}

func main() {
	if len(os.Args) < 3 {
		fmt.Fprintln(os.Stderr, "usage: effects <repo> <out.lean> [facts.txt]")
		os.Exit(2)
	}
	root := os.Args[1]
	fset := token.NewFileSet()
	l := &loader{root: root, fset: fset, std: importer.ForCompiler(fset, "source", nil), pkgs: map[string]*types.Package{},
		files: map[string][]*ast.File{}, infos: map[string]*types.Info{}}
	nodes := map[string]*node{}
	for _, d := range pkgDirs {
		path := modPath
		if d != "" {
			path += "/" + d
		}
		if _, err := l.load(path); err != nil {
			fmt.Fprintln(os.Stderr, "effects:", err)
			os.Exit(2)
		}
	}
	methodsByName := map[string][]string{}
	exportedNodes := map[string]bool{}
	for path, files := range l.files {
		w := &walker{l: l, pkg: l.pkgs[path], info: l.infos[path], nodes: nodes}
		for _, f := range files {
			for _, d := range f.Decls {
				switch v := d.(type) {
				case *ast.FuncDecl:
					fn, _ := w.info.Defs[v.Name].(*types.Func)
					if fn == nil {
						continue
					}
					name := funcNodeName(fn)
					if v.Name.Name == "init" {
						name = short(path) + ".init"
					}
					n := w.get(name)
					n.sig = sigString(fn.Type())
					if ast.IsExported(v.Name.Name) {
						exportedNodes[name] = true
					}
					if v.Recv != nil {
						methodsByName[v.Name.Name] = append(methodsByName[v.Name.Name], name)
					}
					w.params = map[types.Object]string{}
					w.stale = map[types.Object]bool{}
					w.alias = map[types.Object]string{}
					w.bindParams(v.Type, v.Recv)
					if v.Body != nil {
						w.scanStale(v.Body)
					}
					w.body(n, v.Body)
				case *ast.GenDecl:
					if v.Tok != token.VAR {
						continue
					}
					for _, sp := range v.Specs {
						vs := sp.(*ast.ValueSpec)
						for i, nm := range vs.Names {
							n := w.get("init:" + short(path) + "." + nm.Name)
							w.params = map[types.Object]string{}
							w.stale = map[types.Object]bool{}
							w.alias = map[types.Object]string{}
							for _, val := range vs.Values {
								w.scanStale(val)
							}
							if i < len(vs.Values) {
								w.body(n, vs.Values[i])
							} else if len(vs.Values) == 1 {
								w.body(n, vs.Values[0])
							}
						}
					}
				}
			}
		}
	}
	// resolve interface calls and standard-library call-backs into edges
	for _, n := range nodes {
		for m := range n.iface {
			for _, t := range methodsByName[m] {
				n.refs[t] = true
			}
		}
		for m := range n.out {
			for _, t := range methodsByName[m] {
				n.refs[t] = true
			}
		}
	}
	// the STATIC references (named functions, methods, literals, tables mentioned, interface / library call-backs) are kept
	// apart from the edges added for calls of function VALUES
	static := map[string]map[string]bool{}
	for k, n := range nodes {
		static[k] = map[string]bool{}
		for r := range n.refs {
			static[k][r] = true
		}
	}
	// a call of a function value may reach every function, method or function literal of the module with that signature
	bySig := map[string][]string{}
	for k, n := range nodes {
		if n.sig != "" {
			bySig[n.sig] = append(bySig[n.sig], k)
		}
	}
	for _, n := range nodes {
		for sg := range n.dyn {
			for _, t := range bySig[sg] {
				n.refs[t] = true
			}
		}
	}
	names := make([]string, 0, len(nodes))
	for k := range nodes {
		names = append(names, k)
	}
	sort.Strings(names)
	idx := map[string]int{}
	for i, k := range names {
		idx[k] = i
	}
	var sb, facts strings.Builder
	sb.WriteString("/- GENERATED by harness/cmd/effects from the Go source of /repo — do not edit.  Regenerated on every run. -/\n")
	sb.WriteString("namespace GoLucene.Generated.Effects\n\n")
	sb.WriteString("/-- node names (functions, methods, function literals, package-level variable initialisers) -/\ndef names : List String :=\n  " + lstr(names) + "\n\n")
	sb.WriteString("/-- conservative reference edges, as adjacency lists indexed like `names` -/\ndef edges : List (List Nat) :=\n  [")
	for i, k := range names {
		n := nodes[k]
		var es []string
		var rs []string
		for r := range n.refs {
			rs = append(rs, r)
		}
		sort.Strings(rs)
		for _, r := range rs {
			if j, ok := idx[r]; ok {
				es = append(es, strconv.Itoa(j))
			}
		}
		if i > 0 {
			sb.WriteString(",\n   ")
		}
		sb.WriteString("[" + strings.Join(es, ", ") + "]")
		fmt.Fprintf(&facts, "node %s -> %s\n", k, strings.Join(rs, " "))
	}
	sb.WriteString("]\n\n")
	sb.WriteString("/-- shared-memory writes per node: (node index, kind, owner type or variable, member, root of the written expression) -/\ndef writes : List (Nat × String × String × String × String) :=\n  [")
	first := true
	for i, k := range names {
		var ws []string
		for wv := range nodes[k].writes {
			ws = append(ws, wv)
		}
		sort.Strings(ws)
		for _, wv := range ws {
			p := strings.SplitN(wv, "|", 2)
			kind, owner, member := splitClass(p[0])
			if !first {
				sb.WriteString(",\n   ")
			}
			first = false
			fmt.Fprintf(&sb, "(%d, %s, %s, %s, %s)", i, strconv.Quote(kind), strconv.Quote(owner), strconv.Quote(member), strconv.Quote(p[1]))
			fmt.Fprintf(&facts, "write %s : %s [%s]\n", k, p[0], p[1])
		}
	}
	sb.WriteString("]\n\n/-- the static reference edges only (without the edges added for calls of function values) -/\ndef staticEdges : List (List Nat) :=\n  [")
	for i, k := range names {
		var rs []string
		for r := range static[k] {
			rs = append(rs, r)
		}
		sort.Strings(rs)
		var es []string
		for _, r := range rs {
			if j, ok := idx[r]; ok {
				es = append(es, strconv.Itoa(j))
			}
		}
		if i > 0 {
			sb.WriteString(",\n   ")
		}
		sb.WriteString("[" + strings.Join(es, ", ") + "]")
	}
	sb.WriteString("]\n\n/-- nodes whose signature is that of a render function, func(string, string) (string, error) -/\ndef renderFnTyped : List Nat :=\n  [")
	var rf []string
	for i, k := range names {
		if nodes[k].sig == "func(string, string) (string, error)" {
			rf = append(rf, strconv.Itoa(i))
			fmt.Fprintf(&facts, "renderfn-typed %s\n", k)
		}
	}
	sb.WriteString(strings.Join(rf, ", "))
	sb.WriteString("]\n\n/-- constructs whose outcome is not a function of the arguments, per node: iteration over a map, `go`, `select`, calls into time / rand / os / runtime -/\ndef nondet : List (Nat × String) :=\n  [")
	firstN := true
	for i, k := range names {
		var ns []string
		for c := range nodes[k].nondet {
			ns = append(ns, c)
		}
		sort.Strings(ns)
		for _, c := range ns {
			if !firstN {
				sb.WriteString(", ")
			}
			firstN = false
			fmt.Fprintf(&sb, "(%d, %s)", i, strconv.Quote(c))
			fmt.Fprintf(&facts, "nondet %s : %s\n", k, c)
		}
	}
	sb.WriteString("]\n\n/-- exported functions and methods (the API surface), as node indices -/\ndef exported : List Nat :=\n  [")
	var ex []string
	for i, k := range names {
		if exportedNodes[k] {
			ex = append(ex, strconv.Itoa(i))
			fmt.Fprintf(&facts, "exported %s\n", k)
		}
	}
	sb.WriteString(strings.Join(ex, ", "))
	sb.WriteString("]\n\nend GoLucene.Generated.Effects\n")
	if err := os.WriteFile(os.Args[2], []byte(sb.String()), 0o644); err != nil {
		fmt.Fprintln(os.Stderr, err)
		os.Exit(2)
	}
	if len(os.Args) > 3 {
		os.WriteFile(os.Args[3], []byte(facts.String()), 0o644)
	}
}
