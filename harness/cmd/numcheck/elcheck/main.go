//go:build elcheck

// elcheck is an optional white-box check of the Eisel-Lemire model (GoLucene.Num.eiselLemire / elPow) in
// GoLucene/Model/Num.lean.  strconv's eiselLemire64 is unexported, so this program is compiled together with a
// copy of the Go source file (see ../README.md):
//
//	sed 's/^package strconv/package main/' "$(go env GOROOT)/src/strconv/eisel_lemire.go" > elcheck/el.go
//	go run -tags elcheck ./elcheck > /tmp/el.txt
//
// Output lines (understood by NumCheckMain.lean):
//
//	elpow <TAB> hex(decimal q) <TAB> hex(32 hex digits of detailedPowersOfTen[q])
//	el    <TAB> 16 hex digits mantissa <TAB> decimal exp10 <TAB> hex("none" | 16 hex digits bits)
package main

import (
	"bufio"
	"encoding/hex"
	"fmt"
	"math"
	mbig "math/big"
	"math/rand"
	"os"
	"strconv"
)

var out *bufio.Writer

func emitEL(man uint64, e int) {
	f, ok := eiselLemire64(man, e, false)
	exp := "none"
	if ok {
		exp = fmt.Sprintf("%016x", math.Float64bits(f))
	}
	fmt.Fprintf(out, "el\t%016x\t%d\t%s\n", man, e, hex.EncodeToString([]byte(exp)))
}

func main() {
	out = bufio.NewWriterSize(os.Stdout, 1<<20)
	defer out.Flush()
	for q := detailedPowersOfTenMinExp10; q <= detailedPowersOfTenMaxExp10; q++ {
		p := detailedPowersOfTen[q-detailedPowersOfTenMinExp10]
		fmt.Fprintf(out, "elpow\t%s\t%s\n", hex.EncodeToString([]byte(strconv.Itoa(q))), hex.EncodeToString([]byte(fmt.Sprintf("%016x%016x", p[1], p[0]))))
	}
	r := rand.New(rand.NewSource(7))
	five := mbig.NewInt(5)
	ten19 := new(mbig.Int).Exp(mbig.NewInt(10), mbig.NewInt(19), nil)
	for i := 0; i < 400000; i++ {
		switch r.Intn(6) {
		case 0:
			emitEL(r.Uint64(), r.Intn(720)-360)
		case 1:
			emitEL(r.Uint64()>>uint(r.Intn(64)), r.Intn(720)-360)
		case 2:
			emitEL(uint64(r.Intn(100000)), r.Intn(720)-360)
		case 3, 4, 5:
			// 19-digit prefix of an exact halfway point (or float), and prefix+1
			u := r.Uint64() & (1<<63 - 1)
			if r.Intn(3) == 0 {
				u = uint64(r.Intn(2047))<<52 | uint64(r.Intn(4))
			}
			if r.Intn(5) == 0 {
				u = r.Uint64() >> 12 >> uint(r.Intn(52))
			}
			ex := int(u>>52) & 0x7FF
			m := u & (1<<52 - 1)
			if ex == 0 {
				ex = 1
			} else if ex == 2047 {
				continue
			} else {
				m |= 1 << 52
			}
			e := ex - 1075
			bm := new(mbig.Int).SetUint64(m)
			if r.Intn(4) != 0 {
				bm.Lsh(bm, 1)
				bm.Add(bm, mbig.NewInt(1))
				e--
			}
			x10 := 0
			if e >= 0 {
				bm.Lsh(bm, uint(e))
			} else {
				bm.Mul(bm, new(mbig.Int).Exp(five, mbig.NewInt(int64(-e)), nil))
				x10 = e
			}
			if bm.Sign() == 0 {
				continue
			}
			s := bm.String()
			// strip trailing zeros
			for len(s) > 1 && s[len(s)-1] == '0' {
				s = s[:len(s)-1]
				x10++
			}
			if len(s) > 19 {
				x10 += len(s) - 19
				s = s[:19]
			}
			v, _ := strconv.ParseUint(s, 10, 64)
			// pad to 19 digits sometimes (as readFloat would with trailing zeros present)
			if r.Intn(2) == 0 {
				for new(mbig.Int).SetUint64(v).Cmp(ten19) < 0 && v < 1000000000000000000 {
					v *= 10
					x10--
				}
			}
			emitEL(v, x10)
			emitEL(v+1, x10)
			if v > 0 {
				emitEL(v-1, x10)
			}
		}
	}
}
