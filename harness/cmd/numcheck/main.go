// numcheck generates differential-test cases for the Lean model GoLucene/Model/Num.lean.
//
// Usage:
//
//	numcheck gen <seed> <count>
//
// writes one test case per line to stdout:
//
//	op <TAB> hex(input) [<TAB> extra] <TAB> hex(expected)
//
// where `expected` is what the real Go implementation (strconv, fmt, encoding/json, the compiler's
// float<->int conversions) computes.  The first line is the table of printable runes according to
// strconv.IsPrint:
//
//	isprint <TAB> lo-hi,lo-hi,...          (hex, inclusive ranges)
//
// Encodings
//
//	atoi        input = the string                      expected = "err" | decimal text
//	parsefloat  input = the string                      expected = "err" | "nan" | 16 hex digits (bits)
//	fmtint      input = 16 hex digits (int64 bits)      expected = text
//	fmtg        input = 16 hex digits (float64 bits)    expected = fmt.Sprintf("%v", f)
//	fmtfixedN   input = 16 hex digits (float64 bits)    expected = fmt.Sprintf("%.Nf", f)   N in 0,1,2,7
//	fmtjson     input = 16 hex digits (float64 bits)    expected = "err" | json.Marshal(f)
//	ofint       input = 16 hex digits (int64 bits)      expected = 16 hex digits of float64(i)
//	toint       input = 16 hex digits (float64 bits)    expected = decimal text of int64(f)  (amd64)
//	quote       input = the string                      expected = strconv.Quote(s)
//	lt, eq      input = bits of a, extra = bits of b    expected = "true" | "false"
//	isnan, isinf, isneg  input = bits                   expected = "true" | "false"
//
// (for the numeric ops the "hex(input)" field is directly the 16 hex digits.)
//
// Every run starts with a fixed list of hand-picked cases (syntax corner cases, underscores, special words,
// int64 boundaries, halfway points, exponent clamping, ...) followed by seeded random structured cases until
// <count> cases have been written.  The generator cross-checks a few claims itself and panics if they fail
// (%v == %#v == FormatFloat 'g' -1; Quote == %#v; Atoi == ParseInt(s,10,0)).
package main

import (
	"bufio"
	"encoding/hex"
	"encoding/json"
	"fmt"
	"math"
	"math/big"
	"math/rand"
	"os"
	"runtime"
	"strconv"
	"strings"
)

var out *bufio.Writer
var emitted int
var perOp = map[string]int{}

func emit(op, input, extra, expected string) {
	perOp[op]++
	emitted++
	if extra == "" {
		fmt.Fprintf(out, "%s\t%s\t%s\n", op, input, hex.EncodeToString([]byte(expected)))
	} else {
		fmt.Fprintf(out, "%s\t%s\t%s\t%s\n", op, input, extra, hex.EncodeToString([]byte(expected)))
	}
}

func hexs(s string) string      { return hex.EncodeToString([]byte(s)) }
func bits16(u uint64) string    { return fmt.Sprintf("%016x", u) }
func fbits(f float64) string    { return bits16(math.Float64bits(f)) }
func boolText(b bool) string    { return strconv.FormatBool(b) }
func fromBits(u uint64) float64 { return math.Float64frombits(u) }

// ---------------------------------------------------------------------------------------------
// the operations

func caseAtoi(s string) {
	n, err := strconv.Atoi(s)
	exp := "err"
	if err == nil {
		exp = strconv.Itoa(n)
	}
	// cross-check the claim "Atoi == ParseInt(s, 10, 0)"
	n2, err2 := strconv.ParseInt(s, 10, 0)
	if (err == nil) != (err2 == nil) || (err == nil && int64(n) != n2) {
		panic("Atoi/ParseInt disagree on " + strconv.Quote(s))
	}
	emit("atoi", hexs(s), "", exp)
}

func caseParseFloat(s string) {
	f, err := strconv.ParseFloat(s, 64)
	exp := ""
	switch {
	case err != nil:
		exp = "err"
	case f != f:
		exp = "nan"
	default:
		exp = fbits(f)
	}
	emit("parsefloat", hexs(s), "", exp)
}

func caseFmtInt(i int64) {
	s := fmt.Sprintf("%d", i)
	if s != fmt.Sprintf("%v", i) || s != strconv.Itoa(int(i)) || s != fmt.Sprintf("%v", int(i)) {
		panic("fmtint variants disagree")
	}
	emit("fmtint", bits16(uint64(i)), "", s)
}

func caseFmtG(f float64) {
	s := fmt.Sprintf("%v", f)
	if s2 := fmt.Sprintf("%#v", f); s != s2 {
		panic("%v and %#v disagree: " + s + " " + s2)
	}
	if f == f && !math.IsInf(f, 0) {
		if s2 := strconv.FormatFloat(f, 'g', -1, 64); s != s2 {
			panic("%v and FormatFloat disagree: " + s + " " + s2)
		}
	}
	emit("fmtg", fbits(f), "", s)
}

func caseFmtFixed(f float64, prec int) {
	emit(fmt.Sprintf("fmtfixed%d", prec), fbits(f), "", fmt.Sprintf("%.*f", prec, f))
}

func caseFmtJSON(f float64) {
	bs, err := json.Marshal(f)
	exp := "err"
	if err == nil {
		exp = string(bs)
	}
	emit("fmtjson", fbits(f), "", exp)
}

//go:noinline
func toF(i int64) float64 { return float64(i) }

//go:noinline
func toI(f float64) int64 { return int64(f) }

func caseOfInt(i int64) { emit("ofint", bits16(uint64(i)), "", fbits(toF(i))) }
func caseToInt(f float64) {
	emit("toint", fbits(f), "", strconv.FormatInt(toI(f), 10))
}

func caseQuote(s string) {
	q := strconv.Quote(s)
	if q2 := fmt.Sprintf("%#v", s); q != q2 {
		panic("Quote and %#v disagree")
	}
	emit("quote", hexs(s), "", q)
}

//go:noinline
func fLt(a, b float64) bool { return a < b }

//go:noinline
func fEq(a, b float64) bool { return a == b }

func caseLt(a, b float64) { emit("lt", fbits(a), fbits(b), boolText(fLt(a, b))) }
func caseEq(a, b float64) { emit("eq", fbits(a), fbits(b), boolText(fEq(a, b))) }
func casePreds(f float64) {
	emit("isnan", fbits(f), "", boolText(math.IsNaN(f)))
	emit("isinf", fbits(f), "", boolText(math.IsInf(f, 0)))
	emit("isneg", fbits(f), "", boolText(math.Signbit(f)))
}

// ---------------------------------------------------------------------------------------------
// float pools

var specialBits = []uint64{
	0, 0x8000000000000000, 1, 2, 3, 0x8000000000000001,
	0x000FFFFFFFFFFFFF, 0x0010000000000000, 0x0010000000000001, 0x001FFFFFFFFFFFFF, 0x0020000000000000,
	0x7FEFFFFFFFFFFFFF, 0x7FEFFFFFFFFFFFFE, 0x7FE0000000000000, 0xFFEFFFFFFFFFFFFF,
	0x7FF0000000000000, 0xFFF0000000000000, 0x7FF8000000000001, 0x7FF0000000000001, 0xFFF8000000000000, 0x7FFFFFFFFFFFFFFF, 0xFFFFFFFFFFFFFFFF,
	0x3FF0000000000000, 0x3FEFFFFFFFFFFFFF, 0x3FF0000000000001, 0xBFF0000000000000,
	0x4340000000000000, 0x433FFFFFFFFFFFFF, 0x4340000000000001, 0x4330000000000000, 0x4330000000000001, // 2^53, 2^52 neighbourhood
	0x43E0000000000000, 0xC3E0000000000000, 0x43DFFFFFFFFFFFFF, 0xC3E0000000000001, 0x43E0000000000001, 0xC3DFFFFFFFFFFFFF, // ±2^63
	0x43F0000000000000, // 2^64
	0x44B52D02C7E14AF6, // 1e23
	0x44B52D02C7E14AF5, 0x44B52D02C7E14AF7,
}

var niceDecimals = []string{
	"0.1", "0.2", "0.3", "0.5", "1.5", "2.5", "0.25", "0.125", "0.375", "1.005", "2.675", "1.45", "0.285", "1.15", "8.345",
	"0.0001", "0.00001", "0.00009999999999999999", "0.0001000000000000001", "0.000099999999999999991",
	"100000", "1000000", "999999", "999999.9999999999", "99999.99999999999", "1234567", "123456.7", "100000.00000000001",
	"1e20", "1e21", "1e22", "1e23", "999999999999999900000", "999999999999999868928", "1000000000000000131072", "1e-6", "1e-7", "0.000001", "0.0000009999999999999999", "9.999999999999999e-7", "1.0000000000000002e-6",
	"9007199254740993", "9007199254740992", "9007199254740991", "5e-324", "2.2250738585072014e-308", "2.225073858507201e-308", "1.7976931348623157e308",
	"1125899906842624.25", "1125899906842624.75", "2251799813685248.5", "562949953421312.125", "123456789012345678",
	"0.995", "9.995", "99.995", "0.005", "0.015", "0.025", "0.05", "0.15", "0.35", "0.45", "0.0049999999999999", "0.05000000000000001", "0.95", "0.994999999999999", "9.95", "0.04999999999999999",
	"4.35", "4.45", "1e15", "1e16", "1e17", "123456789.125", "1e300", "1e-300", "3.141592653589793", "2.718281828459045", "6.02214076e23", "1e100", "1e-100", "123e-20",
	"4.9e-324", "1e-323", "2e-323", "0.3e-5", "12345678.9", "0.1e-4", "1.7e308", "8.98846567431158e307", "4.450147717014403e-308",
}

func randFloat(r *rand.Rand) float64 {
	switch r.Intn(16) {
	case 0:
		return fromBits(specialBits[r.Intn(len(specialBits))])
	case 1: // nice decimals, maybe negated, maybe ± a few ulps
		f, _ := strconv.ParseFloat(niceDecimals[r.Intn(len(niceDecimals))], 64)
		u := math.Float64bits(f) + uint64(r.Intn(5)) - 2
		if r.Intn(3) == 0 {
			u ^= 1 << 63
		}
		return fromBits(u)
	case 2: // power of two and neighbours
		e := r.Intn(2046) + 1
		u := uint64(e)<<52 + uint64(r.Intn(5)) - 2
		if r.Intn(4) == 0 {
			u ^= 1 << 63
		}
		return fromBits(u)
	case 3: // denormals
		var u uint64
		switch r.Intn(3) {
		case 0:
			u = uint64(r.Intn(1000)) + 1
		case 1:
			u = r.Uint64() >> 12
		default:
			u = uint64(1) << uint(r.Intn(52))
			u += uint64(r.Intn(3)) - 1
		}
		if r.Intn(4) == 0 {
			u ^= 1 << 63
		}
		return fromBits(u)
	case 4: // power of ten and neighbours
		f, _ := strconv.ParseFloat("1e"+strconv.Itoa(r.Intn(632)-323), 64)
		u := math.Float64bits(f) + uint64(r.Intn(7)) - 3
		return fromBits(u)
	case 5: // small integers and simple fractions
		den := float64(uint64(1) << uint(r.Intn(6)))
		f := float64(r.Int63n(2000000)-1000000) / den
		return f
	case 6: // integers near 2^53 .. 2^64
		f := float64(uint64(1)<<uint(50+r.Intn(14))) + float64(r.Intn(64)-32)
		if r.Intn(2) == 0 {
			f = -f
		}
		return f
	case 7: // 2^k + quarter style ties for shortest formatting
		k := uint(40 + r.Intn(12))
		f := float64(uint64(1)<<k+uint64(r.Int63n(1<<k))) + float64(r.Intn(8))/float64(uint64(1)<<(52-k))
		return f
	case 8: // decimal with few digits
		s := strconv.Itoa(r.Intn(100000)) + "e" + strconv.Itoa(r.Intn(60)-30)
		f, _ := strconv.ParseFloat(s, 64)
		if r.Intn(4) == 0 {
			f = -f
		}
		return f
	case 9: // human-scale numbers
		f := float64(r.Int63n(100000000)) / 1000
		if r.Intn(4) == 0 {
			f = -f
		}
		return f
	case 10: // moderate exponents, random mantissa
		e := uint64(1023 - 80 + r.Intn(160))
		return fromBits(e<<52 | r.Uint64()>>12 | uint64(r.Intn(2))<<63)
	case 11: // mantissa with few bits set
		e := uint64(r.Intn(2047))
		m := (uint64(1) << uint(r.Intn(52))) | (uint64(1) << uint(r.Intn(52)))
		if r.Intn(2) == 0 {
			m = ^m & (1<<52 - 1)
		}
		return fromBits(e<<52 | m | uint64(r.Intn(2))<<63)
	default:
		return fromBits(r.Uint64())
	}
}

func randFinitePos(r *rand.Rand) float64 {
	for {
		f := math.Abs(randFloat(r))
		if f == f && !math.IsInf(f, 0) && f != 0 {
			return f
		}
	}
}

// ---------------------------------------------------------------------------------------------
// exact decimal expansions

var five = big.NewInt(5)

// decompose returns m, e with f = m * 2^e exactly (f finite, positive).
func decompose(f float64) (*big.Int, int) {
	u := math.Float64bits(f)
	ex := int(u>>52) & 0x7FF
	m := u & (1<<52 - 1)
	if ex == 0 {
		ex = 1
	} else {
		m |= 1 << 52
	}
	return new(big.Int).SetUint64(m), ex - 1075
}

// exactDecimal returns digits, exp10 with m*2^e = digits * 10^exp10.
func exactDecimal(m *big.Int, e int) (string, int) {
	if e >= 0 {
		return new(big.Int).Lsh(m, uint(e)).String(), 0
	}
	p := new(big.Int).Exp(five, big.NewInt(int64(-e)), nil)
	return p.Mul(p, m).String(), e
}

func decStr(ds string) string { // ds - 1 as decimal digit string of the same or smaller length
	n, _ := new(big.Int).SetString(ds, 10)
	n.Sub(n, big.NewInt(1))
	return n.String()
}

// perturb returns a digit string/exponent denoting a value equal to, a hair above, or a hair below digits*10^exp10.
func perturb(r *rand.Rand, digits string, exp10 int) (string, int) {
	switch r.Intn(8) {
	case 0, 1: // exact
		return digits, exp10
	case 2: // a hair above: append 0…01
		n := r.Intn(30)
		if r.Intn(6) == 0 {
			n = 700 + r.Intn(300)
		}
		return digits + strings.Repeat("0", n) + "1", exp10 - n - 1
	case 3: // a hair below: (digits-1) 9…9
		n := 1 + r.Intn(30)
		if r.Intn(6) == 0 {
			n = 700 + r.Intn(300)
		}
		d := decStr(digits)
		if len(d) < len(digits) || d == "0" {
			return digits, exp10
		}
		return d + strings.Repeat("9", n), exp10 - n
	case 4: // truncate to k digits (below)
		k := 1 + r.Intn(len(digits))
		return digits[:k], exp10 + len(digits) - k
	case 5: // truncate to 17..21 digits
		k := 17 + r.Intn(5)
		if k > len(digits) {
			k = len(digits)
		}
		return digits[:k], exp10 + len(digits) - k
	case 6: // exact with trailing zeros
		n := r.Intn(40)
		return digits + strings.Repeat("0", n), exp10 - n
	default: // change one digit somewhere
		bs := []byte(digits)
		i := r.Intn(len(bs))
		bs[i] = byte('0' + r.Intn(10))
		if bs[0] == '0' {
			bs[0] = '1'
		}
		return string(bs), exp10
	}
}

// render writes digits*10^exp10 in one of several textual styles.
func render(r *rand.Rand, digits string, exp10 int) string {
	nd := len(digits)
	switch r.Intn(9) {
	case 0: // integer digits and exponent
		if exp10 == 0 && r.Intn(2) == 0 {
			return digits
		}
		return digits + "e" + strconv.Itoa(exp10)
	case 1: // scientific
		if nd == 1 {
			return digits + "e" + strconv.Itoa(exp10)
		}
		return digits[:1] + "." + digits[1:] + "E" + fmt.Sprintf("%+d", exp10+nd-1)
	case 2: // positional, if not absurdly long
		if exp10 >= 0 && exp10 < 400 {
			return digits + strings.Repeat("0", exp10) + []string{"", ".", ".0", ".000"}[r.Intn(4)]
		}
		if exp10 < 0 && -exp10 < 1200 {
			k := -exp10
			if k < nd {
				return digits[:nd-k] + "." + digits[nd-k:]
			}
			return []string{"0.", ".", "00."}[r.Intn(3)] + strings.Repeat("0", k-nd) + digits
		}
		return digits + "e" + strconv.Itoa(exp10)
	case 3: // dot at a random place, exponent compensates
		k := r.Intn(nd + 1)
		return digits[:k] + "." + digits[k:] + "e" + strconv.Itoa(exp10+nd-k)
	case 4: // leading zeros
		return strings.Repeat("0", 1+r.Intn(5)) + digits + "e" + strconv.Itoa(exp10)
	case 5: // fraction with many leading zeros, exponent compensates
		n := r.Intn(50)
		if r.Intn(4) == 0 {
			n = 700 + r.Intn(400)
		}
		return "0." + strings.Repeat("0", n) + digits + "e" + strconv.Itoa(exp10+nd+n)
	case 6: // integer padded with zeros beyond 800 digits, exponent compensates (Go's slow path misreads these)
		n := 0
		switch r.Intn(3) {
		case 0:
			n = 801 - nd + r.Intn(200)
		case 1:
			n = 797 - nd + r.Intn(8)
		default:
			n = r.Intn(1200)
		}
		if n < 0 {
			n = 0
		}
		s := digits + strings.Repeat("0", n)
		if r.Intn(3) == 0 {
			s += "." + strings.Repeat("0", r.Intn(3))
		}
		return s + "e" + strconv.Itoa(exp10-n)
	case 7: // as 6 but with a non-zero tail after the padding
		n := 790 + r.Intn(30) - nd
		if n < 0 {
			n = 0
		}
		tail := strconv.Itoa(1 + r.Intn(999))
		if r.Intn(2) == 0 {
			return digits + strings.Repeat("0", n) + "." + tail + "e" + strconv.Itoa(exp10-n)
		}
		return digits + strings.Repeat("0", n) + tail + "e" + strconv.Itoa(exp10-n-len(tail))
	default:
		return digits + "e" + strconv.Itoa(exp10)
	}
}

func withSign(r *rand.Rand, s string) string {
	switch r.Intn(6) {
	case 0:
		return "-" + s
	case 1:
		return "+" + s
	}
	return s
}

// ---------------------------------------------------------------------------------------------
// parsefloat inputs

func randDigits(r *rand.Rand, n int) string {
	bs := make([]byte, n)
	for i := range bs {
		bs[i] = byte('0' + r.Intn(10))
	}
	switch r.Intn(8) {
	case 0: // leading zeros
		for i := 0; i < n/2; i++ {
			bs[i] = '0'
		}
	case 1: // trailing zeros
		for i := n / 2; i < n; i++ {
			bs[i] = '0'
		}
	case 2: // nines
		for i := 1; i < n; i++ {
			bs[i] = '9'
		}
	}
	return string(bs)
}

func randExponent(r *rand.Rand) string {
	ec := []string{"e", "E"}[r.Intn(2)]
	sg := []string{"", "+", "-"}[r.Intn(3)]
	switch r.Intn(10) {
	case 0:
		return ec + sg + strconv.Itoa(r.Intn(10))
	case 1, 2, 3:
		return ec + sg + strconv.Itoa(r.Intn(40))
	case 4, 5, 6:
		return ec + sg + strconv.Itoa(r.Intn(400))
	case 7:
		return ec + sg + strconv.Itoa(300+r.Intn(50))
	case 8:
		return ec + sg + "00" + strconv.Itoa(r.Intn(400))
	default:
		return ec + sg + []string{"999999999", "9999", "10000", "99999", "100000", "12345678901234567890123", "18446744073709551616", "9223372036854775808", "4294967296"}[r.Intn(9)]
	}
}

func genRandomDecimal(r *rand.Rand) string {
	nd := 1 + r.Intn(40)
	ds := randDigits(r, nd)
	switch r.Intn(4) {
	case 0:
	case 1:
		k := r.Intn(nd + 1)
		ds = ds[:k] + "." + ds[k:]
	case 2:
		ds = ds[:1] + "." + ds[1:]
	default:
		ds = "0." + ds
	}
	if r.Intn(3) != 0 {
		ds += randExponent(r)
	}
	return withSign(r, ds)
}

// decimal near a float / near the halfway point between two adjacent floats
func genNearFloat(r *rand.Rand) string {
	f := randFinitePos(r)
	m, e := decompose(f)
	if r.Intn(4) != 0 { // halfway point above f: (2m+1) * 2^(e-1)
		m.Lsh(m, 1)
		m.Add(m, big.NewInt(1))
		e--
	}
	ds, x := exactDecimal(m, e)
	ds, x = perturb(r, ds, x)
	return withSign(r, render(r, ds, x))
}

func genFormatted(r *rand.Rand) string {
	f := randFloat(r)
	switch r.Intn(6) {
	case 0:
		return strconv.FormatFloat(f, 'g', -1, 64)
	case 1:
		return strconv.FormatFloat(f, 'e', 16+r.Intn(4), 64)
	case 2:
		return strconv.FormatFloat(f, 'e', r.Intn(25), 64)
	case 3:
		if math.Abs(f) < 1e40 {
			return strconv.FormatFloat(f, 'f', -1, 64)
		}
		return strconv.FormatFloat(f, 'g', 17, 64)
	case 4:
		return strconv.FormatFloat(f, 'x', -1, 64)
	default:
		return strconv.FormatFloat(f, 'X', r.Intn(16), 64)
	}
}

func randHexDigits(r *rand.Rand, n int) string {
	const hd = "0123456789abcdefABCDEF"
	bs := make([]byte, n)
	for i := range bs {
		bs[i] = hd[r.Intn(len(hd))]
	}
	switch r.Intn(6) {
	case 0:
		for i := 1; i < n; i++ {
			bs[i] = '0'
		}
	case 1:
		for i := 1; i < n; i++ {
			bs[i] = 'f'
		}
	case 2:
		for i := 0; i < n/2; i++ {
			bs[i] = '0'
		}
	}
	return string(bs)
}

func genHex(r *rand.Rand) string {
	var mant string
	switch r.Intn(6) {
	case 0: // rounding-critical: 1.<13 hex digits><8|7|9 etc><tail>
		mant = "1." + randHexDigits(r, 13) + []string{"8", "7", "9", "80", "800000000000", "7fffffffffffffff", "8000000000000000000001", "80000000000000000000", "4", "c"}[r.Intn(10)]
	case 1:
		n := 1 + r.Intn(20)
		mant = randHexDigits(r, n)
		k := r.Intn(n + 1)
		mant = mant[:k] + "." + mant[k:]
	case 2:
		mant = randHexDigits(r, 1+r.Intn(40))
	case 3:
		mant = "." + randHexDigits(r, 1+r.Intn(20))
	case 4:
		mant = randHexDigits(r, 1+r.Intn(8)) + "."
	default:
		mant = "1"
		if r.Intn(2) == 0 {
			mant = "1." + randHexDigits(r, r.Intn(15))
		}
	}
	pc := []string{"p", "P"}[r.Intn(2)]
	sg := []string{"", "+", "-"}[r.Intn(3)]
	var ex string
	switch r.Intn(8) {
	case 0:
		ex = strconv.Itoa(r.Intn(10))
	case 1, 2:
		ex = strconv.Itoa(r.Intn(100))
	case 3, 4:
		ex = strconv.Itoa(r.Intn(1200))
	case 5:
		ex = strconv.Itoa(1000 + r.Intn(100))
	case 6:
		ex = []string{"1022", "1023", "1024", "1025", "1074", "1075", "1076", "1077", "1073", "1126", "1127"}[r.Intn(11)]
	default:
		ex = []string{"99999", "100000", "9999", "10000", "999999999", "123456789012345678901"}[r.Intn(6)]
	}
	s := []string{"0x", "0X"}[r.Intn(2)] + mant
	if r.Intn(25) != 0 {
		s += pc + sg + ex
	}
	return withSign(r, s)
}

func insertUnderscores(r *rand.Rand, s string) string {
	n := 1 + r.Intn(3)
	for i := 0; i < n; i++ {
		k := r.Intn(len(s) + 1)
		s = s[:k] + "_" + s[k:]
	}
	return s
}

// underscores placed only between digits (always valid, unless adjacent)
func insertValidUnderscores(r *rand.Rand, s string) string {
	isd := func(c byte) bool { return '0' <= c && c <= '9' }
	var sb strings.Builder
	for i := 0; i < len(s); i++ {
		sb.WriteByte(s[i])
		if i+1 < len(s) && isd(s[i]) && isd(s[i+1]) && r.Intn(3) == 0 {
			sb.WriteByte('_')
		}
	}
	return sb.String()
}

func randCase(r *rand.Rand, s string) string {
	bs := []byte(s)
	for i, c := range bs {
		if 'a' <= c && c <= 'z' && r.Intn(2) == 0 {
			bs[i] = c - 32
		}
	}
	return string(bs)
}

func genSpecialWord(r *rand.Rand) string {
	w := []string{"inf", "infinity", "nan", "infinit", "in", "i", "infi", "infinityy", "nana", "na", "n", "inf0", "nan0", "infinity ", "inff", "NaN", "Inf", "Infinity", "+Inf", "-Inf"}[r.Intn(20)]
	w = randCase(r, w)
	switch r.Intn(8) {
	case 0:
		w = "+" + w
	case 1:
		w = "-" + w
	case 2:
		w = "+-" + w
	case 3:
		w = " " + w
	case 4:
		w = w + "e1"
	}
	return w
}

const junkAlphabet = "0123456789+-.eEpPxX_ infatyINFATYabcdf\t"

func genJunk(r *rand.Rand) string {
	n := r.Intn(12)
	bs := make([]byte, n)
	for i := range bs {
		if r.Intn(20) == 0 {
			bs[i] = byte(r.Intn(256))
		} else {
			bs[i] = junkAlphabet[r.Intn(len(junkAlphabet))]
		}
	}
	return string(bs)
}

func mutate(r *rand.Rand, s string) string {
	if len(s) == 0 {
		return s
	}
	k := r.Intn(len(s))
	c := string(junkAlphabet[r.Intn(len(junkAlphabet))])
	switch r.Intn(4) {
	case 0:
		return s[:k] + s[k+1:]
	case 1:
		return s[:k] + c + s[k:]
	case 2:
		return s[:k] + c + s[k+1:]
	default:
		return s[:k] + s[k:] + c
	}
}

// More than 800 significant integer digits whose first 800 digits are exactly a float or a halfway point
// (padded with zeros), followed by a tail, with so many further digits that Eisel-Lemire gives up on the
// true (astronomically large) value: Go's slow path then misreads the number as h*(1+tiny) resp. exactly h,
// which makes the sticky `trunc` flag of `decimal` decisive.
func genStickyMisread(r *rand.Rand) string {
	f := randFinitePos(r)
	m, e := decompose(f)
	if r.Intn(5) != 0 {
		m.Lsh(m, 1)
		m.Add(m, big.NewInt(1))
		e--
	}
	full, x := exactDecimal(m, e)
	ds := strings.TrimRight(full, "0")
	x += len(full) - len(ds) // h = ds * 10^x
	if len(ds) > 800 {
		return full + "e" + strconv.Itoa(x)
	}
	pad := 800 - len(ds)
	k := 700 + r.Intn(100)
	if r.Intn(4) == 0 {
		k = 1 + r.Intn(700)
	}
	var tail string
	switch r.Intn(4) {
	case 0:
		tail = strings.Repeat("0", k)
	case 1:
		tail = strings.Repeat("0", k-1) + "1"
	case 2:
		tail = "1" + strings.Repeat("0", k-1)
	default:
		tail = randDigits(r, k)
	}
	// Go's slow path reads  0.<first 800 digits> * 10^(800+E), so E = x - pad makes the misread value equal to h.
	E := strconv.Itoa(x - pad)
	if r.Intn(4) == 0 { // variant: part of the tail sits behind a '.'
		j := 1 + r.Intn(k)
		return withSign(r, ds+strings.Repeat("0", pad)+tail[:j]+"."+tail[j:]+"e"+E)
	}
	return withSign(r, ds+strings.Repeat("0", pad)+tail+"e"+E)
}

// huge mantissas: 800+ digits, random or structured
func genLongMantissa(r *rand.Rand) string {
	n := 700 + r.Intn(500)
	ds := randDigits(r, n)
	if ds[0] == '0' {
		ds = "1" + ds[1:]
	}
	switch r.Intn(5) {
	case 0:
		return ds + "e-" + strconv.Itoa(n-300+r.Intn(700))
	case 1:
		k := r.Intn(n)
		return ds[:k] + "." + ds[k:] + "e" + strconv.Itoa(r.Intn(700)-350-k)
	case 2:
		return "0." + ds + "e" + strconv.Itoa(r.Intn(700)-350)
	case 3: // only 17..25 significant digits then zeros: exercises Eisel-Lemire success with >800 integer digits
		k := 1 + r.Intn(25)
		ds = ds[:k] + strings.Repeat("0", n-k)
		return ds + "e-" + strconv.Itoa(n-300+r.Intn(640))
	default:
		return ds
	}
}

var fixedParseFloat = []string{
	"", "+", "-", ".", "+.", "-.", "e", "e5", ".e5", "1e", "1e+", "1e-", "1E", "1e+-1", "1ee1", "1e1e1", "1.e1", ".5", "5.", "5.e0", "+5.", "-.5", "0", "-0", "+0", "00", "0.0", "-0.0", "0e0", "0e999999999", "-0e-999999999", "0.0000e+99999",
	"0x", "0X", "0x1p", "0x1p+", "0x1p-", "0x.8p1", "0x8.p-3", "0x.p1", "0xp1", "0x1", "0x1.8", "0x1p0", "0X1P0", "0x1P-1074", "0x1p-1075", "0x1.8p-1075", "0x0.8p-1074", "0x1.0000000000001p-1075", "0x1p-1076", "0x1p1023", "0x1.fffffffffffffp1023", "0x1.fffffffffffff8p1023", "0x1.fffffffffffff7ffffffp1023", "0x1p1024", "0x0p99999", "0x0.0p-99999", "-0x0p0", "0x1e5", "0x1e5p0", "0x1.8p3", "0x_1p0", "0x1_0p0", "0x1__0p0", "0x1_p0", "0x1p_0", "0x1p0_", "0x1p0_0", "0x1p1_0", "0x_p0", "0_x1p0", "0x1._8p0", "0x1_.8p0", "0x1.8_p0", "0x.8_8p0",
	"1__0", "_1", "1_", "1_0", "1_000", "1_000.000_1", "1_000_", "1_.5", "1._5", "1.5_", "1.5_5", "1_e5", "1e_5", "1e5_", "1e1_0", "1e+1_0", "1e+_10", "0_1", "0_0", "_0", "+_1", "+1_0", "-1_0.5e1_0", "1_0e1_0_0", "1_2_3", "1e1__0", "__", "_", "1_e", "0b1", "0b_1", "0o7", "0o_7", "0b1_0", "0_b1", "0b1e5", "0B_1", "0O_1",
	"inf", "Inf", "INF", "iNf", "infinity", "Infinity", "INFINITY", "InFiNiTy", "+inf", "-inf", "+Infinity", "-INFINITY", "infinit", "infi", "infinityx", "infx", "in", "i", "nan", "NaN", "NAN", "nAn", "+nan", "-nan", "nanx", "na", "n", "+-inf", "++inf", " inf", "inf ", "+", "+i", "-n", "nan_", "i_nf", "1inf", "0nan",
	" 1", "1 ", "1\n", "\t1", "1,0", "1.0.0", "1..0", "..1", "1.2.3e4", "1e1.5", "1e1e", "- 1", "+-1", "--1", "1-", "1+", "1e++1", "0x1p++1", "0x1.p+1", "1p5", "1P5", "0e", "0x0", "0x0p", "1x", "0y1", "０", "١", "1\x00", "\x001", "1e\x00",
	"1e308", "1e309", "1.7976931348623157e308", "1.7976931348623158e308", "1.7976931348623159e308", "1.797693134862315807e308", "1.797693134862315708145274237317043567981e308", "179769313486231580793728971405303415079934132710037826936173778980444968292764750946649017977587207096330286416692887910946555547851940402630657488671505820681908902000708383676273854845817711531764475730270069855571366959622842914819860834936475292719074168444365510704342711559699508093042880177904174497791", "179769313486231580793728971405303415079934132710037826936173778980444968292764750946649017977587207096330286416692887910946555547851940402630657488671505820681908902000708383676273854845817711531764475730270069855571366959622842914819860834936475292719074168444365510704342711559699508093042880177904174497792", "179769313486231580793728971405303415079934132710037826936173778980444968292764750946649017977587207096330286416692887910946555547851940402630657488671505820681908902000708383676273854845817711531764475730270069855571366959622842914819860834936475292719074168444365510704342711559699508093042880177904174497791.9999999999999999999999999",
	"-1e309", "1e310", "1e311", "1e400", "1e999999999", "-1e999999999", "1e-999999999", "-1e-999999999", "1e99999", "1e100000", "1e-99999", "1e-100000", "1e9999", "1e10000", "1e-9999", "1e-10000", "1e12345678901234567890", "1e-12345678901234567890", "0.1e311", "0.1e310", "0.01e311", "10e308", "10e307", "100e-326", "1e-323", "1e-324", "2e-324", "2.4703282292062327e-324", "2.4703282292062328e-324", "2.47032822920623272e-324", "2.470328229206232720882843964341106861825299013071623822127928412503377536351043e-324", "2.4703282292062327208828439643411068618252990130716238221279284125033775363510437593264991818081799618989828234772285886546332835517796989819938739800539093906315035659515570226392290858392449105184435931802849936536152500319370457678249219365623669863658480757001585769269903706311928279558551332927834338409351978015531246597263579574622766465272827220056374006485499977096599470454020828166226237857393450736339007967761930577506740176324673600968951340535537458516661134223766678604162159680461914467291840300530057530849048765391711386591646239524912623653881879636239373280423891018672348497668235089863388587925628302755995657524455507255189313690836254779186948667994968324049705821028513185451396213837722826145437693412532098591327667236328125e-324", "2.4703282292062327208828439643411068618252990130716238221279284125033775363510437593264991818081799618989828234772285886546332835517796989819938739800539093906315035659515570226392290858392449105184435931802849936536152500319370457678249219365623669863658480757001585769269903706311928279558551332927834338409351978015531246597263579574622766465272827220056374006485499977096599470454020828166226237857393450736339007967761930577506740176324673600968951340535537458516661134223766678604162159680461914467291840300530057530849048765391711386591646239524912623653881879636239373280423891018672348497668235089863388587925628302755995657524455507255189313690836254779186948667994968324049705821028513185451396213837722826145437693412532098591327667236328126e-324",
	"5e-324", "4.9e-324", "3e-324", "2.5e-324", "2e-324", "7.4e-324", "7.5e-324", "2.2250738585072011e-308", "2.2250738585072012e-308", "2.2250738585072014e-308", "2.225073858507201e-308", "4.9406564584124654e-324",
	"9007199254740993", "9007199254740992", "9007199254740991", "9007199254740993.0", "9007199254740993.00000000000000000000000000000001", "9007199254740992.99999999999999999999999999999", "9007199254740995", "1e23", "8.41e21", "9.5e21", "100000000000000016777215", "100000000000000016777216", "100000000000000016777217",
	"9223372036854775807", "9223372036854775808", "18446744073709551615", "18446744073709551616", "-9223372036854775808", "9223372036854775807.5",
	"1.00000000000000011102230246251565404236316680908203125", "1.00000000000000011102230246251565404236316680908203124", "1.00000000000000011102230246251565404236316680908203126", "1.00000000000000033306690738754696212708950042724609375",
	"0.000000000000000000000000000000000000000000000000000000000000000000000000000000000000000000000000000000000000000000000000000000000000000000000000000000000000000000000000000000000000000000000000000000000000000000000000000000000000000000000000000000000000000000000000000000000000000000000000000000000000000000000000000000000000001",
	"1e-5", "1E5", "1e+5", "1e05", "1e005", "12345678901234567890", "123456789012345678901234567890", "0.000000000000000000000000000001", "4.9406564584124654417656879286822137236505980e-324",
	"6.8e-8_", "1_0.0_1e0_1", "1234567_8", "0x1234567_8p0", "0x12345678901234567p0", "0x12345678901234560p0", "0x12345678901234568p0", "0x123456789abcdef0001p-4", "0x0000000000000000000000001p0", "0x.0000000000000000000000001p100",
}

var fixedAtoi = []string{
	"", "+", "-", "0", "-0", "+0", "00", "007", "-007", "+007", "1", "-1", "+1", "++1", "--1", "+-1", "-+1", "1+", "1-", " 1", "1 ", "1_0", "_1", "1_", "0x10", "0b1", "0o7", "1e3", "1.0", "1.", ".1", "a", "1a", "a1", "١٢", "１２",
	"9223372036854775807", "9223372036854775808", "9223372036854775806", "-9223372036854775808", "-9223372036854775809", "-9223372036854775807", "+9223372036854775807", "+9223372036854775808",
	"18446744073709551615", "18446744073709551616", "-18446744073709551616", "99999999999999999999", "-99999999999999999999", "000000000000000000000000000009223372036854775807", "-000000000000000000000000000009223372036854775808", "000000000000000000000000000009223372036854775808",
	"999999999999999999", "1000000000000000000", "9999999999999999999", "-999999999999999999", "2147483647", "2147483648", "-2147483648", "4294967296", "123456789012345678", "1234567890123456789", "12345678901234567890",
	"1\x00", "\x00", "-", "- 1", "+ 1", "1\n", "\n1", "0_0", "-_1", "٣",
}

func genParseFloatInput(r *rand.Rand) string {
	switch r.Intn(20) {
	case 0, 1, 2:
		return genRandomDecimal(r)
	case 3, 4, 5, 6:
		return genNearFloat(r)
	case 7, 8:
		return genFormatted(r)
	case 9, 10:
		return genHex(r)
	case 11:
		var base string
		switch r.Intn(4) {
		case 0:
			base = genHex(r)
		case 1:
			base = genFormatted(r)
		default:
			base = genRandomDecimal(r)
		}
		if r.Intn(2) == 0 {
			return insertValidUnderscores(r, base)
		}
		return insertUnderscores(r, base)
	case 12:
		return genSpecialWord(r)
	case 13:
		return genJunk(r)
	case 14, 15:
		var base string
		switch r.Intn(4) {
		case 0:
			base = genHex(r)
		case 1:
			base = genFormatted(r)
		case 2:
			base = fixedParseFloat[r.Intn(len(fixedParseFloat))]
		default:
			base = genRandomDecimal(r)
		}
		return mutate(r, base)
	case 16:
		switch r.Intn(8) { // long inputs are slow on the Lean side; keep them a minority
		case 0, 1:
			return genLongMantissa(r)
		case 2, 3:
			return genStickyMisread(r)
		}
		return genNearFloat(r)
	case 17:
		return fixedParseFloat[r.Intn(len(fixedParseFloat))]
	default:
		// short human style numbers
		s := strconv.Itoa(r.Intn(100000))
		if r.Intn(2) == 0 {
			s += "." + strconv.Itoa(r.Intn(1000))
		}
		return withSign(r, s)
	}
}

func genAtoiInput(r *rand.Rand) string {
	switch r.Intn(10) {
	case 0, 1, 2:
		n := 1 + r.Intn(22)
		return withSign(r, randDigits(r, n))
	case 3, 4: // near the int64 boundaries
		v := new(big.Int).Lsh(big.NewInt(1), 63)
		if r.Intn(3) == 0 {
			v.Lsh(v, 1)
		}
		v.Add(v, big.NewInt(int64(r.Intn(7)-3)))
		s := v.String()
		if r.Intn(2) == 0 {
			s = strings.Repeat("0", r.Intn(4)) + s
		}
		return []string{"", "-", "+"}[r.Intn(3)] + s
	case 5:
		return strconv.FormatInt(int64(r.Uint64()), 10)
	case 6:
		return mutate(r, strconv.FormatInt(int64(r.Uint64())>>uint(r.Intn(64)), 10))
	case 7:
		return fixedAtoi[r.Intn(len(fixedAtoi))]
	case 8:
		return genJunk(r)
	default:
		return strconv.Itoa(r.Intn(2000) - 1000)
	}
}

func randInt64(r *rand.Rand) int64 {
	switch r.Intn(8) {
	case 0:
		return []int64{0, 1, -1, math.MaxInt64, math.MinInt64, math.MaxInt64 - 1, math.MinInt64 + 1, 1 << 53, 1<<53 + 1, 1<<53 - 1, -(1 << 53), -(1<<53 + 1), 1<<53 + 2, 1<<53 + 3, 1<<54 + 2, 1<<54 + 6, 1<<62 + 256, 1<<62 + 768, math.MaxInt64 - 511, math.MaxInt64 - 512, math.MaxInt64 - 1023, math.MaxInt64 - 1024, 10, -10, 100, 999999999999999999, 1000000000000000000}[r.Intn(27)]
	case 1: // above 2^53 with an exactly-half low part
		sh := uint(1 + r.Intn(10))
		top := r.Int63() >> sh << sh
		v := top | 1<<(sh-1)
		v += int64(r.Intn(3)) - 1
		if r.Intn(2) == 0 {
			v = -v
		}
		return v
	case 2:
		return int64(r.Uint64()) >> uint(r.Intn(64))
	case 3:
		return int64(r.Intn(2000) - 1000)
	case 4:
		v := int64(1) << uint(r.Intn(63))
		v += int64(r.Intn(5)) - 2
		if r.Intn(2) == 0 {
			v = -v
		}
		return v
	default:
		return int64(r.Uint64())
	}
}

func randToIntFloat(r *rand.Rand) float64 {
	switch r.Intn(8) {
	case 0:
		return float64(randInt64(r))
	case 1:
		return float64(randInt64(r)) + r.Float64()
	case 2: // around ±2^63 and beyond
		u := uint64(0x43E0000000000000) + uint64(r.Intn(9)) - 4
		if r.Intn(2) == 0 {
			u |= 1 << 63
		}
		return fromBits(u)
	case 3:
		return (r.Float64() - 0.5) * 4
	case 4:
		return (r.Float64() - 0.5) * math.Pow(2, float64(r.Intn(80)))
	default:
		return randFloat(r)
	}
}

// ---------------------------------------------------------------------------------------------
// quote inputs

var quoteRunes = []rune{
	0, 1, 7, 8, 9, 10, 11, 12, 13, 0x1b, 0x1f, ' ', '!', '"', '\'', '\\', '`', 'a', 'z', '~', 0x7f, 0x80, 0x85, 0x9f, 0xa0, 0xa1, 0xad, 0xae, 0xff, 0x100, 0x378, 0x37e, 0x7ff, 0x800, 0x61c, 0x200b, 0x200e, 0x2028, 0x2029, 0x202e, 0x2060, 0x3000, 0xd7ff, 0xe000, 0xf8ff, 0xfdd0, 0xfeff, 0xfff9, 0xfffd, 0xfffe, 0xffff, 0x10000, 0x1f600, 0x1fffe, 0x1ffff, 0x20000, 0x2a6df, 0x2fa1d, 0x2fa1e, 0x30000, 0x3134a, 0x3134b, 0xe0001, 0xe0100, 0xe01ef, 0xf0000, 0x10fffd, 0x10ffff, 0x4e00, 0xac00, 0x0301, 0x0600, 0x1d173, 0x110bd,
}

var badSeqs = []string{
	"\x80", "\xbf", "\xc0\x80", "\xc1\xbf", "\xc2", "\xc2\x41", "\xe0\x80\x80", "\xe0\x9f\xbf", "\xe0\xa0", "\xe0\xa0\x41", "\xed\xa0\x80", "\xed\xbf\xbf", "\xed\x9f\xbf", "\xee\x80", "\xef\xbf", "\xf0\x80\x80\x80", "\xf0\x8f\xbf\xbf", "\xf0\x90\x80", "\xf0\x90\x80\x41", "\xf4\x8f\xbf\xbf", "\xf4\x90\x80\x80", "\xf5\x80\x80\x80", "\xf8\x88\x80\x80\x80", "\xfe", "\xff", "\xef\xbf\xbd", "\xe2\x82", "\xf0\x9f\x98", "\xc3\x28", "\xe2\x28\xa1", "\xf0\x28\x8c\xbc",
}

func genQuoteInput(r *rand.Rand) string {
	var sb strings.Builder
	n := r.Intn(12)
	for i := 0; i < n; i++ {
		switch r.Intn(10) {
		case 0, 1:
			sb.WriteRune(quoteRunes[r.Intn(len(quoteRunes))])
		case 2:
			sb.WriteString(badSeqs[r.Intn(len(badSeqs))])
		case 3:
			sb.WriteByte(byte(r.Intn(256)))
		case 4:
			sb.WriteByte(byte(r.Intn(128)))
		case 5: // random code point (WriteRune turns invalid ones into U+FFFD)
			sb.WriteRune(rune(r.Intn(0x110000)))
		case 6: // random BMP
			sb.WriteRune(rune(r.Intn(0x10000)))
		case 7: // raw encoding of an arbitrary 21-bit value in 4 bytes / surrogate in 3 bytes (may be invalid)
			v := r.Intn(0x200000)
			if r.Intn(2) == 0 {
				sb.Write([]byte{byte(0xF0 | v>>18), byte(0x80 | v>>12&0x3F), byte(0x80 | v>>6&0x3F), byte(0x80 | v&0x3F)})
			} else {
				v &= 0xFFFF
				sb.Write([]byte{byte(0xE0 | v>>12), byte(0x80 | v>>6&0x3F), byte(0x80 | v&0x3F)})
			}
		default:
			sb.WriteByte(byte(' ' + r.Intn(95)))
		}
	}
	return sb.String()
}

// ---------------------------------------------------------------------------------------------

func printTable() string {
	var sb strings.Builder
	start := -1
	first := true
	flush := func(end int) {
		if !first {
			sb.WriteByte(',')
		}
		first = false
		fmt.Fprintf(&sb, "%x-%x", start, end)
	}
	for c := 0; c <= 0x10FFFF+1; c++ {
		p := c <= 0x10FFFF && strconv.IsPrint(rune(c))
		if p && start < 0 {
			start = c
		}
		if !p && start >= 0 {
			flush(c - 1)
			start = -1
		}
	}
	return sb.String()
}

// inputs on which the `if e < 10000 { e = e*10 + digit }` clamp of readFloat/decimal.set changes the value
func clampCases() []string {
	z := func(n int) string { return strings.Repeat("0", n) }
	return []string{
		"0." + z(99999) + "1e100000", // mathematically 1; Go: exponent clamps to 10000 -> 0
		"0." + z(9999) + "1e10000",   // 1, exponent 10000 is read in full
		"0." + z(10000) + "1e10001",  // 1
		"0." + z(20000) + "1e20001",  // 1, 20001 is read in full (the clamp only stops *further* digits)
		"0." + z(99998) + "1e99999",  // 1
		"1" + z(99990) + "e-99990",   // 1 (and >800 integer digits, Eisel-Lemire succeeds)
		"1" + z(100010) + "e-100010", // mathematically 1; Go: e = 10001 -> overflow
		"-1" + z(100010) + "e-100010",
		"0." + z(100100) + "1e-0100101",   // leading zero in the exponent: 0,1,10,100,1001,10010 -> clamps at 10010
		"0x0." + z(30000) + "1p120004",    // mathematically 1; Go: e = 12000 -> 0
		"0x0." + z(2000) + "1p8004",       // 1
		"0x1" + z(30000) + "p-120000",     // mathematically 1; Go: e = 12000 -> overflow
		"0x1" + z(2400) + "p-9999",        // 0.5
		"0." + z(99999) + "1e1_0_0_0_0_0", // underscores inside a clamped exponent
	}
}

func fixedCases() {
	for _, s := range clampCases() {
		caseParseFloat(s)
	}
	for _, s := range fixedParseFloat {
		caseParseFloat(s)
		caseAtoi(s)
	}
	for _, s := range fixedAtoi {
		caseAtoi(s)
		caseParseFloat(s)
	}
	for _, u := range specialBits {
		f := fromBits(u)
		caseFmtG(f)
		caseFmtJSON(f)
		caseFmtFixed(f, 0)
		caseFmtFixed(f, 1)
		caseFmtFixed(f, 2)
		caseFmtFixed(f, 7)
		caseToInt(f)
		casePreds(f)
		for _, v := range specialBits {
			caseLt(f, fromBits(v))
			caseEq(f, fromBits(v))
		}
	}
	for _, s := range niceDecimals {
		f, err := strconv.ParseFloat(s, 64)
		if err != nil {
			panic(s)
		}
		for _, g := range []float64{f, -f, math.Nextafter(f, 0), math.Nextafter(f, math.Inf(1))} {
			caseFmtG(g)
			caseFmtJSON(g)
			caseFmtFixed(g, 1)
			caseFmtFixed(g, 2)
		}
	}
	for _, rn := range quoteRunes {
		caseQuote(string(rn))
	}
	for _, s := range badSeqs {
		caseQuote(s)
		caseQuote("a" + s + "b")
	}
	for c := 0; c < 256; c++ {
		caseQuote(string([]byte{byte(c)}))
	}
	for _, i := range []int64{0, 1, -1, math.MaxInt64, math.MinInt64, 1 << 53, 1<<53 + 1, -(1<<53 + 1), math.MaxInt64 - 512, math.MaxInt64 - 511} {
		caseFmtInt(i)
		caseOfInt(i)
	}
}

func main() {
	if len(os.Args) != 4 || os.Args[1] != "gen" {
		fmt.Fprintln(os.Stderr, "usage: numcheck gen <seed> <count>")
		os.Exit(2)
	}
	if runtime.GOARCH != "amd64" {
		fmt.Fprintln(os.Stderr, "warning: the toint expectations are those of GOARCH=amd64; this is", runtime.GOARCH)
	}
	seed, err1 := strconv.ParseInt(os.Args[2], 10, 64)
	count, err2 := strconv.Atoi(os.Args[3])
	if err1 != nil || err2 != nil {
		fmt.Fprintln(os.Stderr, "usage: numcheck gen <seed> <count>")
		os.Exit(2)
	}
	out = bufio.NewWriterSize(os.Stdout, 1<<20)
	defer out.Flush()
	fmt.Fprintf(out, "isprint\t%s\n", printTable())

	r := rand.New(rand.NewSource(seed))
	fixedCases()
	for emitted < count {
		switch k := r.Intn(100); {
		case k < 36:
			caseParseFloat(genParseFloatInput(r))
		case k < 50:
			caseFmtG(randFloat(r))
		case k < 59:
			caseFmtJSON(randFloat(r))
		case k < 64:
			caseFmtFixed(randFloat(r), 1)
		case k < 69:
			caseFmtFixed(randFloat(r), 2)
		case k < 70:
			caseFmtFixed(randFloat(r), []int{0, 7}[r.Intn(2)])
		case k < 78:
			caseAtoi(genAtoiInput(r))
		case k < 81:
			caseFmtInt(randInt64(r))
		case k < 85:
			caseOfInt(randInt64(r))
		case k < 89:
			caseToInt(randToIntFloat(r))
		case k < 94:
			caseQuote(genQuoteInput(r))
		case k < 96:
			a := randFloat(r)
			b := randFloat(r)
			switch r.Intn(4) {
			case 0:
				b = a
			case 1:
				b = fromBits(math.Float64bits(a) + uint64(r.Intn(3)) - 1)
			case 2:
				b = -a
			}
			caseLt(a, b)
		case k < 98:
			a := randFloat(r)
			b := randFloat(r)
			switch r.Intn(4) {
			case 0:
				b = a
			case 1:
				b = fromBits(math.Float64bits(a) + uint64(r.Intn(3)) - 1)
			case 2:
				b = -a
			}
			caseEq(a, b)
		default:
			casePreds(randFloat(r))
		}
	}
	fmt.Fprintf(os.Stderr, "numcheck: %d cases:", emitted)
	for _, k := range []string{"atoi", "parsefloat", "fmtint", "fmtg", "fmtfixed0", "fmtfixed1", "fmtfixed2", "fmtfixed7", "fmtjson", "ofint", "toint", "quote", "lt", "eq", "isnan", "isinf", "isneg"} {
		fmt.Fprintf(os.Stderr, " %s=%d", k, perOp[k])
	}
	fmt.Fprintln(os.Stderr)
}
