module numcheck

go 1.22
