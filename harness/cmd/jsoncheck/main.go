// jsoncheck: oracle + case generator for the Lean model GoLucene.Model.Json.
//
//	jsoncheck gen <seed> <count>   random (structured + adversarial) cases
//	jsoncheck exhaustive           deterministic exhaustive families
//
// Output: one case per line,  op<TAB>hex(input)[<TAB>hex(arg2)]<TAB>expected
// where `expected` is computed with the real Go standard library.
package main

import (
	"bufio"
	"bytes"
	"encoding/hex"
	"encoding/json"
	"fmt"
	"math/big"
	"math/rand"
	"os"
	"strconv"
	"strings"
	"unicode"
	"unicode/utf8"
)

var out *bufio.Writer

func emit(op string, expected string, args ...[]byte) {
	out.WriteString(op)
	for _, a := range args {
		out.WriteByte('\t')
		out.WriteString(hex.EncodeToString(a))
	}
	out.WriteByte('\t')
	out.WriteString(expected)
	out.WriteByte('\n')
}

func b01(v bool) string {
	if v {
		return "1"
	}
	return "0"
}

func optHex(ok bool, v []byte) string {
	if !ok {
		return "-"
	}
	return "=" + hex.EncodeToString(v)
}

// ---------------------------------------------------------------- oracles

func oValid(d []byte) { emit("valid", b01(json.Valid(d)), d) }
func oTrim(d []byte)  { emit("trim", hex.EncodeToString(bytes.Trim(d, " \t\r\n")), d) }
func oUnmRaw(d []byte) {
	var r json.RawMessage
	err := json.Unmarshal(d, &r)
	emit("unmraw", optHex(err == nil, r), d)
}

// one-level view computed with encoding/json only
func parse1(d []byte) string {
	if !json.Valid(d) {
		return "none"
	}
	var raw json.RawMessage
	if err := json.Unmarshal(d, &raw); err != nil || len(raw) == 0 {
		panic("RawMessage decode of valid doc failed")
	}
	switch raw[0] {
	case '"':
		var s string
		if err := json.Unmarshal(raw, &s); err != nil {
			panic(err)
		}
		return "str:" + hex.EncodeToString([]byte(s))
	case 't', 'f', 'n':
		var x any
		if err := json.Unmarshal(raw, &x); err != nil {
			panic(err)
		}
		switch v := x.(type) {
		case nil:
			return "null"
		case bool:
			if v {
				return "true"
			}
			return "false"
		}
		panic("literal?")
	case '[':
		dec := json.NewDecoder(bytes.NewReader(raw))
		if t, err := dec.Token(); err != nil || t != json.Delim('[') {
			panic("array token")
		}
		var parts []string
		for dec.More() {
			var el json.RawMessage
			if err := dec.Decode(&el); err != nil {
				panic(err)
			}
			parts = append(parts, hex.EncodeToString(el))
		}
		return "arr:" + strings.Join(parts, ",")
	case '{':
		dec := json.NewDecoder(bytes.NewReader(raw))
		if t, err := dec.Token(); err != nil || t != json.Delim('{') {
			panic("object token")
		}
		var parts []string
		for dec.More() {
			kt, err := dec.Token()
			if err != nil {
				panic(err)
			}
			key, ok := kt.(string)
			if !ok {
				panic("key not string")
			}
			var el json.RawMessage
			if err := dec.Decode(&el); err != nil {
				panic(err)
			}
			parts = append(parts, hex.EncodeToString([]byte(key))+"="+hex.EncodeToString(el))
		}
		return "obj:" + strings.Join(parts, ",")
	default:
		dec := json.NewDecoder(bytes.NewReader(raw))
		dec.UseNumber()
		var x any
		if err := dec.Decode(&x); err != nil {
			panic(err)
		}
		n, ok := x.(json.Number)
		if !ok || string(n) != string(raw) {
			panic("number raw text mismatch")
		}
		return "num:" + hex.EncodeToString(raw)
	}
}
func oParse1(d []byte) { emit("parse1", parse1(d), d) }

func oDstr(d []byte) {
	if len(d) >= 2 && d[0] == '"' && d[len(d)-1] == '"' {
		var s string
		if err := json.Unmarshal(d, &s); err == nil {
			emit("dstr", optHex(true, []byte(s)), d)
			return
		}
	}
	emit("dstr", "-", d)
}

func oEstr(d []byte) {
	o, err := json.Marshal(string(d))
	if err != nil {
		panic(err)
	}
	emit("estr", hex.EncodeToString(o), d)
}

func oAny(d []byte) {
	var x any
	emit("any", b01(json.Unmarshal(d, &x) == nil), d)
}

func oNumOk(d []byte) {
	_, err := strconv.ParseFloat(string(d), 64)
	emit("numok", b01(err == nil), d)
}

type foldT struct {
	Left       json.RawMessage `json:"left"`
	Operator   json.RawMessage `json:"operator"`
	Right      json.RawMessage `json:"right"`
	Boundaries json.RawMessage `json:"boundaries"`
	Distance   json.RawMessage `json:"distance"`
	Power      json.RawMessage `json:"power"`
	Min        json.RawMessage `json:"min"`
	Max        json.RawMessage `json:"max"`
	Inclusive  json.RawMessage `json:"inclusive"`
	Kind       json.RawMessage `json:"kind"` // not a library field: exercises the U+212A (Kelvin sign) fold
}

var fieldNames = []string{"left", "operator", "right", "boundaries", "distance", "power", "min", "max", "inclusive", "kind"}

func (f *foldT) get(name string) json.RawMessage {
	switch name {
	case "left":
		return f.Left
	case "operator":
		return f.Operator
	case "right":
		return f.Right
	case "boundaries":
		return f.Boundaries
	case "distance":
		return f.Distance
	case "power":
		return f.Power
	case "min":
		return f.Min
	case "max":
		return f.Max
	case "inclusive":
		return f.Inclusive
	case "kind":
		return f.Kind
	}
	panic("name")
}

// key literal (JSON text of the key) observed through struct decoding
func oFold(lit []byte, name string) {
	doc := append(append([]byte("{"), lit...), []byte(":7}")...)
	var f foldT
	// the literal must itself be a string literal (otherwise `"a":1,"b"` style injections would pass)
	var s string
	if !(len(lit) >= 2 && lit[0] == '"' && lit[len(lit)-1] == '"') || json.Unmarshal(lit, &s) != nil {
		emit("fold", "-", lit, []byte(name))
		return
	}
	if err := json.Unmarshal(doc, &f); err != nil {
		panic("fold doc: " + err.Error())
	}
	emit("fold", b01(f.get(name) != nil), lit, []byte(name))
}

// copy of encoding/json/fold.go
func foldName(in []byte) []byte {
	var out []byte
	for i := 0; i < len(in); {
		if c := in[i]; c < utf8.RuneSelf {
			if 'a' <= c && c <= 'z' {
				c -= 'a' - 'A'
			}
			out = append(out, c)
			i++
			continue
		}
		r, n := utf8.DecodeRune(in[i:])
		out = utf8.AppendRune(out, foldRune(r))
		i += n
	}
	return out
}
func foldRune(r rune) rune {
	for {
		r2 := unicode.SimpleFold(r)
		if r2 <= r {
			return r2
		}
		r = r2
	}
}

func oFoldEq(key []byte, name string) {
	v := bytes.Equal(foldName(key), foldName([]byte(name)))
	if v != strings.EqualFold(string(key), name) {
		fmt.Fprintf(os.Stderr, "NOTE: foldName and strings.EqualFold disagree on %x / %q\n", key, name)
	}
	emit("foldeq", b01(v), key, []byte(name))
}

func oStrip(d []byte) {
	emit("strip", hex.EncodeToString([]byte(strings.Join(strings.Fields(string(d)), ""))), d)
}
func oTspace(d []byte) { emit("tspace", hex.EncodeToString(bytes.TrimSpace(d)), d) }

func oCompact(d []byte) {
	nn := make([]byte, len(d)) // non-nil even when empty (a nil RawMessage marshals as null)
	copy(nn, d)
	o, err := json.Marshal(json.RawMessage(nn))
	// cross-check: Compact followed by HTMLEscape
	var b1, b2 bytes.Buffer
	err2 := json.Compact(&b1, d)
	if (err == nil) != (err2 == nil) {
		fmt.Fprintf(os.Stderr, "NOTE: Marshal(RawMessage) and Compact disagree on validity of %x\n", d)
	}
	if err == nil {
		json.HTMLEscape(&b2, b1.Bytes())
		if !bytes.Equal(b2.Bytes(), o) {
			fmt.Fprintf(os.Stderr, "NOTE: Marshal(RawMessage) != HTMLEscape(Compact) on %x\n", d)
		}
	}
	emit("compact", optHex(err == nil, o), d)
}

// ---------------------------------------------------------------- generators

type G struct{ r *rand.Rand }

func (g *G) n(k int) int             { return g.r.Intn(k) }
func (g *G) p(pct int) bool          { return g.r.Intn(100) < pct }
func (g *G) pick(xs []string) string { return xs[g.r.Intn(len(xs))] }

func (g *G) ws() string {
	if g.p(65) {
		return ""
	}
	var sb strings.Builder
	for k := 1 + g.n(3); k > 0; k-- {
		sb.WriteByte(" \t\r\n  "[g.n(6)])
	}
	return sb.String()
}

func (g *G) digits(k int) string {
	var sb strings.Builder
	for i := 0; i < k; i++ {
		sb.WriteByte(byte('0' + g.n(10)))
	}
	return sb.String()
}

var thresh = func() *big.Int { // 2^1024 - 2^970
	a := new(big.Int).Lsh(big.NewInt(1), 1024)
	b := new(big.Int).Lsh(big.NewInt(1), 970)
	return a.Sub(a, b)
}()

var specialNumbers = func() []string {
	t := thresh.String()
	tm := new(big.Int).Sub(thresh, big.NewInt(1)).String()
	tp := new(big.Int).Add(thresh, big.NewInt(1)).String()
	xs := []string{
		"0", "-0", "0.0", "-0.0", "0e0", "0E+0", "0e-0", "1", "-1", "10", "12345678901234567890",
		"1e308", "1E308", "1e+308", "1.7976931348623157e308", "1.7976931348623158e308",
		"1.7976931348623159e308", "17976931348623158e292", "0.17976931348623158e309",
		"17976931348623159e292", "1.797693134862315807e308", "1.797693134862315808e308",
		"1e309", "-1e309", "1e999", "-1e999", "1e-400", "4.9e-324", "2.5e-324", "2.4e-324", "1e-999999",
		"0e999", "0.0e99999", "0e123456789012", "1E400", "1e+309", "1e99999", "1e100000", "1e1000000000000000000000",
		"0.1e310", "0.01e311", "100e306", "1000e306", "0.000001e315", "9e307", "9.99e307", "10e307", "17e307", "18e307",
		"1.8e308", "1.79e308", "1.797e308", "179.7e306", "179.8e306",
		t, tm, tp, "-" + t, "-" + tm, t + ".0", tm + ".9999999999999999999", tm + "." + strings.Repeat("9", 900),
		t + "e0", t[:1] + "." + t[1:] + "e308", tm[:1] + "." + tm[1:] + "e308", t + "0e-1", tm + "9e-1", t + "000e-3",
		"0." + t + "e309", "0." + tm + "e309", "0.000" + t + "e312",
		"0." + strings.Repeat("0", 20000) + "1e20309", "0." + strings.Repeat("0", 20000) + "1e20310",
		"1" + strings.Repeat("0", 308), "1" + strings.Repeat("0", 309), "2" + strings.Repeat("0", 308),
		"1" + strings.Repeat("0", 400) + "e-100", "1" + strings.Repeat("0", 400) + "e-91", "1" + strings.Repeat("0", 400) + "e-92",
		// exponents of 6+ digits: Go stops accumulating the exponent at 5 digits (e < 10000 rule)
		"0." + strings.Repeat("0", 100000) + "1e100400", "1" + strings.Repeat("0", 100000) + "e-100100",
		"0." + strings.Repeat("0", 100000) + "1e100000", "1e0100000", "1e00000000000000000308", "1e00000000000000000309",
		"0." + strings.Repeat("0", 9990) + "1e10299", "0." + strings.Repeat("0", 9990) + "1e10300", "0." + strings.Repeat("0", 9990) + "1e0010300",
		"123456789e300", "123456789e301", "1.5", "3.14159", "-2.5e-3", "6.02E23", "1e5", "1E5", "1e+5", "1e-5", "0.5", "100", "1.0e0",
	}
	return xs
}()

var nearMissNumbers = []string{
	"01", "1.", ".5", "-", "+1", "1e", "1E+", "1e-", "--1", "1.e5", "1e5.5", "0x10", "1_000", "Infinity", "NaN",
	"-Infinity", "1.5.5", "00", "-01", "0e", "0e+", "1ee5", "1e+-5", "- 1", "1 2", "-.5", "1.e", "1.5e", "1.5E+",
	"0.", "-0.", "0.e1", "1e1.0", "1e 5", "1 e5", "0b1", "1f", "1d", "1L", "0123", "-00", "1,", ",1", "1e999x", "١", "1..2",
	"inf", "nan", "+0", "1+1", "1-1", "2e", "2E", "-a", "-\"1\"", "1e٣",
}

func (g *G) number() string {
	if g.p(30) {
		s := g.pick(specialNumbers)
		if len(s) > 2000 && g.p(80) {
			s = g.pick(specialNumbers[:20])
		}
		return s
	}
	var sb strings.Builder
	if g.p(35) {
		sb.WriteByte('-')
	}
	if g.p(25) {
		sb.WriteByte('0')
	} else {
		sb.WriteByte(byte('1' + g.n(9)))
		k := g.n(5)
		if g.p(5) {
			k = g.n(330)
		}
		sb.WriteString(g.digits(k))
	}
	if g.p(45) {
		sb.WriteByte('.')
		k := 1 + g.n(6)
		if g.p(5) {
			k = 1 + g.n(340)
		}
		sb.WriteString(g.digits(k))
	}
	if g.p(45) {
		sb.WriteByte("eE"[g.n(2)])
		if g.p(60) {
			sb.WriteByte("+-"[g.n(2)])
		}
		switch g.n(6) {
		case 0:
			sb.WriteString(g.digits(1 + g.n(2)))
		case 1:
			sb.WriteString(strconv.Itoa(290 + g.n(40)))
		case 2:
			sb.WriteString(strconv.Itoa(300 + g.n(12)))
		case 3:
			sb.WriteString(g.digits(1 + g.n(8)))
		case 4:
			sb.WriteString("00" + g.digits(1+g.n(3)))
		default:
			sb.WriteString(strconv.Itoa(g.n(400)))
		}
	}
	return sb.String()
}

// number with magnitude close to the float64 overflow threshold
func (g *G) borderNumber() string {
	// take threshold digits, perturb, place the decimal point somewhere, compensate with the exponent
	t := thresh.String() // 309 digits
	x := new(big.Int).Set(thresh)
	switch g.n(5) {
	case 0:
	case 1:
		x.Sub(x, big.NewInt(int64(1+g.n(3))))
	case 2:
		x.Add(x, big.NewInt(int64(1+g.n(3))))
	case 3: // perturb at a random decimal position
		d := new(big.Int).Exp(big.NewInt(10), big.NewInt(int64(g.n(309))), nil)
		if g.p(50) {
			x.Sub(x, d)
		} else {
			x.Add(x, d)
		}
	case 4: // truncate to k digits (round down) or bump
		k := 1 + g.n(40)
		s := t[:k]
		if g.p(50) {
			v, _ := new(big.Int).SetString(s, 10)
			v.Add(v, big.NewInt(1))
			s = v.String()
		}
		x, _ = new(big.Int).SetString(s+strings.Repeat("0", 309-k), 10)
	}
	ds := x.String()
	extra := ""
	if g.p(30) {
		extra = g.digits(1 + g.n(30))
	}
	if g.p(20) {
		ds = strings.TrimRight(ds, "0")
		if ds == "" {
			ds = "0"
		}
	}
	origLen := len(x.String())
	// value = 0.ds * 10^origLen ; choose point position k: ds[:k] . ds[k:]  * 10^(origLen-k)
	k := 1 + g.n(len(ds))
	if g.p(40) {
		k = 1
	}
	if g.p(15) {
		k = len(ds)
	}
	mant := ds[:k]
	frac := ds[k:] + extra
	e := origLen - k
	lead := ""
	if g.p(10) { // 0.000ds form
		z := g.n(5)
		mant = "0"
		frac = strings.Repeat("0", z) + ds + extra
		e = origLen + z
	}
	s := lead + mant
	if frac != "" {
		s += "." + frac
	}
	if e != 0 || g.p(50) {
		s += "e"
		if e >= 0 && g.p(30) {
			s += "+"
		}
		s += strconv.Itoa(e)
	}
	if g.p(20) {
		s = "-" + s
	}
	return s
}

// integer parts with more than 800 significant digits (strconv's slow path stores 800 digits only)
// and exponents of 5..7 digits (strconv stops accumulating the exponent after 5 digits)
func (g *G) longBorderNumber() string {
	t := thresh.String()
	head := t
	switch g.n(4) {
	case 0:
		head = new(big.Int).Sub(thresh, big.NewInt(1)).String()
	case 1:
		head = new(big.Int).Add(thresh, big.NewInt(int64(g.n(2)))).String()
	case 2:
		head = g.pick([]string{"1", "17", "18", "1797", "1798", "2", "9"})
	}
	I := 700 + g.n(400)
	if g.p(20) {
		I = 795 + g.n(10)
	}
	if I < len(head) {
		I = len(head)
	}
	pad := I - len(head)
	var ds string
	if g.p(50) {
		ds = head + strings.Repeat("0", pad)
	} else {
		ds = head + g.digits(pad)
	}
	frac := ""
	if g.p(30) {
		frac = "." + g.digits(1+g.n(5))
	}
	stored := I
	if g.p(70) && stored > 800 {
		stored = 800
	}
	e := -(stored - 309) + g.n(3) - 1
	if g.p(10) {
		e = -(I - 309) + g.n(3) - 1
	}
	es := strconv.Itoa(e)
	if g.p(15) { // long exponents
		z := g.pick([]string{"0", "00", "000000"})
		if e < 0 {
			es = "-" + z + strconv.Itoa(-e)
		} else {
			es = z + es
		}
	}
	if g.p(10) {
		es = g.pick([]string{"-99999", "-100000", "-10000", "-9999", "99999", "100000", "-123456", "-1000000"})
	}
	s := ds + frac + "e" + es
	if g.p(15) {
		s = "-" + s
	}
	return s
}

func (g *G) hex4(v int) string {
	s := fmt.Sprintf("%04x", v)
	bs := []byte(s)
	for i := range bs {
		if g.p(40) {
			bs[i] = byte(unicode.ToUpper(rune(bs[i])))
		}
	}
	return string(bs)
}

var specialRunes = []rune{0x2028, 0x2029, 0xFFFD, 0x17F, 0x212A, 0x85, 0xA0, 0x10FFFF, 0xFFFF, 0xE000, 0xD7FF, 0x80, 0x7FF,
	0x800, 0x10000, 0x1680, 0x2000, 0x200A, 0x200B, 0x202F, 0x205F, 0x3000, 0xFEFF, 0x180E, 0xE9, 0x4E2D, 0x1F600, 0x130, 0x131, 0x3A3, 0x3C2, 0x3C3, 0xB5, 0x39C, 0x3BC}

var invalidSeqs = []string{
	"\x80", "\xbf", "\xa0", "\x85", "\xa8", "\xc0\x80", "\xc1\xbf", "\xc2", "\xe0\x80\x80", "\xe0\x9f\xbf", "\xed\xa0\x80", "\xed\xbf\xbf",
	"\xf0\x80\x80\x80", "\xf0\x8f\xbf\xbf", "\xf4\x90\x80\x80", "\xf5\x80\x80\x80", "\xff", "\xfe", "\xe2\x80", "\xe2", "\xe2\x28\xa8",
	"\xf0\x9f\x98", "\xf0\x9f", "\xf0", "\xe2\x80\xa8\x80", "\x80\xa8", "\xe2\x80\xe2\x80\xa8", "\xc2\xc2\xa0", "\xe1\x9a", "\xe3\x80",
	"\xc5", "\xe2\x84", "\xc5\xc5\xbf", "\xef\xbf", "\xf8\x88\x80\x80\x80", "\xed\xa0\xbd\xed\xb8\x80",
}

func (g *G) randRune() rune {
	switch g.n(6) {
	case 0:
		return rune(0x80 + g.n(0x780))
	case 1:
		for {
			r := rune(0x800 + g.n(0xF800))
			if r < 0xD800 || r > 0xDFFF {
				return r
			}
		}
	case 2:
		return rune(0x10000 + g.n(0x100000))
	case 3:
		return rune(0x2000 + g.n(0x70))
	default:
		return specialRunes[g.n(len(specialRunes))]
	}
}

// body of a valid JSON string literal (without the quotes)
func (g *G) strBody(maxPieces int) []byte {
	var b []byte
	for k := g.n(maxPieces + 1); k > 0; k-- {
		switch g.n(16) {
		case 0, 1, 2:
			for j := 1 + g.n(6); j > 0; j-- {
				c := byte(0x20 + g.n(0x5f))
				if c == '"' || c == '\\' {
					c = 'x'
				}
				b = append(b, c)
			}
		case 3:
			b = append(b, "<>&'/ \x7f"[g.n(7)])
		case 4:
			b = append(b, '\\', "\"\\/bfnrt"[g.n(8)])
		case 5:
			v := g.n(0x10000)
			if v >= 0xD800 && v < 0xE000 {
				v -= 0x1000
			}
			b = append(b, "\\u"+g.hex4(v)...)
		case 6:
			xs := []int{0, 0x1f, 0x22, 0x5c, 0x2028, 0x2029, 0xfffd, 0xffff, 0x17f, 0x212a, 0xe9, 0x3c, 0x26, 0x7f, 0x80, 0x4c, 0x6c, 0x53, 0x73, 0x4b, 0x6b, 0x20, 0xa0, 0x85, 0x08, 0x0c}
			b = append(b, "\\u"+g.hex4(xs[g.n(len(xs))])...)
		case 7: // valid surrogate pair
			b = append(b, "\\u"+g.hex4(0xD800+g.n(0x400))+"\\u"+g.hex4(0xDC00+g.n(0x400))...)
		case 8: // surrogate trouble
			hi := "\\u" + g.hex4(0xD800+g.n(0x400))
			lo := "\\u" + g.hex4(0xDC00+g.n(0x400))
			switch g.n(10) {
			case 0:
				b = append(b, hi...)
			case 1:
				b = append(b, lo...)
			case 2:
				b = append(b, lo+hi...)
			case 3:
				b = append(b, hi+"\\n"...)
			case 4:
				b = append(b, hi+hi+lo...)
			case 5:
				b = append(b, hi+"x"...)
			case 6:
				b = append(b, hi+"\\u0041"...)
			case 7:
				b = append(b, hi+"\\u"+g.hex4([]int{0xDBFF, 0xDC00, 0xDFFF, 0xE000, 0xD7FF}[g.n(5)])...)
			case 8:
				b = append(b, hi+string(g.randRune())...)
			case 9:
				b = append(b, hi+g.pick(invalidSeqs)...)
			}
		case 9, 10:
			b = utf8.AppendRune(b, g.randRune())
		case 11, 12:
			b = append(b, g.pick(invalidSeqs)...)
		case 13:
			b = append(b, byte(0x80+g.n(0x80)))
		case 14:
			b = append(b, "  \u00a0\u2028\u2029 "...)
		case 15:
			b = append(b, g.pick(fieldNames)...)
		}
	}
	return b
}

func (g *G) strLit() []byte {
	m := 4
	if g.p(10) {
		m = 30
	}
	return append(append([]byte{'"'}, g.strBody(m)...), '"')
}

// string literals that are NOT valid
func (g *G) badStrLit() []byte {
	pre := g.strBody(2)
	post := g.strBody(2)
	var mid string
	switch g.n(14) {
	case 0:
		mid = string(rune(g.n(0x20)))
	case 1:
		mid = "\\x41"
	case 2:
		mid = "\\'"
	case 3:
		mid = "\\u12G4"
	case 4:
		mid = "\\u12"
	case 5:
		mid = "\\U0041"
	case 6:
		return append(append([]byte{'"'}, pre...), post...) // unterminated
	case 7:
		return append(append([]byte{'"'}, pre...), '\\', '"') // ends in escaped quote
	case 8:
		mid = "\""
	case 9:
		mid = "\\" + string(rune(0x80+g.n(0x80)))
	case 10:
		mid = "\\u{41}"
	case 11:
		mid = "\\ "
	case 12:
		mid = "\\0"
	case 13:
		mid = "\\ud800\\u12"
	}
	r := append([]byte{'"'}, pre...)
	r = append(r, mid...)
	r = append(r, post...)
	return append(r, '"')
}

// raw (decoded) key bytes close to one of the field names
func (g *G) keyBytes() []byte {
	k, _ := g.keyFor()
	return k
}

// key bytes derived from a field name, and a field name to compare with (usually the same one)
func (g *G) keyFor() ([]byte, string) {
	name := g.pick(fieldNames)
	other := name
	if g.p(25) {
		other = g.pick(fieldNames)
	}
	if g.p(4) {
		return nil, other
	}
	if g.p(6) {
		return g.strBodyRaw(3), other
	}
	noisy := g.p(35) // most keys only get fold-preserving changes
	var b []byte
	for _, c := range []byte(name) {
		switch {
		case g.p(25):
			b = append(b, byte(unicode.ToUpper(rune(c))))
		case c == 's' && g.p(35):
			b = append(b, "\u017f"...)
		case c == 'k' && g.p(35):
			b = append(b, "\u212a"...)
		case noisy && g.p(4):
			b = utf8.AppendRune(b, g.randRune())
		case noisy && g.p(3):
			b = append(b, g.pick(invalidSeqs)...)
		case noisy && g.p(4): // dotless i / dotted I / sigma etc
			b = append(b, g.pick([]string{"\u0130", "\u0131", "\u03c2", "\u00df", "\uff4c", "\u1e9e", "\u212b", "\u2126", "\ufb06"})...)
		case noisy && g.p(3):
			// drop the byte
		case noisy && g.p(3):
			b = append(b, c, c)
		default:
			b = append(b, c)
		}
	}
	if noisy && g.p(12) {
		b = append(b, byte(0x20+g.n(0x5f)))
	}
	if noisy && g.p(10) {
		b = append([]byte{byte(0x20 + g.n(0x5f))}, b...)
	}
	return b, other
}

// JSON literal for key bytes, escaping a random subset of characters
func (g *G) keyLit(k []byte) []byte {
	b := []byte{'"'}
	for i := 0; i < len(k); {
		c := k[i]
		if c < utf8.RuneSelf {
			switch {
			case c == '"' || c == '\\':
				b = append(b, '\\', c)
			case c < 0x20 || g.p(8):
				b = append(b, "\\u"+g.hex4(int(c))...)
			default:
				b = append(b, c)
			}
			i++
			continue
		}
		r, n := utf8.DecodeRune(k[i:])
		if r != utf8.RuneError && r < 0x10000 && g.p(30) {
			b = append(b, "\\u"+g.hex4(int(r))...)
		} else {
			b = append(b, k[i:i+n]...)
		}
		i += n
	}
	return append(b, '"')
}

// arbitrary Go string contents (for Marshal / Fields / TrimSpace)
var spaceStrs = []string{" ", "\t", "\n", "\v", "\f", "\r", "\u0085", "\u00a0", "\u1680", "\u2000", "\u2001", "\u2005", "\u200a",
	"\u2028", "\u2029", "\u202f", "\u205f", "\u3000"}
var almostSpace = []string{"\u200b", "\u180e", "\ufeff", "\u2060", "\u00ad", "\x1c", "\x1d", "\x1e", "\x1f", "\x00", "\x08", "\x7f", "\u2007\u0301", "\u2027", "\u202a", "\u2030",
	"\u167f", "\u1681", "\u1fff", "\u200c", "\u205e", "\u2060", "\u2fff", "\u3001", "\x85", "\xa0", "\xc2", "\xe2\x80", "\xe1\x9a", "\xe3\x80", "\x80\xa8", "\xe2\x80\xa8\x80", "\xc2\xc2\xa0", "\xe2\xe2\x80\xa8"}

func (g *G) strBodyRaw(maxPieces int) []byte {
	var b []byte
	for k := g.n(maxPieces + 1); k > 0; k-- {
		switch g.n(12) {
		case 0, 1:
			for j := 1 + g.n(6); j > 0; j-- {
				b = append(b, byte(0x20+g.n(0x60)))
			}
		case 2:
			b = append(b, byte(g.n(0x20)))
		case 3:
			b = append(b, "<>&\"\\/'\x7f"[g.n(8)])
		case 4, 5:
			b = append(b, g.pick(spaceStrs)...)
		case 6:
			b = append(b, g.pick(almostSpace)...)
		case 7:
			b = utf8.AppendRune(b, g.randRune())
		case 8:
			b = append(b, g.pick(invalidSeqs)...)
		case 9:
			b = append(b, byte(0x80+g.n(0x80)))
		case 10:
			b = append(b, g.pick(fieldNames)...)
		case 11:
			b = append(b, byte(g.n(256)))
		}
	}
	return b
}

func (g *G) spaces(k int) []byte {
	var b []byte
	for ; k > 0; k-- {
		b = append(b, g.pick(spaceStrs)...)
	}
	return b
}

// a valid JSON value
func (g *G) value(depth int) []byte {
	var b []byte
	k := g.n(12)
	if depth <= 0 && k >= 8 {
		k = g.n(8)
	}
	switch k {
	case 0:
		b = append(b, "null"...)
	case 1:
		b = append(b, "true"...)
	case 2:
		b = append(b, "false"...)
	case 3, 4:
		b = append(b, g.number()...)
	case 5, 6, 7:
		b = append(b, g.strLit()...)
	case 8, 9:
		b = append(b, '[')
		b = append(b, g.ws()...)
		n := g.n(5)
		for i := 0; i < n; i++ {
			if i > 0 {
				b = append(b, ',')
				b = append(b, g.ws()...)
			}
			b = append(b, g.value(depth-1)...)
			b = append(b, g.ws()...)
		}
		b = append(b, ']')
	default:
		b = append(b, g.object(depth)...)
	}
	return b
}

func (g *G) object(depth int) []byte {
	b := []byte{'{'}
	b = append(b, g.ws()...)
	n := g.n(6)
	for i := 0; i < n; i++ {
		if i > 0 {
			b = append(b, ',')
			b = append(b, g.ws()...)
		}
		if g.p(70) {
			b = append(b, g.keyLit(g.keyBytes())...)
		} else {
			b = append(b, g.strLit()...)
		}
		b = append(b, g.ws()...)
		b = append(b, ':')
		b = append(b, g.ws()...)
		b = append(b, g.value(depth-1)...)
		b = append(b, g.ws()...)
	}
	return append(b, '}')
}

func (g *G) doc() []byte {
	var v []byte
	switch g.n(10) {
	case 0, 1, 2:
		v = g.object(1 + g.n(4))
	case 3:
		v = append(append([]byte{'['}, g.value(2+g.n(3))...), ']')
	default:
		v = g.value(g.n(5))
	}
	b := []byte(g.ws())
	b = append(b, v...)
	return append(b, g.ws()...)
}

var garbage = []string{"x", ",", "]", "}", "[", "{", ":", "\"", "1", "null", "\x00", "\v", "\f", "\u00a0", "\u2028", "//c", "/* */", "\xef\xbb\xbf", "'", "-", "e", ".", "tru", "\\", "\x1f", "\x80"}

func (g *G) mutate(d []byte) []byte {
	d = append([]byte(nil), d...)
	for k := 1 + g.n(3); k > 0; k-- {
		switch g.n(9) {
		case 0: // delete a byte
			if len(d) > 0 {
				i := g.n(len(d))
				d = append(d[:i], d[i+1:]...)
			}
		case 1: // insert interesting byte
			i := g.n(len(d) + 1)
			ins := g.pick(garbage)
			d = append(d[:i], append([]byte(ins), d[i:]...)...)
		case 2: // replace
			if len(d) > 0 {
				d[g.n(len(d))] = byte(g.n(256))
			}
		case 3: // truncate
			if len(d) > 0 {
				d = d[:g.n(len(d))]
			}
		case 4: // trailing garbage
			d = append(d, g.ws()...)
			d = append(d, g.pick(garbage)...)
		case 5: // leading garbage
			d = append([]byte(g.pick(garbage)), d...)
		case 6: // duplicate a slice
			if len(d) > 1 {
				i := g.n(len(d))
				j := i + g.n(len(d)-i)
				d = append(d[:j], append(append([]byte(nil), d[i:j]...), d[j:]...)...)
			}
		case 7: // swap two bytes
			if len(d) > 1 {
				i, j := g.n(len(d)), g.n(len(d))
				d[i], d[j] = d[j], d[i]
			}
		case 8: // replace with structural byte
			if len(d) > 0 {
				d[g.n(len(d))] = "[]{},:\" \\0-.eE\t\n"[g.n(16)]
			}
		}
	}
	return d
}

func rep(s string, n int) string { return strings.Repeat(s, n) }

func (g *G) deep() []byte {
	n := []int{9998, 9999, 10000, 10001, 10002, 12000, 5000}[g.n(7)]
	switch g.n(10) {
	case 0:
		return []byte(rep("[", n) + rep("]", n))
	case 1:
		return []byte(rep("[", n) + "1" + rep("]", n))
	case 2:
		return []byte(rep("[", n-1) + "{}" + rep("]", n-1))
	case 3:
		return []byte(rep("[", n-1) + "{\"a\":[]}" + rep("]", n-1))
	case 4:
		return []byte(rep("{\"a\":", n) + "1" + rep("}", n))
	case 5:
		return []byte(rep("[", n)) // unclosed
	case 6:
		return []byte(" " + rep("[ ", n) + "\"x\"" + rep(" ]", n) + " ")
	case 7:
		return []byte(rep("[{\"k\":", n/2) + "null" + rep("}]", n/2))
	case 8:
		// two siblings each n deep: depth is not cumulative
		h := rep("[", n-1) + rep("]", n-1)
		return []byte("[" + h + "," + h + "]")
	default:
		return []byte("{\"left\":" + rep("[", n-1) + rep("]", n-1) + ",\"right\":1e999}")
	}
}

func (g *G) long() []byte {
	n := 20000 + g.n(80000)
	switch g.n(5) {
	case 0:
		return append(append([]byte{'"'}, []byte(rep("a", n))...), '"')
	case 1:
		var b []byte
		b = append(b, '"')
		for len(b) < n {
			b = append(b, g.strBody(30)...)
		}
		return append(b, '"')
	case 2:
		var b []byte
		b = append(b, '[')
		for len(b) < n {
			b = append(b, g.value(2)...)
			b = append(b, ',')
		}
		return append(b, "0]"...)
	case 3:
		return []byte("[" + rep("1,", n/2) + "1]")
	default:
		var b []byte
		b = append(b, '{')
		for len(b) < n {
			b = append(b, g.keyLit(g.keyBytes())...)
			b = append(b, ':')
			b = append(b, g.value(1)...)
			b = append(b, ',')
		}
		return append(b, "\"\":0}"...)
	}
}

// a document for the scanner-level ops: mostly valid, often broken
func (g *G) anyDoc() []byte {
	switch x := g.n(100); {
	case x < 45:
		return g.doc()
	case x < 75:
		return g.mutate(g.doc())
	case x < 80:
		return []byte(g.ws() + g.pick(nearMissNumbers) + g.ws())
	case x < 84:
		return []byte(g.ws() + g.number() + g.ws())
	case x < 88:
		return append(append([]byte(g.ws()), g.badStrLit()...), g.ws()...)
	case x < 91:
		// near-miss inside a container
		return []byte("[" + g.ws() + g.pick(nearMissNumbers) + g.ws() + "]")
	case x < 94:
		xs := []string{"", " ", "\n", "[", "]", "{", "}", "[,]", "[1,]", "[,1]", "{,}", "{\"a\"}", "{\"a\":}", "{\"a\":1,}", "{a:1}", "{1:1}", "{\"a\" 1}", "{\"a\"::1}",
			"[1 2]", "[1,,2]", "nul", "null ", "nulll", "NULL", "True", "tru", "truee", "fals", "false0", "[]]", "{}}", "[}", "{]", "[\"a\":1]", "{\"a\":1:2}", "{\"a\":1 \"b\":2}",
			"{null:1}", "{\"a\":1},", "[] []", "1 1", "\"a\" \"b\"", "[\v]", "[\f]", "[\u00a0]", "\ufeff[]", "[1]\x00", "'a'", "{'a':1}", "[1]//x", "/**/[]", "[-]", "[.1]", "[1.]",
			"{\"\":\"\"}", "{\"\":{\"\":{}}}", "[[],[[]],{}]", " [ ] ", "\t{\r\n}\n", "[\"\\u2028\"]", "\"\\ud83d\\ude00\"", "-0", "[-0, 0.0, 1e0]"}
		return []byte(g.pick(xs))
	case x < 96:
		return g.mutate([]byte(g.pick([]string{"true", "false", "null", " null ", "[true,false,null]"})))
	case x < 98:
		return g.strBodyRaw(6) // random junk
	default:
		if g.p(50) {
			return g.deep()
		}
		return g.long()
	}
}

func (g *G) run(count int) {
	for i := 0; i < count; i++ {
		switch x := g.n(100); {
		case x < 17:
			oValid(g.anyDoc())
		case x < 32:
			oParse1(g.anyDoc())
		case x < 42:
			oCompact(g.anyDoc())
		case x < 45:
			oTrim(g.anyDoc())
		case x < 49:
			oUnmRaw(g.anyDoc())
		case x < 61: // string literals
			switch y := g.n(100); {
			case y < 70:
				oDstr(g.strLit())
			case y < 85:
				oDstr(g.badStrLit())
			case y < 90:
				oDstr(g.mutate(g.strLit()))
			case y < 95:
				oDstr(g.anyDoc())
			case y < 98:
				oDstr([]byte(g.ws() + string(g.strLit()) + g.ws()))
			default:
				oDstr(g.long())
			}
		case x < 69:
			if g.p(2) {
				oEstr(g.long())
			} else {
				oEstr(g.strBodyRaw(8))
			}
		case x < 75: // unmarshal into any
			switch y := g.n(100); {
			case y < 50:
				oAny(g.anyDoc())
			case y < 55:
				oAny([]byte("[" + g.longBorderNumber() + "]"))
			case y < 70:
				oAny([]byte(g.ws() + g.borderNumber() + g.ws()))
			case y < 85:
				oAny([]byte("{\"a\":[1," + g.ws() + g.borderNumber() + g.ws() + "],\"1e999\":\"1e999\"}"))
			default:
				oAny([]byte("[" + g.number() + "," + g.number() + ",{\"k\":" + g.number() + "}]"))
			}
		case x < 79:
			if g.p(15) {
				oNumOk([]byte(g.longBorderNumber()))
			} else if g.p(60) {
				oNumOk([]byte(g.borderNumber()))
			} else {
				oNumOk([]byte(g.number()))
			}
		case x < 85:
			k, name := g.keyFor()
			if g.p(8) {
				oFold(g.badStrLit(), name)
			} else if g.p(10) {
				oFold(g.strLit(), name)
			} else {
				oFold(g.keyLit(k), name)
			}
		case x < 89:
			if g.p(90) {
				k, name := g.keyFor()
				oFoldEq(k, name)
			} else {
				oFoldEq(g.strBodyRaw(3), g.pick(fieldNames))
			}
		case x < 94:
			if g.p(1) {
				oStrip(g.long())
			} else {
				oStrip(g.strBodyRaw(10))
			}
		default:
			var b []byte
			b = append(b, g.spaces(g.n(4))...)
			if g.p(30) {
				b = append(b, g.pick(almostSpace)...)
			}
			if g.p(80) {
				b = append(b, g.strBodyRaw(4)...)
			}
			if g.p(30) {
				b = append(b, g.pick(almostSpace)...)
			}
			b = append(b, g.spaces(g.n(4))...)
			if g.p(10) {
				b = g.mutate(b)
			}
			oTspace(b)
		}
	}
}

// ---------------------------------------------------------------- exhaustive families

func words(alphabet []byte, n int, f func([]byte)) {
	buf := make([]byte, n)
	var rec func(i int)
	rec = func(i int) {
		if i == n {
			f(append([]byte(nil), buf...))
			return
		}
		for _, c := range alphabet {
			buf[i] = c
			rec(i + 1)
		}
	}
	rec(0)
}

func exhaustive() {
	// Unicode assumption of the model: the only non-ASCII runes folding to ASCII are U+017F and U+212A,
	// and unicode.IsSpace is the listed set.
	for r := rune(0x80); r <= unicode.MaxRune; r++ {
		if fr := foldRune(r); fr < 0x80 && r != 0x17F && r != 0x212A {
			panic(fmt.Sprintf("rune %U folds to ASCII %q", r, fr))
		}
	}
	if foldRune(0x17F) != 'S' || foldRune(0x212A) != 'K' {
		panic("fold orbit")
	}
	// all inputs of length 0, 1, 2
	oValid(nil)
	oCompact(nil)
	oParse1(nil)
	oDstr(nil)
	oAny(nil)
	oTrim(nil)
	oUnmRaw(nil)
	oEstr(nil)
	oStrip(nil)
	oTspace(nil)
	oFoldEq(nil, "min")
	all := make([]byte, 256)
	for i := range all {
		all[i] = byte(i)
	}
	words(all, 1, func(w []byte) {
		oValid(w)
		oCompact(w)
		oParse1(w)
		oDstr(w)
		oEstr(w)
		oStrip(w)
		oTspace(w)
		oTrim(w)
	})
	words(all, 2, func(w []byte) { oValid(w) })
	words(all, 2, func(w []byte) { oTspace(w) })
	a24 := []byte("[]{}\",: \t01-.eE+\\tnulraf")
	words(a24, 3, func(w []byte) { oValid(w); oCompact(w); oParse1(w) })
	a14 := []byte("[]{}\",: 01-.e\\")
	words(a14, 4, func(w []byte) { oValid(w); oCompact(w) })
	a9 := []byte("[]{}\",:1 ")
	words(a9, 5, func(w []byte) { oValid(w); oParse1(w) })
	// three bytes between quotes: every UTF-8 lead/continuation class
	cls := []byte{0x00, 0x1f, 0x20, 0x22, 0x41, 0x5c, 0x7f, 0x80, 0x84, 0x85, 0x8f, 0x90, 0x9f, 0xa0, 0xa8, 0xa9, 0xaa, 0xbf, 0xc0, 0xc1, 0xc2, 0xc5, 0xdf,
		0xe0, 0xe1, 0xe2, 0xe3, 0xec, 0xed, 0xee, 0xef, 0xf0, 0xf1, 0xf3, 0xf4, 0xf5, 0xff}
	words(cls, 3, func(w []byte) {
		lit := append(append([]byte{'"'}, w...), '"')
		oDstr(lit)
		oEstr(w)
		oStrip(w)
	})
	words(cls, 3, func(w []byte) { oTspace(w); oCompact(append(append([]byte{'"'}, w...), '"')) })
	// 4-byte sequences with lead F0..F4 and interesting continuations
	c4 := []byte{0x7f, 0x80, 0x8f, 0x90, 0xbf, 0xc0}
	for _, l := range []byte{0xf0, 0xf1, 0xf4, 0xf5} {
		words(c4, 3, func(w []byte) {
			s := append([]byte{l}, w...)
			oEstr(s)
			oDstr(append(append([]byte{'"'}, s...), '"'))
			oStrip(s)
		})
	}
	// every \uXXXX
	for v := 0; v < 0x10000; v++ {
		oDstr([]byte(fmt.Sprintf("\"\\u%04x\"", v)))
	}
	// surrogate boundary grid
	edge := []int{0x0041, 0xD7FF, 0xD800, 0xD801, 0xDBFF, 0xDC00, 0xDC01, 0xDFFF, 0xE000, 0xFFFF}
	for _, h := range edge {
		for _, l := range edge {
			oDstr([]byte(fmt.Sprintf("\"\\u%04X\\u%04x\"", h, l)))
			oDstr([]byte(fmt.Sprintf("\"\\u%04X\\u%04x\\u%04x\"", h, h, l)))
			oDstr([]byte(fmt.Sprintf("\"\\u%04X-\\u%04x\"", h, l)))
		}
	}
	// every rune, in chunks
	const chunk = 2048
	for base := rune(0); base <= unicode.MaxRune; base += chunk {
		var raw, lit []byte
		lit = append(lit, '"')
		for r := base; r < base+chunk && r <= unicode.MaxRune; r++ {
			if r >= 0xD800 && r <= 0xDFFF {
				continue
			}
			raw = utf8.AppendRune(raw, r)
			if r >= 0x20 && r != '"' && r != '\\' {
				lit = utf8.AppendRune(lit, r)
			}
		}
		lit = append(lit, '"')
		oEstr(raw)
		oStrip(raw)
		oDstr(lit)
		oCompact(lit)
		oValid(lit)
	}
	// every rune below U+3100 individually for the space / fold functions
	for r := rune(0); r < 0x3100; r++ {
		s := string(r)
		oTspace([]byte(s + "x" + s))
		oTspace([]byte(s + s))
		oStrip([]byte("a" + s + "b"))
		oFoldEq([]byte("di"+s+"tance"), "distance")
		oFoldEq([]byte(s+"ax"), "max")
		oFoldEq([]byte("po"+s+"er"), "power")
		oFoldEq([]byte(s+"ind"), "kind")
		oFoldEq([]byte("in"+s+"lusive"), "inclusive")
	}
	for _, n := range fieldNames {
		oFoldEq([]byte(n), n)
		oFoldEq([]byte(strings.ToUpper(n)), n)
		oFoldEq([]byte(strings.ReplaceAll(n, "s", "\u017f")), n)
		oFoldEq([]byte(strings.ReplaceAll(n, "k", "\u212a")), n)
		for _, m := range fieldNames {
			oFoldEq([]byte(m), n)
		}
	}
	// all special numbers, bare and nested
	for _, s := range specialNumbers {
		oNumOk([]byte(s))
		oAny([]byte(s))
		oValid([]byte(s))
		oAny([]byte("{\"x\":[" + s + "]}"))
		oParse1([]byte(" " + s + "\n"))
	}
	for _, s := range nearMissNumbers {
		oValid([]byte(s))
		oValid([]byte("[" + s + "]"))
		oCompact([]byte("{\"a\":" + s + "}"))
		oAny([]byte(s))
	}
	// number-looking text inside strings, escaped quotes and backslashes before numbers
	for _, d := range []string{`["\"1e999\""]`, `["\\",1e999]`, `["a\\\"",1e999,"1e999"]`, `{"1e999":1}`, `{"1e999":1e999}`, `["\\\\",-1e999]`,
		`["\u0022",1e999]`, `["\\u0022,1e999"]`, `[1,"\"",2e999]`, `"1e999"`, `[true,1E+999]`, `[false,-0.1e+1000]`, `[null,1e308,1e-999]`} {
		oAny([]byte(d))
		oParse1([]byte(d))
		oCompact([]byte(d))
	}
	// depth limit
	for _, n := range []int{9999, 10000, 10001} {
		for _, d := range [][]byte{
			[]byte(rep("[", n) + rep("]", n)),
			[]byte(rep("[", n) + "0" + rep("]", n)),
			[]byte(rep("{\"a\":", n) + "{}" + rep("}", n)),
			[]byte(rep("[", n)),
			[]byte("[" + rep("[", n-1) + rep("]", n-1) + "," + rep("[", n-1) + rep("]", n-1) + "]"),
		} {
			oValid(d)
			oCompact(d)
			oParse1(d)
			oAny(d)
			oUnmRaw(d)
		}
	}
}

func main() {
	out = bufio.NewWriterSize(os.Stdout, 1<<20)
	defer out.Flush()
	if len(os.Args) >= 2 && os.Args[1] == "exhaustive" {
		exhaustive()
		return
	}
	if len(os.Args) == 4 && os.Args[1] == "gen" {
		seed, err1 := strconv.ParseInt(os.Args[2], 10, 64)
		count, err2 := strconv.Atoi(os.Args[3])
		if err1 == nil && err2 == nil {
			g := &G{r: rand.New(rand.NewSource(seed))}
			g.run(count)
			return
		}
	}
	fmt.Fprintln(os.Stderr, "usage: jsoncheck gen <seed> <count> | jsoncheck exhaustive")
	os.Exit(2)
}
