module jsoncheck

go 1.22
