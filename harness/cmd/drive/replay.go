package main

import (
	"encoding/json"
	"fmt"
	"os"

	"github.com/grindlemire/go-lucene/verifharness/impl"
	"github.com/grindlemire/go-lucene/verifharness/modelproc"
)

// replay re-runs one recorded case against the current working tree and prints implementation and model output.
func replay(modeld, tables, path string) int {
	b, err := os.ReadFile(path)
	if err != nil {
		fmt.Fprintln(os.Stderr, err)
		return 2
	}
	var f Failure
	if err := json.Unmarshal(b, &f); err != nil || f.Case.Kind == "" {
		var wrap struct {
			Failure Failure `json:"failure"`
		}
		if json.Unmarshal(b, &wrap) != nil || wrap.Failure.Case.Kind == "" {
			fmt.Fprintln(os.Stderr, "not a replay file")
			return 2
		}
		f = wrap.Failure
	}
	mp, err := modelproc.Start(modeld, tables)
	if err != nil {
		fmt.Fprintln(os.Stderr, err)
		return 2
	}
	defer mp.Close()
	show := func(s, df string) {
		r := impl.RunQuery(s, df)
		resp, _ := mp.Ask("q\t" + impl.Hex(s) + "\t" + impl.Hex(df))
		m := splitModelQ(resp)
		fmt.Printf("input %q default-field %q\n", s, df)
		for _, k := range []string{"P", "S", "G", "PG", "PP"} {
			fmt.Printf("  %-3s impl  %s\n      model %s\n", k, implMapQ(r)[k], m[k])
		}
		fmt.Printf("  differing fields: %v\n", diffQ(r, m))
	}
	fmt.Printf("recorded: class=%s clause=%s generator=%s\n", f.Class, f.Clause, f.Case.Gen)
	show(f.Case.S, f.Case.DF)
	if f.Case.Kind == "pair" {
		show(f.Case.S2, f.Case.DF2)
	}
	return 0
}
