package main

import (
	"encoding/json"
	"fmt"
	"os"
	"sort"
	"strings"

	"github.com/grindlemire/go-lucene/verifharness/modelproc"
)

// replay re-runs one recorded case against the current working tree and prints implementation and model output.
func replay(modeld, tables, path string) int {
	b, err := os.ReadFile(path)
	if err != nil {
		fmt.Fprintln(os.Stderr, err)
		return 2
	}
	var f Failure
	if err := json.Unmarshal(b, &f); err != nil || f.Case.Kind == "" {
		var wrap struct {
			Failure Failure `json:"failure"`
		}
		if json.Unmarshal(b, &wrap) != nil || wrap.Failure.Case.Kind == "" {
			fmt.Fprintln(os.Stderr, "not a replay file with a recorded case (it names a broken obligation only)")
			fmt.Println(string(b))
			return 0
		}
		f = wrap.Failure
	}
	mp, err := modelproc.Start(modeld, tables)
	if err != nil {
		fmt.Fprintln(os.Stderr, err)
		return 2
	}
	defer mp.Close()
	fmt.Printf("recorded: class=%s clause=%s generator=%s kind=%s\n", f.Class, f.Clause, f.Case.Gen, f.Case.Kind)
	fmt.Printf("input %q default-field %q second %q rel %q\n", f.Case.S, f.Case.DF, f.Case.S2, f.Case.Rel)
	c := f.Case
	ps := probesOf(&c)
	for i, p := range ps {
		resp, _ := mp.Ask(p.Req)
		fs := strings.Split(resp, "\t")
		p.Model = map[string]string{}
		for fi, name := range fieldNames[p.Op] {
			if fi < len(fs) {
				p.Model[name] = fs[fi]
			}
		}
		fmt.Printf("probe %d (%s)\n", i+1, p.Op)
		names := append([]string{}, fieldNames[p.Op]...)
		sort.Strings(names)
		for _, n := range names {
			mark := " "
			if !fieldAgrees(n, p) {
				mark = "*"
			}
			fmt.Printf(" %s %-3s impl  %s\n       model %s\n", mark, n, p.Impl[n], p.Model[n])
		}
	}
	for id, prop := range properties {
		if fails := prop.Spec(&c, ps); len(fails) > 0 {
			fmt.Printf("spec of %s fails: %v\n", id, fails)
		}
	}
	return 0
}
