package main

import (
	"fmt"
	"strconv"
	"strings"
	"unicode"
	"unicode/utf8"

	"github.com/grindlemire/go-lucene/pkg/lucene/expr"
	"github.com/grindlemire/go-lucene/verifharness/gen"
	"github.com/grindlemire/go-lucene/verifharness/impl"
	"github.com/grindlemire/go-lucene/verifharness/oracle"
)

// Property describes how one property is exercised: which result fields tie it to the model, which
// generators feed it and which executable spec clauses are judged on the implementation's own outputs.
type Property struct {
	ID       string
	Fields   map[string]bool // fields of op `q` whose disagreement counts against this property
	Generate func(cfg RunConfig, emit func(Case))
	Spec     func(c *Case, ps []*Probe) []string // failed clauses
}

func fields(names ...string) map[string]bool {
	m := map[string]bool{}
	for _, n := range names {
		m[n] = true
	}
	return m
}

func noSpec(c *Case, ps []*Probe) []string { return nil }

// tiered picks a size by tier.
func tiered(cfg RunConfig, quick, thorough int) int {
	if cfg.Tier == "thorough" {
		return thorough
	}
	return quick
}

// genTokenSeqs is generator G1: every sequence over the 26-symbol alphabet up to maxLen, with the given default fields.
func genTokenSeqs(maxLen int, dfs []string, emit func(Case)) {
	for n := 1; n <= maxLen; n++ {
		total := gen.Pow(n)
		for i := 0; i < total; i++ {
			s := gen.TokenSeq(i, n)
			for _, df := range dfs {
				emit(Case{Gen: "G1-tokenseq", Kind: "q", S: s, DF: df, Idx: i})
			}
		}
	}
}

// genSampledSeqs samples longer sequences of G1's alphabet.
func genSampledSeqs(rng *gen.Rng, count, minLen, maxLen int, dfs []string, emit func(Case)) {
	for i := 0; i < count; i++ {
		n := minLen + rng.Intn(maxLen-minLen+1)
		parts := make([]string, n)
		for k := range parts {
			parts[k] = gen.Pick(rng, gen.Alphabet)
		}
		emit(Case{Gen: "G1-sampled", Kind: "q", S: strings.Join(parts, " "), DF: gen.Pick(rng, dfs), Idx: i})
	}
}

// specC01: the clauses of C01 judged on the implementation alone: no panic anywhere, no formatting-error marker.
func specC01(c *Case, ps []*Probe) []string {
	var out []string
	for _, p := range ps {
		for name, f := range p.Impl {
			if f == "panic" {
				out = append(out, "field "+name+" of op "+p.Op+": the call panicked")
			}
		}
		if p.Op == "q" {
			if garbledHex(p.Impl["S"], c.S, c.DF) {
				out = append(out, "String() contains a formatting-error marker")
			}
			if garbledHex(p.Impl["G"], c.S, c.DF) {
				out = append(out, "%#v output contains a formatting-error marker")
			}
			if p.Impl["J"] == "err" {
				out = append(out, "JSON encoding of a parse result failed")
			}
		}
	}
	return out
}

func garbledHex(field string, inputs ...string) bool {
	if !strings.HasPrefix(field, "ok:") {
		return false
	}
	raw, err := hexDecode(field[3:])
	if err != nil {
		return false
	}
	return garbled(raw, inputs...)
}

func specC10(c *Case, ps []*Probe) []string {
	var out []string
	for _, p := range ps {
		if p.Q != nil && !p.Q.AllOrNothing {
			out = append(out, p.Q.AONDetail)
		}
		if p.Op == "spec" && p.Model["OK"] != "1" {
			out = append(out, "accepted tree is not well-formed: "+strings.TrimPrefix(p.Model["OK"], "0:"))
		}
	}
	return out
}

// asKind re-labels the cases of a generator (e.g. q → qwf to add the shape probe).
func asKind(kind string, emit func(Case)) func(Case) {
	return func(c Case) {
		if c.Kind == "q" || c.Kind == "tree" {
			c.Kind = kind
		}
		emit(c)
	}
}

// specPair: the two queries of a pair must have the same parse result (identical tree, or both rejected).
func specPair(c *Case, ps []*Probe) []string {
	if c.Kind != "pair" || len(ps) != 2 {
		return nil
	}
	a, b := ps[0].Impl["P"], ps[1].Impl["P"]
	switch c.Rel {
	case "same":
		if a != b {
			return []string{"the two spellings parse differently"}
		}
	case "sameifok":
		if strings.HasPrefix(a, "ok:") && a != b {
			return []string{"the variant of an accepted query parses differently"}
		}
	}
	return nil
}

// specTree: the parse result must be the tree the public constructors build for the syntax tree (C05).
func specTree(c *Case, ps []*Probe) []string {
	if c.Kind != "tree" || c.Want == "" {
		return nil
	}
	if ps[0].Impl["P"] != c.Want {
		return []string{"parsing the printed tree does not give back the tree built through the public constructors"}
	}
	return nil
}

func both(fs ...func(c *Case, ps []*Probe) []string) func(c *Case, ps []*Probe) []string {
	return func(c *Case, ps []*Probe) []string {
		var out []string
		for _, f := range fs {
			out = append(out, f(c, ps)...)
		}
		return out
	}
}

// genTrees is generator G2: syntax trees over the whole printed grammar, printed with minimal parentheses
// (variant 0), with redundant parentheses (1), with whitespace variants (2, 3), each with its oracle tree.
func genTrees(rng *gen.Rng, count, depth int, emit func(Case)) {
	for i := 0; i < count; i++ {
		t := gen.RandomTreeTop(rng, 1+rng.Intn(depth)).StripJux()
		want := "ok:" + impl.CanonExpr(oracle.Build(t))
		variant := t
		mode := 0
		switch rng.Intn(4) {
		case 1:
			variant = t.AddParens(rng, 30)
			if rng.Chance(1, 3) {
				variant = &gen.Ft{K: "paren", E: variant}
			}
		case 2:
			mode = 1
		case 3:
			mode = 2
		}
		emit(Case{Gen: "G2-tree", Kind: "tree", S: gen.Spell(rng, variant.Print(), mode), Want: want, Idx: i})
	}
}

// genJuxPairs: trees printed with a random subset of eligible ANDs as juxtaposition vs the same tree with AND written (C07).
func genJuxPairs(rng *gen.Rng, count, depth int, emit func(Case)) {
	n := 0
	for i := 0; n < count && i < count*20; i++ {
		t := gen.RandomTreeTop(rng, 1+rng.Intn(depth))
		if !t.HasJux() {
			continue
		}
		n++
		df := ""
		if rng.Chance(1, 3) {
			df = gen.Pick(rng, gen.DefaultFields)
		}
		mode := rng.Intn(3)
		emit(Case{Gen: "G2-jux", Kind: "pair", Rel: "same", S: gen.Spell(rng, t.Print(), mode), DF: df,
			S2: gen.Spell(rng, t.StripJux().Print(), mode), DF2: df, Idx: i})
	}
}

func isTermSym(s string) bool {
	switch s {
	case "a", "b", "5", `"q r"`, "/re/", "w*", "1.5", "*":
		return true
	}
	return false
}

// genSeqJuxPairs: token sequences with at least one adjacent term pair, and the twin with AND written in one such gap.
func genSeqJuxPairs(rng *gen.Rng, maxLen int, sample int, dfs []string, emit func(Case)) {
	idx := 0
	handle := func(parts []string) {
		var gaps []int
		for k := 0; k+1 < len(parts); k++ {
			if isTermSym(parts[k]) && isTermSym(parts[k+1]) {
				gaps = append(gaps, k)
			}
		}
		if len(gaps) == 0 {
			return
		}
		g := gaps[rng.Intn(len(gaps))]
		twin := append(append(append([]string{}, parts[:g+1]...), "AND"), parts[g+1:]...)
		df := dfs[rng.Intn(len(dfs))]
		emit(Case{Gen: "G1-juxpair", Kind: "pair", Rel: "same", S: strings.Join(parts, " "), DF: df, S2: strings.Join(twin, " "), DF2: df, Idx: idx})
		idx++
	}
	for n := 2; n <= maxLen; n++ {
		for i := 0; i < gen.Pow(n); i++ {
			handle(gen.TokenParts(i, n))
		}
	}
	for i := 0; i < sample; i++ {
		n := maxLen + 1 + rng.Intn(5)
		parts := make([]string, n)
		for k := range parts {
			parts[k] = gen.Pick(rng, gen.Alphabet)
		}
		handle(parts)
	}
}

func alphaPTok(s string) gen.PTok {
	if isTermSym(s) {
		return gen.PTok{Text: s, Term: true}
	}
	switch s {
	case "NOT", "AND", "OR", "TO", "-":
		return gen.PTok{Text: s}
	}
	return gen.PTok{Text: s, Sym: true}
}

// genLayoutPairs (C09): a token sequence spelled with single spaces vs another whitespace filling / keyword case;
// a tree vs the same tree with redundant parentheses.
func genLayoutPairs(rng *gen.Rng, seqLen, seqSample, trees int, emit func(Case)) {
	idx := 0
	seq := func(parts []string) {
		toks := make([]gen.PTok, len(parts))
		for i, p := range parts {
			toks[i] = alphaPTok(p)
		}
		base := gen.Spell(rng, toks, 0)
		df := ""
		if rng.Chance(1, 4) {
			df = "df"
		}
		var variant string
		switch rng.Intn(3) {
		case 0:
			variant = gen.Spell(rng, toks, 1)
		case 1:
			variant = gen.Spell(rng, toks, 2)
		default:
			variant = gen.Spell(rng, gen.RecaseKeywords(rng, toks), rng.Intn(2))
		}
		emit(Case{Gen: "G1-layout", Kind: "pair", Rel: "same", S: base, DF: df, S2: variant, DF2: df, Idx: idx})
		idx++
	}
	for n := 1; n <= seqLen; n++ {
		for i := 0; i < gen.Pow(n); i++ {
			seq(gen.TokenParts(i, n))
			if n <= 2 {
				// short sequences: every kind of variant, several keyword spellings
				for k := 0; k < 6; k++ {
					seq(gen.TokenParts(i, n))
				}
			}
		}
	}
	for i := 0; i < seqSample; i++ {
		n := seqLen + 1 + rng.Intn(6)
		parts := make([]string, n)
		for k := range parts {
			parts[k] = gen.Pick(rng, gen.Alphabet)
		}
		seq(parts)
	}
	// MANY redundant pairs around one operand (a counter of open parentheses that wraps, a recursion limit): the whole
	// query, the operand of NOT, a field's value, one operand of AND / OR — at depths around 2^7, 2^8, 2^10
	for _, d := range []int{40, 64, 127, 128, 129, 255, 256, 257, 300, 1000, 1024} {
		op, cl := strings.Repeat("(", d), strings.Repeat(")", d)
		for _, pr := range [][2]string{
			{"a:b AND NOT c", op + "a:b AND NOT c" + cl},
			{"NOT a:b", "NOT " + op + "a:b" + cl},
			{"a:b", "a:" + op + "b" + cl},
			{"a:b OR c:d", op + "a:b" + cl + " OR c:d"},
			{"a:b AND c:d", "a:b AND " + op + "c:d" + cl},
			{"f:[1 TO 5]^2", op + "f:[1 TO 5]" + cl + "^2"},
		} {
			emit(Case{Gen: "G6-deepparens", Kind: "pair", Rel: "sameifok", S: pr[0], S2: pr[1], Idx: d})
		}
	}
	for i := 0; i < trees; i++ {
		t := gen.RandomTreeTop(rng, 1+rng.Intn(3))
		df := ""
		if rng.Chance(1, 4) {
			df = "df"
		}
		base := gen.Spell(rng, t.Print(), 0)
		switch rng.Intn(3) {
		case 0:
			v := t.AddParens(rng, 35)
			if rng.Chance(1, 3) {
				v = &gen.Ft{K: "paren", E: v}
			}
			emit(Case{Gen: "G2-parens", Kind: "pair", Rel: "sameifok", S: base, DF: df, S2: gen.Spell(rng, v.Print(), rng.Intn(3)), DF2: df, Idx: i})
		case 1:
			emit(Case{Gen: "G2-layout", Kind: "pair", Rel: "same", S: base, DF: df, S2: gen.Spell(rng, t.Print(), 1+rng.Intn(2)), DF2: df, Idx: i})
		default:
			emit(Case{Gen: "G2-kwcase", Kind: "pair", Rel: "same", S: base, DF: df, S2: gen.Spell(rng, gen.RecaseKeywords(rng, t.Print()), rng.Intn(3)), DF2: df, Idx: i})
		}
	}
}

// specC14: customising one driver instance must not change any other instance, the package-level driver or driver.Shared.
func specC14(c *Case, ps []*Probe) []string {
	if c.Kind == "isolation" && len(ps) > 0 && ps[0].Lex != nil {
		return ps[0].Lex.Fails
	}
	return nil
}

// specC15: the clauses of C15 judged on the implementation with tracing maps, against the obvious catamorphism.
func specC15(c *Case, ps []*Probe) []string {
	if c.Kind == "isolation" && len(ps) > 0 && ps[0].Lex != nil {
		return ps[0].Lex.Fails
	}
	if c.Kind != "render" || len(ps) < 2 {
		return nil
	}
	e := ps[0].Expr
	r := ps[1].Impl["R"]
	rp := ps[1].Impl["RP"]
	var out []string
	if c.Aux == "q+fz" && strings.HasPrefix(ps[0].Impl["P"], "ok:") {
		if strings.HasPrefix(ps[0].Impl["PG"], "ok:") {
			out = append(out, "ToPostgres succeeded on a query that contains a fuzzy or boost operator")
		}
		if strings.HasPrefix(ps[0].Impl["PP"], "ok:") {
			out = append(out, "ToParameterizedPostgres succeeded on a query that contains a fuzzy or boost operator")
		}
	}
	parts := strings.Split(c.Rel, ":")
	// with maps made of tracing functions only, nothing but Base itself can panic (the built-in functions are partial
	// on trees that do not validate: that is C13's subject, not C15's)
	if r == "panic" && !ps[1].Loose && (parts[0] == "trace" || parts[0] == "trace-minus" || parts[0] == "fail") {
		out = append(out, "Render panicked although every registered function is total")
	}
	arg := -1
	if len(parts) == 2 {
		arg, _ = strconv.Atoi(parts[1])
	}
	calls := 0
	fold, foldOK := oracle.FoldTrace(e, &calls)
	has := arg >= 0 && oracle.HasOp(e, expr.Operator(arg))
	switch parts[0] {
	case "trace":
		if foldOK && r != "ok:"+impl.Hex(fold) {
			out = append(out, "Render with tracing functions is not the fold of the tree (children first, left then right, parentheses by the fixed rule, every node once)")
		}
		if !foldOK && r != "err" {
			out = append(out, "Render returned a result for a tree with an unrenderable column name")
		}
	case "trace-minus":
		if has && strings.HasPrefix(r, "ok:") {
			out = append(out, "an operator without a registered function did not make Render fail")
		}
		if !has && foldOK && r != "ok:"+impl.Hex(fold) {
			out = append(out, "removing the function of an operator that does not occur changed the output")
		}
	case "fail":
		if has && strings.HasPrefix(r, "ok:") {
			out = append(out, "a failing render function did not make Render fail")
		}
	case "empty", "nil":
		if strings.HasPrefix(r, "ok:") || strings.HasPrefix(rp, "ok:") {
			out = append(out, "Render / RenderParam succeeded although the driver registers no function at all")
		}
	case "only":
		if e != nil && e.Op != expr.Operator(arg) && strings.HasPrefix(r, "ok:") {
			out = append(out, "an operator without a registered function did not make Render fail (single-entry map)")
		}
	case "override", "override-inplace":
		if !has && len(ps) >= 3 && r != ps[2].Impl["R"] {
			out = append(out, "overriding the function of an operator that does not occur changed the output")
		}
		if parts[0] == "override-inplace" && len(ps) >= 4 && (r != ps[3].Impl["R"] || rp != ps[3].Impl["RP"]) {
			out = append(out, "overriding one operator's function in the driver's own table renders differently from the same override in a copy of the table (the change is not local to that operator's nodes)")
		}
	case "instance-delete":
		// the function of one operator deleted from the table of the driver one holds, rendered through that driver: must
		// equal the same deletion made in a COPY of the table (rendered through a plain Base)
		if len(ps) >= 3 && (r != ps[2].Impl["R"] || rp != ps[2].Impl["RP"]) {
			out = append(out, "deleting one operator's function from the driver's own table renders differently from the same deletion in a copy of the table (the driver does not consult its RenderFNs at render time)")
		}
	case "pg":
		if oracle.HasOp(e, expr.Fuzzy) || oracle.HasOp(e, expr.Boost) {
			if strings.HasPrefix(r, "ok:") {
				out = append(out, "Render succeeded on a tree containing a fuzzy or boost operator")
			}
			if strings.HasPrefix(rp, "ok:") && c.Aux != "json" {
				out = append(out, "RenderParam succeeded on a query containing a fuzzy or boost operator")
			}
		}
	}
	return out
}

// genRenderCases (C15): trees from parsed queries (G2) and from decoded JSON documents, each with a described map.
func genRenderCases(rng *gen.Rng, count int, emit func(Case)) {
	for i := 0; i < count; i++ {
		var desc string
		op := rng.Intn(20)
		switch rng.Intn(10) {
		case 0, 1, 2:
			desc = "trace"
		case 8:
			desc = gen.Pick(rng, []string{"empty", "nil"})
		case 9:
			desc = "only:" + strconv.Itoa(op)
		case 3:
			desc = "trace-minus:" + strconv.Itoa(op)
		case 4:
			desc = "fail:" + strconv.Itoa(op)
		case 5:
			desc = gen.Pick(rng, []string{"override:", "override-inplace:", "override-inplace:", "instance-delete:"}) + strconv.Itoa(op)
		case 6:
			desc = "pg"
		default:
			desc = "shared"
		}
		if rng.Chance(1, 3) {
			// trees that only the JSON decoder (or the constructors) can build: pattern items in lists, odd shapes
			emit(Case{Gen: "G5-render", Kind: "render", S: gen.JSONExpr(rng, 1+rng.Intn(3), rng.Chance(3, 4)), Rel: desc, Aux: "json", Idx: i})
			continue
		}
		if rng.Chance(1, 5) {
			// trees built by direct constructor calls on arbitrary argument values
			emit(Case{Gen: "G7-render", Kind: "render", S: gen.MkCall(rng), Rel: desc, Aux: "mk", Idx: i})
			continue
		}
		t := gen.RandomTreeTop(rng, 1+rng.Intn(4))
		df := ""
		if rng.Chance(1, 4) {
			df = gen.Pick(rng, gen.DefaultFields)
		}
		aux := "q"
		if t.HasFuzzyBoost() {
			aux = "q+fz" // the QUERY contains a fuzzy or boost operator, whatever the parser makes of it
		}
		emit(Case{Gen: "G2-render", Kind: "render", S: gen.Spell(rng, t.Print(), 0), DF: df, Rel: desc, Aux: aux, Idx: i})
	}
}

// specC13: decoding never panics; a decoded expression that passes Validate can be printed, encoded and rendered.
func specC13(c *Case, ps []*Probe) []string {
	var out []string
	for _, p := range ps {
		if p.Op != "uj" {
			continue
		}
		if p.Impl["U"] == "panic" {
			out = append(out, "json.Unmarshal into an Expression panicked")
		}
		if p.Impl["V"] == "panic" {
			out = append(out, "Validate panicked on a decoded expression")
		}
		if p.Impl["V"] == "1" {
			for _, f := range []string{"S", "G", "J", "R", "RP"} {
				if p.Impl[f] == "panic" {
					out = append(out, "a decoded expression passed Validate and then "+map[string]string{"S": "String()", "G": "%#v formatting", "J": "JSON re-encoding", "R": "Render", "RP": "RenderParam"}[f]+" panicked")
				}
			}
		}
	}
	return out
}

func looksRegexp(s string) bool { return len(s) > 0 && s[0] == '/' && s[len(s)-1] == '/' }

// kindStable: every leaf has the kind the decoder infers from its text (DESIGN F-h).
func kindStable(in any) bool {
	switch v := in.(type) {
	case *expr.Expression:
		if v == nil {
			return true
		}
		switch v.Op {
		case expr.Literal, expr.Wild, expr.Regexp:
			switch x := v.Left.(type) {
			case string:
				want := expr.Literal
				if looksRegexp(x) {
					want = expr.Regexp
				} else if strings.ContainsAny(x, "*?") {
					want = expr.Wild
				}
				return v.Op == want
			case float64:
				return x != float64(int(x))
			}
			return true
		}
		return kindStable(v.Left) && kindStable(v.Right)
	case []*expr.Expression:
		for _, x := range v {
			if !kindStable(x) {
				return false
			}
		}
	case *expr.RangeBoundary:
		return kindStable(v.Min) && kindStable(v.Max)
	}
	return true
}

func sqlOf(f string) string {
	if i := strings.Index(f, "|"); i >= 0 {
		return f[:i]
	}
	return f
}

// specC12: the JSON encoding of a parse result round-trips.
func specC12(c *Case, ps []*Probe) []string {
	if c.Kind == "mkrt" {
		if len(ps) < 3 || ps[0].Op != "q" {
			return nil // the constructor-built tree is not a parse result: outside C12's quantifier
		}
		if printed, err := hexDecode(strings.TrimPrefix(ps[0].Impl["S"], "ok:")); err != nil || !utf8.ValidString(printed) {
			return nil
		}
	} else if c.Kind != "rt" || !utf8.ValidString(c.S) || !utf8.ValidString(c.DF) {
		return nil
	}
	q := ps[0]
	if !strings.HasPrefix(q.Impl["P"], "ok:") {
		return nil
	}
	var out []string
	if !strings.HasPrefix(q.Impl["J"], "ok:") {
		return []string{"JSON encoding of a parse result failed: " + q.Impl["J"]}
	}
	if len(ps) < 2 {
		return out
	}
	u := ps[1]
	if !strings.HasPrefix(u.Impl["U"], "ok:") {
		return []string{"decoding the JSON encoding of a parse result failed: " + u.Impl["U"]}
	}
	if u.UJ != nil && u.UJ.Reuse != "" {
		out = append(out, "decoding the same bytes into a previously used destination gives a different expression")
	}
	if u.Impl["V"] != "1" {
		out = append(out, "the decoded expression does not validate")
	}
	if u.Impl["J"] != q.Impl["J"] {
		out = append(out, "the decoded expression re-encodes to different bytes")
	}
	if u.Impl["S"] != q.Impl["S"] {
		out = append(out, "the decoded expression prints differently")
	}
	if u.Impl["R"] != q.Impl["PG"] {
		out = append(out, "the decoded expression renders different inline SQL")
	}
	if sqlOf(u.Impl["RP"]) != sqlOf(q.Impl["PP"]) {
		out = append(out, "the decoded expression renders different parameterized SQL")
	}
	if q.Expr != nil && kindStable(q.Expr) && u.Impl["U"] != q.Impl["P"] {
		out = append(out, "every leaf has the kind the decoder infers from its text, yet the decoded expression is not deep-equal to the original")
	}
	return out
}

// genJSONDocs is generator G5.
func genJSONDocs(rng *gen.Rng, count int, emit func(Case)) {
	for i := 0; i < count; i++ {
		var doc, g string
		switch rng.Intn(10) {
		case 0, 1, 2, 3:
			doc, g = gen.JSONExpr(rng, 1+rng.Intn(4), true), "G5-typed"
		case 4, 5, 6, 7:
			doc, g = gen.JSONExpr(rng, 1+rng.Intn(4), false), "G5-schema-wrong"
		default:
			doc, g = gen.JSONExpr(rng, 1+rng.Intn(3), rng.Chance(1, 2)), "G5-mutated"
			for k := 1 + rng.Intn(3); k > 0; k-- {
				doc = gen.Mutate(rng, doc)
			}
		}
		emit(Case{Gen: g, Kind: "uj", S: doc, Idx: i})
	}
}

// genRoundTrips: queries (trees, token sequences, hostile values) whose encoding is decoded again.
func genRoundTrips(rng *gen.Rng, trees, seqs int, emit func(Case)) {
	for i := 0; i < trees; i++ {
		t := gen.RandomTreeTop(rng, 1+rng.Intn(4))
		df := ""
		if rng.Chance(1, 4) {
			df = gen.Pick(rng, gen.DefaultFields)
		}
		emit(Case{Gen: "G2-roundtrip", Kind: "rt", S: gen.Spell(rng, t.Print(), rng.Intn(3)), DF: df, Idx: i})
	}
	for i := 0; i < seqs; i++ {
		n := 1 + rng.Intn(7)
		parts := make([]string, n)
		for k := range parts {
			if rng.Chance(1, 3) {
				parts[k] = gen.ValueText(rng)
			} else {
				parts[k] = gen.Pick(rng, gen.Alphabet)
			}
		}
		emit(Case{Gen: "G4-roundtrip", Kind: "rt", S: strings.Join(parts, " "), DF: gen.Pick(rng, gen.DefaultFields), Idx: i})
	}
}

// specFromProbes: every spec probe must have answered 1.
func specFromProbes(prefix string) func(c *Case, ps []*Probe) []string {
	return func(c *Case, ps []*Probe) []string {
		var out []string
		for _, p := range ps {
			if p.Op == "spec" && p.Model["OK"] != "1" {
				out = append(out, prefix+strings.TrimPrefix(p.Model["OK"], "0:"))
			}
		}
		return out
	}
}

// specC03: ToPostgres must succeed on the filterable fragment, and the SQL must mean what the query means.
func specC03(c *Case, ps []*Probe) []string {
	if c.Kind == "isolation" && len(ps) > 0 && ps[0].Lex != nil {
		return ps[0].Lex.Fails // customising one driver instance must not change what ToPostgres renders
	}
	if c.Kind != "sem" {
		return nil
	}
	if !strings.HasPrefix(ps[0].Impl["PG"], "ok:") {
		return []string{"ToPostgres does not succeed on a query of the filterable fragment: " + ps[0].Impl["PG"]}
	}
	return specFromProbes("the inline SQL does not select the rows the query means: ")(c, ps)
}

// specC04: whenever ToPostgres succeeds ToParameterizedPostgres succeeds, and the two agree.
func specC04(c *Case, ps []*Probe) []string {
	var out []string
	if c.Kind == "par" {
		if strings.HasPrefix(ps[0].Impl["PG"], "ok:") && !strings.HasPrefix(ps[0].Impl["PP"], "ok:") {
			out = append(out, "ToPostgres succeeds but ToParameterizedPostgres does not: "+ps[0].Impl["PP"])
		}
		out = append(out, specFromProbes("")(c, ps)...)
	}
	if c.Kind == "pair" && c.Rel == "samesql" && len(ps) == 2 {
		a, b := ps[0].Impl["PP"], ps[1].Impl["PP"]
		if strings.HasPrefix(a, "ok:") && strings.HasPrefix(b, "ok:") {
			sa, _ := splitPP(a)
			sb, _ := splitPP(b)
			if sa != sb {
				out = append(out, "replacing values by others of the same kind changed the parameterized SQL text")
			}
		} else if outcomeKind(a) != outcomeKind(b) {
			out = append(out, "replacing values by others of the same kind changed whether the query renders")
		}
	}
	return out
}

// sameKindValues replaces every value leaf of a filter tree by another of the same kind.
func sameKindValues(rng *gen.Rng, t *gen.Ft) *gen.Ft {
	if t == nil {
		return nil
	}
	c := *t
	swap := func(l gen.Leaf) gen.Leaf {
		switch l.Kind {
		case "int":
			return gen.Pick(rng, []gen.Leaf{{Text: "11", Kind: "int", Int: 11}, {Text: "-8", Kind: "int", Int: -8}, {Text: "123456", Kind: "int", Int: 123456}})
		case "float":
			return gen.Pick(rng, []gen.Leaf{{Text: "3.25", Kind: "float", Flt: 3.25}, {Text: "-7.5", Kind: "float", Flt: -7.5}, {Text: "0.001", Kind: "float", Flt: 0.001}})
		case "str":
			if l.Str == "*" {
				return l
			}
			return gen.Pick(rng, []gen.Leaf{{Text: "other", Kind: "str", Str: "other"}, {Text: `"two words"`, Kind: "str", Str: "two words"}, {Text: `"q'q"`, Kind: "str", Str: "q'q"}})
		case "wild":
			if l.Str == "*" {
				return l // an unbounded end / the lone star are structure, not values
			}
			return gen.Pick(rng, []gen.Leaf{{Text: "zz*", Kind: "wild", Str: "zz*"}, {Text: "?x?", Kind: "wild", Str: "?x?"}})
		}
		return l
	}
	switch t.K {
	case "leaf":
		c.Leaf = swap(t.Leaf)
	case "eq", "cmp":
		c.V = swap(t.V)
	case "range":
		c.Lo, c.Hi = swap(t.Lo), swap(t.Hi)
	}
	c.L, c.R, c.E = sameKindValues(rng, t.L), sameKindValues(rng, t.R), sameKindValues(rng, t.E)
	return &c
}

// genFilters: the filterable fragment with meaning trees (C03) / parameter comparison (C04).
func genFilters(rng *gen.Rng, kind string, count int, emit func(Case)) {
	for i := 0; i < count; i++ {
		f := gen.RandomFilter(rng, 1+rng.Intn(3), rng.Chance(1, 4))
		c := Case{Gen: "G2-filter", Kind: kind, S: gen.Spell(rng, f.T.Print(), rng.Intn(3)), Aux: gen.TagString(f.Tags), Idx: i}
		if len(f.Tags) > 0 {
			c.Gen = "G2-filter-odd"
		}
		if kind == "sem" {
			c.Want = impl.CanonExpr(oracle.Meaning(f.T))
		}
		emit(c)
	}
}

func escapeWord(w string) string {
	var sb strings.Builder
	first := true
	for _, r := range w {
		special := !(r == '_' || unicode.IsLetter(r) || unicode.IsDigit(r))
		if first && r == '-' {
			special = true
		}
		if special {
			sb.WriteByte('\\')
		}
		sb.WriteRune(r)
		first = false
	}
	out := sb.String()
	switch strings.ToUpper(w) {
	case "AND", "OR", "NOT", "TO":
		out = "\\" + out
	}
	return out
}

var quoteAlphabet = []string{"\ufffd", "\ufffe", "\u0085", "a", "b", "Z", "0", "7", " ", "  ", "\t", "\n", "*", "?", "/", "\\", "'", "''", ":", "=", "(", ")", "[", "]", "{", "}", "+", "-", "~", "^",
	"AND", "OR", "NOT", "TO", "and", "<", ">", ",", ";", "--", "/*", "*/", "$$", "%", "_", "|", ".", "é", "日本", "😀", "ſ", "\u00a0", "%!s(x)", "E'", "5", "-5", "1.5", "NaN", "null",
	// quotation marks that are not the ASCII ones, currency signs; letters and digits that would complete an escape SEQUENCE of another
	// language after a backslash (\u0041, \x41, \n, \101): here a backslash escapes one character and the rest is ordinary text
	"“", "”", "‘", "’", "«", "»", "„", "＂", "＇", "`", "´", "€", "£", "¥", "$", "@", "#", "u0041", "u00e9", "U0001F600", "x41", "n", "t", "r", "101", "u"}

// genQuoted (C08): texts w without a double quote, written between double quotes as a field's value, as a bare
// query with a default field, and (escaping clause) as a bare word with a backslash before each special character.
func genQuoted(rng *gen.Rng, count int, emit func(Case)) {
	for i := 0; i < count; i++ {
		n := rng.Intn(6)
		var sb strings.Builder
		for k := 0; k < n; k++ {
			sb.WriteString(gen.Pick(rng, quoteAlphabet))
		}
		if rng.Chance(1, 30) {
			sb.WriteString(strings.Repeat(gen.Pick(rng, quoteAlphabet), 200))
		}
		w := sb.String()
		f := gen.Pick(rng, []string{"f", "my_col", "a"})
		if rng.Chance(1, 4) {
			// the quoted text in the other value positions: range bound, value-list item, comparison value
			var sb2 strings.Builder
			for k := rng.Intn(4); k >= 0; k-- {
				sb2.WriteString(gen.Pick(rng, quoteAlphabet))
			}
			w2 := sb2.String()
			switch rng.Intn(3) {
			case 0:
				emit(Case{Gen: "G4-quoted-range", Kind: "quoted", S: f + `:["` + w + `" TO "` + w2 + `"]`, Aux: f, Want: w, S2: w2, Rel: "range", Idx: i})
			case 1:
				emit(Case{Gen: "G4-quoted-list", Kind: "quoted", S: f + `:("` + w + `" OR "` + w2 + `")`, Aux: f, Want: w, S2: w2, Rel: "list", Idx: i})
			default:
				emit(Case{Gen: "G4-quoted-cmp", Kind: "quoted", S: f + `:>="` + w + `"`, Aux: f, Want: w, Rel: "cmp", Idx: i})
			}
			continue
		}
		if rng.Chance(1, 6) {
			// the quoted text, scoped by the default field, as an OPERAND (not the whole query)
			emit(Case{Gen: "G4-quoted-operand", Kind: "quoted", S: gen.Pick(rng, []string{`"` + w + `" AND c:d`, `c:d AND "` + w + `"`, `c:d "` + w + `"`, `"` + w + `" OR c:d`}), DF: f, Aux: f, Want: w, Rel: "operand", Idx: i})
			continue
		}
		switch rng.Intn(4) {
		case 0, 1:
			emit(Case{Gen: "G4-quoted-field", Kind: "quoted", S: f + `:"` + w + `"`, Aux: f, Want: w, Idx: i})
		case 2:
			emit(Case{Gen: "G4-quoted-default", Kind: "quoted", S: `"` + w + `"`, DF: f, Aux: f, Want: w, Idx: i})
		default:
			if w == "" {
				continue
			}
			if _, err := strconv.ParseFloat(w, 64); err == nil {
				continue // looks like a number
			}
			emit(Case{Gen: "G4-escaped", Kind: "quoted", S: f + ":" + escapeWord(w), Aux: f, Want: w, Rel: "escaped", Idx: i})
		}
	}
}

// specC08: the value arrives verbatim in the tree, in PostgreSQL's reading of the inline constant, in the parameters.
func specC08(c *Case, ps []*Probe) []string {
	if c.Kind != "quoted" {
		return nil
	}
	w, f := c.Want, c.Aux
	q := ps[0]
	if c.Rel == "range" || c.Rel == "list" || c.Rel == "cmp" {
		return specC08Positions(c, ps)
	}
	if c.Rel == "operand" {
		// somewhere in the tree: Equals(Column f, Literal w) — a plain string leaf, never a pattern
		t := ParseCanon(q.Impl["P"])
		found := t.any(func(n *CNode) bool {
			return n.Kind == "expr" && n.Op == 3 && n.L != nil && n.L.Kind == "expr" && n.L.leafPrim() == "c:"+hexEncode(f) &&
				n.R != nil && n.R.Kind == "expr" && n.R.Op == 11 && n.R.leafPrim() == "s:"+hexEncode(w)
		})
		if !found {
			return []string{"the value does not arrive in the tree as one plain string equal to the text (operand scoped by the default field)"}
		}
		if utf8.ValidString(w) && !strings.ContainsRune(w, 0) && strings.HasPrefix(q.Impl["PP"], "ok:") {
			if _, params := splitPP(q.Impl["PP"]); !strings.Contains(","+params+",", ",s:"+impl.Hex(w)+",") {
				return []string{"the value does not travel verbatim as a string parameter (operand scoped by the default field)"}
			}
		}
		return nil
	}
	wantTree := fmt.Sprintf("ok:(E 3 (E 11 c:%s nil f:3ff0000000000000 i:1) (E 11 s:%s nil f:3ff0000000000000 i:1) f:3ff0000000000000 i:1)", impl.Hex(f), impl.Hex(w))
	var out []string
	if q.Impl["P"] != wantTree {
		return []string{"the value does not arrive in the tree as one plain string equal to the text"}
	}
	if c.Rel == "escaped" {
		return out
	}
	if !utf8.ValidString(w) || strings.ContainsRune(w, 0) {
		return out
	}
	if !strings.HasPrefix(q.Impl["PG"], "ok:") {
		out = append(out, "ToPostgres fails on a quoted value: "+q.Impl["PG"])
	} else if len(ps) > 1 {
		want := fmt.Sprintf("1:(= (col %s) (str %s))", impl.Hex(f), impl.Hex(w))
		if ps[1].Model["OK"] != want {
			out = append(out, "PostgreSQL does not decode the inline constant back to the text: "+ps[1].Model["OK"])
		}
	}
	wantPP := "ok:" + impl.Hex(`"`+f+`" = ?`) + "|s:" + impl.Hex(w)
	if q.Impl["PP"] != wantPP {
		out = append(out, "the value does not travel verbatim as the one string parameter")
	}
	for _, p := range ps {
		if p.Op == "render" && p.Impl["R"] != q.Impl["PG"] {
			out = append(out, "a driver built from driver.Shared (the documented way to make a custom driver) renders the constant differently from ToPostgres: "+p.Impl["R"])
		}
	}
	return out
}

// specC08Positions: the quoted text as a range bound, a value-list item and a comparison value.
func specC08Positions(c *Case, ps []*Probe) []string {
	w, w2, f := c.Want, c.S2, c.Aux
	q := ps[0]
	t := ParseCanon(q.Impl["P"])
	isStr := func(n *CNode, want string) bool {
		return n != nil && n.Kind == "expr" && n.Op == 11 && n.leafPrim() == "s:"+hexEncode(want) && n.R != nil && n.R.Kind == "nil"
	}
	isCol := func(n *CNode) bool {
		return n != nil && n.Kind == "expr" && n.Op == 11 && n.leafPrim() == "c:"+hexEncode(f)
	}
	treeOK := false
	var wantSQL, wantPP string
	if t != nil && t.Kind == "expr" && isCol(t.L) {
		switch c.Rel {
		case "range":
			treeOK = t.Op == 6 && t.R != nil && t.R.Kind == "bound" && t.R.Incl && isStr(t.R.L, w) && isStr(t.R.R, w2)
			wantSQL = fmt.Sprintf("1:(between (col %s) (str %s) (str %s))", impl.Hex(f), impl.Hex(w), impl.Hex(w2))
			wantPP = "ok:" + impl.Hex(`"`+f+`" BETWEEN ? AND ?`) + "|s:" + impl.Hex(w) + ",s:" + impl.Hex(w2)
		case "list":
			r := t.R
			treeOK = t.Op == 18 && r != nil && r.Kind == "expr" && r.Op == 19 && r.L != nil && r.L.Kind == "list" && len(r.L.Elems) == 2 &&
				isStr(r.L.Elems[0], w) && isStr(r.L.Elems[1], w2)
			wantSQL = fmt.Sprintf("1:(in (col %s) (str %s) (str %s))", impl.Hex(f), impl.Hex(w), impl.Hex(w2))
			wantPP = "ok:" + impl.Hex(`"`+f+`" IN (?, ?)`) + "|s:" + impl.Hex(w) + ",s:" + impl.Hex(w2)
		default:
			treeOK = t.Op == 16 && isStr(t.R, w)
			wantSQL = fmt.Sprintf("1:(>= (col %s) (str %s))", impl.Hex(f), impl.Hex(w))
			wantPP = "ok:" + impl.Hex(`"`+f+`" >= ?`) + "|s:" + impl.Hex(w)
		}
	}
	if !treeOK {
		return []string{"the value does not arrive in the tree as one plain string equal to the text (" + c.Rel + " position)"}
	}
	if !utf8.ValidString(w+w2) || strings.ContainsRune(w+w2, 0) {
		return nil
	}
	var out []string
	if !strings.HasPrefix(q.Impl["PG"], "ok:") {
		out = append(out, "ToPostgres fails on a quoted value ("+c.Rel+" position): "+q.Impl["PG"])
	} else if len(ps) > 1 && ps[1].Model["OK"] != wantSQL {
		out = append(out, "PostgreSQL does not decode the inline constant back to the text ("+c.Rel+" position): "+ps[1].Model["OK"])
	}
	if q.Impl["PP"] != wantPP {
		out = append(out, "the value does not travel verbatim as a string parameter ("+c.Rel+" position)")
	}
	return out
}

// specC11: same acceptance with and without the default field; erasure gives back the plain tree; no bare term remains.
func specC11(c *Case, ps []*Probe) []string {
	if c.Kind != "dfpair" || len(ps) < 2 {
		return nil
	}
	a, b := ps[0].Impl["P"], ps[1].Impl["P"]
	if outcomeKind(a) != outcomeKind(b) {
		return []string{"the default field changes which queries are accepted: with " + outcomeKind(a) + ", without " + outcomeKind(b)}
	}
	return specFromProbes("")(c, ps)
}

var dfNames = []string{"df", "d f", "x'y", "dflt_1", "Ünï", " df", "df ", "\tdf\n", " ", "\t", "\"my col\"", "\"a\"", "'q'", "\"", "\"\"",
	// names containing what some code might take for a separator or an operator (a name is ONE column, verbatim)
	"a,b", "last, first", "tags[0,1]", "a;b", "a|b", "a.b", "a:b", "a/b", "a+b", "a-b", "a AND b", "a OR b", "a*", "a?b", "(a)", "a=b", "a~2", "a^2", "a\\b"}

var embedContexts = []string{"f:(%s)", "f:>(%s)", "f:<=(%s)", "f=(%s)", "f:[(%s) TO 5]", "f:[1 TO (%s)]", "(%s):x", "(%s):x*", "f:((%s):c*)", "f:((%s):(c OR d))",
	"f:((%s):[1 TO 5])", "NOT (%s)", "x AND f:(%s)", "f:(%s)^2", "f:(%s)~", "+(%s)", "f:(x:y AND %s)", "f:(a:[(%s) TO d])", "g:(f:(%s))"}

// genEmbedded: short token sequences (most of them rejected on their own, many for a structural reason) placed inside a
// larger construct — value side of a field, range bound, field position, operand — where a validator that stops
// descending would let them through.
func genEmbedded(rng *gen.Rng, count int, dfs []string, emit func(Case)) {
	for i := 0; i < count; i++ {
		n := 1 + rng.Intn(5)
		parts := make([]string, n)
		for k := range parts {
			parts[k] = gen.Pick(rng, gen.Alphabet)
		}
		inner := strings.Join(parts, " ")
		if rng.Chance(1, 3) {
			inner = gen.Pick(rng, []string{"a:b:c", "(a:b):c*", "(a:b):(c OR d)", "(a:b):[1 TO 5]", "a:[(b OR c) TO d]", "a:[b:c TO 5]", "a:(b OR c*)", "(p:q):r", "NOT", "a:", "() NOT a"})
		}
		emit(Case{Gen: "G3-embedded", Kind: "q", S: fmt.Sprintf(gen.Pick(rng, embedContexts), inner), DF: gen.Pick(rng, dfs), Idx: i})
	}
}

// clauses that start and end with a term token (juxtaposition is defined between two term tokens)
var juxClauses = []string{"a:b", "x:5", `"q r"`, "w*", "a", "5", "1.5", "/re/", `g:"x y"`, "h:te?t", "k=v", "n:>=10", "c:d~2", "e:f^3"}

// genOffPath (G6): inputs off the beaten path of the other generators (long, deep, threshold lengths, unusual Unicode
// classes, numeric boundaries, repeated operators, three-way interactions).
func genOffPath(rng *gen.Rng, count int, dfs []string, emit func(Case)) {
	for i := 0; i < count; i++ {
		s, g := gen.OffPath(rng)
		emit(Case{Gen: g, Kind: "q", S: s, DF: gen.Pick(rng, dfs), Idx: i})
	}
}

// genDfPairs (C11): token sequences and trees, each with a default field that does not occur in the query.
func genDfPairs(rng *gen.Rng, seqLen, seqSample, trees int, emit func(Case)) {
	idx := 0
	for n := 1; n <= seqLen; n++ {
		for i := 0; i < gen.Pow(n); i++ {
			emit(Case{Gen: "G1-dfpair", Kind: "dfpair", S: gen.TokenSeq(i, n), DF: dfNames[idx%len(dfNames)], Idx: idx})
			idx++
		}
	}
	for i := 0; i < seqSample; i++ {
		n := seqLen + 1 + rng.Intn(6)
		parts := make([]string, n)
		for k := range parts {
			parts[k] = gen.Pick(rng, gen.Alphabet)
		}
		emit(Case{Gen: "G1-dfpair-sampled", Kind: "dfpair", S: strings.Join(parts, " "), DF: gen.Pick(rng, dfNames), Idx: i})
	}
	for i := 0; i < trees; i++ {
		t := gen.RandomTreeTop(rng, 1+rng.Intn(4))
		emit(Case{Gen: "G2-dfpair", Kind: "dfpair", S: gen.Spell(rng, t.Print(), rng.Intn(3)), DF: gen.Pick(rng, dfNames), Idx: i})
	}
}

// specC16: the clauses of C16 observed on the implementation's own lexer (lossless segmentation, Peek = Next,
// end-of-input for ever, a lexical error makes Parse fail).
func specC16(c *Case, ps []*Probe) []string {
	var out []string
	for _, p := range ps {
		if p.Lex != nil {
			out = append(out, p.Lex.Fails...)
		}
	}
	return out
}

var properties = map[string]*Property{}

func init() {
	add := func(p *Property) { properties[p.ID] = p }
	add(&Property{ID: "C01", Fields: fields("P", "S", "G", "PG", "PP", "J"), Spec: specC01, Generate: func(cfg RunConfig, emit func(Case)) {
		rng := gen.NewRng(cfg.Seed, 1)
		genTokenSeqs(tiered(cfg, 3, 4), []string{"", "df"}, emit)
		genSampledSeqs(rng, tiered(cfg, 60000, 1500000), 4, 9, gen.DefaultFields, emit)
		genTrees(rng, tiered(cfg, 40000, 800000), 4, func(c Case) { c.Want = ""; c.Kind = "q"; c.DF = gen.Pick(rng, gen.DefaultFields); emit(c) })
		for i := 0; i < tiered(cfg, 50000, 1000000); i++ {
			emit(Case{Gen: "G4-fieldquery", Kind: "q", S: gen.FieldQuery(rng), DF: gen.Pick(rng, gen.DefaultFields), Idx: i})
		}
		for i := 0; i < tiered(cfg, 50000, 1000000); i++ {
			s := gen.ByteString(rng, 1+rng.Intn(10))
			if rng.Chance(1, 3) {
				s = gen.Mutate(rng, gen.Spell(rng, gen.RandomTreeTop(rng, 3).Print(), rng.Intn(3)))
			}
			emit(Case{Gen: "G3-bytes", Kind: "q", S: s, DF: gen.Pick(rng, gen.DefaultFields), Idx: i})
		}
		genOffPath(rng, tiered(cfg, 40000, 800000), gen.DefaultFields, emit)
		for i, s := range gen.NestedShapes() {
			emit(Case{Gen: "G3-nested", Kind: "q", S: s, Idx: i})
			emit(Case{Gen: "G3-nested", Kind: "q", S: s, DF: "df", Idx: i})
		}
		// adversarial shapes: a few hundred tokens against the model, 10^4 tokens on the implementation alone
		// (no panic, no runaway: every call is under the watchdog)
		for i, s := range gen.BigShapes(tiered(cfg, 300, 600)) {
			emit(Case{Gen: "G3-bigshape", Kind: "q", S: s, Idx: i})
			emit(Case{Gen: "G3-bigshape", Kind: "q", S: s, DF: "df", Idx: i})
		}
		for i, s := range gen.BigShapes(tiered(cfg, 2000, 10000)) {
			emit(Case{Gen: "G3-bigshape-10k", Kind: "qimpl", S: s, Idx: i})
			emit(Case{Gen: "G3-bigshape-10k", Kind: "qimpl", S: s, DF: "df", Idx: i})
		}
	}})
	add(&Property{ID: "C16", Fields: fields("LEX"), Spec: specC16, Generate: func(cfg RunConfig, emit func(Case)) {
		rng := gen.NewRng(cfg.Seed, 16)
		for n := 1; n <= tiered(cfg, 3, 4); n++ {
			for i := 0; i < gen.Pow(n); i++ {
				emit(Case{Gen: "G1-tokenseq", Kind: "lex", S: gen.TokenSeq(i, n), Idx: i})
			}
		}
		n := tiered(cfg, 200000, 5000000)
		for i := 0; i < n; i++ {
			s := gen.ByteString(rng, 1+rng.Intn(12))
			for k := rng.Intn(3); k > 0; k-- {
				s = gen.Mutate(rng, s)
			}
			emit(Case{Gen: "G3-bytes", Kind: "lex", S: s, Idx: i})
		}
		genOffPath(rng, tiered(cfg, 40000, 800000), []string{""}, asKind("lex", emit))
	}})
	add(&Property{ID: "C10", Fields: fields("P", "PG", "PP"), Spec: specC10, Generate: func(cfg RunConfig, emit func(Case)) {
		rng := gen.NewRng(cfg.Seed, 10)
		e := asKind("qwf", emit)
		genTokenSeqs(tiered(cfg, 3, 4), []string{"", "df"}, e)
		genSampledSeqs(rng, tiered(cfg, 60000, 1500000), 4, 9, gen.DefaultFields, e)
		genTrees(rng, tiered(cfg, 40000, 800000), 4, e)
		for i := 0; i < tiered(cfg, 40000, 800000); i++ {
			e(Case{Gen: "G4-fieldquery", Kind: "q", S: gen.FieldQuery(rng), DF: gen.Pick(rng, gen.DefaultFields), Idx: i})
		}
		for i := 0; i < tiered(cfg, 30000, 600000); i++ {
			s := gen.ByteString(rng, 1+rng.Intn(10))
			e(Case{Gen: "G3-bytes", Kind: "q", S: s, DF: gen.Pick(rng, gen.DefaultFields), Idx: i})
		}
		genEmbedded(rng, tiered(cfg, 60000, 1500000), gen.DefaultFields, e)
		genOffPath(rng, tiered(cfg, 30000, 600000), gen.DefaultFields, e)
		// size thresholds (implementation only): value lists and conjunctions with 2^12, 2^15, 2^16 values and one either side
		for i, n := range []int{4095, 4096, 4097, 32767, 32768, 65535, 65536, 65537} {
			var sb strings.Builder
			sb.WriteString("a:(")
			for k := 0; k < n; k++ {
				if k > 0 {
					sb.WriteString(" OR ")
				}
				sb.WriteString(strconv.Itoa(k))
			}
			sb.WriteString(")")
			emit(Case{Gen: "G6-hugelist", Kind: "qimpl", S: sb.String(), Idx: i})
		}
	}})
	add(&Property{ID: "C02", Fields: fields("P", "PG", "PP"), Spec: specFromProbes(""), Generate: func(cfg RunConfig, emit func(Case)) {
		rng := gen.NewRng(cfg.Seed, 2)
		conf := asKind("conf", emit)
		genTrees(rng, tiered(cfg, 40000, 800000), 4, func(c Case) { c.Want = ""; c.DF = gen.Pick(rng, gen.DefaultFields); conf(c) })
		for i := 0; i < tiered(cfg, 80000, 1500000); i++ {
			conf(Case{Gen: "G4-fieldquery", Kind: "q", S: gen.FieldQuery(rng), DF: gen.Pick(rng, gen.DefaultFields), Idx: i})
		}
		genFilters(rng, "conf", tiered(cfg, 30000, 500000), emit)
		genOffPath(rng, tiered(cfg, 30000, 600000), gen.DefaultFields, conf)
		genTokenSeqs(tiered(cfg, 3, 4), []string{"", "df"}, conf)
		for i := 0; i < tiered(cfg, 20000, 400000); i++ {
			s := gen.Mutate(rng, gen.FieldQuery(rng))
			conf(Case{Gen: "G3-mutated", Kind: "q", S: s, DF: gen.Pick(rng, gen.DefaultFields), Idx: i})
		}
	}})
	add(&Property{ID: "C03", Fields: fields("P", "PG"), Spec: specC03, Generate: func(cfg RunConfig, emit func(Case)) {
		rng := gen.NewRng(cfg.Seed, 3)
		emit(Case{Gen: "isolation", Kind: "isolation", S: "a:b"})
		genFilters(rng, "sem", tiered(cfg, 120000, 2000000), emit)
	}})
	add(&Property{ID: "C04", Fields: fields("P", "PG", "PP"), Spec: specC04, Generate: func(cfg RunConfig, emit func(Case)) {
		rng := gen.NewRng(cfg.Seed, 4)
		genFilters(rng, "par", tiered(cfg, 60000, 1000000), emit)
		par := asKind("par", emit)
		genTrees(rng, tiered(cfg, 40000, 800000), 4, func(c Case) { c.Want = ""; par(c) })
		for i := 0; i < tiered(cfg, 40000, 800000); i++ {
			par(Case{Gen: "G4-fieldquery", Kind: "q", S: gen.FieldQuery(rng), DF: gen.Pick(rng, gen.DefaultFields), Idx: i})
		}
		genOffPath(rng, tiered(cfg, 30000, 600000), gen.DefaultFields, par)
		for i := 0; i < tiered(cfg, 30000, 500000); i++ {
			f := gen.RandomFilter(rng, 1+rng.Intn(3), false)
			g := sameKindValues(rng, f.T)
			mode := rng.Intn(3)
			emit(Case{Gen: "G2-samekind", Kind: "pair", Rel: "samesql", S: gen.Spell(rng, f.T.Print(), mode), S2: gen.Spell(rng, g.Print(), mode), Idx: i})
		}
	}})
	add(&Property{ID: "C08", Fields: fields("P", "PG", "PP"), Spec: specC08, Generate: func(cfg RunConfig, emit func(Case)) {
		rng := gen.NewRng(cfg.Seed, 8)
		genQuoted(rng, tiered(cfg, 150000, 3000000), emit)
	}})
	add(&Property{ID: "C11", Fields: fields("P"), Spec: specC11, Generate: func(cfg RunConfig, emit func(Case)) {
		rng := gen.NewRng(cfg.Seed, 11)
		genDfPairs(rng, tiered(cfg, 3, 4), tiered(cfg, 60000, 1500000), tiered(cfg, 80000, 1500000), emit)
		genOffPath(rng, tiered(cfg, 30000, 600000), dfNames, asKind("dfpair", emit))
	}})
	add(&Property{ID: "C14", Fields: fields("P", "S", "G", "PG", "PP", "J"), Spec: specC14, Generate: func(cfg RunConfig, emit func(Case)) {
		// the sequential baseline of the session check is what is tied to the model here
		rng := gen.NewRng(cfg.Seed, 14)
		emit(Case{Gen: "isolation", Kind: "isolation", S: "a:b"})
		genTrees(rng, tiered(cfg, 40000, 600000), 4, func(c Case) { c.Want = ""; c.Kind = "q"; c.DF = gen.Pick(rng, []string{"", "", "", "df"}); emit(c) })
		for i := 0; i < tiered(cfg, 20000, 300000); i++ {
			emit(Case{Gen: "G4-fieldquery", Kind: "q", S: gen.FieldQuery(rng), DF: gen.Pick(rng, []string{"", "df"}), Idx: i})
		}
		genOffPath(rng, tiered(cfg, 15000, 300000), []string{"", "df"}, emit)
	}})
	add(&Property{ID: "C13", Fields: fields("U", "V", "S", "G", "J", "R", "RP"), Spec: specC13, Generate: func(cfg RunConfig, emit func(Case)) {
		rng := gen.NewRng(cfg.Seed, 13)
		genJSONDocs(rng, tiered(cfg, 150000, 3000000), emit)
	}})
	add(&Property{ID: "C12", Fields: fields("J", "U", "V", "S", "G", "R", "RP", "P"), Spec: specC12, Generate: func(cfg RunConfig, emit func(Case)) {
		rng := gen.NewRng(cfg.Seed, 12)
		genRoundTrips(rng, tiered(cfg, 80000, 1500000), tiered(cfg, 60000, 1000000), emit)
		// the decoder (and its model) is quadratic in nesting depth × text length: the quick tier keeps the shorter G6 inputs
		rt := asKind("rt", emit)
		genOffPath(rng, tiered(cfg, 30000, 300000), gen.DefaultFields, func(c Case) {
			if len(c.S) <= tiered(cfg, 400, 20000) {
				rt(c)
			}
		})
		for i := 0; i < tiered(cfg, 30000, 600000); i++ {
			emit(Case{Gen: "G7-mkrt", Kind: "mkrt", S: gen.MkCall(rng), Idx: i})
		}
	}})
	add(&Property{ID: "C15", Fields: fields("R"), Spec: specC15, Generate: func(cfg RunConfig, emit func(Case)) {
		rng := gen.NewRng(cfg.Seed, 15)
		emit(Case{Gen: "isolation", Kind: "isolation", S: "a:b"})
		genRenderCases(rng, tiered(cfg, 120000, 2000000), emit)
	}})
	add(&Property{ID: "C05", Fields: fields("P", "U", "V"), Spec: specTree, Generate: func(cfg RunConfig, emit func(Case)) {
		rng := gen.NewRng(cfg.Seed, 5)
		genTrees(rng, tiered(cfg, 150000, 3000000), 4, emit)
		genTokenSeqs(tiered(cfg, 3, 4), []string{""}, emit)
		// the public constructors are C05's oracle: their model is tied by direct calls on arbitrary argument values
		for i := 0; i < tiered(cfg, 40000, 800000); i++ {
			emit(Case{Gen: "G7-mk", Kind: "mk", S: gen.MkCall(rng), Idx: i})
		}
	}})
	add(&Property{ID: "C06", Fields: fields("P"), Spec: specFromProbes("accepted query: "), Generate: func(cfg RunConfig, emit func(Case)) {
		rng := gen.NewRng(cfg.Seed, 6)
		der := asKind("qder", emit)
		genTokenSeqs(tiered(cfg, 3, 4), []string{"", "df"}, der)
		genSampledSeqs(rng, tiered(cfg, 100000, 3000000), 4, 10, gen.DefaultFields, der)
		genTrees(rng, tiered(cfg, 30000, 500000), 4, func(c Case) { c.Want = ""; der(c) })
		for i := 0; i < tiered(cfg, 40000, 800000); i++ {
			der(Case{Gen: "G4-fieldquery", Kind: "q", S: gen.FieldQuery(rng), DF: gen.Pick(rng, []string{"", "", "df"}), Idx: i})
		}
		genEmbedded(rng, tiered(cfg, 40000, 1000000), []string{"", "", "df"}, der)
		genOffPath(rng, tiered(cfg, 30000, 600000), []string{"", "", "df"}, der)
		// a default field that ALSO occurs as an explicitly typed field of the query (code that recognises "its own"
		// default-field wrapping by the column name cannot tell the two apart)
		for i := 0; i < tiered(cfg, 30000, 500000); i++ {
			t := gen.RandomTreeTop(rng, 1+rng.Intn(4))
			der(Case{Gen: "G2-df-collides", Kind: "q", S: gen.Spell(rng, t.Print(), rng.Intn(3)), DF: gen.Pick(rng, []string{"a", "f", "n_1", "my col"}), Idx: i})
		}
		for i := 0; i < tiered(cfg, 3000, 50000); i++ {
			f := gen.Pick(rng, []string{"a", "f", "title"})
			q := gen.Pick(rng, []string{"x:(%s:b OR c)", "x:(%s:b)", "x:(c AND %s:b)", "x:(NOT %s:b)", "%s:(%s:b OR c)", "x:(%s:b c)", "x:((%s:b OR c) OR d)", "%s:b AND c", "c OR %s:b", "x:(y:(%s:b OR c))"})
			der(Case{Gen: "G2-df-collides", Kind: "q", S: strings.ReplaceAll(q, "%s", f), DF: f, Idx: i})
		}
	}})
	add(&Property{ID: "C07", Fields: fields("P"), Spec: specPair, Generate: func(cfg RunConfig, emit func(Case)) {
		rng := gen.NewRng(cfg.Seed, 7)
		genSeqJuxPairs(rng, tiered(cfg, 4, 5), tiered(cfg, 100000, 2000000), []string{"", "df"}, emit)
		genJuxPairs(rng, tiered(cfg, 60000, 1500000), 4, emit)
		// long flat queries: every juxtaposition written as a space vs written as AND
		for i := 0; i < tiered(cfg, 20000, 400000); i++ {
			k := gen.Pick(rng, []int{5, 8, 9, 13, 16, 17, 32, 33, 64, 65, 100})
			var a, b strings.Builder
			for j := 0; j < k; j++ {
				if j > 0 {
					switch rng.Intn(4) {
					case 0:
						a.WriteString(" OR ")
						b.WriteString(" OR ")
					case 1:
						a.WriteString(" AND ")
						b.WriteString(" AND ")
					default:
						a.WriteString(" ")
						b.WriteString(" AND ")
					}
				}
				cl := gen.Pick(rng, juxClauses)
				a.WriteString(cl)
				b.WriteString(cl)
			}
			df := gen.Pick(rng, []string{"", "df"})
			emit(Case{Gen: "G6-longjux", Kind: "pair", Rel: "same", S: a.String(), S2: b.String(), DF: df, DF2: df, Idx: i})
		}
	}})
	add(&Property{ID: "C09", Fields: fields("P"), Spec: specPair, Generate: func(cfg RunConfig, emit func(Case)) {
		rng := gen.NewRng(cfg.Seed, 9)
		genLayoutPairs(rng, tiered(cfg, 3, 4), tiered(cfg, 60000, 1500000), tiered(cfg, 90000, 1500000), emit)
	}})
}
