package main

import (
	"strings"

	"github.com/grindlemire/go-lucene/verifharness/gen"
	"github.com/grindlemire/go-lucene/verifharness/impl"
)

// Property describes how one property is exercised: which result fields tie it to the model, which
// generators feed it and which executable spec clauses are judged on the implementation's own outputs.
type Property struct {
	ID       string
	Fields   map[string]bool // fields of op `q` whose disagreement counts against this property
	Generate func(cfg RunConfig, emit func(Case))
	Spec     func(c *Case, qs []impl.QResult) []string // failed clauses
}

func fields(names ...string) map[string]bool {
	m := map[string]bool{}
	for _, n := range names {
		m[n] = true
	}
	return m
}

func noSpec(c *Case, qs []impl.QResult) []string { return nil }

// tiered picks a size by tier.
func tiered(cfg RunConfig, quick, thorough int) int {
	if cfg.Tier == "thorough" {
		return thorough
	}
	return quick
}

// genTokenSeqs is generator G1: every sequence over the 26-symbol alphabet up to maxLen, with the given default fields.
func genTokenSeqs(maxLen int, dfs []string, emit func(Case)) {
	for n := 1; n <= maxLen; n++ {
		total := gen.Pow(n)
		for i := 0; i < total; i++ {
			s := gen.TokenSeq(i, n)
			for _, df := range dfs {
				emit(Case{Gen: "G1-tokenseq", Kind: "q", S: s, DF: df, Idx: i})
			}
		}
	}
}

// genSampledSeqs samples longer sequences of G1's alphabet.
func genSampledSeqs(rng *gen.Rng, count, minLen, maxLen int, dfs []string, emit func(Case)) {
	for i := 0; i < count; i++ {
		n := minLen + rng.Intn(maxLen-minLen+1)
		parts := make([]string, n)
		for k := range parts {
			parts[k] = gen.Pick(rng, gen.Alphabet)
		}
		emit(Case{Gen: "G1-sampled", Kind: "q", S: strings.Join(parts, " "), DF: gen.Pick(rng, dfs), Idx: i})
	}
}

// specPanics: clause of C01 judged on the implementation alone.
func specC01(c *Case, qs []impl.QResult) []string {
	var out []string
	for _, r := range qs {
		for name, f := range map[string]string{"Parse": r.P, "String": r.S, "GoString": r.G, "ToPostgres": r.PG, "ToParameterizedPostgres": r.PP} {
			if f == "panic" {
				out = append(out, name+" panicked")
			}
		}
		if garbledHex(r.S, c.S, c.DF) {
			out = append(out, "String() contains a formatting-error marker")
		}
		if garbledHex(r.G, c.S, c.DF) {
			out = append(out, "%#v output contains a formatting-error marker")
		}
	}
	return out
}

func garbledHex(field string, inputs ...string) bool {
	if !strings.HasPrefix(field, "ok:") {
		return false
	}
	raw, err := hexDecode(field[3:])
	if err != nil {
		return false
	}
	return garbled(raw, inputs...)
}

func specC10(c *Case, qs []impl.QResult) []string {
	var out []string
	for _, r := range qs {
		if !r.AllOrNothing {
			out = append(out, r.AONDetail)
		}
	}
	return out
}

// specPair: the two queries of a pair must have the same parse result (identical tree, or both rejected).
func specPair(c *Case, qs []impl.QResult) []string {
	if c.Kind != "pair" || len(qs) != 2 {
		return nil
	}
	a, b := qs[0].P, qs[1].P
	switch c.Rel {
	case "same":
		if a != b {
			return []string{"the two spellings parse differently"}
		}
	case "sameifok":
		if strings.HasPrefix(a, "ok:") && a != b {
			return []string{"the variant of an accepted query parses differently"}
		}
	}
	return nil
}

var properties = map[string]*Property{}

func init() {
	base := func(cfg RunConfig, emit func(Case)) {
		rng := gen.NewRng(cfg.Seed, 1)
		genTokenSeqs(tiered(cfg, 3, 4), []string{"", "df"}, emit)
		genSampledSeqs(rng, tiered(cfg, 60000, 1500000), 4, 9, gen.DefaultFields, emit)
	}
	add := func(p *Property) { properties[p.ID] = p }
	add(&Property{ID: "C01", Fields: fields("P", "S", "G", "PG", "PP"), Generate: base, Spec: specC01})
	add(&Property{ID: "C16", Fields: fields("LEX"), Spec: noSpec, Generate: func(cfg RunConfig, emit func(Case)) {
		rng := gen.NewRng(cfg.Seed, 16)
		for n := 1; n <= tiered(cfg, 3, 4); n++ {
			for i := 0; i < gen.Pow(n); i++ {
				emit(Case{Gen: "G1-tokenseq", Kind: "lex", S: gen.TokenSeq(i, n), Idx: i})
			}
		}
		n := tiered(cfg, 200000, 5000000)
		for i := 0; i < n; i++ {
			s := gen.ByteString(rng, 1+rng.Intn(12))
			for k := rng.Intn(3); k > 0; k-- {
				s = gen.Mutate(rng, s)
			}
			emit(Case{Gen: "G3-bytes", Kind: "lex", S: s, Idx: i})
		}
	}})
	add(&Property{ID: "C10", Fields: fields("P", "PG", "PP"), Generate: base, Spec: specC10})
}
