// drive — correspondence check between the Lean model (modeld) and the go-lucene implementation.
//
//	drive tables <out>                      dump the unicode range tables the model takes as parameters
//	drive run -prop C01 -tier quick ...     generate cases, run implementation and model, compare, judge specs
//	drive replay <file>                     re-run one recorded case
package main

import (
	"encoding/json"
	"flag"
	"fmt"
	"os"
	"strings"
	"unicode"
)

func main() {
	if len(os.Args) < 2 {
		fmt.Fprintln(os.Stderr, "usage: drive tables|run|replay ...")
		os.Exit(2)
	}
	switch os.Args[1] {
	case "tables":
		if len(os.Args) != 3 {
			fmt.Fprintln(os.Stderr, "usage: drive tables <out>")
			os.Exit(2)
		}
		if err := dumpTables(os.Args[2]); err != nil {
			fmt.Fprintln(os.Stderr, err)
			os.Exit(2)
		}
	case "run":
		fs := flag.NewFlagSet("run", flag.ExitOnError)
		cfg := RunConfig{}
		fs.StringVar(&cfg.Prop, "prop", "", "property id")
		fs.StringVar(&cfg.Tier, "tier", "quick", "quick|thorough")
		fs.Uint64Var(&cfg.Seed, "seed", 1, "VERIF_SEED")
		fs.StringVar(&cfg.Modeld, "modeld", "", "path of the compiled model driver")
		fs.StringVar(&cfg.Tables, "tables", "", "unicode tables file")
		fs.StringVar(&cfg.Out, "out", "", "result JSON (consumed by bin/check)")
		fs.StringVar(&cfg.ReplayDir, "replaydir", "", "directory for replay files")
		fs.StringVar(&cfg.Findings, "findings", "", "known_findings.json")
		fs.IntVar(&cfg.Workers, "workers", 16, "worker count")
		fs.Parse(os.Args[2:])
		os.Exit(runCheck(cfg))
	case "replay":
		fs := flag.NewFlagSet("replay", flag.ExitOnError)
		modeld := fs.String("modeld", "", "path of the compiled model driver")
		tables := fs.String("tables", "", "unicode tables file")
		fs.Parse(os.Args[2:])
		if fs.NArg() != 1 {
			fmt.Fprintln(os.Stderr, "usage: drive replay -modeld M -tables T <file>")
			os.Exit(2)
		}
		os.Exit(replay(*modeld, *tables, fs.Arg(0)))
	case "confirm":
		// drive confirm <case.json>: run the implementation calls of ONE case in a fresh process (used by the watchdog to
		// tell a real hang from a machine that is merely overloaded); exits 0 when they return
		if len(os.Args) != 3 {
			os.Exit(2)
		}
		b, err := os.ReadFile(os.Args[2])
		var c Case
		if err != nil || json.Unmarshal(b, &c) != nil {
			os.Exit(2)
		}
		policeHeap(confirmHeapLimit)
		probesOf(&c)
		os.Exit(0)
	default:
		fmt.Fprintln(os.Stderr, "unknown subcommand", os.Args[1])
		os.Exit(2)
	}
}

// dumpTables writes the range tables of unicode.IsLetter, unicode.IsDigit and strconv.IsPrint (== unicode.IsPrint)
// of the Go toolchain in use, and checks the one assumption the lexer model makes about strings.ToUpper:
// no non-ASCII rune upper-cases to a letter of the keywords AND, OR, NOT, TO.
func dumpTables(path string) error {
	var sb strings.Builder
	emit := func(name string, pred func(rune) bool) {
		start := rune(-1)
		for r := rune(0); r <= unicode.MaxRune+1; r++ {
			in := r <= unicode.MaxRune && pred(r)
			if in && start < 0 {
				start = r
			}
			if !in && start >= 0 {
				fmt.Fprintf(&sb, "%s %d %d\n", name, start, r-1)
				start = -1
			}
		}
	}
	emit("letter", unicode.IsLetter)
	emit("digit", unicode.IsDigit)
	emit("print", unicode.IsPrint)
	for r := rune(128); r <= unicode.MaxRune; r++ {
		u := unicode.ToUpper(r)
		if u < 128 && strings.ContainsRune("ANDORT", u) {
			return fmt.Errorf("assumption violated: rune U+%04X upper-cases to %q", r, u)
		}
		// strings.ToUpper maps via unicode.ToUpper rune by rune (special-casing is not applied)
	}
	return os.WriteFile(path, []byte(sb.String()), 0o644)
}

func writeJSON(path string, v any) error {
	b, err := json.MarshalIndent(v, "", " ")
	if err != nil {
		return err
	}
	return os.WriteFile(path, b, 0o644)
}
