package main

import "strings"

// Executable class predicates of the open known findings. A predicate looks at the recorded case and at the
// implementation's outputs for it (f.Impl of the first probe).
func init() {
	// K-negzero: the parsed tree holds a float64 leaf that is negative zero (query text such as -0.0, -0e5)
	classPredicates["negzero-float-leaf"] = func(c *Case, f *Failure) bool {
		return strings.Contains(f.Impl["P"], " f:8000000000000000 ") || strings.Contains(f.Impl["P"], "(E 11 f:8000000000000000 ")
	}
}
