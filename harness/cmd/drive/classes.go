package main

import (
	"encoding/hex"
	"math"
	"strconv"
	"strings"
)

// CNode is a parsed canonical tree (the format of impl.CanonExpr), used by the class predicates of the known findings.
type CNode struct {
	Kind  string // nil | prim | expr | list | bound | other
	Prim  string // s:<hex> i:<n> f:<bits> b:0/1 c:<hex> opaque
	Op    int
	L, R  *CNode
	Elems []*CNode
	Incl  bool
}

func canonToks(s string) []string {
	s = strings.ReplaceAll(s, "(", "( ")
	s = strings.ReplaceAll(s, ")", " )")
	return strings.Fields(s)
}

func parseCNode(t []string, i int) (*CNode, int) {
	if i >= len(t) {
		return &CNode{Kind: "other"}, i
	}
	switch {
	case t[i] == "nil" || t[i] == "nilptr":
		return &CNode{Kind: "nil"}, i + 1
	case t[i] == "(" && i+1 < len(t) && t[i+1] == "E":
		n := &CNode{Kind: "expr"}
		n.Op, _ = strconv.Atoi(t[i+2])
		j := i + 3
		n.L, j = parseCNode(t, j)
		n.R, j = parseCNode(t, j)
		return n, j + 3 // boost, fuzzy, ")"
	case t[i] == "(" && i+1 < len(t) && t[i+1] == "L":
		n := &CNode{Kind: "list"}
		j := i + 2
		for j < len(t) && t[j] != ")" {
			var e *CNode
			e, j = parseCNode(t, j)
			n.Elems = append(n.Elems, e)
		}
		return n, j + 1
	case t[i] == "(" && i+1 < len(t) && t[i+1] == "B":
		n := &CNode{Kind: "bound"}
		j := i + 2
		n.L, j = parseCNode(t, j)
		n.R, j = parseCNode(t, j)
		if j < len(t) {
			n.Incl = t[j] == "b:1"
		}
		return n, j + 2
	default:
		return &CNode{Kind: "prim", Prim: t[i]}, i + 1
	}
}

// ParseCanon parses "ok:<tree>" or "<tree>".
func ParseCanon(s string) *CNode {
	s = strings.TrimPrefix(s, "ok:")
	if !strings.HasPrefix(s, "(") {
		return nil
	}
	n, _ := parseCNode(canonToks(s), 0)
	return n
}

// Walk visits every node.
func (n *CNode) Walk(f func(*CNode)) {
	if n == nil {
		return
	}
	f(n)
	n.L.Walk(f)
	n.R.Walk(f)
	for _, e := range n.Elems {
		e.Walk(f)
	}
}

func (n *CNode) any(pred func(*CNode) bool) bool {
	found := false
	n.Walk(func(x *CNode) {
		if pred(x) {
			found = true
		}
	})
	return found
}

func (n *CNode) leafPrim() string {
	if n != nil && n.Kind == "expr" && n.L != nil && n.L.Kind == "prim" {
		return n.L.Prim
	}
	return ""
}

func hexEncode(s string) string { return hex.EncodeToString([]byte(s)) }

func hexLen(p string) int { return (len(p) - 2) / 2 }

func primStr(p string) (string, bool) {
	if strings.HasPrefix(p, "s:") || strings.HasPrefix(p, "c:") {
		s, err := hexDecode(p[2:])
		return s, err == nil
	}
	return "", false
}

func floatOf(p string) (float64, bool) {
	if !strings.HasPrefix(p, "f:") {
		return 0, false
	}
	u, err := strconv.ParseUint(p[2:], 16, 64)
	return math.Float64frombits(u), err == nil
}

// isRange: operator Range (iota 6) with a boundary on the right
func isRange(n *CNode) bool {
	return n.Kind == "expr" && n.Op == 6 && n.R != nil && n.R.Kind == "bound"
}

func treeOf(f *Failure) *CNode { return ParseCanon(f.Impl["P"]) }

func hasTag(c *Case, tag string) bool {
	for _, t := range strings.Split(c.Aux, ",") {
		if t == tag {
			return true
		}
	}
	return false
}

func boundIs(n *CNode, pred func(mn, mx *CNode, incl bool) bool) bool {
	return n.any(func(x *CNode) bool { return isRange(x) && pred(x.R.L, x.R.R, x.R.Incl) })
}

func isStarWild(n *CNode) bool {
	return n != nil && n.Kind == "expr" && n.Op == 12 && n.leafPrim() == "s:2a"
}
func isQuotedStar(n *CNode) bool {
	return n != nil && n.Kind == "expr" && n.Op == 11 && n.leafPrim() == "s:2a"
}
func isStrLeaf(n *CNode) bool {
	return n != nil && n.Kind == "expr" && strings.HasPrefix(n.leafPrim(), "s:") && !isStarWild(n)
}
func isFloatLeaf(n *CNode) bool { return n != nil && strings.HasPrefix(n.leafPrim(), "f:") }
func needsFine(n *CNode) bool {
	f, ok := floatOf(n.leafPrim())
	if !ok {
		return false
	}
	return strconv.FormatFloat(f, 'f', 2, 64) != strconv.FormatFloat(f, 'f', -1, 64) && f*100 != math.Trunc(f*100)
}

// Executable class predicates of the open known findings (mirrored as comments in known_findings.json).  A predicate
// looks at the recorded case and at the implementation's outputs for it (f.Impl of the first probe).
func init() {
	cp := classPredicates
	// K-negzero: the parsed tree holds a float64 leaf that is negative zero (query text such as -0.0)
	cp["negzero-float-leaf"] = func(c *Case, f *Failure) bool {
		return treeOf(f).any(func(x *CNode) bool { return x.Kind == "prim" && x.Prim == "f:8000000000000000" })
	}
	// K-json-float-exp: a float64 leaf that is integer-valued and at least 1e6 in magnitude (it prints in exponent form,
	// and the JSON decoder turns it into an int, which prints in decimal form)
	cp["int-valued-float-exp"] = func(c *Case, f *Failure) bool {
		return treeOf(f).any(func(x *CNode) bool {
			if x.Kind != "prim" {
				return false
			}
			v, ok := floatOf(x.Prim)
			return ok && v == math.Trunc(v) && math.Abs(v) >= 1e6 && math.Abs(v) < 9.3e18
		})
	}
	// ranges (C03 / C04): judged on the parsed tree, so that they apply to every generator
	cp["range-str-excl"] = func(c *Case, f *Failure) bool {
		return hasTag(c, "range-mixed") || boundIs(treeOf(f), func(mn, mx *CNode, incl bool) bool { return !incl && (isStrLeaf(mn) || isStrLeaf(mx)) })
	}
	cp["range-str-open"] = func(c *Case, f *Failure) bool {
		return boundIs(treeOf(f), func(mn, mx *CNode, incl bool) bool {
			return (isStarWild(mn) && isStrLeaf(mx)) || (isStarWild(mx) && isStrLeaf(mn))
		})
	}
	cp["range-float-round"] = func(c *Case, f *Failure) bool {
		return boundIs(treeOf(f), func(mn, mx *CNode, incl bool) bool { return needsFine(mn) || needsFine(mx) })
	}
	cp["range-both-open"] = func(c *Case, f *Failure) bool {
		return boundIs(treeOf(f), func(mn, mx *CNode, incl bool) bool { return isStarWild(mn) && isStarWild(mx) })
	}
	cp["range-float-open"] = func(c *Case, f *Failure) bool {
		return boundIs(treeOf(f), func(mn, mx *CNode, incl bool) bool {
			return (isStarWild(mn) && isFloatLeaf(mx)) || (isStarWild(mx) && isFloatLeaf(mn))
		})
	}
	cp["range-comma"] = func(c *Case, f *Failure) bool {
		return boundIs(treeOf(f), func(mn, mx *CNode, incl bool) bool {
			has := func(n *CNode) bool { s, ok := primStr(n.leafPrim()); return ok && strings.Contains(s, ",") }
			return has(mn) || has(mx)
		})
	}
	cp["range-mixed"] = func(c *Case, f *Failure) bool { return hasTag(c, "range-mixed") }
	cp["range-quoted-star"] = func(c *Case, f *Failure) bool {
		return boundIs(treeOf(f), func(mn, mx *CNode, incl bool) bool { return isQuotedStar(mn) || isQuotedStar(mx) })
	}
	// K-range-mixed-kind: one bound is a number, the other a string
	cp["range-mixed-kind"] = func(c *Case, f *Failure) bool {
		isNumLeaf := func(n *CNode) bool {
			p := n.leafPrim()
			return strings.HasPrefix(p, "i:") || strings.HasPrefix(p, "f:")
		}
		return boundIs(treeOf(f), func(mn, mx *CNode, incl bool) bool {
			return (isNumLeaf(mn) && isStrLeaf(mx)) || (isNumLeaf(mx) && isStrLeaf(mn))
		})
	}
	// K-json-bigint-bound: an integer range bound that float64 cannot hold exactly
	cp["bigint-range-bound"] = func(c *Case, f *Failure) bool {
		big := func(n *CNode) bool {
			p := n.leafPrim()
			if !strings.HasPrefix(p, "i:") {
				return false
			}
			v, err := strconv.ParseInt(p[2:], 10, 64)
			return err == nil && int64(float64(v)) != v || (err == nil && (v > 1<<53 || v < -(1<<53)) && float64(v) != float64(int64(float64(v))))
		}
		return boundIs(treeOf(f), func(mn, mx *CNode, incl bool) bool { return big(mn) || big(mx) })
	}
	// K-json-bigfloat-bound: a FLOAT range bound that is integer-valued with 2^53 <= |v| <= 2^63: the decoder turns it into
	// an int whose decimal text is not the float's shortest text
	cp["bigfloat-range-bound"] = func(c *Case, f *Failure) bool {
		big := func(n *CNode) bool {
			v, ok := floatOf(n.leafPrim())
			return ok && v == math.Trunc(v) && math.Abs(v) >= 9007199254740992 && math.Abs(v) <= 9223372036854775808
		}
		return boundIs(treeOf(f), func(mn, mx *CNode, incl bool) bool { return big(mn) || big(mx) })
	}
	// K-like-meta: a wildcard pattern containing a SIMILAR TO metacharacter besides the translated * and ?
	cp["like-meta"] = func(c *Case, f *Failure) bool {
		return treeOf(f).any(func(x *CNode) bool {
			if x.Kind != "expr" || x.Op != 12 {
				return false
			}
			s, ok := primStr(x.leafPrim())
			return ok && strings.ContainsAny(s, `_%|+()[]{}\`)
		})
	}
	// K-numfield-range: a numeric-looking field name under a range (the left side of a Range node is a number leaf)
	cp["numfield-range"] = func(c *Case, f *Failure) bool {
		return treeOf(f).any(func(x *CNode) bool {
			return isRange(x) && (strings.HasPrefix(x.L.leafPrim(), "i:") || strings.HasPrefix(x.L.leafPrim(), "f:"))
		})
	}
	// K-ident-63: a field name longer than 63 bytes
	cp["ident-63"] = func(c *Case, f *Failure) bool {
		return treeOf(f).any(func(x *CNode) bool { return x.Kind == "prim" && strings.HasPrefix(x.Prim, "c:") && hexLen(x.Prim) > 63 })
	}
	// K-escape-wild / K-escape-backslash (C08 escaping clause): the text contains * or ? / a backslash
	cp["escape-wild"] = func(c *Case, f *Failure) bool { return c.Rel == "escaped" && strings.ContainsAny(c.Want, "*?") }
	cp["escape-backslash"] = func(c *Case, f *Failure) bool { return c.Rel == "escaped" && strings.Contains(c.Want, `\`) }
	// C11 classes, judged on the tree parsed WITH the default field
	isBare := func(n *CNode) bool {
		return n != nil && n.Kind == "expr" && (n.Op == 11 || n.Op == 12 || n.Op == 13) && n.L != nil && n.L.Kind == "prim"
	}
	cp["df-unary"] = func(c *Case, f *Failure) bool {
		return treeOf(f).any(func(x *CNode) bool {
			return x.Kind == "expr" && (x.Op == 7 || x.Op == 8 || x.Op == 9 || x.Op == 10) && isBare(x.L)
		})
	}
	cp["df-pattern"] = func(c *Case, f *Failure) bool {
		t := treeOf(f)
		isPat := func(n *CNode) bool { return isBare(n) && (n.Op == 12 || n.Op == 13) }
		return isPat(t) || t.any(func(x *CNode) bool {
			return x.Kind == "expr" && (x.Op == 1 || x.Op == 2 || x.Op == 5) && (isPat(x.L) || isPat(x.R))
		})
	}
	cp["df-list"] = func(c *Case, f *Failure) bool {
		dfHex := "c:" + hexEncode(c.DF)
		var orOfWrapped func(n *CNode) bool
		orOfWrapped = func(n *CNode) bool {
			if n == nil || n.Kind != "expr" {
				return false
			}
			if n.Op == 2 {
				return orOfWrapped(n.L) && orOfWrapped(n.R)
			}
			return n.Op == 3 && n.L.leafPrim() == dfHex
		}
		return treeOf(f).any(func(x *CNode) bool {
			return x.Kind == "expr" && x.Op == 3 && x.L.leafPrim() != dfHex && x.R != nil && x.R.Kind == "expr" && x.R.Op == 2 && orOfWrapped(x.R)
		})
	}
	// K-dangling-escape (C09): one spelling ends in a backslash
	cp["dangling-escape"] = func(c *Case, f *Failure) bool {
		return strings.HasSuffix(strings.TrimRight(c.S, " \t\r\n"), `\`) || strings.HasSuffix(strings.TrimRight(c.S2, " \t\r\n"), `\`)
	}
}
