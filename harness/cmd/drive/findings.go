package main

import (
	"encoding/hex"
	"encoding/json"
	"os"
	"strings"
)

func hexDecode(s string) (string, error) {
	b, err := hex.DecodeString(s)
	return string(b), err
}

// Finding is one entry of known_findings.json.
type Finding struct {
	ID         string              `json:"id"`
	Status     string              `json:"status"` // open | fixed
	Properties []string            `json:"properties"`
	Class      string              `json:"class"` // name of the class predicate (classes.go)
	Witness    string              `json:"witness"`
	Site       string              `json:"site"`
	What       string              `json:"what"`
	Commit     string              `json:"commit,omitempty"`
	Clauses    map[string][]string `json:"clauses,omitempty"` // per property: the failing clause must contain one of these
	Case       *Case               `json:"case,omitempty"`    // witness as a replayable case (runs first, from the corpus)
}

type findings struct{ list []Finding }

func loadFindings(path string) *findings {
	f := &findings{}
	if path == "" {
		return f
	}
	b, err := os.ReadFile(path)
	if err != nil {
		return f
	}
	var doc struct {
		Findings []Finding `json:"findings"`
	}
	if json.Unmarshal(b, &doc) == nil {
		f.list = doc.Findings
	}
	return f
}

// match attributes a spec failure to a listed open finding: the property is listed, the input is in the
// finding's class, and the failure is a spec failure (a disagreement with the model is never suppressed:
// suppression is model-relative — the code must still behave exactly as the modelled code does).
func (f *findings) match(prop string, fl *Failure) string {
	id, _ := f.matchClause(prop, fl)
	return id
}

// matchClause also reports which listed clause substring matched.
func (f *findings) matchClause(prop string, fl *Failure) (string, string) {
	if fl.Class != "spec" {
		return "", ""
	}
	for _, k := range f.list {
		if k.Status != "open" {
			continue
		}
		listed := false
		for _, p := range k.Properties {
			if p == prop {
				listed = true
			}
		}
		if !listed {
			continue
		}
		matched := "*"
		if subs, has := k.Clauses[prop]; has {
			hit := false
			for _, sub := range subs {
				if strings.Contains(fl.Clause, sub) {
					hit = true
					matched = sub
					break
				}
			}
			if !hit {
				continue
			}
		}
		pred, ok := classPredicates[k.Class]
		if ok && pred(&fl.Case, fl) {
			return k.ID, matched
		}
	}
	return "", ""
}

// classPredicates are the executable class predicates of the known findings (mirrored in GoLucene/Findings.lean).
var classPredicates = map[string]func(c *Case, f *Failure) bool{}
