package main

import (
	"fmt"
	"os"
	"path/filepath"
	"regexp"
	"sort"
	"strings"
	"sync"
	"sync/atomic"
	"time"

	"github.com/grindlemire/go-lucene/verifharness/impl"
	"github.com/grindlemire/go-lucene/verifharness/modelproc"
)

// RunConfig is the command line of `drive run`.
type RunConfig struct {
	Prop, Tier, Modeld, Tables, Out, ReplayDir, Findings string
	Seed                                                uint64
	Workers                                             int
}

// Case is one generated test case.
type Case struct {
	Gen  string `json:"gen"`            // generator that produced it
	Kind string `json:"kind"`           // q | lex | pair | tree | uj | render | session
	S    string `json:"s"`              // input (query text / JSON bytes), raw bytes as a Go string
	DF   string `json:"df,omitempty"`   // default field
	S2   string `json:"s2,omitempty"`   // second input of a pair
	DF2  string `json:"df2,omitempty"`  // default field of the second input
	Rel  string `json:"rel,omitempty"`  // relation a pair must satisfy: same | samefail | erase
	Want string `json:"want,omitempty"` // expected canonical tree (oracle built through the public constructors)
	Aux  string `json:"aux,omitempty"`  // generator specific
	Idx  int    `json:"idx"`            // index within the generator (replay)
}

// Failure is a case that counts against the property.
type Failure struct {
	Case    Case              `json:"case"`
	Class   string            `json:"class"`  // spec | disagree | crash
	Clause  string            `json:"clause"` // which clause / field
	Impl    map[string]string `json:"impl,omitempty"`
	Model   map[string]string `json:"model,omitempty"`
	Finding string            `json:"finding,omitempty"` // id of the listed known finding it was attributed to
}

// Stats aggregates what a run covered.
type Stats struct {
	mu        sync.Mutex
	Cases     int64
	PerGen    map[string]int64
	Accepted  int64
	Distinct  map[uint64]struct{}
	Dist      map[string]int64 // distribution counters (outcome kinds, lengths, …)
	Samples   []Case
	Failures  []Failure
	Disagree  int64
	SpecFails int64
}

func newStats() *Stats {
	return &Stats{PerGen: map[string]int64{}, Distinct: map[uint64]struct{}{}, Dist: map[string]int64{}}
}

func fnv(s string) uint64 {
	h := uint64(14695981039346656037)
	for i := 0; i < len(s); i++ {
		h ^= uint64(s[i])
		h *= 1099511628211
	}
	return h
}

var fmtMarker = regexp.MustCompile(`%![a-zA-Z]\(`)

// garbled reports a Go formatting-error marker in out that the user's own text does not explain.
func garbled(out string, inputs ...string) bool {
	n := len(fmtMarker.FindAllStringIndex(out, -1))
	if n == 0 {
		return false
	}
	m := 0
	for _, in := range inputs {
		m += len(fmtMarker.FindAllStringIndex(in, -1))
	}
	return n > m*4 // user text can be repeated by a range rendering; a real marker adds to the count
}

type qOut struct {
	impl  impl.QResult
	model map[string]string
}

func splitModelQ(resp string) map[string]string {
	f := strings.Split(resp, "\t")
	m := map[string]string{}
	names := []string{"P", "S", "G", "PG", "PP"}
	for i, n := range names {
		if i < len(f) {
			m[n] = f[i]
		}
	}
	return m
}

// cmpPrinted compares a printed text field: the model prefixes clean texts with "c:" and unclean ones with "u:".
func cmpPrinted(implF, modelF string) bool {
	if strings.HasPrefix(modelF, "ok:c:") {
		return implF == "ok:"+modelF[5:]
	}
	if strings.HasPrefix(modelF, "ok:u:") {
		return strings.HasPrefix(implF, "ok:")
	}
	return implF == modelF
}

func implMapQ(r impl.QResult) map[string]string {
	return map[string]string{"P": r.P, "S": r.S, "G": r.G, "PG": r.PG, "PP": r.PP}
}

// diffQ lists the fields on which implementation and model differ.
func diffQ(r impl.QResult, m map[string]string) []string {
	var d []string
	if r.P != m["P"] {
		d = append(d, "P")
	}
	if !cmpPrinted(r.S, m["S"]) {
		d = append(d, "S")
	}
	if !cmpPrinted(r.G, m["G"]) {
		d = append(d, "G")
	}
	if r.PG != m["PG"] {
		d = append(d, "PG")
	}
	if r.PP != m["PP"] {
		d = append(d, "PP")
	}
	return d
}

// engine runs cases through implementation and model.
type engine struct {
	cfg     RunConfig
	prop    *Property
	stats   *Stats
	watch   []atomic.Value // per worker: current case description + start time
	started []atomic.Int64
}

func (e *engine) worker(id int, cases <-chan []Case, wg *sync.WaitGroup) {
	defer wg.Done()
	mp, err := modelproc.Start(e.cfg.Modeld, e.cfg.Tables)
	if err != nil {
		fmt.Fprintln(os.Stderr, "cannot start modeld:", err)
		os.Exit(2)
	}
	defer mp.Close()
	for batch := range cases {
		e.runBatch(id, mp, batch)
	}
}

func (e *engine) note(key string, n int64) {
	e.stats.Dist[key] += n
}

func outcomeKind(f string) string {
	switch {
	case strings.HasPrefix(f, "ok:"):
		return "ok"
	case f == "err", f == "panic", f == "-":
		return f
	}
	return "other"
}

// runBatch evaluates a batch of cases; all model questions of the batch are pipelined.
func (e *engine) runBatch(id int, mp *modelproc.Proc, batch []Case) {
	type pending struct {
		c     *Case
		qs    []impl.QResult // implementation results of the queries of this case
		lines []int          // indexes into reqs
		lexo  *impl.LexObs   // implementation result of a lex case
	}
	var reqs []string
	pend := make([]pending, len(batch))
	for i := range batch {
		c := &batch[i]
		e.watch[id].Store(*c)
		e.started[id].Store(time.Now().UnixNano())
		p := pending{c: c}
		addQ := func(s, df string) {
			p.qs = append(p.qs, impl.RunQuery(s, df))
			p.lines = append(p.lines, len(reqs))
			reqs = append(reqs, "q\t"+impl.Hex(s)+"\t"+impl.Hex(df))
		}
		switch c.Kind {
		case "q", "tree":
			addQ(c.S, c.DF)
		case "pair":
			addQ(c.S, c.DF)
			addQ(c.S2, c.DF2)
		case "lex":
			o := impl.RunLexObs(c.S, fnv(c.S)^uint64(c.Idx))
			p.lexo = &o
			p.lines = append(p.lines, len(reqs))
			reqs = append(reqs, "lex\t"+impl.Hex(c.S))
			// a lexical error must make Parse fail
			if strings.HasSuffix(o.Stream, ";err") {
				if r := impl.RunQuery(c.S, c.DF); r.P != "err" {
					o.Fails = append(o.Fails, "input with a lexical error was not rejected by Parse: "+r.P)
				}
			}
		}
		e.started[id].Store(0)
		pend[i] = p
	}
	resps, err := mp.AskBatch(reqs)
	if err != nil {
		fmt.Fprintln(os.Stderr, "model driver failure:", err)
		os.Exit(2)
	}
	st := e.stats
	st.mu.Lock()
	defer st.mu.Unlock()
	for _, p := range pend {
		c := p.c
		st.Cases++
		st.PerGen[c.Gen]++
		var fails []Failure
		var models []map[string]string
		if p.lexo != nil {
			m := resps[p.lines[0]]
			if p.lexo.Stream != m && e.prop.Fields["LEX"] {
				fails = append(fails, Failure{Case: *c, Class: "disagree", Clause: "token stream", Impl: map[string]string{"LEX": p.lexo.Stream}, Model: map[string]string{"LEX": m}})
			}
			if e.prop.Fields["LEX"] {
				for _, cl := range p.lexo.Fails {
					fails = append(fails, Failure{Case: *c, Class: "spec", Clause: cl, Impl: map[string]string{"LEX": p.lexo.Stream}, Model: map[string]string{"LEX": m}})
				}
			}
			e.note("lex-end:"+p.lexo.Stream[strings.LastIndex(p.lexo.Stream, ";")+1:], 1)
			ntok := strings.Count(p.lexo.Stream, ":")
			if ntok >= 2 {
				st.Accepted++
				st.Distinct[fnv(c.S)] = struct{}{}
			}
		}
		for k, r := range p.qs {
			m := splitModelQ(resps[p.lines[k]])
			models = append(models, m)
			for _, f := range diffQ(r, m) {
				if e.prop.Fields[f] {
					fails = append(fails, Failure{Case: *c, Class: "disagree", Clause: fmt.Sprintf("field %s of query %d", f, k+1), Impl: implMapQ(r), Model: m})
				}
			}
			e.note("P:"+outcomeKind(r.P), 1)
			e.note("PG:"+outcomeKind(r.PG), 1)
			e.note("PP:"+outcomeKind(r.PP), 1)
		}
		if len(p.qs) > 0 && strings.HasPrefix(p.qs[0].P, "ok:") {
			st.Accepted++
			st.Distinct[fnv(c.S+"\x00"+c.DF+"\x00"+c.S2+"\x00"+c.DF2)] = struct{}{}
		}
		// specs judged on the implementation's own outputs
		if len(p.qs) > 0 {
			for _, sf := range e.prop.Spec(c, p.qs) {
				fails = append(fails, Failure{Case: *c, Class: "spec", Clause: sf, Impl: implMapQ(p.qs[0]), Model: models[0]})
			}
		}
		if len(st.Samples) < 3 || (st.Cases%50021 == 0 && len(st.Samples) < 12) {
			st.Samples = append(st.Samples, *c)
		}
		for _, f := range fails {
			if f.Class == "spec" {
				st.SpecFails++
			} else {
				st.Disagree++
			}
			if len(st.Failures) < 3000 {
				st.Failures = append(st.Failures, f)
			}
		}
	}
}

// runCheck is `drive run`.
func runCheck(cfg RunConfig) int {
	prop, ok := properties[cfg.Prop]
	if !ok {
		fmt.Fprintln(os.Stderr, "unknown property", cfg.Prop)
		return 2
	}
	t0 := time.Now()
	e := &engine{cfg: cfg, prop: prop, stats: newStats(), watch: make([]atomic.Value, cfg.Workers), started: make([]atomic.Int64, cfg.Workers)}
	cases := make(chan []Case, cfg.Workers*2)
	var wg sync.WaitGroup
	for i := 0; i < cfg.Workers; i++ {
		wg.Add(1)
		go e.worker(i, cases, &wg)
	}
	// watchdog for the "never loops" clause of C01: an implementation call that takes longer than the budget
	stop := make(chan struct{})
	go func() {
		tick := time.NewTicker(500 * time.Millisecond)
		defer tick.Stop()
		for {
			select {
			case <-stop:
				return
			case <-tick.C:
				for i := range e.started {
					s := e.started[i].Load()
					if s != 0 && time.Since(time.Unix(0, s)) > 20*time.Second {
						c, _ := e.watch[i].Load().(Case)
						path := filepath.Join(cfg.ReplayDir, cfg.Prop+"-hang.json")
						writeJSON(path, Failure{Case: c, Class: "crash", Clause: "implementation call exceeded 20s"})
						fmt.Printf("VIOLATION property=%s replay=%s\n", cfg.Prop, path)
						os.Exit(1)
					}
				}
			}
		}
	}()
	batch := make([]Case, 0, 256)
	emit := func(c Case) {
		batch = append(batch, c)
		if len(batch) == cap(batch) {
			cases <- batch
			batch = make([]Case, 0, 256)
		}
	}
	prop.Generate(cfg, emit)
	if len(batch) > 0 {
		cases <- batch
	}
	close(cases)
	wg.Wait()
	close(stop)
	return report(cfg, e.stats, time.Since(t0))
}

// Result is what `drive run` hands to bin/check.
type Result struct {
	Property   string           `json:"property"`
	Tier       string           `json:"tier"`
	Seed       uint64           `json:"seed"`
	Cases      int64            `json:"cases"`
	Accepted   int64            `json:"accepted"`
	Distinct   int              `json:"distinct_accepted"`
	PerGen     map[string]int64 `json:"per_generator"`
	Dist       map[string]int64 `json:"distribution"`
	Samples    []Case           `json:"samples"`
	Disagree   int64            `json:"disagreements"`
	SpecFails  int64            `json:"spec_failures"`
	Known      []string         `json:"known_findings_seen"`
	Violations []string         `json:"violation_files"`
	WallS      float64          `json:"wall_s"`
	Failures   []Failure        `json:"first_failures"`
}

func report(cfg RunConfig, st *Stats, wall time.Duration) int {
	res := Result{Property: cfg.Prop, Tier: cfg.Tier, Seed: cfg.Seed, Cases: st.Cases, Accepted: st.Accepted,
		Distinct: len(st.Distinct), PerGen: st.PerGen, Dist: st.Dist, Samples: st.Samples,
		Disagree: st.Disagree, SpecFails: st.SpecFails, WallS: wall.Seconds(), Failures: st.Failures}
	kf := loadFindings(cfg.Findings)
	seenKnown := map[string]bool{}
	exit := 0
	// spec failures first (they carry a failing input), then disagreements
	sort.SliceStable(st.Failures, func(i, j int) bool { return st.Failures[i].Class == "spec" && st.Failures[j].Class != "spec" })
	nfile := 0
	var firstDisagree *Failure
	specViolation := false
	for i := range st.Failures {
		f := &st.Failures[i]
		if id := kf.match(cfg.Prop, f); id != "" {
			f.Finding = id
			seenKnown[id] = true
			continue
		}
		if f.Class == "spec" {
			specViolation = true
			if nfile < 5 {
				path := filepath.Join(cfg.ReplayDir, fmt.Sprintf("%s-%s-%d.json", cfg.Prop, cfg.Tier, nfile))
				writeJSON(path, f)
				fmt.Printf("VIOLATION property=%s replay=%s\n", cfg.Prop, path)
				res.Violations = append(res.Violations, path)
				nfile++
			}
			exit = 1
		} else if firstDisagree == nil {
			firstDisagree = f
		}
	}
	if !specViolation && firstDisagree != nil {
		// the correspondence broke but no explored input fails the property's own spec
		path := filepath.Join(cfg.ReplayDir, fmt.Sprintf("%s-%s-correspondence.json", cfg.Prop, cfg.Tier))
		writeJSON(path, map[string]any{
			"broken":  "correspondence between the Lean model and the implementation",
			"clause":  firstDisagree.Clause,
			"failure": firstDisagree,
			"note":    "the theorems for this property are about the model; the implementation no longer behaves like the model on this input, and no input was found on which the property's executable spec fails",
		})
		fmt.Printf("VIOLATION property=%s replay=%s no-failing-input-found\n", cfg.Prop, path)
		res.Violations = append(res.Violations, path)
		exit = 1
	}
	for id := range seenKnown {
		res.Known = append(res.Known, id)
	}
	sort.Strings(res.Known)
	if cfg.Out != "" {
		if err := writeJSON(cfg.Out, res); err != nil {
			fmt.Fprintln(os.Stderr, err)
			return 2
		}
	}
	return exit
}
