package main

import (
	"context"
	"encoding/json"
	"fmt"
	"os"
	"os/exec"
	"path/filepath"
	"regexp"
	"runtime"
	"sort"
	"strconv"
	"strings"
	"sync"
	"sync/atomic"
	"time"

	"github.com/grindlemire/go-lucene/pkg/lucene/expr"
	"github.com/grindlemire/go-lucene/verifharness/impl"
	"github.com/grindlemire/go-lucene/verifharness/modelproc"
)

// RunConfig is the command line of `drive run`.
type RunConfig struct {
	Prop, Tier, Modeld, Tables, Out, ReplayDir, Findings string
	Seed                                                 uint64
	Workers                                              int
}

// Case is one generated test case.
type Case struct {
	Gen  string `json:"gen"`            // generator that produced it
	Kind string `json:"kind"`           // q | tree | pair | lex | uj | rt | render
	S    string `json:"s"`              // input (query text / JSON bytes), raw bytes as a Go string
	DF   string `json:"df,omitempty"`   // default field
	S2   string `json:"s2,omitempty"`   // second input of a pair
	DF2  string `json:"df2,omitempty"`  // default field of the second input
	Rel  string `json:"rel,omitempty"`  // relation a pair must satisfy (same | sameifok | erase) / map description of a render case
	Want string `json:"want,omitempty"` // expected canonical tree (oracle built through the public constructors)
	Aux  string `json:"aux,omitempty"`  // generator specific (source of the tree of a render case: q | json)
	Idx  int    `json:"idx"`            // index within the generator (replay)
}

// Probe is one question put to both the implementation and the model.
type Probe struct {
	Op    string            // q | uj | render | lex
	Req   string            // request line for modeld
	Impl  map[string]string // implementation's answer by field
	Model map[string]string // model's answer by field
	Loose bool              // compare outcome classes only for the printing/rendering fields (tree contains a decoded map/slice)
	Q     *impl.QResult
	UJ    *impl.UJResult
	Lex   *impl.LexObs
	Expr  *expr.Expression
}

var fieldNames = map[string][]string{
	"q":      {"P", "S", "G", "PG", "PP", "J"},
	"uj":     {"U", "V", "S", "G", "J", "R", "RP"},
	"mk":     {"U", "V", "S", "G", "J", "R", "RP"},
	"render": {"R", "RP"},
	"lex":    {"LEX"},
	"spec":   {"OK"},
	"noop":   {},
}

// printed fields: the model prefixes the text with c: (clean, compared exactly) or u: (not modelled exactly)
var printedField = map[string]bool{"S": true, "G": true}

// looseField: fields compared by outcome class only when the probe is Loose
var looseField = map[string]bool{"S": true, "G": true, "J": true, "R": true, "RP": true}

// Failure is a case that counts against the property.
type Failure struct {
	Case    Case              `json:"case"`
	Class   string            `json:"class"`  // spec | disagree | crash
	Clause  string            `json:"clause"` // which clause / field
	Impl    map[string]string `json:"impl,omitempty"`
	Model   map[string]string `json:"model,omitempty"`
	Finding string            `json:"finding,omitempty"` // id of the listed known finding it was attributed to
}

// Stats aggregates what a run covered.
type Stats struct {
	mu        sync.Mutex
	Cases     int64
	PerGen    map[string]int64
	Accepted  int64
	Distinct  map[uint64]struct{}
	Dist      map[string]int64 // distribution counters (outcome kinds, lengths, …)
	Samples   []Case
	Failures  []Failure
	Disagree  int64
	SpecFails int64
	KnownKept map[string]int // failures kept per listed finding (the rest are only counted)
	KnownHits map[string]int64
	NewKept   int
	DisKept   int
}

func newStats() *Stats {
	return &Stats{PerGen: map[string]int64{}, Distinct: map[uint64]struct{}{}, Dist: map[string]int64{}, KnownKept: map[string]int{}, KnownHits: map[string]int64{}}
}

func fnv(s string) uint64 {
	h := uint64(14695981039346656037)
	for i := 0; i < len(s); i++ {
		h ^= uint64(s[i])
		h *= 1099511628211
	}
	return h
}

var fmtMarker = regexp.MustCompile(`%![a-zA-Z]\(`)

// garbled reports a Go formatting-error marker in out that the user's own text does not explain.
func garbled(out string, inputs ...string) bool {
	n := len(fmtMarker.FindAllStringIndex(out, -1))
	if n == 0 {
		return false
	}
	m := 0
	for _, in := range inputs {
		m += len(fmtMarker.FindAllStringIndex(in, -1))
	}
	return n > m*4 // user text can be repeated by a rendering; a real marker adds to the count
}

func outcomeKind(f string) string {
	switch {
	case strings.HasPrefix(f, "ok:"):
		return "ok"
	case f == "err", f == "panic", f == "-", f == "0", f == "1":
		return f
	}
	return "other"
}

// fieldAgrees compares one field of a probe.
func fieldAgrees(name string, p *Probe) bool {
	iv, mv := p.Impl[name], p.Model[name]
	if p.Loose && looseField[name] {
		// the tree holds a decoded map/slice whose text is not modelled: only "returns normally" is compared.  The
		// unmodelled text may itself make the implementation refuse early (a NUL byte or invalid UTF-8 inside the map is an
		// error of the literal function) before it reaches a node on which the model goes on to panic: an implementation
		// error is therefore compatible with any model outcome here
		if iv == "err" {
			return true
		}
		return (iv == "panic") == (mv == "panic")
	}
	if printedField[name] {
		if strings.HasPrefix(mv, "ok:c:") {
			return iv == "ok:"+mv[5:]
		}
		if strings.HasPrefix(mv, "ok:u:") {
			return strings.HasPrefix(iv, "ok:")
		}
	}
	return iv == mv
}

// engine runs cases through implementation and model.
type engine struct {
	journals []*os.File
	kf       *findings
	cfg      RunConfig
	prop     *Property
	stats    *Stats
	watch    []atomic.Value
	started  []atomic.Int64
}

// journal records, before the implementation is called, the case a worker is about to run (one small file per worker,
// rewritten in place): if the implementation kills the process (stack overflow, concurrent map writes) the last case of
// each worker is left behind and bin/check re-runs those few cases in fresh processes to name the failing input.
func (e *engine) journal(id int, c *Case) {
	if e.journals == nil || id >= len(e.journals) || e.journals[id] == nil {
		return
	}
	b, _ := json.Marshal(c)
	f := e.journals[id]
	f.WriteAt(b, 0)
	f.Truncate(int64(len(b)))
}

func (e *engine) worker(id int, cases <-chan []Case, wg *sync.WaitGroup) {
	defer wg.Done()
	mp, err := modelproc.Start(e.cfg.Modeld, e.cfg.Tables)
	if err != nil {
		fmt.Fprintln(os.Stderr, "cannot start modeld:", err)
		os.Exit(2)
	}
	defer mp.Close()
	for batch := range cases {
		e.runBatch(id, mp, batch)
	}
}

func qProbe(s, df string) *Probe {
	r := impl.RunQuery(s, df)
	j := "-"
	if r.Expr != nil {
		j = impl.MarshalExpr(r.Expr)
	}
	return &Probe{Op: "q", Req: "q\t" + impl.Hex(s) + "\t" + impl.Hex(df), Q: &r, Expr: r.Expr,
		Impl: map[string]string{"P": r.P, "S": r.S, "G": r.G, "PG": r.PG, "PP": r.PP, "J": j}}
}

func ujProbe(data string) *Probe {
	r := impl.RunUnjson(data)
	return &Probe{Op: "uj", Req: "uj\t" + impl.Hex(data), UJ: &r, Expr: r.Expr, Loose: strings.Contains(r.U, "opaque") || strings.Contains(r.U, "nilptr"),
		Impl: map[string]string{"U": r.U, "V": r.V, "S": r.S, "G": r.G, "J": r.J, "R": r.R, "RP": r.RP}}
}

// mkProbe: one call of the public constructor expr.Expr on described argument values ("<op>\t<left>\t<right>…")
func mkProbe(call string) *Probe {
	parts := strings.Split(strings.TrimRight(call, "\t"), "\t")
	op, _ := strconv.Atoi(parts[0])
	r := impl.RunMk(op, parts[1:])
	return &Probe{Op: "mk", Req: "mk\t" + strings.Join(parts, "\t"), UJ: &r, Expr: r.Expr, Loose: strings.Contains(r.U, "opaque") || strings.Contains(r.U, "nilptr") || strings.Contains(call, "nilptr"),
		Impl: map[string]string{"U": r.U, "V": r.V, "S": r.S, "G": r.G, "J": r.J, "R": r.R, "RP": r.RP}}
}

func renderProbe(e *expr.Expression, desc string) *Probe {
	out := strings.Split(impl.RunRender(e, desc), "\t")
	canon := impl.CanonExpr(e)
	return &Probe{Op: "render", Req: "render\t" + desc + "\t" + canon, Expr: e, Loose: strings.Contains(canon, "opaque"),
		Impl: map[string]string{"R": out[0], "RP": out[1]}}
}

func specProbe(name string, args ...string) *Probe {
	return &Probe{Op: "spec", Req: "spec\t" + name + "\t" + strings.Join(args, "\t"), Impl: map[string]string{"OK": "1"}}
}

// splitPP splits the PP field "ok:<hex sql>|<params>".
func splitPP(f string) (string, string) {
	f = strings.TrimPrefix(f, "ok:")
	if i := strings.Index(f, "|"); i >= 0 {
		return f[:i], f[i+1:]
	}
	return f, ""
}

func lexProbe(c *Case) *Probe {
	o := impl.RunLexObs(c.S, fnv(c.S)^uint64(c.Idx))
	if strings.HasSuffix(o.Stream, ";err") {
		if r := impl.RunQuery(c.S, c.DF); r.P != "err" {
			o.Fails = append(o.Fails, "input with a lexical error was not rejected by Parse: "+r.P)
		}
	}
	return &Probe{Op: "lex", Req: "lex\t" + impl.Hex(c.S), Lex: &o, Impl: map[string]string{"LEX": o.Stream}}
}

// probesOf runs the implementation for one case.
func probesOf(c *Case) []*Probe {
	switch c.Kind {
	case "q", "tree":
		return []*Probe{qProbe(c.S, c.DF)}
	case "qimpl":
		// implementation only (inputs too large to be worth a model comparison): the probe asks the model nothing
		q := qProbe(c.S, c.DF)
		q.Req = "ping"
		q.Op = "noop"
		return []*Probe{q}
	case "sem":
		// C03: the inline SQL against the meaning tree the oracle built (c.Want)
		q := qProbe(c.S, c.DF)
		ps := []*Probe{q}
		if strings.HasPrefix(q.Impl["PG"], "ok:") {
			ps = append(ps, specProbe("c03", c.Want, q.Impl["PG"][3:]))
		}
		return ps
	case "conf":
		// C02: confinement and provenance of both SQL forms, judged on the implementation's tree and texts
		q := qProbe(c.S, c.DF)
		ps := []*Probe{q}
		if strings.HasPrefix(q.Impl["P"], "ok:") {
			tree := q.Impl["P"][3:]
			if strings.HasPrefix(q.Impl["PG"], "ok:") {
				ps = append(ps, specProbe("c02", tree, q.Impl["PG"][3:], "0", "0"))
			}
			if strings.HasPrefix(q.Impl["PP"], "ok:") {
				sql, params := splitPP(q.Impl["PP"])
				n := 0
				if params != "" {
					n = strings.Count(params, ",") + 1
				}
				ps = append(ps, specProbe("c02", tree, sql, "1", strconv.Itoa(n)))
			}
		}
		return ps
	case "par":
		// C04: parameterized against inline
		q := qProbe(c.S, c.DF)
		ps := []*Probe{q}
		if strings.HasPrefix(q.Impl["PG"], "ok:") && strings.HasPrefix(q.Impl["PP"], "ok:") {
			sql, params := splitPP(q.Impl["PP"])
			ps = append(ps, specProbe("c04", q.Impl["P"][3:], q.Impl["PG"][3:], sql, params))
		}
		return ps
	case "quoted":
		// C08: a quoted value; PostgreSQL's reading of the inline SQL is asked from the model of its scanner
		q := qProbe(c.S, c.DF)
		ps := []*Probe{q}
		if strings.HasPrefix(q.Impl["PG"], "ok:") {
			ps = append(ps, specProbe("sqlcanon", q.Impl["PG"][3:]))
		}
		if q.Expr != nil && c.Rel == "" {
			ps = append(ps, renderProbe(q.Expr, "shared"))
		}
		return ps
	case "dfpair":
		// C11: the same query with and without a default field
		a := qProbe(c.S, c.DF)
		b := qProbe(c.S, "")
		ps := []*Probe{a, b}
		if strings.HasPrefix(a.Impl["P"], "ok:") && strings.HasPrefix(b.Impl["P"], "ok:") {
			ps = append(ps, specProbe("c11", a.Impl["P"][3:], b.Impl["P"][3:], impl.Hex(c.DF)))
		}
		return ps
	case "qder":
		// C06: the implementation's tree is judged by the independent derivation checker
		q := qProbe(c.S, c.DF)
		ps := []*Probe{q}
		if strings.HasPrefix(q.Impl["P"], "ok:") {
			ps = append(ps, specProbe("c06", impl.Hex(c.S), impl.Hex(c.DF), q.Impl["P"][3:]))
		}
		return ps
	case "isolation":
		// C15 / C14: driver instances are independent values (run first; a shared map would also poison later cases)
		q := qProbe("a:b", "")
		q.Lex = &impl.LexObs{Fails: impl.DriverIsolation()}
		return []*Probe{q}
	case "qwf":
		// the implementation's tree is judged by the model's independent shape check (C10)
		q := qProbe(c.S, c.DF)
		ps := []*Probe{q}
		if strings.HasPrefix(q.Impl["P"], "ok:") {
			ps = append(ps, &Probe{Op: "spec", Req: "spec\twellformed\t" + q.Impl["P"][3:], Impl: map[string]string{"OK": "1"}})
		}
		return ps
	case "pair":
		return []*Probe{qProbe(c.S, c.DF), qProbe(c.S2, c.DF2)}
	case "lex":
		return []*Probe{lexProbe(c)}
	case "uj":
		return []*Probe{ujProbe(c.S)}
	case "mk":
		return []*Probe{mkProbe(c.S)}
	case "mkrt":
		// a constructor-built tree that is a parse result (re-parsing its printed form gives the identical tree) must
		// round-trip through JSON like any parse result: probes = the query probe of the printed form + the decode probe
		m := mkProbe(c.S)
		if strings.HasPrefix(m.Impl["U"], "ok:") && strings.HasPrefix(m.Impl["S"], "ok:") && m.Impl["V"] == "1" {
			printed, _ := hexDecode(m.Impl["S"][3:])
			q := qProbe(printed, "")
			if q.Impl["P"] == m.Impl["U"] && strings.HasPrefix(q.Impl["J"], "ok:") {
				raw, _ := hexDecode(q.Impl["J"][3:])
				return []*Probe{q, ujProbe(raw), m}
			}
		}
		return []*Probe{m}
	case "rt":
		// query → JSON → decode: the second probe decodes the implementation's own encoding
		q := qProbe(c.S, c.DF)
		ps := []*Probe{q}
		if strings.HasPrefix(q.Impl["J"], "ok:") {
			raw, _ := hexDecode(q.Impl["J"][3:])
			ps = append(ps, ujProbe(raw))
		}
		return ps
	case "render":
		var first *Probe
		if c.Aux == "json" {
			first = ujProbe(c.S)
		} else if c.Aux == "mk" {
			first = mkProbe(c.S)
		} else {
			first = qProbe(c.S, c.DF)
		}
		e := first.Expr
		ps := []*Probe{first}
		if e != nil {
			ps = append(ps, renderProbe(e, c.Rel))
			if strings.HasPrefix(c.Rel, "override:") || strings.HasPrefix(c.Rel, "override-inplace:") {
				ps = append(ps, renderProbe(e, "pg"))
			}
			if strings.HasPrefix(c.Rel, "instance-delete:") {
				ps = append(ps, renderProbe(e, "delete:"+strings.TrimPrefix(c.Rel, "instance-delete:")))
			}
			if strings.HasPrefix(c.Rel, "override-inplace:") {
				// the same override written into a COPY of the table must render the same
				ps = append(ps, renderProbe(e, "override:"+strings.TrimPrefix(c.Rel, "override-inplace:")))
			}
		}
		return ps
	}
	return nil
}

// runBatch evaluates a batch of cases; all model questions of the batch are pipelined.
func (e *engine) runBatch(id int, mp *modelproc.Proc, batch []Case) {
	var reqs []string
	all := make([][]*Probe, len(batch))
	for i := range batch {
		c := &batch[i]
		e.watch[id].Store(*c)
		e.journal(id, c)
		e.started[id].Store(time.Now().UnixNano())
		ps := probesOf(c)
		e.started[id].Store(0)
		for _, p := range ps {
			reqs = append(reqs, p.Req)
		}
		all[i] = ps
	}
	resps, err := mp.AskBatch(reqs)
	if err != nil {
		fmt.Fprintln(os.Stderr, "model driver failure:", err)
		os.Exit(2)
	}
	k := 0
	st := e.stats
	st.mu.Lock()
	defer st.mu.Unlock()
	for i := range batch {
		c := &batch[i]
		ps := all[i]
		st.Cases++
		st.PerGen[c.Gen]++
		var fails []Failure
		for pi, p := range ps {
			f := strings.Split(resps[k], "\t")
			k++
			p.Model = map[string]string{}
			for fi, name := range fieldNames[p.Op] {
				if fi < len(f) {
					p.Model[name] = f[fi]
				}
			}
			for _, name := range fieldNames[p.Op] {
				if p.Op == "spec" {
					continue // judged by the property's Spec function
				}
				if e.prop.Fields[name] && !fieldAgrees(name, p) {
					fails = append(fails, Failure{Case: *c, Class: "disagree", Clause: fmt.Sprintf("field %s of probe %d (%s)", name, pi+1, p.Op), Impl: p.Impl, Model: p.Model})
				}
			}
			for _, name := range fieldNames[p.Op] {
				st.Dist[p.Op+"."+name+":"+outcomeKind(p.Impl[name])]++
			}
		}
		nontrivial := false
		if len(ps) > 0 {
			p0 := ps[0]
			switch p0.Op {
			case "q":
				nontrivial = strings.HasPrefix(p0.Impl["P"], "ok:")
			case "uj", "mk":
				nontrivial = strings.HasPrefix(p0.Impl["U"], "ok:(E")
			case "lex":
				nontrivial = strings.Count(p0.Impl["LEX"], ":") >= 2
				st.Dist["lex-end:"+p0.Impl["LEX"][strings.LastIndex(p0.Impl["LEX"], ";")+1:]]++
			}
		}
		if nontrivial {
			st.Accepted++
			st.Distinct[fnv(c.S+"\x00"+c.DF+"\x00"+c.S2+"\x00"+c.DF2+"\x00"+c.Rel)] = struct{}{}
		}
		// specs judged on the implementation's own outputs
		if len(ps) > 0 {
			for _, sf := range e.prop.Spec(c, ps) {
				fails = append(fails, Failure{Case: *c, Class: "spec", Clause: sf, Impl: ps[0].Impl, Model: ps[0].Model})
			}
		}
		if len(st.Samples) < 3 || (st.Cases%50021 == 0 && len(st.Samples) < 12) {
			st.Samples = append(st.Samples, *c)
		}
		for _, f := range fails {
			if f.Class == "spec" {
				st.SpecFails++
			} else {
				st.Disagree++
			}
			// attribution happens here, so that hits of a listed finding can never crowd out a new failure
			if id, sub := e.kf.matchClause(e.cfg.Prop, &f); id != "" {
				st.KnownHits[id]++
				st.KnownHits[id+" | "+sub]++
				if st.KnownKept[id] < 10 {
					st.KnownKept[id]++
					st.Failures = append(st.Failures, f)
				}
			} else if f.Class == "spec" {
				// spec failures (they carry a failing input for the property itself) have their own budget: a flood of
				// disagreements must never crowd them out
				if st.NewKept < 3000 {
					st.NewKept++
					st.Failures = append(st.Failures, f)
				}
			} else if st.DisKept < 500 {
				st.DisKept++
				st.Failures = append(st.Failures, f)
			}
		}
	}
}

// loadCorpus reads corpus/<prop>.jsonl next to known_findings.json: one Case per line.
func loadCorpus(findingsPath, prop string) []Case {
	if findingsPath == "" {
		return nil
	}
	b, err := os.ReadFile(filepath.Join(filepath.Dir(findingsPath), "corpus", prop+".jsonl"))
	if err != nil {
		return nil
	}
	var out []Case
	for _, line := range strings.Split(string(b), "\n") {
		if strings.TrimSpace(line) == "" {
			continue
		}
		var c Case
		if json.Unmarshal([]byte(line), &c) == nil && c.Kind != "" {
			if c.Gen == "" {
				c.Gen = "corpus"
			}
			out = append(out, c)
		}
	}
	return out
}

// runCheck is `drive run`.
func runCheck(cfg RunConfig) int {
	prop, ok := properties[cfg.Prop]
	if !ok {
		fmt.Fprintln(os.Stderr, "unknown property", cfg.Prop)
		return 2
	}
	t0 := time.Now()
	e := &engine{kf: loadFindings(cfg.Findings), cfg: cfg, prop: prop, stats: newStats(), watch: make([]atomic.Value, cfg.Workers), started: make([]atomic.Int64, cfg.Workers)}
	if cfg.ReplayDir != "" {
		jdir := filepath.Join(cfg.ReplayDir, "journal-"+cfg.Prop)
		os.RemoveAll(jdir)
		os.MkdirAll(jdir, 0o755)
		for i := 0; i < cfg.Workers; i++ {
			f, _ := os.Create(filepath.Join(jdir, fmt.Sprintf("worker-%02d.json", i)))
			e.journals = append(e.journals, f)
		}
	}
	cases := make(chan []Case, cfg.Workers*2)
	var wg sync.WaitGroup
	for i := 0; i < cfg.Workers; i++ {
		wg.Add(1)
		go e.worker(i, cases, &wg)
	}
	// watchdog for the "never loops" clause of C01: an implementation call that takes longer than the budget
	stop := make(chan struct{})
	go func() {
		tick := time.NewTicker(500 * time.Millisecond)
		defer tick.Stop()
		for {
			select {
			case <-stop:
				return
			case <-tick.C:
				// runaway allocation (an implementation call that loops while growing a slice eats gigabytes per minute and
				// would take the machine down long before its time budget): re-run the calls in flight, oldest first, in a fresh
				// process that polices its own heap; the one that does not come back is the failing input
				var ms runtime.MemStats
				runtime.ReadMemStats(&ms)
				if ms.HeapAlloc > runHeapLimit {
					type inflight struct {
						at int64
						c  Case
					}
					var fl []inflight
					for i := range e.started {
						if s := e.started[i].Load(); s != 0 {
							if c, ok := e.watch[i].Load().(Case); ok {
								fl = append(fl, inflight{s, c})
							}
						}
					}
					sort.Slice(fl, func(a, b int) bool { return fl[a].at < fl[b].at })
					for _, f := range fl {
						if !confirmReturns(cfg, f.c, 60*time.Second) {
							path := filepath.Join(cfg.ReplayDir, cfg.Prop+"-hang.json")
							writeJSON(path, Failure{Case: f.c, Class: "crash", Clause: "an implementation call allocates without bound (the run's heap passed 12 GB; re-run alone in a fresh process the call passed 6 GB or did not return within 60 s)"})
							fmt.Printf("VIOLATION property=%s replay=%s\n", cfg.Prop, path)
							os.Exit(1)
						}
					}
					fmt.Printf("note: the heap of the run passed %d GB but every call in flight returns in a fresh process\n", runHeapLimit>>30)
					os.Exit(4)
				}
				for i := range e.started {
					s := e.started[i].Load()
					c, _ := e.watch[i].Load().(Case)
					// json.Marshal (custom MarshalJSON re-validated at every level) and the decoder are quadratic in nesting
					// depth: 2 000 juxtaposed terms (4 kB) take 3–8 s on an idle machine, 10^4 about 30 s
					budget := 30 * time.Second
					if len(c.S) > 1000 {
						budget = 120 * time.Second
					}
					if len(c.S) > 5000 {
						budget = 300 * time.Second
					}
					if s != 0 && time.Since(time.Unix(0, s)) > budget {
						// a slow call is only a violation if it is slow in a fresh process too: on an overloaded machine a
						// starved worker can exceed any wall-clock budget
						if confirmReturns(cfg, c, budget) {
							e.started[i].CompareAndSwap(s, time.Now().UnixNano())
							fmt.Printf("note: a call exceeded its budget in the run but returned within it in a fresh process (machine load): %.60q\n", c.S)
							continue
						}
						path := filepath.Join(cfg.ReplayDir, cfg.Prop+"-hang.json")
						writeJSON(path, Failure{Case: c, Class: "crash", Clause: "an implementation call did not return within its budget, in the run and again in a fresh process (30 s for inputs up to 1 kB, 120 s up to 5 kB, 300 s above; the slowest legitimate calls, json.Marshal and the decoder, are quadratic in nesting depth: about 30 s for a 10^4-deep tree)"})
						fmt.Printf("VIOLATION property=%s replay=%s\n", cfg.Prop, path)
						os.Exit(1)
					}
				}
			}
		}
	}()
	batch := make([]Case, 0, 256)
	emit := func(c Case) {
		batch = append(batch, c)
		if len(batch) == cap(batch) {
			cases <- batch
			batch = make([]Case, 0, 256)
		}
	}
	// the regression corpus runs first: witnesses of the listed open findings and minimised past failures
	for _, k := range loadFindings(cfg.Findings).list {
		if k.Status == "open" && k.Case != nil {
			for _, p := range k.Properties {
				if p == cfg.Prop {
					c := *k.Case
					c.Gen = "corpus:" + k.ID
					emit(c)
				}
			}
		}
	}
	for _, c := range loadCorpus(cfg.Findings, cfg.Prop) {
		emit(c)
	}
	prop.Generate(cfg, emit)
	if len(batch) > 0 {
		cases <- batch
	}
	close(cases)
	wg.Wait()
	close(stop)
	return report(cfg, e.stats, time.Since(t0))
}

// heap limits of the watchdog: the whole run, and one case alone in a fresh process (the largest legitimate cases — 2^16-value
// lists, 10^4-deep trees through the quadratic JSON encoder — stay far below)
const (
	runHeapLimit     = 12 << 30
	confirmHeapLimit = 6 << 30
)

// policeHeap makes the process exit with status 3 when its heap passes the limit.
func policeHeap(limit uint64) {
	go func() {
		for {
			var ms runtime.MemStats
			runtime.ReadMemStats(&ms)
			if ms.HeapAlloc > limit {
				fmt.Fprintf(os.Stderr, "runaway allocation: heap %d MB\n", ms.HeapAlloc>>20)
				os.Exit(3)
			}
			time.Sleep(100 * time.Millisecond)
		}
	}()
}

// confirmReturns runs the implementation calls of one case in a fresh process and reports whether they return within
// the budget.
func confirmReturns(cfg RunConfig, c Case, budget time.Duration) bool {
	os.MkdirAll(cfg.ReplayDir, 0o755)
	f, err := os.CreateTemp(cfg.ReplayDir, "confirm-*.json")
	if err != nil {
		return false
	}
	defer os.Remove(f.Name())
	b, _ := json.Marshal(c)
	f.Write(b)
	f.Close()
	ctx, cancel := context.WithTimeout(context.Background(), budget)
	defer cancel()
	cmd := exec.CommandContext(ctx, os.Args[0], "confirm", f.Name())
	return cmd.Run() == nil && ctx.Err() == nil
}

// Result is what `drive run` hands to bin/check.
type Result struct {
	Property   string           `json:"property"`
	Tier       string           `json:"tier"`
	Seed       uint64           `json:"seed"`
	Cases      int64            `json:"cases"`
	Accepted   int64            `json:"accepted"`
	Distinct   int              `json:"distinct_accepted"`
	PerGen     map[string]int64 `json:"per_generator"`
	Dist       map[string]int64 `json:"distribution"`
	Samples    []Case           `json:"samples"`
	Disagree   int64            `json:"disagreements"`
	SpecFails  int64            `json:"spec_failures"`
	Known      []string         `json:"known_findings_seen"`
	KnownHits  map[string]int64 `json:"known_finding_hits"`
	Violations []string         `json:"violation_files"`
	WallS      float64          `json:"wall_s"`
	Failures   []Failure        `json:"first_failures"`
}

func report(cfg RunConfig, st *Stats, wall time.Duration) int {
	res := Result{Property: cfg.Prop, Tier: cfg.Tier, Seed: cfg.Seed, Cases: st.Cases, Accepted: st.Accepted,
		Distinct: len(st.Distinct), PerGen: st.PerGen, Dist: st.Dist, Samples: st.Samples,
		Disagree: st.Disagree, SpecFails: st.SpecFails, KnownHits: st.KnownHits, WallS: wall.Seconds()}
	kf := loadFindings(cfg.Findings)
	seenKnown := map[string]bool{}
	exit := 0
	// spec failures first (they carry a failing input), then disagreements
	sort.SliceStable(st.Failures, func(i, j int) bool { return st.Failures[i].Class == "spec" && st.Failures[j].Class != "spec" })
	nfile := 0
	var firstDisagree *Failure
	specViolation := false
	for i := range st.Failures {
		f := &st.Failures[i]
		if id := kf.match(cfg.Prop, f); id != "" {
			f.Finding = id
			seenKnown[id] = true
			continue
		}
		if f.Class == "spec" {
			specViolation = true
			if nfile < 5 {
				path := filepath.Join(cfg.ReplayDir, fmt.Sprintf("%s-%s-%d.json", cfg.Prop, cfg.Tier, nfile))
				writeJSON(path, f)
				fmt.Printf("VIOLATION property=%s replay=%s\n", cfg.Prop, path)
				res.Violations = append(res.Violations, path)
				nfile++
			}
			exit = 1
		} else if firstDisagree == nil {
			firstDisagree = f
		}
	}
	if !specViolation && firstDisagree != nil {
		// the correspondence broke but no explored input fails the property's own spec
		path := filepath.Join(cfg.ReplayDir, fmt.Sprintf("%s-%s-correspondence.json", cfg.Prop, cfg.Tier))
		writeJSON(path, map[string]any{
			"broken":  "correspondence between the Lean model and the implementation",
			"clause":  firstDisagree.Clause,
			"failure": firstDisagree,
			"note":    "the theorems for this property are about the model; the implementation no longer behaves like the model on this input, and no input was found on which the property's executable spec fails",
		})
		fmt.Printf("VIOLATION property=%s replay=%s no-failing-input-found\n", cfg.Prop, path)
		res.Violations = append(res.Violations, path)
		exit = 1
	}
	for id := range seenKnown {
		res.Known = append(res.Known, id)
	}
	sort.Strings(res.Known)
	nf := len(st.Failures)
	if nf > 300 {
		nf = 300
	}
	res.Failures = st.Failures[:nf]
	if cfg.Out != "" {
		if err := writeJSON(cfg.Out, res); err != nil {
			fmt.Fprintln(os.Stderr, err)
			return 2
		}
	}
	return exit
}
