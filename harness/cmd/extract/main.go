// extract — regenerates GoLucene/Generated/Tables.lean from /repo's current working tree.
//
// Two sources, the more robust first: (1) live values read from the built packages (token type numbers,
// lex.IsTerminal, lex.HasLessPrecedence on every pair, Operator.String(), the keys of driver.Shared and of
// NewPostgresDriver().RenderFNs); (2) go/ast for what is unexported (symbol map, keyword switch, bracket
// sets, reducer order, validator / renderer maps, the parenthesisation exclusion chains, isSimple,
// operatesOnColumn, fromString).  A table whose AST shape is not recognised is emitted as `none`.
package main

import (
	"fmt"
	"go/ast"
	"go/parser"
	"go/token"
	"os"
	"path/filepath"
	"sort"
	"strconv"
	"strings"
	"unicode"

	"github.com/grindlemire/go-lucene/internal/lex"
	"github.com/grindlemire/go-lucene/pkg/driver"
	"github.com/grindlemire/go-lucene/pkg/lucene/expr"
)

var tokNames = []struct {
	name string
	val  lex.TokType
}{
	{"TErr", lex.TErr}, {"TLiteral", lex.TLiteral}, {"TQuoted", lex.TQuoted}, {"TRegexp", lex.TRegexp},
	{"TEqual", lex.TEqual}, {"TGreater", lex.TGreater}, {"TLess", lex.TLess}, {"TColon", lex.TColon},
	{"TPlus", lex.TPlus}, {"TMinus", lex.TMinus}, {"TTilde", lex.TTilde}, {"TCarrot", lex.TCarrot},
	{"TNot", lex.TNot}, {"TAnd", lex.TAnd}, {"TOr", lex.TOr}, {"TRParen", lex.TRParen}, {"TLParen", lex.TLParen},
	{"TLCurly", lex.TLCurly}, {"TRCurly", lex.TRCurly}, {"TTO", lex.TTO}, {"TLSquare", lex.TLSquare},
	{"TRSquare", lex.TRSquare}, {"TEOF", lex.TEOF}, {"TStart", lex.TStart},
}

var opNames = []struct {
	name string
	val  expr.Operator
}{
	{"Undefined", expr.Undefined}, {"And", expr.And}, {"Or", expr.Or}, {"Equals", expr.Equals}, {"Like", expr.Like},
	{"Not", expr.Not}, {"Range", expr.Range}, {"Must", expr.Must}, {"MustNot", expr.MustNot}, {"Boost", expr.Boost},
	{"Fuzzy", expr.Fuzzy}, {"Literal", expr.Literal}, {"Wild", expr.Wild}, {"Regexp", expr.Regexp},
	{"Greater", expr.Greater}, {"Less", expr.Less}, {"GreaterEq", expr.GreaterEq}, {"LessEq", expr.LessEq},
	{"In", expr.In}, {"List", expr.List},
}

func q(s string) string { return strconv.Quote(s) }

type out struct{ sb strings.Builder }

func (o *out) def(name, typ, val string) {
	fmt.Fprintf(&o.sb, "def %s : %s :=\n  %s\n\n", name, typ, val)
}

func list(items []string) string { return "[" + strings.Join(items, ", ") + "]" }

func parseFile(path string) (*token.FileSet, *ast.File) {
	fset := token.NewFileSet()
	f, err := parser.ParseFile(fset, path, nil, 0)
	if err != nil {
		fmt.Fprintln(os.Stderr, "extract: cannot parse", path, err)
		os.Exit(2)
	}
	return fset, f
}

// findVar returns the value expression of a package-level `var name = …`.
func findVar(f *ast.File, name string) ast.Expr {
	for _, d := range f.Decls {
		gd, ok := d.(*ast.GenDecl)
		if !ok || gd.Tok != token.VAR {
			continue
		}
		for _, sp := range gd.Specs {
			vs := sp.(*ast.ValueSpec)
			for i, n := range vs.Names {
				if n.Name == name && i < len(vs.Values) {
					return vs.Values[i]
				}
			}
		}
	}
	return nil
}

func findFunc(f *ast.File, name string) *ast.FuncDecl {
	for _, d := range f.Decls {
		fd, ok := d.(*ast.FuncDecl)
		if ok && fd.Name.Name == name {
			return fd
		}
	}
	return nil
}

func selName(e ast.Expr) string {
	switch v := e.(type) {
	case *ast.SelectorExpr:
		return v.Sel.Name
	case *ast.Ident:
		return v.Name
	case *ast.CallExpr:
		// basicCompound(expr.And) → "basicCompound(And)"
		args := []string{}
		for _, a := range v.Args {
			args = append(args, selName(a))
		}
		return selName(v.Fun) + "(" + strings.Join(args, ",") + ")"
	}
	return "?"
}

// mapPairs reads a composite literal map `{k: v, …}` as (key name, value name) pairs.
func mapPairs(e ast.Expr) ([][2]string, bool) {
	cl, ok := e.(*ast.CompositeLit)
	if !ok {
		return nil, false
	}
	var out [][2]string
	for _, el := range cl.Elts {
		kv, ok := el.(*ast.KeyValueExpr)
		if !ok {
			return nil, false
		}
		k := ""
		switch kk := kv.Key.(type) {
		case *ast.BasicLit:
			k = kk.Value
		default:
			k = selName(kv.Key)
		}
		v := ""
		switch vv := kv.Value.(type) {
		case *ast.BasicLit:
			v = vv.Value
		case *ast.CompositeLit:
			v = "{}"
		default:
			v = selName(kv.Value)
		}
		out = append(out, [2]string{k, v})
	}
	return out, true
}

// chainOps collects the identifiers X compared in a chain `v <op> pkg.X <join> v <op> pkg.Y …` inside fn,
// for every binary expression whose left operand's selector/ident is `field` (e.g. "Op", "op", "Typ").
// chainOps recognises exactly one shape: the body is a single `return c1 || c2 || …` where every ci is
// `<x>.<field> == <name>` (or `<field> == <name>`).  Anything else — extra statements, && , other comparisons — is
// "not recognised" (nil), so that a refactoring never yields a half-read table.
func chainOps(body *ast.BlockStmt, field string, cmp token.Token) []string {
	if body == nil || len(body.List) != 1 {
		return nil
	}
	rs, ok := body.List[0].(*ast.ReturnStmt)
	if !ok || len(rs.Results) != 1 {
		return nil
	}
	var res []string
	seen := map[string]bool{}
	var walk func(e ast.Expr) bool
	walk = func(e ast.Expr) bool {
		switch v := e.(type) {
		case *ast.ParenExpr:
			return walk(v.X)
		case *ast.BinaryExpr:
			if v.Op == token.LOR {
				return walk(v.X) && walk(v.Y)
			}
			if v.Op != cmp || selName(v.X) != field {
				return false
			}
			switch v.Y.(type) {
			case *ast.SelectorExpr, *ast.Ident:
			default:
				return false
			}
			name := selName(v.Y)
			if !seen[name] {
				seen[name] = true
				res = append(res, name)
			}
			return true
		}
		return false
	}
	if !walk(rs.Results[0]) {
		return nil
	}
	return res
}

// pureChain reads `c1 <join> c2 <join> …` where every ci is `<x>.<field> <cmp> <name>`; ok=false for any other shape.
func pureChain(e ast.Expr, field string, cmp, join token.Token) ([]string, bool) {
	var res []string
	var walk func(e ast.Expr) bool
	walk = func(e ast.Expr) bool {
		switch v := e.(type) {
		case *ast.ParenExpr:
			return walk(v.X)
		case *ast.BinaryExpr:
			if v.Op == join {
				return walk(v.X) && walk(v.Y)
			}
			if v.Op != cmp || selName(v.X) != field {
				return false
			}
			switch v.Y.(type) {
			case *ast.SelectorExpr, *ast.Ident:
			default:
				return false
			}
			res = append(res, selName(v.Y))
			return true
		}
		return false
	}
	if !walk(e) {
		return nil, false
	}
	return res, true
}

// chainIn finds, inside a larger function, THE condition (of an if statement or a return) that is a pure chain of at
// least two comparisons on the field; none or several candidates mean "not recognised".
func chainIn(fd *ast.FuncDecl, field string, cmp, join token.Token) ([]string, bool) {
	if fd == nil || fd.Body == nil {
		return nil, false
	}
	var cands [][]string
	consider := func(e ast.Expr) {
		if r, ok := pureChain(e, field, cmp, join); ok && len(r) >= 2 {
			cands = append(cands, r)
		}
	}
	ast.Inspect(fd.Body, func(n ast.Node) bool {
		switch v := n.(type) {
		case *ast.IfStmt:
			consider(v.Cond)
		case *ast.ReturnStmt:
			if len(v.Results) == 1 {
				consider(v.Results[0])
			}
		}
		return true
	})
	if len(cands) != 1 {
		return nil, false
	}
	return cands[0], true
}

func optList(items []string, ok bool) string {
	if !ok {
		return "none"
	}
	qs := make([]string, len(items))
	for i, s := range items {
		qs[i] = q(s)
	}
	return "some " + list(qs)
}

func main() {
	if len(os.Args) != 3 {
		fmt.Fprintln(os.Stderr, "usage: extract <repo> <Tables.lean>")
		os.Exit(2)
	}
	repo, dst := os.Args[1], os.Args[2]
	o := &out{}
	o.sb.WriteString("/- GENERATED by harness/cmd/extract from the working tree of /repo — do not edit, never commit with content. -/\nnamespace GoLucene.Generated\n\n")

	// ---- live values --------------------------------------------------------------------------
	var items []string
	for _, t := range tokNames {
		items = append(items, fmt.Sprintf("(%s, %d)", q(t.name), int(t.val)))
	}
	o.def("tokNums", "List (String × Nat)", list(items))
	items = nil
	for _, t := range tokNames {
		if lex.IsTerminal(lex.Token{Typ: t.val}) {
			items = append(items, q(t.name))
		}
	}
	o.def("terminals", "List String", list(items))
	items = nil
	for _, a := range tokNames {
		for _, b := range tokNames {
			if lex.HasLessPrecedence(lex.Token{Typ: a.val}, lex.Token{Typ: b.val}) {
				items = append(items, fmt.Sprintf("(%s, %s)", q(a.name), q(b.name)))
			}
		}
	}
	o.def("lessPrecedence", "List (String × String)", list(items))
	items = nil
	for _, op := range opNames {
		items = append(items, fmt.Sprintf("(%s, %d, %s)", q(op.name), int(op.val), q(op.val.String())))
	}
	o.def("operators", "List (String × Nat × String)", list(items))
	keys := func(m map[expr.Operator]driver.RenderFN) string {
		var ks []int
		for k := range m {
			ks = append(ks, int(k))
		}
		sort.Ints(ks)
		var it []string
		for _, k := range ks {
			it = append(it, strconv.Itoa(k))
		}
		return list(it)
	}
	o.def("sharedKeys", "List Nat", keys(driver.Shared))
	o.def("postgresKeys", "List Nat", keys(driver.NewPostgresDriver().RenderFNs))
	// the ASCII part of the class tables the lexer consults (live unicode.IsLetter / unicode.IsDigit)
	var letters, digits []string
	for r := rune(0); r < 128; r++ {
		if unicode.IsLetter(r) {
			letters = append(letters, strconv.Itoa(int(r)))
		}
		if unicode.IsDigit(r) {
			digits = append(digits, strconv.Itoa(int(r)))
		}
	}
	o.def("asciiLetters", "List Nat", list(letters))
	o.def("asciiDigits", "List Nat", list(digits))

	// ---- go/ast -------------------------------------------------------------------------------
	_, lexF := parseFile(filepath.Join(repo, "internal/lex/lex.go"))
	if pairs, ok := mapPairs(findVar(lexF, "symbols")); ok {
		items = nil
		for _, p := range pairs {
			r, err := strconv.Unquote(p[0])
			if err != nil || len([]rune(r)) != 1 {
				ok = false
				break
			}
			items = append(items, fmt.Sprintf("(%d, %s)", []rune(r)[0], q(p[1])))
		}
		if ok {
			sort.Strings(items)
			o.def("symbols", "Option (List (Nat × String))", "some "+list(items))
		} else {
			o.def("symbols", "Option (List (Nat × String))", "none")
		}
	} else {
		o.def("symbols", "Option (List (Nat × String))", "none")
	}
	// the character-class predicates of the lexer: each must be a single `return t1 || t2 || …` whose terms are
	// `r == 'c'` or `unicode.IsLetter(r)` / `unicode.IsDigit(r)`; the terms are emitted sorted (order is immaterial).
	// Any other shape gives `none` (the tie for these predicates is then by correspondence only).
	{
		ok := true
		items = nil
		var terms func(e ast.Expr) ([]string, bool)
		terms = func(e ast.Expr) ([]string, bool) {
			switch v := e.(type) {
			case *ast.ParenExpr:
				return terms(v.X)
			case *ast.BinaryExpr:
				if v.Op == token.LOR {
					a, oka := terms(v.X)
					b, okb := terms(v.Y)
					return append(a, b...), oka && okb
				}
				if v.Op == token.EQL {
					id, isID := v.X.(*ast.Ident)
					lit, isLit := v.Y.(*ast.BasicLit)
					if isID && isLit && id.Name == "r" && lit.Kind == token.CHAR {
						if c, _, _, err := strconv.UnquoteChar(lit.Value[1:len(lit.Value)-1], '\''); err == nil {
							return []string{fmt.Sprintf("rune %d", c)}, true
						}
					}
				}
			case *ast.CallExpr:
				if len(v.Args) == 1 {
					if id, isID := v.Args[0].(*ast.Ident); isID && id.Name == "r" {
						if sel, isSel := v.Fun.(*ast.SelectorExpr); isSel {
							if pk, isPk := sel.X.(*ast.Ident); isPk && pk.Name == "unicode" {
								return []string{"unicode." + sel.Sel.Name}, true
							}
						}
					}
				}
			}
			return nil, false
		}
		for _, fn := range []string{"isAlphaNumeric", "isWildcard", "isSpace", "isEscape"} {
			var ts []string
			good := false
			if fd := findFunc(lexF, fn); fd != nil && fd.Body != nil && len(fd.Body.List) == 1 {
				if rs, isRet := fd.Body.List[0].(*ast.ReturnStmt); isRet && len(rs.Results) == 1 {
					ts, good = terms(rs.Results[0])
				}
			}
			if !good {
				ok = false
				break
			}
			sort.Strings(ts)
			var qs []string
			for _, t := range ts {
				qs = append(qs, q(t))
			}
			items = append(items, fmt.Sprintf("(%s, %s)", q(fn), list(qs)))
		}
		if ok {
			o.def("classFns", "Option (List (String × List String))", "some "+list(items))
		} else {
			o.def("classFns", "Option (List (String × List String))", "none")
		}
	}
	// keywords: the switch in lexWord: case "AND": return l.emit(TAnd)
	{
		ok := false
		items = nil
		if fd := findFunc(lexF, "lexWord"); fd != nil {
			ast.Inspect(fd.Body, func(n ast.Node) bool {
				sw, isSw := n.(*ast.SwitchStmt)
				if !isSw {
					return true
				}
				for _, st := range sw.Body.List {
					cc := st.(*ast.CaseClause)
					if len(cc.List) != 1 || len(cc.Body) != 1 {
						continue
					}
					bl, isLit := cc.List[0].(*ast.BasicLit)
					rs, isRet := cc.Body[0].(*ast.ReturnStmt)
					if !isLit || !isRet || len(rs.Results) != 1 {
						continue
					}
					call, isCall := rs.Results[0].(*ast.CallExpr)
					if !isCall || len(call.Args) != 1 {
						continue
					}
					kw, _ := strconv.Unquote(bl.Value)
					items = append(items, fmt.Sprintf("(%s, %s)", q(kw), q(selName(call.Args[0]))))
					ok = true
				}
				return false
			})
		}
		if ok {
			o.def("keywords", "Option (List (String × String))", "some "+list(items))
		} else {
			o.def("keywords", "Option (List (String × String))", "none")
		}
	}
	_, parseF := parseFile(filepath.Join(repo, "parse.go"))
	chain := func(f *ast.File, fn, field string, cmp token.Token) ([]string, bool) {
		fd := findFunc(f, fn)
		if fd == nil {
			return nil, false
		}
		r := chainOps(fd.Body, field, cmp)
		return r, len(r) > 0
	}
	{
		r, ok := chain(parseF, "anyOpenBracket", "Typ", token.EQL)
		o.def("openBrackets", "Option (List String)", optList(r, ok))
		r, ok = chain(parseF, "anyClosingBracket", "Typ", token.EQL)
		o.def("closingBrackets", "Option (List String)", optList(r, ok))
		r, ok = chain(parseF, "endingRangeSubExpr", "Typ", token.EQL)
		o.def("rangeClosers", "Option (List String)", optList(r, ok))
	}
	_, redF := parseFile(filepath.Join(repo, "pkg/lucene/reduce/reduce.go"))
	{
		ok := false
		items = nil
		if cl, isCl := findVar(redF, "reducers").(*ast.CompositeLit); isCl {
			ok = true
			for _, el := range cl.Elts {
				// only a list of plain function names is recognised (a factory call such as binary(…) is not)
				if _, isIdent := el.(*ast.Ident); !isIdent {
					ok = false
					break
				}
				items = append(items, selName(el))
			}
		}
		o.def("reducerOrder", "Option (List String)", optList(items, ok))
	}
	_, exprF := parseFile(filepath.Join(repo, "pkg/lucene/expr/expression.go"))
	{
		r, ok := chain(exprF, "operatesOnColumn", "op", token.EQL)
		o.def("columnOps", "Option (List String)", optList(r, ok))
	}
	_, opF := parseFile(filepath.Join(repo, "pkg/lucene/expr/operator.go"))
	pairDef := func(name string, f *ast.File, v string, unquoteKey bool) {
		pairs, ok := mapPairs(findVar(f, v))
		items = nil
		for _, p := range pairs {
			k, val := p[0], p[1]
			if unquoteKey {
				if u, err := strconv.Unquote(k); err == nil {
					k = u
				}
			} else if u, err := strconv.Unquote(val); err == nil {
				val = u
			}
			items = append(items, fmt.Sprintf("(%s, %s)", q(k), q(val)))
		}
		sort.Strings(items)
		if ok {
			o.def(name, "Option (List (String × String))", "some "+list(items))
		} else {
			o.def(name, "Option (List (String × String))", "none")
		}
	}
	pairDef("opFromString", opF, "fromString", true)
	pairDef("opToString", opF, "toString", false)
	_, valF := parseFile(filepath.Join(repo, "pkg/lucene/expr/validator.go"))
	pairDef("validatorOf", valF, "validators", false)
	_, renF := parseFile(filepath.Join(repo, "pkg/lucene/expr/renderer.go"))
	pairDef("rendererOf", renF, "renderers", false)
	_, baseF := parseFile(filepath.Join(repo, "pkg/driver/base.go"))
	pairDef("sharedFn", baseF, "Shared", false)
	{
		r, ok := chainIn(findFunc(baseF, "Render"), "Op", token.NEQ, token.LAND)
		o.def("noParenOpsRender", "Option (List String)", optList(r, ok))
		r, ok = chainIn(findFunc(baseF, "RenderParam"), "Op", token.NEQ, token.LAND)
		o.def("noParenOpsRenderParam", "Option (List String)", optList(r, ok))
		r, ok = chainIn(findFunc(baseF, "isSimple"), "Op", token.EQL, token.LOR)
		o.def("simpleOps", "Option (List String)", optList(r, ok))
	}
	o.sb.WriteString("end GoLucene.Generated\n")
	if err := os.WriteFile(dst, []byte(o.sb.String()), 0o644); err != nil {
		fmt.Fprintln(os.Stderr, err)
		os.Exit(2)
	}
}
