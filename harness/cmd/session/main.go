// session — the C14 history check: the API calls of go-lucene issued from many goroutines on SHARED expression values
// and the shared package-level driver, built with the race detector.  Every result is compared with the result of the
// same call made alone beforehand (the sequential baseline, which the correspondence check ties to the model), and
// every shared expression is deep-compared before and after.
//
//	session -seed N -goroutines 16 -rounds 300 -queries 150 -out result.json
//
// Exit 0: no difference.  Exit 1: a history-dependent result or a modified shared value (details in -out).
// A data race makes the race detector print a report and the process exit with status 66 (GORACE=exitcode=66).
package main

import (
	"encoding/json"
	"flag"
	"fmt"
	"os"
	"sync"

	lucene "github.com/grindlemire/go-lucene"
	"github.com/grindlemire/go-lucene/pkg/driver"
	"github.com/grindlemire/go-lucene/pkg/lucene/expr"
	"github.com/grindlemire/go-lucene/verifharness/gen"
	"github.com/grindlemire/go-lucene/verifharness/impl"
)

type entry struct {
	q, df string
	e     *expr.Expression
	canon string
	base  map[string]string // baseline result per operation
}

var opNames = []string{"Parse", "ToPostgres", "ToParameterizedPostgres", "Render", "RenderParam", "String", "GoString", "Marshal", "Validate"}

var pg = driver.NewPostgresDriver()

func guard(f func() string) (out string) {
	defer func() {
		if r := recover(); r != nil {
			out = fmt.Sprintf("panic:%v", r)
		}
	}()
	return f()
}

func call(op string, en *entry) string {
	return guard(func() string {
		switch op {
		case "Parse":
			r := impl.RunQuery(en.q, en.df)
			return r.P
		case "ToPostgres":
			var s string
			var err error
			if en.df != "" {
				s, err = lucene.ToPostgres(en.q, lucene.WithDefaultField(en.df))
			} else {
				s, err = lucene.ToPostgres(en.q)
			}
			return fmt.Sprintf("%q %v", s, err != nil)
		case "ToParameterizedPostgres":
			var s string
			var ps []any
			var err error
			if en.df != "" {
				s, ps, err = lucene.ToParameterizedPostgres(en.q, lucene.WithDefaultField(en.df))
			} else {
				s, ps, err = lucene.ToParameterizedPostgres(en.q)
			}
			out := fmt.Sprintf("%q %s %v", s, impl.CanonParams(ps), err != nil)
			scribble(ps)
			return out
		case "Render":
			s, err := pg.Render(en.e)
			return fmt.Sprintf("%q %v", s, err != nil)
		case "RenderParam":
			s, ps, err := pg.RenderParam(en.e)
			out := fmt.Sprintf("%q %s %v", s, impl.CanonParams(ps), err != nil)
			scribble(ps)
			return out
		case "String":
			return en.e.String()
		case "GoString":
			return fmt.Sprintf("%#v", en.e)
		case "Marshal":
			b, err := json.Marshal(en.e)
			return fmt.Sprintf("%s %v", b, err != nil)
		case "Validate":
			return fmt.Sprint(expr.Validate(en.e) == nil)
		}
		return "?"
	})
}

func main() {
	seed := flag.Uint64("seed", 1, "seed")
	ng := flag.Int("goroutines", 16, "goroutines")
	rounds := flag.Int("rounds", 300, "operations per goroutine")
	nq := flag.Int("queries", 150, "size of the shared pool")
	out := flag.String("out", "", "result JSON")
	flag.Parse()

	rng := gen.NewRng(*seed, 14)
	var pool []*entry
	for len(pool) < *nq {
		t := gen.RandomTreeTop(rng, 1+rng.Intn(4))
		q := gen.Spell(rng, t.Print(), rng.Intn(3))
		if rng.Chance(1, 6) {
			q = gen.FieldQuery(rng)
		}
		if rng.Chance(1, 8) {
			// patterns mixing escaped and real wildcards, both-open ranges, empty strings; the SAME term text in field and in
			// value position, a bare `*` / `?` in every position (a change that interns or caches nodes by their text makes
			// one query's tree depend on which queries were parsed before it)
			q = gen.Pick(rng, []string{`a:b\*c*`, `a:x\?y?z`, `a:[* TO *]`, `f:"" AND g:h*`, `a:b\*c* OR d:/r\/e/`, `n:{* TO "*"}`,
				`*:foo`, `*:*`, `a:*`, `a:[* TO 5]`, `*:[1 TO 2]`, `*:>5`, `* AND a:b`, `?:x`, `a:?`, `x:x`, `a:a AND b:a`, `a:(a OR b)`,
				`1:1`, `a:1 AND 1:a`, `"a":"a"`, `a:"a"`, `/a/:/a/`, `a:/a/`})
		}
		// different goroutines must be able to parse with DIFFERENT default fields at the same time
		df := ""
		if rng.Chance(1, 2) {
			df = gen.Pick(rng, []string{"df", "body", "title", "d f", "x'y", "field3", "field6"})
		}
		var e *expr.Expression
		var err error
		if df != "" {
			e, err = lucene.Parse(q, lucene.WithDefaultField(df))
		} else {
			e, err = lucene.Parse(q)
		}
		if err != nil {
			continue
		}
		en := &entry{q: q, df: df, e: e, canon: impl.CanonExpr(e), base: map[string]string{}}
		for _, op := range opNames {
			en.base[op] = call(op, en)
		}
		// determinism of the baseline itself: a second sequential call must agree
		for _, op := range opNames {
			if again := call(op, en); again != en.base[op] {
				fail(*out, map[string]any{"kind": "repeated sequential call differs", "op": op, "query": q, "df": df, "first": en.base[op], "second": again})
			}
		}
		pool = append(pool, en)
	}

	// hand-built expressions (raw values in range boundaries, constructor-built trees): no query text, only the
	// operations on the expression itself; "using an expression never modifies it" must hold for these too
	for _, e := range handBuilt() {
		en := &entry{e: e, canon: impl.CanonExpr(e), base: map[string]string{}}
		for _, op := range exprOps {
			en.base[op] = call(op, en)
			if now := impl.CanonExpr(en.e); now != en.canon {
				fail(*out, map[string]any{"kind": "an operation modified the expression it was given", "op": op, "before": en.canon, "after": now})
			}
		}
		for _, op := range exprOps {
			if again := call(op, en); again != en.base[op] {
				fail(*out, map[string]any{"kind": "repeated sequential call differs (hand-built expression)", "op": op, "expr": en.canon, "first": en.base[op], "second": again})
			}
		}
		pool = append(pool, en)
	}

	type diff struct {
		Op, Query, DF, Want, Got string
		Goroutine, Round         int
	}
	var mu sync.Mutex
	var diffs []diff
	var wg sync.WaitGroup
	total := 0
	for g := 0; g < *ng; g++ {
		wg.Add(1)
		go func(g int) {
			defer wg.Done()
			r := gen.NewRng(*seed, uint64(1000+g))
			for i := 0; i < *rounds; i++ {
				en := pool[r.Intn(len(pool))]
				op := opNames[r.Intn(len(opNames))]
				if en.q == "" {
					op = exprOps[r.Intn(len(exprOps))]
				}
				got := call(op, en)
				if got != en.base[op] {
					mu.Lock()
					if len(diffs) < 20 {
						diffs = append(diffs, diff{op, en.q, en.df, en.base[op], got, g, i})
					}
					mu.Unlock()
				}
			}
		}(g)
		total += *rounds
	}
	wg.Wait()
	modified := []map[string]string{}
	for _, en := range pool {
		if now := impl.CanonExpr(en.e); now != en.canon {
			modified = append(modified, map[string]string{"query": en.q, "df": en.df, "before": en.canon, "after": now})
		}
	}
	res := map[string]any{"pool": len(pool), "goroutines": *ng, "operations": total, "differences": diffs, "modified": modified,
		"sample_queries": []string{pool[0].q, pool[len(pool)/2].q, pool[len(pool)-1].q}}
	if *out != "" {
		b, _ := json.MarshalIndent(res, "", " ")
		os.WriteFile(*out, b, 0o644)
	}
	if len(diffs) > 0 || len(modified) > 0 {
		os.Exit(1)
	}
}

var exprOps = []string{"Render", "RenderParam", "String", "GoString", "Marshal", "Validate"}

func handBuilt() []*expr.Expression {
	col := func(s string) *expr.Expression { return expr.Lit(expr.Column(s)) }
	rb := func(mn, mx any, incl bool) *expr.Expression {
		return &expr.Expression{Left: col("a"), Op: expr.Range, Right: &expr.RangeBoundary{Min: mn, Max: mx, Inclusive: incl}}
	}
	return []*expr.Expression{
		rb(1, 10, true), rb("*", 5, true), rb("b", "*", false), rb(1.5, 2.5, false), rb(expr.Lit(1), expr.Lit("*"), true),
		expr.Rang(col("a"), 1, 10, true), expr.Rang(col("a"), "*", "z", false),
		expr.Eq(col("a"), "b*"), expr.Eq(col("a"), "/re/"), expr.Eq(col("a"), 5), expr.AND(expr.Eq(col("a"), "x"), expr.NOT(expr.Eq(col("b"), 1.5))),
		expr.IN(col("a"), expr.LIST([]*expr.Expression{expr.Lit("x"), expr.Lit(2)})),
		expr.LIKE(col("a"), "abc"), expr.LIKE(col("a"), expr.Lit("plain")), expr.Eq(col("a"), expr.Lit("x*")), jsonExpr(`{"left":"a","operator":"LIKE","right":"abc"}`),
		jsonExpr(`{"left":"a","operator":"AND","right":{"left":"b","operator":"LIKE","right":"plain"}}`),
		expr.BOOST(expr.Eq(col("a"), "b"), 2.5), expr.FUZZY(expr.Eq(col("a"), "b"), 2), expr.MUST(expr.Lit("x")), expr.MUSTNOT(expr.Lit("y")),
		{Left: "raw", Op: expr.Literal}, {Left: col("a"), Op: expr.Equals, Right: "rawright"},
	}
}

// scribble overwrites a returned parameter slice (and appends to it): a caller owns what it was given, so this must not
// change any later result
func scribble(ps []any) {
	for i := range ps {
		ps[i] = "scribbled"
	}
	_ = append(ps, "extra")
}

func jsonExpr(doc string) *expr.Expression {
	e := &expr.Expression{}
	if err := json.Unmarshal([]byte(doc), e); err != nil {
		return expr.Lit("undecodable")
	}
	return e
}

func fail(out string, v map[string]any) {
	if out != "" {
		b, _ := json.MarshalIndent(map[string]any{"differences": []any{v}}, "", " ")
		os.WriteFile(out, b, 0o644)
	}
	os.Exit(1)
}
