// probe prints what the implementation does with one query: String(), %#v, JSON, the decoded tree's String(),
// inline and parameterized SQL.  Usage: probe [-df field] <query>...
package main

import (
	"encoding/json"
	"flag"
	"fmt"

	lucene "github.com/grindlemire/go-lucene"
	"github.com/grindlemire/go-lucene/pkg/lucene/expr"
)

func main() {
	df := flag.String("df", "", "default field")
	flag.Parse()
	for _, q := range flag.Args() {
		parse := func() (*expr.Expression, error) { return lucene.Parse(q) }
		pg := func() (string, error) { return lucene.ToPostgres(q) }
		ppg := func() (string, []any, error) { return lucene.ToParameterizedPostgres(q) }
		if *df != "" {
			parse = func() (*expr.Expression, error) { return lucene.Parse(q, lucene.WithDefaultField(*df)) }
			pg = func() (string, error) { return lucene.ToPostgres(q, lucene.WithDefaultField(*df)) }
			ppg = func() (string, []any, error) { return lucene.ToParameterizedPostgres(q, lucene.WithDefaultField(*df)) }
		}
		e, err := parse()
		fmt.Printf("query   %q\n", q)
		if err != nil {
			fmt.Printf("  error %v\n", err)
			continue
		}
		fmt.Printf("  print %s\n  go    %#v\n", e, e)
		b, err := json.Marshal(e)
		fmt.Printf("  json  %s %v\n", b, err)
		var d expr.Expression
		if err := json.Unmarshal(b, &d); err != nil {
			fmt.Printf("  decode error %v\n", err)
		} else {
			fmt.Printf("  again %s\n", &d)
		}
		s, err := pg()
		fmt.Printf("  sql   %s %v\n", s, err)
		s, ps, err := ppg()
		fmt.Printf("  psql  %s %#v %v\n", s, ps, err)
	}
}
