// Package modelproc talks to the compiled Lean model driver `modeld` over its line protocol.
package modelproc

import (
	"bufio"
	"fmt"
	"io"
	"os/exec"
	"strings"
)

// Proc is one modeld subprocess. Not safe for concurrent use; give each worker its own.
type Proc struct {
	cmd *exec.Cmd
	in  *bufio.Writer
	out *bufio.Reader
	wc  io.WriteCloser
}

// Start launches modeld with the unicode tables file.
func Start(modeld, tables string) (*Proc, error) {
	cmd := exec.Command(modeld, tables)
	wc, err := cmd.StdinPipe()
	if err != nil {
		return nil, err
	}
	rc, err := cmd.StdoutPipe()
	if err != nil {
		return nil, err
	}
	if err := cmd.Start(); err != nil {
		return nil, err
	}
	p := &Proc{cmd: cmd, in: bufio.NewWriterSize(wc, 1<<20), out: bufio.NewReaderSize(rc, 1<<20), wc: wc}
	resp, err := p.Ask("ping")
	if err != nil || resp != "pong" {
		return nil, fmt.Errorf("modeld handshake failed: %q %v", resp, err)
	}
	return p, nil
}

// Ask sends one request line and reads one response line.
func (p *Proc) Ask(line string) (string, error) {
	if _, err := p.in.WriteString(line + "\n"); err != nil {
		return "", err
	}
	if err := p.in.Flush(); err != nil {
		return "", err
	}
	resp, err := p.out.ReadString('\n')
	if err != nil {
		return "", fmt.Errorf("modeld died on request %.200q: %v", line, err)
	}
	return strings.TrimRight(resp, "\n"), nil
}

// AskBatch pipelines many requests (writer and reader run concurrently to avoid pipe deadlock).
func (p *Proc) AskBatch(lines []string) ([]string, error) {
	errc := make(chan error, 1)
	go func() {
		for _, l := range lines {
			if _, err := p.in.WriteString(l + "\n"); err != nil {
				errc <- err
				return
			}
		}
		errc <- p.in.Flush()
	}()
	out := make([]string, 0, len(lines))
	for i := range lines {
		resp, err := p.out.ReadString('\n')
		if err != nil {
			return out, fmt.Errorf("modeld died at request %d %.200q: %v", i, lines[i], err)
		}
		out = append(out, strings.TrimRight(resp, "\n"))
	}
	if err := <-errc; err != nil {
		return out, err
	}
	return out, nil
}

// Close ends the subprocess.
func (p *Proc) Close() {
	p.wc.Close()
	p.cmd.Wait()
}
