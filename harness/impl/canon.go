// Package impl runs the real go-lucene implementation in-process and prints its results in the
// canonical text formats of the line protocol (see PROTOCOL.md).
package impl

import (
	"encoding/hex"
	"fmt"
	"math"
	"reflect"
	"strconv"
	"strings"

	"github.com/grindlemire/go-lucene/pkg/lucene/expr"
)

// Hex encodes a Go string (arbitrary bytes).
func Hex(s string) string { return hex.EncodeToString([]byte(s)) }

// CanonNode prints an `any` found in Expression.Left/Right or RangeBoundary.Min/Max.
func CanonNode(in any) string {
	var sb strings.Builder
	canonNode(&sb, in)
	return sb.String()
}

// CanonExpr prints an expression tree.
func CanonExpr(e *expr.Expression) string {
	var sb strings.Builder
	canonExpr(&sb, e)
	return sb.String()
}

func canonNode(sb *strings.Builder, in any) {
	switch v := in.(type) {
	case nil:
		sb.WriteString("nil")
	case string:
		sb.WriteString("s:" + Hex(v))
	case int:
		sb.WriteString("i:" + strconv.Itoa(v))
	case float64:
		fmt.Fprintf(sb, "f:%016x", math.Float64bits(v))
	case bool:
		if v {
			sb.WriteString("b:1")
		} else {
			sb.WriteString("b:0")
		}
	case expr.Column:
		sb.WriteString("c:" + Hex(string(v)))
	case *expr.Expression:
		if v == nil {
			sb.WriteString("nilptr")
			return
		}
		canonExpr(sb, v)
	case []*expr.Expression:
		sb.WriteString("(L")
		for _, e := range v {
			sb.WriteString(" ")
			if e == nil {
				sb.WriteString("nilptr")
			} else {
				canonExpr(sb, e)
			}
		}
		sb.WriteString(")")
	case *expr.RangeBoundary:
		if v == nil {
			sb.WriteString("nilptr")
			return
		}
		sb.WriteString("(B ")
		canonNode(sb, v.Min)
		sb.WriteString(" ")
		canonNode(sb, v.Max)
		if v.Inclusive {
			sb.WriteString(" b:1)")
		} else {
			sb.WriteString(" b:0)")
		}
	default:
		sb.WriteString("opaque")
	}
}

func canonExpr(sb *strings.Builder, e *expr.Expression) {
	rv := reflect.ValueOf(e).Elem()
	boost := rv.FieldByName("boostPower").Float()
	fuzzy := rv.FieldByName("fuzzyDistance").Int()
	fmt.Fprintf(sb, "(E %d ", int(e.Op))
	canonNode(sb, e.Left)
	sb.WriteString(" ")
	canonNode(sb, e.Right)
	fmt.Fprintf(sb, " f:%016x i:%d)", math.Float64bits(boost), fuzzy)
}

// CanonParams prints a parameter list.
func CanonParams(ps []any) string {
	parts := make([]string, len(ps))
	for i, p := range ps {
		parts[i] = CanonNode(p)
	}
	return strings.Join(parts, ",")
}
