package impl

import (
	"encoding/hex"
	"fmt"
	"math"
	"reflect"
	"strconv"
	"strings"
	"unsafe"

	"github.com/grindlemire/go-lucene/pkg/lucene/expr"
)

// FromCanon rebuilds the Go value a canonical node text denotes (the inverse of CanonNode): raw values for prims,
// *expr.Expression for (E …) with the two unexported fields set, []*expr.Expression for (L …), *expr.RangeBoundary for (B …).
func FromCanon(text string) (any, error) {
	toks := strings.Fields(strings.ReplaceAll(strings.ReplaceAll(text, "(", "( "), ")", " )"))
	v, rest, err := fromCanon(toks)
	if err != nil {
		return nil, err
	}
	if len(rest) != 0 {
		return nil, fmt.Errorf("trailing tokens")
	}
	return v, nil
}

func setHidden(e *expr.Expression, boost float64, fuzzy int64) {
	rv := reflect.ValueOf(e).Elem()
	f := rv.FieldByName("boostPower")
	reflect.NewAt(f.Type(), unsafe.Pointer(f.UnsafeAddr())).Elem().SetFloat(boost)
	g := rv.FieldByName("fuzzyDistance")
	reflect.NewAt(g.Type(), unsafe.Pointer(g.UnsafeAddr())).Elem().SetInt(fuzzy)
}

func fromCanon(t []string) (any, []string, error) {
	if len(t) == 0 {
		return nil, nil, fmt.Errorf("empty")
	}
	h := t[0]
	switch {
	case h == "nil":
		return nil, t[1:], nil
	case h == "nilptr":
		return (*expr.Expression)(nil), t[1:], nil
	case strings.HasPrefix(h, "s:"):
		b, err := hex.DecodeString(h[2:])
		return string(b), t[1:], err
	case strings.HasPrefix(h, "c:"):
		b, err := hex.DecodeString(h[2:])
		return expr.Column(string(b)), t[1:], err
	case strings.HasPrefix(h, "i:"):
		n, err := strconv.Atoi(h[2:])
		return n, t[1:], err
	case strings.HasPrefix(h, "f:"):
		u, err := strconv.ParseUint(h[2:], 16, 64)
		return math.Float64frombits(u), t[1:], err
	case h == "b:1":
		return true, t[1:], nil
	case h == "b:0":
		return false, t[1:], nil
	case h == "(" && len(t) > 1 && t[1] == "E":
		if len(t) < 3 {
			return nil, nil, fmt.Errorf("short expr")
		}
		op, err := strconv.Atoi(t[2])
		if err != nil {
			return nil, nil, err
		}
		l, rest, err := fromCanon(t[3:])
		if err != nil {
			return nil, nil, err
		}
		r, rest, err := fromCanon(rest)
		if err != nil {
			return nil, nil, err
		}
		if len(rest) < 3 || !strings.HasPrefix(rest[0], "f:") || !strings.HasPrefix(rest[1], "i:") || rest[2] != ")" {
			return nil, nil, fmt.Errorf("bad expr tail")
		}
		u, err := strconv.ParseUint(rest[0][2:], 16, 64)
		if err != nil {
			return nil, nil, err
		}
		fz, err := strconv.ParseInt(rest[1][2:], 10, 64)
		if err != nil {
			return nil, nil, err
		}
		e := &expr.Expression{Left: l, Op: expr.Operator(op), Right: r}
		setHidden(e, math.Float64frombits(u), fz)
		return e, rest[3:], nil
	case h == "(" && len(t) > 1 && t[1] == "L":
		rest := t[2:]
		out := []*expr.Expression{}
		for len(rest) > 0 && rest[0] != ")" {
			var v any
			var err error
			v, rest, err = fromCanon(rest)
			if err != nil {
				return nil, nil, err
			}
			e, ok := v.(*expr.Expression)
			if !ok {
				return nil, nil, fmt.Errorf("list item is not an expression")
			}
			out = append(out, e)
		}
		if len(rest) == 0 {
			return nil, nil, fmt.Errorf("unclosed list")
		}
		return out, rest[1:], nil
	case h == "(" && len(t) > 1 && t[1] == "B":
		mn, rest, err := fromCanon(t[2:])
		if err != nil {
			return nil, nil, err
		}
		mx, rest, err := fromCanon(rest)
		if err != nil {
			return nil, nil, err
		}
		if len(rest) < 2 || rest[1] != ")" {
			return nil, nil, fmt.Errorf("bad bound tail")
		}
		return &expr.RangeBoundary{Min: mn, Max: mx, Inclusive: rest[0] == "b:1"}, rest[2:], nil
	}
	return nil, nil, fmt.Errorf("unknown token %q", h)
}

// RunMk is expr.Expr(left, op, right...) on the described argument values, then every consumer of the result
// (the fields of the `uj` observation).
func RunMk(op int, args []string) UJResult {
	res := UJResult{U: "panic", V: "-", S: "-", G: "-", J: "-", R: "-", RP: "-"}
	vals := make([]any, len(args))
	for i, a := range args {
		v, err := FromCanon(a)
		if err != nil {
			res.U = "bad-input"
			return res
		}
		vals[i] = v
	}
	if len(vals) == 0 {
		res.U = "bad-input"
		return res
	}
	var e *expr.Expression
	u := guard(func() string {
		if sl, isSlice := vals[0].([]*expr.Expression); isSlice && expr.Operator(op) == expr.List {
			// the one call shape the library uses for List: LIST(slice), i.e. Expr([]any{slice}, List) (the model's mkExpr
			// takes the slice as `left` for this operator)
			e = expr.Expr([]any{sl}, expr.List, vals[1:]...)
		} else {
			e = expr.Expr(vals[0], expr.Operator(op), vals[1:]...)
		}
		if e == nil {
			return "err"
		}
		return "ok:" + CanonExpr(e)
	})
	res.U = u
	if !strings.HasPrefix(u, "ok:") {
		return res
	}
	return consumers(e, res)
}
