package impl

import (
	"fmt"
	"strings"

	lucene "github.com/grindlemire/go-lucene"
	"github.com/grindlemire/go-lucene/internal/lex"
	"github.com/grindlemire/go-lucene/pkg/lucene/expr"
)

// QResult is what the public API does with one query string, in canonical text.
type QResult struct {
	P, S, G, PG, PP string
	// observations that are properties of the implementation's own outputs (C10)
	AllOrNothing bool   // Parse: (e != nil) == (err == nil); ToPostgres: (s != "") == (err == nil); param: err => s == ""
	AONDetail    string // which clause failed
	Expr         *expr.Expression
}

func guard(f func() string) (out string) {
	defer func() {
		if r := recover(); r != nil {
			out = "panic"
		}
	}()
	return f()
}

// RunQuery runs Parse, String, GoString, ToPostgres and ToParameterizedPostgres on one input.
func RunQuery(s, df string) QResult {
	var r QResult
	r.AllOrNothing = true
	var e *expr.Expression
	r.P = guard(func() string {
		var err error
		if df != "" {
			e, err = lucene.Parse(s, lucene.WithDefaultField(df))
		} else {
			e, err = lucene.Parse(s)
		}
		if (e != nil) != (err == nil) {
			r.AllOrNothing = false
			r.AONDetail = fmt.Sprintf("Parse returned e!=nil:%v err==nil:%v", e != nil, err == nil)
		}
		if err != nil {
			e = nil
			return "err"
		}
		return "ok:" + CanonExpr(e)
	})
	r.Expr = e
	if e != nil {
		r.S = guard(func() string { return "ok:" + Hex(e.String()) })
		r.G = guard(func() string { return "ok:" + Hex(fmt.Sprintf("%#v", e)) })
	} else {
		r.S, r.G = "-", "-"
	}
	r.PG = guard(func() string {
		var out string
		var err error
		if df != "" {
			out, err = lucene.ToPostgres(s, lucene.WithDefaultField(df))
		} else {
			out, err = lucene.ToPostgres(s)
		}
		if (out != "") != (err == nil) {
			r.AllOrNothing = false
			r.AONDetail = fmt.Sprintf("ToPostgres returned s!=\"\":%v err==nil:%v", out != "", err == nil)
		}
		if err != nil {
			return "err"
		}
		return "ok:" + Hex(out)
	})
	r.PP = guard(func() string {
		var out string
		var ps []any
		var err error
		if df != "" {
			out, ps, err = lucene.ToParameterizedPostgres(s, lucene.WithDefaultField(df))
		} else {
			out, ps, err = lucene.ToParameterizedPostgres(s)
		}
		if err != nil {
			if out != "" {
				r.AllOrNothing = false
				r.AONDetail = "ToParameterizedPostgres returned SQL together with an error"
			}
			return "err"
		}
		return "ok:" + Hex(out) + "|" + CanonParams(ps)
	})
	return r
}

// LexResult is the token stream of internal/lex in canonical text: "typ:hexval,...;eof|err".
func RunLex(s string, maxToks int) string {
	return guard(func() string {
		l := lex.Lex(s)
		out := ""
		n := 0
		for {
			t := l.Next()
			if t.Typ == lex.TEOF {
				return out + ";eof"
			}
			if t.Typ == lex.TErr {
				return out + ";err"
			}
			if n > 0 {
				out += ","
			}
			out += fmt.Sprintf("%d:%s", int(t.Typ), Hex(t.Val))
			n++
			if n > maxToks {
				return out + ";runaway"
			}
		}
	})
}

// LexObs is what the lexer does on one input, with the observations C16 is about judged on the implementation itself.
type LexObs struct {
	Stream string   // canonical token stream "typ:hexval,...;eof|err"
	Fails  []string // violated clauses of C16 (empty = all hold)
}

func isLexWs(c byte) bool { return c == ' ' || c == '\t' || c == '\r' || c == '\n' }

// RunLexObs lexes s with Peek calls interleaved as dictated by peeks (bit i set: peek twice before the i-th Next).
func RunLexObs(s string, peeks uint64) (obs LexObs) {
	defer func() {
		if r := recover(); r != nil {
			obs.Stream = "panic"
			obs.Fails = append(obs.Fails, fmt.Sprintf("lexer panicked: %v", r))
		}
	}()
	l := lex.Lex(s)
	pos := 0 // how much of s the tokens so far account for
	n := 0
	var sb []byte
	for {
		var peeked *lex.Token
		if peeks&(1<<(uint(n)%64)) != 0 {
			p1 := l.Peek()
			p2 := l.Peek()
			if p1 != p2 {
				obs.Fails = append(obs.Fails, "two successive Peeks differ")
			}
			peeked = &p1
		}
		t := l.Next()
		if peeked != nil && (peeked.Typ != t.Typ || (t.Typ != lex.TErr && peeked.Val != t.Val)) {
			obs.Fails = append(obs.Fails, fmt.Sprintf("Peek returned %v but Next returned %v", *peeked, t))
		}
		if t.Typ == lex.TEOF || t.Typ == lex.TErr {
			end := ";eof"
			if t.Typ == lex.TErr {
				end = ";err"
			}
			// skipped whitespace, then (eof) nothing more or (err) a non-empty rest
			for pos < len(s) && isLexWs(s[pos]) {
				pos++
			}
			if t.Typ == lex.TEOF && pos != len(s) {
				obs.Fails = append(obs.Fails, fmt.Sprintf("end of input reported with %d bytes unread", len(s)-pos))
			}
			if t.Typ == lex.TErr && pos == len(s) {
				obs.Fails = append(obs.Fails, "lexical error reported at the very end of the input")
			}
			// after the end or an error: end-of-input forever, for Peek and Next
			for i := 0; i < 3; i++ {
				if p := l.Peek(); p.Typ != lex.TEOF {
					obs.Fails = append(obs.Fails, "Peek after the end is not EOF")
				}
				if x := l.Next(); x.Typ != lex.TEOF {
					obs.Fails = append(obs.Fails, "Next after the end is not EOF")
				}
			}
			obs.Stream = string(sb) + end
			return obs
		}
		for pos < len(s) && isLexWs(s[pos]) {
			pos++
		}
		if len(t.Val) == 0 || len(s)-pos < len(t.Val) || s[pos:pos+len(t.Val)] != t.Val {
			obs.Fails = append(obs.Fails, fmt.Sprintf("token %d %q is not the next piece of the input at byte %d", n, t.Val, pos))
			obs.Stream = string(sb) + ";lost"
			return obs
		}
		pos += len(t.Val)
		// delimiters, judged independently of the lexer: a quoted token is opened and closed by the same quote character
		// with none in between; a regexp token is closed by the FIRST slash that is not preceded by an odd run of
		// backslashes (an unterminated quote / regexp must be a lexical error, never a token)
		switch t.Typ {
		case lex.TQuoted:
			v := t.Val
			if len(v) < 2 || (v[0] != '"' && v[0] != '\'') || v[len(v)-1] != v[0] || strings.IndexByte(v[1:len(v)-1], v[0]) >= 0 {
				obs.Fails = append(obs.Fails, fmt.Sprintf("token %d %q is not one quoted phrase closed by its own quote character", n, v))
			}
		case lex.TRegexp:
			v := t.Val
			closed := -1
			for i := 1; i < len(v); i++ {
				if v[i] == '\\' {
					i++
					continue
				}
				if v[i] == '/' {
					closed = i
					break
				}
			}
			if len(v) < 2 || v[0] != '/' || closed != len(v)-1 {
				obs.Fails = append(obs.Fails, fmt.Sprintf("token %d %q is not one regexp closed by its first unescaped slash (an unterminated regexp must be an error)", n, v))
			}
		}
		if n > 0 {
			sb = append(sb, ',')
		}
		sb = append(sb, fmt.Sprintf("%d:%s", int(t.Typ), Hex(t.Val))...)
		n++
		if n > len(s)+1 {
			obs.Fails = append(obs.Fails, "more tokens than bytes")
			obs.Stream = string(sb) + ";runaway"
			return obs
		}
	}
}
