package impl

import (
	"encoding/json"
	"fmt"
	"reflect"
	"strconv"
	"strings"
	"sync"

	lucene "github.com/grindlemire/go-lucene"
	"github.com/grindlemire/go-lucene/pkg/driver"
	"github.com/grindlemire/go-lucene/pkg/lucene/expr"
)

// AllOps lists every operator value, including Undefined.
var AllOps = []expr.Operator{expr.Undefined, expr.And, expr.Or, expr.Equals, expr.Like, expr.Not, expr.Range, expr.Must,
	expr.MustNot, expr.Boost, expr.Fuzzy, expr.Literal, expr.Wild, expr.Regexp, expr.Greater, expr.Less, expr.GreaterEq,
	expr.LessEq, expr.In, expr.List}

// TraceFn records the operator and both operand texts.
func TraceFn(op expr.Operator) driver.RenderFN {
	return func(left, right string) (string, error) {
		return fmt.Sprintf("<%d|%s|%s>", int(op), left, right), nil
	}
}

// DescribedMap builds the render-function map a description names (the model builds the same map).
func DescribedMap(desc string) map[expr.Operator]driver.RenderFN {
	parts := strings.Split(desc, ":")
	m := map[expr.Operator]driver.RenderFN{}
	arg := expr.Operator(-1)
	if len(parts) == 2 {
		n, _ := strconv.Atoi(parts[1])
		arg = expr.Operator(n)
	}
	switch parts[0] {
	case "pg":
		return driver.NewPostgresDriver().RenderFNs
	case "shared":
		for k, v := range driver.Shared {
			m[k] = v
		}
	case "trace":
		for _, op := range AllOps {
			m[op] = TraceFn(op)
		}
	case "empty":
		// a map that registers no operator at all
	case "nil":
		return nil
	case "only":
		m[arg] = TraceFn(arg)
	case "trace-minus":
		for _, op := range AllOps {
			if op != arg {
				m[op] = TraceFn(op)
			}
		}
	case "override":
		for k, v := range driver.NewPostgresDriver().RenderFNs {
			m[k] = v
		}
		m[arg] = TraceFn(arg)
	case "override-inplace":
		// the override written into the map of a driver returned by NewPostgresDriver (not into a copy of it) — unless
		// driver instances turn out to share their table (then writing to it from several workers would be a fatal
		// "concurrent map writes" that kills the process; the sharing itself is reported by the isolation probe)
		if !tablesIndependent() {
			for k, v := range driver.NewPostgresDriver().RenderFNs {
				m[k] = v
			}
			m[arg] = TraceFn(arg)
			return m
		}
		d := driver.NewPostgresDriver()
		d.RenderFNs[arg] = TraceFn(arg)
		return d.RenderFNs
	case "instance-delete", "delete":
		// a copy of the postgres table without the operator ("instance-delete" gets here only when driver instances share their table)
		for k, v := range driver.NewPostgresDriver().RenderFNs {
			if k != arg {
				m[k] = v
			}
		}
	case "fail":
		for _, op := range AllOps {
			m[op] = TraceFn(op)
		}
		m[arg] = func(left, right string) (string, error) { return "", fmt.Errorf("failing render function") }
	}
	return m
}

var (
	indepOnce sync.Once
	indep     bool
)

// tablesIndependent reports (without writing to any table) whether two drivers returned by NewPostgresDriver have
// distinct function tables, both distinct from driver.Shared.
func tablesIndependent() bool {
	indepOnce.Do(func() {
		a := reflect.ValueOf(driver.NewPostgresDriver().RenderFNs).Pointer()
		b := reflect.ValueOf(driver.NewPostgresDriver().RenderFNs).Pointer()
		s := reflect.ValueOf(driver.Shared).Pointer()
		indep = a != b && a != s && b != s
	})
	return indep
}

// renderer is what both driver.Base and the driver instances returned by NewPostgresDriver offer.
type renderer interface {
	Render(e *expr.Expression) (string, error)
	RenderParam(e *expr.Expression) (string, []any, error)
}

// instanceFor: for the descriptions that customise a driver INSTANCE (override-inplace, instance-delete) the instance
// itself — the documented way to customise is to change the RenderFNs of the driver one holds, and the rendering must go
// through THAT driver's methods (a driver that snapshots its table at construction ignores later changes).
func instanceFor(desc string) renderer {
	parts := strings.Split(desc, ":")
	if len(parts) != 2 || !tablesIndependent() {
		return nil
	}
	n, _ := strconv.Atoi(parts[1])
	arg := expr.Operator(n)
	switch parts[0] {
	case "override-inplace":
		d := driver.NewPostgresDriver()
		d.RenderFNs[arg] = TraceFn(arg)
		return d
	case "instance-delete":
		d := driver.NewPostgresDriver()
		delete(d.RenderFNs, arg)
		return d
	}
	return nil
}

// RunRender is Base{RenderFNs: m}.Render(e) and .RenderParam(e) in canonical text, tab separated.
func RunRender(e *expr.Expression, desc string) string {
	var b renderer = driver.Base{RenderFNs: DescribedMap(desc)}
	if d := instanceFor(desc); d != nil {
		b = d
	}
	r := guard(func() string {
		s, err := b.Render(e)
		if err != nil {
			return "err"
		}
		return "ok:" + Hex(s)
	})
	rp := guard(func() string {
		s, ps, err := b.RenderParam(e)
		if err != nil {
			return "err"
		}
		return "ok:" + Hex(s) + "|" + CanonParams(ps)
	})
	return r + "\t" + rp
}

// UJResult is json.Unmarshal of arbitrary bytes followed by Validate and every consumer of the decoded expression.
type UJResult struct {
	U, V, S, G, J, R, RP string
	Reuse                string // non-empty: the outcome of decoding the same bytes into a previously used destination, when it differs
	Expr                 *expr.Expression
}

// RunUnjson decodes data into an Expression and exercises it.
func RunUnjson(data string) UJResult {
	var r UJResult
	e := &expr.Expression{}
	r.U = guard(func() string {
		if err := json.Unmarshal([]byte(data), e); err != nil {
			return "err"
		}
		return "ok:" + CanonExpr(e)
	})
	// json.Unmarshal into a destination that was used before must give the same expression as into a fresh one
	reused := &expr.Expression{}
	ru := guard(func() string {
		if err := json.Unmarshal([]byte(`{"left":{"left":"x","operator":"RANGE","right":{"min":1,"max":5,"inclusive":true}},"operator":"AND","right":{"left":"y","operator":"EQUALS","right":"z"}}`), reused); err != nil {
			return "err"
		}
		if err := json.Unmarshal([]byte(data), reused); err != nil {
			return "err"
		}
		return "ok:" + CanonExpr(reused)
	})
	if ru != r.U && !(ru == "panic" && r.U == "panic") {
		r.Reuse = ru
	}
	if !strings.HasPrefix(r.U, "ok:") {
		r.V, r.S, r.G, r.J, r.R, r.RP = "-", "-", "-", "-", "-", "-"
		return r
	}
	return consumers(e, r)
}

// consumers runs Validate and every consumer on an expression (shared by the uj and mk observations).
func consumers(e *expr.Expression, r UJResult) UJResult {
	r.Expr = e
	r.V = guard(func() string {
		if expr.Validate(e) != nil {
			return "0"
		}
		return "1"
	})
	r.S = guard(func() string { return "ok:" + Hex(e.String()) })
	r.G = guard(func() string { return "ok:" + Hex(fmt.Sprintf("%#v", e)) })
	r.J = guard(func() string {
		b, err := json.Marshal(e)
		if err != nil {
			return "err"
		}
		return "ok:" + Hex(string(b))
	})
	pg := driver.NewPostgresDriver()
	r.R = guard(func() string {
		s, err := pg.Render(e)
		if err != nil {
			return "err"
		}
		return "ok:" + Hex(s)
	})
	r.RP = guard(func() string {
		s, ps, err := pg.RenderParam(e)
		if err != nil {
			return "err"
		}
		return "ok:" + Hex(s) + "|" + CanonParams(ps)
	})
	return r
}

// MarshalExpr is json.Marshal(e) in canonical text.
func MarshalExpr(e *expr.Expression) string {
	return guard(func() string {
		b, err := json.Marshal(e)
		if err != nil {
			return "err"
		}
		return "ok:" + Hex(string(b))
	})
}

// DriverIsolation checks that driver values are independent: editing the function map of one driver instance must not
// change any other driver, in particular the package-level one behind ToPostgres / ToParameterizedPostgres.
// Returns the violated clauses (empty = isolated).
func DriverIsolation() (fails []string) {
	defer func() {
		if r := recover(); r != nil {
			fails = append(fails, fmt.Sprintf("panic: %v", r))
		}
	}()
	if !tablesIndependent() {
		// judged without writing to any table: a write to a shared table while other workers render would be a fatal
		// "concurrent map writes" that kills the whole process
		return []string{"NewPostgresDriver() instances share one function table (with each other or with driver.Shared): customising one driver instance changes every other driver and ToPostgres"}
	}
	base1, _ := lucene.ToPostgres("a:b")
	_, errF := lucene.ToPostgres("a:b~2 AND c")
	d := driver.NewPostgresDriver()
	d.RenderFNs[expr.Fuzzy] = TraceFn(expr.Fuzzy)
	d.RenderFNs[expr.Boost] = TraceFn(expr.Boost)
	d.RenderFNs[expr.Equals] = TraceFn(expr.Equals)
	after1, _ := lucene.ToPostgres("a:b")
	if after1 != base1 {
		fails = append(fails, fmt.Sprintf("replacing a function in one driver instance changed ToPostgres(a:b): %q -> %q", base1, after1))
	}
	if _, err := lucene.ToPostgres("a:b~2 AND c"); (err == nil) != (errF == nil) {
		fails = append(fails, "registering a fuzzy function in one driver instance made ToPostgres accept a fuzzy query")
	}
	if _, _, err := lucene.ToParameterizedPostgres("a:b^2"); err == nil {
		fails = append(fails, "registering a boost function in one driver instance made ToParameterizedPostgres accept a boost query")
	}
	e, _ := lucene.Parse("a:b")
	fresh, _ := driver.NewPostgresDriver().Render(e)
	if fresh != base1 {
		fails = append(fails, fmt.Sprintf("a fresh NewPostgresDriver() renders a:b as %q after another instance was customised", fresh))
	}
	if _, ok := driver.Shared[expr.Fuzzy]; ok {
		fails = append(fails, "driver.Shared has gained a Fuzzy entry")
	}
	return fails
}
