module github.com/grindlemire/go-lucene/verifharness

go 1.22

require github.com/grindlemire/go-lucene v0.0.0

replace github.com/grindlemire/go-lucene => /repo
