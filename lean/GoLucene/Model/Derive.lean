import GoLucene.Model.Sem
/-
  C06's executable specification: an INDEPENDENT, tree-directed derivation checker.

  (A field position may itself be parenthesised — the documented grammar is `E:E`, `(E)` — so `(b):x` is a derivation.)

  `derives env df toks e` decides whether the expression `e` can be laid over the token sequence `toks` as a
  derivation in the documented grammar (term, field:E, field=E, field:>v …, field:[a TO b], (E), +E, -E, NOT E, E~n,
  E^n, E AND E, E OR E, juxtaposition of two terms): every term token exactly one leaf, in order and with its typed
  value (`parseLiteral` of that token — the only piece shared with the parser), every operator token consumed by one
  node of the matching kind, brackets pairing up around non-empty groups.  It never runs the shift/reduce parser: it
  walks the TREE and tries every way of splitting the tokens (exponential in the worst case, so the harness uses it
  on inputs of at most `maxDeriveTokens` tokens).

  With a default field `df`, a bare literal operand may appear wrapped as `Equals(Column df, literal)`.
-/
namespace GoLucene

def maxDeriveTokens : Nat := 14

def isTyp (t : Tok) (ty : TT) : Bool := t.typ == ty

/-- all ways of writing `l = a ++ [x] ++ c` -/
def splitsAt {α} : List α → List (List α × α × List α)
  | [] => []
  | x :: xs => ([], x, xs) :: (splitsAt xs).map (fun (a, y, c) => (x :: a, y, c))

/-- all ways of writing `l = a ++ c` with both parts non-empty -/
def splits2 {α} : List α → List (List α × List α)
  | [] => []
  | [_] => []
  | x :: xs => ([x], xs) :: (splits2 xs).map (fun (a, c) => (x :: a, c))

def stripParens (toks : List Tok) : Option (List Tok) :=
  match toks with
  | o :: rest =>
    if isTyp o .lparen then
      match rest.getLast? with
      | some c => if isTyp c .rparen && rest.length ≥ 2 then some rest.dropLast else none
      | none => none
    else none
  | [] => none

/-- the typed value of a term token as a leaf: what `parseLiteral` makes of it -/
def leafMatches (e : Expr) (t : Tok) : Bool :=
  t.typ.isTerm && canonExprLite e == canonExprLite (parseLiteral t)
where canonExprLite (x : Expr) : Option (Prim × Op) :=
  match x with
  | .mk (.prim p) o .nil _ _ => some (p, o)
  | _ => none

/-- a field position: the token's leaf, with a string value turned into a Column -/
def fieldMatches (n : Node) (t : Tok) : Bool :=
  t.typ.isTerm &&
  (match n, parseLiteral t with
   | .expr (.mk (.prim (.col c)) .literal .nil _ _), .mk (.prim (.str s)) _ .nil _ _ => c == s
   | .expr (.mk (.prim p) .literal .nil _ _), .mk (.prim q) .literal .nil _ _ =>
     (match q with | .str _ => false | _ => p == q)
   | _, _ => false)

/-- the tokens of a field position: one term token, possibly inside parentheses (the documented grammar is `E:E`, `(E)`) -/
def fieldDerives : Nat → Node → List Tok → Bool
  | 0, _, _ => false
  | fuel+1, n, toks =>
    match toks with
    | [t] => fieldMatches n t
    | _ => (match stripParens toks with
            | some inner => fieldDerives fuel n inner
            | none => false)

def isColonOrEq (t : Tok) : Bool := isTyp t .colon || isTyp t .equal

/-- does the token list denote the integer `n` the way the `fuzzy` reducer reads it (a number term, possibly
    parenthesised or signed)?  `flt`: likewise the positive float of `boost` -/
def numTokens : Nat → List Tok → Option (Int ⊕ F64)
  | 0, _ => none
  | fuel+1, toks =>
    match toks with
    | [t] =>
      if !t.typ.isTerm then none
      else
        (match parseLiteral t with
         | .mk (.prim (.int i)) .literal _ _ _ => some (.inl i)
         | .mk (.prim (.flt f)) .literal _ _ _ => some (.inr f)
         | .mk (.prim (.str s)) .literal _ _ _ =>
           (match atoi s with
            | some i => some (.inl i)
            | none => (parseFloat s).map .inr)
         | _ => none)
    | o :: rest =>
      if isTyp o .plus then numTokens fuel rest
      else if isTyp o .minus then
        (match numTokens fuel rest with
         | some (.inl i) => some (.inl (-i))
         | _ => none)
      else (stripParens toks).bind (numTokens fuel)
    | [] => none

mutual
/-- `toks` derives the expression held by node `n` -/
def derivesNode (df : Bytes) : Nat → Node → List Tok → Bool
  | 0, _, _ => false
  | fuel+1, .expr e, toks => derives df fuel e toks
  | _, _, _ => false
/-- `toks` derives `e` -/
def derives (df : Bytes) : Nat → Expr → List Tok → Bool
  | 0, _, _ => false
  | fuel+1, e, toks =>
    -- redundant or required parentheses around the whole thing
    (match stripParens toks with
     | some inner => derives df fuel e inner
     | none => false) ||
    (match e with
     | .mk l o r p d =>
       match o with
       | .literal | .wild | .regexp =>
         (match toks with
          | [t] => leafMatches e t
          | _ => false)
       | .and =>
         (splitsAt toks).any (fun (a, x, c) => isTyp x .tand && derivesNode df fuel l a && derivesNode df fuel r c) ||
         (splits2 toks).any (fun (a, c) =>
           (a.getLast?.map (·.typ.isTerm)).getD false && (c.head?.map (·.typ.isTerm)).getD false &&
           derivesNode df fuel l a && derivesNode df fuel r c)
       | .or => (splitsAt toks).any (fun (a, x, c) => isTyp x .tor && derivesNode df fuel l a && derivesNode df fuel r c)
       | .not => (match toks with | x :: rest => isTyp x .tnot && r.isNil && derivesNode df fuel l rest | [] => false)
       | .must => (match toks with | x :: rest => isTyp x .plus && r.isNil && derivesNode df fuel l rest | [] => false)
       | .mustNot => (match toks with | x :: rest => isTyp x .minus && r.isNil && derivesNode df fuel l rest | [] => false)
       | .equals =>
         -- a bare literal scoped by the default field stands for the literal alone
         (!df.isEmpty &&
           (match l, r with
            | .expr (.mk (.prim (.col c)) .literal .nil _ _), .expr (.mk (.prim q) .literal .nil pp dd) =>
              c == df && derives df fuel (.mk (.prim q) .literal .nil pp dd) toks
            | _, _ => false)) ||
         (splitsAt toks).any (fun (a, x, rest) => isColonOrEq x && fieldDerives fuel l a && derivesNode df fuel r rest)
       | .like =>
         (splitsAt toks).any (fun (a, x, rest) =>
            isColonOrEq x && fieldDerives fuel l a &&
              (match r with | .expr re => (re.op = .wild || re.op = .regexp) && derives df fuel re rest | _ => false))
       | .greater | .less | .greaterEq | .lessEq =>
         (splitsAt toks).any (fun (a, c, rest0) =>
            isTyp c .colon && fieldDerives fuel l a &&
            (match rest0 with
             | x :: rest =>
              (match o with
               | .greater => isTyp x .greater && derivesNode df fuel r rest
               | .less => isTyp x .less && derivesNode df fuel r rest
               | .greaterEq =>
                 isTyp x .greater && (match rest with | y :: rest' => isTyp y .equal && derivesNode df fuel r rest' | [] => false)
               | _ =>
                 isTyp x .less && (match rest with | y :: rest' => isTyp y .equal && derivesNode df fuel r rest' | [] => false))
             | [] => false))
       | .in_ =>
         (match r with
          | .expr (.mk (.list es) .list .nil _ _) =>
            (splitsAt toks).any (fun (a, x, rest) =>
              isColonOrEq x && fieldDerives fuel l a && es.length ≥ 2 && derivesList df fuel es.toList rest)
          | _ => false)
       | .range =>
         (match r with
          | .bound mn mx incl =>
            (splitsAt toks).any (fun (a, c, rest0) =>
              isTyp c .colon && fieldDerives fuel l a &&
              (match rest0 with
               | lb :: rest =>
                 (isTyp lb .lsquare || isTyp lb .lcurly) &&
                 (match rest.getLast? with
                  | some rb =>
                    (isTyp rb .rsquare || isTyp rb .rcurly) &&
                    incl == (isTyp lb .lsquare && isTyp rb .rsquare) &&
                    (splitsAt rest.dropLast).any (fun (a, x, cc) =>
                      isTyp x .tto && derivesNode df fuel mn a && derivesNode df fuel mx cc)
                  | none => false)
               | [] => false))
          | _ => false)
       | .fuzzy =>
         r.isNil &&
         (splitsAt toks).any (fun (a, x, c) =>
           isTyp x .tilde && derivesNode df fuel l a &&
             (if c.isEmpty then d == 1
              else match numTokens (c.length + 2) c with
                | some (.inl i) => d == i
                | some (.inr f) => (atoi (fmtG f)) == some d
                | none => false))
       | .boost =>
         r.isNil &&
         (splitsAt toks).any (fun (a, x, c) =>
           isTyp x .carrot && derivesNode df fuel l a &&
             (if c.isEmpty then p.bits == F64.one.bits
              else match numTokens (c.length + 2) c with
                | some (.inl i) => i > 0 && p.bits == (F64.ofInt i).bits
                | some (.inr f) => p.bits == f.bits
                | none => false))
       | _ => false)
/-- `toks` derives an OR-chain (any association, parentheses allowed) of exactly the plain values `es` -/
def derivesList (df : Bytes) : Nat → List Expr → List Tok → Bool
  | 0, _, _ => false
  | fuel+1, es, toks =>
    (match stripParens toks with
     | some inner => derivesList df fuel es inner
     | none => false) ||
    (match es with
     | [x] => derives df fuel x toks
     | _ =>
       (splitsAt toks).any (fun (a, x, c) =>
         isTyp x .tor &&
           (splits2 es).any (fun (e1, e2) => derivesList df fuel e1 a && derivesList df fuel e2 c)))
end

/-- C06 judged on one accepted input: the returned tree is a derivation of the input's token sequence -/
def specC06 (env : Env) (s df : Bytes) (tree : Expr) : String :=
  let toks := tokensOf env s
  if toks.length > maxDeriveTokens then "1"            -- too long for the exhaustive matcher: not judged
  else if toks.any (fun t => t.typ == .err) then "0:a query with a lexical error was accepted"
  else if derives df (4 * toks.length + 8) tree toks then "1"
  else "0:the returned tree is not a derivation of the token sequence in the documented grammar"

end GoLucene
