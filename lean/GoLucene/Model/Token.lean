import GoLucene.Model.Basic
/-
  Tokens of internal/lex, shared by the lexer and the parser model.
  `TT` is `lex.TokType` in iota order (the order IS the precedence table; `TT.num` is the iota value and is
  re-checked against the live constants by the table extractor on every run).
-/
namespace GoLucene

/-- lex.TokType, in iota order. -/
inductive TT
  | err | literal | quoted | regexp
  | equal | greater | less | colon | plus | minus | tilde | carrot | tnot | tand | tor
  | rparen | lparen | lcurly | rcurly | tto | lsquare | rsquare | eof | start
  deriving DecidableEq, Repr

def TT.num : TT → Nat
  | .err => 0 | .literal => 1 | .quoted => 2 | .regexp => 3
  | .equal => 4 | .greater => 5 | .less => 6 | .colon => 7 | .plus => 8 | .minus => 9
  | .tilde => 10 | .carrot => 11 | .tnot => 12 | .tand => 13 | .tor => 14
  | .rparen => 15 | .lparen => 16 | .lcurly => 17 | .rcurly => 18 | .tto => 19
  | .lsquare => 20 | .rsquare => 21 | .eof => 22 | .start => 23

def TT.all : List TT :=
  [.err, .literal, .quoted, .regexp, .equal, .greater, .less, .colon, .plus, .minus, .tilde, .carrot,
   .tnot, .tand, .tor, .rparen, .lparen, .lcurly, .rcurly, .tto, .lsquare, .rsquare, .eof, .start]

def TT.name : TT → String
  | .err => "TErr" | .literal => "TLiteral" | .quoted => "TQuoted" | .regexp => "TRegexp"
  | .equal => "TEqual" | .greater => "TGreater" | .less => "TLess" | .colon => "TColon" | .plus => "TPlus"
  | .minus => "TMinus" | .tilde => "TTilde" | .carrot => "TCarrot" | .tnot => "TNot" | .tand => "TAnd"
  | .tor => "TOr" | .rparen => "TRParen" | .lparen => "TLParen" | .lcurly => "TLCurly" | .rcurly => "TRCurly"
  | .tto => "TTO" | .lsquare => "TLSquare" | .rsquare => "TRSquare" | .eof => "TEOF" | .start => "TStart"

/-- a token: type and the exact bytes of the input it was cut from (`Token.Val`; `pos` is unobservable) -/
structure Tok where
  typ : TT
  val : Bytes
  deriving DecidableEq, Repr

/-- lex.IsTerminal -/
def TT.isTerminal : TT → Bool
  | .err | .literal | .quoted | .regexp | .eof => true
  | _ => false

/-- the three token types that carry a term (what `parseLiteral` turns into a leaf) -/
def TT.isTerm (t : TT) : Bool := t = .literal || t = .quoted || t = .regexp

/-- one decoded rune with the bytes it came from (an invalid byte decodes to U+FFFD, width 1) -/
structure Cell where
  r : Nat
  raw : Bytes
  deriving Repr, DecidableEq

def cellsBytes (cs : List Cell) : Bytes := cs.flatMap (·.raw)

end GoLucene
