import GoLucene.Model.Expr
import GoLucene.Model.Utf8
/-
  pkg/driver: Base.Render / Base.RenderParam, serialize / serializeParams (after fix F2: serializeBoundParams),
  the Shared table of render functions, and the PostgreSQL driver.

  The render functions work on *rendered text*, exactly as the Go code does: `rang`/`rangParam` re-parse the
  text of the range boundary, `like` looks at the quoted text, `likeParam` at the raw parameter (after fix F8).
  Index expressions and type assertions are explicit `.panic` outcomes.
-/
namespace GoLucene

abbrev RenderFn := Bytes → Bytes → Out Bytes
/-- `Base.RenderFNs`: a map from operator to render function (`none` = no entry) -/
abbrev Fns := Op → Option RenderFn

/-- base.go isSimple -/
def isSimple : Node → Bool
  | .expr e => e.op = .undefined || e.op = .literal || e.op = .regexp || e.op = .wild
  | .prim (.col _) => true
  | .nil => true
  | .prim (.str _) => true
  | .prim (.int _) => true
  | .prim (.flt _) => true
  | _ => false

/-- the `e.Op != …` chain in Render and RenderParam: operators whose operands get parentheses -/
def parenOps (o : Op) : Bool :=
  o != .range && o != .not && o != .list && o != .in_ && o != .literal && o != .must && o != .mustNot

def parenB (s : Bytes) : Bytes := [40] ++ s ++ [41]

def replaceByte (x : UInt8) (y : Bytes) (s : Bytes) : Bytes := s.flatMap (fun c => if c == x then y else [c])

/-- `'…'` with every `'` doubled -/
def sqlQuote (s : Bytes) : Bytes := [39] ++ replaceByte 39 [39, 39] s ++ [39]

def joinWith (sep : Bytes) : List Bytes → Bytes
  | [] => []
  | [x] => x
  | x :: xs => x ++ sep ++ joinWith sep xs

/-- utf8.ValidString -/
def validUtf8 (s : Bytes) : Bool := (decode s).all (fun c => !(c.r == 0xFFFD && c.raw.length == 1))

/-- serialize / serializeParams on an expr.Column -/
def serializeCol (v : Bytes) : Out Bytes :=
  if v.isEmpty then .err
  else if v.any (· == 34) then .err
  else .ok ([34] ++ v ++ [34])

/-- `fmt.Sprintf("%v", v)` of a raw value in serialize's default case -/
def fmtVPrim : Prim → Bytes
  | .str s => s
  | .col s => s
  | .int i => fmtInt i
  | .flt f => fmtG f
  | .bool v => if v then b "true" else b "false"
  | .opaque => b "%!"

mutual
/-- Base.Render on a non-nil expression -/
def render (fns : Fns) : Expr → Out Bytes
  | .mk l o r _ _ =>
    match serialize fns l with
    | .err => .err
    | .panic => .panic
    | .ok left =>
      match serialize fns r with
      | .err => .err
      | .panic => .panic
      | .ok right =>
        let left := if parenOps o && !isSimple l then parenB left else left
        let right := if parenOps o && !isSimple r then parenB right else right
        match fns o with
        | none => .err
        | some fn => fn left right
/-- Base.serialize -/
def serialize (fns : Fns) : Node → Out Bytes
  | .nil => .ok []
  | .expr e => render fns e
  | .list es =>
    (match serializeList fns es with
     | .ok strs => .ok (joinWith (b ", ") strs)
     | .err => .err
     | .panic => .panic)
  | .bound mn mx incl =>
    (match serialize fns mn with
     | .err => .err
     | .panic => .panic
     | .ok smin =>
       match serialize fns mx with
       | .err => .err
       | .panic => .panic
       | .ok smax =>
         if incl then .ok (b "[" ++ smin ++ b ", " ++ smax ++ b "]")
         else .ok (b "(" ++ smin ++ b ", " ++ smax ++ b ")"))
  | .prim (.col v) => serializeCol v
  | .prim (.str v) => .ok (sqlQuote v)
  | .prim p => .ok (fmtVPrim p)
def serializeList (fns : Fns) : ExprList → Out (List Bytes)
  | .nil => .ok []
  | .cons e t =>
    match render fns e with
    | .err => .err
    | .panic => .panic
    | .ok s =>
      match serializeList fns t with
      | .ok ss => .ok (s :: ss)
      | .err => .err
      | .panic => .panic
end

/-! ### renderfn.go -/

def fnLiteral : RenderFn := fun left _ =>
  if !validUtf8 left then .err else if left.any (· == 0) then .err else .ok left

def fnInfix (mid : String) : RenderFn := fun left right => .ok (left ++ b mid ++ right)

def fnWrapNot : RenderFn := fun left _ => .ok (b "NOT(" ++ left ++ b ")")

def fnNoop : RenderFn := fun left _ => .ok left

def fnList : RenderFn := fun left _ => .ok (b "(" ++ left ++ b ")")

def starPattern (s : Bytes) : Bytes := replaceByte 63 [95] (replaceByte 42 [37] s)

/-- renderfn.go like: the regexp test looks at the *quoted* text -/
def fnLike : RenderFn := fun left right =>
  if right.length ≥ 4 && right[1]? == some 47 && right[right.length - 2]? == some 47 then
    .ok (left ++ b " ~ " ++ right)
  else .ok (left ++ b " SIMILAR TO " ++ starPattern right)

/-- strings.Split(s, ",") -/
def splitComma (s : Bytes) : List Bytes :=
  let (cur, acc) := s.foldl (fun (st : Bytes × List Bytes) c =>
    if c == 44 then ([], st.1.reverse :: st.2) else (c :: st.1, st.2)) ([], [])
  (cur.reverse :: acc).reverse

def dropSpaces : Bytes → Bytes
  | 32 :: r => dropSpaces r
  | s => s

/-- strings.Trim(s, " ") -/
def trimSpaces (s : Bytes) : Bytes := (dropSpaces (dropSpaces s).reverse).reverse

def starQ : Bytes := b "'*'"

/-- renderfn.go toInts -/
def toInts (rawMin rawMax : Bytes) : Option (Int × Int) :=
  match (if rawMin == starQ then some ((atoi rawMin).getD 0) else atoi rawMin) with
  | none => none
  | some iMin =>
    match (if rawMax == starQ then some ((atoi rawMax).getD 0) else atoi rawMax) with
    | none => none
    | some iMax => some (iMin, iMax)

/-- renderfn.go toFloats (since fix F12 it compares with `'*'`, like toInts) -/
def toFloats (rawMin rawMax : Bytes) : Option (F64 × F64) :=
  match (if rawMin == starQ then some ((parseFloat rawMin).getD F64.zero) else parseFloat rawMin) with
  | none => none
  | some fMin =>
    match (if rawMax == starQ then some ((parseFloat rawMax).getD F64.zero) else parseFloat rawMax) with
    | none => none
    | some fMax => some (fMin, fMax)

/-- the common head of rang / rangParam: inclusive flag and the two trimmed pieces; `.panic` for the index
    expressions `right[0]`, `right[1:len(right)-1]`, `.err` when the text does not split in two -/
def rangeParts (right : Bytes) : Out (Bool × Bytes × Bytes) :=
  match right with
  | [] => .panic
  | [_] => .panic
  | c :: _ =>
    let inclusive := !(c == 40 && right.getLast? == some 41)
    let stripped := (right.drop 1).take (right.length - 2)
    match splitComma stripped with
    | [p0, p1] => .ok (inclusive, trimSpaces p0, trimSpaces p1)
    | _ => .err

/-- the three comparison layouts shared by all numeric range forms -/
def rangeCmp (left : Bytes) (inclusive : Bool) (rawMin rawMax : Bytes) (smin smax : Bytes) : Bytes :=
  if rawMin == starQ then left ++ (if inclusive then b " <= " else b " < ") ++ smax
  else if rawMax == starQ then left ++ (if inclusive then b " >= " else b " > ") ++ smin
  else if inclusive then left ++ b " >= " ++ smin ++ b " AND " ++ left ++ b " <= " ++ smax
  else left ++ b " > " ++ smin ++ b " AND " ++ left ++ b " < " ++ smax

/-- the part of rang / rangParam after the parameter test: ints, then floats (%.2f), then BETWEEN -/
def rangeText (left : Bytes) (inclusive : Bool) (rawMin rawMax : Bytes) : Bytes :=
  match toInts rawMin rawMax with
  | some (iMin, iMax) => rangeCmp left inclusive rawMin rawMax (fmtInt iMin) (fmtInt iMax)
  | none =>
    match toFloats rawMin rawMax with
    | some (fMin, fMax) => rangeCmp left inclusive rawMin rawMax (fmtFixed fMin 2) (fmtFixed fMax 2)
    | none => left ++ b " BETWEEN " ++ rawMin ++ b " AND " ++ rawMax

/-- renderfn.go rang -/
def fnRang : RenderFn := fun left right =>
  match rangeParts right with
  | .panic => .panic
  | .err => .err
  | .ok (inclusive, rawMin, rawMax) => .ok (rangeText left inclusive rawMin rawMax)

/-- renderfn.go rangParam -/
def rangParam (left right : Bytes) (params : List Prim) : Out Bytes :=
  match rangeParts right with
  | .panic => .panic
  | .err => .err
  | .ok (inclusive, rawMin, rawMax) =>
    if rawMin == b "?" || rawMax == b "?" then
      match params with
      | [] => .panic                                       -- params[0]
      | p :: _ =>
        (match p with
         | .int _ | .flt _ => .ok (rangeCmp left inclusive rawMin rawMax rawMin rawMax)
         | _ => .ok (left ++ b " BETWEEN " ++ rawMin ++ b " AND " ++ rawMax))
    else .ok (rangeText left inclusive rawMin rawMax)

/-- renderfn.go likeParam (after fix F8) -/
def likeParam (left right : Bytes) (params : List Prim) : Out Bytes :=
  match params with
  | [p] =>
    (match p with
     | .str pr =>
       if pr.length ≥ 2 && pr.head? == some 47 && pr.getLast? == some 47 then .ok (left ++ b " ~ " ++ right)
       else .ok (left ++ b " SIMILAR TO " ++ right)
     | _ => .panic)                                        -- params[0].(string)
  | _ => .ok (left ++ b " SIMILAR TO " ++ right)

/-- driver.Shared (no entry for Fuzzy, Boost, Undefined) -/
def sharedFns : Fns
  | .literal | .wild | .regexp => some fnLiteral
  | .and => some (fnInfix " AND ")
  | .or => some (fnInfix " OR ")
  | .not | .mustNot => some fnWrapNot
  | .equals => some (fnInfix " = ")
  | .range => some fnRang
  | .must => some fnNoop
  | .like => some fnLike
  | .greater => some (fnInfix " > ")
  | .greaterEq => some (fnInfix " >= ")
  | .less => some (fnInfix " < ")
  | .lessEq => some (fnInfix " <= ")
  | .in_ => some (fnInfix " IN ")
  | .list => some fnList
  | .fuzzy | .boost | .undefined => none

/-- NewPostgresDriver().RenderFNs: `literal` for Literal, everything else from Shared -/
def pgFns : Fns := sharedFns

/-! ### RenderParam -/

/-- `e.Left == "*"` -/
def starLeft (e : Expr) : Bool :=
  match e.left with
  | .prim (.str s) => s == b "*"
  | _ => false


mutual
/-- Base.RenderParam on a non-nil expression: SQL text with `?` placeholders and the parameter list -/
def renderParam (fns : Fns) : Expr → Out (Bytes × List Prim)
  | .mk l o r _ _ =>
    match serializeParams fns l with
    | .err => .err
    | .panic => .panic
    | .ok (left, lparams) =>
      match serializeParams fns r with
      | .err => .err
      | .panic => .panic
      | .ok (right, rparams0) =>
        -- `if e.Op == expr.Like { rval := rparams[0].(string) … }`
        let rp : Out (List Prim) :=
          if o = .like then
            (match rparams0 with
             | .str rval :: rest =>
               if rval.length < 2 || rval.head? != some 47 || rval.getLast? != some 47
               then .ok (.str (starPattern rval) :: rest) else .ok rparams0
             | _ => .panic)
          else .ok rparams0
        match rp with
        | .err => .err
        | .panic => .panic
        | .ok rparams =>
          let params := lparams ++ rparams
          let left := if parenOps o && !isSimple l then parenB left else left
          let right := if parenOps o && !isSimple r then parenB right else right
          if o = .like then
            (match likeParam left right rparams with
             | .ok s => .ok (s, params) | .err => .err | .panic => .panic)
          else if o = .range then
            (match rangParam left right rparams with
             | .ok s => .ok (s, params) | .err => .err | .panic => .panic)
          else
            match fns o with
            | none => .err
            | some fn =>
              (match fn left right with
               | .ok s => .ok (s, params) | .err => .err | .panic => .panic)
/-- Base.serializeParams -/
def serializeParams (fns : Fns) : Node → Out (Bytes × List Prim)
  | .nil => .ok ([], [])
  | .expr e => renderParam fns e
  | .list es =>
    (match serializeParamsList fns es with
     | .ok (strs, ps) => .ok (joinWith (b ", ") strs, ps)
     | .err => .err
     | .panic => .panic)
  | .bound mn mx incl =>
    -- Base.serializeBoundParams (fix F2): an unbounded end `*` is not a parameter
    let rmin : Out (Bytes × List Prim) :=
      match mn with
      | .expr e => if starLeft e then .ok (starQ, []) else renderParam fns e
      | n => serializeParams fns n
    let rmax : Out (Bytes × List Prim) :=
      match mx with
      | .expr e => if starLeft e then .ok (starQ, []) else renderParam fns e
      | n => serializeParams fns n
    (match rmin with
     | .err => .err
     | .panic => .panic
     | .ok (smin, pmin) =>
       match rmax with
       | .err => .err
       | .panic => .panic
       | .ok (smax, pmax) =>
         if incl then .ok (b "[" ++ smin ++ b ", " ++ smax ++ b "]", pmin ++ pmax)
         else .ok (b "(" ++ smin ++ b ", " ++ smax ++ b ")", pmin ++ pmax))
  | .prim (.col v) =>
    (match serializeCol v with
     | .ok s => .ok (s, []) | .err => .err | .panic => .panic)
  | .prim p => .ok (b "?", [p])
def serializeParamsList (fns : Fns) : ExprList → Out (List Bytes × List Prim)
  | .nil => .ok ([], [])
  | .cons e t =>
    match renderParam fns e with
    | .err => .err
    | .panic => .panic
    | .ok (s, ps) =>
      match serializeParamsList fns t with
      | .ok (ss, pt) => .ok (s :: ss, ps ++ pt)
      | .err => .err
      | .panic => .panic
end

end GoLucene
