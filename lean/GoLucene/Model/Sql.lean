/-
  PostgreSQL 15's scanner (scan.l) and expression grammar (gram.y, a_expr) restricted to the *confined fragment*
  that go-lucene's PostgreSQL driver is allowed to emit:

      AND OR NOT, comparisons = < > <= >= <>, BETWEEN, IN (list), SIMILAR TO, regex match ~,
      double-quoted column references, plain '...' constants, numeric constants (optionally with a folded
      leading minus), placeholders (`?` or `$n`), parentheses.

  The model is *conservative*: `lex` / `parse` answer `none` for every text that PostgreSQL rejects **and** for
  every text that uses anything outside the fragment (comments, `;`, unquoted identifiers, E''/U&''/B''/X''/N''
  strings, dollar quoting, casts, other operators, row constructors, function calls, ...).  Whenever the answer
  is `some a`, PostgreSQL's own parser reads the text as exactly the tree `a` (validated against libpg_query /
  pg_query_go, see /verif/pgref).

  Settings assumed: `standard_conforming_strings = on` (backslash is an ordinary character in '...'),
  server encoding UTF8 (only relevant for the 63-byte identifier truncation, see `truncIdent`).

  Core Lean only; every definition is total by structural recursion (the two loops use explicit fuel that is
  provably sufficient: the lexer consumes at least one byte per step, the parser at least one token per cycle).
-/
import GoLucene.Model.Basic

namespace GoLucene.Sql

inductive CmpOp | eq | lt | gt | le | ge | ne
  deriving DecidableEq, Repr

/- the confined AST; lists via an explicit mutual list type (a nested `List Ast` breaks `induction`/`deriving`) -/
mutual
inductive Ast
  | col (name : Bytes)                 -- double-quoted identifier: name after `""` un-doubling, BEFORE the 63-byte truncation
  | str (s : Bytes)                    -- plain '...' constant, decoded (`''` → `'`; backslash is literal)
  | num (neg : Bool) (raw : Bytes)     -- numeric constant text (integer / decimal / exponent form), leading unary minus folded
  | param (n : Nat)                    -- the n-th placeholder (1-based: `?` counted left to right, or `$n`)
  | cmp (op : CmpOp) (l r : Ast)
  | between (x lo hi : Ast)
  | inList (x : Ast) (items : AstList)
  | similar (x pat : Ast)
  | regex (x pat : Ast)                -- operator ~
  | and (l r : Ast)
  | or (l r : Ast)
  | not (x : Ast)
inductive AstList
  | nil
  | cons (a : Ast) (t : AstList)
end

/- structural equality (`deriving DecidableEq` does not go through mutual types) -/
mutual
def Ast.beq : Ast → Ast → Bool
  | .col a, .col b => a == b
  | .str a, .str b => a == b
  | .num n a, .num m b => n == m && a == b
  | .param a, .param b => a == b
  | .cmp o l r, .cmp o' l' r' => o == o' && l.beq l' && r.beq r'
  | .between x lo hi, .between x' lo' hi' => x.beq x' && lo.beq lo' && hi.beq hi'
  | .inList x items, .inList x' items' => x.beq x' && items.beq items'
  | .similar x p, .similar x' p' => x.beq x' && p.beq p'
  | .regex x p, .regex x' p' => x.beq x' && p.beq p'
  | .and l r, .and l' r' => l.beq l' && r.beq r'
  | .or l r, .or l' r' => l.beq l' && r.beq r'
  | .not x, .not x' => x.beq x'
  | _, _ => false
def AstList.beq : AstList → AstList → Bool
  | .nil, .nil => true
  | .cons a t, .cons a' t' => a.beq a' && t.beq t'
  | _, _ => false
end

instance : BEq Ast := ⟨Ast.beq⟩
instance : BEq AstList := ⟨AstList.beq⟩

/-! ## Scanner -/

/-- The only keywords of the fragment.  Every other unquoted word makes `lex` answer `none`. -/
inductive Kw | and | or | not | between | in_ | similar | to
  deriving DecidableEq, Repr

inductive Tok
  | kw (k : Kw)
  | qident (name : Bytes)      -- "..." (un-doubled, untruncated, non-empty)
  | sconst (s : Bytes)         -- '...' (decoded, continuation segments concatenated)
  | num (raw : Bytes)          -- ICONST / FCONST text
  | qmark                      -- `?` placeholder (numbered by `parse`)
  | param (n : Nat)            -- `$n`
  | cmp (op : CmpOp)
  | tilde | minus | lparen | rparen | comma
  deriving DecidableEq, Repr

/-- scan.l `space`: `[ \t\n\r\f]` (no `\v` in PostgreSQL 15). -/
def isSpace (c : UInt8) : Bool := c == 32 || c == 9 || c == 10 || c == 13 || c == 12
/-- scan.l `newline`: `[\n\r]`. -/
def isNewline (c : UInt8) : Bool := c == 10 || c == 13
def isDigit (c : UInt8) : Bool := 48 ≤ c && c ≤ 57
/-- scan.l `ident_start`: `[A-Za-z\200-\377_]`. -/
def isIdentStart (c : UInt8) : Bool := (65 ≤ c && c ≤ 90) || (97 ≤ c && c ≤ 122) || c == 95 || 128 ≤ c
/-- scan.l `ident_cont`: `[A-Za-z\200-\377_0-9\$]`. -/
def isIdentCont (c : UInt8) : Bool := isIdentStart c || isDigit c || c == 36
/-- scan.l `op_chars`: ``[\~\!\@\#\^\&\|\`\?\+\-\*\/\%\<\>\=]``. -/
def isOpChar (c : UInt8) : Bool :=
  c == 126 || c == 33 || c == 64 || c == 35 || c == 94 || c == 38 || c == 124 || c == 96 || c == 63 ||
  c == 43 || c == 45 || c == 42 || c == 47 || c == 37 || c == 60 || c == 62 || c == 61
/-- the characters that allow a multi-character operator to end in `+` or `-`: ``~ ! @ # ^ & | ` ? %``. -/
def isQualifying (c : UInt8) : Bool :=
  c == 126 || c == 33 || c == 64 || c == 35 || c == 94 || c == 38 || c == 124 || c == 96 || c == 63 || c == 37
def isPlusMinus (c : UInt8) : Bool := c == 43 || c == 45

/-- States of the string-constant scanner (flex states `xq` and `xqs`). -/
inductive StrSt
  | body                                -- inside '...'
  | quote (back : Bytes)                -- just after a `'` (state xqs, nothing consumed yet); `back` = input after that quote
  | gap (nl : Bool) (back : Bytes)      -- in whitespace after a closing `'`; `nl`: a newline was seen

/-- Scan a plain string constant; the input starts just after the opening quote.  Returns the decoded contents
    and the input just after the closing quote.  `''` is a quote; backslash is ordinary; after the closing quote,
    whitespace *containing a newline* followed by another `'` continues the same constant (SQL string
    continuation, scan.l `quotecontinue`).  PostgreSQL also allows `--` comments inside that whitespace; the model
    does not look through comments, and the text is then rejected by `lexFrom` when it meets the `--`.
    `none`: unterminated, or a NUL byte (PostgreSQL cannot even receive one). -/
def scanStr : StrSt → Bytes → Bytes → Option (Bytes × Bytes)
  | .body, _, [] => none
  | .body, acc, c :: rest =>
    if c == 0 then none
    else if c == 39 then scanStr (.quote rest) acc rest
    else scanStr .body (c :: acc) rest
  | .quote _, acc, [] => some (acc.reverse, [])
  | .quote back, acc, c :: rest =>
    if c == 39 then scanStr .body (39 :: acc) rest
    else if isSpace c then scanStr (.gap (isNewline c) back) acc rest
    else some (acc.reverse, back)
  | .gap _ back, acc, [] => some (acc.reverse, back)
  | .gap nl back, acc, c :: rest =>
    if isSpace c then scanStr (.gap (nl || isNewline c) back) acc rest
    else if c == 39 && nl then scanStr .body acc rest
    else some (acc.reverse, back)

/-- Scan a quoted identifier; the input starts just after the opening `"`.  `afterQuote`: the previous byte was a
    `"` that is either the first half of `""` or the end of the identifier.  `none`: unterminated, or a NUL byte. -/
def scanQId : (afterQuote : Bool) → Bytes → Bytes → Option (Bytes × Bytes)
  | false, _, [] => none
  | false, acc, c :: rest =>
    if c == 0 then none
    else if c == 34 then scanQId true acc rest
    else scanQId false (c :: acc) rest
  | true, acc, [] => some (acc.reverse, [])
  | true, acc, c :: rest => if c == 34 then scanQId false (34 :: acc) rest else some (acc.reverse, c :: rest)

def startsWith (p : UInt8 → Bool) : Bytes → Bool
  | [] => false
  | c :: _ => p c

/-- Numeric constant: `digits`, `digits.digits?`, `.digits`, each with an optional `[eE][+-]?digits`.
    Returns the constant's text and the rest.  Conservative `none` (PostgreSQL 15 would split the text into several
    tokens, all of them outside the fragment or a syntax error): `1..`, an `e`/`E` without exponent digits, and any
    identifier character directly after the constant (`5a`, `1e`, `1_000`, `0x10`, `5AND`). -/
def scanNum (s : Bytes) : Option (Bytes × Bytes) :=
  let ip := s.takeWhile isDigit
  let r1 := s.dropWhile isDigit
  -- mantissa
  let mant : Option (Bytes × Bytes) :=
    match r1 with
    | c :: r2 =>
      if c == 46 then
        let fp := r2.takeWhile isDigit
        let r3 := r2.dropWhile isDigit
        if ip.isEmpty && fp.isEmpty then none
        else if fp.isEmpty && startsWith (· == 46) r3 then none
        else some (ip ++ 46 :: fp, r3)
      else if ip.isEmpty then none else some (ip, r1)
    | [] => if ip.isEmpty then none else some (ip, r1)
  match mant with
  | none => none
  | some (m, r) =>
    -- exponent
    let full : Option (Bytes × Bytes) :=
      match r with
      | e :: r' =>
        if e == 101 || e == 69 then
          let sign := if startsWith isPlusMinus r' then r'.take 1 else []
          let r'' := if startsWith isPlusMinus r' then r'.drop 1 else r'
          let ed := r''.takeWhile isDigit
          if ed.isEmpty then none else some (m ++ e :: sign ++ ed, r''.dropWhile isDigit)
        else some (m, r)
      | [] => some (m, r)
    match full with
    | none => none
    | some (t, rest) => if startsWith isIdentStart rest then none else some (t, rest)

def natOfDigits (ds : Bytes) : Nat := ds.foldl (fun n c => 10 * n + (c.toNat - 48)) 0

def lowerAscii (c : UInt8) : UInt8 := if 65 ≤ c && c ≤ 90 then c + 32 else c

/-- Keyword lookup as in `ScanKeywordLookup`: ASCII-only case folding of the whole word.
    (The spellings are explicit byte lists, not `b "and"`, so that the kernel can evaluate `lex`.) -/
def kwOf (w : Bytes) : Option Kw :=
  let l := w.map lowerAscii
  if l == [97, 110, 100] then some .and                               -- and
  else if l == [111, 114] then some .or                               -- or
  else if l == [110, 111, 116] then some .not                         -- not
  else if l == [98, 101, 116, 119, 101, 101, 110] then some .between  -- between
  else if l == [105, 110] then some .in_                              -- in
  else if l == [115, 105, 109, 105, 108, 97, 114] then some .similar  -- similar
  else if l == [116, 111] then some .to                               -- to
  else none

/-- does an operator-character run contain a comment opener (`--` or `/*`)? -/
def hasCommentStart : Bytes → Bool
  | a :: c :: t => (a == 45 && c == 45) || (a == 47 && c == 42) || hasCommentStart (c :: t)
  | _ => false

/-- Length of the operator token at the start of a maximal run of operator characters (no comment opener inside):
    scan.l's rule that a multi-character operator may end in `+`/`-` only if it contains one of
    ``~ ! @ # ^ & | ` ? %``; otherwise all trailing `+`/`-` are given back (but at least one character is kept). -/
def opLen (run : Bytes) : Nat :=
  if run.length > 1 && startsWith isPlusMinus run.reverse && !(run.dropLast.any isQualifying) then
    max 1 (run.reverse.dropWhile isPlusMinus).length
  else run.length

def opTok (t : Bytes) : Option Tok :=
  if t == [61] then some (.cmp .eq)               -- =
  else if t == [60] then some (.cmp .lt)          -- <
  else if t == [62] then some (.cmp .gt)          -- >
  else if t == [60, 61] then some (.cmp .le)      -- <=
  else if t == [62, 61] then some (.cmp .ge)      -- >=
  else if t == [60, 62] then some (.cmp .ne)      -- <>
  else if t == [126] then some .tilde             -- ~
  else if t == [45] then some .minus              -- -
  else if t == [63] then some .qmark              -- ?
  else none

/-- One scanner step per unit of fuel; every step consumes at least one byte, so `length + 1` is enough fuel. -/
def lexFrom : Nat → Bytes → Option (List Tok)
  | 0, _ => none
  | _ + 1, [] => some []
  | fuel + 1, c :: rest =>
    if isSpace c then lexFrom fuel rest
    else if c == 39 then
      match scanStr .body [] rest with
      | some (s, r) => (lexFrom fuel r).map (Tok.sconst s :: ·)
      | none => none
    else if c == 34 then
      match scanQId false [] rest with
      | some (name, r) => if name.isEmpty then none else (lexFrom fuel r).map (Tok.qident name :: ·)
      | none => none
    else if c == 40 then (lexFrom fuel rest).map (Tok.lparen :: ·)
    else if c == 41 then (lexFrom fuel rest).map (Tok.rparen :: ·)
    else if c == 44 then (lexFrom fuel rest).map (Tok.comma :: ·)
    else if isDigit c || (c == 46 && startsWith isDigit rest) then
      match scanNum (c :: rest) with
      | some (t, r) => (lexFrom fuel r).map (Tok.num t :: ·)
      | none => none
    else if c == 36 then
      -- `$n`; `$tag$...` dollar quoting and a stray `$` are outside
      let ds := rest.takeWhile isDigit
      let r := rest.dropWhile isDigit
      let n := natOfDigits ds
      if ds.isEmpty || startsWith isIdentStart r || n == 0 || n > 2147483647 then none
      else (lexFrom fuel r).map (Tok.param n :: ·)
    else if isIdentStart c then
      -- keyword, or (outside) identifier / E'..' / U&'..' / B'..' / X'..' / N'..'
      match kwOf ((c :: rest).takeWhile isIdentCont) with
      | some k => (lexFrom fuel ((c :: rest).dropWhile isIdentCont)).map (Tok.kw k :: ·)
      | none => none
    else if isOpChar c then
      let run := (c :: rest).takeWhile isOpChar
      if hasCommentStart run then none
      else
        let k := opLen run
        match opTok (run.take k) with
        | some t => (lexFrom fuel ((c :: rest).drop k)).map (t :: ·)
        | none => none
    else none   -- ; : . [ ] { } \ NUL and other control characters ...

/-- Scanner tokens of PostgreSQL on the text, or `none` if the text is not lexically inside the confined fragment. -/
def lex (sql : Bytes) : Option (List Tok) := lexFrom (sql.length + 1) sql

/-! ## Grammar -/

/- Concrete syntax tree: the confined AST plus explicit parentheses.  Parentheses leave no trace in PostgreSQL's
   parse tree, but they occupy PostgreSQL's parser stack, which is bounded (see `Cst.peak`). -/
mutual
inductive Cst
  | col (name : Bytes)
  | str (s : Bytes)
  | num (neg : Bool) (raw : Bytes)
  | param (n : Nat)
  | paren (x : Cst)
  | cmp (op : CmpOp) (l r : Cst)
  | between (x lo hi : Cst)
  | inList (x : Cst) (items : CstList)
  | similar (x pat : Cst)
  | regex (x pat : Cst)
  | and (l r : Cst)
  | or (l r : Cst)
  | not (x : Cst)
inductive CstList
  | nil
  | cons (a : Cst) (t : CstList)
end

mutual
/-- forget the parentheses -/
def Cst.toAst : Cst → Ast
  | .col n => .col n
  | .str s => .str s
  | .num neg raw => .num neg raw
  | .param n => .param n
  | .paren x => x.toAst
  | .cmp op l r => .cmp op l.toAst r.toAst
  | .between x lo hi => .between x.toAst lo.toAst hi.toAst
  | .inList x items => .inList x.toAst items.toAstList
  | .similar x p => .similar x.toAst p.toAst
  | .regex x p => .regex x.toAst p.toAst
  | .and l r => .and l.toAst r.toAst
  | .or l r => .or l.toAst r.toAst
  | .not x => .not x.toAst
def CstList.toAstList : CstList → AstList
  | .nil => .nil
  | .cons a t => .cons a.toAst t.toAstList
end

/-
  PostgreSQL's parser is a bison LALR(1) automaton whose stack may hold fewer than YYMAXDEPTH = 10000 entries; a
  statement that needs more is rejected with "memory exhausted".  `c.peak d` is the largest number of stack entries
  while the expression `c` is parsed, when `d` entries are on the stack before its first token.  The stack holds the
  symbols of the right-hand sides in progress, e.g. `a_expr AND •` (2 entries below the right operand),
  `a_expr BETWEEN opt_asymmetric b_expr AND •` (5), `a_expr IN_P '(' expr_list ',' •` (5), `'(' a_expr ')' opt_indirection` (4),
  `PARAM opt_indirection` (2), `'-' ICONST` (2).  Left-associative chains are reduced as they go and need no extra room.
-/
mutual
def Cst.peak : Cst → Nat → Nat
  | .col _, d => d + 1
  | .str _, d => d + 1
  | .num false _, d => d + 1
  | .num true _, d => d + 2
  | .param _, d => d + 2
  | .paren x, d => max (x.peak (d + 1)) (d + 4)
  | .cmp _ l r, d => max (l.peak d) (r.peak (d + 2))
  | .between x lo hi, d => max (x.peak d) (max (lo.peak (d + 3)) (hi.peak (d + 5)))
  | .inList x items, d => max (x.peak d) (items.peak true d)
  | .similar x p, d => max (x.peak d) (p.peak (d + 3))
  | .regex l r, d => max (l.peak d) (r.peak (d + 2))
  | .and l r, d => max (l.peak d) (r.peak (d + 2))
  | .or l r, d => max (l.peak d) (r.peak (d + 2))
  | .not x, d => x.peak (d + 1)
/-- items of `x IN (...)`; `d` is the base of the whole IN expression -/
def CstList.peak : CstList → (first : Bool) → Nat → Nat
  | .nil, _, d => d + 5
  | .cons a t, true, d => max (a.peak (d + 3)) (t.peak false d)
  | .cons a t, false, d => max (a.peak (d + 5)) (t.peak false d)
end

/-- stack entries in front of the expression in the reference frame `SELECT 1 FROM t WHERE (` :
    the initial state, `SELECT opt_all_clause opt_target_list into_clause from_clause WHERE '('`. -/
def frameDepth : Nat := 8

/-- Expressions whose `peak` reaches this bound are treated as outside the fragment.  bison's limit is 10000 entries
    (validated exactly against libpg_query); 1000 entries are left as a margin for a deeper enclosing statement. -/
def maxStack : Nat := 9000

/-- number `?` placeholders left to right -/
def numberParams : Nat → List Tok → List Tok
  | _, [] => []
  | k, .qmark :: ts => .param k :: numberParams (k + 1) ts
  | k, t :: ts => t :: numberParams k ts

def isQmark : Tok → Bool | .qmark => true | _ => false
def isParam : Tok → Bool | .param _ => true | _ => false

/-- `NOT` directly followed by BETWEEN / IN / SIMILAR is the token `NOT_LA` in PostgreSQL (NOT BETWEEN, NOT IN, ...):
    outside the fragment. -/
def startsNotLa : List Tok → Bool
  | .kw .between :: _ => true
  | .kw .in_ :: _ => true
  | .kw .similar :: _ => true
  | _ => false

def startsCmp : List Tok → Bool
  | .cmp _ :: _ => true
  | _ => false

/-
  Recursive descent, one function per precedence level of gram.y (loosest first):
    pOr   : a_expr OR a_expr            (left)
    pAnd  : a_expr AND a_expr           (left)
    pNot  : NOT a_expr                  (right; only in positions where every looser operator is allowed too)
    pCmp  : = < > <= >= <>              (%nonassoc: `a = b = c` is a syntax error)
    pBet  : BETWEEN / IN / SIMILAR TO   (%nonassoc; the lower BETWEEN bound is a b_expr)
    pOp   : ~                           (left; `Op`)
    pPrim : constant, -number, "column", placeholder, ( a_expr )
  Each function gets strictly smaller fuel than its caller.  The grammar accepted here is a subset of PostgreSQL's
  (deliberately not accepted although PostgreSQL does: `a = NOT b`, `- - 5`, `-(5)`, `a BETWEEN b = c AND d`,
  `(a IN (b)) IN (c)` without the parentheses, ...).
-/
mutual
def pOr : Nat → List Tok → Option (Cst × List Tok)
  | 0, _ => none
  | f + 1, ts =>
    match pAnd f ts with
    | some (l, r) => pOrLoop f l r
    | none => none
def pOrLoop : Nat → Cst → List Tok → Option (Cst × List Tok)
  | 0, _, _ => none
  | f + 1, l, .kw .or :: ts =>
    match pAnd f ts with
    | some (x, r) => pOrLoop f (.or l x) r
    | none => none
  | _ + 1, l, ts => some (l, ts)
def pAnd : Nat → List Tok → Option (Cst × List Tok)
  | 0, _ => none
  | f + 1, ts =>
    match pNot f ts with
    | some (l, r) => pAndLoop f l r
    | none => none
def pAndLoop : Nat → Cst → List Tok → Option (Cst × List Tok)
  | 0, _, _ => none
  | f + 1, l, .kw .and :: ts =>
    match pNot f ts with
    | some (x, r) => pAndLoop f (.and l x) r
    | none => none
  | _ + 1, l, ts => some (l, ts)
def pNot : Nat → List Tok → Option (Cst × List Tok)
  | 0, _ => none
  | f + 1, .kw .not :: ts =>
    if startsNotLa ts then none
    else match pNot f ts with
      | some (x, r) => some (.not x, r)
      | none => none
  | f + 1, ts => pCmp f ts
def pCmp : Nat → List Tok → Option (Cst × List Tok)
  | 0, _ => none
  | f + 1, ts =>
    match pBet f ts with
    | some (l, .cmp op :: r) =>
      match pBet f r with
      | some (x, r') => if startsCmp r' then none else some (.cmp op l x, r')
      | none => none
    | other => other
def pBet : Nat → List Tok → Option (Cst × List Tok)
  | 0, _ => none
  | f + 1, ts =>
    match pOp f ts with
    | some (x, .kw .between :: r) =>
      match pOp f r with
      | some (lo, .kw .and :: r') =>
        match pOp f r' with
        | some (hi, r'') => some (.between x lo hi, r'')
        | none => none
      | _ => none
    | some (x, .kw .in_ :: .lparen :: r) =>
      match pList f r with
      | some (items, .rparen :: r') => some (.inList x items, r')
      | _ => none
    | some (x, .kw .similar :: .kw .to :: r) =>
      match pOp f r with
      | some (p, r') => some (.similar x p, r')
      | none => none
    | other => other
def pOp : Nat → List Tok → Option (Cst × List Tok)
  | 0, _ => none
  | f + 1, ts =>
    match pPrim f ts with
    | some (l, r) => pOpLoop f l r
    | none => none
def pOpLoop : Nat → Cst → List Tok → Option (Cst × List Tok)
  | 0, _, _ => none
  | f + 1, l, .tilde :: ts =>
    match pPrim f ts with
    | some (x, r) => pOpLoop f (.regex l x) r
    | none => none
  | _ + 1, l, ts => some (l, ts)
def pPrim : Nat → List Tok → Option (Cst × List Tok)
  | 0, _ => none
  | _ + 1, .sconst s :: ts => some (.str s, ts)
  | _ + 1, .num raw :: ts => some (.num false raw, ts)
  | _ + 1, .minus :: .num raw :: ts => some (.num true raw, ts)
  | _ + 1, .qident name :: ts => some (.col name, ts)
  | _ + 1, .param n :: ts => some (.param n, ts)
  | f + 1, .lparen :: ts =>
    match pOr f ts with
    | some (x, .rparen :: r) => some (.paren x, r)
    | _ => none
  | _ + 1, _ => none
def pList : Nat → List Tok → Option (CstList × List Tok)
  | 0, _ => none
  | f + 1, ts =>
    match pOr f ts with
    | some (x, .comma :: r) =>
      match pList f r with
      | some (t, r') => some (.cons x t, r')
      | none => none
    | some (x, r) => some (.cons x .nil, r)
    | none => none
end

/-- fuel sufficient for `pOr` on `n` tokens (at most 9 nested calls between two consumed tokens) -/
def parseFuel (n : Nat) : Nat := 12 * n + 12

/-- the grammar alone: the whole token list as one expression, with its parentheses -/
def parseCst (toks : List Tok) : Option Cst :=
  if toks.any isQmark && toks.any isParam then none
  else
    match pOr (parseFuel toks.length) (numberParams 1 toks) with
    | some (c, []) => some c
    | _ => none

/-- a_expr of the confined fragment over the whole token list.  `?` placeholders are numbered left to right;
    mixing `?` and `$n` is rejected; so is an expression nested so deeply that PostgreSQL's parser stack could
    overflow inside `SELECT 1 FROM t WHERE (...)`. -/
def parse (toks : List Tok) : Option Ast :=
  match parseCst toks with
  | some c => if c.peak frameDepth < maxStack then some c.toAst else none
  | none => none

/-- lex then parse the whole text as one expression -/
def parseSql (sql : Bytes) : Option Ast :=
  match lex sql with
  | some toks => parse toks
  | none => none

/-! ## Canonical text -/

/-- `pg_utf_mblen`: length of a UTF-8 character judged from its first byte only. -/
def mblen (c : UInt8) : Nat :=
  if c &&& 0x80 == 0 then 1
  else if c &&& 0xe0 == 0xc0 then 2
  else if c &&& 0xf0 == 0xe0 then 3
  else if c &&& 0xf8 == 0xf0 then 4
  else 1

/-- `pg_mbcliplen(ident, len, 63)` for UTF8: the largest prefix of whole characters (as judged by `mblen` of the
    lead bytes; continuation bytes are skipped unchecked) not longer than 63 bytes. -/
def clipLen : Bytes → (skip clen : Nat) → Nat
  | [], _, clen => clen
  | c :: rest, skip, clen =>
    match skip with
    | s + 1 => clipLen rest s clen
    | 0 =>
      let l := mblen c
      if clen + l > 63 then clen
      else if clen + l == 63 then 63
      else clipLen rest (l - 1) (clen + l)

/-- PostgreSQL's `truncate_identifier`: identifiers of 64 bytes or more are cut to at most 63 bytes at a character
    boundary. -/
def truncIdent (name : Bytes) : Bytes :=
  if name.length ≥ 64 then name.take (clipLen name 0 0) else name

/-- A digits-only constant that fits `int32` is an integer constant (ICONST) in PostgreSQL and loses its spelling
    (`007` = `7`, `-0` = `0`); everything else is kept as text (FCONST). -/
def canonNum (neg : Bool) (raw : Bytes) : String :=
  let v := natOfDigits raw
  if raw.all isDigit && v ≤ 2147483647 then
    "(int " ++ (if neg && v != 0 then "-" else "") ++ toString v ++ ")"
  else
    "(float " ++ (if neg then "-" else "") ++ showBytes raw ++ ")"

def CmpOp.text : CmpOp → String
  | .eq => "=" | .lt => "<" | .gt => ">" | .le => "<=" | .ge => ">=" | .ne => "<>"

/-- where a node is printed: directly inside an AND / OR chain (then a nested same operator is spliced), or not -/
inductive Ctx | top | inAnd | inOr
  deriving DecidableEq

mutual
def canonIn : Ctx → Ast → String
  | _, .col name => "(col " ++ toHex (truncIdent name) ++ ")"
  | _, .str s => "(str " ++ toHex s ++ ")"
  | _, .num neg raw => canonNum neg raw
  | _, .param n => "(param " ++ toString n ++ ")"
  | _, .cmp op l r => "(" ++ op.text ++ " " ++ canonIn .top l ++ " " ++ canonIn .top r ++ ")"
  | _, .between x lo hi =>
    "(between " ++ canonIn .top x ++ " " ++ canonIn .top lo ++ " " ++ canonIn .top hi ++ ")"
  | _, .inList x items => "(in " ++ canonIn .top x ++ canonItems items ++ ")"
  | _, .similar x p => "(similar " ++ canonIn .top x ++ " " ++ canonIn .top p ++ ")"
  | _, .regex x p => "(~ " ++ canonIn .top x ++ " " ++ canonIn .top p ++ ")"
  | ctx, .and l r =>
    let body := canonIn .inAnd l ++ " " ++ canonIn .inAnd r
    if ctx == .inAnd then body else "(and " ++ body ++ ")"
  | ctx, .or l r =>
    let body := canonIn .inOr l ++ " " ++ canonIn .inOr r
    if ctx == .inOr then body else "(or " ++ body ++ ")"
  | _, .not x => "(not " ++ canonIn .top x ++ ")"
def canonItems : AstList → String
  | .nil => ""
  | .cons a t => " " ++ canonIn .top a ++ canonItems t
end

/-- Canonical one-line S-expression of an `Ast`: nested same-operator AND/OR flattened on both sides, byte strings
    in hex, column names truncated the way PostgreSQL does, integer constants by value.  `pgref` prints PostgreSQL's
    tree in exactly this format. -/
def canon (a : Ast) : String := canonIn .top a

end GoLucene.Sql

/-! ## Sanity checks (evaluated by the kernel) -/
section Examples
open GoLucene.Sql

-- `'a'⏎'b' =-5`: string continuation across a newline; `=-` is two tokens
example : lex [39,97,39,10,39,98,39,32,61,45,53] = some [.sconst [97,98], .cmp .eq, .minus, .num [53]] := by decide
-- `'a' 'b'`: no newline, two constants (and then a syntax error)
example : lex [39,97,39,32,39,98,39] = some [.sconst [97], .sconst [98]] := by decide
example : parseSql [39,97,39,32,39,98,39] = none := by decide
-- `1--`, `1/*`, `1;`, `a`, `E'a'`, `$$`, `1::2`, `5a`, `1e`, `""`, `'a`, `1 ~* 2`, `1 != 2`
example : lex [49,45,45] = none := by decide
example : lex [49,47,42] = none := by decide
example : lex [49,59] = none := by decide
example : lex [97] = none := by decide
example : lex [69,39,97,39] = none := by decide
example : lex [36,36] = none := by decide
example : lex [49,58,58,50] = none := by decide
example : lex [53,97] = none := by decide
example : lex [49,101] = none := by decide
example : lex [34,34] = none := by decide
example : lex [39,97] = none := by decide
example : lex [49,32,126,42,32,50] = none := by decide
example : lex [49,32,33,61,32,50] = none := by decide
-- `"a" IN (1, 2) aNd NOT('x')`
example : lex [34,97,34,32,73,78,32,40,49,44,32,50,41,32,97,78,100,32,78,79,84,40,39,120,39,41] =
    some [.qident [97], .kw .in_, .lparen, .num [49], .comma, .num [50], .rparen, .kw .and, .kw .not, .lparen,
      .sconst [120], .rparen] := by decide
-- comparisons do not associate; NOT binds looser than `=`; `?` are numbered
example : parse [.num [49], .cmp .eq, .num [50], .cmp .eq, .num [51]] = none := by decide
example : (parse [.kw .not, .qmark, .cmp .eq, .qmark] == some (.not (.cmp .eq (.param 1) (.param 2)))) = true := by decide
example : parse [.qmark, .cmp .eq, .param 1] = none := by decide
-- 63-byte truncation
example : truncIdent (List.replicate 70 97) = List.replicate 63 97 := by decide
example : truncIdent (List.replicate 62 97 ++ [0xc3, 0xa9, 98]) = List.replicate 62 97 := by decide

end Examples
