import GoLucene.Model.Sql
import GoLucene.Model.Driver
/-
  Meaning of a filter, on both sides of C03, and the provenance check of C02.

  * `Val`      — a non-NULL cell value: an exact decimal number or a string.
  * `evalSql`  — PostgreSQL's reading of a confined WHERE expression on a row (comparison on values of the same
                 type, BETWEEN, IN, SIMILAR TO on patterns whose only metacharacters are `%` and `_`; a type
                 mismatch, a regular-expression match or a pattern with another SIMILAR TO metacharacter has no
                 defined meaning here: `none`).  Modelled from the documentation — only PostgreSQL's PARSER is
                 available offline, so this is part of the trusted base of C03.
  * `evalL`    — what a query MEANS (the property's own words): `+x` is x, `-x` and `NOT x` are ¬x, numbers compare
                 numerically, strings compare as strings (bytewise), `*` globOn any run and `?` any one character,
                 a range end `*` is unbounded.  Evaluated on a *meaning tree* in `Expr` form that the harness's
                 oracle builds from the syntax tree it generated (mixed-bracket ranges are spelled as two comparisons).
  * `probeRows` — rows hitting every region cut out by the constants of the meaning tree.
  * `specC03`, `specC02` — the executable specs judged on the implementation's SQL.
-/
namespace GoLucene

open Sql

/-- an exact decimal `m · 10^e`, or a string -/
inductive Val
  | num (m : Int) (e : Int)
  | str (s : Bytes)
  deriving DecidableEq, Repr

def pow10 (n : Nat) : Int := (10 : Int) ^ n

/-- compare two exact decimals -/
def cmpDec (m1 e1 m2 e2 : Int) : Ordering :=
  if e1 ≥ e2 then compare (m1 * pow10 (e1 - e2).toNat) m2
  else compare m1 (m2 * pow10 (e2 - e1).toNat)

def cmpBytes : Bytes → Bytes → Ordering
  | [], [] => .eq
  | [], _ => .lt
  | _, [] => .gt
  | a :: as, c :: cs => if a < c then .lt else if a > c then .gt else cmpBytes as cs

/-- comparison of two values of the same type; `none` on a type mismatch -/
def Val.cmp : Val → Val → Option Ordering
  | .num m1 e1, .num m2 e2 => some (cmpDec m1 e1 m2 e2)
  | .str a, .str c => some (cmpBytes a c)
  | _, _ => none

def isDig (c : UInt8) : Bool := 48 ≤ c && c ≤ 57

/-- the exact decimal a numeric text denotes: `-12.50`, `1e+06`, `1.5e-07`, `.5`, `5.` -/
def decOfText (raw : Bytes) : Option (Int × Int) :=
  let (neg, s) := match raw with
    | 45 :: r => (true, r)
    | 43 :: r => (false, r)
    | r => (false, r)
  let ip := s.takeWhile isDig
  let r1 := s.dropWhile isDig
  let (fp, r2) := match r1 with
    | 46 :: r => (r.takeWhile isDig, r.dropWhile isDig)
    | r => ([], r)
  if ip.isEmpty && fp.isEmpty then none
  else
    let mant : Int := ((ip ++ fp).foldl (fun n c => 10 * n + (c.toNat - 48)) 0 : Nat)
    let expo : Option Int := match r2 with
      | [] => some 0
      | c :: r =>
        if c == 101 || c == 69 then
          let (eneg, ds) := match r with
            | 45 :: d => (true, d)
            | 43 :: d => (false, d)
            | d => (false, d)
          if ds.isEmpty || !ds.all isDig then none
          else
            let v : Int := (ds.foldl (fun n c => 10 * n + (c.toNat - 48)) 0 : Nat)
            some (if eneg then -v else v)
        else none
    match expo with
    | none => none
    | some ex => some ((if neg then -mant else mant), ex - fp.length)

def valOfPrim : Prim → Option Val
  | .str s => some (.str s)
  | .col s => some (.str s)
  | .int i => some (.num i 0)
  | .flt f => (decOfText (fmtG f)).map (fun p => .num p.1 p.2)
  | _ => none

abbrev Row := List (Bytes × Val)

def Row.get (r : Row) (f : Bytes) : Option Val := (r.find? (fun p => p.1 == f)).map (·.2)

/-! ### patterns: `*`/`?` (Lucene) and `%`/`_` (SQL), matched on runes -/

/-- glob match with `many` = the any-run wildcard and `one` = the any-one-character wildcard -/
def globMatch (many one : Nat) : Nat → List Nat → List Nat → Bool
  | 0, _, _ => false
  | _, [], [] => true
  | _, [], _ :: _ => false
  | fuel+1, p :: ps, s =>
    if p == many then
      globMatch many one fuel ps s || (match s with | [] => false | _ :: ss => globMatch many one fuel (p :: ps) ss)
    else match s with
      | [] => false
      | c :: ss => (p == one || p == c) && globMatch many one fuel ps ss

def runesOf (s : Bytes) : List Nat := (decode s).map (·.r)

def globOn (many one : Nat) (pat s : Bytes) : Bool :=
  let p := runesOf pat
  let r := runesOf s
  globMatch many one (2 * (p.length + r.length) + 2) p r

/-- SIMILAR TO metacharacters other than % and _ -/
def similarMeta (pat : Bytes) : Bool :=
  pat.any (fun c => c == 124 || c == 42 || c == 43 || c == 63 || c == 40 || c == 41 || c == 91 || c == 93 ||
    c == 123 || c == 125 || c == 92)

/-! ### PostgreSQL's reading -/

def sqlValue (row : Row) : Ast → Option Val
  | .col name => row.get (truncIdent name)
  | .str s => some (.str s)
  | .num neg raw => (decOfText raw).map (fun p => .num (if neg then -p.1 else p.1) p.2)
  | _ => none

def cmpHolds (op : CmpOp) (o : Ordering) : Bool :=
  match op with
  | .eq => o == .eq | .ne => o != .eq | .lt => o == .lt | .gt => o == .gt
  | .le => o != .gt | .ge => o != .lt

mutual
def evalSql (row : Row) : Ast → Option Bool
  | .cmp op l r =>
    (match sqlValue row l, sqlValue row r with
     | some a, some c => (a.cmp c).map (cmpHolds op)
     | _, _ => none)
  | .between x lo hi =>
    (match sqlValue row x, sqlValue row lo, sqlValue row hi with
     | some v, some a, some c =>
       (match v.cmp a, v.cmp c with
        | some o1, some o2 => some (o1 != .lt && o2 != .gt)
        | _, _ => none)
     | _, _, _ => none)
  | .inList x items =>
    (match sqlValue row x with
     | some v => evalIn row v items
     | none => none)
  | .similar x pat =>
    (match sqlValue row x, pat with
     | some (.str s), .str p => if similarMeta p then none else some (globOn 37 95 p s)
     | _, _ => none)
  | .regex _ _ => none
  | .and l r =>
    (match evalSql row l, evalSql row r with
     | some a, some c => some (a && c)
     | _, _ => none)
  | .or l r =>
    (match evalSql row l, evalSql row r with
     | some a, some c => some (a || c)
     | _, _ => none)
  | .not x => (evalSql row x).map (!·)
  | _ => none
def evalIn (row : Row) (v : Val) : AstList → Option Bool
  | .nil => some false
  | .cons a t =>
    match sqlValue row a, evalIn row v t with
    | some c, some rest => (v.cmp c).map (fun o => o == .eq || rest)
    | _, _ => none
end

/-! ### what the query means -/

def fieldOfNode : Node → Option Bytes
  | .expr (.mk (.prim (.col f)) .literal _ _ _) => some f
  | .expr (.mk (.prim (.str f)) .literal _ _ _) => some f
  | _ => none

def leafVal : Node → Option Val
  | .expr (.mk (.prim p) .literal _ _ _) => valOfPrim p
  | _ => none

/-- an unbounded range end: the bare `*` (a Wild leaf); the quoted string "*" is an ordinary value -/
def isStarNode : Node → Bool
  | .expr (.mk (.prim (.str s)) .wild _ _ _) => s == [42]
  | _ => false

def listVals : ExprList → Option (List Val)
  | .nil => some []
  | .cons (.mk (.prim p) .literal _ _ _) t =>
    (match valOfPrim p, listVals t with
     | some v, some vs => some (v :: vs)
     | _, _ => none)
  | _ => none

mutual
def evalLNode (row : Row) : Node → Option Bool
  | .expr e => evalL row e
  | _ => none
def evalL (row : Row) : Expr → Option Bool
  | .mk l o r _ _ =>
    match o with
    | .and =>
      (match evalLNode row l, evalLNode row r with
       | some a, some c => some (a && c)
       | _, _ => none)
    | .or =>
      (match evalLNode row l, evalLNode row r with
       | some a, some c => some (a || c)
       | _, _ => none)
    | .not | .mustNot => (evalLNode row l).map (!·)
    | .must => evalLNode row l
    | .equals | .greater | .less | .greaterEq | .lessEq =>
      (match fieldOfNode l, leafVal r with
       | some f, some c =>
         (match row.get f with
          | some v => (v.cmp c).map (cmpHolds (match o with
              | .greater => .gt | .less => .lt | .greaterEq => .ge | .lessEq => .le | _ => .eq))
          | none => none)
       | _, _ => none)
    | .like =>
      (match fieldOfNode l, r with
       | some f, .expr (.mk (.prim (.str p)) .wild _ _ _) =>
         (match row.get f with
          | some (.str s) => some (globOn 42 63 p s)
          | _ => none)
       | _, _ => none)
    | .in_ =>
      (match fieldOfNode l, r with
       | some f, .expr (.mk (.list es) .list _ _ _) =>
         (match row.get f, listVals es with
          | some v, some vs =>
            vs.foldl (fun acc c => match acc, v.cmp c with
              | some a, some o => some (a || o == .eq)
              | _, _ => none) (some false)
          | _, _ => none)
       | _, _ => none)
    | .range =>
      (match fieldOfNode l, r with
       | some f, .bound mn mx incl =>
         (match row.get f with
          | some v =>
            let lower : Option Bool :=
              if isStarNode mn then some true
              else (leafVal mn).bind (fun c => (v.cmp c).map (fun o => if incl then o != .lt else o == .gt))
            let upper : Option Bool :=
              if isStarNode mx then some true
              else (leafVal mx).bind (fun c => (v.cmp c).map (fun o => if incl then o != .gt else o == .lt))
            (match lower, upper with
             | some a, some c => some (a && c)
             | _, _ => none)
          | none => none)
       | _, _ => none)
    | _ => none
end

/-! ### probe rows -/

mutual
def constsNode : Node → List (Bytes × Val × Bool)    -- (field, constant, isPattern)
  | .expr e => constsExpr e
  | _ => []
def constsExpr : Expr → List (Bytes × Val × Bool)
  | .mk l o r _ _ =>
    match o with
    | .and | .or => constsNode l ++ constsNode r
    | .not | .mustNot | .must => constsNode l
    | _ =>
      match fieldOfNode l with
      | none => []
      | some f =>
        match r with
        | .expr (.mk (.prim (.str p)) .wild _ _ _) => [(f, .str p, true)]
        | .expr (.mk (.list es) .list _ _ _) => ((listVals es).getD []).map (fun v => (f, v, false))
        | .bound mn mx _ => ((leafVal mn).toList ++ (leafVal mx).toList).map (fun v => (f, v, false))
        | n => (leafVal n).toList.map (fun v => (f, v, false))
end

def replaceRune (x : UInt8) (y : Bytes) (s : Bytes) : Bytes := s.flatMap (fun c => if c == x then y else [c])

/-- values around a constant: the constant, just below, just above -/
def around (finest : Int) : Val × Bool → List Val
  | (.num m e, _) =>
    let d := finest - 2
    let m' := m * pow10 (e - d).toNat
    [.num m e, .num (m' - 1) d, .num (m' + 1) d, .num (m' - 100000) d, .num (m' + 100000) d]
  | (.str s, false) => [.str s, .str (s ++ [97]), .str s.dropLast, .str (s ++ [0x21]), .str ([0x21] ++ s)]
  | (.str p, true) =>
    let inst1 := replaceRune 63 [122] (replaceRune 42 [] p)
    let inst2 := replaceRune 63 [0xC3, 0xA9] (replaceRune 42 [120, 121] p)
    [.str inst1, .str inst2, .str (inst1 ++ [0x21]), .str ([0x21] ++ inst2), .str p, .str (replaceRune 63 [] inst2),
     .str (replaceRune 95 [0x58] inst2), .str (replaceRune 37 [0x59] inst1)]

def dedup {α} [BEq α] : List α → List α
  | [] => []
  | x :: xs => if xs.contains x then dedup xs else x :: dedup xs

def probeRows (meaning : Expr) : List Row :=
  let cs := constsExpr meaning
  let fields := dedup (cs.map (·.1))
  let finest : Int := cs.foldl (fun acc c => match c.2.1 with | .num _ e => min acc e | _ => acc) 0
  let cands : List (Bytes × List Val) := fields.map (fun f =>
    let mine := cs.filter (fun c => c.1 == f)
    let vs := dedup (mine.flatMap (fun c => around finest c.2))
    let isNum := mine.any (fun c => match c.2.1 with | .num _ _ => true | _ => false)
    (f, (if isNum then [Val.num 0 0] else [Val.str []]) ++ vs))
  let base : Row := cands.map (fun c => (c.1, c.2.headD (.str [])))
  let size : Nat := cands.foldl (fun n c => n * c.2.length) 1
  if size ≤ 600 then
    cands.foldr (fun c rows => c.2.flatMap (fun v => rows.map (fun r => (c.1, v) :: r))) [[]]
  else
    -- vary one field at a time
    base :: cands.flatMap (fun c => c.2.map (fun v => (c.1, v) :: base.filter (fun p => p.1 != c.1)))

/-! ### the executable specs -/

def showVal : Val → String
  | .num m e => s!"{m}e{e}"
  | .str s => "x" ++ toHex s

def showRow (r : Row) : String := ",".intercalate (r.map (fun p => toHex p.1 ++ "=" ++ showVal p.2))

/-- C03: the inline SQL is true on exactly the rows on which the query is true -/
def specC03 (meaning : Expr) (sql : Bytes) : String :=
  match parseSql sql with
  | none => "0:PostgreSQL does not read the SQL as one confined boolean expression"
  | some ast =>
    let rows := probeRows meaning
    match rows.find? (fun row => evalSql row ast != evalL row meaning) with
    | none => if rows.isEmpty then "0:no probe rows" else "1"
    | some row =>
      let showB : Option Bool → String := fun x => match x with | some true => "true" | some false => "false" | none => "undefined"
      "0:row " ++ showRow row ++ " query=" ++ showB (evalL row meaning) ++ " sql=" ++ showB (evalSql row ast)

mutual
def astCols : Ast → List Bytes
  | .col n => [n]
  | .cmp _ l r => astCols l ++ astCols r
  | .between x lo hi => astCols x ++ astCols lo ++ astCols hi
  | .inList x items => astCols x ++ astListCols items
  | .similar x p => astCols x ++ astCols p
  | .regex x p => astCols x ++ astCols p
  | .and l r => astCols l ++ astCols r
  | .or l r => astCols l ++ astCols r
  | .not x => astCols x
  | _ => []
def astListCols : AstList → List Bytes
  | .nil => []
  | .cons a t => astCols a ++ astListCols t
end

mutual
def astStrs : Ast → List Bytes
  | .str s => [s]
  | .cmp _ l r => astStrs l ++ astStrs r
  | .between x lo hi => astStrs x ++ astStrs lo ++ astStrs hi
  | .inList x items => astStrs x ++ astListStrs items
  | .similar x p => astStrs x ++ astStrs p
  | .regex x p => astStrs x ++ astStrs p
  | .and l r => astStrs l ++ astStrs r
  | .or l r => astStrs l ++ astStrs r
  | .not x => astStrs x
  | _ => []
def astListStrs : AstList → List Bytes
  | .nil => []
  | .cons a t => astStrs a ++ astListStrs t
end

mutual
def astParams : Ast → Nat
  | .param _ => 1
  | .cmp _ l r => astParams l + astParams r
  | .between x lo hi => astParams x + astParams lo + astParams hi
  | .inList x items => astParams x + astListParams items
  | .similar x p => astParams x + astParams p
  | .regex x p => astParams x + astParams p
  | .and l r => astParams l + astParams r
  | .or l r => astParams l + astParams r
  | .not x => astParams x
  | _ => 0
def astListParams : AstList → Nat
  | .nil => 0
  | .cons a t => astParams a + astListParams t
end

mutual
def treeCols : Node → List Bytes
  | .prim (.col s) => [s]
  | .expr (.mk l _ r _ _) => treeCols l ++ treeCols r
  | .list es => treeListCols es
  | .bound mn mx _ => treeCols mn ++ treeCols mx
  | _ => []
def treeListCols : ExprList → List Bytes
  | .nil => []
  | .cons (.mk l _ r _ _) t => treeCols l ++ treeCols r ++ treeListCols t
end

mutual
def treeStrs : Node → List Bytes
  | .prim (.str s) => [s]
  | .expr (.mk l _ r _ _) => treeStrs l ++ treeStrs r
  | .list es => treeListStrs es
  | .bound mn mx _ => treeStrs mn ++ treeStrs mx
  | _ => []
def treeListStrs : ExprList → List Bytes
  | .nil => []
  | .cons (.mk l _ r _ _) t => treeStrs l ++ treeStrs r ++ treeListStrs t
end

/-- C02: the SQL (inline or with placeholders) is one confined boolean expression; every column reference is a field
    of the query exactly as written (PostgreSQL's own 63-byte truncation must not change it); every string constant
    is a value of the query (a pattern after the fixed `*`→`%`, `?`→`_` translation), or the `'*'` marker of an
    unbounded range end.  `param` = the text is the parameterized SQL: then there must be no string constant
    other than that marker, and `nparams` placeholders. -/
def specC02 (tree : Expr) (sql : Bytes) (param : Bool) (nparams : Nat) : String :=
  match parseSql sql with
  | none => "0:PostgreSQL does not read the SQL as one confined boolean expression"
  | some ast =>
    let cols := treeCols (.expr tree)
    let strs := treeStrs (.expr tree)
    match (astCols ast).find? (fun c => !(cols.contains c) || truncIdent c != c) with
    | some c => "0:column reference " ++ toHex c ++ " is not a field of the query as PostgreSQL reads it"
    | none =>
      let okStr : Bytes → Bool := fun s =>
        if param then s == [42] else (strs.contains s || strs.any (fun t => starPattern t == s) || s == [42])
      match (astStrs ast).find? (fun s => !okStr s) with
      | some s => "0:string constant " ++ toHex s ++ " is not a value of the query"
      | none =>
        if param && astParams ast != nparams then
          "0:" ++ toString (astParams ast) ++ " placeholders for " ++ toString nparams ++ " parameters"
        else "1"

/-! ### C04: parameterized vs inline -/

def astOfPrim : Prim → Option Ast
  | .str s => some (.str s)
  | .int i => some (.num (decide (i < 0)) (fmtInt i.natAbs))
  | .flt f =>
    let t := fmtG f
    (match t with
     | 45 :: r => some (.num true r)
     | r => some (.num false r))
  | _ => none

mutual
/-- replace the n-th placeholder by the n-th parameter -/
def substParams (ps : List Prim) : Ast → Option Ast
  | .param n => (ps[n - 1]?).bind astOfPrim
  | .cmp op l r => (substParams ps l).bind (fun l' => (substParams ps r).map (fun r' => .cmp op l' r'))
  | .between x lo hi =>
    (substParams ps x).bind (fun x' => (substParams ps lo).bind (fun lo' => (substParams ps hi).map (fun hi' => .between x' lo' hi')))
  | .inList x items => (substParams ps x).bind (fun x' => (substParamsList ps items).map (fun is' => .inList x' is'))
  | .similar x p => (substParams ps x).bind (fun x' => (substParams ps p).map (fun p' => .similar x' p'))
  | .regex x p => (substParams ps x).bind (fun x' => (substParams ps p).map (fun p' => .regex x' p'))
  | .and l r => (substParams ps l).bind (fun l' => (substParams ps r).map (fun r' => .and l' r'))
  | .or l r => (substParams ps l).bind (fun l' => (substParams ps r).map (fun r' => .or l' r'))
  | .not x => (substParams ps x).map .not
  | a => some a
def substParamsList (ps : List Prim) : AstList → Option AstList
  | .nil => some .nil
  | .cons a t => (substParams ps a).bind (fun a' => (substParamsList ps t).map (fun t' => .cons a' t'))
end

mutual
/-- equality of two confined expressions with numeric constants compared by VALUE -/
def astEquiv : Ast → Ast → Bool
  | .num n1 r1, .num n2 r2 =>
    -- the same exact decimal, or the same float64 (a float64 parameter and the decimal expansion of that float)
    (match decOfText r1, decOfText r2 with
     | some (m1, e1), some (m2, e2) => cmpDec (if n1 then -m1 else m1) e1 (if n2 then -m2 else m2) e2 == .eq
     | _, _ => false) ||
    (match parseFloat ((if n1 then [45] else []) ++ r1), parseFloat ((if n2 then [45] else []) ++ r2) with
     | some f1, some f2 => f1.bits == f2.bits
     | _, _ => false)
  | .col a, .col c => a == c
  | .str a, .str c => a == c
  | .param a, .param c => a == c
  | .cmp o l r, .cmp o' l' r' => o == o' && astEquiv l l' && astEquiv r r'
  | .between x lo hi, .between x' lo' hi' => astEquiv x x' && astEquiv lo lo' && astEquiv hi hi'
  | .inList x items, .inList x' items' => astEquiv x x' && astListEquiv items items'
  | .similar x p, .similar x' p' => astEquiv x x' && astEquiv p p'
  | .regex x p, .regex x' p' => astEquiv x x' && astEquiv p p'
  | .and l r, .and l' r' => astEquiv l l' && astEquiv r r'
  | .or l r, .or l' r' => astEquiv l l' && astEquiv r r'
  | .not x, .not x' => astEquiv x x'
  | _, _ => false
def astListEquiv : AstList → AstList → Bool
  | .nil, .nil => true
  | .cons a t, .cons a' t' => astEquiv a a' && astListEquiv t t'
  | _, _ => false
end

mutual
/-- normal form for comparing two confined expressions up to the equivalences PostgreSQL itself defines:
    `x BETWEEN a AND b` is `x >= a AND x <= b`; AND / OR chains are re-associated to the right -/
def normAst : Ast → Ast
  | .between x lo hi => .and (.cmp .ge x lo) (.cmp .le x hi)
  | .cmp op l r => .cmp op (normAst l) (normAst r)
  | .inList x items => .inList (normAst x) (normAstList items)
  | .similar x p => .similar (normAst x) (normAst p)
  | .regex x p => .regex (normAst x) (normAst p)
  | .and l r => .and (normAst l) (normAst r)
  | .or l r => .or (normAst l) (normAst r)
  | .not x => .not (normAst x)
  | a => a
def normAstList : AstList → AstList
  | .nil => .nil
  | .cons a t => .cons (normAst a) (normAstList t)
end

def flattenAnd : Ast → List Ast
  | .and l r => flattenAnd l ++ flattenAnd r
  | a => [a]
def flattenOr : Ast → List Ast
  | .or l r => flattenOr l ++ flattenOr r
  | a => [a]

mutual
/-- equivalence of two normalised expressions: same flattened AND / OR chains, constants by value -/
def astEquivN : Nat → Ast → Ast → Bool
  | 0, _, _ => false
  | fuel+1, a, c =>
    match a, c with
    | .and _ _, .and _ _ => listEquivN fuel (flattenAnd a) (flattenAnd c)
    | .or _ _, .or _ _ => listEquivN fuel (flattenOr a) (flattenOr c)
    | .not x, .not y => astEquivN fuel x y
    | .cmp o l r, .cmp o' l' r' => o == o' && astEquivN fuel l l' && astEquivN fuel r r'
    | .inList x items, .inList x' items' => astEquivN fuel x x' && astListEquiv items items'
    | .similar x p, .similar x' p' => astEquivN fuel x x' && astEquivN fuel p p'
    | .regex x p, .regex x' p' => astEquivN fuel x x' && astEquivN fuel p p'
    | x, y => astEquiv x y
def listEquivN : Nat → List Ast → List Ast → Bool
  | _, [], [] => true
  | 0, _, _ => false
  | fuel+1, a :: as, c :: cs => astEquivN fuel a c && listEquivN fuel as cs
  | _, _, _ => false
end

mutual
def astSize : Ast → Nat
  | .cmp _ l r => 1 + astSize l + astSize r
  | .between x lo hi => 3 + astSize x + astSize lo + astSize hi
  | .inList x items => 1 + astSize x + astListSize items
  | .similar x p => 1 + astSize x + astSize p
  | .regex x p => 1 + astSize x + astSize p
  | .and l r => 1 + astSize l + astSize r
  | .or l r => 1 + astSize l + astSize r
  | .not x => 1 + astSize x
  | _ => 1
def astListSize : AstList → Nat
  | .nil => 0
  | .cons a t => astSize a + astListSize t
end

def astSame (a c : Ast) : Bool :=
  let a' := normAst a
  let c' := normAst c
  astEquivN (2 * (astSize a' + astSize c') + 4) a' c'

mutual
/-- the query's values, left to right, as they must travel in the parameter list: raw leaf values (no columns),
    an unbounded range end `*` is not a value, wildcard patterns translated (a /regexp/ stays as it is) -/
def treeValues (underLike : Bool) : Node → List Prim
  | .prim (.col _) => []
  | .prim p => [p]
  | .expr (.mk l o r _ _) =>
    if o = .like then treeValues false l ++ treeValues true r
    else if o = .wild && underLike then
      (match l with
       | .prim (.str s) => [.str (starPattern s)]
       | n => treeValues false n)
    else treeValues false l ++ treeValues false r
  | .list es => treeListValues es
  | .bound mn mx _ =>
    (if isStarNode mn then [] else treeValues false mn) ++ (if isStarNode mx then [] else treeValues false mx)
  | .nil => []
def treeListValues : ExprList → List Prim
  | .nil => []
  | .cons (.mk l _ r _ _) t => treeValues false l ++ treeValues false r ++ treeListValues t
end

/-- C04 judged on the implementation's two outputs for one query -/
def specC04 (tree : Expr) (inline psql : Bytes) (params : List Prim) : String :=
  match parseSql psql with
  | none => "0:the parameterized SQL is not one confined boolean expression"
  | some past =>
    if astParams past != params.length then
      "0:" ++ toString (astParams past) ++ " placeholders for " ++ toString params.length ++ " parameters"
    else if params != treeValues false (.expr tree) then
      "0:the parameters are not the query's values in left-to-right order with their kinds"
    else match parseSql inline, substParams params past with
      | some iast, some sast =>
        if astSame iast sast then "1" else "0:substituting the parameters does not give the inline predicate: " ++ canon sast ++ " vs " ++ canon iast
      | none, _ => "0:the inline SQL is not one confined boolean expression"
      | _, none => "0:a parameter has no SQL constant form"

end GoLucene
