import GoLucene.Model.Expr
/-
  Canonical one-line text of an expression tree, used by the line protocol: the Go harness prints the
  implementation's tree in the same format (walking `any` values by type switch and reading the two
  unexported fields by reflection), so agreement is string equality.

    node := nil | s:<hex> | i:<dec> | f:<16 hex digits of the float64 bits> | b:0 | b:1 | c:<hex> | opaque
          | (E <operator iota> <node> <node> f:<boost bits> i:<fuzzy>) | (L <expr>*) | (B <node> <node> b:<incl>)
-/
namespace GoLucene

def Op.num : Op → Nat
  | .undefined => 0 | .and => 1 | .or => 2 | .equals => 3 | .like => 4 | .not => 5 | .range => 6
  | .must => 7 | .mustNot => 8 | .boost => 9 | .fuzzy => 10 | .literal => 11 | .wild => 12
  | .regexp => 13 | .greater => 14 | .less => 15 | .greaterEq => 16 | .lessEq => 17 | .in_ => 18 | .list => 19

def Op.ofNum (n : Nat) : Option Op := Op.all.find? (fun o => o.num == n)

def hex64 (n : UInt64) : String :=
  let v := n.toNat
  String.ofList ((List.range 16).map (fun i => hexDigit ((v / 16 ^ (15 - i)) % 16)))

def canonPrim : Prim → String
  | .str s => "s:" ++ toHex s
  | .int i => "i:" ++ toString i
  | .flt f => "f:" ++ hex64 f.bits
  | .bool v => if v then "b:1" else "b:0"
  | .col s => "c:" ++ toHex s
  | .opaque => "opaque"

mutual
def canonNode : Node → String
  | .nil => "nil"
  | .prim p => canonPrim p
  | .expr e => canonExpr e
  | .list es => "(L" ++ canonList es ++ ")"
  | .bound mn mx incl => "(B " ++ canonNode mn ++ " " ++ canonNode mx ++ (if incl then " b:1)" else " b:0)")
def canonExpr : Expr → String
  | .mk l o r p d =>
    "(E " ++ toString o.num ++ " " ++ canonNode l ++ " " ++ canonNode r ++ " f:" ++ hex64 p.bits ++ " i:" ++ toString d ++ ")"
def canonList : ExprList → String
  | .nil => ""
  | .cons e t => " " ++ canonExpr e ++ canonList t
end

/-! ### reading the canonical text back (for ops that take a tree as input) -/

def canonTokens (s : String) : List String :=
  let spaced := s.toList.flatMap (fun c => if c == '(' then ['(', ' '] else if c == ')' then [' ', ')'] else [c])
  ((String.ofList spaced).splitOn " ").filter (· ≠ "")

def parseHex64 (s : String) : Option UInt64 :=
  if s.length != 16 then none
  else (s.toList.foldl (fun acc c => match acc, hexVal c with
    | some a, some v => some (a * 16 + v)
    | _, _ => none) (some 0)).map UInt64.ofNat

def parsePrimTok (t : String) : Option Prim :=
  if t == "opaque" then some .opaque
  else if t.startsWith "s:" then (ofHex (t.drop 2).toString).map .str
  else if t.startsWith "c:" then (ofHex (t.drop 2).toString).map .col
  else if t.startsWith "i:" then (t.drop 2).toString.toInt?.map .int
  else if t.startsWith "f:" then (parseHex64 (t.drop 2).toString).map (fun u => .flt ⟨u⟩)
  else if t == "b:1" then some (.bool true)
  else if t == "b:0" then some (.bool false)
  else none

mutual
/-- recursive descent with fuel; returns the node and the remaining tokens -/
def readNode : Nat → List String → Option (Node × List String)
  | 0, _ => none
  | _, [] => none
  | fuel+1, t :: rest =>
    if t == "nil" then some (.nil, rest)
    else if t == "(" then
      match rest with
      | "E" :: rest1 =>
        (match readExprBody fuel rest1 with
         | some (e, r) => some (.expr e, r)
         | none => none)
      | "L" :: rest1 =>
        (match readList fuel rest1 with
         | some (es, r) => some (.list es, r)
         | none => none)
      | "B" :: rest1 =>
        (match readNode fuel rest1 with
         | some (mn, r1) =>
           (match readNode fuel r1 with
            | some (mx, r2) =>
              (match r2 with
               | "b:1" :: ")" :: r3 => some (.bound mn mx true, r3)
               | "b:0" :: ")" :: r3 => some (.bound mn mx false, r3)
               | _ => none)
            | none => none)
         | none => none)
      | _ => none
    else (parsePrimTok t).map (fun p => (.prim p, rest))
/-- after `( E` -/
def readExprBody : Nat → List String → Option (Expr × List String)
  | 0, _ => none
  | fuel+1, toks =>
    match toks with
    | opn :: rest =>
      (match opn.toNat? >>= Op.ofNum with
       | none => none
       | some o =>
         match readNode fuel rest with
         | none => none
         | some (l, r1) =>
           match readNode fuel r1 with
           | none => none
           | some (r, r2) =>
             match r2 with
             | pf :: df :: ")" :: r3 =>
               (match parsePrimTok pf, parsePrimTok df with
                | some (.flt p), some (.int d) => some (.mk l o r p d, r3)
                | _, _ => none)
             | _ => none)
    | [] => none
/-- after `( L` -/
def readList : Nat → List String → Option (ExprList × List String)
  | 0, _ => none
  | fuel+1, toks =>
    match toks with
    | ")" :: rest => some (.nil, rest)
    | "(" :: "E" :: rest =>
      (match readExprBody fuel rest with
       | some (e, r) =>
         (match readList fuel r with
          | some (es, r2) => some (.cons e es, r2)
          | none => none)
       | none => none)
    | _ => none
end

def parseCanonNode (s : String) : Option Node :=
  let toks := canonTokens s
  match readNode (toks.length + 1) toks with
  | some (n, []) => some n
  | _ => none

def parseCanonExpr (s : String) : Option Expr :=
  match parseCanonNode s with
  | some (.expr e) => some e
  | _ => none

end GoLucene
