import GoLucene.Model.Num
/-
  pkg/lucene/expr: operators, the expression tree, the constructor `Expr` with all its special cases,
  `literalToExpr`, `wrapInColumn`, and the validators.

  Go's `any` in `Expression.Left/Right` and `RangeBoundary.Min/Max` is the closed sum `Node` of the dynamic
  types that can reach those positions from Parse, from the JSON decoder and from the public constructors:
  nil, a raw value (`Prim`), `*Expression`, `[]*Expression`, `*RangeBoundary`.  `Prim.opaque` stands for what
  encoding/json can put into an `any` besides float64/string/bool/nil (maps and slices).
  Every unchecked type assertion or index expression of the Go code is an explicit `.panic` outcome.
-/
namespace GoLucene

/-- expr.Operator in iota order -/
inductive Op
  | undefined | and | or | equals | like | not | range | must | mustNot | boost | fuzzy
  | literal | wild | regexp | greater | less | greaterEq | lessEq | in_ | list
  deriving DecidableEq, Repr

def Op.all : List Op :=
  [.undefined, .and, .or, .equals, .like, .not, .range, .must, .mustNot, .boost, .fuzzy,
   .literal, .wild, .regexp, .greater, .less, .greaterEq, .lessEq, .in_, .list]

/-- expr.toString (the map); a missing key (Undefined) gives "" -/
def Op.toStrS : Op → String
  | .undefined => "" | .and => "AND" | .or => "OR" | .equals => "EQUALS" | .like => "LIKE"
  | .not => "NOT" | .range => "RANGE" | .must => "MUST" | .mustNot => "MUST_NOT"
  | .boost => "BOOST" | .fuzzy => "FUZZY" | .literal => "LITERAL" | .wild => "WILD"
  | .regexp => "REGEXP" | .greater => "GREATER" | .less => "LESS" | .greaterEq => "GREATER_EQ"
  | .lessEq => "LESS_EQ" | .in_ => "IN" | .list => "LIST"

def Op.toStr (o : Op) : Bytes := b o.toStrS

/-- the Go identifier of the operator constant -/
def Op.goName : Op → String
  | .undefined => "Undefined" | .and => "And" | .or => "Or" | .equals => "Equals" | .like => "Like"
  | .not => "Not" | .range => "Range" | .must => "Must" | .mustNot => "MustNot"
  | .boost => "Boost" | .fuzzy => "Fuzzy" | .literal => "Literal" | .wild => "Wild"
  | .regexp => "Regexp" | .greater => "Greater" | .less => "Less" | .greaterEq => "GreaterEq"
  | .lessEq => "LessEq" | .in_ => "In" | .list => "List"

/-- expr.fromString (the map); a missing key gives Undefined -/
def Op.ofStr (s : Bytes) : Op :=
  match (Op.all.filter (fun o => o != .undefined && o.toStr == s)) with
  | o :: _ => o
  | [] => .undefined

/-- raw Go values that occur in leaf positions -/
inductive Prim
  | str (s : Bytes)
  | int (i : Int)
  | flt (f : F64)
  | bool (v : Bool)
  | col (s : Bytes)        -- expr.Column
  | opaque                 -- map[string]any / []any from encoding/json
  deriving DecidableEq, Repr

mutual
inductive Node
  | nil
  | prim (p : Prim)
  | expr (e : Expr)
  | list (es : ExprList)
  | bound (min max : Node) (incl : Bool)
inductive Expr
  | mk (left : Node) (op : Op) (right : Node) (boost : F64) (fuzzy : Int)
inductive ExprList
  | nil
  | cons (e : Expr) (t : ExprList)
end

def Expr.left : Expr → Node | .mk l _ _ _ _ => l
def Expr.op : Expr → Op | .mk _ o _ _ _ => o
def Expr.right : Expr → Node | .mk _ _ r _ _ => r
def Expr.boost : Expr → F64 | .mk _ _ _ p _ => p
def Expr.fuzzy : Expr → Int | .mk _ _ _ _ d => d

def ExprList.toList : ExprList → List Expr
  | .nil => []
  | .cons e t => e :: t.toList

def ExprList.ofList : List Expr → ExprList
  | [] => .nil
  | e :: t => .cons e (ExprList.ofList t)

def ExprList.length (es : ExprList) : Nat := es.toList.length

/-- expr.empty(): fuzzyDistance 1, boostPower 1.0 -/
def mkLeaf (left : Node) (op : Op) : Expr := .mk left op .nil F64.one 1

/-- expr.Lit(in) = Expr(in, Literal): none of the constructor's special cases applies -/
def lit (n : Node) : Expr := mkLeaf n .literal

def Prim.isLiteral : Prim → Bool
  | .opaque => false
  | _ => true

/-- validator.go isLiteral: string, int, float, bool or Column -/
def Node.isLiteral : Node → Bool
  | .prim p => p.isLiteral
  | _ => false

def Node.isNil : Node → Bool
  | .nil => true
  | _ => false

def Node.isExpr : Node → Bool
  | .expr _ => true
  | _ => false

/-- expression.go isStringlike -/
def isStringlike : Node → Bool
  | .prim (.str _) => true
  | .expr (.mk (.prim (.str _)) _ _ _ _) => true
  | _ => false

/-- expression.go operatesOnColumn -/
def operatesOnColumn (op : Op) : Bool :=
  op = .equals || op = .range || op = .greater || op = .less || op = .greaterEq || op = .lessEq ||
  op = .in_ || op = .like

/-- expression.go wrapInColumn (only called under `isStringlike`) -/
def wrapInColumn : Node → Node
  | .prim (.str s) => .expr (lit (.prim (.col s)))
  | .expr (.mk (.prim (.str s)) _ _ _ _) => .expr (lit (.prim (.col s)))
  | n => n

def containsWild (s : Bytes) : Bool := s.any (fun c => c == 42 || c == 63)

/-- `len(s) > 0 && s[0] == '/' && s[len(s)-1] == '/'` (after fix F1) -/
def looksRegexp (s : Bytes) : Bool :=
  match s with
  | [] => false
  | c :: _ => c == 47 && s.getLast? == some 47

/-- expression.go literalToExpr -/
def literalToExpr : Node → Expr
  | .expr e => e
  | .prim (.str s) =>
    if looksRegexp s then mkLeaf (.prim (.str s)) .regexp
    else if containsWild s then mkLeaf (.prim (.str s)) .wild
    else lit (.prim (.str s))
  | n => lit n

/-- expression.go shouldUseLikeOperator -/
def shouldUseLike : Node → Bool
  | .expr e => e.op = .wild || e.op = .regexp
  | _ => false

/-- expr.LIST(slice): the List operator applied to one `[]*Expression` argument -/
def mkList (es : ExprList) : Expr := mkLeaf (.list es) .list

/-- the first two steps of expr.Expr: column wrapping of a string-like left side under an operator that works on
    a column, then `literalToExpr` of a raw left side under a non-leaf operator -/
def normLeft (left : Node) (op : Op) : Node :=
  let left1 := if isStringlike left && operatesOnColumn op then wrapInColumn left else left
  if left1.isLiteral && op != .literal && op != .wild && op != .regexp then Node.expr (literalToExpr left1) else left1

/-- `len(right) == 1 && isFloat(right[0])` → the power, else 1.0 -/
def boostArg : List Node → F64
  | [.prim (.flt f)] => f
  | _ => F64.one

/-- `len(right) == 1 && isInt(right[0])` → the distance, else 1 -/
def fuzzyArg : List Node → Int
  | [.prim (.int i)] => i
  | _ => 1

/-- `op == Range && len(right) == 3 && isBool(right[2])` -/
def rangeArgs : List Node → Option (Node × Node × Bool)
  | [mn, mx, .prim (.bool incl)] => some (mn, mx, incl)
  | _ => none

/-- the generic tail of expr.Expr: a non-nil first right operand, converted by literalToExpr if it is a literal -/
def rightArg : List Node → Node
  | [] => .nil
  | r :: _ => if r.isNil then .nil else if r.isLiteral then .expr (literalToExpr r) else r

/-- expr.Expr(left, op, right...).  `Op.list` is modelled for the one call shape the library uses
    (`LIST(slice)`, i.e. `left` is the slice); every other shape of that branch is an unchecked assertion. -/
def mkExpr (left : Node) (op : Op) (right : List Node) : Out Expr :=
  let left2 := normLeft left op
  if op = .equals && right.length = 1 && shouldUseLike (right.headD .nil) then
    .ok (.mk left2 .like (right.headD .nil) F64.one 1)
  else if op = .boost then .ok (.mk left2 .boost .nil (boostArg right) 1)
  else if op = .fuzzy then .ok (.mk left2 .fuzzy .nil F64.one (fuzzyArg right))
  else if op = .range && (rangeArgs right).isSome then
    match rangeArgs right with
    | some (mn, mx, incl) =>
      .ok (.mk left2 .range (.bound (.expr (literalToExpr mn)) (.expr (literalToExpr mx)) incl) F64.one 1)
    | none => .panic
  else if op = .in_ && !right.isEmpty then
    match right.headD .nil with
    | .expr e => .ok (.mk left2 .in_ (.expr e) F64.one 1)
    | _ => .panic                                        -- right[0].(*Expression)
  else if op = .list then
    match left2 with
    | .list es => .ok (.mk (.list es) .list .nil F64.one 1)
    | _ => .panic                                        -- left.([]any)
  else .ok (.mk left2 op (rightArg right) F64.one 1)

/-! ### validator.go -/

/-- isLiteralExpr -/
def isLiteralExpr : Node → Bool
  | .expr (.mk l o _ _ _) => (o = .literal || o = .wild || o = .regexp) && l.isLiteral
  | _ => false

def ExprList.allLiteralExprs : ExprList → Bool
  | .nil => true
  | .cons e t => isLiteralExpr (.expr e) && t.allLiteralExprs

/-- the per-operator validator `validators[e.Op]`; `none` = no validator registered (Undefined) -/
def validateOp (e : Expr) : Option Bool :=
  let l := e.left
  let r := e.right
  match e.op with
  | .undefined => none
  | .equals | .greater | .less | .greaterEq | .lessEq => some (isLiteralExpr l)
  | .and | .or => some (!l.isNil && !r.isNil)
  | .not | .must | .mustNot | .boost | .fuzzy => some (!l.isNil && r.isNil)
  | .range =>
    some (!l.isNil && !r.isNil && isLiteralExpr l &&
      (match r with
       | .bound mn mx _ => !mn.isNil && !mx.isNil && isLiteralExpr mn && isLiteralExpr mx
       | _ => false))
  | .literal | .wild | .regexp => some (!l.isNil && r.isNil && l.isLiteral)
  | .like =>
    some (!l.isNil && isLiteralExpr l && !r.isNil &&
      (match r with
       | .expr re => re.op = .wild || re.op = .regexp
       | _ => false))
  | .in_ =>
    some (!l.isNil && isLiteralExpr l && !r.isNil &&
      (match r with
       | .expr re => re.op = .list
       | _ => false))
  | .list =>
    some (!l.isNil && r.isNil &&
      (match l with
       | .list es => es.allLiteralExprs
       | _ => false))

mutual
/-- expr.Validate(in any): anything that is not a `*Expression` is a leaf and passes -/
def validateNode : Node → Bool
  | .expr e => validateExpr e
  | _ => true
def validateExpr : Expr → Bool
  | .mk l o r p d =>
    (match validateOp (.mk l o r p d) with
     | some true => true
     | _ => false) && validateNode l && validateNode r
end

end GoLucene
