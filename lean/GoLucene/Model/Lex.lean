import GoLucene.Model.Token
/-
  internal/lex/lex.go as a function on decoded cells.

  `next k inp` is one call of `Lexer.Next` on the remaining input `inp` (the state functions lexSpace, lexVal,
  lexWord, lexPhrase, lexRegexp).  The character classes unicode.IsLetter / unicode.IsDigit are parameters
  (`Cls`): every theorem holds for all of them, `modeld` instantiates them with the range tables dumped from
  the Go toolchain in use.  `strings.ToUpper` on the current word is modelled as ASCII upper-casing: the
  harness checks exhaustively that no non-ASCII rune upper-cases to a letter of AND/OR/NOT/TO.
-/
namespace GoLucene

/-- character classes; letter/digit are parameters (unicode.IsLetter / IsDigit) -/
structure Cls where
  isLetter : Nat → Bool
  isDigit : Nat → Bool

def isWs (r : Nat) : Bool := r = 32 || r = 9 || r = 13 || r = 10
def isWild (r : Nat) : Bool := r = 42 || r = 63           -- * ?
def isEsc (r : Nat) : Bool := r = 92                      -- backslash
def Cls.isAlnum (k : Cls) (r : Nat) : Bool := r = 95 || k.isLetter r || k.isDigit r

/-- lex.symbols (the map from rune to token type) -/
def symbolTable : List (Nat × TT) :=
  [(40, .lparen), (41, .rparen), (91, .lsquare), (93, .rsquare), (123, .lcurly), (125, .rcurly), (58, .colon),
   (43, .plus), (61, .equal), (62, .greater), (126, .tilde), (94, .carrot), (60, .less)]

def symbolOf (r : Nat) : Option TT := symbolTable.lookup r

/-- lexWord: consume word cells; an escape swallows the following cell (if any). Returns (consumed, rest). -/
def lexWord (k : Cls) : List Cell → List Cell × List Cell
  | [] => ([], [])
  | c :: cs =>
    if k.isAlnum c.r || isWild c.r || c.r = 46 || c.r = 45 then
      let (w, rest) := lexWord k cs
      (c :: w, rest)
    else if isEsc c.r then
      match cs with
      | [] => ([c], [])
      | d :: ds =>
        let (w, rest) := lexWord k ds
        (c :: d :: w, rest)
    else ([], c :: cs)

/-- lexPhrase after the opening quote `q`: consume up to and including the closing quote. -/
def lexPhrase (q : Nat) : List Cell → Option (List Cell × List Cell)
  | [] => none
  | c :: cs =>
    if c.r = q then some ([c], cs)
    else match lexPhrase q cs with
      | none => none
      | some (w, rest) => some (c :: w, rest)

/-- lexRegexp after the opening slash: escape skips the next cell. -/
def lexRegexp : List Cell → Option (List Cell × List Cell)
  | [] => none
  | c :: cs =>
    if isEsc c.r then
      match cs with
      | [] => none
      | d :: ds => match lexRegexp ds with
        | none => none
        | some (w, rest) => some (c :: d :: w, rest)
    else if c.r = 47 then some ([c], cs)
    else match lexRegexp cs with
      | none => none
      | some (w, rest) => some (c :: w, rest)
termination_by cs => cs.length

def dropWs : List Cell → List Cell × List Cell
  | [] => ([], [])
  | c :: cs => if isWs c.r then let (w, r) := dropWs cs; (c :: w, r) else ([], c :: cs)

def upperAscii (b : UInt8) : UInt8 := if 97 ≤ b ∧ b ≤ 122 then b - 32 else b

def keywordOf (w : Bytes) : Option TT :=
  let u := w.map upperAscii
  if u = [65, 78, 68] then some .tand else if u = [79, 82] then some .tor
  else if u = [78, 79, 84] then some .tnot else if u = [84, 79] then some .tto else none

inductive Step
  | tok (t : Tok) (ws consumed rest : List Cell)   -- skipped whitespace, token cells, remaining input
  | eof (ws : List Cell)
  | err (ws : List Cell) (rest : List Cell)        -- lexical error at the head of `rest` (or unterminated from there)

/-- one call of Lexer.Next on the remaining input -/
def next (k : Cls) (inp : List Cell) : Step :=
  let (ws, s) := dropWs inp
  match s with
  | [] => .eof ws
  | c :: cs =>
    if k.isAlnum c.r || isWild c.r || isEsc c.r then
      let (w, rest) := lexWord k (c :: cs)
      let v := cellsBytes w
      .tok ⟨(keywordOf v).getD .literal, v⟩ ws w rest
    else match symbolOf c.r with
      | some t => .tok ⟨t, c.raw⟩ ws [c] cs
      | none =>
        if c.r = 45 then
          match cs with
          | d :: _ =>
            if k.isDigit d.r then
              let (w, rest) := lexWord k (c :: cs)
              let v := cellsBytes w
              .tok ⟨(keywordOf v).getD .literal, v⟩ ws w rest
            else .tok ⟨.minus, c.raw⟩ ws [c] cs
          | [] => .tok ⟨.minus, c.raw⟩ ws [c] cs
        else if c.r = 34 || c.r = 39 then
          match lexPhrase c.r cs with
          | some (w, rest) => .tok ⟨.quoted, cellsBytes (c :: w)⟩ ws (c :: w) rest
          | none => .err ws (c :: cs)
        else if c.r = 47 then
          match lexRegexp cs with
          | some (w, rest) => .tok ⟨.regexp, cellsBytes (c :: w)⟩ ws (c :: w) rest
          | none => .err ws (c :: cs)
        else .err ws (c :: cs)

end GoLucene
