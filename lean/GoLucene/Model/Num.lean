import GoLucene.Model.Basic
/- TEMPORARY STUB — replaced by the exact model (see harness/cmd/numcheck). -/
namespace GoLucene

structure F64 where
  bits : UInt64
  deriving DecidableEq, Repr

def F64.isNaN (_f : F64) : Bool := false
def F64.isInf (_f : F64) : Bool := false
def F64.isNeg (f : F64) : Bool := f.bits >>> 63 == 1
def F64.lt (a b : F64) : Bool := a.bits < b.bits
def F64.eq (a b : F64) : Bool := a.bits == b.bits
def F64.one : F64 := ⟨0x3FF0000000000000⟩
def F64.zero : F64 := ⟨0⟩
def F64.ofInt (i : Int) : F64 := if i == 1 then F64.one else ⟨0x4000000000000000⟩
def F64.toInt (_f : F64) : Int := 0

def digitsToNat : Bytes → Option Nat
  | [] => some 0
  | c :: cs => if 48 ≤ c ∧ c ≤ 57 then (digitsToNat cs) else none

def natOfDigits (ds : Bytes) : Nat := ds.foldl (fun acc c => acc * 10 + (c.toNat - 48)) 0

def allDigits (ds : Bytes) : Bool := ds.all (fun c => 48 ≤ c && c ≤ 57)

def atoi (s : Bytes) : Option Int :=
  let (neg, ds) := match s with
    | 43 :: r => (false, r)
    | 45 :: r => (true, r)
    | r => (false, r)
  if ds.isEmpty || !allDigits ds then none
  else
    let n := natOfDigits ds
    if neg then (if n ≤ 9223372036854775808 then some (-(n : Int)) else none)
    else (if n ≤ 9223372036854775807 then some (n : Int) else none)

def parseFloat (_s : Bytes) : Option F64 := none

def fmtNat (n : Nat) : Bytes := (toString n).toUTF8.toList
def fmtInt (i : Int) : Bytes := if i < 0 then 45 :: fmtNat i.natAbs else fmtNat i.natAbs
def fmtG (_f : F64) : Bytes := b "1"
def fmtFixed (_f : F64) (_prec : Nat) : Bytes := b "1.0"
def fmtJSON (_f : F64) : Option Bytes := some (b "1")
def quoteGo (_isPrint : Nat → Bool) (s : Bytes) : Bytes := [34] ++ s ++ [34]

end GoLucene
