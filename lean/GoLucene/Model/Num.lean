/-
  Exact, executable, total model of the number handling of Go's `strconv`, `fmt` and `encoding/json`
  that go-lucene relies on (validated against go1.23.5, linux/amd64):

    * `F64`            IEEE-754 binary64 by bit pattern, comparison, `float64(int64)`, `int64(float64)`
    * `atoi`           strconv.Atoi
    * `parseFloat`     strconv.ParseFloat(s, 64)
    * `fmtInt`         strconv.Itoa / `%d` / `%v` of an int
    * `fmtG`           `%v` / `%#v` of a float64   (strconv.FormatFloat(f, 'g', -1, 64))
    * `fmtFixed`       `%.<prec>f` of a float64
    * `fmtJSON`        encoding/json float64 encoding
    * `quoteGo`        strconv.Quote (printability is a parameter)

  Core Lean only; all arithmetic is exact `Nat`/`Int` arithmetic; every function is structurally recursive
  (loops that are not structural on a list carry explicit fuel).  Helper definitions live in
  `GoLucene.Num`, the public API lives in `GoLucene`.

  Faithfulness notes (things where "what Go does" is not "what the mathematics says"):

    * ParseFloat reads the decimal/binary exponent with `if e < 10000 { e = e*10 + digit }`, so exponents
      with more than five significant digits are clamped (`scanExpDigits`).  Only observable with mantissas of
      ~90000+ digits.
    * ParseFloat underflow is *not* an error (`1e-400` is `+0, nil`), overflow is (`1e400` is `+Inf, ErrRange` → `none`).
    * With more than 800 significant digits *before the decimal point* strconv's multiprecision fallback misplaces the
      decimal point (go1.23.5; see `decimalBits`).  The fallback is only reached when Eisel–Lemire gives up, so
      `eiselLemire` is modelled too.  For all other inputs ParseFloat is correctly rounded and the model is the
      two-line mathematical definition `roundRatBits`.
    * `%v` of a float64 (shortest `%g`) uses exponent form iff the decimal exponent is `< -4` or `≥ 6`
      (two-digit exponent at least: "1e+06", "1e-05"); encoding/json uses exponent form iff `|f| < 1e-6` or
      `|f| ≥ 1e21` (float comparison) and prints "1e-7", "1e+21".

  Validated by differential testing against real Go (see /verif/harness/cmd/numcheck).
-/
import GoLucene.Model.Basic

namespace GoLucene

/-- IEEE-754 binary64 by its bit pattern. -/
structure F64 where
  bits : UInt64
  deriving DecidableEq, Repr

namespace Num

/-! ### constants -/

def two52 : Nat := 4503599627370496          -- 2^52
def two63 : Nat := 9223372036854775808       -- 2^63
def two64 : Nat := 18446744073709551616      -- 2^64
def infBits : Nat := 0x7FF0000000000000      -- bits of +Inf (= magnitude bound for finite values)
def nanBits : Nat := 0x7FF8000000000001      -- bits of Go's math.NaN()

/-! ### rounding a positive rational to binary64 -/

/--
Magnitude bits (sign bit clear) of the binary64 nearest to `num/den` (ties to even).
The result is `≥ infBits` exactly when the rounded value overflows.  `0` if `num = 0` (or `den = 0`).

With `L = ⌊log2(num/den)⌋` and `e = max (L-52) (-1074)`, `q = round(num / (den·2^e))` has at most 53 bits
(54 after a carry) and the bit pattern is `(e+1074)·2^52 + q` — this formula covers denormals
(`e = -1074`, `q < 2^52`), normals (the implicit bit of `q` bumps the exponent field) and the
carry into the next binade.
-/
def roundRatBits (num den : Nat) : Nat :=
  if num = 0 ∨ den = 0 then 0 else
  let d : Int := (Nat.log2 num : Int) - (Nat.log2 den : Int)
  let ge : Bool :=
    if d ≥ 0 then decide (den <<< d.toNat ≤ num) else decide (den ≤ num <<< (-d).toNat)
  let L : Int := if ge then d else d - 1
  let e : Int := if L - 52 < -1074 then -1074 else L - 52
  let n' : Nat := if e ≥ 0 then num else num <<< (-e).toNat
  let d' : Nat := if e ≥ 0 then den <<< e.toNat else den
  let q := n' / d'
  let r := n' % d'
  let q' := if d' < 2 * r ∨ (2 * r = d' ∧ q % 2 = 1) then q + 1 else q
  (e + 1074).toNat * two52 + q'

end Num

namespace F64
open Num

def ofBitsNat (n : Nat) : F64 := ⟨UInt64.ofNat n⟩

/-- bit pattern with the sign bit cleared -/
def mag (f : F64) : Nat := f.bits.toNat % two63

def isNeg (f : F64) : Bool := decide (two63 ≤ f.bits.toNat)
def isNaN (f : F64) : Bool := decide (infBits < f.mag)
def isInf (f : F64) : Bool := f.mag == infBits
def isZero (f : F64) : Bool := f.mag == 0
def isFinite (f : F64) : Bool := decide (f.mag < infBits)

/-- integer significand of a finite value: `|f| = mant · 2^exp2` -/
def mant (f : F64) : Nat := if f.mag < two52 then f.mag else f.mag % two52 + two52
/-- binary exponent of a finite value: `|f| = mant · 2^exp2` -/
def exp2 (f : F64) : Int := if f.mag < two52 then -1074 else ((f.mag / two52 : Nat) : Int) - 1075

/-- order-preserving integer key of a non-NaN value (-0 and +0 both map to 0) -/
def key (f : F64) : Int := if f.isNeg then -(f.mag : Int) else (f.mag : Int)

/-- IEEE `<` -/
def lt (a b : F64) : Bool := !a.isNaN && !b.isNaN && decide (a.key < b.key)
/-- IEEE `==` -/
def eq (a b : F64) : Bool := !a.isNaN && !b.isNaN && decide (a.key = b.key)

def zero : F64 := ⟨0⟩
def one : F64 := ⟨0x3FF0000000000000⟩
def negZero : F64 := ⟨0x8000000000000000⟩
def inf (neg : Bool) : F64 := if neg then ⟨0xFFF0000000000000⟩ else ⟨0x7FF0000000000000⟩
def nan : F64 := ⟨0x7FF8000000000001⟩

/-- attach a sign to magnitude bits -/
def ofMag (neg : Bool) (m : Nat) : F64 := ofBitsNat (if neg then m + two63 else m)

/-- Go `float64(i)` for an int64 `i` (round to nearest, ties to even). -/
def ofInt (i : Int) : F64 := ofMag (decide (i < 0)) (roundRatBits i.natAbs 1)

/-- Go `int(f)` on amd64 (CVTTSD2SQ): truncation toward zero when the truncated value fits in int64,
    otherwise (NaN, ±Inf, out of range) the "integer indefinite" value -2^63. -/
def toInt (f : F64) : Int :=
  let indefinite : Int := -(two63 : Int)
  if !f.isFinite then indefinite else
  let e := f.exp2
  if e ≥ 12 then (if f.mant = 0 then 0 else indefinite) else
  let v : Nat := if e ≥ 0 then f.mant <<< e.toNat else f.mant >>> (-e).toNat
  let iv : Int := if f.isNeg then -(v : Int) else (v : Int)
  if indefinite ≤ iv ∧ iv < (two63 : Int) then iv else indefinite

end F64

namespace Num

/-! ### bytes helpers -/

def isDig (c : UInt8) : Bool := 48 ≤ c && c ≤ 57
/-- Go's `lower(c) = c | ('x' ^ 'X')` -/
def lower (c : UInt8) : UInt8 := c ||| 0x20
def isHexLet (c : UInt8) : Bool := 97 ≤ lower c && lower c ≤ 102
/-- ASCII `A-Z → a-z` (used by `special`) -/
def lowerAZ (c : UInt8) : UInt8 := if 65 ≤ c && c ≤ 90 then c + 32 else c

/-- decimal digits of a natural number as ASCII bytes -/
def natDigits (n : Nat) : Bytes := (Nat.toDigits 10 n).map (fun c => UInt8.ofNat c.toNat)

def zeros (n : Nat) : Bytes := List.replicate n 48

/-! ### strconv.Atoi -/

/-- value of a non-empty all-digit string -/
def digitsVal : Nat → Bytes → Option Nat
  | acc, [] => some acc
  | acc, c :: rest => if isDig c then digitsVal (acc * 10 + (c.toNat - 48)) rest else none

def atoiU (s : Bytes) : Option Nat :=
  match s with
  | [] => none
  | _ => digitsVal 0 s

end Num

open Num in
/-- strconv.Atoi (== ParseInt(s,10,0) on a 64-bit platform): `none` for every error. -/
def atoi (s : Bytes) : Option Int :=
  match s with
  | [] => none
  | c :: rest =>
    if c = 45 then
      match atoiU rest with
      | some n => if n ≤ two63 then some (-(n : Int)) else none
      | none => none
    else
      match atoiU (if c = 43 then rest else s) with
      | some n => if n < two63 then some (n : Int) else none
      | none => none

namespace Num

/-! ### strconv.ParseFloat: scanner (mirrors `readFloat`) -/

/-- state of the mantissa loop of `readFloat`; `mant`/`nd` hold *all* significant digits (Go keeps only
    19 resp. 16 of them plus a `trunc` flag, which is derived from these when needed). -/
structure Scan where
  mant : Nat := 0
  nd : Nat := 0
  dp : Int := 0
  /-- value of `nd` when the '.' was read -/
  ndDot : Nat := 0
  sawdot : Bool := false
  sawdigits : Bool := false
  us : Bool := false

/-- the `loop:` of `readFloat`; returns the state and the unconsumed rest -/
def scanMant (hex : Bool) : Scan → Bytes → Scan × Bytes
  | st, [] => (st, [])
  | st, c :: rest =>
    if c = 95 then scanMant hex { st with us := true } rest
    else if c = 46 then
      if st.sawdot then (st, c :: rest)
      else scanMant hex { st with sawdot := true, dp := (st.nd : Int), ndDot := st.nd } rest
    else if isDig c then
      if c = 48 ∧ st.nd = 0 then
        scanMant hex { st with sawdigits := true, dp := st.dp - 1 } rest
      else
        scanMant hex { st with sawdigits := true, nd := st.nd + 1,
                               mant := st.mant * (if hex then 16 else 10) + (c.toNat - 48) } rest
    else if hex ∧ isHexLet c then
      scanMant hex { st with sawdigits := true, nd := st.nd + 1,
                             mant := st.mant * 16 + ((lower c).toNat - 87) } rest
    else (st, c :: rest)

/-- exponent digit loop: `if e < 10000 { e = e*10 + digit }`, underscores skipped (and recorded) -/
def scanExpDigits : Nat → Bool → Bytes → Nat × Bool × Bytes
  | e, us, [] => (e, us, [])
  | e, us, c :: rest =>
    if c = 95 then scanExpDigits e true rest
    else if isDig c then scanExpDigits (if e < 10000 then e * 10 + (c.toNat - 48) else e) us rest
    else (e, us, c :: rest)

/-- The part of `readFloat` after the mantissa, combined with ParseFloat's "whole string consumed" check.
    `none` = syntax error; `some (e, us)` = signed exponent to add to `dp` and the underscore flag. -/
def scanExp (hex : Bool) (us : Bool) (rest : Bytes) : Option (Int × Bool) :=
  match rest with
  | [] => if hex then none else some (0, us)
  | c :: r1 =>
    if lower c = (if hex then 112 else 101) then
      match r1 with
      | [] => none
      | s :: r2 =>
        let neg := s = 45
        let r3 := if s = 43 ∨ s = 45 then r2 else r1
        match r3 with
        | [] => none
        | d :: _ =>
          if isDig d then
            match scanExpDigits 0 us r3 with
            | (e, us', []) => some (if neg then -(e : Int) else (e : Int), us')
            | _ => none
          else none
    else none

inductive Saw where
  | start | digit | under | other
  deriving DecidableEq

def underscoreLoop (hex : Bool) : Saw → Bytes → Bool
  | saw, [] => saw != Saw.under
  | saw, c :: rest =>
    if isDig c || (hex && isHexLet c) then underscoreLoop hex Saw.digit rest
    else if c = 95 then
      if saw != Saw.digit then false else underscoreLoop hex Saw.under rest
    else if saw == Saw.under then false
    else underscoreLoop hex Saw.other rest

/-- strconv's `underscoreOK` -/
def underscoreOK (s : Bytes) : Bool :=
  let s1 := match s with
    | c :: rest => if c = 45 ∨ c = 43 then rest else s
    | [] => s
  match s1 with
  | 48 :: x :: rest =>
    if lower x = 98 ∨ lower x = 111 ∨ lower x = 120 then
      underscoreLoop (lower x = 120) Saw.digit rest
    else underscoreLoop false Saw.start s1
  | _ => underscoreLoop false Saw.start s1

/-- ParseFloat's `special` restricted to whole-string matches:
    `[+-]?(inf|infinity)` and `nan`, ASCII-case-insensitively. -/
def special (s : Bytes) : Option F64 :=
  let isInfWord (w : Bytes) : Bool :=
    let l := w.map lowerAZ
    l == [105, 110, 102] || l == [105, 110, 102, 105, 110, 105, 116, 121]
  match s with
  | [] => none
  | c :: rest =>
    if c = 43 then (if isInfWord rest then some (F64.inf false) else none)
    else if c = 45 then (if isInfWord rest then some (F64.inf true) else none)
    else if isInfWord s then some (F64.inf false)
    else if s.map lowerAZ == [110, 97, 110] then some F64.nan
    else none

/-! ### decimal → binary64 -/

/-- magnitude bits of the correctly rounded value of `0.d₁d₂…d_nd × 10^dp` where `mant = d₁…d_nd ≠ 0`
    (so the value is `mant × 10^(dp-nd)`, and lies in `[10^(dp-1), 10^dp)` when `d₁ ≠ 0`).
    Huge exponents are cut off before exponentiating, exactly as in `decimal.floatBits`. -/
def decBits (mant nd : Nat) (dp : Int) : Nat :=
  if dp > 310 then infBits
  else if dp < -330 then 0
  else
    let x : Int := dp - (nd : Int)
    if x ≥ 0 then roundRatBits (mant * 10 ^ x.toNat) 1
    else roundRatBits mant (10 ^ (-x).toNat)

/-- magnitude bits for the hexadecimal value `mant × 2^x`, `mant ≠ 0` -/
def hexBits (mant : Nat) (x : Int) : Nat :=
  let L : Int := (Nat.log2 mant : Int) + x
  if L > 1030 then infBits
  else if L < -1080 then 0
  else if x ≥ 0 then roundRatBits (mant <<< x.toNat) 1
  else roundRatBits mant (1 <<< (-x).toNat)

/-! ### Eisel–Lemire (only its *success condition* matters, see `parseFloat`) -/

/-- `detailedPowersOfTen[q+348]` as one 128-bit number: the 128-bit mantissa of `10^q`, rounded down -/
def elPow (q : Int) : Nat :=
  if q ≥ 0 then
    let p := 10 ^ q.toNat
    let bl := Nat.log2 p + 1
    if bl ≥ 128 then p >>> (bl - 128) else p <<< (128 - bl)
  else
    let p := 10 ^ (-q).toNat
    (1 <<< (127 + (Nat.log2 p + 1))) / p

/-- strconv's `eiselLemire64` for `man ≠ 0`, `man < 2^64`; returns the magnitude bits or `none` (`ok = false`) -/
def eiselLemire (man : Nat) (exp10 : Int) : Option Nat :=
  if man = 0 then some 0
  else if exp10 < -348 ∨ 347 < exp10 then none
  else
    let clz := 63 - Nat.log2 man
    let man := man <<< clz
    let retExp2 : Int := Int.fdiv (217706 * exp10) 65536 + 64 + 1023 - (clz : Int)
    let pow := elPow exp10
    let powHi := pow / two64
    let powLo := pow % two64
    let x := man * powHi
    let xHi := x / two64
    let xLo := x % two64
    let wide : Option (Nat × Nat) :=
      if xHi % 512 = 511 ∧ xLo + man ≥ two64 then
        let y := man * powLo
        let yHi := y / two64
        let yLo := y % two64
        let mergedLo := (xLo + yHi) % two64
        let mergedHi := if mergedLo < xLo then xHi + 1 else xHi
        if mergedHi % 512 = 511 ∧ mergedLo = two64 - 1 ∧ yLo + man ≥ two64 then none
        else some (mergedHi, mergedLo)
      else some (xHi, xLo)
    match wide with
    | none => none
    | some (xHi, xLo) =>
      let msb := xHi / two63
      let retMantissa := xHi >>> (msb + 9)
      let retExp2 := retExp2 - (if msb = 1 then 0 else 1)
      if xLo = 0 ∧ xHi % 512 = 0 ∧ retMantissa % 4 = 1 then none
      else
        let rm := (retMantissa + retMantissa % 2) / 2
        let carry := rm / (2 * two52) > 0
        let rm := if carry then rm / 2 else rm
        let retExp2 := if carry then retExp2 + 1 else retExp2
        if retExp2 ≤ 0 ∨ retExp2 ≥ 0x7FF then none
        else some (retExp2.toNat * two52 + rm % two52)

/-- number of significant digits `decimal.d` can hold -/
def decimalCap : Nat := 800

/--
Decimal conversion as Go really performs it.

For every input whose number of significant *integer* digits (digits before the '.', or all digits when there is
no '.', counted from the first non-zero digit) is at most 800, all of Go's paths (exact float arithmetic,
Eisel–Lemire, multiprecision `decimal`) yield the correctly rounded value, which is what `decBits` computes.

With more than 800 significant integer digits the multiprecision fallback misplaces the decimal point
(`decimal.set` executes `b.dp = b.nd` with `b.nd` capped at 800), so the value it converts is too small by a factor
`10^(ndInt-800)`.  The fallback is reached exactly when Eisel–Lemire gives up (the exact path is impossible:
the 19-digit mantissa exceeds 2^53), hence we evaluate Eisel–Lemire's success condition in that case.
-/
def decimalBits (mant nd ndInt : Nat) (dp : Int) : Nat :=
  if ndInt ≤ decimalCap then decBits mant nd dp
  else
    -- here nd ≥ ndInt > 800 > 19
    let cut := 10 ^ (nd - 19)
    let m19 := mant / cut
    let trunc := mant % cut != 0
    let e10 : Int := dp - 19
    let fast : Option Nat :=
      match eiselLemire m19 e10 with
      | none => none
      | some f =>
        if !trunc then some f
        else match eiselLemire (m19 + 1) e10 with
          | none => none
          | some fUp => if f = fUp then some f else none
    match fast with
    | some f => f
    | none =>
      let cut800 := 10 ^ (nd - decimalCap)
      let d800 := mant / cut800
      let sticky := if mant % cut800 != 0 then 1 else 0
      let dpSlow : Int := dp - ((ndInt - decimalCap : Nat) : Int)
      -- 801 digits: the 800 kept ones and a sticky digit standing for "a little more"
      decBits (d800 * 10 + sticky) (decimalCap + 1) dpSlow

end Num

open Num in
/-- strconv.ParseFloat(s, 64): `none` whenever Go returns err != nil (syntax error or range error). -/
def parseFloat (s : Bytes) : Option F64 :=
  match special s with
  | some f => some f
  | none =>
    let neg : Bool := match s with
      | c :: _ => c = 45
      | [] => false
    let s1 : Bytes := match s with
      | c :: rest => if c = 43 ∨ c = 45 then rest else s
      | [] => s
    -- `i+2 < len(s) && s[i] == '0' && lower(s[i+1]) == 'x'`
    let hexRest : Option Bytes := match s1 with
      | 48 :: x :: y :: r => if lower x = 120 then some (y :: r) else none
      | _ => none
    let hex := hexRest.isSome
    let body := match hexRest with
      | some r => r
      | none => s1
    match scanMant hex {} body with
    | (st, rest) =>
      if !st.sawdigits then none else
      let dp0 : Int := if st.sawdot then st.dp else (st.nd : Int)
      let dp1 : Int := if hex then dp0 * 4 else dp0
      match scanExp hex st.us rest with
      | none => none
      | some (e, us) =>
        if us && !underscoreOK s then none else
        let dp := dp1 + e
        if st.mant = 0 then some (F64.ofMag neg 0) else
        let bits :=
          if hex then hexBits st.mant (dp - 4 * (st.nd : Int))
          else decimalBits st.mant st.nd (if st.sawdot then st.ndDot else st.nd) dp
        if bits ≥ infBits then none else some (F64.ofMag neg bits)

open Num in
/-- decimal text of an int64, as `strconv.Itoa` / fmt `%d` / `%v` print it. -/
def fmtInt (i : Int) : Bytes :=
  if i < 0 then 45 :: natDigits i.natAbs else natDigits i.natAbs

namespace Num

/-! ### shortest decimal that round-trips (what `ryuFtoaShortest` / `roundShortest` compute) -/

/--
Search for the coarsest scale `10^k` at which a multiple of `10^k` lies in the rounding interval.
All quantities are numerators over the common denominator `den`:
`lo ≤ x ≤ hi` (interval `[lo,hi]` if `incl`, `(lo,hi)` otherwise).  Returns `(c, k)` with result `c × 10^k`:
the multiple nearest to `x` among those inside the interval, a tie going to the even `c`.
-/
def shortestLoop (lo x hi den : Nat) (incl : Bool) : Nat → Int → Nat × Int
  | 0, k => (0, k)
  | fuel + 1, k =>
    let mul := if k < 0 then 10 ^ (-k).toNat else 1
    let dv := if k ≥ 0 then den * 10 ^ k.toNat else den
    let x' := x * mul
    let c := x' / dv
    let r := x' % dv
    if r = 0 then (c, k) else
    let lowOK := c > 0 ∧ (if incl then lo * mul ≤ c * dv else lo * mul < c * dv)
    let highOK := if incl then (c + 1) * dv ≤ hi * mul else (c + 1) * dv < hi * mul
    if lowOK ∧ highOK then
      if 2 * r < dv then (c, k)
      else if dv < 2 * r then (c + 1, k)
      else if c % 2 = 0 then (c, k) else (c + 1, k)
    else if lowOK then (c, k)
    else if highOK then (c + 1, k)
    else shortestLoop lo x hi den incl fuel (k - 1)

def stripZeros : Nat → Nat → Int → Nat × Int
  | 0, c, k => (c, k)
  | fuel + 1, c, k => if c ≠ 0 ∧ c % 10 = 0 then stripZeros fuel (c / 10) (k + 1) else (c, k)

/-- Shortest digits of the finite non-zero value `m · 2^e` (`m`, `e` as given by `F64.mant`/`F64.exp2`):
    returns `(digits, dp)` meaning `0.digits × 10^dp`, digits without trailing zeros. -/
def shortest (m : Nat) (e : Int) : Bytes × Int :=
  -- lower neighbour is half as far away at the bottom of a binade (except for the smallest normal)
  let boundary := m = two52 ∧ e ≠ -1074
  let e2 := e - 2
  let sc := if e2 ≥ 0 then 1 <<< e2.toNat else 1
  let den := if e2 ≥ 0 then 1 else 1 <<< (-e2).toNat
  let x := 4 * m * sc
  let lo := (if boundary then 4 * m - 1 else 4 * m - 2) * sc
  let hi := (4 * m + 2) * sc
  -- 10^kstart > hi, so nothing can be found above kstart
  let bl : Int := (Nat.log2 (4 * m + 2) : Int) + 1 + e2
  let kstart : Int := bl * 30103 / 100000 + 1
  let (c, k) := shortestLoop lo x hi den (m % 2 = 0) 64 kstart
  let (c, k) := stripZeros 400 c k
  let ds := natDigits c
  (ds, (ds.length : Int) + k)

/-- exponent suffix of `%e`: sign and at least two digits -/
def fmtExp (exp : Int) : Bytes :=
  let a := exp.natAbs
  (if exp < 0 then 45 else 43) :: (if a < 10 then 48 :: natDigits a else natDigits a)

/-- strconv's `%e` with the shortest precision (`prec = nd-1`) -/
def fmtEShortest (ds : Bytes) (dp : Int) : Bytes :=
  match ds with
  | [] => [48, 101, 43, 48, 48]
  | d :: more =>
    (d :: (if more.isEmpty then [] else 46 :: more)) ++ 101 :: fmtExp (dp - 1)

/-- strconv's `%f` with the shortest precision (`prec = max(nd-dp, 0)`) -/
def fmtFShortest (ds : Bytes) (dp : Int) : Bytes :=
  let nd := ds.length
  if dp ≤ 0 then
    if nd = 0 then [48] else 48 :: 46 :: (zeros (-dp).toNat ++ ds)
  else
    let p := dp.toNat
    if nd ≤ p then ds ++ zeros (p - nd)
    else ds.take p ++ 46 :: ds.drop p

def signed (neg : Bool) (body : Bytes) : Bytes := if neg then 45 :: body else body

/-- digits and decimal point of a finite value (zero: no digits, dp = 0) -/
def shortestOf (f : F64) : Bytes × Int :=
  if f.isZero then ([], 0) else shortest f.mant f.exp2

def nonFinite (f : F64) : Bytes :=
  if f.isNaN then [78, 97, 78]                 -- "NaN"
  else if f.isNeg then [45, 73, 110, 102]      -- "-Inf"
  else [43, 73, 110, 102]                      -- "+Inf"

/-- `float64` constants used by encoding/json: 1e-6 and 1e21 -/
def f1em6 : F64 := ⟨0x3EB0C6F7A0B5ED8D⟩
def f1e21 : F64 := ⟨0x444B1AE4D6E2EF50⟩

/-- encoding/json: "clean up e-09 to e-9" -/
def jsonCleanExp (bs : Bytes) : Bytes :=
  match bs.reverse with
  | d :: 48 :: 45 :: 101 :: more => (d :: 45 :: 101 :: more).reverse
  | _ => bs

end Num

open Num in
/-- fmt `%v` (and `%#v`) of a float64 == strconv.FormatFloat(f, 'g', -1, 64): shortest round-tripping digits
    (closest to the exact value among the shortest, ties to even).  With the shortest precision strconv decides with
    `eprec = 6`: `%e` form iff the decimal exponent `exp = dp-1` satisfies `exp < -4 || exp >= 6`
    ("100000", "1e+06", "0.0001", "1e-05").  NaN → "NaN", ±Inf → "+Inf"/"-Inf", -0 → "-0". -/
def fmtG (f : F64) : Bytes :=
  if !f.isFinite then nonFinite f else
  let (ds, dp) := shortestOf f
  let exp := dp - 1
  signed f.isNeg (if exp < -4 ∨ exp ≥ 6 then fmtEShortest ds dp else fmtFShortest ds dp)

open Num in
/-- fmt `%.<prec>f` of a float64: exact decimal expansion rounded half-even to `prec` fractional digits. -/
def fmtFixed (f : F64) (prec : Nat) : Bytes :=
  if !f.isFinite then nonFinite f else
  let m := f.mant
  let e := f.exp2
  let p10 := 10 ^ prec
  let n : Nat :=
    if e ≥ 0 then (m <<< e.toNat) * p10
    else
      let num := m * p10
      let den := 1 <<< (-e).toNat
      let q := num / den
      let r := num % den
      if den < 2 * r ∨ (2 * r = den ∧ q % 2 = 1) then q + 1 else q
  let ip := natDigits (n / p10)
  let fp := natDigits (n % p10)
  signed f.isNeg (if prec = 0 then ip else ip ++ 46 :: (zeros (prec - fp.length) ++ fp))

open Num in
/-- encoding/json's float64 encoding: `none` for NaN/±Inf. -/
def fmtJSON (f : F64) : Option Bytes :=
  if !f.isFinite then none else
  let (ds, dp) := shortestOf f
  let a : F64 := ⟨UInt64.ofNat f.mag⟩
  let useE := !f.isZero && (F64.lt a f1em6 || !F64.lt a f1e21)
  some (signed f.isNeg (if useE then jsonCleanExp (fmtEShortest ds dp) else fmtFShortest ds dp))

namespace Num

/-! ### strconv.Quote -/

def hexdig (n : Nat) : UInt8 := UInt8.ofNat (if n < 10 then 48 + n else 87 + n)

def isCont (c : UInt8) : Bool := 0x80 ≤ c && c ≤ 0xBF

/-- utf8.DecodeRune for a lead byte `≥ 0x80`: `some (rune, width)` for a well-formed sequence, `none` for (RuneError, 1) -/
def decodeMulti (s : Bytes) : Option (Nat × Nat) :=
  match s with
  | [] => none
  | b0 :: rest =>
    let n0 := b0.toNat
    if 0xC2 ≤ b0 && b0 ≤ 0xDF then
      match rest with
      | b1 :: _ => if isCont b1 then some ((n0 % 32) * 64 + b1.toNat % 64, 2) else none
      | _ => none
    else if 0xE0 ≤ b0 && b0 ≤ 0xEF then
      match rest with
      | b1 :: b2 :: _ =>
        let lo : UInt8 := if b0 = 0xE0 then 0xA0 else 0x80
        let hi : UInt8 := if b0 = 0xED then 0x9F else 0xBF
        if lo ≤ b1 && b1 ≤ hi && isCont b2 then
          some ((n0 % 16) * 4096 + (b1.toNat % 64) * 64 + b2.toNat % 64, 3)
        else none
      | _ => none
    else if 0xF0 ≤ b0 && b0 ≤ 0xF4 then
      match rest with
      | b1 :: b2 :: b3 :: _ =>
        let lo : UInt8 := if b0 = 0xF0 then 0x90 else 0x80
        let hi : UInt8 := if b0 = 0xF4 then 0x8F else 0xBF
        if lo ≤ b1 && b1 ≤ hi && isCont b2 && isCont b3 then
          some ((n0 % 8) * 262144 + (b1.toNat % 64) * 4096 + (b2.toNat % 64) * 64 + b3.toNat % 64, 4)
        else none
      | _ => none
    else none

/-- utf8.AppendRune for a valid rune -/
def encodeRune (r : Nat) : Bytes :=
  if r < 0x80 then [UInt8.ofNat r]
  else if r < 0x800 then [UInt8.ofNat (0xC0 + r / 64), UInt8.ofNat (0x80 + r % 64)]
  else if r < 0x10000 then
    [UInt8.ofNat (0xE0 + r / 4096), UInt8.ofNat (0x80 + r / 64 % 64), UInt8.ofNat (0x80 + r % 64)]
  else
    [UInt8.ofNat (0xF0 + r / 262144), UInt8.ofNat (0x80 + r / 4096 % 64),
     UInt8.ofNat (0x80 + r / 64 % 64), UInt8.ofNat (0x80 + r % 64)]

def hexN : Nat → Nat → Bytes
  | 0, _ => []
  | n + 1, r => hexN n (r / 16) ++ [hexdig (r % 16)]

/-- strconv's `appendEscapedRune` with quote = '"', ASCIIonly = graphicOnly = false -/
def escapedRune (isPrint : Nat → Bool) (r : Nat) : Bytes :=
  if r = 34 ∨ r = 92 then [92, UInt8.ofNat r]
  else if isPrint r then encodeRune r
  else if r = 7 then [92, 97]     -- \a
  else if r = 8 then [92, 98]     -- \b
  else if r = 12 then [92, 102]     -- \f
  else if r = 10 then [92, 110]     -- \n
  else if r = 13 then [92, 114]     -- \r
  else if r = 9 then [92, 116]     -- \t
  else if r = 11 then [92, 118]     -- \v
  else if r < 32 ∨ r = 0x7f then 92 :: 120 :: hexN 2 r
  else if r < 0x10000 then 92 :: 117 :: hexN 4 r
  else 92 :: 85 :: hexN 8 r

/-- body of `appendQuotedWith`; `skip` = number of continuation bytes of the current rune still to be skipped -/
def quoteLoop (isPrint : Nat → Bool) : Nat → Bytes → Bytes
  | _, [] => []
  | skip + 1, _ :: rest => quoteLoop isPrint skip rest
  | 0, c :: rest =>
    if c < 0x80 then escapedRune isPrint c.toNat ++ quoteLoop isPrint 0 rest
    else
      match decodeMulti (c :: rest) with
      | some (r, w) => escapedRune isPrint r ++ quoteLoop isPrint (w - 1) rest
      | none => (92 :: 120 :: hexN 2 c.toNat) ++ quoteLoop isPrint 0 rest

end Num

open Num in
/-- strconv.Quote(s) (what `%#v` prints for a Go string); `isPrint` stands for strconv.IsPrint. -/
def quoteGo (isPrint : Nat → Bool) (s : Bytes) : Bytes :=
  34 :: (quoteLoop isPrint 0 s ++ [34])

end GoLucene
