import GoLucene.Model.Basic
/- TEMPORARY STUB — replaced by the exact model of encoding/json's text layer (see harness/cmd/jsoncheck). -/
namespace GoLucene.Json

def valid (_data : Bytes) : Bool := false
def trim (data : Bytes) : Bytes := data

inductive Top where
  | null
  | bool (v : Bool)
  | num (raw : Bytes)
  | str (decoded : Bytes)
  | arr (elems : List Bytes)
  | obj (members : List (Bytes × Bytes))

def parse1 (_data : Bytes) : Option Top := none
def decodeString (_raw : Bytes) : Option Bytes := none
def encodeString (s : Bytes) : Bytes := [34] ++ s ++ [34]
def anyDecodable (_numOk : Bytes → Bool) (_raw : Bytes) : Bool := true
def foldEq (key name : Bytes) : Bool := key == name
def stripSpaces (s : Bytes) : Bytes := s.filter (· != 32)
def trimSpace (s : Bytes) : Bytes := s
def compact (data : Bytes) : Option Bytes := some data

end GoLucene.Json
