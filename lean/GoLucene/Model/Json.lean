/-
  Text layer of Go's `encoding/json` (the v1 implementation: scanner.go, decode.go `unquote`, encode.go
  `appendString`, indent.go `appendCompact`, fold.go), modelled on byte lists.
  Checked against the toolchain installed in the sandbox (`go version` = go1.23.5; these files are
  unchanged in later releases as long as GOEXPERIMENT=jsonv2 is off).

  Core Lean only.  Every definition is total and uses structural recursion on the input byte list
  (no `partial`, no fuel, no well-founded recursion, no axioms beyond propext/Quot.sound), so `decide`
  evaluates closed instances on explicit byte lists and the compiled code runs in linear time with
  constant stack (all loops are tail-recursive with reversed accumulators; nesting is tracked with an
  explicit stack/counter, never with recursion).

  Contents
  * `Scanner` / `step` / `Scanner.eof`: a transliteration of scanner.go (the byte-at-a-time state
    machine with its parse-state stack and the 10000 nesting limit).
  * `valid`        = json.Valid
  * `compact`      = what json.Marshal emits for a json.RawMessage / Marshaler output
                     (`appendCompact` with escape = true)
  * `trim`         = the exact text of the single value of a document
  * `parse1`       = one-level view with raw children
  * `decodeString` = scanner check + `unquote`
  * `encodeString` = `appendString(…, escapeHTML = true)`
  * `anyDecodable` = does Unmarshal into `any` succeed
  * `foldEq`       = key/field matching (`foldName(key) == foldName(name)`, ASCII `name`)
  * `stripSpaces`  = strings.Join(strings.Fields(s), "")
  * `trimSpace`    = bytes.TrimSpace
  * `numOkRef`     = exact-arithmetic reference for "strconv.ParseFloat(raw, 64) returns no error" on a
                     JSON number literal (used by the validator as the `numOk` argument of `anyDecodable`).

  Validated against the real Go implementation by /verif/harness/cmd/jsoncheck (see its README.md).
-/
import GoLucene.Model.Basic

namespace GoLucene
namespace Json

/-! ## Byte classes -/

/-- JSON insignificant whitespace: scanner.go `isSpace`. -/
@[inline] def isJsonWs (c : UInt8) : Bool := c == 0x20 || c == 0x09 || c == 0x0D || c == 0x0A
@[inline] def isDigit (c : UInt8) : Bool := 0x30 ≤ c && c ≤ 0x39
@[inline] def isDigit19 (c : UInt8) : Bool := 0x31 ≤ c && c ≤ 0x39
@[inline] def isHexDigit (c : UInt8) : Bool :=
  (0x30 ≤ c && c ≤ 0x39) || (0x61 ≤ c && c ≤ 0x66) || (0x41 ≤ c && c ≤ 0x46)

/-- value of a hex digit (0 for non-hex bytes; callers check `isHexDigit`). -/
def hexDigitVal (c : UInt8) : Nat :=
  if 0x30 ≤ c && c ≤ 0x39 then c.toNat - 0x30
  else if 0x61 ≤ c && c ≤ 0x66 then c.toNat - 0x61 + 10
  else if 0x41 ≤ c && c ≤ 0x46 then c.toNat - 0x41 + 10
  else 0

/-- lower-case hex digit of a nibble, as in Go's `const hex = "0123456789abcdef"`. -/
def hexLower (n : Nat) : UInt8 :=
  if n < 10 then UInt8.ofNat (0x30 + n) else UInt8.ofNat (0x61 + (n - 10))

/-! ## UTF-8 (unicode/utf8) -/

def runeError : Nat := 0xFFFD

@[inline] def isContByte (c : UInt8) : Bool := c &&& 0xC0 == 0x80

/-- `utf8.DecodeRune`: `(rune, size)`.  Invalid or short input gives `(0xFFFD, 1)` (`(0xFFFD, 0)` on
    empty input).  A well-formed encoding of U+FFFD gives `(0xFFFD, 3)`. -/
def decodeRune : Bytes → Nat × Nat
  | [] => (runeError, 0)
  | c0 :: rest =>
    if c0 < 0x80 then (c0.toNat, 1)
    else if c0 < 0xC2 then (runeError, 1)
    else if c0 < 0xE0 then
      match rest with
      | c1 :: _ =>
        if isContByte c1 then ((c0.toNat % 32) * 64 + c1.toNat % 64, 2) else (runeError, 1)
      | [] => (runeError, 1)
    else if c0 < 0xF0 then
      let lo : UInt8 := if c0 == 0xE0 then 0xA0 else 0x80
      let hi : UInt8 := if c0 == 0xED then 0x9F else 0xBF
      match rest with
      | c1 :: c2 :: _ =>
        if lo ≤ c1 && c1 ≤ hi && isContByte c2 then
          (((c0.toNat % 16) * 64 + c1.toNat % 64) * 64 + c2.toNat % 64, 3)
        else (runeError, 1)
      | _ => (runeError, 1)
    else if c0 < 0xF5 then
      let lo : UInt8 := if c0 == 0xF0 then 0x90 else 0x80
      let hi : UInt8 := if c0 == 0xF4 then 0x8F else 0xBF
      match rest with
      | c1 :: c2 :: c3 :: _ =>
        if lo ≤ c1 && c1 ≤ hi && isContByte c2 && isContByte c3 then
          ((((c0.toNat % 8) * 64 + c1.toNat % 64) * 64 + c2.toNat % 64) * 64 + c3.toNat % 64, 4)
        else (runeError, 1)
      | _ => (runeError, 1)
    else (runeError, 1)

/-- `utf8.AppendRune`: surrogates and out-of-range values are encoded as U+FFFD. -/
def utf8Encode (r : Nat) : Bytes :=
  if r < 0x80 then [UInt8.ofNat r]
  else if r < 0x800 then [UInt8.ofNat (0xC0 + r / 64), UInt8.ofNat (0x80 + r % 64)]
  else if r > 0x10FFFF || (0xD800 ≤ r && r ≤ 0xDFFF) then [0xEF, 0xBF, 0xBD]
  else if r < 0x10000 then
    [UInt8.ofNat (0xE0 + r / 4096), UInt8.ofNat (0x80 + r / 64 % 64), UInt8.ofNat (0x80 + r % 64)]
  else
    [UInt8.ofNat (0xF0 + r / 262144), UInt8.ofNat (0x80 + r / 4096 % 64),
     UInt8.ofNat (0x80 + r / 64 % 64), UInt8.ofNat (0x80 + r % 64)]

/-- push the encoding of `r` on a reversed accumulator. -/
@[inline] def pushRune (r : Nat) (acc : Bytes) : Bytes := (utf8Encode r).reverseAux acc

/-- `unicode.IsSpace`. -/
def isSpaceRune (r : Nat) : Bool :=
  (0x09 ≤ r && r ≤ 0x0D) || r == 0x20 || r == 0x85 || r == 0xA0 || r == 0x1680 ||
  (0x2000 ≤ r && r ≤ 0x200A) || r == 0x2028 || r == 0x2029 || r == 0x202F || r == 0x205F ||
  r == 0x3000

/-! ## The scanner (scanner.go) -/

/-- entries of `scanner.parseState`. -/
inductive ParseState where
  | objKey | objVal | arrVal
  deriving DecidableEq, Repr

/-- the `step` function currently installed in the scanner. -/
inductive ScanState where
  | beginValueOrEmpty | beginValue | beginStringOrEmpty | beginString | endValue | endTop
  | inString | inStringEsc | escU | escU1 | escU12 | escU123
  | neg | num1 | num0 | dot | dot0 | exp | expSign | exp0
  | t | tr | tru | f | fa | fal | fals | n | nu | nul
  | error
  deriving DecidableEq, Repr

/-- scanner opcodes, in Go's numeric order (`scanContinue` … `scanError`). -/
inductive ScanOp where
  | cont | beginLiteral | beginObject | objectKey | objectValue | endObject
  | beginArray | arrayValue | endArray | skipSpace | «end» | error
  deriving DecidableEq, Repr

def maxNestingDepth : Nat := 10000

/-- `stack` has its top at the head; `depth = stack.length` is cached. `st = .error` iff Go's `s.err != nil`. -/
structure Scanner where
  st : ScanState
  endTop : Bool
  stack : List ParseState
  depth : Nat
  deriving Repr

def Scanner.init : Scanner := { st := .beginValue, endTop := false, stack := [], depth := 0 }

@[inline] def Scanner.fail (s : Scanner) : Scanner × ScanOp := ({ s with st := .error }, .error)
@[inline] def Scanner.goto (s : Scanner) (st : ScanState) (op : ScanOp) : Scanner × ScanOp := ({ s with st := st }, op)

/-- `pushParseState` (the step function `next` has been installed before the call). -/
def Scanner.push (s : Scanner) (p : ParseState) (next : ScanState) (ok : ScanOp) : Scanner × ScanOp :=
  let s' : Scanner := { s with stack := p :: s.stack, depth := s.depth + 1, st := next }
  if s.depth + 1 ≤ maxNestingDepth then (s', ok) else s'.fail

/-- `popParseState`. -/
def Scanner.pop (s : Scanner) : Scanner :=
  match s.stack with
  | [] => s
  | _ :: [] => { st := .endTop, endTop := true, stack := [], depth := 0 }
  | _ :: rest => { s with st := .endValue, stack := rest, depth := s.depth - 1 }

def stateEndTop (s : Scanner) (c : UInt8) : Scanner × ScanOp :=
  -- a non-space byte records an error but still returns scanEnd
  if isJsonWs c then (s, .end) else ({ s with st := .error }, .end)

def stateEndValue (s : Scanner) (c : UInt8) : Scanner × ScanOp :=
  match s.stack with
  | [] => stateEndTop { s with st := .endTop, endTop := true } c
  | ps :: rest =>
    if isJsonWs c then s.goto .endValue .skipSpace
    else match ps with
      | .objKey =>
        if c == 0x3A then ({ s with stack := .objVal :: rest, st := .beginValue }, .objectKey)
        else s.fail
      | .objVal =>
        if c == 0x2C then ({ s with stack := .objKey :: rest, st := .beginString }, .objectValue)
        else if c == 0x7D then (s.pop, .endObject)
        else s.fail
      | .arrVal =>
        if c == 0x2C then s.goto .beginValue .arrayValue
        else if c == 0x5D then (s.pop, .endArray)
        else s.fail

def stateBeginValue (s : Scanner) (c : UInt8) : Scanner × ScanOp :=
  if isJsonWs c then (s, .skipSpace)
  else if c == 0x7B then s.push .objKey .beginStringOrEmpty .beginObject
  else if c == 0x5B then s.push .arrVal .beginValueOrEmpty .beginArray
  else if c == 0x22 then s.goto .inString .beginLiteral
  else if c == 0x2D then s.goto .neg .beginLiteral
  else if c == 0x30 then s.goto .num0 .beginLiteral
  else if c == 0x74 then s.goto .t .beginLiteral
  else if c == 0x66 then s.goto .f .beginLiteral
  else if c == 0x6E then s.goto .n .beginLiteral
  else if isDigit19 c then s.goto .num1 .beginLiteral
  else s.fail

def stateBeginString (s : Scanner) (c : UInt8) : Scanner × ScanOp :=
  if isJsonWs c then (s, .skipSpace)
  else if c == 0x22 then s.goto .inString .beginLiteral
  else s.fail

def state0 (s : Scanner) (c : UInt8) : Scanner × ScanOp :=
  if c == 0x2E then s.goto .dot .cont
  else if c == 0x65 || c == 0x45 then s.goto .exp .cont
  else stateEndValue s c

def stateESign (s : Scanner) (c : UInt8) : Scanner × ScanOp :=
  if isDigit c then s.goto .exp0 .cont else s.fail

@[inline] def scanExpect (s : Scanner) (c want : UInt8) (next : ScanState) : Scanner × ScanOp :=
  if c == want then s.goto next .cont else s.fail

@[inline] def scanExpectHex (s : Scanner) (c : UInt8) (next : ScanState) : Scanner × ScanOp :=
  if isHexDigit c then s.goto next .cont else s.fail

/-- `s.step(s, c)`. -/
def scanStep (s : Scanner) (c : UInt8) : Scanner × ScanOp :=
  match s.st with
  | .beginValueOrEmpty =>
    if isJsonWs c then (s, .skipSpace)
    else if c == 0x5D then stateEndValue s c
    else stateBeginValue s c
  | .beginValue => stateBeginValue s c
  | .beginStringOrEmpty =>
    if isJsonWs c then (s, .skipSpace)
    else if c == 0x7D then
      match s.stack with
      | _ :: rest => stateEndValue { s with stack := .objVal :: rest } c
      | [] => s.fail
    else stateBeginString s c
  | .beginString => stateBeginString s c
  | .endValue => stateEndValue s c
  | .endTop => stateEndTop s c
  | .inString =>
    if c == 0x22 then s.goto .endValue .cont
    else if c == 0x5C then s.goto .inStringEsc .cont
    else if c < 0x20 then s.fail
    else (s, .cont)
  | .inStringEsc =>
    if c == 0x62 || c == 0x66 || c == 0x6E || c == 0x72 || c == 0x74 ||
       c == 0x5C || c == 0x2F || c == 0x22 then s.goto .inString .cont
    else if c == 0x75 then s.goto .escU .cont
    else s.fail
  | .escU => scanExpectHex s c .escU1
  | .escU1 => scanExpectHex s c .escU12
  | .escU12 => scanExpectHex s c .escU123
  | .escU123 => scanExpectHex s c .inString
  | .neg =>
    if c == 0x30 then s.goto .num0 .cont
    else if isDigit19 c then s.goto .num1 .cont
    else s.fail
  | .num1 => if isDigit c then (s, .cont) else state0 s c
  | .num0 => state0 s c
  | .dot => if isDigit c then s.goto .dot0 .cont else s.fail
  | .dot0 =>
    if isDigit c then (s, .cont)
    else if c == 0x65 || c == 0x45 then s.goto .exp .cont
    else stateEndValue s c
  | .exp => if c == 0x2B || c == 0x2D then s.goto .expSign .cont else stateESign s c
  | .expSign => stateESign s c
  | .exp0 => if isDigit c then (s, .cont) else stateEndValue s c
  | .t => scanExpect s c 0x72 .tr
  | .tr => scanExpect s c 0x75 .tru
  | .tru => scanExpect s c 0x65 .endValue
  | .f => scanExpect s c 0x61 .fa
  | .fa => scanExpect s c 0x6C .fal
  | .fal => scanExpect s c 0x73 .fals
  | .fals => scanExpect s c 0x65 .endValue
  | .n => scanExpect s c 0x75 .nu
  | .nu => scanExpect s c 0x6C .nul
  | .nul => scanExpect s c 0x6C .endValue
  | .error => (s, .error)

/-- `s.eof() != scanError`. -/
def Scanner.eof (s : Scanner) : Bool :=
  if s.st == .error then false
  else if s.endTop then true
  else (scanStep s 0x20).1.endTop

/-! ## json.Valid -/

/-- `checkValid`'s loop. -/
def validLoop (s : Scanner) : Bytes → Bool
  | [] => s.eof
  | c :: rest =>
    match scanStep s c with
    | (_, .error) => false
    | (s', _) => validLoop s' rest

/-- `json.Valid(data)`: exactly the inputs that the scanner (`checkValid`) accepts as ONE JSON value with
    optional surrounding whitespace (space, \t, \r, \n).  Raw bytes ≥ 0x80 inside strings are accepted
    whether or not they are well-formed UTF-8; raw bytes < 0x20 inside strings are rejected; `\'` is
    rejected.  Opening the 10001st nested array/object is an error ("exceeded max depth"): nesting depth
    10000 is valid, 10001 is not (depth of siblings does not add up). -/
def valid (data : Bytes) : Bool := validLoop Scanner.init data

/-! ## Compact + HTML escape (`appendCompact(dst, src, escape = true)`) -/

/-- reversed `\u00XX` / `\u20XX` escape pushed on a reversed accumulator. -/
@[inline] def pushU (h1 h2 h3 h4 : UInt8) (acc : Bytes) : Bytes :=
  h4 :: h3 :: h2 :: h1 :: 0x75 :: 0x5C :: acc

@[inline] def pushU00 (c : UInt8) (acc : Bytes) : Bytes :=
  pushU 0x30 0x30 (hexLower (c.toNat / 16)) (hexLower (c.toNat % 16)) acc

/-- `skip` = number of following bytes already covered by an emitted `\u2028`/`\u2029` escape
    (they are still fed to the scanner, as in Go). -/
def compactLoop (s : Scanner) (skip : Nat) (acc : Bytes) : Bytes → Option Bytes
  | [] => if s.eof then some acc.reverse else none
  | c :: rest =>
    match scanStep s c with
    | (_, .error) => none
    | (s', op) =>
      match skip with
      | k + 1 => compactLoop s' k acc rest
      | 0 =>
        if c == 0x3C || c == 0x3E || c == 0x26 then compactLoop s' 0 (pushU00 c acc) rest
        else
          let ls : Bool := c == 0xE2 &&
            (match rest with
             | c1 :: c2 :: _ => c1 == 0x80 && (c2 &&& 0xFE) == 0xA8
             | _ => false)
          if ls then
            match rest with
            | _ :: c2 :: _ =>
              compactLoop s' 2 (pushU 0x32 0x30 0x32 (hexLower (c2.toNat % 16)) acc) rest
            | _ => none
          else if op == .skipSpace || op == .end then compactLoop s' 0 acc rest
          else compactLoop s' 0 (c :: acc) rest

/-- What `json.Marshal` emits for a `json.RawMessage` / the output of a `Marshaler` with contents `data`
    (non-nil): `json.Compact` plus HTML escaping; `none` when Go reports an error (invalid JSON). -/
def compact (data : Bytes) : Option Bytes := compactLoop Scanner.init 0 [] data

/-! ## trim -/

/-- surrounding JSON whitespace removed. For valid `data` this is the exact text handed to an
    `Unmarshaler` / stored in a `json.RawMessage`. -/
def trim (data : Bytes) : Bytes :=
  ((data.dropWhile isJsonWs).reverse.dropWhile isJsonWs).reverse

/-! ## String literals: `unquote` -/

def isSurrogate (r : Nat) : Bool := 0xD800 ≤ r && r < 0xE000
def isHighSurrogate (r : Nat) : Bool := 0xD800 ≤ r && r < 0xDC00
def isLowSurrogate (r : Nat) : Bool := 0xDC00 ≤ r && r < 0xE000

/-- U+FFFD pushed on a reversed accumulator. -/
@[inline] def pushFFFD (acc : Bytes) : Bytes := 0xBD :: 0xBF :: 0xEF :: acc

/-- a `\uXXXX` surrogate that has been read but whose fate is not decided yet is kept in `pend`;
    anything other than a matching low surrogate turns it into U+FFFD. -/
@[inline] def flushPend (pend : Option Nat) (acc : Bytes) : Bytes :=
  match pend with
  | none => acc
  | some _ => pushFFFD acc

/-- the byte denoted by a one-letter escape accepted by the scanner (`\'` is rejected by the scanner,
    although `unquote` itself would accept it). -/
def simpleEscape (e : UInt8) : Option UInt8 :=
  if e == 0x22 || e == 0x5C || e == 0x2F then some e
  else if e == 0x62 then some 0x08
  else if e == 0x66 then some 0x0C
  else if e == 0x6E then some 0x0A
  else if e == 0x72 then some 0x0D
  else if e == 0x74 then some 0x09
  else none

/-- `\uXXXX` value `v` has just been read. -/
@[inline] def afterU (pend : Option Nat) (v : Nat) (acc : Bytes) : Option Nat × Bytes :=
  match pend with
  | some hi =>
    if isHighSurrogate hi && isLowSurrogate v then
      (none, pushRune (0x10000 + (hi - 0xD800) * 1024 + (v - 0xDC00)) acc)
    else
      let acc := pushFFFD acc
      if isSurrogate v then (some v, acc) else (none, pushRune v acc)
  | none => if isSurrogate v then (some v, acc) else (none, pushRune v acc)

/-- body of a string literal after the opening quote. `k` = continuation bytes of a well-formed
    multi-byte rune still to be copied. -/
def decodeLoop (k : Nat) (pend : Option Nat) (acc : Bytes) : Bytes → Option Bytes
  | [] => none
  | c :: rest =>
    match k with
    | k + 1 => decodeLoop k none (c :: acc) rest
    | 0 =>
      if c == 0x22 then
        if rest.isEmpty then some (flushPend pend acc).reverse else none
      else if c == 0x5C then
        match rest with
        | [] => none
        | e :: rest1 =>
          if e == 0x75 then
            match rest1 with
            | h1 :: h2 :: h3 :: h4 :: rest2 =>
              if isHexDigit h1 && isHexDigit h2 && isHexDigit h3 && isHexDigit h4 then
                let v := ((hexDigitVal h1 * 16 + hexDigitVal h2) * 16 + hexDigitVal h3) * 16 + hexDigitVal h4
                match afterU pend v acc with
                | (pend', acc') => decodeLoop 0 pend' acc' rest2
              else none
            | _ => none
          else
            match simpleEscape e with
            | some x => decodeLoop 0 none (x :: flushPend pend acc) rest1
            | none => none
      else if c < 0x20 then none
      else if c < 0x80 then decodeLoop 0 none (c :: flushPend pend acc) rest
      else
        let acc := flushPend pend acc
        match decodeRune (c :: rest) with
        | (_, n) =>
          if n ≤ 1 then decodeLoop 0 none (pushFFFD acc) rest
          else decodeLoop (n - 1) none (c :: acc) rest

/-- The Go string obtained by unmarshalling the JSON string literal `raw` (quotes included, no
    surrounding whitespace) into a `string`; `none` if `raw` is not a string literal accepted by the scanner.
    `\uXXXX`: a high surrogate immediately followed by a `\uXXXX` low surrogate gives one rune ≥ U+10000;
    any other surrogate escape gives U+FFFD and the following escape is then processed on its own.
    Raw bytes: well-formed UTF-8 is copied, every other byte ≥ 0x80 becomes U+FFFD (EF BF BD) — this
    includes each byte of CESU-style surrogates (ED A0..BF xx) and of overlong forms. -/
def decodeString (raw : Bytes) : Option Bytes :=
  match raw with
  | c :: rest => if c == 0x22 then decodeLoop 0 none [] rest else none
  | [] => none

/-! ## `appendString(dst, s, escapeHTML = true)` -/

def encodeLoop (k : Nat) (acc : Bytes) : Bytes → Bytes
  | [] => acc
  | c :: rest =>
    match k with
    | k + 1 => encodeLoop k (c :: acc) rest
    | 0 =>
      if c < 0x80 then
        if c == 0x22 || c == 0x5C then encodeLoop 0 (c :: 0x5C :: acc) rest
        else if c == 0x08 then encodeLoop 0 (0x62 :: 0x5C :: acc) rest
        else if c == 0x0C then encodeLoop 0 (0x66 :: 0x5C :: acc) rest
        else if c == 0x0A then encodeLoop 0 (0x6E :: 0x5C :: acc) rest
        else if c == 0x0D then encodeLoop 0 (0x72 :: 0x5C :: acc) rest
        else if c == 0x09 then encodeLoop 0 (0x74 :: 0x5C :: acc) rest
        else if c < 0x20 || c == 0x3C || c == 0x3E || c == 0x26 then encodeLoop 0 (pushU00 c acc) rest
        else encodeLoop 0 (c :: acc) rest
      else
        match decodeRune (c :: rest) with
        | (r, n) =>
          if n ≤ 1 then encodeLoop 0 (pushU 0x66 0x66 0x66 0x64 acc) rest
          else if r == 0x2028 || r == 0x2029 then
            match rest with
            | _ :: _ :: rest2 => encodeLoop 0 (pushU 0x32 0x30 0x32 (hexLower (r % 16)) acc) rest2
            | _ => acc
          else encodeLoop (n - 1) (c :: acc) rest

/-- `json.Marshal(s)` for a Go string `s` (default HTML-safe escaping): `\"` `\\` `\b` `\f` `\n` `\r` `\t`
    (the short forms `\b`/`\f` exist since Go 1.22), other bytes < 0x20 and `<` `>` `&` as `\u00xx` (lower-case
    hex), U+2028/U+2029 as `\u2028`/`\u2029`, every byte that is not part of a well-formed UTF-8 sequence as
    `\ufffd`; everything else verbatim (including 0x7F, `/` and `'`). -/
def encodeString (s : Bytes) : Bytes := (0x22 :: encodeLoop 0 [0x22] s).reverse

/-! ## One-level view -/

/-- One-level view of a JSON value.  Children are kept as their exact raw text (no surrounding
    whitespace); object members are in input order with duplicates kept and keys decoded. -/
inductive Top where
  | null
  | bool (v : Bool)
  | num (raw : Bytes)
  | str (decoded : Bytes)
  | arr (elems : List Bytes)
  | obj (members : List (Bytes × Bytes))
  deriving DecidableEq, Repr

@[inline] def finishItems (cur : Bytes) (done : List Bytes) : List Bytes :=
  if cur.isEmpty && done.isEmpty then [] else (cur.reverse :: done).reverse

/-- Splits the body of a VALID array/object text (everything after the opening bracket, no trailing
    whitespace) at the `,` and `:` of nesting depth 0, dropping depth-0 whitespace.
    `none` if the closing bracket is missing or is not the last byte. -/
def splitLoop (inStr esc : Bool) (depth : Nat) (cur : Bytes) (done : List Bytes) :
    Bytes → Option (List Bytes)
  | [] => none
  | c :: rest =>
    if inStr then
      if esc then splitLoop true false depth (c :: cur) done rest
      else if c == 0x5C then splitLoop true true depth (c :: cur) done rest
      else if c == 0x22 then splitLoop false false depth (c :: cur) done rest
      else splitLoop true false depth (c :: cur) done rest
    else if c == 0x22 then splitLoop true false depth (c :: cur) done rest
    else if c == 0x5B || c == 0x7B then splitLoop false false (depth + 1) (c :: cur) done rest
    else if c == 0x5D || c == 0x7D then
      match depth with
      | 0 => if rest.isEmpty then some (finishItems cur done) else none
      | d + 1 => splitLoop false false d (c :: cur) done rest
    else
      match depth with
      | 0 =>
        if c == 0x2C || c == 0x3A then splitLoop false false 0 [] (cur.reverse :: done) rest
        else if isJsonWs c then splitLoop false false 0 cur done rest
        else splitLoop false false 0 (c :: cur) done rest
      | _ => splitLoop false false depth (c :: cur) done rest

/-- `[k₁, v₁, k₂, v₂, …]` ↦ `[(decode k₁, v₁), …]`. -/
def pairUp (acc : List (Bytes × Bytes)) : List Bytes → Option (List (Bytes × Bytes))
  | [] => some acc.reverse
  | [_] => none
  | k :: v :: rest =>
    match decodeString k with
    | some dk => pairUp ((dk, v) :: acc) rest
    | none => none

/-- One-level view of a valid JSON document; `none` iff `valid data = false`. -/
def parse1 (data : Bytes) : Option Top :=
  if !valid data then none
  else
    let t := trim data
    match t with
    | [] => none
    | c :: rest =>
      if c == 0x22 then (decodeString t).map Top.str
      else if c == 0x5B then (splitLoop false false 0 [] [] rest).map Top.arr
      else if c == 0x7B then ((splitLoop false false 0 [] [] rest).bind (pairUp [])).map Top.obj
      else if c == 0x74 then some (.bool true)
      else if c == 0x66 then some (.bool false)
      else if c == 0x6E then some .null
      else some (.num t)

/-! ## Unmarshal into `any` -/

@[inline] def isNumChar (c : UInt8) : Bool :=
  isDigit c || c == 0x2D || c == 0x2B || c == 0x2E || c == 0x65 || c == 0x45

/-- every number token (outside strings) of a valid document satisfies `numOk`. -/
def numsLoop (numOk : Bytes → Bool) (inStr esc : Bool) (cur : Option Bytes) : Bytes → Bool
  | [] =>
    match cur with
    | some n => numOk n.reverse
    | none => true
  | c :: rest =>
    if inStr then
      if esc then numsLoop numOk true false none rest
      else if c == 0x5C then numsLoop numOk true true none rest
      else if c == 0x22 then numsLoop numOk false false none rest
      else numsLoop numOk true false none rest
    else
      match cur with
      | some n =>
        if isNumChar c then numsLoop numOk false false (some (c :: n)) rest
        else if numOk n.reverse then numsLoop numOk (c == 0x22) false none rest
        else false
      | none =>
        if c == 0x22 then numsLoop numOk true false none rest
        else if c == 0x2D || isDigit c then numsLoop numOk false false (some [c]) rest
        else numsLoop numOk false false none rest

/-- `json.Unmarshal(raw, &x) == nil` for `var x any`: the document is valid and no number in it
    makes `strconv.ParseFloat(·, 64)` fail (`numOk`). -/
def anyDecodable (numOk : Bytes → Bool) (raw : Bytes) : Bool :=
  valid raw && numsLoop numOk false false none raw

/-! ## Reference `numOk`: does `strconv.ParseFloat(raw, 64)` succeed on a JSON number literal -/

def decDigitsVal (acc : Nat) : Bytes → Nat
  | [] => acc
  | c :: rest => decDigitsVal (acc * 10 + (c.toNat - 0x30)) rest

/-- Go accumulates the decimal exponent as `if e < 10000 { e = e*10 + digit }`. -/
def expVal (acc : Nat) : Bytes → Nat
  | [] => acc
  | c :: rest => expVal (if acc < 10000 then acc * 10 + (c.toNat - 0x30) else acc) rest

/-- 2^1024 − 2^970: the smallest real number that rounds (to nearest even) to +Inf. -/
def float64OverflowThreshold : Nat := 2 ^ 1024 - 2 ^ 970

/-- For `raw` matching the JSON number grammar: `true` iff `strconv.ParseFloat(raw, 64)` returns a nil
    error.  The only possible error is `ErrRange` on overflow (underflow to 0 is not an error), and it can
    only be produced by strconv's slow path (`decimal.set` + `floatBits`): the fast paths never return ±Inf.
    So the error is raised iff the slow path's reading of the literal rounds to ±Inf, i.e. is
    ≥ 2^1024 − 2^970.  That reading is the mathematical value of the literal EXCEPT for two quirks that
    are reproduced here:
    * the exponent is accumulated with `if e < 10000 { e = e*10 + d }` (`expVal`), so exponents of 6 or
      more digits are truncated to their first 5 digits;
    * only the first 800 significant digits are stored and the decimal point is taken from the number of
      STORED digits, so an integer part with more than 800 significant digits is scaled down by
      10^(excess).  -/
def numOkRef (raw : Bytes) : Bool :=
  let s := match raw with
    | c :: rest => if c == 0x2D then rest else raw
    | [] => raw
  let intDigits := s.takeWhile isDigit
  let s := s.dropWhile isDigit
  let (fracDigits, s) : Bytes × Bytes :=
    match s with
    | c :: rest => if c == 0x2E then (rest.takeWhile isDigit, rest.dropWhile isDigit) else ([], s)
    | [] => ([], s)
  let (expNeg, expDigits) : Bool × Bytes :=
    match s with
    | c :: rest =>
      if c == 0x65 || c == 0x45 then
        match rest with
        | sg :: rest' =>
          if sg == 0x2D then (true, rest'.takeWhile isDigit)
          else if sg == 0x2B then (false, rest'.takeWhile isDigit)
          else (false, rest.takeWhile isDigit)
        | [] => (false, [])
      else (false, [])
    | [] => (false, [])
  let intSig := intDigits.dropWhile (· == 0x30)
  let sigAll := (intDigits ++ fracDigits).dropWhile (· == 0x30)
  if sigAll.isEmpty then true
  else
    -- leading zeros of the fraction when the integer part is zero
    let fracZeros : Nat := if intSig.isEmpty then (fracDigits.takeWhile (· == 0x30)).length else 0
    let e : Int := expVal 0 expDigits
    -- decimal.dp : value = 0.d₁d₂… × 10^dp
    let dp : Int := (min intSig.length 800 : Nat) - (fracZeros : Int) + (if expNeg then -e else e)
    let sig := sigAll.take 800
    let d : Int := sig.length
    -- 10^(dp-1) ≤ value < 10^dp, threshold ≈ 1.797…e308
    if dp ≤ 308 then true
    else if dp ≥ 310 then false
    else
      let m := decDigitsVal 0 sig
      let e10 := dp - d
      if e10 ≥ 0 then m * 10 ^ e10.toNat < float64OverflowThreshold
      else m < float64OverflowThreshold * 10 ^ (-e10).toNat

/-! ## Key folding -/

/-- ASCII upper-casing plus the two non-ASCII runes whose simple-fold orbit contains an ASCII letter:
    U+017F (ſ, C5 BF) ↦ `S` and U+212A (K, E2 84 AA) ↦ `K`; every other byte is kept. -/
def foldLoop (skip : Nat) (acc : Bytes) : Bytes → Bytes
  | [] => acc.reverse
  | c :: rest =>
    match skip with
    | k + 1 => foldLoop k acc rest
    | 0 =>
      if 0x61 ≤ c && c ≤ 0x7A then foldLoop 0 ((c - 0x20) :: acc) rest
      else if c == 0xC5 && (match rest with | c1 :: _ => c1 == 0xBF | [] => false) then
        foldLoop 1 (0x53 :: acc) rest
      else if c == 0xE2 && (match rest with | c1 :: c2 :: _ => c1 == 0x84 && c2 == 0xAA | _ => false) then
        foldLoop 2 (0x4B :: acc) rest
      else foldLoop 0 (c :: acc) rest

/-- Does the (decoded) object key `key` select the struct field whose JSON name is the ASCII string
    `name`?  Go: exact match, else `foldName(key) == foldName(name)`, which is `strings.EqualFold`.
    Exact for ASCII `name`; for non-ASCII `name` only the foldings listed at `foldLoop` are applied. -/
def foldEq (key name : Bytes) : Bool := foldLoop 0 [] key == foldLoop 0 [] name

/-! ## strings.Fields / bytes.TrimSpace -/

/-- `k` following bytes belong to the rune just classified: they are kept (`keep`) or dropped. -/
def stripLoop (k : Nat) (keep : Bool) (acc : Bytes) : Bytes → Bytes
  | [] => acc.reverse
  | c :: rest =>
    match k with
    | k + 1 => stripLoop k keep (if keep then c :: acc else acc) rest
    | 0 =>
      match decodeRune (c :: rest) with
      | (r, n) =>
        if isSpaceRune r then stripLoop (n - 1) false acc rest
        else stripLoop (n - 1) true (c :: acc) rest

/-- `strings.Join(strings.Fields(s), "")`. -/
def stripSpaces (s : Bytes) : Bytes := stripLoop 0 true [] s

/-- `bytes.TrimLeftFunc(s, unicode.IsSpace)`. -/
def trimLeftLoop (k : Nat) : Bytes → Bytes
  | [] => []
  | c :: rest =>
    match k with
    | k + 1 => trimLeftLoop k rest
    | 0 =>
      match decodeRune (c :: rest) with
      | (r, n) => if isSpaceRune r then trimLeftLoop (n - 1) rest else c :: rest

/-- `utf8.DecodeLastRune` on the REVERSED byte list: `(rune, size)`; `(0xFFFD, 1)` unless the last
    `size` bytes are a well-formed encoding. -/
def decodeLastRune (rev : Bytes) : Nat × Nat :=
  match rev with
  | [] => (runeError, 0)
  | c :: _ =>
    if c < 0x80 then (c.toNat, 1)
    else
      let attempt (n : Nat) : Option (Nat × Nat) :=
        let seq := (rev.take n).reverse
        if seq.length == n then
          match decodeRune seq with
          | (r, m) => if m == n then some (r, n) else none
        else none
      match attempt 2 with
      | some x => x
      | none =>
        match attempt 3 with
        | some x => x
        | none =>
          match attempt 4 with
          | some x => x
          | none => (runeError, 1)

/-- `bytes.TrimRightFunc(·, unicode.IsSpace)` on the reversed list. -/
def trimRightLoop (k : Nat) : Bytes → Bytes
  | [] => []
  | c :: rest =>
    match k with
    | k + 1 => trimRightLoop k rest
    | 0 =>
      match decodeLastRune (c :: rest) with
      | (r, n) => if isSpaceRune r then trimRightLoop (n - 1) rest else c :: rest

/-- `bytes.TrimSpace(s)`. -/
def trimSpace (s : Bytes) : Bytes := (trimRightLoop 0 (trimLeftLoop 0 s).reverse).reverse

end Json
end GoLucene
