import GoLucene.Model.Parser
import GoLucene.Model.LexAll
import GoLucene.Model.Utf8
import GoLucene.Model.Print
/-
  From the tree of reductions to the expression the Go code builds, and the whole of `lucene.Parse`.

  * `parseLiteral` — parse.go parseLiteral (typing of a term token; after fix F4 only finite floats are numbers)
  * `wrapLiteral`  — reduce.go wrapLiteral (default field applied to a bare literal operand)
  * `sem df`       — what each reducer builds through the expr constructors, compositionally
  * `isNumOf df`   — the two value tests of the reducers `fuzzy` and `boost`
  * `parseTokens` / `parseQuery` — lex, shift/reduce, default-field special case at accept (after fix F10), Validate
-/
namespace GoLucene

/-- the environment of external tables: unicode.IsLetter/IsDigit (lexer) and strconv.IsPrint (`%#v` of strings) -/
structure Env where
  cls : Cls
  isPrint : Nat → Bool

/-- parse.go unescape (fix F13): the backslash of every escape sequence is removed and the escaped byte kept, so an
    escaped backslash survives; a lone backslash at the very end is dropped -/
def unescape : Bytes → Bytes
  | [] => []
  | [c] => if c == 92 then [] else [c]
  | c :: d :: rest => if c == 92 then d :: unescape rest else c :: unescape (d :: rest)

/-- parse.go parseLiteral.  Never fails. -/
def parseLiteral (t : Tok) : Expr :=
  if t.typ = .quoted then lit (.prim (.str (t.val.filter (· != 34))))
  else if t.typ = .regexp then mkLeaf (.prim (.str t.val)) .regexp
  else match atoi t.val with
    | some i => lit (.prim (.int i))
    | none =>
      match (match parseFloat t.val with
             | some f => if f.isInf || f.isNaN then none else some f
             | none => none) with
      | some f => lit (.prim (.flt f))
      | none =>
        if containsWild t.val then mkLeaf (.prim (.str t.val)) .wild
        else if t.val.any (· == 92) then lit (.prim (.str (unescape t.val)))
        else lit (.prim (.str t.val))

/-- reduce.go wrapLiteral: `Eq(Column(field), lit)` for a bare literal when a default field is set -/
def wrapLiteral (df : Bytes) (e : Expr) : Out Expr :=
  if e.op = .literal && !df.isEmpty then mkExpr (.prim (.col df)) .equals [.expr e] else .ok e

/-- reduce.go isChainedOrLiterals: the literals of an OR-chain, and whether the whole chain consists of literals -/
def chainedOrLiterals : Expr → List Expr × Bool
  | .mk l o r p d =>
    if o = .literal then ([.mk l o r p d], true)
    else if o = .or then
      match l, r with
      | .expr le, .expr re =>
        let (ls, lok) := chainedOrLiterals le
        let (rs, rok) := chainedOrLiterals re
        (ls ++ rs, lok && rok)
      | _, _ => ([], false)
    else ([], false)

/-- reduce.go toPositiveFloat (after fix F11) -/
def toPositiveFloat (s : Bytes) : Option F64 :=
  match atoi s with
  | some i => if i > 0 then some (F64.ofInt i) else
    (match parseFloat s with
     | some f => if F64.lt F64.zero f && !f.isInf then some f else none
     | none => none)
  | none =>
    match parseFloat s with
    | some f => if F64.lt F64.zero f && !f.isInf then some f else none
    | none => none

def cmpOp (gt orEq : Bool) : Op :=
  if gt then (if orEq then .greaterEq else .greater) else (if orEq then .lessEq else .less)

/-- `e.String()` as the reducers `fuzzy` and `boost` read it (a panic inside cannot happen for parser-built
    trees; it is propagated as a panic of Parse) -/
def strOf (env : Env) (e : Expr) : Out Bytes :=
  match e.string env.isPrint with
  | .ok p => .ok p.text
  | .err => .err
  | .panic => .panic

/-- what the reducers build: the constructor semantics of the tree of reductions -/
def sem (env : Env) (df : Bytes) : Ex → Out Expr
  | .leaf t => .ok (parseLiteral t)
  | .eq f v => do
    let f' ← sem env df f
    let v' ← sem env df v
    let (lits, ok) := chainedOrLiterals v'
    if ok && lits.length > 1 then mkExpr (.expr f') .in_ [.expr (mkList (ExprList.ofList lits))]
    else mkExpr (.expr f') .equals [.expr v']
  | .inn _ _ => .panic                                   -- never built by the run
  | .cmp gt orEq f v => do
    let f' ← sem env df f
    let v' ← sem env df v
    mkExpr (.expr f') (cmpOp gt orEq) [.expr v']
  | .range f lo hi incl => do
    let f' ← sem env df f
    let lo' ← sem env df lo
    let hi' ← sem env df hi
    mkExpr (.expr f') .range [.expr lo', .expr hi', .prim (.bool incl)]
  | .and l r => do
    let l' ← sem env df l
    let r' ← sem env df r
    let wl ← wrapLiteral df l'
    let wr ← wrapLiteral df r'
    mkExpr (.expr wl) .and [.expr wr]
  | .or l r => do
    let l' ← sem env df l
    let r' ← sem env df r
    let wl ← wrapLiteral df l'
    let wr ← wrapLiteral df r'
    mkExpr (.expr wl) .or [.expr wr]
  | .not e => do
    let e' ← sem env df e
    let w ← wrapLiteral df e'
    mkExpr (.expr w) .not []
  | .must e => do
    let e' ← sem env df e
    mkExpr (.expr e') .must []
  | .mustNot e => do
    let e' ← sem env df e
    mkExpr (.expr e') .mustNot []
  | .fuzzy e none => do
    let e' ← sem env df e
    mkExpr (.expr e') .fuzzy [.prim (.int 1)]
  | .fuzzy e (some d) => do
    let e' ← sem env df e
    let d' ← sem env df d
    let s ← strOf env d'
    match atoi s with
    | some i => mkExpr (.expr e') .fuzzy [.prim (.int i)]
    | none => .panic                                     -- excluded by the reducer's test (`isNumOf`)
  | .boost e none => do
    let e' ← sem env df e
    mkExpr (.expr e') .boost [.prim (.flt F64.one)]
  | .boost e (some p) => do
    let e' ← sem env df e
    let p' ← sem env df p
    let s ← strOf env p'
    match toPositiveFloat s with
    | some f => mkExpr (.expr e') .boost [.prim (.flt f)]
    | none => .panic                                     -- excluded by the reducer's test (`isNumOf`)

/-- the value tests of `fuzzy` (`kind = true`: `strconv.Atoi(distance.String())` succeeds) and of `boost`
    (`kind = false`: `toPositiveFloat(power.String())` succeeds) -/
def isNumOf (env : Env) (df : Bytes) (kind : Bool) (d : Ex) : Bool :=
  match sem env df d with
  | .ok d' =>
    (match strOf env d' with
     | .ok s => if kind then (atoi s).isSome else (toPositiveFloat s).isSome
     | _ => false)
  | _ => false

/-- what happens to the tree of reductions once the parser accepts: the constructor semantics, the edge case for
    a single literal with a default field (after fix F10), and expr.Validate -/
def finalize (env : Env) (df : Bytes) (ex : Ex) : Out Expr := do
  let e ← sem env df ex
  let final ← if e.op = .literal && !df.isEmpty then mkExpr (.prim (.str df)) .equals [.expr e] else .ok e
  if validateExpr final then .ok final else .err

/-- parser.parse + expr.Validate on a token list (list end = EOF; a lexical error is an `.err` token) -/
def parseTokens (env : Env) (df : Bytes) (toks : List Tok) : Out Expr :=
  match parseToks (isNumOf env df) toks with
  | .err => .err
  | .ok ex => finalize env df ex

/-- the token stream the parser sees through `Peek`/`Next`: the tokens, then (for ever) the error token if
    lexing failed -/
def tokensOf (env : Env) (s : Bytes) : List Tok :=
  let r := lexAll env.cls (decode s)
  r.1.map (·.2) ++ (if r.2.1 = .err then [⟨.err, []⟩] else [])

/-- lucene.Parse(s, WithDefaultField(df)); `df = []` is "no default field" -/
def parseQuery (env : Env) (s : Bytes) (df : Bytes) : Out Expr :=
  parseTokens env df (tokensOf env s)

end GoLucene
