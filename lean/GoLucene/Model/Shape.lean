import GoLucene.Model.Expr
/-
  Shape predicates on expression trees (all executable, so that they can also be judged on the
  implementation's outputs through modeld):

  * `leafy`      — a term: a leaf expression (Literal / Wild / Regexp over a raw value, no right side) whose kind is
                   coherent (a Wild or Regexp leaf holds a string);
  * `wfTree`     — the invariant shared by everything the parser AND the JSON decoder can build: lists and range
                   boundaries contain only leafy expressions, Wild/Regexp nodes over raw values hold strings, every
                   other operand position is nil or a well-formed expression.  This (with Validate) is what the
                   renderers' unchecked assertions rely on (C13);
  * `wellFormed` — C10's independent shape check, written from the property's sentence: field positions hold a
                   single term, range bounds are single terms, value lists hold at least two plain values, unary
                   operators have exactly one operand, pattern matches have a pattern on the right.
-/
namespace GoLucene

def Op.isLeafOp (o : Op) : Bool := o = .literal || o = .wild || o = .regexp

/-- a raw value is acceptable under a leaf operator: Wild and Regexp hold strings -/
def leafKindOK (o : Op) : Node → Bool
  | .prim (.str _) => true
  | .prim (.col _) => false      -- a Column only ever stands in field position, never in a list or a boundary
  | .prim _ => o = .literal
  | .nil => o = .literal
  | _ => false

/-- a leaf expression over a raw value (or nil), with no right side -/
def leafy : Expr → Bool
  | .mk l o r _ _ => o.isLeafOp && leafKindOK o l && r.isNil

def ExprList.allLeafy : ExprList → Bool
  | .nil => true
  | .cons e t => leafy e && t.allLeafy

mutual
def wfNode : Node → Bool
  | .nil => true
  | .prim _ => true
  | .expr e => wfTree e
  | .list es => es.allLeafy
  | .bound mn mx _ =>
    (match mn with | .expr e => leafy e | _ => false) && (match mx with | .expr e => leafy e | _ => false)
def wfTree : Expr → Bool
  | .mk l o r _ _ =>
    (if o = .wild || o = .regexp then (match l with | .prim (.str _) => true | .prim _ => false | _ => true) else true)
    && wfNode l && wfNode r
end

/-! ### C10: the independent shape check -/

/-- a single term in the sense of C10: a leaf over an actual raw value (not nil, not a decoded map) -/
def isTermNode : Node → Bool
  | .expr (.mk (.prim p) o r _ _) => o.isLeafOp && p.isLiteral && r.isNil && (o = .literal || (match p with | .str _ => true | _ => false))
  | _ => false

def isPlainValue : Expr → Bool
  | .mk (.prim p) .literal .nil _ _ => p.isLiteral
  | _ => false

def ExprList.allPlain : ExprList → Bool
  | .nil => true
  | .cons e t => isPlainValue e && t.allPlain

mutual
def wellFormedNode : Node → Bool
  | .expr e => wellFormed e
  | _ => false
def wellFormed : Expr → Bool
  | .mk l o r _ _ =>
    match o with
    | .undefined => false
    | .literal | .wild | .regexp => isTermNode (.expr (.mk l o r F64.one 1))
    | .and | .or => wellFormedNode l && wellFormedNode r
    | .not | .must | .mustNot | .boost | .fuzzy => wellFormedNode l && r.isNil
    | .equals | .greater | .less | .greaterEq | .lessEq => isTermNode l && wellFormedNode r
    | .like =>
      isTermNode l && isTermNode r &&
        (match r with | .expr re => re.op = .wild || re.op = .regexp | _ => false)
    | .in_ =>
      isTermNode l &&
        (match r with
         | .expr (.mk (.list es) .list .nil _ _) => es.allPlain && decide (2 ≤ es.length)
         | _ => false)
    | .range =>
      isTermNode l && (match r with | .bound mn mx _ => isTermNode mn && isTermNode mx | _ => false)
    | .list => false
end

end GoLucene

namespace GoLucene

/-! ### C11: erasing the default-field scoping -/

def isDfCol (df : Bytes) : Node → Bool
  | .expr (.mk (.prim (.col c)) .literal .nil _ _) => c == df
  | _ => false

mutual
/-- erase every `df:` scoping: `Equals(Column df, x)` becomes `x` -/
def eraseNode (df : Bytes) : Node → Node
  | .expr e => .expr (eraseDf df e)
  | .list es => .list (eraseList df es)
  | .bound mn mx incl => .bound (eraseNode df mn) (eraseNode df mx) incl
  | n => n
def eraseDf (df : Bytes) : Expr → Expr
  | .mk l o r p d =>
    if o = .equals && isDfCol df l then
      (match r with
       | .expr x => eraseDf df x
       | _ => .mk l o r p d)
    else .mk (eraseNode df l) o (eraseNode df r) p d
def eraseList (df : Bytes) : ExprList → ExprList
  | .nil => .nil
  | .cons e t => .cons (eraseDf df e) (eraseList df t)
end

def isBareTermNode : Node → Bool
  | .expr (.mk (.prim _) o _ _ _) => o.isLeafOp
  | _ => false

mutual
/-- no bare term stands alone as an operand of AND, OR, NOT, +, -, ~, ^ -/
def noBareNode : Node → Bool
  | .expr e => noBareOperand e
  | _ => true
def noBareOperand : Expr → Bool
  | .mk l o r _ _ =>
    match o with
    | .and | .or => !isBareTermNode l && !isBareTermNode r && noBareNode l && noBareNode r
    | .not | .must | .mustNot | .fuzzy | .boost => !isBareTermNode l && noBareNode l
    | .equals | .greater | .less | .greaterEq | .lessEq => noBareNode r
    | _ => true
end

def isDfScoped (df : Bytes) : Node → Bool
  | .expr (.mk l .equals _ _ _) => isDfCol df l
  | _ => false

mutual
/-- explicitly fielded terms are never re-scoped: the value of a term fielded with another name is not `df:…` -/
def noRescopedNode (df : Bytes) : Node → Bool
  | .expr e => noRescoped df e
  | .bound mn mx _ => !isDfScoped df mn && !isDfScoped df mx
  | _ => true
def noRescoped (df : Bytes) : Expr → Bool
  | .mk l o r _ _ =>
    (if operatesOnColumn o && !isDfCol df l then !isDfScoped df r else true) &&
      noRescopedNode df l && noRescopedNode df r
end

/-- … nor as the whole query -/
def noBareTerm (e : Expr) : Bool := !isBareTermNode (.expr e) && noBareOperand e

end GoLucene
