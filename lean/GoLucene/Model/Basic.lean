/-
  Basic vocabulary of the go-lucene model.

  Go `string` is modelled as a list of bytes (Go strings are byte strings; invalid UTF-8 is in scope).
  Core Lean only: nothing here (or in any other Model file) may import Mathlib, so that the model can
  be compiled into the `modeld` executable.
-/
namespace GoLucene

abbrev Bytes := List UInt8

/-- ASCII string literal → bytes (for keywords and fixed texts in the model; only ever applied to ASCII
    literals, where it coincides with the UTF-8 encoding and — unlike `String.toUTF8` — reduces in the kernel). -/
def b (s : String) : Bytes := s.toList.map (fun c => c.toNat.toUInt8)

/-- bytes → Lean string for diagnostics only (lossy on invalid UTF-8). -/
def showBytes (bs : Bytes) : String :=
  String.ofList (bs.map (fun c => Char.ofNat c.toNat))

def hexDigit (n : Nat) : Char :=
  if n < 10 then Char.ofNat (48 + n) else Char.ofNat (87 + n)

/-- lower-case hex encoding, used by the line protocol. -/
def toHex (bs : Bytes) : String :=
  String.ofList (bs.flatMap (fun c => [hexDigit (c.toNat / 16), hexDigit (c.toNat % 16)]))

def hexVal (c : Char) : Option Nat :=
  if '0' ≤ c ∧ c ≤ '9' then some (c.toNat - 48)
  else if 'a' ≤ c ∧ c ≤ 'f' then some (c.toNat - 87)
  else if 'A' ≤ c ∧ c ≤ 'F' then some (c.toNat - 55)
  else none

def ofHexChars : List Char → Option Bytes
  | [] => some []
  | [_] => none
  | c :: d :: rest =>
    match hexVal c, hexVal d, ofHexChars rest with
    | some x, some y, some r => some (UInt8.ofNat (x * 16 + y) :: r)
    | _, _, _ => none

def ofHex (s : String) : Option Bytes := ofHexChars s.toList

/-- Outcome of a Go call: a value, an error (the texts of errors are not modelled), or a panic. -/
inductive Out (α : Type) where
  | ok (a : α)
  | err
  | panic
  deriving Repr, DecidableEq

namespace Out
def bind {α β} (x : Out α) (f : α → Out β) : Out β :=
  match x with
  | .ok a => f a
  | .err => .err
  | .panic => .panic
instance : Monad Out where
  pure := .ok
  bind := Out.bind
def isOk {α} : Out α → Bool | .ok _ => true | _ => false
def isPanic {α} : Out α → Bool | .panic => true | _ => false
end Out

end GoLucene
