import GoLucene.Proofs.LexThm
namespace GoLucene

inductive End | eof | err deriving DecidableEq, Repr

/-- the whole token stream: (skipped whitespace, token) pairs, how it ended, trailing whitespace, unread rest -/
def lexAll (k : Cls) (inp : List Cell) : List (List Cell × Tok) × End × List Cell × List Cell :=
  match h : next k inp with
  | .eof ws => ([], .eof, ws, [])
  | .err ws rest => ([], .err, ws, rest)
  | .tok t ws w rest =>
    have : rest.length < inp.length := by
      have := next_tok k inp t ws w rest h
      have h1 := congrArg List.length this.1
      have h2 : w.length ≠ 0 := by intro h0; exact this.2.1 (List.length_eq_zero_iff.mp h0)
      simp at h1; omega
    let (ts, e, tw, r) := lexAll k rest
    ((ws, t) :: ts, e, tw, r)
termination_by inp.length

def segBytes (ts : List (List Cell × Tok)) : Bytes := ts.flatMap (fun p => cellsBytes p.1 ++ p.2.val)

/-- C16: the tokens' texts, in order, separated only by skipped whitespace, reproduce the input up to its end
    or up to the first lexical error. -/
theorem lex_segmentation (k : Cls) : ∀ (n : Nat) (inp : List Cell), inp.length ≤ n →
    let r := lexAll k inp
    segBytes r.1 ++ cellsBytes r.2.2.1 ++ cellsBytes r.2.2.2 = cellsBytes inp ∧
    (∀ p ∈ r.1, ∀ c ∈ p.1, isWs c.r = true) ∧ (∀ c ∈ r.2.2.1, isWs c.r = true) ∧
    (r.2.1 = .eof → r.2.2.2 = []) ∧ (r.2.1 = .err → r.2.2.2 ≠ []) := by
  intro n
  induction n with
  | zero =>
    intro inp h
    have : inp = [] := List.length_eq_zero_iff.mp (by omega)
    subst this
    rw [lexAll]
    simp [next, dropWs, segBytes, cellsBytes]
  | succ n ih =>
    intro inp hl
    rw [lexAll]
    split
    · rename_i ws h
      have := next_eof k inp ws h
      simp [segBytes, this.1]
      refine ⟨by simp [cellsBytes], ?_⟩
      intro c hc
      exact this.2 c (this.1 ▸ hc)
    · rename_i ws rest h
      have := next_err k inp ws rest h
      simp only [segBytes, List.flatMap_nil, List.nil_append, List.not_mem_nil, false_implies, implies_true,
        true_and, reduceCtorEq, ne_eq]
      refine ⟨by rw [← this.1]; simp [cellsBytes], this.2.1, fun _ => this.2.2⟩
    · rename_i t ws w rest h
      have hn := next_tok k inp t ws w rest h
      have hlen : rest.length ≤ n := by
        have h1 := congrArg List.length hn.1
        have h2 : w.length ≠ 0 := by intro h0; exact hn.2.1 (List.length_eq_zero_iff.mp h0)
        simp at h1; omega
      have ihr := ih rest hlen
      simp only at ihr ⊢
      generalize lexAll k rest = q at ihr ⊢
      obtain ⟨ts, e, tw, r⟩ := q
      simp only at ihr ⊢
      refine ⟨?_, ?_, ihr.2.2.1, ihr.2.2.2.1, ihr.2.2.2.2⟩
      · rw [← hn.1]
        simp only [segBytes, List.flatMap_cons, cellsBytes, List.flatMap_append, List.append_assoc] at ihr ⊢
        rw [hn.2.2.1]
        simp only [cellsBytes, List.append_assoc]
        rw [← ihr.1]
      · intro p hp
        simp at hp
        rcases hp with rfl | hp
        · exact hn.2.2.2
        · exact ihr.2.1 p hp

theorem lex_token_count_le (k : Cls) : ∀ (n : Nat) (inp : List Cell), inp.length ≤ n →
    (lexAll k inp).1.length ≤ inp.length := by
  intro n
  induction n with
  | zero =>
    intro inp h
    have : inp = [] := List.length_eq_zero_iff.mp (by omega)
    subst this
    rw [lexAll]; simp [next, dropWs]
  | succ n ih =>
    intro inp hl
    rw [lexAll]
    split
    · simp
    · simp
    · rename_i t ws w rest h
      have hn := next_tok k inp t ws w rest h
      have h1 := congrArg List.length hn.1
      have h2 : w.length ≠ 0 := by intro h0; exact hn.2.1 (List.length_eq_zero_iff.mp h0)
      have := ih rest (by simp at h1; omega)
      generalize lexAll k rest = q at this ⊢
      obtain ⟨ts, e, tw, r⟩ := q
      simp at this h1 ⊢
      omega

end GoLucene
