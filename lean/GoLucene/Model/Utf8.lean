import GoLucene.Model.Token
/-
  unicode/utf8.DecodeRuneInString as a total function on bytes, and the decoding of a whole Go string
  into cells.  `decode_lossless`: the cells concatenate to the input (part of C16).
-/
namespace GoLucene

def cont (b : UInt8) : Bool := 0x80 ≤ b && b ≤ 0xBF

/-- utf8.DecodeRuneInString on a non-empty input: (rune, width), RuneError/1 on any invalid prefix. -/
def decode1 (b0 : UInt8) (rest : Bytes) : Nat × Nat :=
  if b0 < 0x80 then (b0.toNat, 1)
  else if 0xC2 ≤ b0 && b0 ≤ 0xDF then
    match rest with
    | b1 :: _ => if cont b1 then ((b0.toNat - 0xC0) * 64 + (b1.toNat - 0x80), 2) else (0xFFFD, 1)
    | _ => (0xFFFD, 1)
  else if 0xE0 ≤ b0 && b0 ≤ 0xEF then
    match rest with
    | b1 :: b2 :: _ =>
      let lo : UInt8 := if b0 = 0xE0 then 0xA0 else 0x80
      let hi : UInt8 := if b0 = 0xED then 0x9F else 0xBF
      if lo ≤ b1 && b1 ≤ hi && cont b2 then
        ((b0.toNat - 0xE0) * 4096 + (b1.toNat - 0x80) * 64 + (b2.toNat - 0x80), 3)
      else (0xFFFD, 1)
    | _ => (0xFFFD, 1)
  else if 0xF0 ≤ b0 && b0 ≤ 0xF4 then
    match rest with
    | b1 :: b2 :: b3 :: _ =>
      let lo : UInt8 := if b0 = 0xF0 then 0x90 else 0x80
      let hi : UInt8 := if b0 = 0xF4 then 0x8F else 0xBF
      if lo ≤ b1 && b1 ≤ hi && cont b2 && cont b3 then
        ((b0.toNat - 0xF0) * 262144 + (b1.toNat - 0x80) * 4096 + (b2.toNat - 0x80) * 64 + (b3.toNat - 0x80), 4)
      else (0xFFFD, 1)
    | _ => (0xFFFD, 1)
  else (0xFFFD, 1)

theorem decode1_width (b0 : UInt8) (rest : Bytes) :
    1 ≤ (decode1 b0 rest).2 ∧ (decode1 b0 rest).2 ≤ 4 ∧ (decode1 b0 rest).2 ≤ rest.length + 1 := by
  unfold decode1
  repeat' split
  all_goals (try simp)
  all_goals (try (split <;> simp))

def decode : Bytes → List Cell
  | [] => []
  | b0 :: rest =>
    let (r, w) := decode1 b0 rest
    have : (rest.drop (w - 1)).length < (b0 :: rest).length := by
      simp; omega
    ⟨r, b0 :: rest.take (w - 1)⟩ :: decode (rest.drop (w - 1))
termination_by bs => bs.length

theorem decode_lossless : ∀ (n : Nat) (bs : Bytes), bs.length ≤ n → cellsBytes (decode bs) = bs := by
  intro n
  induction n with
  | zero => intro bs h; cases bs <;> simp_all [decode, cellsBytes]
  | succ n ih =>
    intro bs h
    cases bs with
    | nil => simp [decode, cellsBytes]
    | cons b0 rest =>
      rw [decode]
      simp only [cellsBytes, List.flatMap_cons, List.cons_append, List.cons.injEq, true_and]
      have := ih (rest.drop ((decode1 b0 rest).2 - 1)) (by simp at h ⊢; omega)
      simp only [cellsBytes] at this
      rw [this]
      exact List.take_append_drop _ _

end GoLucene
