import GoLucene.Model.Expr
import GoLucene.Model.Json
/-
  The JSON codec of pkg/lucene/expr/expression.go: `Expression.MarshalJSON` and `Expression.UnmarshalJSON`
  (with unmarshalLiteral, isArray, isJSONObject, looksLikeRangeBoundary, toIntIfNecessary, column re-wrapping),
  on top of the model of encoding/json's text layer (Model/Json.lean).

  The decoder works on raw texts and re-parses them level by level, exactly as the Go code does with
  json.RawMessage.  `unmarshalTop` is `json.Unmarshal(data, &e)` for arbitrary bytes.
-/
namespace GoLucene

open Json

/-! ### encoding -/

def jsonKey (k : String) : Bytes := [34] ++ b k ++ [34, 58]

def joinC : List Bytes → Bytes
  | [] => []
  | [x] => x
  | x :: xs => x ++ [44] ++ joinC xs

mutual
/-- json.Marshal of the value held by an `any` -/
def marshalNode : Node → Out Bytes
  | .nil => .ok (b "null")
  | .prim (.str s) => .ok (encodeString s)
  | .prim (.col s) => .ok (encodeString s)
  | .prim (.int i) => .ok (fmtInt i)
  | .prim (.flt f) =>
    (match fmtJSON f with
     | some t => .ok t
     | none => .err)
  | .prim (.bool v) => .ok (if v then b "true" else b "false")
  | .prim .opaque => .ok (b "%!")                          -- a decoded map / slice: text not modelled
  | .expr e => marshalExpr e
  | .list es =>
    (match marshalList es with
     | .ok parts => .ok (b "[" ++ joinC parts ++ b "]")
     | .err => .err
     | .panic => .panic)
  | .bound mn mx incl =>
    (match marshalNode mn with
     | .err => .err
     | .panic => .panic
     | .ok jmin =>
       match marshalNode mx with
       | .err => .err
       | .panic => .panic
       | .ok jmax =>
         .ok (b "{" ++ jsonKey "min" ++ jmin ++ b "," ++ jsonKey "max" ++ jmax ++ b "," ++ jsonKey "inclusive" ++
              (if incl then b "true" else b "false") ++ b "}"))
/-- Expression.MarshalJSON -/
def marshalExpr : Expr → Out Bytes
  | .mk l o r p d =>
    if o = .literal || o = .wild || o = .regexp then marshalNode l
    else
      match marshalNode l with
      | .err => .err
      | .panic => .panic
      | .ok leftRaw =>
        let rightPart : Out Bytes :=
          match r with
          | .nil => .ok []
          | r' =>
            (match marshalNode r' with
             | .ok rr => .ok (b "," ++ jsonKey "right" ++ rr)
             | .err => .err
             | .panic => .panic)
        match rightPart with
        | .err => .err
        | .panic => .panic
        | .ok rp =>
          let dist : Bytes := if d != 1 then b "," ++ jsonKey "distance" ++ fmtInt d else []
          let power : Out Bytes :=
            if F64.eq p F64.one then .ok []
            else match fmtJSON p with
              | some t => .ok (b "," ++ jsonKey "power" ++ t)
              | none => .err
          match power with
          | .err => .err
          | .panic => .panic
          | .ok pw =>
            .ok (b "{" ++ jsonKey "left" ++ leftRaw ++ b "," ++ jsonKey "operator" ++ encodeString o.toStr ++ rp ++ dist ++ pw ++ b "}")
def marshalList : ExprList → Out (List Bytes)
  | .nil => .ok []
  | .cons e t =>
    match marshalExpr e with
    | .err => .err
    | .panic => .panic
    | .ok s =>
      match marshalList t with
      | .ok ss => .ok (s :: ss)
      | .err => .err
      | .panic => .panic
end

/-! ### decoding -/

def containsSub (sub : Bytes) : Bytes → Bool
  | [] => sub.isEmpty
  | c :: cs => sub.isPrefixOf (c :: cs) || containsSub sub cs

/-- expression.go looksLikeRangeBoundary -/
def looksLikeRangeBoundary (raw : Bytes) : Bool :=
  let s := stripSpaces raw
  containsSub (b "\"min\":") s && containsSub (b "\"max\":") s && !containsSub (b "\"left\":") s

/-- expression.go isJSONObject -/
def isJSONObject (raw : Bytes) : Bool :=
  let t := trimSpace raw
  !t.isEmpty && t.head? == some 123 && t.getLast? == some 125

/-- expression.go isArray -/
def isArray (raw : Bytes) : Bool :=
  let t := trimSpace raw
  !t.isEmpty && t.head? == some 91 && t.getLast? == some 93

/-- expression.go toIntIfNecessary on a decoded float64 -/
def toIntIfNecessary (f : F64) : Prim :=
  let i := f.toInt
  if F64.eq f (F64.ofInt i) then .int i else .flt f

/-- expression.go unmarshalLiteral: Atoi, then ParseFloat, then a JSON string (null decodes as "") -/
def unmarshalLiteral (raw : Bytes) : Out Expr :=
  match atoi raw with
  | some i => .ok (lit (.prim (.int i)))
  | none =>
    match parseFloat raw with
    | some f => .ok (lit (.prim (.flt f)))
    | none =>
      match parse1 raw with
      | some (.str s) => .ok (literalToExpr (.prim (.str s)))
      | some .null => .ok (literalToExpr (.prim (.str [])))
      | _ => .err

/-- which field of `jsonExpression` / `RangeBoundary` a key addresses: exact match first, then case folding -/
def fieldOf (names : List String) (key : Bytes) : Option String :=
  match names.find? (fun n => b n == key) with
  | some n => some n
  | none => names.find? (fun n => foldEq key (b n))

/-- the value encoding/json puts into an `any` for min / max, after toIntIfNecessary -/
def decodeAny (raw : Bytes) : Option Node :=
  if !anyDecodable (fun r => (parseFloat r).isSome) raw then none
  else match parse1 raw with
    | some .null => some .nil
    | some (.bool v) => some (.prim (.bool v))
    | some (.num r) => (parseFloat r).map (fun f => .prim (toIntIfNecessary f))
    | some (.str s) => some (.prim (.str s))
    | some (.arr _) => some (.prim .opaque)
    | some (.obj _) => some (.prim .opaque)
    | none => none

/-- json.Unmarshal(raw, &boundary) for `RangeBoundary{Min any; Max any; Inclusive bool}`; `none` = error -/
def decodeBoundary (raw : Bytes) : Option (Node × Node × Bool) :=
  match parse1 raw with
  | some (.obj members) =>
    let step := fun (st : Option (Node × Node × Bool) × Bool) (kv : Bytes × Bytes) =>
      match st with
      | (none, e) => (none, e)
      | (some (mn, mx, incl), e) =>
        match fieldOf ["min", "max", "inclusive"] kv.1 with
        | some "min" =>
          (match decodeAny kv.2 with
           | some v => (some (v, mx, incl), e)
           | none => (some (mn, mx, incl), true))
        | some "max" =>
          (match decodeAny kv.2 with
           | some v => (some (mn, v, incl), e)
           | none => (some (mn, mx, incl), true))
        | some "inclusive" =>
          (match parse1 kv.2 with
           | some (.bool v) => (some (mn, mx, v), e)
           | some .null => (some (mn, mx, incl), e)
           | _ => (some (mn, mx, incl), true))
        | _ => (some (mn, mx, incl), e)
    match members.foldl step (some (.nil, .nil, false), false) with
    | (some r, false) => some r
    | _ => none
  | some .null => some (.nil, .nil, false)                 -- null into a struct is a no-op
  | _ => none

/-- the fields of `jsonExpression` after json.Unmarshal(data, &c) -/
structure JFields where
  left : Bytes := []
  operator : Bytes := []
  right : Bytes := []
  distance : Option Int := none
  power : Option F64 := none
  bad : Bool := false

def decodeFields (members : List (Bytes × Bytes)) : JFields :=
  members.foldl (fun (c : JFields) (kv : Bytes × Bytes) =>
    match fieldOf ["left", "operator", "right", "boundaries", "distance", "power"] kv.1 with
    | some "left" => { c with left := kv.2 }
    | some "right" => { c with right := kv.2 }
    | some "operator" =>
      (match parse1 kv.2 with
       | some (.str s) => { c with operator := s }
       | some .null => c
       | _ => { c with bad := true })
    | some "boundaries" =>
      (match parse1 kv.2 with
       | some .null => c
       | some (.obj _) => if (decodeBoundary kv.2).isSome then c else { c with bad := true }
       | _ => { c with bad := true })
    | some "distance" =>
      (match parse1 kv.2 with
       | some .null => { c with distance := none }
       | some (.num r) =>
         (match atoi r with
          | some i => { c with distance := some i }
          | none => { c with bad := true })
       | _ => { c with bad := true })
    | some "power" =>
      (match parse1 kv.2 with
       | some .null => { c with power := none }
       | some (.num r) =>
         (match parseFloat r with
          | some f => { c with power := some f }
          | none => { c with bad := true })
       | _ => { c with bad := true })
    | _ => c) {}

def unmarshalLiterals : List Bytes → Out ExprList
  | [] => .ok .nil
  | r :: rs =>
    match unmarshalLiteral r with
    | .err => .err
    | .panic => .panic
    | .ok e =>
      match unmarshalLiterals rs with
      | .ok es => .ok (.cons e es)
      | .err => .err
      | .panic => .panic

/-- Expression.UnmarshalJSON(raw) where `raw` is the exact text of one valid JSON value -/
def unmarshalVal : Nat → Bytes → Out Expr
  | 0, _ => .err
  | fuel+1, raw =>
    if !isJSONObject raw then unmarshalLiteral raw
    else
      match parse1 raw with
      | some (.obj members) =>
        let c := decodeFields members
        if c.bad then .err
        else
          -- left
          let leftR : Out Node :=
            if isArray c.left then
              (match parse1 c.left with
               | some (.arr elems) =>
                 (match unmarshalLiterals elems with
                  | .ok es => .ok (.list es)
                  | .err => .err
                  | .panic => .panic)
               | _ => .err)
            else if c.left.isEmpty then .err                -- "unexpected end of JSON input"
            else
              (match unmarshalVal fuel c.left with
               | .ok e => .ok (.expr e)
               | .err => .err
               | .panic => .panic)
          match leftR with
          | .err => .err
          | .panic => .panic
          | .ok left0 =>
            let op := Op.ofStr c.operator
            let left := if isStringlike left0 && operatesOnColumn op then wrapInColumn left0 else left0
            let rightR : Out Node :=
              if !c.right.isEmpty && looksLikeRangeBoundary c.right then
                (match decodeBoundary c.right with
                 | some (mn, mx, incl) => .ok (.bound (.expr (literalToExpr mn)) (.expr (literalToExpr mx)) incl)
                 | none => .err)
              else if !c.right.isEmpty then
                (match unmarshalVal fuel c.right with
                 | .ok e => .ok (.expr e)
                 | .err => .err
                 | .panic => .panic)
              else .ok .nil
            match rightR with
            | .err => .err
            | .panic => .panic
            | .ok right =>
              let fuzzy : Int := if op = .fuzzy then c.distance.getD 1 else 1
              let boost : F64 := if op = .boost then c.power.getD F64.one else F64.one
              .ok (.mk left op right boost fuzzy)
      | _ => .err

/-- json.Unmarshal(data, &e) for arbitrary bytes -/
def unmarshalTop (data : Bytes) : Out Expr :=
  if !valid data then .err else unmarshalVal (data.length + 1) (trim data)

end GoLucene
