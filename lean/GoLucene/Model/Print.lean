import GoLucene.Model.Expr
/-
  pkg/lucene/expr/renderer.go: `Expression.String()` and `Expression.GoString()` (the `%#v` form), with the
  behaviour of Go's `fmt` verbs `%s`, `%v`, `%#v`, `%d`, `%.1f` on the dynamic types that occur.

  A formatted text carries a flag `clean`.  `clean = false` means that `fmt` had to emit something that is not
  a faithful print of the operand: a bad-verb marker (`%!s(int=1)`), a recovered panic of a nested String
  method (`%!v(PANIC=…)`), a pointer address, or a decoded JSON map/slice.  The exact text of such output is
  not modelled (the placeholder is the two bytes `%!`); the correspondence check compares texts only when
  the model says `clean`.  C01 is the theorem that the print of every parse result is `clean`.

  `fmt` recovers panics raised inside String/GoString methods it calls, so only the outermost, direct call
  of `String()` can panic (`strE` returns `.panic`); nested failures surface as `clean = false`.
-/
namespace GoLucene

structure PT where
  text : Bytes
  clean : Bool
  deriving Repr, DecidableEq

def PT.ok (t : Bytes) : PT := ⟨t, true⟩
def PT.bad : PT := ⟨b "%!", false⟩
def PT.append (x y : PT) : PT := ⟨x.text ++ y.text, x.clean && y.clean⟩
instance : Append PT := ⟨PT.append⟩
def PT.lit (s : String) : PT := PT.ok (b s)

def joinBytes (sep : Bytes) : List Bytes → Bytes
  | [] => []
  | [x] => x
  | x :: xs => x ++ sep ++ joinBytes sep xs

def joinPT (sep : Bytes) : List PT → PT
  | [] => PT.ok []
  | [x] => x
  | x :: xs => x ++ PT.ok sep ++ joinPT sep xs

inductive Verb | s | v | g   -- %s, %v, %#v
  deriving DecidableEq, Repr

def fmtPrim (ip : Nat → Bool) (verb : Verb) : Prim → PT
  | .str s => match verb with
    | .g => PT.ok (quoteGo ip s)
    | _ => PT.ok s
  | .int i => match verb with
    | .s => PT.bad
    | _ => PT.ok (fmtInt i)
  | .flt f => match verb with
    | .s => PT.bad
    | _ => PT.ok (fmtG f)
  | .bool v => match verb with
    | .s => PT.bad
    | _ => PT.ok (if v then b "true" else b "false")
  | .col s => match verb with
    | .g => PT.ok (b "COLUMN(" ++ s ++ b ")")
    | _ => PT.ok s
  | .opaque => PT.bad

def outPT : Out PT → PT
  | .ok p => p
  | _ => PT.bad

mutual
/-- fmt.Sprintf("%<verb>", n) for the value held by an `any` -/
def fmtNode (ip : Nat → Bool) (verb : Verb) : Node → PT
  | .nil => match verb with
    | .s => PT.bad
    | _ => PT.lit "<nil>"
  | .prim p => fmtPrim ip verb p
  | .expr e => outPT (strE ip (verb == .g) e)
  | .list es => match verb with
    | .g => PT.bad                                        -- Go syntax with pointer addresses
    | _ => PT.lit "[" ++ joinPT (b " ") (strList ip es) ++ PT.lit "]"
  | .bound _ _ _ => PT.bad                                -- `&{…}`; never produced for parser-built trees

/-- the elements of a `[]*Expression` printed by their String methods -/
def strList (ip : Nat → Bool) : ExprList → List PT
  | .nil => []
  | .cons e t => outPT (strE ip false e) :: strList ip t

/-- renderList's loop: each element's `.Left` with `%v` (after fix F3) or `%#v` -/
def listLefts (ip : Nat → Bool) (verbose : Bool) : ExprList → List PT
  | .nil => []
  | .cons e t =>
    (match e with
     | .mk l _ _ _ _ => fmtNode ip (if verbose then .g else .v) l) :: listLefts ip verbose t

/-- Expression.String() (`verbose = false`) / Expression.GoString() (`verbose = true`) -/
def strE (ip : Nat → Bool) (verbose : Bool) : Expr → Out PT
  | .mk l o r p d =>
    let vb : Verb := if verbose then .g else .s
    let name := PT.ok o.toStr
    match o with
    | .undefined => .ok (PT.ok [])
    | .equals => .ok (fmtNode ip vb l ++ PT.lit ":" ++ fmtNode ip vb r)
    | .and | .or | .greater | .less | .greaterEq | .lessEq | .like | .in_ =>
      if verbose then .ok (PT.lit "(" ++ fmtNode ip .g l ++ PT.lit ") " ++ name ++ PT.lit " (" ++ fmtNode ip .g r ++ PT.lit ")")
      else .ok (fmtNode ip .s l ++ PT.lit " " ++ name ++ PT.lit " " ++ fmtNode ip .s r)
    | .not => .ok (name ++ PT.lit "(" ++ fmtNode ip vb l ++ PT.lit ")")
    | .must =>
      if verbose then .ok (name ++ PT.lit "(" ++ fmtNode ip .g l ++ PT.lit ")")
      else .ok (PT.lit "+" ++ fmtNode ip .s l)
    | .mustNot =>
      if verbose then .ok (name ++ PT.lit "(" ++ fmtNode ip .g l ++ PT.lit ")")
      else .ok (PT.lit "-" ++ fmtNode ip .s l)
    | .boost =>
      let pw := if F64.lt F64.one p then PT.lit "^" ++ PT.ok (fmtFixed p 1) else (if verbose then PT.ok [] else PT.lit "^")
      if verbose then .ok (name ++ PT.lit "(" ++ fmtNode ip .g l ++ pw ++ PT.lit ")")
      else .ok (fmtNode ip .s l ++ pw)
    | .fuzzy =>
      let ds := if d > 1 then PT.lit "~" ++ PT.ok (fmtInt d) else (if verbose then PT.ok [] else PT.lit "~")
      if verbose then .ok (name ++ PT.lit "(" ++ fmtNode ip .g l ++ ds ++ PT.lit ")")
      else .ok (fmtNode ip .s l ++ ds)
    | .range =>
      (match r with
       | .bound mn mx incl =>
         let (ob, cb) := if incl then ("[", "]") else ("{", "}")
         .ok (fmtNode ip vb l ++ PT.lit ":" ++ PT.lit ob ++ fmtNode ip vb mn ++ PT.lit " TO " ++ fmtNode ip vb mx ++ PT.lit cb)
       | _ => .panic)                                     -- e.Right.(*RangeBoundary)
    | .list =>
      (match l with
       | .list es =>
         let body := joinPT (b ", ") (listLefts ip verbose es)
         if verbose then .ok (PT.lit "LIST(" ++ body ++ PT.lit ")") else .ok (PT.lit "(" ++ body ++ PT.lit ")")
       | _ => .panic)                                     -- e.Left.([]*Expression)
    | .literal | .wild | .regexp =>
      if verbose then .ok (name ++ PT.lit "(" ++ fmtNode ip .g l ++ PT.lit ")")
      else
        (match l with
         | .prim (.str s) =>
           if s.any (· == 32) then .ok (PT.lit "\"" ++ PT.ok s ++ PT.lit "\"") else .ok (PT.ok s)
         | _ => .ok (fmtNode ip .v l))
end

/-- Expression.String() -/
def Expr.string (ip : Nat → Bool) (e : Expr) : Out PT := strE ip false e
/-- Expression.GoString() -/
def Expr.goString (ip : Nat → Bool) (e : Expr) : Out PT := strE ip true e

end GoLucene
