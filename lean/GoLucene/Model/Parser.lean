import GoLucene.Model.Token
/-
  parse.go (shift/reduce loop) and pkg/lucene/reduce/reduce.go (the twelve reducers) at token level.

  The run builds the *tree of reductions* `Ex`; the expression the Go code builds is `sem df` of that tree
  (Model/Sem.lean: the constructor semantics of expr.Expr, wrapLiteral, value-list detection).  This factoring is
  faithful because every reducer is a function of the values in its handle only; the two places where the
  control flow looks at a value — `fuzzy` (is `distance.String()` an integer?) and `boost` (is
  `power.String()` a positive float?) — are the parameter `isNum : Bool → Ex → Bool` (`true` = the fuzzy test,
  `false` = the boost test), instantiated in Model/Sem.lean with the real tests on the `sem` of the operand.

  The code modelled is the tree AFTER the fix commits F5 (sub checks its middle element), F7 (implicit AND
  reduces until AND may be shifted) and F9 (a tie between two prefix operators shifts).
-/
namespace GoLucene

/-- Abstract expression: enough structure for the parser-level theorems. -/
inductive Ex
  | leaf (t : Tok)
  | eq (f v : Ex) | inn (f : Ex) (vs : List Ex)
  | cmp (gt orEq : Bool) (f v : Ex)
  | range (f lo hi : Ex) (incl : Bool)
  | and (l r : Ex) | or (l r : Ex) | not (e : Ex) | must (e : Ex) | mustNot (e : Ex)
  | fuzzy (e : Ex) (d : Option Ex) | boost (e : Ex) (p : Option Ex)
  deriving Repr

inductive Item
  | tok (t : TT)
  | ex (e : Ex)
  deriving Repr

def Item.isTok : Item → Bool
  | .tok _ => true
  | .ex _ => false

def TT.isPrefixOp (t : TT) : Bool := t = .tnot || t = .plus || t = .minus

/-- lex.HasLessPrecedence with the F9 patch: a tie between two prefix operators shifts. -/
def hasLessPrecedence (cur next : TT) : Bool :=
  if cur = next then cur.isPrefixOp else cur.num > next.num

def anyOpenBracket (cur next : TT) : Bool :=
  cur = .lsquare || next = .lsquare || cur = .lcurly || next = .lcurly || cur = .lparen || next = .lparen

def anyClosingBracket (cur : TT) : Bool :=
  cur = .rparen || cur = .rsquare || cur = .rcurly

def endingRange (next : TT) : Bool := next = .rsquare || next = .rcurly

/-- parse.go shouldShift; `cur` is the top of nonTerminals. -/
def shouldShift (cur next : TT) : Bool :=
  if next = .eof then false
  else if next = .err then false
  else if next.isTerminal then true
  else if anyOpenBracket cur next then true
  else if endingRange next then true
  else if anyClosingBracket cur then false
  else hasLessPrecedence cur next

/-- One reducer attempt on `top` (in original left-to-right order). Returns the replaced
    elems and the number of nonterminals to drop. Abstracted: numeric checks on fuzzy/boost
    are a parameter `isNum`. -/
def tryReduce (isNum : Bool → Ex → Bool) (top : List Item) : Option (List Item × Nat) :=
  match top with
  | [.ex l, .tok .tand, .ex r] => some ([.ex (.and l r)], 1)
  | [.ex l, .tok .tor, .ex r] => some ([.ex (.or l r)], 1)
  | [.ex f, .tok .equal, .ex v] => some ([.ex (.eq f v)], 1)
  | [.ex f, .tok .colon, .ex v] => some ([.ex (.eq f v)], 1)
  | [.ex f, .tok .colon, .tok .greater, .ex v] => some ([.ex (.cmp true false f v)], 2)
  | [.ex f, .tok .colon, .tok .less, .ex v] => some ([.ex (.cmp false false f v)], 2)
  | [.ex f, .tok .colon, .tok .greater, .tok .equal, .ex v] => some ([.ex (.cmp true true f v)], 3)
  | [.ex f, .tok .colon, .tok .less, .tok .equal, .ex v] => some ([.ex (.cmp false true f v)], 3)
  | [.tok .tnot, .ex e] => some ([.ex (.not e)], 1)
  | [.tok .lparen, .ex e, .tok .rparen] => some ([.ex e], 2)
  | [.tok .plus, .ex e] => some ([.ex (.must e)], 1)
  | [.tok .minus, .ex e] => some ([.ex (.mustNot e)], 1)
  | [.ex e, .tok .tilde] => some ([.ex (.fuzzy e none)], 1)
  | [.ex e, .tok .tilde, .ex d] => if isNum true d then some ([.ex (.fuzzy e (some d))], 1) else none
  | [.ex e, .tok .carrot] => some ([.ex (.boost e none)], 1)
  | [.ex e, .tok .carrot, .ex d] => if isNum false d then some ([.ex (.boost e (some d))], 1) else none
  | [.ex f, .tok .colon, .tok .lsquare, .ex lo, .tok .tto, .ex hi, .tok .rsquare] => some ([.ex (.range f lo hi true)], 4)
  | [.ex f, .tok .colon, .tok .lsquare, .ex lo, .tok .tto, .ex hi, .tok .rcurly] => some ([.ex (.range f lo hi false)], 4)
  | [.ex f, .tok .colon, .tok .lcurly, .ex lo, .tok .tto, .ex hi, .tok .rsquare] => some ([.ex (.range f lo hi false)], 4)
  | [.ex f, .tok .colon, .tok .lcurly, .ex lo, .tok .tto, .ex hi, .tok .rcurly] => some ([.ex (.range f lo hi false)], 4)
  | _ => none

structure Cfg where
  stack : List Item      -- top first
  nts   : List TT        -- top first, bottom is .start
  deriving Repr

/-- parser.reduce: pop items one by one until a reducer fires. `acc` is in original order. -/
def reduceLoop (isNum : Bool → Ex → Bool) : List Item → List Item → Option (List Item × Nat)
  | [], _ => none
  | s :: rest, acc =>
    let top := s :: acc
    match tryReduce isNum top with
    | some (repl, k) => some (repl.reverse ++ rest, k)
    | none => reduceLoop isNum rest top

def reduce (isNum : Bool → Ex → Bool) (c : Cfg) : Option Cfg :=
  match reduceLoop isNum c.stack [] with
  | some (st, k) => some ⟨st, c.nts.drop k⟩
  | none => none



inductive Res
  | ok (e : Ex)
  | err
  deriving Repr

def curOf (c : Cfg) : TT := c.nts.headD .start

/-- Reduce until an AND may be shifted (the `for` version of the implicit-AND code path). -/
def reduceUntilShift (isNum : Bool → Ex → Bool) (next : TT) : Nat → Cfg → Option Cfg
  | 0, _ => none
  | fuel+1, c =>
    if shouldShift (curOf c) next then some c
    else match reduce isNum c with
      | none => none
      | some c' => reduceUntilShift isNum next fuel c'


/-! ### reduce strictly shrinks the stack (termination of the main loop) -/


/-! reduce strictly shrinks the stack -/

theorem tryReduce_len (isNum : Bool → Ex → Bool) (top : List Item) (repl : List Item) (k : Nat)
    (h : tryReduce isNum top = some (repl, k)) : repl.length = 1 ∧ 2 ≤ top.length := by
  unfold tryReduce at h
  split at h <;> first
    | (simp at h; obtain ⟨rfl, rfl⟩ := h; simp)
    | (split at h <;> simp at h; obtain ⟨rfl, rfl⟩ := h; simp)
    | simp at h

theorem reduceLoop_len (isNum : Bool → Ex → Bool) (st acc : List Item) (st' : List Item) (k : Nat)
    (h : reduceLoop isNum st acc = some (st', k)) (hacc : True) :
    st'.length + 1 ≤ st.length + acc.length ∧ 1 ≤ st'.length := by
  induction st generalizing acc with
  | nil => simp [reduceLoop] at h
  | cons s rest ih =>
    simp only [reduceLoop] at h
    split at h
    · rename_i repl k' hr
      simp at h
      obtain ⟨rfl, rfl⟩ := h
      have := tryReduce_len isNum _ _ _ hr
      simp at this ⊢
      omega
    · have := ih (s :: acc) h
      simp at this ⊢
      omega

theorem reduce_len (isNum : Bool → Ex → Bool) (c c' : Cfg) (h : reduce isNum c = some c') :
    c'.stack.length < c.stack.length ∧ 1 ≤ c'.stack.length := by
  unfold reduce at h
  split at h
  · rename_i st k hr
    simp at h
    subst h
    have := reduceLoop_len isNum _ _ _ _ hr trivial
    simp at this ⊢
    omega
  · simp at h


theorem reduceUntilShift_len (isNum : Bool → Ex → Bool) (next : TT) (fuel : Nat) (c c' : Cfg)
    (h : reduceUntilShift isNum next fuel c = some c') : c'.stack.length ≤ c.stack.length := by
  induction fuel generalizing c with
  | zero => simp [reduceUntilShift] at h
  | succ n ih =>
    simp only [reduceUntilShift] at h
    split at h
    · simp at h; subst h; exact Nat.le_refl _
    · split at h
      · simp at h
      · rename_i c1 hr
        have h1 := reduce_len isNum _ _ hr
        have h2 := ih _ h
        omega

def nextOf (toks : List Tok) : TT := match toks with | [] => .eof | t :: _ => t.typ

/-- Well-founded version of the main loop. -/
def runW (isNum : Bool → Ex → Bool) (c : Cfg) (toks : List Tok) : Res :=
  if c.stack.length = 1 ∧ nextOf toks = .eof then
    match c.stack with
    | [.ex e] => .ok e
    | _ => .err
  else if shouldShift (curOf c) (nextOf toks) then
    match toks with
    | [] => .err
    | t :: rest =>
      if t.typ.isTerminal then
        match c.stack with
        | (.ex _) :: _ =>
          match h : reduceUntilShift isNum .tand (c.stack.length + 1) c with
          | none => .err
          | some c' =>
            have := reduceUntilShift_len isNum _ _ _ _ h
            runW isNum ⟨.ex (.leaf t) :: .tok .tand :: c'.stack, .tand :: c'.nts⟩ rest
        | _ => runW isNum ⟨.ex (.leaf t) :: c.stack, c.nts⟩ rest
      else runW isNum ⟨.tok t.typ :: c.stack, t.typ :: c.nts⟩ rest
  else
    match h : reduce isNum c with
    | none => .err
    | some c' =>
      have := reduce_len isNum _ _ h
      runW isNum c' toks
termination_by 3 * toks.length + c.stack.length
decreasing_by
  all_goals simp_wf
  all_goals simp at *
  all_goals omega

def parseToks (isNum : Bool → Ex → Bool) (toks : List Tok) : Res := runW isNum ⟨[], [.start]⟩ toks


end GoLucene
