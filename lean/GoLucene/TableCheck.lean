import GoLucene.Generated.Tables
import GoLucene.Model.Parser
import GoLucene.Model.Lex
import GoLucene.Model.Canon
import GoLucene.Model.Driver
/-
  The tie, part 1: the tables regenerated from /repo's working tree (Generated/Tables.lean, never committed
  with content) must be the tables the hand-written model was written against.  Each theorem is closed by
  `decide`, so a changed table in the Go source makes this file fail to compile — a broken obligation for
  every property whose proofs rest on that table (obligations.json says which).

  Tables read from live values are compared exactly.  Tables read through go/ast may come back as `none`
  when the shape of the source is no longer recognised (a harmless refactor): that is accepted here and the
  tie for that table is then by correspondence only (bin/check reports it in the evidence).
-/
namespace GoLucene

/-- insertion sort of pairs by their first component (structural, so that `decide` can run it) -/
def insertPair (x : String × String) : List (String × String) → List (String × String)
  | [] => [x]
  | y :: ys => if x.1 < y.1 then x :: y :: ys else y :: insertPair x ys
def sortPairs (l : List (String × String)) : List (String × String) := l.foldr insertPair []

/-- `o = none ∨ o = some v` as a Bool -/
def optIs {α} [BEq α] (o : Option α) (v : α) : Bool :=
  match o with
  | none => true
  | some x => x == v

/-! ### internal/lex -/

/-- the ASCII letters and digits of the live `unicode.IsLetter` / `unicode.IsDigit` are A–Z a–z and 0–9: the runes the
    lexer treats as structure (quote, colon, slash, brackets, operators, whitespace, backslash, `*`, `?`) are none of them -/
theorem asciiLetters_ok :
    Generated.asciiLetters = (List.range 128).filter (fun r => (65 ≤ r && r ≤ 90) || (97 ≤ r && r ≤ 122)) := by decide
theorem asciiDigits_ok : Generated.asciiDigits = (List.range 128).filter (fun r => 48 ≤ r && r ≤ 57) := by decide

/-- a class table agrees with the live tables on ASCII -/
def Cls.agreesAscii (k : Cls) : Prop :=
  ∀ r, r < 128 → k.isLetter r = Generated.asciiLetters.contains r ∧ k.isDigit r = Generated.asciiDigits.contains r

/-- … then none of the structural runes is a word character (the hypotheses `quoteColonNotAlnum`, `slashNotAlnum`) -/
theorem agreesAscii_structural (k : Cls) (h : k.agreesAscii) :
    ∀ r ∈ [34, 39, 58, 47, 40, 41, 91, 93, 123, 125, 43, 45, 61, 62, 60, 126, 94, 32, 9, 13, 10, 92, 42, 63],
      k.isAlnum r = false := by
  intro r hr
  have hlt : r < 128 := by
    simp only [List.mem_cons, List.mem_nil_iff, or_false] at hr
    omega
  obtain ⟨hl, hd⟩ := h r hlt
  simp only [Cls.isAlnum, hl, hd]
  simp only [List.mem_cons, List.mem_nil_iff, or_false] at hr
  rcases hr with rfl | rfl | rfl | rfl | rfl | rfl | rfl | rfl | rfl | rfl | rfl | rfl | rfl | rfl | rfl | rfl | rfl | rfl | rfl |
    rfl | rfl | rfl | rfl | rfl <;> decide

/-- the lexer's character-class predicates are the ones the model writes as `isAlnum`, `isWild`, `isWs`, `isEsc`
    (a disjunction of rune tests and unicode class calls, in any order; `none` = shape not recognised) -/
theorem classFns_ok : optIs Generated.classFns
    [("isAlphaNumeric", ["rune 95", "unicode.IsDigit", "unicode.IsLetter"]), ("isWildcard", ["rune 42", "rune 63"]),
     ("isSpace", ["rune 10", "rune 13", "rune 32", "rune 9"]), ("isEscape", ["rune 92"])] = true := by decide

theorem tokNums_ok : Generated.tokNums = TT.all.map (fun t => (t.name, t.num)) := by decide

theorem terminals_ok : Generated.terminals = (TT.all.filter TT.isTerminal).map TT.name := by decide

/-- lex.HasLessPrecedence on every pair of token types, as the built code computes it -/
def modelLessPrecedence : List (String × String) :=
  TT.all.flatMap (fun a => (TT.all.filter (fun c => hasLessPrecedence a c)).map (fun c => (a.name, c.name)))

set_option maxRecDepth 100000 in
theorem lessPrecedence_ok : Generated.lessPrecedence = modelLessPrecedence := by decide

def modelSymbols : List (Nat × String) :=
  [(123, "TLCurly"), (125, "TRCurly"), (126, "TTilde"), (40, "TLParen"), (41, "TRParen"), (43, "TPlus"),
   (58, "TColon"), (60, "TLess"), (61, "TEqual"), (62, "TGreater"), (91, "TLSquare"), (93, "TRSquare"), (94, "TCarrot")]

theorem symbols_ok : optIs Generated.symbols modelSymbols = true := by decide

/-- the model's `symbolOf` is that table -/
theorem symbolOf_table : ∀ p ∈ modelSymbols, (symbolOf p.1).map TT.name = some p.2 := by decide

theorem keywords_ok :
    optIs Generated.keywords [("AND", "TAnd"), ("OR", "TOr"), ("NOT", "TNot"), ("TO", "TTO")] = true := by decide

theorem keywordOf_table :
    keywordOf (b "AND") = some .tand ∧ keywordOf (b "OR") = some .tor ∧ keywordOf (b "NOT") = some .tnot ∧
    keywordOf (b "TO") = some .tto := by decide

/-! ### parse.go bracket sets -/

theorem openBrackets_ok : optIs Generated.openBrackets ["TLSquare", "TLCurly", "TLParen"] = true := by decide
theorem closingBrackets_ok : optIs Generated.closingBrackets ["TRParen", "TRSquare", "TRCurly"] = true := by decide
theorem rangeClosers_ok : optIs Generated.rangeClosers ["TRSquare", "TRCurly"] = true := by decide

theorem anyOpenBracket_table (c n : TT) :
    anyOpenBracket c n = (["TLSquare", "TLCurly", "TLParen"].contains c.name || ["TLSquare", "TLCurly", "TLParen"].contains n.name) := by
  cases c <;> cases n <;> decide
theorem anyClosingBracket_table (c : TT) :
    anyClosingBracket c = ["TRParen", "TRSquare", "TRCurly"].contains c.name := by cases c <;> decide
theorem endingRange_table (c : TT) : endingRange c = ["TRSquare", "TRCurly"].contains c.name := by cases c <;> decide

/-! ### reduce.go -/

theorem reducerOrder_ok :
    optIs Generated.reducerOrder
      ["and", "or", "equal", "compare", "compareEq", "not", "sub", "must", "mustNot", "fuzzy", "boost", "rangeop"] = true := by
  decide

/-! ### pkg/lucene/expr -/

theorem operators_ok : Generated.operators = Op.all.map (fun o => (o.goName, o.num, o.toStrS)) := by decide

def modelToString : List (String × String) :=
  sortPairs ((Op.all.filter (· != .undefined)).map (fun o => (o.goName, o.toStrS)))

def modelFromString : List (String × String) :=
  sortPairs ((Op.all.filter (· != .undefined)).map (fun o => (o.toStrS, o.goName)))

theorem opToString_ok : optIs Generated.opToString modelToString = true := by decide
theorem opFromString_ok : optIs Generated.opFromString modelFromString = true := by decide

/-- the two operator name tables are mutually inverse and total on the defined operators (needed by C12) -/
theorem op_names_inverse : ∀ o ∈ Op.all, o ≠ .undefined → Op.ofStr o.toStr = o := by decide

theorem columnOps_ok :
    optIs Generated.columnOps ["Equals", "Range", "Greater", "Less", "GreaterEq", "LessEq", "In", "Like"] = true := by decide
theorem operatesOnColumn_table (o : Op) :
    operatesOnColumn o = ["Equals", "Range", "Greater", "Less", "GreaterEq", "LessEq", "In", "Like"].contains o.goName := by
  cases o <;> decide

def modelValidatorOf : List (String × String) :=
  [("And", "validateAnd"), ("Boost", "validateBoost"), ("Equals", "validateEquals"), ("Fuzzy", "validateFuzzy"),
   ("Greater", "validateCompare"), ("GreaterEq", "validateCompare"), ("In", "validateIn"), ("Less", "validateCompare"),
   ("LessEq", "validateCompare"), ("Like", "validateLike"), ("List", "validateList"), ("Literal", "validateLiteral"),
   ("Must", "validateMust"), ("MustNot", "validateMustNot"), ("Not", "validateNot"), ("Or", "validateOr"),
   ("Range", "validateRange"), ("Regexp", "validateRegexp"), ("Wild", "validateWild")]
theorem validatorOf_ok : optIs Generated.validatorOf modelValidatorOf = true := by decide

def modelRendererOf : List (String × String) :=
  [("And", "renderBasic"), ("Boost", "renderBoost"), ("Equals", "renderEquals"), ("Fuzzy", "renderFuzzy"),
   ("Greater", "renderBasic"), ("GreaterEq", "renderBasic"), ("In", "renderBasic"), ("Less", "renderBasic"),
   ("LessEq", "renderBasic"), ("Like", "renderBasic"), ("List", "renderList"), ("Literal", "renderLiteral"),
   ("Must", "renderMust"), ("MustNot", "renderMustNot"), ("Not", "renderWrapper"), ("Or", "renderBasic"),
   ("Range", "renderRange"), ("Regexp", "renderLiteral"), ("Wild", "renderLiteral")]
theorem rendererOf_ok : optIs Generated.rendererOf modelRendererOf = true := by decide

/-! ### pkg/driver -/

def modelSharedFn : List (String × String) :=
  [("And", "basicCompound(And)"), ("Equals", "equals"), ("Greater", "greater"), ("GreaterEq", "greaterEq"),
   ("In", "inFn"), ("Less", "less"), ("LessEq", "lessEq"), ("Like", "like"), ("List", "list"), ("Literal", "literal"),
   ("Must", "noop"), ("MustNot", "basicWrap(Not)"), ("Not", "basicWrap(Not)"), ("Or", "basicCompound(Or)"),
   ("Range", "rang"), ("Regexp", "literal"), ("Wild", "literal")]
theorem sharedFn_ok : optIs Generated.sharedFn modelSharedFn = true := by decide

/-- the keys of driver.Shared / NewPostgresDriver().RenderFNs are exactly the operators the model's table answers for;
    in particular there is no entry for Fuzzy, Boost (C15) -/
theorem sharedKeys_ok : Generated.sharedKeys = (Op.all.filter (fun o => (sharedFns o).isSome)).map Op.num := by decide
theorem postgresKeys_ok : Generated.postgresKeys = (Op.all.filter (fun o => (pgFns o).isSome)).map Op.num := by decide

def modelNoParen : List String := ["Range", "Not", "List", "In", "Literal", "Must", "MustNot"]
theorem noParenOpsRender_ok : optIs Generated.noParenOpsRender modelNoParen = true := by decide
theorem noParenOpsRenderParam_ok : optIs Generated.noParenOpsRenderParam modelNoParen = true := by decide
theorem parenOps_table (o : Op) : parenOps o = !modelNoParen.contains o.goName := by cases o <;> decide

theorem simpleOps_ok : optIs Generated.simpleOps ["Undefined", "Literal", "Regexp", "Wild"] = true := by decide

end GoLucene
