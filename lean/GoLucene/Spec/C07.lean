import GoLucene.Model.Sem
import GoLucene.Proofs.Jux
/-
  C07 — juxtaposition means AND, with AND's precedence.

  Reading (DESIGN §4 F-b): "operands that may be written with nothing but whitespace between them" are exactly
  two adjacent *term tokens* (the parser accepts no other operand adjacency).  Stated over ALL token sequences,
  not only printed trees: wherever two term tokens are adjacent — after any prefix `u`, before any continuation
  `v`, whatever operators surround them — writing an explicit AND token between them gives the identical
  result of `lucene.Parse` (identical tree, or rejection in both cases), with or without a default field.
-/
namespace GoLucene.C07

/-- the explicit AND token -/
def andTok : Tok := ⟨.tand, [65, 78, 68]⟩

/-- C07 on the whole pipeline after lexing: shift/reduce run, constructor semantics, default field, Validate. -/
theorem juxtaposition_means_and (env : Env) (df : Bytes) (u : List Tok) (t1 t2 : Tok) (v : List Tok)
    (h1 : t1.typ.isTerm = true) (h2 : t2.typ.isTerm = true) :
    parseTokens env df (u ++ t1 :: t2 :: v) = parseTokens env df (u ++ t1 :: andTok :: t2 :: v) := by
  unfold parseTokens
  rw [juxtaposition_eq_and (isNumOf env df) u t1 andTok t2 v h1 rfl h2]

/-- any spelling of the keyword will do: only the token type matters -/
theorem juxtaposition_means_and_any_spelling (env : Env) (df : Bytes) (u : List Tok) (t1 a t2 : Tok) (v : List Tok)
    (h1 : t1.typ.isTerm = true) (ha : a.typ = .tand) (h2 : t2.typ.isTerm = true) :
    parseTokens env df (u ++ t1 :: t2 :: v) = parseTokens env df (u ++ t1 :: a :: t2 :: v) := by
  unfold parseTokens
  rw [juxtaposition_eq_and (isNumOf env df) u t1 a t2 v h1 ha h2]

/-- non-vacuity: the hypotheses are met by ordinary tokens -/
example : (⟨.literal, [97]⟩ : Tok).typ.isTerm = true ∧ (⟨.quoted, [34, 98, 34]⟩ : Tok).typ.isTerm = true := by decide

end GoLucene.C07
