import GoLucene.Proofs.QuotedVerbatim
import GoLucene.Proofs.EscapedVerbatim
import GoLucene.Spec.Classes
/-
  C08 — quoting and escaping deliver values verbatim.

  QUOTING clause (Proofs/QuotedVerbatim.lean): for every text `w` without a double quote (arbitrary bytes), `f:"w"` —
  and the bare query `"w"` with default field `f` — parse to exactly Equals(Column f, Literal w); for valid-UTF-8 NUL-free
  `w` PostgreSQL's scanner and grammar read the inline SQL as the comparison of column `f` with the constant `w`; the
  parameterized form is `"f" = ?` with the single parameter `w`.

  ESCAPING clause (Proofs/EscapedVerbatim.lean): `escapeWord env w` writes a backslash before every rune of `w` that is
  not a letter / digit / `_` (and before the first rune when `w` is a keyword or starts with `-`).  For every non-empty
  `w` that contains no `*`, `?` and is not numeric-looking (`escapable`), `f:<escapeWord w>` parses to exactly
  Equals(Column f, Literal w), with the same SQL corollaries.  Backslashes in `w` are fine since fix F13 (parse.go
  `unescape`): `escapeWord` writes `\\` for each, and `unescape (escapeWord env w) = w` for every text
  (`unescape_escapeWord`); `a:a\\b` is the value `a\b` (`escaped_backslash_kept`; the former finding K-escape-backslash
  is closed).  `escaped_tree_iff` gives the EXACT domain of the clause (`escapableX`), so every condition is necessary;
  where the clause is false the refutations are theorems and recorded findings: K-escape-wild (`a:b\*` stays a pattern
  with the backslash kept), K-dangling-escape (`a:b\` at the end of the input drops the backslash).

  The class-table hypotheses (`quoteColonNotAlnum`, `escHyp`) are discharged for every table that agrees with the live
  `unicode.IsLetter` / `IsDigit` on ASCII (Spec/Classes.lean, regenerated tables).
-/
namespace GoLucene.C08
open GoLucene.EscapedVerbatim GoLucene.QuotedVerbatim

/-- the escaping clause, all hypotheses decidable -/
theorem escaped_word_is_verbatim (env : Env) (hk : escHypB env.cls = true) (f : Bytes) (hf : plainField env f = true)
    (w : Bytes) (hw : escapable env w = true) :
    parseQuery env (f ++ b ":" ++ escapeWord env w) [] =
        .ok (Expr.mk (.expr (lit (.prim (.col f)))) .equals (.expr (lit (.prim (.str w)))) F64.one 1) ∧
    (validUtf8 w = true → (∀ c ∈ w, c ≠ 0) →
      render pgFns (tree f w) = fnInfix " = " ([34] ++ f ++ [34]) (sqlQuote w) ∧
      ∃ t, render pgFns (tree f w) = .ok t ∧ Sql.parseSql t = some (.cmp .eq (.col f) (.str w))) ∧
    renderParam pgFns (tree f w) = .ok ([34] ++ f ++ [34] ++ b " = ?", [.str w]) :=
  escaped_verbatim_main env hk f hf w hw

/-- fix F13: `unescape` (parse.go) inverts the escaping, on every text `w` whatsoever -/
theorem unescape_inverts_escapeWord (env : Env) (hk : escHypB env.cls = true) (w : Bytes) :
    unescape (escapeWord env w) = w :=
  unescape_escapeWord env (escHyp_of_B _ hk).2.1 w

end GoLucene.C08
