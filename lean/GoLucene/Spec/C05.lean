import GoLucene.Model.Sem
import GoLucene.Proofs.Full5
/-
  C05 — operator precedence, associativity and grouping follow the documented table.

  `Ft` (Proofs/Full.lean) is the type of syntax trees over the whole printed grammar: terms, `f:v`, `f=v`,
  `f:(E)` (value lists live here), the four comparisons, ranges with any bracket combination,
  AND, OR, NOT, `+`, `-`, `~[n]`, `^[n]`, and a `paren` node for redundant parentheses around any operand, any
  field value and the whole query.  `fpp T` prints `T` as a token list with parentheses exactly where the table
  OR < AND < NOT < ^ < ~ < - < + (binary operators left-associative) requires them; `fsem T` is the tree of
  reductions the printed text denotes.  The theorem: parsing the printed tokens gives back exactly that tree —
  on the whole pipeline: `lucene.Parse` returns what the public constructors build for `T` (`finalize`), for every
  tree, of any depth, with or without a default field.

  Hypothesis `T.ok`: leaves are term tokens, and an explicit fuzzy distance / boost power is a token that the
  reducers accept as a number (`isNumOf`), e.g. `2`, `2.5`.
-/
namespace GoLucene.C05

theorem print_parse_roundtrip (env : Env) (df : Bytes) (T : Ft) (hT : T.ok (isNumOf env df)) :
    parseTokens env df (fpp T) = finalize env df (fsem T) := by
  unfold parseTokens
  rw [roundtripF (isNumOf env df) T hT]

/-- `a:b OR c:d AND e:f` groups the AND first -/
example (a bb c d e f : Tok) :
    fsem (.or (.eq a false bb) (.and (.eq c false d) (.eq e false f)))
      = Ex.or (.eq (.leaf a) (.leaf bb)) (.and (.eq (.leaf c) (.leaf d)) (.eq (.leaf e) (.leaf f))) := rfl
example (a bb c d e f : Tok) :
    (fpp (.or (.eq a false bb) (.and (.eq c false d) (.eq e false f)))).map (·.typ)
      = [a.typ, .colon, bb.typ, .tor, c.typ, .colon, d.typ, .tand, e.typ, .colon, f.typ] := by
  simp [fpp, paren, Ft.lvl, tk]

/-- `NOT a AND b` negates only a -/
example (a bb : Tok) : (fpp (.and (.not (.leaf a)) (.leaf bb))).map (·.typ) = [.tnot, a.typ, .tand, bb.typ] := by
  simp [fpp, paren, Ft.lvl, tk]

/-- an OR under an AND needs parentheses -/
example (a bb c : Tok) :
    (fpp (.and (.or (.leaf a) (.leaf bb)) (.leaf c))).map (·.typ)
      = [.lparen, a.typ, .tor, bb.typ, .rparen, .tand, c.typ] := by
  simp [fpp, paren, Ft.lvl, tk, lp, rp]

/-- non-vacuity of the hypothesis: a tree with every kind of node satisfies `ok` once its number token does -/
example (isNum : Bool → Ex → Bool) (two : Tok) (h2 : two.typ.isTerm = true) (hn : isNum true (.leaf two) = true) :
    (Ft.fuzzy (.not (.and (.leaf ⟨.literal, [97]⟩) (.range ⟨.literal, [98]⟩ ⟨.literal, [49]⟩ ⟨.literal, [50]⟩ .sq .cu))) (some two)).ok isNum := by
  simp only [Ft.ok, optOK]
  exact ⟨⟨by decide, by decide, by decide, by decide⟩, h2, hn⟩

end GoLucene.C05
