import GoLucene.Proofs.NoPanic
import GoLucene.Proofs.CodecShape
import GoLucene.Proofs.MarshalShape
/-
  C13 — decoding untrusted JSON is safe, and validation guards rendering.

  `unmarshalTop data` is the model of `json.Unmarshal(data, &expression)` for ARBITRARY bytes (Model/JsonCodec.lean
  on top of the model of encoding/json's text layer).
  * `decode_never_panics` — decoding any byte sequence returns a value or an error, never a panic;
  * `decoded_is_wellformed` — everything the decoder builds satisfies the shared invariant `wfTree` (lists and range
    boundaries hold only leaf expressions, pattern nodes over raw values hold strings);
  * `validated_decoded_is_safe` — if a decoded expression passes Validate then String(), the %#v form, Render and
    RenderParam return normally; JSON re-encoding never panics for any tree (`reencode_never_panics`).
  `validate_alone_is_not_enough` records why the decoder's invariant is part of the statement: trees that pass
  Validate but cannot come out of the decoder (built through the constructor API) do panic the renderers.
-/
namespace GoLucene.C13

theorem decode_never_panics (data : Bytes) : unmarshalTop data ≠ .panic := unmarshalTop_no_panic data

theorem decoded_is_wellformed (data : Bytes) (e : Expr) (h : unmarshalTop data = .ok e) : wfTree e = true :=
  unmarshalTop_wf data e h

theorem validated_decoded_is_safe (data : Bytes) (e : Expr) (h : unmarshalTop data = .ok e) (hv : validateExpr e = true)
    (ip : Nat → Bool) (verbose : Bool) :
    strE ip verbose e ≠ .panic ∧ render pgFns e ≠ .panic ∧ renderParam pgFns e ≠ .panic :=
  NoPanic.unmarshal_no_panic data e h hv ip verbose

theorem reencode_never_panics (e : Expr) : marshalExpr e ≠ .panic := marshalExpr_no_panic e

end GoLucene.C13
