import GoLucene.Proofs.JsonRoundTrip
import GoLucene.Proofs.Laws
import GoLucene.Proofs.JsonSql
import GoLucene.TableCheck
/-
  C12 — JSON encoding of expressions round-trips.

  `marshalExpr` / `unmarshalTop` (Model/JsonCodec.lean) model MarshalJSON / UnmarshalJSON on top of the JSON text layer
  (Model/Json.lean) and the number layer (Model/Num.lean).  `retype e` is the tree the decoder rebuilds: leaf kinds are
  re-inferred from the text (a string with * or ? becomes a pattern, a /slash-delimited/ string a regexp, an
  integer-valued float an int), a -0 float becomes the int 0, range bounds pass through float64, boost/fuzzy are kept
  only on Boost/Fuzzy nodes.

  Proved for EVERY tree of the parser's shape that validates (`semShapeT e ∧ validateExpr e`, plus executable side
  conditions on strings and ints): decoding the encoding succeeds and gives exactly `retype e`; `retype` is idempotent;
  the decoded tree validates, re-encodes to the identical bytes and prints identically, each under an explicit
  decidable exclusion that is proved NECESSARY by a refutation theorem with a concrete tree:
    noNegZeroLeaf      (finding K-negzero:           a:-0.0)
    noBigIntBound      (finding K-json-bigint-bound: a:[1 TO 9007199254740993]; also integer-valued FLOAT bounds
                        beyond 2^53: a:[1 TO 4611686018427387904.0])
    depthOK            (the encoding nests at most 10000 arrays / objects: the limit of encoding/json's scanner;
                        beyond it real Go's Marshal fails and the model's decoder rejects the text)
    printStable        (finding K-json-float-exp:    a:1000000.0 prints a:1e+06 before and a:1000000 after)
    fieldsCanon, likeKindOK (trees the parser never builds)
  and it is deep-equal to the original when `kindStable e` (every leaf has the kind the decoder infers from its text).

  (The first version of these theorems took the law bundles as hypotheses; while proving them two fields turned out to
  be FALSE of the model — no depth bound, and integer-valued float bounds beyond 2^53 — i.e. the bundles were
  unsatisfiable and the theorems vacuous.  The statements were repaired (`depthOK`, float bounds in `noBigIntBound`)
  and `Laws.valid_enc_unbounded_false`, `Laws.int_text_bound_unbounded_false`, `Laws.decode_needs_depth`,
  `reencode_needs_noBigFloatBound` record the refutations.)

  HYPOTHESES about the two modelled stdlib layers are bundled in `JsonLaws`, `NumLaws`, `NumLaws2`, `FmtLaws`
  (e.g. "parsing the text of an int64 gives it back", "a JSON object text parses to its members"): they are
  statements about the executable definitions in Model/Json.lean and Model/Num.lean, and all of them are PROVED from
  those definitions in Proofs/Laws.lean (`Laws.jsonLaws`, `Laws.numLaws`, `Laws.numLaws2`, `Laws.fmtLaws`; the
  law-free forms of the theorems below are `Laws.roundtrip_decodes`, `Laws.roundtrip_full`, `Laws.retype_idem`), so
  they are no longer part of the trusted base of C12 (the layers themselves are validated against Go's encoding/json
  and strconv by `bin/check layers`).  The SQL clause (Proofs/JsonSql.lean): the decoded tree renders the IDENTICAL
  parameterized SQL text with no exclusion at all (parameter values change kind only: 5.0 → 5), and the identical
  inline SQL under `printNumOK` (the same exclusion as printing), each clause of which is proved necessary
  (`render_needs_*` = findings K-json-float-exp, K-negzero, K-json-bigint-bound, K-json-bigfloat-bound);
  quoted `*` / `/slash/` kind changes do not alter the SQL (`quoted_star_same_sql`, `quoted_slash_same_sql`).
-/
namespace GoLucene.C12
open GoLucene.JsonRoundTrip GoLucene.Json GoLucene.NoPanic

/-- decoding the encoding of a parser-shaped validated tree succeeds and yields `retype e` (no law hypotheses) -/
theorem decode_of_encode (e : Expr) (hs : semShapeT e = true) (hv : validateExpr e = true)
    (hsv : allStringsValid e = true) (hi : intsInt64 e = true) (hdp : depthOK e = true)
    (j : Bytes) (h : marshalExpr e = .ok j) :
    unmarshalTop j = .ok (retype e) :=
  Laws.roundtrip_decodes e hs hv hsv hi hdp j h

/-- the whole round trip over trees: decodes, validates, identical bytes, identical print, deep-equal when kinds are stable -/
theorem roundtrip (ip : Nat → Bool) (e : Expr)
    (hs : semShapeT e = true) (hv : validateExpr e = true) (hsv : allStringsValid e = true) (hi : intsInt64 e = true)
    (hdp : depthOK e = true) (hc : fieldsCanon e = true) (hlk : likeKindOK e = true) (hz : noNegZeroLeaf e = true) (hb : noBigIntBound e = true)
    (hp : printStable e = true) (j : Bytes) (h : marshalExpr e = .ok j) :
    ∃ e', unmarshalTop j = .ok e' ∧ e' = retype e ∧ validateExpr e' = true ∧ marshalExpr e' = .ok j ∧
      strE ip false e' = strE ip false e ∧ (kindStable e = true → e' = e) :=
  Laws.roundtrip_full ip e hs hv hsv hi hdp hc hlk hz hb hp j h

/-- decoding twice changes nothing more -/
theorem retype_idempotent (e : Expr) : retype (retype e) = retype e := Laws.retype_idem e

/-- C12 over QUERIES: for every valid-UTF-8 query that Parse accepts (and whose tree is within encoding/json's nesting
    limit), decoding the encoding succeeds, gives `retype e`, which validates; it re-encodes to the identical bytes
    unless the tree has a -0 float leaf or a range bound beyond 2^53; prints identically unless it has an
    integer-valued float that prints in exponent form; and is deep-equal to the original when every leaf has the kind
    the decoder infers from its text. -/
theorem query_roundtrip (ip : Nat → Bool) (env : Env)
    (s df : Bytes) (hs : validUtf8 s = true) (hdf : validUtf8 df = true)
    (e : Expr) (h : parseQuery env s df = .ok e) (hdp : depthOK e = true) (j : Bytes) (hm : marshalExpr e = .ok j) :
    ∃ e', unmarshalTop j = .ok e' ∧ e' = retype e ∧ validateExpr e' = true ∧
      (noNegZeroLeaf e = true → noBigIntBound e = true → marshalExpr e' = .ok j) ∧
      (JsonParse.printNumOK e = true → strE ip false e' = strE ip false e) ∧
      (kindStable e = true → e' = e) ∧ (env.cls.slashNotAlnum → JsonParse.leavesStable e = true → e' = e) :=
  Laws.query_roundtrip ip env s df hs hdf e h hdp j hm

/-- C12 over queries INCLUDING the SQL clauses -/
theorem query_roundtrip_with_sql (ip : Nat → Bool) (env : Env)
    (s df : Bytes) (hs : validUtf8 s = true) (hdf : validUtf8 df = true)
    (e : Expr) (h : parseQuery env s df = .ok e) (hdp : depthOK e = true) (j : Bytes) (hm : marshalExpr e = .ok j) :
    ∃ e', unmarshalTop j = .ok e' ∧ e' = retype e ∧ validateExpr e' = true ∧
      (noNegZeroLeaf e = true → noBigIntBound e = true → marshalExpr e' = .ok j) ∧
      (JsonParse.printNumOK e = true → strE ip false e' = strE ip false e) ∧
      (JsonParse.printNumOK e = true → render pgFns e' = render pgFns e) ∧
      JsonSql.sqlOf (renderParam pgFns e') = JsonSql.sqlOf (renderParam pgFns e) ∧
      JsonSql.PRel JsonSql.paramRel (renderParam pgFns e) (renderParam pgFns e') ∧
      (kindStable e = true → e' = e) ∧ (env.cls.slashNotAlnum → JsonParse.leavesStable e = true → e' = e) :=
  JsonSql.query_roundtrip_sql ip env s df hs hdf e h hdp j hm

end GoLucene.C12
