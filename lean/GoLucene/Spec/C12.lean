import GoLucene.Proofs.JsonRoundTrip
import GoLucene.TableCheck
/-
  C12 — JSON encoding of expressions round-trips.

  `marshalExpr` / `unmarshalTop` (Model/JsonCodec.lean) model MarshalJSON / UnmarshalJSON on top of the JSON text layer
  (Model/Json.lean) and the number layer (Model/Num.lean).  `retype e` is the tree the decoder rebuilds: leaf kinds are
  re-inferred from the text (a string with * or ? becomes a pattern, a /slash-delimited/ string a regexp, an
  integer-valued float an int), a -0 float becomes the int 0, range bounds pass through float64, boost/fuzzy are kept
  only on Boost/Fuzzy nodes.

  Proved for EVERY tree of the parser's shape that validates (`semShapeT e ∧ validateExpr e`, plus executable side
  conditions on strings and ints): decoding the encoding succeeds and gives exactly `retype e`; `retype` is idempotent;
  the decoded tree validates, re-encodes to the identical bytes and prints identically, each under an explicit
  decidable exclusion that is proved NECESSARY by a refutation theorem with a concrete tree:
    noNegZeroLeaf      (finding K-negzero:           a:-0.0)
    noBigIntBound      (finding K-json-bigint-bound: a:[1 TO 9007199254740993])
    printStable        (finding K-json-float-exp:    a:1000000.0 prints a:1e+06 before and a:1000000 after)
    fieldsCanon, likeKindOK (trees the parser never builds)
  and it is deep-equal to the original when `kindStable e` (every leaf has the kind the decoder infers from its text).

  HYPOTHESES about the two modelled stdlib layers are bundled in `JsonLaws`, `NumLaws`, `NumLaws2`, `FmtLaws`
  (e.g. "parsing the text of an int64 gives it back", "a JSON object text parses to its members"): they are
  statements about the executable definitions in Model/Json.lean and Model/Num.lean; until they are proved from those
  definitions they are part of the trusted base of C12 (the layers themselves are validated against Go's
  encoding/json and strconv by `bin/check layers`).  NOT proved: identity of the inline / parameterized SQL of the
  decoded tree (decided by the executable check on every explored query).
-/
namespace GoLucene.C12
open GoLucene.JsonRoundTrip GoLucene.Json GoLucene.NoPanic

/-- decoding the encoding of a parser-shaped validated tree succeeds and yields `retype e` -/
theorem decode_of_encode (J : JsonLaws) (N : NumLaws) (e : Expr) (hs : semShapeT e = true) (hv : validateExpr e = true)
    (hsv : allStringsValid e = true) (hi : intsInt64 e = true) (j : Bytes) (h : marshalExpr e = .ok j) :
    unmarshalTop j = .ok (retype e) :=
  roundtrip_decodes J N e hs hv hsv hi j h

/-- the whole round trip: decodes, validates, identical bytes, identical print, deep-equal when kinds are stable -/
theorem roundtrip (J : JsonLaws) (N : NumLaws) (F : FmtLaws) (ip : Nat → Bool) (e : Expr)
    (hs : semShapeT e = true) (hv : validateExpr e = true) (hsv : allStringsValid e = true) (hi : intsInt64 e = true)
    (hc : fieldsCanon e = true) (hlk : likeKindOK e = true) (hz : noNegZeroLeaf e = true) (hb : noBigIntBound e = true)
    (hp : printStable e = true) (j : Bytes) (h : marshalExpr e = .ok j) :
    ∃ e', unmarshalTop j = .ok e' ∧ e' = retype e ∧ validateExpr e' = true ∧ marshalExpr e' = .ok j ∧
      strE ip false e' = strE ip false e ∧ (kindStable e = true → e' = e) :=
  roundtrip_full J N F ip e hs hv hsv hi hc hlk hz hb hp j h

/-- decoding twice changes nothing more -/
theorem retype_idempotent (N : NumLaws) (N2 : NumLaws2) (F : FmtLaws) (e : Expr) : retype (retype e) = retype e :=
  (roundtrip_stable N N2 F e).1

end GoLucene.C12
