import GoLucene.Proofs.NoPanic
import GoLucene.Proofs.SemTotal
import GoLucene.Proofs.RunInv
import GoLucene.Spec.C10
import GoLucene.Proofs.PrintClean
import GoLucene.Proofs.MarshalOk
import GoLucene.Proofs.MarshalShape
import GoLucene.Proofs.Cost
/-
  C01 — parsing and rendering are total: no panic, no hang, no garbled output.

  * No hang: every function of the model is total (structural, fuel, or well-founded recursion accepted by Lean);
    the main loop's measure `3·|tokens| + |stack|` strictly decreases (`reduce_len`: a successful reduce strictly shrinks
    the stack and leaves it non-empty), so the loop runs at most `3·|tokens| + 1` iterations for ANY input —
    the model's statement of "polynomial time".  Since the sixth phase this is an explicit COST theorem
    (Proofs/Cost.lean): `runCost` threads a step counter through the very recursion of `runW` (`runT_eq`: the instrumented
    run returns the model's result AND `runCost`), counting every loop iteration and every reducer attempt
    (`reduce.Reduce` trying the reducers on one more suffix of the stack); `parse_steps_quadratic` bounds it by
    `6·(tokens+1)²` using only "a successful reduce shrinks the stack", `parse_steps_linear` by `26·bytes + 35` using
    that no handle is longer than 7 items.  What a step costs in Go (a reducer walking its operand:
    `isChainedOrLiterals`, `String()` in fuzzy / boost — linear in the operand) and the wall clock are measured on the
    implementation (10^4-token adversarial shapes under a watchdog), not proved.
  * No panic in Parse: `parse_never_panics` for every byte string and default field.  The two totalised list
    operations of the parser model (`List.drop` on the non-terminal stack, `headD` for its top) coincide with Go's
    slice and index expressions because the stack invariant holds in every reachable configuration
    (`nts_never_underflows`).
  * No panic downstream: for every expression Parse returns, String(), GoString(), Render and RenderParam (hence
    ToPostgres and ToParameterizedPostgres) do not panic (`parse_result_never_panics`), and JSON encoding never panics
    for any tree at all (`marshal_no_panic`).
  * No garbled output: `strE_clean` (Proofs/PrintClean.lean) — when present in the obligations of this property.
-/
namespace GoLucene.C01

/-- Parse never panics: every byte string, every default field -/
theorem parse_never_panics (env : Env) (s df : Bytes) : parseQuery env s df ≠ .panic :=
  parseQuery_no_panic env s df

/-- what Parse returns never panics the printers and the two SQL renderers -/
theorem parse_result_never_panics (env : Env) (s df : Bytes) (e : Expr) (h : parseQuery env s df = .ok e)
    (ip : Nat → Bool) (verbose : Bool) :
    strE ip verbose e ≠ .panic ∧ render pgFns e ≠ .panic ∧ renderParam pgFns e ≠ .panic :=
  NoPanic.parse_no_panic env s df e h ip verbose

/-- the loop measure: a successful reduce strictly shrinks the stack and leaves it non-empty -/
theorem reduce_makes_progress (isNum : Bool → Ex → Bool) (c c' : Cfg) (h : reduce isNum c = some c') :
    c'.stack.length < c.stack.length ∧ 1 ≤ c'.stack.length :=
  reduce_len isNum c c' h

/-- in every reachable parser configuration the non-terminal stack is non-empty and a reduce never drops more
    non-terminals than there are above the start marker (Go's `nonTerminals[len-1]` and `stack[:len-k]` are in range) -/
theorem nts_never_underflows (isNum : Bool → Ex → Bool) {c : Cfg} {toks : List Tok} (h : Reach isNum c toks) :
    c.nts ≠ [] ∧ ∀ st k, reduceLoop isNum c.stack [] = some (st, k) → k < c.nts.length :=
  ⟨reach_nts_ne_nil isNum h, fun st k hk => (reach_reduce_bound isNum h st k hk).1⟩

/-- no garbled output: String() and the %#v form of everything Parse returns come back normally and clean
    (no formatting-error marker, no recovered panic) -/
theorem parse_result_prints_clean (env : Env) (s df : Bytes) (e : Expr) (h : parseQuery env s df = .ok e)
    (ip : Nat → Bool) (verbose : Bool) : ∃ t, strE ip verbose e = .ok ⟨t, true⟩ := by
  unfold parseQuery parseTokens at h
  split at h
  · cases h
  · rename_i ex _
    exact strE_clean ip verbose e (C10.finalize_shape env df ex e h).1

/-- JSON encoding never panics, for any tree -/
theorem marshal_never_panics (e : Expr) : marshalExpr e ≠ .panic := marshalExpr_no_panic e

/-- the number of loop iterations and reducer attempts of the parser's control flow, for every byte string and default
    field, is at most quadratic in the input length — by the termination argument alone -/
theorem parse_steps_quadratic (env : Env) (df s : Bytes) :
    Cost.runCost (isNumOf env df) ⟨[], [.start]⟩ (tokensOf env s) ≤ 6 * (s.length + 2) ^ 2 :=
  Cost.parseQuery_cost_poly env df s

/-- … and in fact linear (no reducer handle is longer than seven items) -/
theorem parse_steps_linear (env : Env) (df s : Bytes) :
    Cost.runCost (isNumOf env df) ⟨[], [.start]⟩ (tokensOf env s) ≤ 26 * s.length + 35 :=
  Cost.parseQuery_cost_linear env df s

/-- the counter counts THIS run: the instrumented run is the model's run paired with `runCost` -/
theorem steps_are_the_runs (isNum : Bool → Ex → Bool) (c : Cfg) (toks : List Tok) :
    Cost.runT isNum c toks = (runW isNum c toks, Cost.runCost isNum c toks) :=
  Cost.runT_eq isNum _ c toks rfl

/-- non-vacuity: a concrete run and its step count (`a:b c:d`, the implicit-AND path, is in Proofs/Cost.lean) -/
example (isNum : Bool → Ex → Bool) : 1 ≤ Cost.runCost isNum ⟨[], [.start]⟩ [] := Cost.runCost_pos _ _ _

end GoLucene.C01
