import GoLucene.Proofs.Der3
import GoLucene.Proofs.LexTypes
import GoLucene.Proofs.DerTerm
import GoLucene.Proofs.Fuel
/-
  C06 — every accepted query's tree is a derivation of the text that was typed.

  `Der : List Tok → Ex → Prop` (Proofs/Der.lean) is the documented grammar written as an inductive relation,
  independently of the reducers: term; E:E and E=E; field:>E, >=, <, <=; field:[E TO E] with any combination of
  square and curly brackets; (E); +E; -E; NOT E; E~, E~E, E^, E^E; E AND E; E OR E; juxtaposition.
  The theorem: whenever `lucene.Parse` accepts, the tree of reductions it built is a derivation of exactly the
  token sequence of the input, and the returned expression is the constructor semantics (`finalize`) of that
  tree.  Corollary: the leaves of the tree, left to right, are exactly the term tokens of the input in order —
  Parse never drops, duplicates, reorders or invents query content.

  What the constructor layer then does with the tree (validation of field positions, range bounds being terms,
  typed leaves via parseLiteral) is part of `finalize`; the shape of its result is C10's theorem.
-/
namespace GoLucene.C06

/-- soundness on token lists -/
theorem accepted_is_derivation (env : Env) (df : Bytes) (toks : List Tok) (e : Expr)
    (hne : ∀ t ∈ toks, t.typ ≠ .eof) (h : parseTokens env df toks = .ok e) :
    ∃ ex : Ex, Der toks ex ∧ finalize env df ex = .ok e := by
  unfold parseTokens at h
  split at h
  · cases h
  · rename_i ex hp
    exact ⟨ex, parse_sound (isNumOf env df) toks ex hne hp, h⟩

/-- … and for every input string: the tokens are those of the real lexer -/
theorem accepted_query_is_derivation (env : Env) (s df : Bytes) (e : Expr) (h : parseQuery env s df = .ok e) :
    ∃ ex : Ex, Der (tokensOf env s) ex ∧ finalize env df ex = .ok e :=
  accepted_is_derivation env df (tokensOf env s) e (tokensOf_no_eof env s) h

/-- every term token is exactly one leaf, in order; nothing in the tree lacks a source token -/
theorem leaves_are_the_terms (env : Env) (s df : Bytes) (e : Expr) (h : parseQuery env s df = .ok e) :
    ∃ ex : Ex, finalize env df ex = .ok e ∧ ex.leaves = terms (tokensOf env s) := by
  obtain ⟨ex, hd, hf⟩ := accepted_query_is_derivation env s df e h
  exact ⟨ex, hf, Der_leaves hd⟩

/-- an input with a lexical error is never accepted: the error token has no production -/
theorem no_derivation_with_error (toks : List Tok) (ex : Ex) (h : Der toks ex) : ∀ t ∈ toks, t.typ ≠ .err := by
  induction h with
  | leaf t h => intro x hx; simp at hx; subst hx; cases ht : x.typ <;> simp_all [TT.isTerm]
  | paren o c ho hc _ ih => intro x hx; simp at hx; rcases hx with rfl | hx | rfl <;> simp_all
  | and o ho _ _ ih1 ih2 => intro x hx; simp at hx; rcases hx with hx | rfl | hx <;> simp_all
  | jux _ _ ih1 ih2 => intro x hx; simp at hx; rcases hx with hx | hx <;> simp_all
  | or o ho _ _ ih1 ih2 => intro x hx; simp at hx; rcases hx with hx | rfl | hx <;> simp_all
  | eq o ho _ _ ih1 ih2 =>
    intro x hx; simp at hx
    rcases hx with hx | rfl | hx
    · exact ih1 x hx
    · rcases ho with h | h <;> simp [h]
    · exact ih2 x hx
  | cmp o p gt ho hp _ _ ih1 ih2 =>
    intro x hx; simp at hx
    rcases hx with hx | rfl | rfl | hx
    · exact ih1 x hx
    · simp [ho]
    · cases gt <;> simp [hp]
    · exact ih2 x hx
  | cmpEq o p q gt ho hp hq _ _ ih1 ih2 =>
    intro x hx; simp at hx
    rcases hx with hx | rfl | rfl | rfl | hx
    · exact ih1 x hx
    · simp [ho]
    · cases gt <;> simp [hp]
    · simp [hq]
    · exact ih2 x hx
  | range o lb to rb incl ho hlb hto hrb hincl _ _ _ ih1 ih2 ih3 =>
    intro x hx; simp at hx
    rcases hx with hx | rfl | rfl | hx | rfl | hx | rfl
    · exact ih1 x hx
    · simp [ho]
    · rcases hlb with h | h <;> simp [h]
    · exact ih2 x hx
    · simp [hto]
    · exact ih3 x hx
    · rcases hrb with h | h <;> simp [h]
  | not o ho _ ih => intro x hx; simp at hx; rcases hx with rfl | hx <;> simp_all
  | must o ho _ ih => intro x hx; simp at hx; rcases hx with rfl | hx <;> simp_all
  | mustNot o ho _ ih => intro x hx; simp at hx; rcases hx with rfl | hx <;> simp_all
  | fuzzy0 o ho _ ih => intro x hx; simp at hx; rcases hx with hx | rfl <;> simp_all
  | fuzzy1 o ho _ _ ih1 ih2 => intro x hx; simp at hx; rcases hx with hx | rfl | hx <;> simp_all
  | boost0 o ho _ ih => intro x hx; simp at hx; rcases hx with hx | rfl <;> simp_all
  | boost1 o ho _ _ ih1 ih2 => intro x hx; simp at hx; rcases hx with hx | rfl | hx <;> simp_all

/-- FULL-STRENGTH statement: the grammar `DerT` allows juxtaposition only where a term token ends the left part and a
    term token starts the right part (`( a ) b` and `a ~ b` are NOT juxtapositions).  Every accepted token list is a
    `DerT` derivation. -/
theorem accepted_is_term_derivation (env : Env) (df : Bytes) (toks : List Tok) (e : Expr)
    (hne : ∀ t ∈ toks, t.typ ≠ .eof) (h : parseTokens env df toks = .ok e) :
    ∃ ex : Ex, DerT toks ex ∧ finalize env df ex = .ok e := by
  unfold parseTokens at h
  split at h
  · cases h
  · rename_i ex hp
    exact ⟨ex, parse_soundT (isNumOf env df) toks ex hne hp, h⟩

/-- … for every input string -/
theorem accepted_query_is_term_derivation (env : Env) (s df : Bytes) (e : Expr) (h : parseQuery env s df = .ok e) :
    ∃ ex : Ex, DerT (tokensOf env s) ex ∧ finalize env df ex = .ok e :=
  accepted_is_term_derivation env df (tokensOf env s) e (tokensOf_no_eof env s) h

/-- non-vacuity: `a:b` is accepted by the grammar -/
example : Der [⟨.literal, [97]⟩, ⟨.colon, [58]⟩, ⟨.literal, [98]⟩] (.eq (.leaf ⟨.literal, [97]⟩) (.leaf ⟨.literal, [98]⟩)) :=
  Der.eq (a := [⟨.literal, [97]⟩]) (b := [⟨.literal, [98]⟩]) ⟨.colon, [58]⟩ (Or.inl rfl) (Der.leaf _ rfl) (Der.leaf _ rfl)

end GoLucene.C06
