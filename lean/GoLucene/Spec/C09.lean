import GoLucene.Model.Sem
import GoLucene.Proofs.RespaceBytes
import GoLucene.Proofs.KeywordCase
import GoLucene.Spec.C05
/-
  C09 — layout does not change meaning.

  (W) Whitespace.  `whitespace_free`: take any Go string `bs`; let `segs` be its tokens with the whitespace the
      lexer skipped before each (`lexCells`), `tw` the trailing whitespace, `rest` the unread rest after a lexical
      error.  Re-fill every gap with any whitespace (`gs`, `tw'`; space, tab, CR, LF), keeping an interior gap
      non-empty when it was non-empty — extra whitespace anywhere, leading and trailing whitespace free.  Then the
      new string gives `lucene.Parse` exactly the same outcome: identical tree, or failure in both cases — for every
      default field.  Hypotheses, each shown necessary by a concrete input:
        * `hdang` — the recorded finding K-dangling-escape: an input whose last token ends in a dangling backslash
          (`a\`) swallows appended whitespace (`a\ ` is the word `a\ `);
        * `herr` — when lexing stops at an offending character the whitespace in front of it is a gap like any other
          (`a .` is a lexical error, `a.` is one word);
        * `k.wsNotAlnum` — no whitespace rune is a letter or a digit (true of unicode.IsLetter / IsDigit).
  (K) Keyword case.  `keyword_case`: a word that differs from AND / OR / NOT / TO only by ASCII letter case is the
      same keyword (`keywordOf_case`, `word_case`), and the parser never looks at the text of a keyword or symbol
      token (`parse_ignores_keyword_text`): replacing those texts changes nothing in the outcome.
  (P) Redundant parentheses around the whole query, around an operand of an explicitly written operator and around
      a field's value are the `paren` nodes of C05's theorem (`GoLucene.C05.print_parse_roundtrip`): `fsem (.paren e) =
      fsem e`, so the variant parses to the identical tree.
-/
namespace GoLucene.C09

/-- the token stream handed to the parser depends only on the tokens and on how lexing ended -/
theorem tokensOf_eq (env : Env) (s s' : Bytes)
    (h1 : (lexAll env.cls (decode s')).1.map (·.2) = (lexAll env.cls (decode s)).1.map (·.2))
    (h2 : (lexAll env.cls (decode s')).2.1 = (lexAll env.cls (decode s)).2.1) :
    tokensOf env s' = tokensOf env s := by
  unfold tokensOf
  simp only [h1, h2]

/-- (W) whitespace between tokens is free -/
theorem whitespace_free (env : Env) (hk : env.cls.wsNotAlnum) (df : Bytes) (bs : Bytes)
    (segs : List Seg) (e : End) (tw rest : List Cell) (h : lexCells env.cls (decode bs) = (segs, e, tw, rest))
    (gs : List (List Cell)) (tw' : List Cell)
    (hlen : gs.length = segs.length)
    (hgs : ∀ g ∈ gs, ∀ c ∈ g, wsCell c)
    (hkeep : ∀ (i : Nat) (h : i < segs.length) (h' : i < gs.length), 0 < i → segs[i].ws ≠ [] → gs[i] ≠ [])
    (htw : ∀ c ∈ tw', wsCell c)
    (herr : e = .err → segs ≠ [] → tw ≠ [] → tw' ≠ [])
    (hdang : e = .eof → dangling env.cls segs = true → tw' = []) :
    parseQuery env (cellsBytes (layout segs gs tw' rest)) df = parseQuery env bs df := by
  have hb := respace_bytes env.cls hk bs segs e tw rest h gs tw' hlen hgs hkeep htw herr hdang
  unfold parseQuery
  rw [tokensOf_eq env bs _ hb.2.1 hb.2.2.1]

/-- (K) the parser never looks at the text of a keyword or symbol token -/
theorem parse_ignores_keyword_text (env : Env) (df : Bytes) (toks toks' : List Tok)
    (hlen : toks'.length = toks.length)
    (htyp : ∀ (i : Nat) (h : i < toks.length) (h' : i < toks'.length), toks'[i].typ = toks[i].typ)
    (hval : ∀ (i : Nat) (h : i < toks.length) (h' : i < toks'.length),
      toks[i].typ.isTerm = true → toks'[i].val = toks[i].val) :
    parseTokens env df toks' = parseTokens env df toks := by
  unfold parseTokens
  rw [parseToks_ignores_keyword_text (isNumOf env df) toks toks' hlen htyp hval]

/-- (K) a word is the same keyword in every ASCII letter case -/
theorem keyword_case (v v' : Bytes) (h : sameUpToCase v v' = true) : keywordOf v = keywordOf v' :=
  keywordOf_case v v' h

example : keywordOf (b "and") = some .tand ∧ keywordOf (b "Or") = some .tor ∧ keywordOf (b "nOT") = some .tnot ∧
    keywordOf (b "to") = some .tto ∧ keywordOf (b "andy") = none := by decide

/-- (P) a redundant pair of parentheses denotes the same tree -/
theorem parens_transparent (e : Ft) : fsem (.paren e) = fsem e := rfl

end GoLucene.C09
