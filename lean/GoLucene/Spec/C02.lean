import GoLucene.Proofs.SqlText
import GoLucene.Proofs.SqlWide
import GoLucene.Proofs.SqlQuery
import GoLucene.Proofs.SqlQueryX
/-
  C02 — the rendered SQL is one confined boolean expression; user text only in literals.

  `SqlText.render_parses`: for every tree of the filterable fragment outside the recorded finding classes
  (`cleanFilter`), whose texts are renderable (`textClean`: valid UTF-8, no NUL, no `"` in field names) and whose
  AND/OR/NOT nesting is at most 2990 (`depthOK`; PostgreSQL's parser stack), the model of PostgreSQL's scanner and
  expression grammar reads the rendered TEXT as exactly the one predicate `toAst e` — one boolean expression, nothing
  before or after it, no comment, no second statement.  `parsed_cols_consts`: every column reference of that predicate
  is a field of the query and every constant is a value of the query (verbatim, or its * → %, ? → _ translation for a
  LIKE pattern, or its %.2f text for a float range bound): user text never reaches SQL syntax.
  `render_parses_iff` is the exact form (the text is rejected precisely when the parser stack would overflow) and
  `need_depth` shows the depth hypothesis cannot be dropped.

  WIDE FORM (Proofs/SqlWide*.lean).  Confinement does not need the semantic exclusions of `cleanFilter`:
  `confinedFilter` also admits every shape of the recorded C03 / C04 findings (exclusive / open / quoted-* string
  ranges, any finite float bounds (two-sided or open: since fix F12 `f:[* TO 0.001]` is `"f" <= 0.00`), mixed-kind
  bounds, ints beyond int64, `[* TO *]`, LIKE with `%` `_` and
  metacharacters, field names of any length, numbers or strings in field position, bare terms as whole query or
  operand).  `render_parses_wide`: PostgreSQL reads the rendered text as exactly the one predicate `toAstW e`
  (`toAstW_extends`: it is `toAst e` on the clean fragment); `confined_cols_consts`: its columns are fields and its
  constants are values of the query (verbatim, LIKE translation, or the %d / %.2f text of what strconv reads from the
  value).  The PARAMETERIZED text is covered too: `render_parses_param` (PostgreSQL reads it as `toAstP e` with
  placeholders `$1 … $n` in order, n = number of parameters: `param_numbers`), `param_cols_consts` (the only constants
  are placeholders, `'*'` and 0; placeholders occur only in value positions; every parameter is a value of the query).
  Rendering fails on fuzzy / boost (`render_fuzzy`, `render_boost`) and on a comma in a range bound (`range_comma_err`),
  so C02 is vacuous there.  Refutations (hand-built / decoded trees only — the parser never builds them since fix F4):
  non-finite floats print as bare words (`nan_not_confined`, `inf_not_confined`), a raw NUL string value skips the
  literal check (`raw_nul_rejected`), an empty IN list is a syntax error (`empty_in_rejected`).

  OVER QUERIES (Proofs/SqlQuery.lean, SqlQueryX.lean), with NO hypothesis on the tree: for every query `lucene.Parse`
  accepts, whenever the inline renderer succeeds and the nesting (including value nesting `a:(a:(…))`) stays within
  PostgreSQL's parser stack, PostgreSQL reads the text as exactly one predicate `toAstX e` whose columns are fields and
  whose constants are values of the query (`query_confined_full`).  The shapes beyond `confinedFilter` are exactly the
  sub-query values (`a:(b AND c)` renders `"a" = ('b' AND 'c')`: still one predicate over the query's fields and
  values — `grouped_value_outside`, `query_confined_iff`).  For the parameterized renderer the only exclusion is
  "fields are columns" (`query_confined_param_full`), necessary by `numeric_field_query` (finding K-numfield-range
  through the whole parser: `5:[1 TO 2]` gives `? >= ? AND ? <= ?` with three parameters).  `query_floats_finite`: the
  parser never builds a non-finite float leaf (fix F4).

  Still outside a theorem: hand-built trees with an expression in field or value position, columns as patterns or
  bounds, nesting beyond PostgreSQL's stack (use the exact `_iff` forms) — decided by the executable specification
  `specC02` on every explored implementation output.
-/
namespace GoLucene.C02
open GoLucene.SqlMeaning GoLucene.SqlText GoLucene.Sql

/-- PostgreSQL reads the rendered text as exactly the intended single predicate -/
theorem rendered_text_is_one_predicate (e : Expr) (t : Bytes) (hc : cleanFilter e = true) (ht : textClean e = true)
    (hd : depthOK e = true) (hr : render pgFns e = .ok t) : parseSql t = toAst e :=
  render_parses e t hc ht hd hr

/-- provenance: columns are the query's fields, constants are the query's values -/
theorem user_text_only_in_literals (e : Expr) (t : Bytes) (a : Ast) (hc : cleanFilter e = true) (ht : textClean e = true)
    (hr : render pgFns e = .ok t) (hp : parseSql t = some a) :
    (∀ c ∈ cols a, Prim.col c ∈ leaves e) ∧ (∀ k ∈ consts a, ∃ q ∈ leaves e, k ∈ rendersOf q) :=
  parsed_cols_consts e t a hc ht hr hp

/-- WIDE: the same for every tree of the confined fragment (all recorded finding shapes included) -/
theorem rendered_text_is_one_predicate_wide (e : Expr) (t : Bytes) (hc : SqlWide.confinedFilter e = true)
    (ht : SqlWide.textWide e = true) (hd : depthOK e = true) (hr : render pgFns e = .ok t) :
    parseSql t = SqlWide.toAstW e :=
  SqlWide.render_parses_wide e t hc ht hd hr

theorem user_text_only_in_literals_wide (e : Expr) (t : Bytes) (a : Ast) (hc : SqlWide.confinedFilter e = true)
    (ht : SqlWide.textWide e = true) (hr : render pgFns e = .ok t) (hp : parseSql t = some a) :
    (∀ c ∈ cols a, Prim.col c ∈ leaves e) ∧ (∀ k ∈ consts a, ∃ q ∈ leaves e, k ∈ SqlWide.rendersOfW q) :=
  SqlWide.confined_cols_consts e t a hc ht hr hp

/-- the PARAMETERIZED text: one predicate with placeholders $1 … $n, n = number of parameters -/
theorem parameterized_text_is_one_predicate (e : Expr) (sqlP : Bytes) (ps : List Prim)
    (hc : SqlWide.confinedParam e = true) (ht : SqlWide.textParam e = true) (hd : depthOK e = true)
    (hr : renderParam pgFns e = .ok (sqlP, ps)) :
    parseSql sqlP = SqlWide.toAstP e ∧ SqlWide.paramsP e = some ps :=
  SqlWide.render_parses_param e sqlP ps hc ht hd hr

/-- C02 over QUERIES, no hypothesis on the tree: accepted ∧ rendered ∧ within PostgreSQL's stack ⇒ one confined predicate -/
theorem accepted_query_renders_one_confined_predicate (env : Env) (s df : Bytes) (e : Expr) (t : Bytes)
    (h : parseQuery env s df = .ok e) (hr : render pgFns e = .ok t) (hd : SqlQueryX.depthOKX e = true) :
    parseSql t = SqlQueryX.toAstX e ∧ (∃ a, parseSql t = some a) ∧ ∀ a, parseSql t = some a →
      (∀ c ∈ cols a, Prim.col c ∈ leaves e) ∧ (∀ k ∈ consts a, ∃ q ∈ leaves e, k ∈ SqlWide.rendersOfW q) :=
  SqlQueryX.query_confined_full env s df e t h hr hd

end GoLucene.C02
