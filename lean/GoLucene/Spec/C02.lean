import GoLucene.Proofs.SqlText
/-
  C02 — the rendered SQL is one confined boolean expression; user text only in literals.

  `SqlText.render_parses`: for every tree of the filterable fragment outside the recorded finding classes
  (`cleanFilter`), whose texts are renderable (`textClean`: valid UTF-8, no NUL, no `"` in field names) and whose
  AND/OR/NOT nesting is at most 2990 (`depthOK`; PostgreSQL's parser stack), the model of PostgreSQL's scanner and
  expression grammar reads the rendered TEXT as exactly the one predicate `toAst e` — one boolean expression, nothing
  before or after it, no comment, no second statement.  `parsed_cols_consts`: every column reference of that predicate
  is a field of the query and every constant is a value of the query (verbatim, or its * → %, ? → _ translation for a
  LIKE pattern, or its %.2f text for a float range bound): user text never reaches SQL syntax.
  `render_parses_iff` is the exact form (the text is rejected precisely when the parser stack would overflow) and
  `need_depth` shows the depth hypothesis cannot be dropped.

  Outside `cleanFilter` (fuzzy / boost: rendering fails; the shapes of the recorded findings; hand-built trees) the
  confinement clause is decided by the executable specification `specC02` on every explored implementation output.
-/
namespace GoLucene.C02
open GoLucene.SqlMeaning GoLucene.SqlText GoLucene.Sql

/-- PostgreSQL reads the rendered text as exactly the intended single predicate -/
theorem rendered_text_is_one_predicate (e : Expr) (t : Bytes) (hc : cleanFilter e = true) (ht : textClean e = true)
    (hd : depthOK e = true) (hr : render pgFns e = .ok t) : parseSql t = toAst e :=
  render_parses e t hc ht hd hr

/-- provenance: columns are the query's fields, constants are the query's values -/
theorem user_text_only_in_literals (e : Expr) (t : Bytes) (a : Ast) (hc : cleanFilter e = true) (ht : textClean e = true)
    (hr : render pgFns e = .ok t) (hp : parseSql t = some a) :
    (∀ c ∈ cols a, Prim.col c ∈ leaves e) ∧ (∀ k ∈ consts a, ∃ q ∈ leaves e, k ∈ rendersOf q) :=
  parsed_cols_consts e t a hc ht hr hp

end GoLucene.C02
