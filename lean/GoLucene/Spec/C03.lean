import GoLucene.Proofs.SqlMeaning
import GoLucene.Proofs.SqlText
import GoLucene.Proofs.SqlQuery
/-
  C03 — inline SQL selects exactly the rows the query means (the structure theorem).

  `SqlMeaning.toAst : Expr → Option Sql.Ast` is the predicate the PostgreSQL renderer is meant to produce for an
  expression (written independently of the text renderer, over the AST of the PostgreSQL grammar model);
  `SqlEval.evalSql row a` is PostgreSQL's three-valued reading of that predicate on a row and `SqlEval.evalL row e` the
  query's own meaning (+x means x, -x means NOT x, numbers compare numerically, strings as strings, * and ? match any
  run / any one character).  `cleanFilter` is the decidable predicate "a tree of the filterable fragment outside every
  recorded finding class" (exclusive / open string ranges, float bounds needing more than two decimals, mixed-kind
  bounds, commas and quoted * in bounds, SIMILAR TO metacharacters in patterns, identifiers beyond 63 bytes …).
  Float ranges whose bounds have at most two decimals are INSIDE, two-sided (`x:{1.5 TO 2.25}`) and — since fix F12 of
  `toFloats` (finding K-range-float-open: `a:[* TO 1.5]` was rendered `"a" BETWEEN '*' AND 1.5`) — OPEN ones
  (`x:[* TO 1.5]` renders `"x" <= 1.50`, `x:{2.25 TO *}` renders `"x" > 2.25`); `open_float_range_example` below.

  Proved here for ALL such trees (any nesting depth) and ALL rows: the SQL predicate is true on exactly the rows on
  which the query is true; the predicate exists; and the text renderer succeeds on the tree.  The refutations
  (`need_*`) show each exclusion is necessary — they are the recorded findings, as theorems about the model.

  The link from the rendered TEXT to the predicate is `SqlText.render_parses` (PostgreSQL's scanner and grammar, as
  modelled, read `render pgFns e` as exactly `toAst e`, for trees nested at most 2990 deep), so the end-to-end statement
  `rendered_text_selects_what_the_query_means` below is about the SQL text itself.  What remains outside the theorem:
  trees in the recorded finding classes (refuted, see `need_*`), and the fidelity of the PostgreSQL model itself
  (validated against libpg_query; evaluation semantics as modelled).
-/
namespace GoLucene.C03
open GoLucene.SqlMeaning

/-- the SQL predicate of a clean filter tree is true on exactly the rows on which the query is true -/
theorem sql_selects_what_the_query_means (e : Expr) (a : Sql.Ast)
    (hc : cleanFilter e = true) (ha : toAst e = some a) (row : Row) : evalSql row a = evalL row e :=
  sql_means_query e a hc ha row

/-- … such a predicate exists for every clean filter tree -/
theorem sql_predicate_exists (e : Expr) (hc : cleanFilter e = true) : ∃ a, toAst e = some a :=
  toAst_total e hc

/-- … and ToPostgres' renderer succeeds on it -/
theorem render_succeeds (e : Expr) (hc : cleanFilter e = true) (ht : textClean e = true) :
    ∃ t, render pgFns e = .ok t :=
  toAst_renders e hc ht

/-- END TO END: PostgreSQL's reading of the rendered SQL text is true on exactly the rows on which the query is true -/
theorem rendered_text_selects_what_the_query_means (e : Expr) (t : Bytes) (hc : cleanFilter e = true)
    (ht : textClean e = true) (hd : SqlText.depthOK e = true) (hr : render pgFns e = .ok t) (row : Row) :
    (Sql.parseSql t).bind (evalSql row) = evalL row e :=
  SqlText.rendered_sql_means_query' e t hc ht hd hr row

/-- OVER QUERIES: for every accepted query whose tree is in the clean filter fragment, whenever ToPostgres' renderer
    succeeds, PostgreSQL's reading of the SQL text is true on exactly the rows on which the query is true (the
    renderability of the texts is derived from the success of the renderer) -/
theorem accepted_query_sql_selects_what_it_means (env : Env) (s df : Bytes) (e : Expr) (t : Bytes)
    (h : parseQuery env s df = .ok e) (hc : cleanFilter e = true) (hr : render pgFns e = .ok t)
    (hd : SqlText.depthOK e = true) (row : Row) :
    (Sql.parseSql t).bind (evalSql row) = evalL row e :=
  SqlQuery.query_sql_means_query env s df e t h hc hr hd row

/-- NON-VACUITY for open float ranges (fix F12): `x:[* TO 1.5]` is in the fragment, renders (as `"x" <= 1.50`), and
    PostgreSQL's reading of the text is true on exactly the rows on which the query is true -/
theorem open_float_range_example :
    cleanFilter exFloatUpTo = true ∧ render pgFns exFloatUpTo = .ok (b "\"x\" <= 1.50") ∧
    ∀ row : Row, (Sql.parseSql (b "\"x\" <= 1.50")).bind (evalSql row) = evalL row exFloatUpTo := by
  have hr : render pgFns exFloatUpTo = .ok (b "\"x\" <= 1.50") := by decide +kernel
  exact ⟨by decide +kernel, hr, fun row =>
    rendered_text_selects_what_the_query_means exFloatUpTo _ (by decide +kernel) (by decide +kernel)
      (by decide +kernel) hr row⟩

end GoLucene.C03

#print axioms GoLucene.C03.open_float_range_example
