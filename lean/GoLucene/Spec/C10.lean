import GoLucene.Proofs.WellFormed
/-
  C10 — results are all-or-nothing and accepted trees are well-formed.

  The all-or-nothing clause is a typing fact of the model (`Out Expr` is a value or an error); its Go half — named
  results returned as zero values on every error path — is tied on every explored input by the
  (e == nil, err == nil) observations of the correspondence check.  The shape clause is the theorem below:
  every expression `lucene.Parse` returns passes the package's own Validate AND the independent shape check
  `wellFormed` (Model/Shape.lean): field positions hold a single term, range bounds are single terms, value lists
  hold at least two plain values, unary operators have exactly one operand, pattern matches have a pattern on
  the right.  For every input string and every default field.
-/
namespace GoLucene.C10

/-- the parser shape survives the default-field edge case at accept -/
theorem finalize_shape (env : Env) (df : Bytes) (ex : Ex) (e : Expr) (h : finalize env df ex = .ok e) :
    semShape e = true ∧ validateExpr e = true := by
  unfold finalize at h
  cases hs : sem env df ex with
  | err => simp [hs, bind, Out.bind] at h
  | panic => simp [hs, bind, Out.bind] at h
  | ok e0 =>
    simp only [hs, bind, Out.bind] at h
    have s0 := sem_shape env df ex e0 hs
    split at h
    · rename_i hc
      simp only [Bool.and_eq_true, decide_eq_true_eq] at hc
      rw [mkExpr_wrapStr df e0 hc.1] at h
      simp only at h
      split at h
      · rename_i hv
        simp at h
        subst h
        refine ⟨?_, hv⟩
        simp [semShape, semNode, semShape_leaf _ (semLeaf_lit_col df), s0]
      · simp at h
    · split at h
      · rename_i hv
        simp at h
        subst h
        exact ⟨s0, hv⟩
      · simp at h

/-- every accepted token list yields a validated, well-formed tree -/
theorem parse_wellformed_tokens (env : Env) (df : Bytes) (toks : List Tok) (e : Expr)
    (h : parseTokens env df toks = .ok e) : validateExpr e = true ∧ wellFormed e = true := by
  unfold parseTokens at h
  split at h
  · cases h
  · rename_i ex _
    have := finalize_shape env df ex e h
    exact ⟨this.2, wellFormed_of_shape e this.1 this.2⟩

/-- C10 for every input string and default-field option -/
theorem parse_wellformed (env : Env) (s df : Bytes) (e : Expr) (h : parseQuery env s df = .ok e) :
    validateExpr e = true ∧ wellFormed e = true :=
  parse_wellformed_tokens env df (tokensOf env s) e h

/-- non-vacuity: the shape check accepts a range query's tree and rejects an expression as a range bound -/
example :
    wellFormed (.mk (.expr (lit (.prim (.col [97])))) .range
      (.bound (.expr (lit (.prim (.int 1)))) (.expr (lit (.prim (.int 5)))) true) F64.one 1) = true := by decide
example :
    wellFormed (.mk (.expr (lit (.prim (.col [97])))) .range
      (.bound (.expr (.mk (.expr (lit (.prim (.col [98])))) .equals (.expr (lit (.prim (.str [99])))) F64.one 1))
              (.expr (lit (.prim (.int 5)))) true) F64.one 1) = false := by decide

end GoLucene.C10
