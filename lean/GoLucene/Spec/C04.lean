import GoLucene.Proofs.Subst
import GoLucene.Proofs.SubstCount
import GoLucene.Proofs.ParamIndep
/-
  C04 — parameterized SQL agrees with inline SQL; all values travel as parameters.

  Proved for every result of `lucene.Parse` (`Subst.parse_C04`), under two decidable exclusions that are recorded
  findings (`noQuotedStarBound`: K-range-quoted-star; `rangesExact`: the range forms on which the two renderers
  legitimately print different text — float bounds `%.2f` (two-sided and open float ranges), mixed-kind bounds,
  numeric-looking field under a two-sided range; each refuted by a theorem with a concrete tree:
  `count_false_numeric_field`, `differ_int_str`, `differ_float`, `differ_star_float`):
    whenever the inline renderer succeeds, the parameterized renderer succeeds; its parameters are the query's values
    left to right with their kinds; the number of `?` outside quoted identifiers equals the number of parameters; and
    replacing those `?`, left to right, by the SQL literal texts of the parameters gives EXACTLY the inline SQL.
  `subst_template_renum` extends the substitution clause to numeric ranges up to re-formatting of the bound
  (`%d` / `%.2f` of the same number); since fix F12 of `toFloats` (finding K-range-float-open: `a:[* TO 1.5]` was
  rendered `"a" BETWEEN '*' AND 1.5` inline) this includes EVERY open range with a finite float end
  (`endsRenum_star_float`, `endsRenum_float_star`, `agree_star_float`).
  `param_count` proves the count clause from the parameterized renderer alone.
-/
namespace GoLucene.C04
open GoLucene.Subst GoLucene.ParamAgree

/-- all clauses of C04 for a parse result -/
theorem parameterized_agrees_with_inline (env : Env) (hk : env.cls.slashNotAlnum) (s df : Bytes) (e : Expr)
    (h : parseQuery env s df = .ok e) (hq : noQuotedStarBound e = true) (hr : rangesExact e = true)
    (sqlI : Bytes) (hI : render pgFns e = .ok sqlI) :
    ∃ sqlP ps, renderParam pgFns e = .ok (sqlP, ps) ∧ ps = treeValues false (.expr e) ∧
      countQ false sqlP = ps.length ∧ substQ false sqlP (ps.map litText) = some sqlI :=
  parse_C04 env hk s df e h hq hr sqlI hI

/-- without any range node there is no exclusion at all (well-formed validated trees, not only parse results) -/
theorem substitution_without_ranges (e : Expr) (hw : wfTree e = true) (hv : validateExpr e = true) (hn : noRange e = true)
    (sqlI sqlP : Bytes) (ps : List Prim) (hI : render pgFns e = .ok sqlI) (hP : renderParam pgFns e = .ok (sqlP, ps)) :
    ∃ tm : Tmpl, sqlP = fillQ tm ∧ holes tm = ps.length ∧ fillV tm (ps.map litText) = some sqlI :=
  subst_no_range e hw hv hn sqlI sqlP ps hI hP

/-- VALUE INDEPENDENCE: two well-formed validated trees of the same shape (same operators, columns, inclusivity, open
    range ends, list lengths; at each value leaf a value of the same kind — strings / numbers; for LIKE the same
    /slash/ class of the pattern) give the IDENTICAL parameterized SQL text and equally many parameters.
    `ParamIndep.need_openEnd` shows the open-end clause of the shape is necessary (finding K-range-quoted-star seen from
    this side: `a:["*" TO 5]` vs `a:["b" TO 5]`). -/
theorem parameterized_sql_is_value_independent (e1 e2 : Expr) (hw1 : wfTree e1 = true) (hv1 : validateExpr e1 = true)
    (hw2 : wfTree e2 = true) (hv2 : validateExpr e2 = true) (h : ParamIndep.sameShape e1 e2 = true)
    (sql1 : Bytes) (ps1 : List Prim) (sql2 : Bytes) (ps2 : List Prim)
    (h1 : renderParam pgFns e1 = .ok (sql1, ps1)) (h2 : renderParam pgFns e2 = .ok (sql2, ps2)) :
    sql1 = sql2 ∧ ps1.length = ps2.length :=
  ParamIndep.param_sql_value_independent e1 e2 hw1 hv1 hw2 hv2 h sql1 ps1 sql2 ps2 h1 h2

/-- the substitution clause up to the re-formatting of numeric range ends (`Renum`: the literal text, or the text
    re-read by strconv and re-printed with `%d` / `%.2f`), under `rangesRenum`; covers float ranges, and since fix F12
    open float ranges -/
theorem substitution_up_to_reformatting (env : Env) (s df : Bytes) (e : Expr) (h : parseQuery env s df = .ok e)
    (hr : rangesRenum e = true) (sqlI sqlP : Bytes) (ps : List Prim) (hI : render pgFns e = .ok sqlI)
    (hP : renderParam pgFns e = .ok (sqlP, ps)) :
    ∃ vs, Rel2 Renum ps vs ∧ substQ false sqlP vs = some sqlI ∧ countQ false sqlP = ps.length :=
  parse_subst_renum env s df e h hr sqlI sqlP ps hI hP

/-- every open range with a finite float end is admitted by `rangesRenum` (fix F12) -/
theorem open_float_range_admitted (hf : Bool) (f : F64) (h : f.isFinite = true) :
    endsRenum hf (.str (b "*")) (.flt f) = true ∧ endsRenum hf (.flt f) (.str (b "*")) = true :=
  ⟨endsRenum_star_float hf f h, endsRenum_float_star hf f h⟩

end GoLucene.C04
