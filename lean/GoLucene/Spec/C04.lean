import GoLucene.Proofs.Subst
import GoLucene.Proofs.SubstCount
/-
  C04 — parameterized SQL agrees with inline SQL; all values travel as parameters.

  Proved for every result of `lucene.Parse` (`Subst.parse_C04`), under two decidable exclusions that are recorded
  findings (`noQuotedStarBound`: K-range-quoted-star; `rangesExact`: the range forms on which the two renderers
  legitimately print different text — float bounds `%.2f`, mixed-kind bounds, open float ranges, numeric-looking field
  under a two-sided range; each refuted by a theorem with a concrete tree: `count_false_numeric_field`,
  `differ_int_str`, `differ_float`, `differ_star_float`):
    whenever the inline renderer succeeds, the parameterized renderer succeeds; its parameters are the query's values
    left to right with their kinds; the number of `?` outside quoted identifiers equals the number of parameters; and
    replacing those `?`, left to right, by the SQL literal texts of the parameters gives EXACTLY the inline SQL.
  `subst_template_renum` extends the substitution clause to numeric ranges up to re-formatting of the bound
  (`%d` / `%.2f` of the same number); `param_count` proves the count clause from the parameterized renderer alone.
-/
namespace GoLucene.C04
open GoLucene.Subst GoLucene.ParamAgree

/-- all clauses of C04 for a parse result -/
theorem parameterized_agrees_with_inline (env : Env) (hk : env.cls.slashNotAlnum) (s df : Bytes) (e : Expr)
    (h : parseQuery env s df = .ok e) (hq : noQuotedStarBound e = true) (hr : rangesExact e = true)
    (sqlI : Bytes) (hI : render pgFns e = .ok sqlI) :
    ∃ sqlP ps, renderParam pgFns e = .ok (sqlP, ps) ∧ ps = treeValues false (.expr e) ∧
      countQ false sqlP = ps.length ∧ substQ false sqlP (ps.map litText) = some sqlI :=
  parse_C04 env hk s df e h hq hr sqlI hI

/-- without any range node there is no exclusion at all (well-formed validated trees, not only parse results) -/
theorem substitution_without_ranges (e : Expr) (hw : wfTree e = true) (hv : validateExpr e = true) (hn : noRange e = true)
    (sqlI sqlP : Bytes) (ps : List Prim) (hI : render pgFns e = .ok sqlI) (hP : renderParam pgFns e = .ok (sqlP, ps)) :
    ∃ tm : Tmpl, sqlP = fillQ tm ∧ holes tm = ps.length ∧ fillV tm (ps.map litText) = some sqlI :=
  subst_no_range e hw hv hn sqlI sqlP ps hI hP

end GoLucene.C04
