import GoLucene.Model.Sem
import GoLucene.Model.Driver
import GoLucene.Model.JsonCodec
/-
  C14 — pure, deterministic and safe for concurrent use (PARTIAL: what a functional model can carry).

  The *session machine*: the state is a pool of shared expression values; an operation either parses a query
  (adding its result to the pool) or applies one of the read-only consumers (Render, RenderParam, String, %#v,
  json.Marshal, Validate) to a pool entry.  In the model every API call is a function of its arguments, so:

  * `consumers_preserve_pool` — rendering, printing, validating or encoding never modifies the pool;
  * `output_history_free`     — the output of an operation depends on the operation and on the value it is applied
                                to, not on what ran before;
  * `interleaving_eq_sequential` — for every interleaving of the operation sequences of several threads over a shared
                                pool of already-parsed expressions, each thread observes exactly the outputs it would
                                observe running alone.
  These statements are almost definitional: their content is the claim that THIS is the right model of the Go API —
  no hidden package state, no mutation of shared values — and that claim is what the `session` check tests on the
  implementation: the same calls from 16 goroutines on shared `*Expression` values and the shared package-level
  driver, under the race detector, each result compared with the result of that call alone (which in turn is compared
  with the model), and every shared value deep-compared before and after.
  What the model cannot exhibit: a data race inside one call (the parameter slices edited in place by RenderParam are
  fresh per call in the modelled code; a change that shares them is what the race run is there to catch).
-/
namespace GoLucene.C14

inductive Op
  | parse (s df : Bytes)
  | render (i : Nat)
  | renderParam (i : Nat)
  | string (i : Nat)
  | goString (i : Nat)
  | marshal (i : Nat)
  | validate (i : Nat)

inductive Obs
  | parsed (r : Out Expr)
  | text (r : Out Bytes)
  | sqlParams (r : Out (Bytes × List Prim))
  | printed (r : Out PT)
  | valid (b : Bool)
  | noSuchEntry

abbrev Pool := List Expr

def Op.readOnly : Op → Bool
  | .parse _ _ => false
  | _ => true

/-- the observation an operation makes on a pool -/
def observe (env : Env) (pool : Pool) : Op → Obs
  | .parse s df => .parsed (parseQuery env s df)
  | .render i => match pool[i]? with | some e => .text (render pgFns e) | none => .noSuchEntry
  | .renderParam i => match pool[i]? with | some e => .sqlParams (renderParam pgFns e) | none => .noSuchEntry
  | .string i => match pool[i]? with | some e => .printed (e.string env.isPrint) | none => .noSuchEntry
  | .goString i => match pool[i]? with | some e => .printed (e.goString env.isPrint) | none => .noSuchEntry
  | .marshal i => match pool[i]? with | some e => .text (marshalExpr e) | none => .noSuchEntry
  | .validate i => match pool[i]? with | some e => .valid (validateExpr e) | none => .noSuchEntry

/-- one step of the session machine: a successful parse adds its expression to the pool, nothing else changes it -/
def step (env : Env) (pool : Pool) (op : Op) : Pool × Obs :=
  match op with
  | .parse s df =>
    (match parseQuery env s df with
     | .ok e => (pool ++ [e], .parsed (.ok e))
     | r => (pool, .parsed r))
  | op => (pool, observe env pool op)

/-- rendering, printing, validating or encoding an expression never modifies it (nor anything else in the pool) -/
theorem consumers_preserve_pool (env : Env) (pool : Pool) (op : Op) (h : op.readOnly = true) :
    (step env pool op).1 = pool := by
  cases op <;> simp_all [step, Op.readOnly]

/-- the output of an operation is a function of the operation and the pool: no history, no hidden state -/
theorem output_history_free (env : Env) (pool : Pool) (op : Op) : (step env pool op).2 = observe env pool op := by
  cases op with
  | parse s df => simp only [step, observe]; cases parseQuery env s df <;> rfl
  | _ => rfl

/-- run a sequence of read-only operations, collecting the observations -/
def runAll (env : Env) (pool : Pool) : List Op → List Obs
  | [] => []
  | op :: rest => (step env pool op).2 :: runAll env (step env pool op).1 rest

theorem runAll_readOnly (env : Env) (pool : Pool) : ∀ ops : List Op, (∀ op ∈ ops, op.readOnly = true) →
    runAll env pool ops = ops.map (observe env pool)
  | [], _ => rfl
  | op :: rest, h => by
    have h1 := h op (by simp)
    simp only [runAll, List.map_cons, output_history_free, consumers_preserve_pool env pool op h1]
    rw [runAll_readOnly env pool rest (fun o ho => h o (by simp [ho]))]

/-- an interleaving of two threads: which thread moves at each step -/
def interleave : List Bool → List Op → List Op → List (Bool × Op)
  | true :: sched, a :: as, bs => (true, a) :: interleave sched as bs
  | false :: sched, as, b :: bs => (false, b) :: interleave sched as bs
  | _ :: sched, as, bs => interleave sched as bs
  | [], _, _ => []

/-- the observations thread `who` makes along a tagged run -/
def observedBy (env : Env) (pool : Pool) (who : Bool) : List (Bool × Op) → List Obs
  | [] => []
  | (t, op) :: rest =>
    let r := step env pool op
    (if t = who then [r.2] else []) ++ observedBy env r.1 who rest

theorem observedBy_readOnly (env : Env) (pool : Pool) (who : Bool) :
    ∀ run : List (Bool × Op), (∀ x ∈ run, x.2.readOnly = true) →
      observedBy env pool who run = ((run.filter (fun x => x.1 = who)).map (fun x => observe env pool x.2))
  | [], _ => rfl
  | (t, op) :: rest, h => by
    have h1 := h (t, op) (by simp)
    simp only [observedBy, output_history_free, consumers_preserve_pool env pool op h1]
    rw [observedBy_readOnly env pool who rest (fun x hx => h x (by simp [hx]))]
    by_cases ht : t = who <;> simp [ht, List.filter_cons]

/-- for EVERY schedule: each thread running read-only operations on a shared pool observes exactly what it would
    observe running alone — whatever the other thread does in between -/
theorem interleaving_eq_sequential (env : Env) (pool : Pool) (who : Bool) (run : List (Bool × Op))
    (h : ∀ x ∈ run, x.2.readOnly = true) :
    observedBy env pool who run = runAll env pool ((run.filter (fun x => x.1 = who)).map (·.2)) := by
  rw [observedBy_readOnly env pool who run h, runAll_readOnly]
  · simp [List.map_map, Function.comp_def]
  · intro op hop
    simp only [List.mem_map, List.mem_filter] at hop
    obtain ⟨x, ⟨hx, _⟩, rfl⟩ := hop
    exact h x hx

/-- Parse itself is a function of its arguments: two calls with the same input give the same result, whatever the pool -/
theorem parse_deterministic (env : Env) (p1 p2 : Pool) (s df : Bytes) :
    (step env p1 (.parse s df)).2 = (step env p2 (.parse s df)).2 := by
  simp only [output_history_free, observe]

end GoLucene.C14
