import GoLucene.TableCheck
import GoLucene.Proofs.QuotedVerbatim
import GoLucene.Proofs.LexSlash
import GoLucene.Proofs.EscapedVerbatim
/-
  The hypotheses some theorems put on the character-class table (`quoteColonNotAlnum` for C08, `slashNotAlnum` for the
  pattern facts of C04) are discharged here for every table that agrees on ASCII with the live `unicode.IsLetter` /
  `unicode.IsDigit` (Generated.asciiLetters / asciiDigits, regenerated on every run; the table `modeld` runs with is
  dumped from the same functions).
-/
namespace GoLucene

theorem agreesAscii_quoteColon (k : Cls) (h : k.agreesAscii) : k.quoteColonNotAlnum :=
  ⟨agreesAscii_structural k h 34 (by decide), agreesAscii_structural k h 58 (by decide)⟩

theorem agreesAscii_slash (k : Cls) (h : k.agreesAscii) : k.slashNotAlnum :=
  agreesAscii_structural k h 47 (by decide)

theorem agreesAscii_ws (k : Cls) (h : k.agreesAscii) : k.wsNotAlnum := by
  intro r hr
  have hr' : r = 32 ∨ r = 9 ∨ r = 13 ∨ r = 10 := by
    simp only [isWs, Bool.or_eq_true, decide_eq_true_eq] at hr
    omega
  have hlt : r < 128 := by omega
  obtain ⟨hl, hd⟩ := h r hlt
  rw [hl, hd]
  rcases hr' with rfl | rfl | rfl | rfl <;> decide

theorem agreesAscii_escHyp (k : Cls) (h : k.agreesAscii) : k.escHyp :=
  ⟨agreesAscii_structural k h 58 (by decide), agreesAscii_structural k h 92 (by decide), agreesAscii_ws k h⟩

end GoLucene
