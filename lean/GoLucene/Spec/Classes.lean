import GoLucene.TableCheck
import GoLucene.Proofs.QuotedVerbatim
import GoLucene.Proofs.LexSlash
/-
  The hypotheses some theorems put on the character-class table (`quoteColonNotAlnum` for C08, `slashNotAlnum` for the
  pattern facts of C04) are discharged here for every table that agrees on ASCII with the live `unicode.IsLetter` /
  `unicode.IsDigit` (Generated.asciiLetters / asciiDigits, regenerated on every run; the table `modeld` runs with is
  dumped from the same functions).
-/
namespace GoLucene

theorem agreesAscii_quoteColon (k : Cls) (h : k.agreesAscii) : k.quoteColonNotAlnum :=
  ⟨agreesAscii_structural k h 34 (by decide), agreesAscii_structural k h 58 (by decide)⟩

theorem agreesAscii_slash (k : Cls) (h : k.agreesAscii) : k.slashNotAlnum :=
  agreesAscii_structural k h 47 (by decide)

end GoLucene
