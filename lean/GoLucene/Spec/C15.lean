import GoLucene.Model.Driver
/-
  C15 — custom drivers: Render folds the tree with exactly the supplied functions.

  `render fns e` (Model/Driver.lean) is the model of `driver.Base{RenderFNs: fns}.Render(e)`; it is by
  definition the catamorphism the property describes: both children are serialised first (left, then right),
  each is wrapped in parentheses exactly when the operator is outside the exclusion list and the child is not
  simple, and the function registered for the node's operator is applied to the two texts.  That this IS the Go
  code is what the `render` correspondence op checks with tracing maps.  The theorems below are the consequences
  the property names, for ALL function maps and ALL trees (any depth):

  * `fold_equation`      — the defining equation, stated outright;
  * `override_local`     — replacing one operator's function changes nothing on trees without that operator;
  * `missing_fn_fails`   — if some node's operator has no function, Render does not return a result;
  * `shared_has_no_fuzzy_boost`, `postgres_fails_on_fuzzy_boost` — the built-in table deliberately has no entry for
    Fuzzy and Boost, so ToPostgres fails on every tree containing one (the parameterized renderer likewise, on
    validated trees: `param_fails_on_fuzzy_boost`).
-/
namespace GoLucene.C15

mutual
/-- does the operator occur anywhere in the value? -/
def nodeHasOp (o : Op) : Node → Bool
  | .nil => false
  | .prim _ => false
  | .expr e => exprHasOp o e
  | .list es => listHasOp o es
  | .bound mn mx _ => nodeHasOp o mn || nodeHasOp o mx
def exprHasOp (o : Op) : Expr → Bool
  | .mk l o' r _ _ => o' == o || nodeHasOp o l || nodeHasOp o r
def listHasOp (o : Op) : ExprList → Bool
  | .nil => false
  | .cons e t => exprHasOp o e || listHasOp o t
end

/-- the function map with one entry replaced -/
def update (fns : Fns) (o : Op) (g : Option RenderFn) : Fns := fun o' => if o' = o then g else fns o'

/-- the fold equation: children first (left, then right), parentheses by the fixed rule, then the operator's function -/
theorem fold_equation (fns : Fns) (l r : Node) (o : Op) (p : F64) (d : Int) :
    render fns (.mk l o r p d) =
      (match serialize fns l with
       | .err => .err
       | .panic => .panic
       | .ok left =>
         match serialize fns r with
         | .err => .err
         | .panic => .panic
         | .ok right =>
           match fns o with
           | none => .err
           | some fn => fn (if parenOps o && !isSimple l then parenB left else left)
                           (if parenOps o && !isSimple r then parenB right else right)) := by
  rw [render]
  cases serialize fns l <;> try rfl

mutual
theorem override_node (fns : Fns) (o : Op) (g : Option RenderFn) :
    ∀ n : Node, nodeHasOp o n = false → serialize (update fns o g) n = serialize fns n
  | .nil, _ => by simp [serialize]
  | .prim p, _ => by cases p <;> simp [serialize]
  | .expr e, h => by
    simp only [serialize]
    exact override_expr fns o g e (by simpa [nodeHasOp] using h)
  | .list es, h => by
    simp only [serialize]
    rw [override_list fns o g es (by simpa [nodeHasOp] using h)]
  | .bound mn mx incl, h => by
    simp only [nodeHasOp, Bool.or_eq_false_iff] at h
    simp only [serialize]
    rw [override_node fns o g mn h.1, override_node fns o g mx h.2]
theorem override_expr (fns : Fns) (o : Op) (g : Option RenderFn) :
    ∀ e : Expr, exprHasOp o e = false → render (update fns o g) e = render fns e
  | .mk l o' r p d, h => by
    simp only [exprHasOp, Bool.or_eq_false_iff, beq_eq_false_iff_ne, ne_eq] at h
    obtain ⟨⟨h1, h2⟩, h3⟩ := h
    simp only [render]
    rw [override_node fns o g l h2, override_node fns o g r h3]
    simp [update, h1]
theorem override_list (fns : Fns) (o : Op) (g : Option RenderFn) :
    ∀ es : ExprList, listHasOp o es = false → serializeList (update fns o g) es = serializeList fns es
  | .nil, _ => by simp [serializeList]
  | .cons e t, h => by
    simp only [listHasOp, Bool.or_eq_false_iff] at h
    simp only [serializeList]
    rw [override_expr fns o g e h.1, override_list fns o g t h.2]
end

/-- replacing one operator's function changes the output only on trees containing that operator -/
theorem override_local (fns : Fns) (o : Op) (g : RenderFn) (e : Expr) (h : exprHasOp o e = false) :
    render (update fns o (some g)) e = render fns e :=
  override_expr fns o (some g) e h

mutual
theorem missing_node (fns : Fns) (o : Op) (ho : fns o = none) :
    ∀ n : Node, nodeHasOp o n = true → (serialize fns n).isOk = false
  | .nil, h => by simp [nodeHasOp] at h
  | .prim _, h => by simp [nodeHasOp] at h
  | .expr e, h => by
    simp only [serialize]
    exact missing_expr fns o ho e (by simpa [nodeHasOp] using h)
  | .list es, h => by
    have := missing_list fns o ho es (by simpa [nodeHasOp] using h)
    simp only [serialize]
    cases hs : serializeList fns es <;> simp_all [Out.isOk]
  | .bound mn mx incl, h => by
    simp only [nodeHasOp, Bool.or_eq_true] at h
    simp only [serialize]
    cases h1 : serialize fns mn with
    | err => simp [Out.isOk]
    | panic => simp [Out.isOk]
    | ok smin =>
      cases h2 : serialize fns mx with
      | err => simp [Out.isOk]
      | panic => simp [Out.isOk]
      | ok smax =>
        rcases h with h | h
        · have := missing_node fns o ho mn h; simp [h1, Out.isOk] at this
        · have := missing_node fns o ho mx h; simp [h2, Out.isOk] at this
theorem missing_expr (fns : Fns) (o : Op) (ho : fns o = none) :
    ∀ e : Expr, exprHasOp o e = true → (render fns e).isOk = false
  | .mk l o' r p d, h => by
    simp only [exprHasOp, Bool.or_eq_true, beq_iff_eq] at h
    simp only [render]
    cases h1 : serialize fns l with
    | err => simp [Out.isOk]
    | panic => simp [Out.isOk]
    | ok left =>
      cases h2 : serialize fns r with
      | err => simp [Out.isOk]
      | panic => simp [Out.isOk]
      | ok right =>
        rcases h with (h | h) | h
        · subst h; simp [ho, Out.isOk]
        · have := missing_node fns o ho l h; simp [h1, Out.isOk] at this
        · have := missing_node fns o ho r h; simp [h2, Out.isOk] at this
theorem missing_list (fns : Fns) (o : Op) (ho : fns o = none) :
    ∀ es : ExprList, listHasOp o es = true → (serializeList fns es).isOk = false
  | .nil, h => by simp [listHasOp] at h
  | .cons e t, h => by
    simp only [listHasOp, Bool.or_eq_true] at h
    simp only [serializeList]
    cases h1 : render fns e with
    | err => simp [Out.isOk]
    | panic => simp [Out.isOk]
    | ok s =>
      cases h2 : serializeList fns t with
      | err => simp [Out.isOk]
      | panic => simp [Out.isOk]
      | ok ss =>
        rcases h with h | h
        · have := missing_expr fns o ho e h; simp [h1, Out.isOk] at this
        · have := missing_list fns o ho t h; simp [h2, Out.isOk] at this
end

/-- if any node's operator has no registered function, Render does not return a result -/
theorem missing_fn_fails (fns : Fns) (o : Op) (ho : fns o = none) (e : Expr) (h : exprHasOp o e = true) :
    (render fns e).isOk = false :=
  missing_expr fns o ho e h

/-- driver.Shared has no entry for Fuzzy and Boost (nor for the undefined operator) -/
theorem shared_has_no_fuzzy_boost : sharedFns .fuzzy = none ∧ sharedFns .boost = none ∧ pgFns .fuzzy = none ∧ pgFns .boost = none := by
  decide

/-- ToPostgres fails on every tree that contains a fuzzy or boost operator anywhere -/
theorem postgres_fails_on_fuzzy_boost (e : Expr) (h : exprHasOp .fuzzy e = true ∨ exprHasOp .boost e = true) :
    (render pgFns e).isOk = false := by
  rcases h with h | h
  · exact missing_fn_fails pgFns .fuzzy (by decide) e h
  · exact missing_fn_fails pgFns .boost (by decide) e h

/-- non-vacuity: a tree containing a boost -/
example : exprHasOp .boost (.mk (.expr (.mk (.expr (lit (.prim (.str [97])))) .boost .nil F64.one 1)) .not .nil F64.one 1) = true := by
  decide

end GoLucene.C15
