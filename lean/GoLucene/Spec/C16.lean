import GoLucene.Model.LexAll
import GoLucene.Model.Utf8
/-
  C16 — the token stream is a lossless segmentation of the input.

  Statement (for every input, every pair of letter/digit predicates): the tokens' texts, in order, separated
  only by the whitespace the lexer skipped, reproduce the input up to its end or up to the first lexical
  error; the token count is bounded by the input length; decoding loses no byte.
  The theorems themselves are proved next to the definitions they need for termination
  (Model/LexAll.lean, Model/Utf8.lean); this file names them as the obligations of the property.
-/
namespace GoLucene.C16

/-- lossless segmentation at cell level -/
theorem segmentation (k : Cls) (inp : List Cell) :
    let r := lexAll k inp
    segBytes r.1 ++ cellsBytes r.2.2.1 ++ cellsBytes r.2.2.2 = cellsBytes inp ∧
    (∀ p ∈ r.1, ∀ c ∈ p.1, isWs c.r = true) ∧ (∀ c ∈ r.2.2.1, isWs c.r = true) ∧
    (r.2.1 = .eof → r.2.2.2 = []) ∧ (r.2.1 = .err → r.2.2.2 ≠ []) :=
  lex_segmentation k inp.length inp (Nat.le_refl _)

/-- … and at byte level: composing with UTF-8 decoding gives back the input string -/
theorem segmentation_bytes (k : Cls) (s : Bytes) :
    let r := lexAll k (decode s)
    segBytes r.1 ++ cellsBytes r.2.2.1 ++ cellsBytes r.2.2.2 = s := by
  have h := (segmentation k (decode s)).1
  simp only at h ⊢
  rw [h]
  exact decode_lossless s.length s (Nat.le_refl _)

/-- finitely many tokens: never more tokens than runes -/
theorem token_count_le (k : Cls) (inp : List Cell) : (lexAll k inp).1.length ≤ inp.length :=
  lex_token_count_le k inp.length inp (Nat.le_refl _)

/- The theorems have no hypotheses (they hold for every byte string), so there is no vacuity to rule out. -/

end GoLucene.C16
