import GoLucene.Proofs.Jux
namespace GoLucene

/-! C06 prototype: every accepted token list has a derivation in the documented grammar
    whose tree is the parse result. -/

/-- the documented grammar as a relation between token lists and trees (independent of the reducers) -/
inductive Der : List Tok → Ex → Prop
  | leaf (t : Tok) (h : t.typ.isTerm = true) : Der [t] (.leaf t)
  | paren (o c : Tok) (ho : o.typ = .lparen) (hc : c.typ = .rparen) {a e} : Der a e → Der (o :: (a ++ [c])) e
  | and (o : Tok) (ho : o.typ = .tand) {a b l r} : Der a l → Der b r → Der (a ++ o :: b) (.and l r)
  | jux {a b l r} : Der a l → Der b r → Der (a ++ b) (.and l r)
  | or (o : Tok) (ho : o.typ = .tor) {a b l r} : Der a l → Der b r → Der (a ++ o :: b) (.or l r)
  | eq (o : Tok) (ho : o.typ = .colon ∨ o.typ = .equal) {a b f v} : Der a f → Der b v → Der (a ++ o :: b) (.eq f v)
  | cmp (o p : Tok) (gt : Bool) (ho : o.typ = .colon) (hp : p.typ = if gt then .greater else .less) {a b f v} :
      Der a f → Der b v → Der (a ++ o :: p :: b) (.cmp gt false f v)
  | cmpEq (o p q : Tok) (gt : Bool) (ho : o.typ = .colon) (hp : p.typ = if gt then .greater else .less)
      (hq : q.typ = .equal) {a b f v} : Der a f → Der b v → Der (a ++ o :: p :: q :: b) (.cmp gt true f v)
  | range (o lb to rb : Tok) (incl : Bool) (ho : o.typ = .colon)
      (hlb : lb.typ = .lsquare ∨ lb.typ = .lcurly) (hto : to.typ = .tto) (hrb : rb.typ = .rsquare ∨ rb.typ = .rcurly)
      (hincl : incl = decide (lb.typ = .lsquare ∧ rb.typ = .rsquare)) {a b c f lo hi} :
      Der a f → Der b lo → Der c hi → Der (a ++ o :: lb :: (b ++ to :: (c ++ [rb]))) (.range f lo hi incl)
  | not (o : Tok) (ho : o.typ = .tnot) {a e} : Der a e → Der (o :: a) (.not e)
  | must (o : Tok) (ho : o.typ = .plus) {a e} : Der a e → Der (o :: a) (.must e)
  | mustNot (o : Tok) (ho : o.typ = .minus) {a e} : Der a e → Der (o :: a) (.mustNot e)
  | fuzzy0 (o : Tok) (ho : o.typ = .tilde) {a e} : Der a e → Der (a ++ [o]) (.fuzzy e none)
  | fuzzy1 (o : Tok) (ho : o.typ = .tilde) {a b e d} : Der a e → Der b d → Der (a ++ o :: b) (.fuzzy e (some d))
  | boost0 (o : Tok) (ho : o.typ = .carrot) {a e} : Der a e → Der (a ++ [o]) (.boost e none)
  | boost1 (o : Tok) (ho : o.typ = .carrot) {a b e d} : Der a e → Der b d → Der (a ++ o :: b) (.boost e (some d))

/-- a stack item together with the input segment it stands for -/
def good : Item → List Tok → Prop
  | .tok t, seg => (∃ o, seg = [o] ∧ o.typ = t) ∨ (t = .tand ∧ seg = [])
  | .ex e, seg => Der seg e

/-- `items` in left-to-right order, `segs` their segments -/
inductive Goods : List Item → List (List Tok) → Prop
  | nil : Goods [] []
  | cons {it seg its segs} : good it seg → Goods its segs → Goods (it :: its) (seg :: segs)

theorem goods_cons_inv {it : Item} {its : List Item} {ss : List (List Tok)} (h : Goods (it :: its) ss) :
    ∃ seg segs, ss = seg :: segs ∧ good it seg ∧ Goods its segs := by
  cases h with
  | cons h1 h2 => exact ⟨_, _, rfl, h1, h2⟩

theorem goods_nil_inv {ss : List (List Tok)} (h : Goods [] ss) : ss = [] := by
  cases h; rfl

theorem good_tok {t : TT} {seg : List Tok} (h : good (.tok t) seg) (hn : t ≠ .tand) : ∃ o, seg = [o] ∧ o.typ = t := by
  rcases h with h | ⟨h, _⟩
  · exact h
  · exact absurd h hn

end GoLucene

namespace GoLucene

theorem goods2 {a b : Item} {ss} (h : Goods [a, b] ss) : ∃ s1 s2, ss = [s1, s2] ∧ good a s1 ∧ good b s2 := by
  obtain ⟨s1, r1, rfl, g1, h⟩ := goods_cons_inv h
  obtain ⟨s2, r2, rfl, g2, h⟩ := goods_cons_inv h
  have := goods_nil_inv h; subst this
  exact ⟨_, _, rfl, g1, g2⟩
theorem goods3 {a b c : Item} {ss} (h : Goods [a, b, c] ss) :
    ∃ s1 s2 s3, ss = [s1, s2, s3] ∧ good a s1 ∧ good b s2 ∧ good c s3 := by
  obtain ⟨s1, r1, rfl, g1, h⟩ := goods_cons_inv h
  obtain ⟨s2, s3, rfl, g2, g3⟩ := goods2 h
  exact ⟨_, _, _, rfl, g1, g2, g3⟩
theorem goods4 {a b c d : Item} {ss} (h : Goods [a, b, c, d] ss) :
    ∃ s1 s2 s3 s4, ss = [s1, s2, s3, s4] ∧ good a s1 ∧ good b s2 ∧ good c s3 ∧ good d s4 := by
  obtain ⟨s1, r1, rfl, g1, h⟩ := goods_cons_inv h
  obtain ⟨s2, s3, s4, rfl, g2, g3, g4⟩ := goods3 h
  exact ⟨_, _, _, _, rfl, g1, g2, g3, g4⟩
theorem goods5 {a b c d e : Item} {ss} (h : Goods [a, b, c, d, e] ss) :
    ∃ s1 s2 s3 s4 s5, ss = [s1, s2, s3, s4, s5] ∧ good a s1 ∧ good b s2 ∧ good c s3 ∧ good d s4 ∧ good e s5 := by
  obtain ⟨s1, r1, rfl, g1, h⟩ := goods_cons_inv h
  obtain ⟨s2, s3, s4, s5, rfl, g2, g3, g4, g5⟩ := goods4 h
  exact ⟨_, _, _, _, _, rfl, g1, g2, g3, g4, g5⟩
theorem goods7 {a b c d e f g : Item} {ss} (h : Goods [a, b, c, d, e, f, g] ss) :
    ∃ s1 s2 s3 s4 s5 s6 s7, ss = [s1, s2, s3, s4, s5, s6, s7] ∧ good a s1 ∧ good b s2 ∧ good c s3 ∧ good d s4 ∧
      good e s5 ∧ good f s6 ∧ good g s7 := by
  obtain ⟨s1, r1, rfl, g1, h⟩ := goods_cons_inv h
  obtain ⟨s2, r2, rfl, g2, h⟩ := goods_cons_inv h
  obtain ⟨s3, s4, s5, s6, s7, rfl, g3, g4, g5, g6, g7⟩ := goods5 h
  exact ⟨_, _, _, _, _, _, _, rfl, g1, g2, g3, g4, g5, g6, g7⟩

/-- every reducer builds a production of the grammar from its handle -/
theorem tryReduce_sound (isNum : Bool → Ex → Bool) (top : List Item) (segs : List (List Tok))
    (hg : Goods top segs) (repl : List Item) (k : Nat) (h : tryReduce isNum top = some (repl, k)) :
    ∃ e, repl = [.ex e] ∧ Der segs.flatten e := by
  unfold tryReduce at h
  split at h
  case h_1 l r =>  -- and (explicit or implicit)
    simp at h; obtain ⟨rfl, rfl⟩ := h
    obtain ⟨s1, s2, s3, rfl, g1, g2, g3⟩ := goods3 hg
    refine ⟨_, rfl, ?_⟩
    rcases g2 with ⟨o, rfl, ho⟩ | ⟨_, rfl⟩
    · simpa using Der.and o ho g1 g3
    · simpa using Der.jux g1 g3
  case h_2 l r =>
    simp at h; obtain ⟨rfl, rfl⟩ := h
    obtain ⟨s1, s2, s3, rfl, g1, g2, g3⟩ := goods3 hg
    obtain ⟨o, rfl, ho⟩ := good_tok g2 (by decide)
    exact ⟨_, rfl, by simpa using Der.or o ho g1 g3⟩
  case h_3 f v =>
    simp at h; obtain ⟨rfl, rfl⟩ := h
    obtain ⟨s1, s2, s3, rfl, g1, g2, g3⟩ := goods3 hg
    obtain ⟨o, rfl, ho⟩ := good_tok g2 (by decide)
    exact ⟨_, rfl, by simpa using Der.eq o (Or.inr ho) g1 g3⟩
  case h_4 f v =>
    simp at h; obtain ⟨rfl, rfl⟩ := h
    obtain ⟨s1, s2, s3, rfl, g1, g2, g3⟩ := goods3 hg
    obtain ⟨o, rfl, ho⟩ := good_tok g2 (by decide)
    exact ⟨_, rfl, by simpa using Der.eq o (Or.inl ho) g1 g3⟩
  case h_5 f v =>
    simp at h; obtain ⟨rfl, rfl⟩ := h
    obtain ⟨s1, s2, s3, s4, rfl, g1, g2, g3, g4⟩ := goods4 hg
    obtain ⟨o, rfl, ho⟩ := good_tok g2 (by decide)
    obtain ⟨p, rfl, hp⟩ := good_tok g3 (by decide)
    exact ⟨_, rfl, by simpa using Der.cmp o p true ho (by simpa using hp) g1 g4⟩
  case h_6 f v =>
    simp at h; obtain ⟨rfl, rfl⟩ := h
    obtain ⟨s1, s2, s3, s4, rfl, g1, g2, g3, g4⟩ := goods4 hg
    obtain ⟨o, rfl, ho⟩ := good_tok g2 (by decide)
    obtain ⟨p, rfl, hp⟩ := good_tok g3 (by decide)
    exact ⟨_, rfl, by simpa using Der.cmp o p false ho (by simpa using hp) g1 g4⟩
  case h_7 f v =>
    simp at h; obtain ⟨rfl, rfl⟩ := h
    obtain ⟨s1, s2, s3, s4, s5, rfl, g1, g2, g3, g4, g5⟩ := goods5 hg
    obtain ⟨o, rfl, ho⟩ := good_tok g2 (by decide)
    obtain ⟨p, rfl, hp⟩ := good_tok g3 (by decide)
    obtain ⟨q, rfl, hq⟩ := good_tok g4 (by decide)
    exact ⟨_, rfl, by simpa using Der.cmpEq o p q true ho (by simpa using hp) hq g1 g5⟩
  case h_8 f v =>
    simp at h; obtain ⟨rfl, rfl⟩ := h
    obtain ⟨s1, s2, s3, s4, s5, rfl, g1, g2, g3, g4, g5⟩ := goods5 hg
    obtain ⟨o, rfl, ho⟩ := good_tok g2 (by decide)
    obtain ⟨p, rfl, hp⟩ := good_tok g3 (by decide)
    obtain ⟨q, rfl, hq⟩ := good_tok g4 (by decide)
    exact ⟨_, rfl, by simpa using Der.cmpEq o p q false ho (by simpa using hp) hq g1 g5⟩
  case h_9 e =>
    simp at h; obtain ⟨rfl, rfl⟩ := h
    obtain ⟨s1, s2, rfl, g1, g2⟩ := goods2 hg
    obtain ⟨o, rfl, ho⟩ := good_tok g1 (by decide)
    exact ⟨_, rfl, by simpa using Der.not o ho g2⟩
  case h_10 e =>
    simp at h; obtain ⟨rfl, rfl⟩ := h
    obtain ⟨s1, s2, s3, rfl, g1, g2, g3⟩ := goods3 hg
    obtain ⟨o, rfl, ho⟩ := good_tok g1 (by decide)
    obtain ⟨c, rfl, hc⟩ := good_tok g3 (by decide)
    exact ⟨_, rfl, by simpa using Der.paren o c ho hc g2⟩
  case h_11 e =>
    simp at h; obtain ⟨rfl, rfl⟩ := h
    obtain ⟨s1, s2, rfl, g1, g2⟩ := goods2 hg
    obtain ⟨o, rfl, ho⟩ := good_tok g1 (by decide)
    exact ⟨_, rfl, by simpa using Der.must o ho g2⟩
  case h_12 e =>
    simp at h; obtain ⟨rfl, rfl⟩ := h
    obtain ⟨s1, s2, rfl, g1, g2⟩ := goods2 hg
    obtain ⟨o, rfl, ho⟩ := good_tok g1 (by decide)
    exact ⟨_, rfl, by simpa using Der.mustNot o ho g2⟩
  case h_13 e =>
    simp at h; obtain ⟨rfl, rfl⟩ := h
    obtain ⟨s1, s2, rfl, g1, g2⟩ := goods2 hg
    obtain ⟨o, rfl, ho⟩ := good_tok g2 (by decide)
    exact ⟨_, rfl, by simpa using Der.fuzzy0 o ho g1⟩
  case h_14 e d =>
    split at h
    · simp at h; obtain ⟨rfl, rfl⟩ := h
      obtain ⟨s1, s2, s3, rfl, g1, g2, g3⟩ := goods3 hg
      obtain ⟨o, rfl, ho⟩ := good_tok g2 (by decide)
      exact ⟨_, rfl, by simpa using Der.fuzzy1 o ho g1 g3⟩
    · simp at h
  case h_15 e =>
    simp at h; obtain ⟨rfl, rfl⟩ := h
    obtain ⟨s1, s2, rfl, g1, g2⟩ := goods2 hg
    obtain ⟨o, rfl, ho⟩ := good_tok g2 (by decide)
    exact ⟨_, rfl, by simpa using Der.boost0 o ho g1⟩
  case h_16 e d =>
    split at h
    · simp at h; obtain ⟨rfl, rfl⟩ := h
      obtain ⟨s1, s2, s3, rfl, g1, g2, g3⟩ := goods3 hg
      obtain ⟨o, rfl, ho⟩ := good_tok g2 (by decide)
      exact ⟨_, rfl, by simpa using Der.boost1 o ho g1 g3⟩
    · simp at h
  case h_17 f lo hi =>
    simp at h; obtain ⟨rfl, rfl⟩ := h
    obtain ⟨s1, s2, s3, s4, s5, s6, s7, rfl, g1, g2, g3, g4, g5, g6, g7⟩ := goods7 hg
    obtain ⟨o, rfl, ho⟩ := good_tok g2 (by decide)
    obtain ⟨lb, rfl, hlb⟩ := good_tok g3 (by decide)
    obtain ⟨to, rfl, hto⟩ := good_tok g5 (by decide)
    obtain ⟨rb, rfl, hrb⟩ := good_tok g7 (by decide)
    exact ⟨_, rfl, by simpa using Der.range o lb to rb true ho (Or.inl hlb) hto (Or.inl hrb) (by simp [hlb, hrb]) g1 g4 g6⟩
  case h_18 f lo hi =>
    simp at h; obtain ⟨rfl, rfl⟩ := h
    obtain ⟨s1, s2, s3, s4, s5, s6, s7, rfl, g1, g2, g3, g4, g5, g6, g7⟩ := goods7 hg
    obtain ⟨o, rfl, ho⟩ := good_tok g2 (by decide)
    obtain ⟨lb, rfl, hlb⟩ := good_tok g3 (by decide)
    obtain ⟨to, rfl, hto⟩ := good_tok g5 (by decide)
    obtain ⟨rb, rfl, hrb⟩ := good_tok g7 (by decide)
    exact ⟨_, rfl, by simpa using Der.range o lb to rb false ho (Or.inl hlb) hto (Or.inr hrb) (by simp [hlb, hrb]) g1 g4 g6⟩
  case h_19 f lo hi =>
    simp at h; obtain ⟨rfl, rfl⟩ := h
    obtain ⟨s1, s2, s3, s4, s5, s6, s7, rfl, g1, g2, g3, g4, g5, g6, g7⟩ := goods7 hg
    obtain ⟨o, rfl, ho⟩ := good_tok g2 (by decide)
    obtain ⟨lb, rfl, hlb⟩ := good_tok g3 (by decide)
    obtain ⟨to, rfl, hto⟩ := good_tok g5 (by decide)
    obtain ⟨rb, rfl, hrb⟩ := good_tok g7 (by decide)
    exact ⟨_, rfl, by simpa using Der.range o lb to rb false ho (Or.inr hlb) hto (Or.inl hrb) (by simp [hlb, hrb]) g1 g4 g6⟩
  case h_20 f lo hi =>
    simp at h; obtain ⟨rfl, rfl⟩ := h
    obtain ⟨s1, s2, s3, s4, s5, s6, s7, rfl, g1, g2, g3, g4, g5, g6, g7⟩ := goods7 hg
    obtain ⟨o, rfl, ho⟩ := good_tok g2 (by decide)
    obtain ⟨lb, rfl, hlb⟩ := good_tok g3 (by decide)
    obtain ⟨to, rfl, hto⟩ := good_tok g5 (by decide)
    obtain ⟨rb, rfl, hrb⟩ := good_tok g7 (by decide)
    exact ⟨_, rfl, by simpa using Der.range o lb to rb false ho (Or.inr hlb) hto (Or.inr hrb) (by simp [hlb, hrb]) g1 g4 g6⟩
  case h_21 => simp at h

end GoLucene
