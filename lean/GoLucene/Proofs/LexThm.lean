import GoLucene.Model.Lex
namespace GoLucene

theorem dropWs_eq (inp : List Cell) : (dropWs inp).1 ++ (dropWs inp).2 = inp ∧ ∀ c ∈ (dropWs inp).1, isWs c.r = true := by
  induction inp with
  | nil => simp [dropWs]
  | cons c cs ih =>
    simp only [dropWs]
    split
    · rename_i h
      simp only [List.cons_append, List.cons.injEq, true_and, List.mem_cons, forall_eq_or_imp]
      exact ⟨ih.1, h, ih.2⟩
    · simp

theorem dropWs_head (inp : List Cell) : ∀ c cs, (dropWs inp).2 = c :: cs → isWs c.r = false := by
  induction inp with
  | nil => simp [dropWs]
  | cons d ds ih =>
    intro c cs h
    simp only [dropWs] at h
    split at h
    · exact ih c cs h
    · rename_i hd
      simp at h
      obtain ⟨rfl, _⟩ := h
      simpa using hd

theorem lexWord_eq (k : Cls) : ∀ (n : Nat) (inp : List Cell), inp.length ≤ n → (lexWord k inp).1 ++ (lexWord k inp).2 = inp := by
  intro n
  induction n with
  | zero => intro inp h; cases inp <;> simp_all [lexWord]
  | succ n ih =>
    intro inp h
    cases inp with
    | nil => simp [lexWord]
    | cons c cs =>
      rw [lexWord.eq_def]
      simp only []
      split
      · simp only [List.cons_append, List.cons.injEq, true_and]
        exact ih cs (by simp at h; omega)
      · split
        · cases cs with
          | nil => rfl
          | cons d ds =>
            simp only [List.cons_append, List.cons.injEq, true_and]
            exact ih ds (by simp at h; omega)
        · rfl

theorem lexPhrase_eq (q : Nat) : ∀ (inp w rest : List Cell), lexPhrase q inp = some (w, rest) → w ++ rest = inp ∧ w ≠ [] := by
  intro inp
  induction inp with
  | nil => simp [lexPhrase]
  | cons c cs ih =>
    intro w rest h
    simp only [lexPhrase] at h
    split at h
    · simp at h; obtain ⟨rfl, rfl⟩ := h; simp
    · split at h
      · simp at h
      · rename_i w' rest' hr
        simp at h; obtain ⟨rfl, rfl⟩ := h
        have := ih w' rest' hr
        simp [this.1]

theorem lexRegexp_eq : ∀ (n : Nat) (inp w rest : List Cell), inp.length ≤ n → lexRegexp inp = some (w, rest) → w ++ rest = inp := by
  intro n
  induction n with
  | zero => intro inp w rest h; cases inp <;> simp_all [lexRegexp]
  | succ n ih =>
    intro inp w rest hl h
    cases inp with
    | nil => simp [lexRegexp] at h
    | cons c cs =>
      rw [lexRegexp.eq_def] at h
      simp only at h
      split at h
      · cases cs with
        | nil => simp at h
        | cons d ds =>
          simp only at h
          split at h
          · simp at h
          · rename_i w' rest' hr
            simp at h; obtain ⟨rfl, rfl⟩ := h
            have := ih ds w' rest' (by simp at hl; omega) hr
            simp [this]
      · split at h
        · simp at h; obtain ⟨rfl, rfl⟩ := h; simp
        · split at h
          · simp at h
          · rename_i w' rest' hr
            simp at h; obtain ⟨rfl, rfl⟩ := h
            have := ih cs w' rest' (by simp at hl; omega) hr
            simp [this]

/-- what one `Next` does to the input: whitespace, then the token's own cells, then the rest -/
theorem next_tok (k : Cls) (inp : List Cell) (t : Tok) (ws w rest : List Cell)
    (h : next k inp = .tok t ws w rest) :
    ws ++ w ++ rest = inp ∧ w ≠ [] ∧ t.val = cellsBytes w ∧ (∀ c ∈ ws, isWs c.r = true) := by
  have hd := dropWs_eq inp
  unfold next at h
  generalize hds : dropWs inp = p at h hd
  obtain ⟨ws0, s⟩ := p
  simp only at h hd
  cases s with
  | nil => simp at h
  | cons c cs =>
    simp only at h
    split at h
    · -- word
      rename_i hc
      simp at h
      obtain ⟨rfl, rfl, rfl, rfl⟩ := h
      have hw := lexWord_eq k _ (c :: cs) (Nat.le_refl _)
      refine ⟨by rw [List.append_assoc, hw]; exact hd.1, ?_, rfl, hd.2⟩
      intro hnil
      rw [lexWord.eq_def] at hnil
      simp only [] at hnil
      split at hnil
      · simp at hnil
      · split at hnil
        · cases cs <;> simp at hnil
        · simp_all [Cls.isAlnum]
    · split at h
      · simp at h
        obtain ⟨rfl, rfl, rfl, rfl⟩ := h
        exact ⟨by simpa using hd.1, by simp, by simp [cellsBytes], hd.2⟩
      · split at h
        · -- minus
          split at h
          · split at h
            · simp at h
              obtain ⟨rfl, rfl, rfl, rfl⟩ := h
              rename_i d tl _
              have hw := lexWord_eq k _ (c :: d :: tl) (Nat.le_refl _)
              refine ⟨by rw [List.append_assoc, hw]; exact hd.1, ?_, rfl, hd.2⟩
              intro hnil
              rw [lexWord.eq_def] at hnil
              simp only [] at hnil
              split at hnil
              · simp at hnil
              · simp_all [isEsc]
            · simp at h
              obtain ⟨rfl, rfl, rfl, rfl⟩ := h
              exact ⟨by simpa using hd.1, by simp, by simp [cellsBytes], hd.2⟩
          · simp at h
            obtain ⟨rfl, rfl, rfl, rfl⟩ := h
            exact ⟨by simpa using hd.1, by simp, by simp [cellsBytes], hd.2⟩
        · split at h
          · split at h
            · rename_i w' rest' hp
              simp at h
              obtain ⟨rfl, rfl, rfl, rfl⟩ := h
              have := lexPhrase_eq _ _ _ _ hp
              exact ⟨by simpa [this.1] using hd.1, by simp, rfl, hd.2⟩
            · simp at h
          · split at h
            · split at h
              · rename_i w' rest' hp
                simp at h
                obtain ⟨rfl, rfl, rfl, rfl⟩ := h
                have := lexRegexp_eq _ _ _ _ (Nat.le_refl _) hp
                exact ⟨by simpa [this] using hd.1, by simp, rfl, hd.2⟩
              · simp at h
            · simp at h

theorem next_eof (k : Cls) (inp ws : List Cell) (h : next k inp = .eof ws) :
    ws = inp ∧ (∀ c ∈ ws, isWs c.r = true) := by
  have hd := dropWs_eq inp
  unfold next at h
  generalize hds : dropWs inp = p at h hd
  obtain ⟨ws0, s⟩ := p
  simp only at h hd
  cases s with
  | nil => simp at h; subst h; simpa using hd
  | cons c cs =>
    exfalso
    revert h
    simp only []
    repeat' split
    all_goals simp

theorem next_err (k : Cls) (inp ws rest : List Cell) (h : next k inp = .err ws rest) :
    ws ++ rest = inp ∧ (∀ c ∈ ws, isWs c.r = true) ∧ rest ≠ [] := by
  have hd := dropWs_eq inp
  unfold next at h
  generalize hds : dropWs inp = p at h hd
  obtain ⟨ws0, s⟩ := p
  simp only at h hd
  cases s with
  | nil => simp at h
  | cons c cs =>
    revert h
    simp only []
    repeat' split
    all_goals simp
    all_goals (intro h1 h2; subst h1; subst h2; exact ⟨hd.1, hd.2, by simp⟩)

end GoLucene
