import GoLucene.Proofs.LawsDefs
/-
  Laws, scanner / structure side of the JSON text layer (Model/Json.lean): `valid`, `parse1`, `anyDecodable` on the
  texts the encoder writes.

  Part 1 (this file): the shapes of string bodies (`SB`) and number texts, and how the three loops
  (`validLoop`, `splitLoop`, `numsLoop`) run over them.
-/
set_option linter.unusedSimpArgs false
set_option linter.unusedVariables false

namespace GoLucene
namespace Laws

open Json Num JsonRoundTrip

/-! ## scanner basics -/

/-- a scanner state that has not reached the end of the top-level value -/
abbrev mkS (st : ScanState) (σ : List ParseState) (d : Nat) : Scanner :=
  { st := st, endTop := false, stack := σ, depth := d }

theorem validLoop_step {s s' : Scanner} {c : UInt8} {op : ScanOp} (rest : Bytes) (h : scanStep s c = (s', op))
    (hop : op ≠ .error) : validLoop s (c :: rest) = validLoop s' rest := by
  rw [validLoop, h]
  cases op <;> first | rfl | exact absurd rfl hop

/-- `stateEndValue` does not look at the installed step function -/
theorem stateEndValue_st (a : ScanState) (e : Bool) (σ : List ParseState) (d : Nat) (c : UInt8) :
    stateEndValue { st := a, endTop := e, stack := σ, depth := d } c =
      stateEndValue { st := .endValue, endTop := e, stack := σ, depth := d } c := by
  unfold stateEndValue
  cases σ with
  | nil => rfl
  | cons p σ' =>
    simp only [Scanner.goto, Scanner.fail, Scanner.pop]
    cases σ' <;> rfl

/-! ## string bodies -/

/-- a byte that may stand unescaped inside a string literal -/
def plainOK (c : UInt8) : Bool := c != 0x22 && c != 0x5C && !decide (c < 0x20)

/-- second byte of a two-character escape -/
def escOK (x : UInt8) : Bool :=
  x == 0x62 || x == 0x66 || x == 0x6E || x == 0x72 || x == 0x74 || x == 0x5C || x == 0x2F || x == 0x22

/-- `SB o`: `o` is the inside of a string literal: unescaped bytes, two-character escapes, `\uXXXX` -/
inductive SB : Bytes → Prop
  | nil : SB []
  | plain (c : UInt8) (o : Bytes) : plainOK c = true → SB o → SB (c :: o)
  | esc (x : UInt8) (o : Bytes) : escOK x = true → SB o → SB (0x5C :: x :: o)
  | escU (h1 h2 h3 h4 : UInt8) (o : Bytes) : isHexDigit h1 = true → isHexDigit h2 = true → isHexDigit h3 = true →
      isHexDigit h4 = true → SB o → SB (0x5C :: 0x75 :: h1 :: h2 :: h3 :: h4 :: o)

theorem SB_plain_append : ∀ (l o : Bytes), (∀ c ∈ l, plainOK c = true) → SB o → SB (l ++ o)
  | [], o, _, h => h
  | c :: l, o, hl, h =>
    .plain c (l ++ o) (hl c (by simp)) (SB_plain_append l o (fun x hx => hl x (by simp [hx])) h)

theorem plainByte_plainOK : ∀ c : UInt8, plainByte c = true → plainOK c = true := by
  apply u8_all; decide +kernel

theorem esc2_escOK : ∀ c : UInt8, (match esc2 c with | some x => escOK x | none => true) = true := by
  apply u8_all; decide +kernel

theorem hexLower_hex : ∀ c : UInt8, isHexDigit (hexLower (c.toNat / 16)) = true ∧
    isHexDigit (hexLower (c.toNat % 16)) = true := by
  apply u8_all; decide +kernel

theorem hi_plainOK : ∀ c : UInt8, ¬ c < 0x80 → plainOK c = true := by
  apply u8_all; decide +kernel

theorem cont_hi : ∀ c : UInt8, isContByte c = true → ¬ c < 0x80 := by
  apply u8_all; decide +kernel

theorem lo3_hi : ∀ c0 c1 : UInt8, lo3 c0 ≤ c1 → ¬ c1 < 0x80 := by
  intro c0 c1 h
  have : (0x80 : UInt8) ≤ lo3 c0 := by unfold lo3; split <;> decide
  rw [u8_le] at h this; rw [u8_lt]; omega

theorem lo4_hi : ∀ c0 c1 : UInt8, lo4 c0 ≤ c1 → ¬ c1 < 0x80 := by
  intro c0 c1 h
  have : (0x80 : UInt8) ≤ lo4 c0 := by unfold lo4; split <;> decide
  rw [u8_le] at h this; rw [u8_lt]; omega

/-- the continuation bytes of a well-formed multi-byte rune are ≥ 0x80 -/
theorem multi_tail_hi (c : UInt8) (s : Bytes) (r n : Nat) (hc : ¬ c < 0x80) (hd : decodeRune (c :: s) = (r, n + 2)) :
    ∀ x ∈ s.take (n + 1), ¬ x < 0x80 := by
  cases decodeRune_cases c s hc with
  | bad hb => rw [hb] at hd; cases hd
  | two c1 t hr h1 h2 h3 =>
    subst hr; rw [decodeRune2 c c1 t h1 h2 h3] at hd; cases hd
    intro x hx
    simp at hx; subst hx; exact cont_hi _ h3
  | three c1 c2 t hr h1 h2 h3 h4 h5 =>
    subst hr; rw [decodeRune3 c c1 c2 t h1 h2 h3 h4 h5] at hd; cases hd
    intro x hx
    simp at hx
    rcases hx with rfl | rfl
    · exact lo3_hi _ _ h3
    · exact cont_hi _ h5
  | four c1 c2 c3 t hr h1 h2 h3 h4 h5 h6 =>
    subst hr; rw [decodeRune4 c c1 c2 c3 t h1 h2 h3 h4 h5 h6] at hd; cases hd
    intro x hx
    simp at hx
    rcases hx with rfl | rfl | rfl
    · exact lo4_hi _ _ h3
    · exact cont_hi _ h5
    · exact cont_hi _ h6

/-- what `encodeString` writes between the quotes is the inside of a string literal -/
theorem encB_SB {s o : Bytes} (h : EncB s o) : SB o := by
  induction h with
  | nil => exact .nil
  | plain c s o hp _ ih => exact .plain c o (plainByte_plainOK c hp) ih
  | esc2 c x s o he _ ih =>
    have := esc2_escOK c
    rw [he] at this
    exact .esc x o this ih
  | escU c s o _ _ ih =>
    exact .escU 0x30 0x30 _ _ o (by decide) (by decide) (hexLower_hex c).1 (hexLower_hex c).2 ih
  | bad c s o _ _ _ ih => exact .escU _ _ _ _ o (by decide) (by decide) (by decide) (by decide) ih
  | ls c c1 c2 s o r _ _ hr _ ih =>
    refine .escU _ _ _ _ o (by decide) (by decide) (by decide) ?_ ih
    rcases hr with rfl | rfl <;> decide
  | multi c s o r n hc hd hl _ _ ih =>
    refine .plain c _ (hi_plainOK c hc) (SB_plain_append _ _ ?_ ih)
    intro x hx
    exact hi_plainOK x (multi_tail_hi c s r n hc hd x hx)

theorem encodeString_SB (s : Bytes) : ∃ o, SB o ∧ encodeString s = 34 :: (o ++ [34]) := by
  obtain ⟨o, ho, h⟩ := encodeString_eq s
  exact ⟨o, encB_SB ho, h⟩

/-! ## `validLoop` over a string literal -/

theorem step_inStr_plain (σ : List ParseState) (d : Nat) (c : UInt8) (h : plainOK c = true) :
    scanStep (mkS .inString σ d) c = (mkS .inString σ d, .cont) := by
  simp only [plainOK, Bool.and_eq_true, bne_iff_ne, Bool.not_eq_true', decide_eq_false_iff_not] at h
  obtain ⟨⟨h1, h2⟩, h3⟩ := h
  simp only [scanStep, beq_iff_eq, h1, h2, h3, if_false]

theorem step_inStr_bs (σ : List ParseState) (d : Nat) :
    scanStep (mkS .inString σ d) 0x5C = (mkS .inStringEsc σ d, .cont) := by
  simp [scanStep, Scanner.goto]

theorem step_inStr_quote (σ : List ParseState) (d : Nat) :
    scanStep (mkS .inString σ d) 0x22 = (mkS .endValue σ d, .cont) := by
  simp [scanStep, Scanner.goto]

theorem step_esc (σ : List ParseState) (d : Nat) (x : UInt8) (h : escOK x = true) :
    scanStep (mkS .inStringEsc σ d) x = (mkS .inString σ d, .cont) := by
  unfold escOK at h
  simp only [scanStep, h, if_true, Scanner.goto]

theorem step_escu (σ : List ParseState) (d : Nat) :
    scanStep (mkS .inStringEsc σ d) 0x75 = (mkS .escU σ d, .cont) := by
  simp [scanStep, Scanner.goto]

theorem step_hex (σ : List ParseState) (d : Nat) (x : UInt8) (h : isHexDigit x = true) :
    scanStep (mkS .escU σ d) x = (mkS .escU1 σ d, .cont) ∧ scanStep (mkS .escU1 σ d) x = (mkS .escU12 σ d, .cont) ∧
    scanStep (mkS .escU12 σ d) x = (mkS .escU123 σ d, .cont) ∧
    scanStep (mkS .escU123 σ d) x = (mkS .inString σ d, .cont) := by
  simp only [scanStep, scanExpectHex, h, if_true, Scanner.goto, and_self]

theorem cont_ne : ScanOp.cont ≠ ScanOp.error := by decide

theorem valid_SB {o : Bytes} (h : SB o) (σ : List ParseState) (d : Nat) (rest : Bytes) :
    validLoop (mkS .inString σ d) (o ++ rest) = validLoop (mkS .inString σ d) rest := by
  induction h with
  | nil => rfl
  | plain c o hc _ ih =>
    rw [List.cons_append, validLoop_step _ (step_inStr_plain σ d c hc) cont_ne, ih]
  | esc x o hx _ ih =>
    rw [List.cons_append, List.cons_append, validLoop_step _ (step_inStr_bs σ d) cont_ne,
      validLoop_step _ (step_esc σ d x hx) cont_ne, ih]
  | escU h1 h2 h3 h4 o e1 e2 e3 e4 _ ih =>
    simp only [List.cons_append]
    rw [validLoop_step _ (step_inStr_bs σ d) cont_ne, validLoop_step _ (step_escu σ d) cont_ne,
      validLoop_step _ (step_hex σ d h1 e1).1 cont_ne, validLoop_step _ (step_hex σ d h2 e2).2.1 cont_ne,
      validLoop_step _ (step_hex σ d h3 e3).2.2.1 cont_ne, validLoop_step _ (step_hex σ d h4 e4).2.2.2 cont_ne, ih]

/-- the first byte of a value in a `beginValueOrEmpty` state is handled as in `beginValue` -/
theorem step_bvoe (σ : List ParseState) (d : Nat) (c : UInt8) (h1 : isJsonWs c = false) (h2 : c ≠ 0x5D) :
    scanStep (mkS .beginValueOrEmpty σ d) c = scanStep (mkS .beginValue σ d) c := by
  simp only [scanStep, h1, beq_iff_eq, h2, if_false, Bool.false_eq_true, stateBeginValue, Scanner.push, Scanner.goto,
    Scanner.fail]

theorem step_bv_quote (σ : List ParseState) (d : Nat) :
    scanStep (mkS .beginValue σ d) 0x22 = (mkS .inString σ d, .beginLiteral) := by
  simp [scanStep, stateBeginValue, isJsonWs, Scanner.goto]

theorem beginLiteral_ne : ScanOp.beginLiteral ≠ ScanOp.error := by decide

/-- a whole string literal, from a state that expects a value -/
theorem valid_strLit {o : Bytes} (h : SB o) (σ : List ParseState) (d : Nat) (rest : Bytes) :
    validLoop (mkS .beginValue σ d) (34 :: (o ++ 34 :: rest)) = validLoop (mkS .endValue σ d) rest := by
  rw [validLoop_step _ (step_bv_quote σ d) beginLiteral_ne, valid_SB h,
    validLoop_step _ (step_inStr_quote σ d) cont_ne]

/-- end of input after a complete top-level value -/
theorem eof_endValue (d : Nat) : (mkS .endValue [] d).eof = true := by
  simp [Scanner.eof, scanStep, stateEndValue, stateEndTop, isJsonWs]

theorem valid_str (s : Bytes) : valid (encodeString s) = true := by
  obtain ⟨o, ho, h⟩ := encodeString_SB s
  rw [h]
  show validLoop (mkS .beginValue [] 0) (34 :: (o ++ 34 :: [])) = true
  rw [valid_strLit ho]
  exact eof_endValue 0

/-! ## `validLoop` over a number literal -/

/-- a byte after which a number literal ends -/
def numEnd (c : UInt8) : Bool := !isDigit c && c != 0x2E && c != 0x65 && c != 0x45

/-- what may follow a number literal: nothing, or a byte that ends it -/
def NumRest : Bytes → Prop
  | [] => True
  | c :: _ => numEnd c = true

theorem isDigit_of_dig {c : UInt8} (h : dig c) : isDigit c = true := by
  simp only [isDigit, Bool.and_eq_true, decide_eq_true_eq, u8_le]
  exact h

theorem isDigit19_of {c : UInt8} (h1 : 49 ≤ c.toNat) (h2 : c.toNat ≤ 57) : isDigit19 c = true := by
  simp only [isDigit19, Bool.and_eq_true, decide_eq_true_eq, u8_le]
  exact ⟨h1, h2⟩

theorem d19_facts : ∀ c : UInt8, isDigit19 c = true → isJsonWs c = false ∧ (c == 0x7B) = false ∧ (c == 0x5B) = false ∧
    (c == 0x22) = false ∧ (c == 0x2D) = false ∧ (c == 0x30) = false ∧ (c == 0x74) = false ∧ (c == 0x66) = false ∧
    (c == 0x6E) = false ∧ isDigit c = true := by
  apply u8_all; decide +kernel

theorem numEnd_facts : ∀ c : UInt8, numEnd c = true → isDigit c = false ∧ (c == 0x2E) = false ∧ (c == 0x65) = false ∧
    (c == 0x45) = false := by
  apply u8_all; decide +kernel

def numEndState (st : ScanState) : Prop := st = .num0 ∨ st = .num1 ∨ st = .dot0 ∨ st = .exp0

theorem step_numEnd (st : ScanState) (hst : numEndState st) (σ : List ParseState) (d : Nat) (c : UInt8)
    (hc : numEnd c = true) : scanStep (mkS st σ d) c = scanStep (mkS .endValue σ d) c := by
  obtain ⟨h1, h2, h3, h4⟩ := numEnd_facts c hc
  have e : scanStep (mkS .endValue σ d) c = stateEndValue (mkS .endValue σ d) c := rfl
  rw [e, ← stateEndValue_st st]
  rcases hst with rfl | rfl | rfl | rfl <;>
    simp only [scanStep, state0, h1, h2, h3, h4, Bool.false_eq_true, if_false, Bool.or_self]

theorem valid_numEnd (st : ScanState) (hst : numEndState st) (σ : List ParseState) (d : Nat) (rest : Bytes)
    (hr : NumRest rest) : validLoop (mkS st σ d) rest = validLoop (mkS .endValue σ d) rest := by
  cases rest with
  | nil =>
    have h := step_numEnd st hst σ d 0x20 (by decide)
    have hne : (st == ScanState.error) = false := by rcases hst with rfl | rfl | rfl | rfl <;> rfl
    simp only [validLoop, Scanner.eof, hne, h, Bool.false_eq_true, if_false]
    rfl
  | cons c r =>
    rw [validLoop, validLoop, step_numEnd st hst σ d c hr]

theorem step_digit (st : ScanState) (hst : st = .num1 ∨ st = .dot0 ∨ st = .exp0) (σ : List ParseState) (d : Nat)
    (c : UInt8) (hc : dig c) : scanStep (mkS st σ d) c = (mkS st σ d, .cont) := by
  have := isDigit_of_dig hc
  rcases hst with rfl | rfl | rfl <;> simp only [scanStep, this, if_true]

theorem valid_digs (st : ScanState) (hst : st = .num1 ∨ st = .dot0 ∨ st = .exp0) (σ : List ParseState) (d : Nat) :
    ∀ (ds : Bytes), digs ds → ∀ rest, validLoop (mkS st σ d) (ds ++ rest) = validLoop (mkS st σ d) rest
  | [], _, _ => rfl
  | c :: ds, h, rest => by
    rw [List.cons_append, validLoop_step _ (step_digit st hst σ d c (h c (by simp))) cont_ne,
      valid_digs st hst σ d ds (fun x hx => h x (by simp [hx]))]

theorem valid_intPart (ip : Bytes) (h : IntPart ip) (s0 : ScanState) (hs : s0 = .beginValue ∨ s0 = .neg) :
    ∃ a, (a = ScanState.num0 ∨ a = ScanState.num1) ∧ ∀ σ d rest,
      validLoop (mkS s0 σ d) (ip ++ rest) = validLoop (mkS a σ d) rest := by
  rcases h with rfl | ⟨c, ds, rfl, h1, h2, h3⟩
  · refine ⟨.num0, .inl rfl, ?_⟩
    intro σ d rest
    have : ∃ op, op ≠ ScanOp.error ∧ scanStep (mkS s0 σ d) 48 = (mkS .num0 σ d, op) := by
      rcases hs with rfl | rfl
      · exact ⟨.beginLiteral, by decide, by simp [scanStep, stateBeginValue, isJsonWs, Scanner.goto]⟩
      · exact ⟨.cont, by decide, by simp [scanStep, Scanner.goto]⟩
    obtain ⟨op, hop, hstep⟩ := this
    exact validLoop_step _ hstep hop
  · refine ⟨.num1, .inr rfl, ?_⟩
    intro σ d rest
    obtain ⟨f1, f2, f3, f4, f5, f6, f7, f8, f9, f10⟩ := d19_facts c (isDigit19_of h1 h2)
    have : ∃ op, op ≠ ScanOp.error ∧ scanStep (mkS s0 σ d) c = (mkS .num1 σ d, op) := by
      rcases hs with rfl | rfl
      · refine ⟨.beginLiteral, by decide, ?_⟩
        simp only [scanStep, stateBeginValue, f1, f2, f3, f4, f5, f6, f7, f8, f9, isDigit19_of h1 h2,
          Bool.false_eq_true, if_false, if_true, Scanner.goto]
      · refine ⟨.cont, by decide, ?_⟩
        simp only [scanStep, f6, isDigit19_of h1 h2, Bool.false_eq_true, if_false, if_true, Scanner.goto]
    obtain ⟨op, hop, hstep⟩ := this
    rw [List.cons_append, validLoop_step _ hstep hop, valid_digs .num1 (.inl rfl) σ d ds h3]

theorem dig_ne2 {c : UInt8} (h : dig c) : (c == 0x2E) = false ∧ (c == 0x65) = false ∧ (c == 0x45) = false ∧
    (c == 0x2B) = false ∧ (c == 0x2D) = false := by
  refine ⟨?_, ?_, ?_, ?_, ?_⟩ <;>
    (rw [beq_eq_false_iff_ne]; intro e; subst e; revert h; unfold dig; decide)

theorem valid_frac (fr : Bytes) (h : fr = [] ∨ ∃ ds, ds ≠ [] ∧ digs ds ∧ fr = 46 :: ds) (a : ScanState)
    (ha : a = .num0 ∨ a = .num1) :
    ∃ a', (a' = ScanState.num0 ∨ a' = ScanState.num1 ∨ a' = ScanState.dot0) ∧ ∀ σ d rest,
      validLoop (mkS a σ d) (fr ++ rest) = validLoop (mkS a' σ d) rest := by
  rcases h with rfl | ⟨ds, hne, hds, rfl⟩
  · exact ⟨a, by rcases ha with rfl | rfl <;> simp, fun _ _ _ => rfl⟩
  · refine ⟨.dot0, .inr (.inr rfl), ?_⟩
    intro σ d rest
    cases ds with
    | nil => exact absurd rfl hne
    | cons c ds =>
      have hc : dig c := hds c (by simp)
      have s1 : scanStep (mkS a σ d) 46 = (mkS .dot σ d, .cont) := by
        rcases ha with rfl | rfl <;> simp [scanStep, state0, isDigit, Scanner.goto]
      have s2 : scanStep (mkS .dot σ d) c = (mkS .dot0 σ d, .cont) := by
        simp only [scanStep, isDigit_of_dig hc, if_true, Scanner.goto]
      simp only [List.cons_append]
      rw [validLoop_step _ s1 cont_ne, validLoop_step _ s2 cont_ne,
        valid_digs .dot0 (.inr (.inl rfl)) σ d ds (fun x hx => hds x (by simp [hx]))]

theorem valid_exp (ex : Bytes)
    (h : ex = [] ∨ ∃ sg ds, (sg = 43 ∨ sg = 45) ∧ ds ≠ [] ∧ digs ds ∧ ex = 101 :: sg :: ds) (a : ScanState)
    (ha : a = .num0 ∨ a = .num1 ∨ a = .dot0) :
    ∃ a', numEndState a' ∧ ∀ σ d rest, validLoop (mkS a σ d) (ex ++ rest) = validLoop (mkS a' σ d) rest := by
  rcases h with rfl | ⟨sg, ds, hsg, hne, hds, rfl⟩
  · exact ⟨a, by rcases ha with rfl | rfl | rfl <;> simp [numEndState], fun _ _ _ => rfl⟩
  · refine ⟨.exp0, .inr (.inr (.inr rfl)), ?_⟩
    intro σ d rest
    cases ds with
    | nil => exact absurd rfl hne
    | cons c ds =>
      have hc : dig c := hds c (by simp)
      have s1 : scanStep (mkS a σ d) 101 = (mkS .exp σ d, .cont) := by
        rcases ha with rfl | rfl | rfl <;> simp [scanStep, state0, isDigit, Scanner.goto]
      have s2 : scanStep (mkS .exp σ d) sg = (mkS .expSign σ d, .cont) := by
        rcases hsg with rfl | rfl <;> simp [scanStep, Scanner.goto]
      have s3 : scanStep (mkS .expSign σ d) c = (mkS .exp0 σ d, .cont) := by
        simp only [scanStep, stateESign, isDigit_of_dig hc, if_true, Scanner.goto]
      simp only [List.cons_append]
      rw [validLoop_step _ s1 cont_ne, validLoop_step _ s2 cont_ne, validLoop_step _ s3 cont_ne,
        valid_digs .exp0 (.inr (.inr rfl)) σ d ds (fun x hx => hds x (by simp [hx]))]

/-- a whole number literal, from a state that expects a value -/
theorem valid_numLit (t : Bytes) (h : JsonNum t) (σ : List ParseState) (d : Nat) (rest : Bytes) (hr : NumRest rest) :
    validLoop (mkS .beginValue σ d) (t ++ rest) = validLoop (mkS .endValue σ d) rest := by
  obtain ⟨neg, ip, fr, ex, rfl, hip, hfr, hex⟩ := h
  have h0 : ∃ s0, (s0 = ScanState.beginValue ∨ s0 = ScanState.neg) ∧ ∀ r,
      validLoop (mkS .beginValue σ d) ((if neg = true then [45] else []) ++ r) = validLoop (mkS s0 σ d) r := by
    cases neg with
    | false => exact ⟨.beginValue, .inl rfl, fun _ => rfl⟩
    | true =>
      refine ⟨.neg, .inr rfl, fun r => ?_⟩
      have s1 : scanStep (mkS .beginValue σ d) 45 = (mkS .neg σ d, .beginLiteral) := by
        simp [scanStep, stateBeginValue, isJsonWs, Scanner.goto]
      exact validLoop_step _ s1 beginLiteral_ne
  obtain ⟨s0, hs0, e0⟩ := h0
  obtain ⟨a, ha, e1⟩ := valid_intPart ip hip s0 hs0
  obtain ⟨a', ha', e2⟩ := valid_frac fr hfr a ha
  obtain ⟨a'', ha'', e3⟩ := valid_exp ex hex a' ha'
  simp only [List.append_assoc]
  rw [e0, e1, e2, e3, valid_numEnd a'' ha'' σ d rest hr]

theorem valid_jsonNum (t : Bytes) (h : JsonNum t) : valid t = true := by
  have := valid_numLit t h [] 0 [] trivial
  rw [List.append_nil] at this
  show validLoop (mkS .beginValue [] 0) t = true
  rw [this]
  exact eof_endValue 0

/-! ## shape facts about number texts -/

theorem jsonNum_head {t : Bytes} (h : JsonNum t) : ∃ c m, t = c :: m ∧ (c = 45 ∨ dig c) := by
  obtain ⟨neg, ip, fr, ex, rfl, hip, _, _⟩ := h
  cases neg with
  | true => exact ⟨45, _, rfl, .inl rfl⟩
  | false =>
    rcases hip with rfl | ⟨c, ds, rfl, h1, h2, _⟩
    · exact ⟨48, _, rfl, .inr (by unfold dig; decide)⟩
    · exact ⟨c, _, rfl, .inr ⟨by omega, h2⟩⟩

theorem isNumChar_of_dig {c : UInt8} (h : dig c) : isNumChar c = true := by
  simp only [isNumChar, isDigit_of_dig h, Bool.true_or]

theorem scan_jsonNum_chars {t : Bytes} (h : JsonNum t) : ∀ x ∈ t, isNumChar x = true := by
  obtain ⟨neg, ip, fr, ex, rfl, hip, hfr, hex⟩ := h
  intro x hx
  simp only [List.mem_append] at hx
  rcases hx with ((hx | hx) | hx) | hx
  · cases neg with
    | true => simp at hx; subst hx; decide
    | false => simp at hx
  · rcases hip with rfl | ⟨c, ds, rfl, h1, h2, h3⟩
    · simp at hx; subst hx; decide
    · simp only [List.mem_cons] at hx
      rcases hx with rfl | hx
      · exact isNumChar_of_dig ⟨by omega, h2⟩
      · exact isNumChar_of_dig (h3 x hx)
  · rcases hfr with rfl | ⟨ds, _, hds, rfl⟩
    · simp at hx
    · simp only [List.mem_cons] at hx
      rcases hx with rfl | hx
      · decide
      · exact isNumChar_of_dig (hds x hx)
  · rcases hex with rfl | ⟨sg, ds, hsg, _, hds, rfl⟩
    · simp at hx
    · simp only [List.mem_cons] at hx
      rcases hx with rfl | rfl | hx
      · decide
      · rcases hsg with rfl | rfl <;> decide
      · exact isNumChar_of_dig (hds x hx)

/-! ## `true` / `false`, member keys, delimiters -/

theorem scan_b_true : b "true" = [116, 114, 117, 101] := by decide
theorem scan_b_false : b "false" = [102, 97, 108, 115, 101] := by decide

theorem valid_boolLit (v : Bool) (σ : List ParseState) (d : Nat) (rest : Bytes) :
    validLoop (mkS .beginValue σ d) (boolText v ++ rest) = validLoop (mkS .endValue σ d) rest := by
  cases v with
  | true =>
    have s1 : scanStep (mkS .beginValue σ d) 116 = (mkS .t σ d, .beginLiteral) := by
      simp [scanStep, stateBeginValue, isJsonWs, Scanner.goto]
    have s2 : scanStep (mkS .t σ d) 114 = (mkS .tr σ d, .cont) := by simp [scanStep, scanExpect, Scanner.goto]
    have s3 : scanStep (mkS .tr σ d) 117 = (mkS .tru σ d, .cont) := by simp [scanStep, scanExpect, Scanner.goto]
    have s4 : scanStep (mkS .tru σ d) 101 = (mkS .endValue σ d, .cont) := by simp [scanStep, scanExpect, Scanner.goto]
    simp only [boolText, if_true, scan_b_true, List.cons_append, List.nil_append]
    rw [validLoop_step _ s1 beginLiteral_ne, validLoop_step _ s2 cont_ne, validLoop_step _ s3 cont_ne,
      validLoop_step _ s4 cont_ne]
  | false =>
    have s1 : scanStep (mkS .beginValue σ d) 102 = (mkS .f σ d, .beginLiteral) := by
      simp [scanStep, stateBeginValue, isJsonWs, Scanner.goto]
    have s2 : scanStep (mkS .f σ d) 97 = (mkS .fa σ d, .cont) := by simp [scanStep, scanExpect, Scanner.goto]
    have s3 : scanStep (mkS .fa σ d) 108 = (mkS .fal σ d, .cont) := by simp [scanStep, scanExpect, Scanner.goto]
    have s4 : scanStep (mkS .fal σ d) 115 = (mkS .fals σ d, .cont) := by simp [scanStep, scanExpect, Scanner.goto]
    have s5 : scanStep (mkS .fals σ d) 101 = (mkS .endValue σ d, .cont) := by
      simp [scanStep, scanExpect, Scanner.goto]
    simp only [boolText, Bool.false_eq_true, if_false, scan_b_false, List.cons_append, List.nil_append]
    rw [validLoop_step _ s1 beginLiteral_ne, validLoop_step _ s2 cont_ne, validLoop_step _ s3 cont_ne,
      validLoop_step _ s4 cont_ne, validLoop_step _ s5 cont_ne]

/-- the member names are plain ASCII -/
theorem key_plain : ∀ k ∈ keyNames, ∀ c ∈ b k, plainOK c = true := by decide

theorem key_SB (k : String) (hk : k ∈ keyNames) : SB (b k) := by
  have := SB_plain_append (b k) [] (key_plain k hk) .nil
  rwa [List.append_nil] at this

/-- `,` `]` `}`: the bytes that follow a value inside an array / object written by the encoder -/
def isDelim (c : UInt8) : Bool := c == 0x2C || c == 0x5D || c == 0x7D

theorem delim_numEnd : ∀ c : UInt8, isDelim c = true → numEnd c = true := by
  apply u8_all; decide +kernel

theorem tailC_delim (xs : List Bytes) (e : UInt8) (r : Bytes) (he : isDelim e = true) :
    ∃ c r', tailC xs ++ e :: r = c :: r' ∧ isDelim c = true := by
  cases xs with
  | nil => exact ⟨e, r, rfl, he⟩
  | cons x xs => exact ⟨44, _, rfl, by decide⟩

/-! ## `validLoop` over arrays and objects -/

/-- `t` is scanned as one value inside an array / object, when `n` more levels may still be opened -/
def VPass (n : Nat) (t : Bytes) : Prop :=
  ∀ (p : ParseState) (σ : List ParseState) (d : Nat) (c : UInt8) (r : Bytes), d + n ≤ maxNestingDepth →
    isDelim c = true →
    validLoop (mkS .beginValue (p :: σ) d) (t ++ c :: r) = validLoop (mkS .endValue (p :: σ) d) (c :: r)

/-- first byte: not a space, not `]` -/
def StartOK (t : Bytes) : Prop := ∃ c m, t = c :: m ∧ isJsonWs c = false ∧ c ≠ 0x5D

theorem valid_bvoe {t : Bytes} (h : StartOK t) (σ : List ParseState) (d : Nat) (rest : Bytes) :
    validLoop (mkS .beginValueOrEmpty σ d) (t ++ rest) = validLoop (mkS .beginValue σ d) (t ++ rest) := by
  obtain ⟨c, m, rfl, h1, h2⟩ := h
  rw [List.cons_append, validLoop, validLoop, step_bvoe σ d c h1 h2]

theorem step_ev (σ : List ParseState) (d : Nat) (c : UInt8) :
    scanStep (mkS .endValue σ d) c = stateEndValue (mkS .endValue σ d) c := rfl

theorem step_arr_comma (σ : List ParseState) (d : Nat) :
    scanStep (mkS .endValue (.arrVal :: σ) d) 0x2C = (mkS .beginValue (.arrVal :: σ) d, .arrayValue) := by
  simp [scanStep, stateEndValue, isJsonWs, Scanner.goto]

theorem arrayValue_ne : ScanOp.arrayValue ≠ ScanOp.error := by decide

theorem valid_arr_elems (n : Nat) (σ : List ParseState) (d : Nat) (hd : d + n ≤ maxNestingDepth) (r : Bytes) :
    ∀ (vs : List Bytes), (∀ v ∈ vs, VPass n v) →
      validLoop (mkS .endValue (.arrVal :: σ) d) (tailC vs ++ 93 :: r) =
        validLoop (mkS .endValue (.arrVal :: σ) d) (93 :: r)
  | [], _ => rfl
  | v :: vs, h => by
    obtain ⟨c, r', e, hc⟩ := tailC_delim vs 93 r (by decide)
    simp only [tailC, List.cons_append, List.append_assoc]
    rw [validLoop_step _ (step_arr_comma σ d) arrayValue_ne, e, h v (by simp) .arrVal σ d c r' hd hc, ← e,
      valid_arr_elems n σ d hd r vs (fun x hx => h x (by simp [hx]))]

theorem valid_arr_body (n : Nat) (σ : List ParseState) (d : Nat) (hd : d + n ≤ maxNestingDepth) (r : Bytes)
    (vs : List Bytes) (h : ∀ v ∈ vs, VPass n v ∧ StartOK v) :
    validLoop (mkS .beginValueOrEmpty (.arrVal :: σ) d) (joinC vs ++ 93 :: r) =
      validLoop (mkS .endValue (.arrVal :: σ) d) (93 :: r) := by
  cases vs with
  | nil =>
    have e : scanStep (mkS .beginValueOrEmpty (.arrVal :: σ) d) 93 = scanStep (mkS .endValue (.arrVal :: σ) d) 93 := by
      rw [step_ev, ← stateEndValue_st .beginValueOrEmpty]
      simp [scanStep, isJsonWs]
    show validLoop _ (93 :: r) = _
    rw [validLoop, validLoop, e]
  | cons v vs =>
    obtain ⟨c, r', e, hc⟩ := tailC_delim vs 93 r (by decide)
    rw [joinC_cons, List.append_assoc, valid_bvoe (h v (by simp)).2, e,
      (h v (by simp)).1 .arrVal σ d c r' hd hc, ← e,
      valid_arr_elems n σ d hd r vs (fun x hx => (h x (by simp [hx])).1)]

theorem step_open_arr (σ : List ParseState) (d : Nat) (hd : d + 1 ≤ maxNestingDepth) :
    scanStep (mkS .beginValue σ d) 0x5B = (mkS .beginValueOrEmpty (.arrVal :: σ) (d + 1), .beginArray) := by
  simp [scanStep, stateBeginValue, isJsonWs, Scanner.push, hd]

theorem step_open_obj (σ : List ParseState) (d : Nat) (hd : d + 1 ≤ maxNestingDepth) :
    scanStep (mkS .beginValue σ d) 0x7B = (mkS .beginStringOrEmpty (.objKey :: σ) (d + 1), .beginObject) := by
  simp [scanStep, stateBeginValue, isJsonWs, Scanner.push, hd]

theorem step_close_arr (p : ParseState) (σ : List ParseState) (d : Nat) :
    scanStep (mkS .endValue (.arrVal :: p :: σ) (d + 1)) 0x5D = (mkS .endValue (p :: σ) d, .endArray) := by
  simp [scanStep, stateEndValue, isJsonWs, Scanner.pop]

theorem step_close_obj (p : ParseState) (σ : List ParseState) (d : Nat) :
    scanStep (mkS .endValue (.objVal :: p :: σ) (d + 1)) 0x7D = (mkS .endValue (p :: σ) d, .endObject) := by
  simp [scanStep, stateEndValue, isJsonWs, Scanner.pop]

/-- the state after the end of the top-level value -/
def topDone : Scanner := { st := .endTop, endTop := true, stack := [], depth := 0 }

theorem step_close_arr_top (d : Nat) :
    scanStep (mkS .endValue [.arrVal] d) 0x5D = (topDone, .endArray) := by
  simp [scanStep, stateEndValue, isJsonWs, Scanner.pop, topDone]

theorem step_close_obj_top (d : Nat) :
    scanStep (mkS .endValue [.objVal] d) 0x7D = (topDone, .endObject) := by
  simp [scanStep, stateEndValue, isJsonWs, Scanner.pop, topDone]

theorem eof_topDone : topDone.eof = true := by decide

theorem beginArray_ne : ScanOp.beginArray ≠ ScanOp.error := by decide
theorem beginObject_ne : ScanOp.beginObject ≠ ScanOp.error := by decide
theorem endArray_ne : ScanOp.endArray ≠ ScanOp.error := by decide
theorem endObject_ne : ScanOp.endObject ≠ ScanOp.error := by decide
theorem objectKey_ne : ScanOp.objectKey ≠ ScanOp.error := by decide
theorem objectValue_ne : ScanOp.objectValue ≠ ScanOp.error := by decide

/-- one member `"key":value`, from a state that expects a key -/
theorem valid_member (n : Nat) (k : String) (v : Bytes) (hk : k ∈ keyNames) (hv : VPass n v) (st : ScanState)
    (hst : st = .beginStringOrEmpty ∨ st = .beginString) (σ : List ParseState) (d : Nat)
    (hd : d + n ≤ maxNestingDepth) (c : UInt8) (r : Bytes) (hc : isDelim c = true) :
    validLoop (mkS st (.objKey :: σ) d) (member (k, v) ++ c :: r) =
      validLoop (mkS .endValue (.objVal :: σ) d) (c :: r) := by
  have s1 : scanStep (mkS st (.objKey :: σ) d) 34 = (mkS .inString (.objKey :: σ) d, .beginLiteral) := by
    rcases hst with rfl | rfl <;> simp [scanStep, stateBeginString, isJsonWs, Scanner.goto]
  have s2 : scanStep (mkS .endValue (.objKey :: σ) d) 58 = (mkS .beginValue (.objVal :: σ) d, .objectKey) := by
    simp [scanStep, stateEndValue, isJsonWs]
  simp only [member, jsonKey, List.cons_append, List.nil_append, List.append_assoc]
  rw [validLoop_step _ s1 beginLiteral_ne, valid_SB (key_SB k hk),
    validLoop_step _ (step_inStr_quote _ d) cont_ne, validLoop_step _ s2 objectKey_ne, hv .objVal σ d c r hd hc]

theorem step_obj_comma (σ : List ParseState) (d : Nat) :
    scanStep (mkS .endValue (.objVal :: σ) d) 0x2C = (mkS .beginString (.objKey :: σ) d, .objectValue) := by
  simp [scanStep, stateEndValue, isJsonWs]

theorem valid_obj_members (n : Nat) (σ : List ParseState) (d : Nat) (hd : d + n ≤ maxNestingDepth) (r : Bytes) :
    ∀ (kvs : List (String × Bytes)), (∀ kv ∈ kvs, kv.1 ∈ keyNames) → (∀ kv ∈ kvs, VPass n kv.2) →
      validLoop (mkS .endValue (.objVal :: σ) d) (tailC (kvs.map member) ++ 125 :: r) =
        validLoop (mkS .endValue (.objVal :: σ) d) (125 :: r)
  | [], _, _ => rfl
  | (k, v) :: kvs, hk, hv => by
    obtain ⟨c, r', e, hc⟩ := tailC_delim (kvs.map member) 125 r (by decide)
    simp only [List.map_cons, tailC, List.cons_append, List.append_assoc]
    rw [validLoop_step _ (step_obj_comma σ d) objectValue_ne, e,
      valid_member n k v (hk (k, v) (by simp)) (hv (k, v) (by simp)) .beginString (.inr rfl) σ d hd c r' hc, ← e,
      valid_obj_members n σ d hd r kvs (fun x hx => hk x (by simp [hx])) (fun x hx => hv x (by simp [hx]))]

theorem valid_obj_body (n : Nat) (σ : List ParseState) (d : Nat) (hd : d + n ≤ maxNestingDepth) (r : Bytes)
    (kv : String × Bytes) (kvs : List (String × Bytes)) (hk : ∀ x ∈ kv :: kvs, x.1 ∈ keyNames)
    (hv : ∀ x ∈ kv :: kvs, VPass n x.2) :
    validLoop (mkS .beginStringOrEmpty (.objKey :: σ) d) (member kv ++ tailC (kvs.map member) ++ 125 :: r) =
      validLoop (mkS .endValue (.objVal :: σ) d) (125 :: r) := by
  obtain ⟨c, r', e, hc⟩ := tailC_delim (kvs.map member) 125 r (by decide)
  obtain ⟨k, v⟩ := kv
  rw [List.append_assoc, e,
    valid_member n k v (hk (k, v) (by simp)) (hv (k, v) (by simp)) .beginStringOrEmpty (.inl rfl) σ d hd c r' hc, ← e,
    valid_obj_members n σ d hd r kvs (fun x hx => hk x (by simp [hx])) (fun x hx => hv x (by simp [hx]))]

/-! ## `valid` on everything the encoder writes -/

theorem scan_leaf_cases (hflt : ∀ (f : F64) (t : Bytes), fmtJSON f = some t → JsonNum t) {t : Bytes} (h : LeafEnc t) :
    (∃ o, SB o ∧ t = 34 :: (o ++ [34])) ∨ JsonNum t := by
  cases h with
  | str s => exact .inl (encodeString_SB s)
  | int i => exact .inr (jsonNum_fmtInt i)
  | flt f t hf => exact .inr (hflt f t hf)

theorem dig_start : ∀ c : UInt8, isDigit c = true → isJsonWs c = false ∧ c ≠ 0x5D := by
  apply u8_all; decide +kernel

theorem jsonNum_start {t : Bytes} (h : JsonNum t) : StartOK t := by
  obtain ⟨c, m, rfl, hc⟩ := jsonNum_head h
  rcases hc with rfl | hc
  · exact ⟨45, m, rfl, by decide, by decide⟩
  · exact ⟨c, m, rfl, dig_start c (isDigit_of_dig hc)⟩

theorem enc_start (hflt : ∀ (f : F64) (t : Bytes), fmtJSON f = some t → JsonNum t) {n : Nat} {t : Bytes}
    (h : Enc n t) : StartOK t := by
  cases h with
  | leaf n t hl =>
    rcases scan_leaf_cases hflt hl with ⟨o, _, rfl⟩ | hn
    · exact ⟨34, _, rfl, by decide, by decide⟩
    · exact jsonNum_start hn
  | bool n v =>
    cases v
    · exact ⟨102, _, by simp only [boolText, Bool.false_eq_true, if_false, scan_b_false]; rfl, by decide, by decide⟩
    · exact ⟨116, _, by simp only [boolText, if_true, scan_b_true]; rfl, by decide, by decide⟩
  | arr n vs _ => exact ⟨91, _, arrText_eq vs, by decide, by decide⟩
  | obj n kvs _ _ _ =>
    exact ⟨123, _, by simp only [objText, b_lbrace, List.cons_append, List.nil_append]; rfl, by decide, by decide⟩

theorem valid_inner (hflt : ∀ (f : F64) (t : Bytes), fmtJSON f = some t → JsonNum t) {n : Nat} {t : Bytes}
    (h : Enc n t) : VPass n t := by
  induction h with
  | leaf n t hl =>
    intro p σ d c r hd hc
    rcases scan_leaf_cases hflt hl with ⟨o, ho, rfl⟩ | hn
    · have := valid_strLit ho (p :: σ) d (c :: r)
      simpa only [List.cons_append, List.append_assoc, List.nil_append] using this
    · exact valid_numLit t hn (p :: σ) d (c :: r) (delim_numEnd c hc)
  | bool n v =>
    intro p σ d c r hd hc
    exact valid_boolLit v (p :: σ) d (c :: r)
  | arr n vs hvs ih =>
    intro p σ d c r hd hc
    have hd1 : d + 1 ≤ maxNestingDepth := by omega
    have hd2 : d + 1 + n ≤ maxNestingDepth := by omega
    rw [arrText_eq]
    simp only [List.cons_append, List.append_assoc, List.nil_append]
    rw [validLoop_step _ (step_open_arr (p :: σ) d hd1) beginArray_ne,
      valid_arr_body n (p :: σ) (d + 1) hd2 (c :: r) vs (fun v hv => ⟨ih v hv, enc_start hflt (hvs v hv)⟩),
      validLoop_step _ (step_close_arr p σ d) endArray_ne]
  | obj n kvs hne hk hvs ih =>
    intro p σ d c r hd hc
    have hd1 : d + 1 ≤ maxNestingDepth := by omega
    have hd2 : d + 1 + n ≤ maxNestingDepth := by omega
    cases kvs with
    | nil => exact absurd rfl hne
    | cons kv kvs =>
      rw [objText_cons]
      simp only [List.cons_append, List.append_assoc, List.nil_append]
      have := valid_obj_body n (p :: σ) (d + 1) hd2 (c :: r) kv kvs hk ih
      simp only [List.append_assoc] at this
      rw [validLoop_step _ (step_open_obj (p :: σ) d hd1) beginObject_ne, this,
        validLoop_step _ (step_close_obj p σ d) endObject_ne]

theorem valid_enc (hflt : ∀ (f : F64) (t : Bytes), fmtJSON f = some t → JsonNum t) :
    ∀ n t, n ≤ maxNestingDepth → Enc n t → valid t = true := by
  intro n t hn h
  show validLoop (mkS .beginValue [] 0) t = true
  cases h with
  | leaf n t hl =>
    rcases scan_leaf_cases hflt hl with ⟨o, ho, rfl⟩ | hn
    · rw [valid_strLit ho]; exact eof_endValue 0
    · exact valid_jsonNum t hn
  | bool n v =>
    have := valid_boolLit v [] 0 []
    rw [List.append_nil] at this
    rw [this]; exact eof_endValue 0
  | arr n vs hvs =>
    have hd1 : 0 + 1 ≤ maxNestingDepth := by omega
    have hd2 : 0 + 1 + n ≤ maxNestingDepth := by omega
    rw [arrText_eq, validLoop_step _ (step_open_arr [] 0 hd1) beginArray_ne,
      valid_arr_body n [] (0 + 1) hd2 [] vs (fun v hv => ⟨valid_inner hflt (hvs v hv), enc_start hflt (hvs v hv)⟩),
      validLoop_step _ (step_close_arr_top _) endArray_ne]
    exact eof_topDone
  | obj n kvs hne hk hvs =>
    have hd1 : 0 + 1 ≤ maxNestingDepth := by omega
    have hd2 : 0 + 1 + n ≤ maxNestingDepth := by omega
    cases kvs with
    | nil => exact absurd rfl hne
    | cons kv kvs =>
      have := valid_obj_body n [] (0 + 1) hd2 [] kv kvs hk (fun x hx => valid_inner hflt (hvs x hx))
      rw [objText_cons, validLoop_step _ (step_open_obj [] 0 hd1) beginObject_ne, this,
        validLoop_step _ (step_close_obj_top _) endObject_ne]
      exact eof_topDone

#print axioms valid_str
#print axioms valid_jsonNum
#print axioms valid_enc

end Laws
end GoLucene
