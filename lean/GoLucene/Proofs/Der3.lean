import GoLucene.Proofs.Der2
/-
  Corollaries of the derivation theorem: the leaves of the tree, read left to right, are exactly the term
  tokens of the input, in order — nothing dropped, duplicated, reordered or invented.
-/
namespace GoLucene

def optLeaves (f : Ex → List Tok) : Option Ex → List Tok
  | none => []
  | some e => f e

/-- the term tokens at the leaves of a tree of reductions, left to right -/
def Ex.leaves : Ex → List Tok
  | .leaf t => [t]
  | .eq f v => f.leaves ++ v.leaves
  | .inn f _ => f.leaves
  | .cmp _ _ f v => f.leaves ++ v.leaves
  | .range f lo hi _ => f.leaves ++ lo.leaves ++ hi.leaves
  | .and l r => l.leaves ++ r.leaves
  | .or l r => l.leaves ++ r.leaves
  | .not e => e.leaves
  | .must e => e.leaves
  | .mustNot e => e.leaves
  | .fuzzy e none => e.leaves
  | .fuzzy e (some d) => e.leaves ++ d.leaves
  | .boost e none => e.leaves
  | .boost e (some d) => e.leaves ++ d.leaves

def terms (toks : List Tok) : List Tok := toks.filter (fun t => t.typ.isTerm)

theorem terms_append (a c : List Tok) : terms (a ++ c) = terms a ++ terms c := by simp [terms]

theorem terms_cons_op (o : Tok) (a : List Tok) (h : o.typ.isTerm = false) : terms (o :: a) = terms a := by
  simp [terms, h]

theorem Der_leaves {toks : List Tok} {e : Ex} (h : Der toks e) : e.leaves = terms toks := by
  induction h with
  | leaf t h => simp [Ex.leaves, terms, h]
  | paren o c ho hc _ ih =>
    have h1 : o.typ.isTerm = false := by simp [ho, TT.isTerm]
    have h2 : c.typ.isTerm = false := by simp [hc, TT.isTerm]
    rw [terms_cons_op _ _ h1, terms_append, ih]; simp [terms, h2]
  | and o ho _ _ ih1 ih2 =>
    have h1 : o.typ.isTerm = false := by simp [ho, TT.isTerm]
    rw [terms_append, terms_cons_op _ _ h1]; simp [Ex.leaves, ih1, ih2]
  | jux _ _ ih1 ih2 => rw [terms_append]; simp [Ex.leaves, ih1, ih2]
  | or o ho _ _ ih1 ih2 =>
    have h1 : o.typ.isTerm = false := by simp [ho, TT.isTerm]
    rw [terms_append, terms_cons_op _ _ h1]; simp [Ex.leaves, ih1, ih2]
  | eq o ho _ _ ih1 ih2 =>
    have h1 : o.typ.isTerm = false := by rcases ho with h | h <;> simp [h, TT.isTerm]
    rw [terms_append, terms_cons_op _ _ h1]; simp [Ex.leaves, ih1, ih2]
  | cmp o p gt ho hp _ _ ih1 ih2 =>
    have h1 : o.typ.isTerm = false := by simp [ho, TT.isTerm]
    have h2 : p.typ.isTerm = false := by cases gt <;> simp [hp, TT.isTerm]
    rw [terms_append, terms_cons_op _ _ h1, terms_cons_op _ _ h2]; simp [Ex.leaves, ih1, ih2]
  | cmpEq o p q gt ho hp hq _ _ ih1 ih2 =>
    have h1 : o.typ.isTerm = false := by simp [ho, TT.isTerm]
    have h2 : p.typ.isTerm = false := by cases gt <;> simp [hp, TT.isTerm]
    have h3 : q.typ.isTerm = false := by simp [hq, TT.isTerm]
    rw [terms_append, terms_cons_op _ _ h1, terms_cons_op _ _ h2, terms_cons_op _ _ h3]; simp [Ex.leaves, ih1, ih2]
  | range o lb to rb incl ho hlb hto hrb hincl _ _ _ ih1 ih2 ih3 =>
    have h1 : o.typ.isTerm = false := by simp [ho, TT.isTerm]
    have h2 : lb.typ.isTerm = false := by rcases hlb with h | h <;> simp [h, TT.isTerm]
    have h3 : to.typ.isTerm = false := by simp [hto, TT.isTerm]
    have h4 : rb.typ.isTerm = false := by rcases hrb with h | h <;> simp [h, TT.isTerm]
    rw [terms_append, terms_cons_op _ _ h1, terms_cons_op _ _ h2, terms_append, terms_cons_op _ _ h3, terms_append]
    simp [Ex.leaves, ih1, ih2, ih3, terms, h4]
  | not o ho _ ih =>
    have h1 : o.typ.isTerm = false := by simp [ho, TT.isTerm]
    rw [terms_cons_op _ _ h1]; simp [Ex.leaves, ih]
  | must o ho _ ih =>
    have h1 : o.typ.isTerm = false := by simp [ho, TT.isTerm]
    rw [terms_cons_op _ _ h1]; simp [Ex.leaves, ih]
  | mustNot o ho _ ih =>
    have h1 : o.typ.isTerm = false := by simp [ho, TT.isTerm]
    rw [terms_cons_op _ _ h1]; simp [Ex.leaves, ih]
  | fuzzy0 o ho _ ih =>
    have h1 : o.typ.isTerm = false := by simp [ho, TT.isTerm]
    rw [terms_append]; simp [Ex.leaves, ih, terms, h1]
  | fuzzy1 o ho _ _ ih1 ih2 =>
    have h1 : o.typ.isTerm = false := by simp [ho, TT.isTerm]
    rw [terms_append, terms_cons_op _ _ h1]; simp [Ex.leaves, ih1, ih2]
  | boost0 o ho _ ih =>
    have h1 : o.typ.isTerm = false := by simp [ho, TT.isTerm]
    rw [terms_append]; simp [Ex.leaves, ih, terms, h1]
  | boost1 o ho _ _ ih1 ih2 =>
    have h1 : o.typ.isTerm = false := by simp [ho, TT.isTerm]
    rw [terms_append, terms_cons_op _ _ h1]; simp [Ex.leaves, ih1, ih2]

end GoLucene
