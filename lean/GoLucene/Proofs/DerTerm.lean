import GoLucene.Proofs.Der3
/-
  Juxtaposition only between two term tokens.

  `Der` (Proofs/Der.lean) lets ANY two derivations be juxtaposed.  The parser injects an implicit AND only when a
  term token is shifted while the top of the stack is an expression, and a term token is always shifted at once
  (`shouldShift _ t = true` for a term `t`), never after a reduce with that token as lookahead; so at that moment
  the expression on top is the leaf of the PREVIOUS token, which is a term token.  (`( a ) b` is rejected: when `b`
  arrives the top of the stack is the token `)`, no AND is injected and the final reduce fails.  `a ~ b` is the
  fuzzy with distance `b`: the top is the token `~`.)  Hence the strengthened grammar `DerT`: `Der` with the
  juxtaposition production restricted to a left part ENDING in a term token and a right part STARTING with one.

      parse_soundT : (∀ t ∈ toks, t.typ ≠ .eof) → parseToks isNum toks = .ok e → DerT toks e

  Proof.  The run is read on the *marked* stream `List (Option Tok)` in which every injected AND is an explicit
  marker `none` (of type `.tand`).  `DerM` is the grammar on marked streams: it has no juxtaposition production at
  all (an injected AND is an ordinary AND whose operator token is the marker), so the stack invariant of
  Proofs/Der.lean/Der2.lean carries over with every segment non-empty.  Independently of the stack, the consumed
  marked stream satisfies `Marks`: every marker stands between two term tokens (`run_soundM`).  Finally a
  `DerM`-derivation of a stream satisfying `Marks` erases to a `DerT`-derivation (`derM_toT`): `Marks` is inherited
  by the segment of every sub-derivation, because such a segment neither starts nor ends with a marker.
-/
namespace GoLucene

/-- the documented grammar with juxtaposition only between a part ending in a term token and a part starting with
    a term token -/
inductive DerT : List Tok → Ex → Prop
  | leaf (t : Tok) (h : t.typ.isTerm = true) : DerT [t] (.leaf t)
  | paren (o c : Tok) (ho : o.typ = .lparen) (hc : c.typ = .rparen) {a e} : DerT a e → DerT (o :: (a ++ [c])) e
  | and (o : Tok) (ho : o.typ = .tand) {a b l r} : DerT a l → DerT b r → DerT (a ++ o :: b) (.and l r)
  | jux {a b l r} : DerT a l → DerT b r →
      ((a.getLast?.map (·.typ.isTerm)) = some true ∧ (b.head?.map (·.typ.isTerm)) = some true) →
      DerT (a ++ b) (.and l r)
  | or (o : Tok) (ho : o.typ = .tor) {a b l r} : DerT a l → DerT b r → DerT (a ++ o :: b) (.or l r)
  | eq (o : Tok) (ho : o.typ = .colon ∨ o.typ = .equal) {a b f v} : DerT a f → DerT b v → DerT (a ++ o :: b) (.eq f v)
  | cmp (o p : Tok) (gt : Bool) (ho : o.typ = .colon) (hp : p.typ = if gt then .greater else .less) {a b f v} :
      DerT a f → DerT b v → DerT (a ++ o :: p :: b) (.cmp gt false f v)
  | cmpEq (o p q : Tok) (gt : Bool) (ho : o.typ = .colon) (hp : p.typ = if gt then .greater else .less)
      (hq : q.typ = .equal) {a b f v} : DerT a f → DerT b v → DerT (a ++ o :: p :: q :: b) (.cmp gt true f v)
  | range (o lb to rb : Tok) (incl : Bool) (ho : o.typ = .colon)
      (hlb : lb.typ = .lsquare ∨ lb.typ = .lcurly) (hto : to.typ = .tto) (hrb : rb.typ = .rsquare ∨ rb.typ = .rcurly)
      (hincl : incl = decide (lb.typ = .lsquare ∧ rb.typ = .rsquare)) {a b c f lo hi} :
      DerT a f → DerT b lo → DerT c hi → DerT (a ++ o :: lb :: (b ++ to :: (c ++ [rb]))) (.range f lo hi incl)
  | not (o : Tok) (ho : o.typ = .tnot) {a e} : DerT a e → DerT (o :: a) (.not e)
  | must (o : Tok) (ho : o.typ = .plus) {a e} : DerT a e → DerT (o :: a) (.must e)
  | mustNot (o : Tok) (ho : o.typ = .minus) {a e} : DerT a e → DerT (o :: a) (.mustNot e)
  | fuzzy0 (o : Tok) (ho : o.typ = .tilde) {a e} : DerT a e → DerT (a ++ [o]) (.fuzzy e none)
  | fuzzy1 (o : Tok) (ho : o.typ = .tilde) {a b e d} : DerT a e → DerT b d → DerT (a ++ o :: b) (.fuzzy e (some d))
  | boost0 (o : Tok) (ho : o.typ = .carrot) {a e} : DerT a e → DerT (a ++ [o]) (.boost e none)
  | boost1 (o : Tok) (ho : o.typ = .carrot) {a b e d} : DerT a e → DerT b d → DerT (a ++ o :: b) (.boost e (some d))

/-- the restricted grammar is a sub-relation of the documented one -/
theorem DerT.toDer {toks : List Tok} {e : Ex} (h : DerT toks e) : Der toks e := by
  induction h with
  | leaf t h => exact .leaf t h
  | paren o c ho hc _ ih => exact .paren o c ho hc ih
  | and o ho _ _ ih1 ih2 => exact .and o ho ih1 ih2
  | jux _ _ _ ih1 ih2 => exact .jux ih1 ih2
  | or o ho _ _ ih1 ih2 => exact .or o ho ih1 ih2
  | eq o ho _ _ ih1 ih2 => exact .eq o ho ih1 ih2
  | cmp o p gt ho hp _ _ ih1 ih2 => exact .cmp o p gt ho hp ih1 ih2
  | cmpEq o p q gt ho hp hq _ _ ih1 ih2 => exact .cmpEq o p q gt ho hp hq ih1 ih2
  | range o lb to rb incl ho hlb hto hrb hincl _ _ _ ih1 ih2 ih3 =>
    exact .range o lb to rb incl ho hlb hto hrb hincl ih1 ih2 ih3
  | not o ho _ ih => exact .not o ho ih
  | must o ho _ ih => exact .must o ho ih
  | mustNot o ho _ ih => exact .mustNot o ho ih
  | fuzzy0 o ho _ ih => exact .fuzzy0 o ho ih
  | fuzzy1 o ho _ _ ih1 ih2 => exact .fuzzy1 o ho ih1 ih2
  | boost0 o ho _ ih => exact .boost0 o ho ih
  | boost1 o ho _ _ ih1 ih2 => exact .boost1 o ho ih1 ih2

/-- the corollary of Proofs/Der3.lean for the restricted grammar -/
theorem DerT_leaves {toks : List Tok} {e : Ex} (h : DerT toks e) : e.leaves = terms toks :=
  Der_leaves h.toDer

namespace DerTerm

/-! ### marked streams -/

/-- a token of the marked stream: a real token, or the marker of an injected AND -/
abbrev MT := Option Tok

def mtyp : MT → TT
  | none => .tand
  | some t => t.typ

@[simp] theorem mtyp_some (t : Tok) : mtyp (some t) = t.typ := rfl
@[simp] theorem mtyp_none : mtyp none = .tand := rfl

theorem mtyp_real (o : MT) (h : mtyp o ≠ .tand) : ∃ o', o = some o' := by
  cases o with
  | none => exact absurd rfl h
  | some t => exact ⟨t, rfl⟩

/-- forget the markers -/
def erase (l : List MT) : List Tok := l.filterMap id

@[simp] theorem erase_nil : erase [] = [] := rfl
@[simp] theorem erase_some (t : Tok) (l : List MT) : erase (some t :: l) = t :: erase l := by simp [erase]
@[simp] theorem erase_none (l : List MT) : erase (none :: l) = erase l := by simp [erase]
@[simp] theorem erase_append (a c : List MT) : erase (a ++ c) = erase a ++ erase c := by simp [erase]
theorem erase_map_some (l : List Tok) : erase (l.map some) = l := by
  induction l with
  | nil => rfl
  | cons x xs ih => simp [ih]

/-- the grammar on marked streams: no juxtaposition, an injected AND is an AND whose operator is the marker -/
inductive DerM : List MT → Ex → Prop
  | leaf (t : Tok) (h : t.typ.isTerm = true) : DerM [some t] (.leaf t)
  | paren (o c : MT) (ho : mtyp o = .lparen) (hc : mtyp c = .rparen) {a e} : DerM a e → DerM (o :: (a ++ [c])) e
  | and (o : MT) (ho : mtyp o = .tand) {a b l r} : DerM a l → DerM b r → DerM (a ++ o :: b) (.and l r)
  | or (o : MT) (ho : mtyp o = .tor) {a b l r} : DerM a l → DerM b r → DerM (a ++ o :: b) (.or l r)
  | eq (o : MT) (ho : mtyp o = .colon ∨ mtyp o = .equal) {a b f v} : DerM a f → DerM b v → DerM (a ++ o :: b) (.eq f v)
  | cmp (o p : MT) (gt : Bool) (ho : mtyp o = .colon) (hp : mtyp p = if gt then .greater else .less) {a b f v} :
      DerM a f → DerM b v → DerM (a ++ o :: p :: b) (.cmp gt false f v)
  | cmpEq (o p q : MT) (gt : Bool) (ho : mtyp o = .colon) (hp : mtyp p = if gt then .greater else .less)
      (hq : mtyp q = .equal) {a b f v} : DerM a f → DerM b v → DerM (a ++ o :: p :: q :: b) (.cmp gt true f v)
  | range (o lb to rb : MT) (incl : Bool) (ho : mtyp o = .colon)
      (hlb : mtyp lb = .lsquare ∨ mtyp lb = .lcurly) (hto : mtyp to = .tto) (hrb : mtyp rb = .rsquare ∨ mtyp rb = .rcurly)
      (hincl : incl = decide (mtyp lb = .lsquare ∧ mtyp rb = .rsquare)) {a b c f lo hi} :
      DerM a f → DerM b lo → DerM c hi → DerM (a ++ o :: lb :: (b ++ to :: (c ++ [rb]))) (.range f lo hi incl)
  | not (o : MT) (ho : mtyp o = .tnot) {a e} : DerM a e → DerM (o :: a) (.not e)
  | must (o : MT) (ho : mtyp o = .plus) {a e} : DerM a e → DerM (o :: a) (.must e)
  | mustNot (o : MT) (ho : mtyp o = .minus) {a e} : DerM a e → DerM (o :: a) (.mustNot e)
  | fuzzy0 (o : MT) (ho : mtyp o = .tilde) {a e} : DerM a e → DerM (a ++ [o]) (.fuzzy e none)
  | fuzzy1 (o : MT) (ho : mtyp o = .tilde) {a b e d} : DerM a e → DerM b d → DerM (a ++ o :: b) (.fuzzy e (some d))
  | boost0 (o : MT) (ho : mtyp o = .carrot) {a e} : DerM a e → DerM (a ++ [o]) (.boost e none)
  | boost1 (o : MT) (ho : mtyp o = .carrot) {a b e d} : DerM a e → DerM b d → DerM (a ++ o :: b) (.boost e (some d))

/-! ### the stack invariant on marked streams (as in Proofs/Der.lean, every segment non-empty) -/

def goodM : Item → List MT → Prop
  | .tok t, seg => ∃ o, seg = [o] ∧ mtyp o = t
  | .ex e, seg => DerM seg e

inductive GoodsM : List Item → List (List MT) → Prop
  | nil : GoodsM [] []
  | cons {it seg its segs} : goodM it seg → GoodsM its segs → GoodsM (it :: its) (seg :: segs)

theorem goods_cons_inv {it : Item} {its : List Item} {ss : List (List MT)} (h : GoodsM (it :: its) ss) :
    ∃ seg segs, ss = seg :: segs ∧ goodM it seg ∧ GoodsM its segs := by
  cases h with
  | cons h1 h2 => exact ⟨_, _, rfl, h1, h2⟩

theorem goods_nil_inv {ss : List (List MT)} (h : GoodsM [] ss) : ss = [] := by
  cases h; rfl

theorem goods2 {a b : Item} {ss} (h : GoodsM [a, b] ss) : ∃ s1 s2, ss = [s1, s2] ∧ goodM a s1 ∧ goodM b s2 := by
  obtain ⟨s1, r1, rfl, g1, h⟩ := goods_cons_inv h
  obtain ⟨s2, r2, rfl, g2, h⟩ := goods_cons_inv h
  have := goods_nil_inv h; subst this
  exact ⟨_, _, rfl, g1, g2⟩
theorem goods3 {a b c : Item} {ss} (h : GoodsM [a, b, c] ss) :
    ∃ s1 s2 s3, ss = [s1, s2, s3] ∧ goodM a s1 ∧ goodM b s2 ∧ goodM c s3 := by
  obtain ⟨s1, r1, rfl, g1, h⟩ := goods_cons_inv h
  obtain ⟨s2, s3, rfl, g2, g3⟩ := goods2 h
  exact ⟨_, _, _, rfl, g1, g2, g3⟩
theorem goods4 {a b c d : Item} {ss} (h : GoodsM [a, b, c, d] ss) :
    ∃ s1 s2 s3 s4, ss = [s1, s2, s3, s4] ∧ goodM a s1 ∧ goodM b s2 ∧ goodM c s3 ∧ goodM d s4 := by
  obtain ⟨s1, r1, rfl, g1, h⟩ := goods_cons_inv h
  obtain ⟨s2, s3, s4, rfl, g2, g3, g4⟩ := goods3 h
  exact ⟨_, _, _, _, rfl, g1, g2, g3, g4⟩
theorem goods5 {a b c d e : Item} {ss} (h : GoodsM [a, b, c, d, e] ss) :
    ∃ s1 s2 s3 s4 s5, ss = [s1, s2, s3, s4, s5] ∧ goodM a s1 ∧ goodM b s2 ∧ goodM c s3 ∧ goodM d s4 ∧ goodM e s5 := by
  obtain ⟨s1, r1, rfl, g1, h⟩ := goods_cons_inv h
  obtain ⟨s2, s3, s4, s5, rfl, g2, g3, g4, g5⟩ := goods4 h
  exact ⟨_, _, _, _, _, rfl, g1, g2, g3, g4, g5⟩
theorem goods7 {a b c d e f g : Item} {ss} (h : GoodsM [a, b, c, d, e, f, g] ss) :
    ∃ s1 s2 s3 s4 s5 s6 s7, ss = [s1, s2, s3, s4, s5, s6, s7] ∧ goodM a s1 ∧ goodM b s2 ∧ goodM c s3 ∧ goodM d s4 ∧
      goodM e s5 ∧ goodM f s6 ∧ goodM g s7 := by
  obtain ⟨s1, r1, rfl, g1, h⟩ := goods_cons_inv h
  obtain ⟨s2, r2, rfl, g2, h⟩ := goods_cons_inv h
  obtain ⟨s3, s4, s5, s6, s7, rfl, g3, g4, g5, g6, g7⟩ := goods5 h
  exact ⟨_, _, _, _, _, _, _, rfl, g1, g2, g3, g4, g5, g6, g7⟩

/-- every reducer builds a production of the marked grammar from its handle -/
theorem tryReduce_soundM (isNum : Bool → Ex → Bool) (top : List Item) (segs : List (List MT))
    (hg : GoodsM top segs) (repl : List Item) (k : Nat) (h : tryReduce isNum top = some (repl, k)) :
    ∃ e, repl = [.ex e] ∧ DerM segs.flatten e := by
  unfold tryReduce at h
  split at h
  case h_1 l r =>  -- and (explicit or injected)
    simp at h; obtain ⟨rfl, rfl⟩ := h
    obtain ⟨s1, s2, s3, rfl, g1, g2, g3⟩ := goods3 hg
    obtain ⟨o, rfl, ho⟩ := g2
    exact ⟨_, rfl, by simpa using DerM.and o ho g1 g3⟩
  case h_2 l r =>
    simp at h; obtain ⟨rfl, rfl⟩ := h
    obtain ⟨s1, s2, s3, rfl, g1, g2, g3⟩ := goods3 hg
    obtain ⟨o, rfl, ho⟩ := g2
    exact ⟨_, rfl, by simpa using DerM.or o ho g1 g3⟩
  case h_3 f v =>
    simp at h; obtain ⟨rfl, rfl⟩ := h
    obtain ⟨s1, s2, s3, rfl, g1, g2, g3⟩ := goods3 hg
    obtain ⟨o, rfl, ho⟩ := g2
    exact ⟨_, rfl, by simpa using DerM.eq o (Or.inr ho) g1 g3⟩
  case h_4 f v =>
    simp at h; obtain ⟨rfl, rfl⟩ := h
    obtain ⟨s1, s2, s3, rfl, g1, g2, g3⟩ := goods3 hg
    obtain ⟨o, rfl, ho⟩ := g2
    exact ⟨_, rfl, by simpa using DerM.eq o (Or.inl ho) g1 g3⟩
  case h_5 f v =>
    simp at h; obtain ⟨rfl, rfl⟩ := h
    obtain ⟨s1, s2, s3, s4, rfl, g1, g2, g3, g4⟩ := goods4 hg
    obtain ⟨o, rfl, ho⟩ := g2
    obtain ⟨p, rfl, hp⟩ := g3
    exact ⟨_, rfl, by simpa using DerM.cmp o p true ho (by simpa using hp) g1 g4⟩
  case h_6 f v =>
    simp at h; obtain ⟨rfl, rfl⟩ := h
    obtain ⟨s1, s2, s3, s4, rfl, g1, g2, g3, g4⟩ := goods4 hg
    obtain ⟨o, rfl, ho⟩ := g2
    obtain ⟨p, rfl, hp⟩ := g3
    exact ⟨_, rfl, by simpa using DerM.cmp o p false ho (by simpa using hp) g1 g4⟩
  case h_7 f v =>
    simp at h; obtain ⟨rfl, rfl⟩ := h
    obtain ⟨s1, s2, s3, s4, s5, rfl, g1, g2, g3, g4, g5⟩ := goods5 hg
    obtain ⟨o, rfl, ho⟩ := g2
    obtain ⟨p, rfl, hp⟩ := g3
    obtain ⟨q, rfl, hq⟩ := g4
    exact ⟨_, rfl, by simpa using DerM.cmpEq o p q true ho (by simpa using hp) hq g1 g5⟩
  case h_8 f v =>
    simp at h; obtain ⟨rfl, rfl⟩ := h
    obtain ⟨s1, s2, s3, s4, s5, rfl, g1, g2, g3, g4, g5⟩ := goods5 hg
    obtain ⟨o, rfl, ho⟩ := g2
    obtain ⟨p, rfl, hp⟩ := g3
    obtain ⟨q, rfl, hq⟩ := g4
    exact ⟨_, rfl, by simpa using DerM.cmpEq o p q false ho (by simpa using hp) hq g1 g5⟩
  case h_9 e =>
    simp at h; obtain ⟨rfl, rfl⟩ := h
    obtain ⟨s1, s2, rfl, g1, g2⟩ := goods2 hg
    obtain ⟨o, rfl, ho⟩ := g1
    exact ⟨_, rfl, by simpa using DerM.not o ho g2⟩
  case h_10 e =>
    simp at h; obtain ⟨rfl, rfl⟩ := h
    obtain ⟨s1, s2, s3, rfl, g1, g2, g3⟩ := goods3 hg
    obtain ⟨o, rfl, ho⟩ := g1
    obtain ⟨c, rfl, hc⟩ := g3
    exact ⟨_, rfl, by simpa using DerM.paren o c ho hc g2⟩
  case h_11 e =>
    simp at h; obtain ⟨rfl, rfl⟩ := h
    obtain ⟨s1, s2, rfl, g1, g2⟩ := goods2 hg
    obtain ⟨o, rfl, ho⟩ := g1
    exact ⟨_, rfl, by simpa using DerM.must o ho g2⟩
  case h_12 e =>
    simp at h; obtain ⟨rfl, rfl⟩ := h
    obtain ⟨s1, s2, rfl, g1, g2⟩ := goods2 hg
    obtain ⟨o, rfl, ho⟩ := g1
    exact ⟨_, rfl, by simpa using DerM.mustNot o ho g2⟩
  case h_13 e =>
    simp at h; obtain ⟨rfl, rfl⟩ := h
    obtain ⟨s1, s2, rfl, g1, g2⟩ := goods2 hg
    obtain ⟨o, rfl, ho⟩ := g2
    exact ⟨_, rfl, by simpa using DerM.fuzzy0 o ho g1⟩
  case h_14 e d =>
    split at h
    · simp at h; obtain ⟨rfl, rfl⟩ := h
      obtain ⟨s1, s2, s3, rfl, g1, g2, g3⟩ := goods3 hg
      obtain ⟨o, rfl, ho⟩ := g2
      exact ⟨_, rfl, by simpa using DerM.fuzzy1 o ho g1 g3⟩
    · simp at h
  case h_15 e =>
    simp at h; obtain ⟨rfl, rfl⟩ := h
    obtain ⟨s1, s2, rfl, g1, g2⟩ := goods2 hg
    obtain ⟨o, rfl, ho⟩ := g2
    exact ⟨_, rfl, by simpa using DerM.boost0 o ho g1⟩
  case h_16 e d =>
    split at h
    · simp at h; obtain ⟨rfl, rfl⟩ := h
      obtain ⟨s1, s2, s3, rfl, g1, g2, g3⟩ := goods3 hg
      obtain ⟨o, rfl, ho⟩ := g2
      exact ⟨_, rfl, by simpa using DerM.boost1 o ho g1 g3⟩
    · simp at h
  case h_17 f lo hi =>
    simp at h; obtain ⟨rfl, rfl⟩ := h
    obtain ⟨s1, s2, s3, s4, s5, s6, s7, rfl, g1, g2, g3, g4, g5, g6, g7⟩ := goods7 hg
    obtain ⟨o, rfl, ho⟩ := g2
    obtain ⟨lb, rfl, hlb⟩ := g3
    obtain ⟨to, rfl, hto⟩ := g5
    obtain ⟨rb, rfl, hrb⟩ := g7
    exact ⟨_, rfl, by simpa using DerM.range o lb to rb true ho (Or.inl hlb) hto (Or.inl hrb) (by simp [hlb, hrb]) g1 g4 g6⟩
  case h_18 f lo hi =>
    simp at h; obtain ⟨rfl, rfl⟩ := h
    obtain ⟨s1, s2, s3, s4, s5, s6, s7, rfl, g1, g2, g3, g4, g5, g6, g7⟩ := goods7 hg
    obtain ⟨o, rfl, ho⟩ := g2
    obtain ⟨lb, rfl, hlb⟩ := g3
    obtain ⟨to, rfl, hto⟩ := g5
    obtain ⟨rb, rfl, hrb⟩ := g7
    exact ⟨_, rfl, by simpa using DerM.range o lb to rb false ho (Or.inl hlb) hto (Or.inr hrb) (by simp [hlb, hrb]) g1 g4 g6⟩
  case h_19 f lo hi =>
    simp at h; obtain ⟨rfl, rfl⟩ := h
    obtain ⟨s1, s2, s3, s4, s5, s6, s7, rfl, g1, g2, g3, g4, g5, g6, g7⟩ := goods7 hg
    obtain ⟨o, rfl, ho⟩ := g2
    obtain ⟨lb, rfl, hlb⟩ := g3
    obtain ⟨to, rfl, hto⟩ := g5
    obtain ⟨rb, rfl, hrb⟩ := g7
    exact ⟨_, rfl, by simpa using DerM.range o lb to rb false ho (Or.inr hlb) hto (Or.inl hrb) (by simp [hlb, hrb]) g1 g4 g6⟩
  case h_20 f lo hi =>
    simp at h; obtain ⟨rfl, rfl⟩ := h
    obtain ⟨s1, s2, s3, s4, s5, s6, s7, rfl, g1, g2, g3, g4, g5, g6, g7⟩ := goods7 hg
    obtain ⟨o, rfl, ho⟩ := g2
    obtain ⟨lb, rfl, hlb⟩ := g3
    obtain ⟨to, rfl, hto⟩ := g5
    obtain ⟨rb, rfl, hrb⟩ := g7
    exact ⟨_, rfl, by simpa using DerM.range o lb to rb false ho (Or.inr hlb) hto (Or.inr hrb) (by simp [hlb, hrb]) g1 g4 g6⟩
  case h_21 => simp at h

theorem goods_append {a b : List Item} {sa sb : List (List MT)} (ha : GoodsM a sa) (hb : GoodsM b sb) :
    GoodsM (a ++ b) (sa ++ sb) := by
  induction ha with
  | nil => simpa using hb
  | cons h _ ih => exact GoodsM.cons h ih

theorem goods_append_inv {a b : List Item} {ss : List (List MT)} (h : GoodsM (a ++ b) ss) :
    ∃ sa sb, ss = sa ++ sb ∧ GoodsM a sa ∧ GoodsM b sb := by
  induction a generalizing ss with
  | nil => exact ⟨[], ss, rfl, GoodsM.nil, by simpa using h⟩
  | cons x xs ih =>
    obtain ⟨s, r, rfl, g, h'⟩ := goods_cons_inv (by simpa using h)
    obtain ⟨sa, sb, rfl, ga, gb⟩ := ih h'
    exact ⟨s :: sa, sb, rfl, GoodsM.cons g ga, gb⟩

/-- stack invariant: the stack (stored top first) spells the consumed marked stream -/
def SInvM (stack : List Item) (ts : List MT) : Prop :=
  ∃ segs, GoodsM stack.reverse segs ∧ segs.flatten = ts

theorem reduceLoop_soundM (isNum : Bool → Ex → Bool) : ∀ (st acc : List Item) (segs : List (List MT)) (st' : List Item) (k : Nat),
    GoodsM (st.reverse ++ acc) segs → reduceLoop isNum st acc = some (st', k) →
    ∃ segs', GoodsM st'.reverse segs' ∧ segs'.flatten = segs.flatten := by
  intro st
  induction st with
  | nil => intro acc segs st' k _ h; simp [reduceLoop] at h
  | cons s rest ih =>
    intro acc segs st' k hg h
    simp only [reduceLoop] at h
    split at h
    · rename_i repl k' hr
      simp at h
      obtain ⟨rfl, rfl⟩ := h
      have hg' : GoodsM (rest.reverse ++ (s :: acc)) segs := by simpa using hg
      obtain ⟨sa, sb, rfl, ga, gb⟩ := goods_append_inv hg'
      obtain ⟨e, rfl, hd⟩ := tryReduce_soundM isNum _ _ gb _ _ hr
      refine ⟨sa ++ [sb.flatten], ?_, by simp⟩
      simpa using goods_append ga (GoodsM.cons (it := .ex e) hd GoodsM.nil)
    · exact ih (s :: acc) segs st' k (by simpa using hg) h

theorem reduce_soundM (isNum : Bool → Ex → Bool) (c c' : Cfg) (ts : List MT) (hi : SInvM c.stack ts)
    (h : reduce isNum c = some c') : SInvM c'.stack ts := by
  unfold reduce at h
  split at h
  · rename_i st k hr
    simp at h; subst h
    obtain ⟨segs, hg, rfl⟩ := hi
    obtain ⟨segs', hg', hf⟩ := reduceLoop_soundM isNum c.stack [] segs st k (by simpa using hg) hr
    exact ⟨segs', hg', hf⟩
  · simp at h

theorem reduceUntilShift_soundM (isNum : Bool → Ex → Bool) (next : TT) (ts : List MT) :
    ∀ (fuel : Nat) (c c' : Cfg), SInvM c.stack ts → reduceUntilShift isNum next fuel c = some c' → SInvM c'.stack ts := by
  intro fuel
  induction fuel with
  | zero => intro c c' _ h; simp [reduceUntilShift] at h
  | succ n ih =>
    intro c c' hi h
    simp only [reduceUntilShift] at h
    split at h
    · simp at h; subst h; exact hi
    · split at h
      · simp at h
      · rename_i c1 hr
        exact ih c1 c' (reduce_soundM isNum c c1 ts hi hr) h

theorem sinv_push (stack : List Item) (ts : List MT) (it : Item) (seg : List MT)
    (hi : SInvM stack ts) (hg : goodM it seg) : SInvM (it :: stack) (ts ++ seg) := by
  obtain ⟨segs, hgs, rfl⟩ := hi
  refine ⟨segs ++ [seg], ?_, by simp⟩
  simpa using goods_append hgs (GoodsM.cons hg GoodsM.nil)

/-! ### every marker stands between two term tokens -/

def EndsTerm (l : List MT) : Prop := ∃ p t, l = p ++ [some t] ∧ t.typ.isTerm = true
def StartsTerm (l : List MT) : Prop := ∃ t q, l = some t :: q ∧ t.typ.isTerm = true

/-- every marker of the stream is immediately preceded and immediately followed by a term token -/
def Marks (l : List MT) : Prop := ∀ pre post, l = pre ++ none :: post → EndsTerm pre ∧ StartsTerm post

theorem marks_nil : Marks [] := by
  intro pre post h
  cases pre <;> simp at h

theorem startsTerm_append {l : List MT} (h : StartsTerm l) (r : List MT) : StartsTerm (l ++ r) := by
  obtain ⟨t, q, rfl, ht⟩ := h
  exact ⟨t, q ++ r, by simp, ht⟩

theorem snoc_cases (l : List MT) : l = [] ∨ ∃ l' x, l = l' ++ [x] := by
  rcases List.eq_nil_or_concat l with h | ⟨l', x, h⟩
  · exact Or.inl h
  · exact Or.inr ⟨l', x, by simpa using h⟩

/-- shifting a real token keeps `Marks` -/
theorem marks_snoc_some (l : List MT) (x : Tok) (h : Marks l) : Marks (l ++ [some x]) := by
  intro pre post heq
  rcases snoc_cases post with rfl | ⟨post', y, rfl⟩
  · have : l ++ [some x] = pre ++ [none] := heq
    have := (List.append_inj' this rfl).2
    simp at this
  · have h1 : l ++ [some x] = (pre ++ none :: post') ++ [y] := by simpa using heq
    obtain ⟨h2, _⟩ := List.append_inj' h1 rfl
    obtain ⟨e1, e2⟩ := h pre post' h2
    exact ⟨e1, startsTerm_append e2 _⟩

/-- injecting a marker after a term token and shifting a term token keeps `Marks` -/
theorem marks_inject (l : List MT) (x : Tok) (h : Marks l) (he : EndsTerm l) (hx : x.typ.isTerm = true) :
    Marks (l ++ [none] ++ [some x]) := by
  intro pre post heq
  rcases snoc_cases post with rfl | ⟨post', y, rfl⟩
  · have : (l ++ [none]) ++ [some x] = pre ++ [none] := heq
    have := (List.append_inj' this rfl).2
    simp at this
  · have h1 : (l ++ [none]) ++ [some x] = (pre ++ none :: post') ++ [y] := by simpa using heq
    obtain ⟨h2, h3⟩ := List.append_inj' h1 rfl
    have hy : y = some x := by simpa using h3.symm
    subst hy
    rcases snoc_cases post' with rfl | ⟨post'', z, rfl⟩
    · have h4 : l ++ [none] = pre ++ [none] := h2
      obtain ⟨h5, _⟩ := List.append_inj' h4 rfl
      subst h5
      exact ⟨he, ⟨x, [], rfl, hx⟩⟩
    · have h4 : l ++ [none] = (pre ++ none :: post'') ++ [z] := by simpa using h2
      obtain ⟨h5, _⟩ := List.append_inj' h4 rfl
      obtain ⟨e1, e2⟩ := h pre post'' h5
      exact ⟨e1, by simpa using startsTerm_append e2 ([z] ++ [some x])⟩

/-- starts and ends with a real token -/
def Ends (l : List MT) : Prop := (∃ t r, l = some t :: r) ∧ (∃ r t, l = r ++ [some t])

theorem ends_bin (a mid b : List MT) (ha : Ends a) (hb : Ends b) : Ends (a ++ mid ++ b) := by
  obtain ⟨⟨t, r, rfl⟩, _⟩ := ha
  obtain ⟨_, ⟨r', t', rfl⟩⟩ := hb
  exact ⟨⟨t, r ++ mid ++ (r' ++ [some t']), by simp⟩, ⟨some t :: r ++ mid ++ r', t', by simp⟩⟩

theorem ends_pre (o : Tok) (a : List MT) (ha : Ends a) : Ends (some o :: a) := by
  obtain ⟨_, ⟨r', t', rfl⟩⟩ := ha
  exact ⟨⟨o, _, rfl⟩, ⟨some o :: r', t', by simp⟩⟩

theorem ends_post (a mid : List MT) (o : Tok) (ha : Ends a) : Ends (a ++ mid ++ [some o]) := by
  obtain ⟨⟨t, r, rfl⟩, _⟩ := ha
  exact ⟨⟨t, r ++ mid ++ [some o], by simp⟩, ⟨some t :: r ++ mid, o, by simp⟩⟩

theorem ends_wrap (o c : Tok) (a : List MT) : Ends (some o :: (a ++ [some c])) :=
  ⟨⟨o, _, rfl⟩, ⟨some o :: a, c, by simp⟩⟩

/-- the segment of a derivation starts and ends with a real token -/
theorem DerM_ends {l : List MT} {e : Ex} (h : DerM l e) : Ends l := by
  induction h with
  | leaf t h => exact ⟨⟨t, [], rfl⟩, ⟨[], t, rfl⟩⟩
  | paren o c ho hc _ ih =>
    obtain ⟨o', rfl⟩ := mtyp_real o (by rw [ho]; decide)
    obtain ⟨c', rfl⟩ := mtyp_real c (by rw [hc]; decide)
    exact ends_wrap o' c' _
  | and o ho _ _ ih1 ih2 => simpa using ends_bin _ [o] _ ih1 ih2
  | or o ho _ _ ih1 ih2 => simpa using ends_bin _ [o] _ ih1 ih2
  | eq o ho _ _ ih1 ih2 => simpa using ends_bin _ [o] _ ih1 ih2
  | cmp o p gt ho hp _ _ ih1 ih2 => simpa using ends_bin _ [o, p] _ ih1 ih2
  | cmpEq o p q gt ho hp hq _ _ ih1 ih2 => simpa using ends_bin _ [o, p, q] _ ih1 ih2
  | @range o lb to rb incl ho hlb hto hrb hincl a b c _ _ _ _ _ _ ih1 ih2 ih3 =>
    obtain ⟨rb', rfl⟩ := mtyp_real rb (by rcases hrb with h | h <;> rw [h] <;> decide)
    simpa using ends_post a (o :: lb :: (b ++ to :: c)) rb' ih1
  | not o ho _ ih =>
    obtain ⟨o', rfl⟩ := mtyp_real o (by rw [ho]; decide)
    exact ends_pre o' _ ih
  | must o ho _ ih =>
    obtain ⟨o', rfl⟩ := mtyp_real o (by rw [ho]; decide)
    exact ends_pre o' _ ih
  | mustNot o ho _ ih =>
    obtain ⟨o', rfl⟩ := mtyp_real o (by rw [ho]; decide)
    exact ends_pre o' _ ih
  | fuzzy0 o ho _ ih =>
    obtain ⟨o', rfl⟩ := mtyp_real o (by rw [ho]; decide)
    simpa using ends_post _ [] o' ih
  | fuzzy1 o ho _ _ ih1 ih2 => simpa using ends_bin _ [o] _ ih1 ih2
  | boost0 o ho _ ih =>
    obtain ⟨o', rfl⟩ := mtyp_real o (by rw [ho]; decide)
    simpa using ends_post _ [] o' ih
  | boost1 o ho _ _ ih1 ih2 => simpa using ends_bin _ [o] _ ih1 ih2

/-- `Marks` is inherited by the segment of a sub-derivation -/
theorem marks_sub {full : List MT} (x y z : List MT) {e : Ex} (hm : Marks full) (heq : full = x ++ y ++ z)
    (d : DerM y e) : Marks y := by
  obtain ⟨⟨t0, r0, hhead⟩, ⟨r1, t1, hlast⟩⟩ := DerM_ends d
  intro pre post hy
  have hfull : full = (x ++ pre) ++ none :: (post ++ z) := by rw [heq, hy]; simp
  obtain ⟨⟨p, t, hp, ht⟩, ⟨t', q, hq, ht'⟩⟩ := hm _ _ hfull
  constructor
  · rcases snoc_cases pre with rfl | ⟨pre', w, rfl⟩
    · rw [hhead] at hy; simp at hy
    · have : (x ++ pre') ++ [w] = p ++ [some t] := by simpa using hp
      obtain ⟨_, hw⟩ := List.append_inj' this rfl
      have hw' : w = some t := by simpa using hw
      exact ⟨pre', t, by rw [hw'], ht⟩
  · cases post with
    | nil =>
      rw [hlast] at hy
      have : r1 ++ [some t1] = pre ++ [none] := hy
      have := (List.append_inj' this rfl).2
      simp at this
    | cons w post' =>
      have hw : w = some t' := by simpa using (List.cons.inj hq).1
      exact ⟨t', post', by rw [hw], ht'⟩

theorem endsTerm_erase {l : List MT} (h : EndsTerm l) : ((erase l).getLast?.map (·.typ.isTerm)) = some true := by
  obtain ⟨p, t, rfl, ht⟩ := h
  have : erase (p ++ [some t]) = erase p ++ [t] := by simp
  rw [this, List.getLast?_concat]
  simp [ht]

theorem startsTerm_erase {l : List MT} (h : StartsTerm l) : ((erase l).head?.map (·.typ.isTerm)) = some true := by
  obtain ⟨t, q, rfl, ht⟩ := h
  simp [ht]

/-- a marked derivation of a stream in which every marker stands between two term tokens erases to a derivation of
    the restricted grammar -/
theorem derM_toT {full : List MT} {e : Ex} (h : DerM full e) : Marks full → DerT (erase full) e := by
  induction h with
  | leaf t h => intro _; simpa using DerT.leaf t h
  | @paren o c ho hc a e d ih =>
    intro hm
    obtain ⟨o', rfl⟩ := mtyp_real o (by rw [ho]; decide)
    obtain ⟨c', rfl⟩ := mtyp_real c (by rw [hc]; decide)
    have ma := marks_sub [some o'] a [some c'] hm (by simp) d
    simpa using DerT.paren o' c' ho hc (ih ma)
  | @and o ho a b l r d1 d2 ih1 ih2 =>
    intro hm
    have ma := marks_sub [] a (o :: b) hm (by simp) d1
    have mb := marks_sub (a ++ [o]) b [] hm (by simp) d2
    cases o with
    | some o' => simpa using DerT.and o' ho (ih1 ma) (ih2 mb)
    | none =>
      obtain ⟨he, hs⟩ := hm a b rfl
      simpa using DerT.jux (ih1 ma) (ih2 mb) ⟨endsTerm_erase he, startsTerm_erase hs⟩
  | @or o ho a b l r d1 d2 ih1 ih2 =>
    intro hm
    obtain ⟨o', rfl⟩ := mtyp_real o (by rw [ho]; decide)
    have ma := marks_sub [] a (some o' :: b) hm (by simp) d1
    have mb := marks_sub (a ++ [some o']) b [] hm (by simp) d2
    simpa using DerT.or o' ho (ih1 ma) (ih2 mb)
  | @eq o ho a b f v d1 d2 ih1 ih2 =>
    intro hm
    obtain ⟨o', rfl⟩ := mtyp_real o (by rcases ho with h | h <;> rw [h] <;> decide)
    have ma := marks_sub [] a (some o' :: b) hm (by simp) d1
    have mb := marks_sub (a ++ [some o']) b [] hm (by simp) d2
    simpa using DerT.eq o' ho (ih1 ma) (ih2 mb)
  | @cmp o p gt ho hp a b f v d1 d2 ih1 ih2 =>
    intro hm
    obtain ⟨o', rfl⟩ := mtyp_real o (by rw [ho]; decide)
    obtain ⟨p', rfl⟩ := mtyp_real p (by rw [hp]; cases gt <;> decide)
    have ma := marks_sub [] a (some o' :: some p' :: b) hm (by simp) d1
    have mb := marks_sub (a ++ [some o', some p']) b [] hm (by simp) d2
    simpa using DerT.cmp o' p' gt ho hp (ih1 ma) (ih2 mb)
  | @cmpEq o p q gt ho hp hq a b f v d1 d2 ih1 ih2 =>
    intro hm
    obtain ⟨o', rfl⟩ := mtyp_real o (by rw [ho]; decide)
    obtain ⟨p', rfl⟩ := mtyp_real p (by rw [hp]; cases gt <;> decide)
    obtain ⟨q', rfl⟩ := mtyp_real q (by rw [hq]; decide)
    have ma := marks_sub [] a (some o' :: some p' :: some q' :: b) hm (by simp) d1
    have mb := marks_sub (a ++ [some o', some p', some q']) b [] hm (by simp) d2
    simpa using DerT.cmpEq o' p' q' gt ho hp hq (ih1 ma) (ih2 mb)
  | @range o lb to rb incl ho hlb hto hrb hincl a b c f lo hi d1 d2 d3 ih1 ih2 ih3 =>
    intro hm
    obtain ⟨o', rfl⟩ := mtyp_real o (by rw [ho]; decide)
    obtain ⟨lb', rfl⟩ := mtyp_real lb (by rcases hlb with h | h <;> rw [h] <;> decide)
    obtain ⟨to', rfl⟩ := mtyp_real to (by rw [hto]; decide)
    obtain ⟨rb', rfl⟩ := mtyp_real rb (by rcases hrb with h | h <;> rw [h] <;> decide)
    have ma := marks_sub [] a (some o' :: some lb' :: (b ++ some to' :: (c ++ [some rb']))) hm (by simp) d1
    have mb := marks_sub (a ++ [some o', some lb']) b (some to' :: (c ++ [some rb'])) hm (by simp) d2
    have mc := marks_sub (a ++ some o' :: some lb' :: (b ++ [some to'])) c [some rb'] hm (by simp) d3
    simpa using DerT.range o' lb' to' rb' incl ho hlb hto hrb hincl (ih1 ma) (ih2 mb) (ih3 mc)
  | @not o ho a e d ih =>
    intro hm
    obtain ⟨o', rfl⟩ := mtyp_real o (by rw [ho]; decide)
    have ma := marks_sub [some o'] a [] hm (by simp) d
    simpa using DerT.not o' ho (ih ma)
  | @must o ho a e d ih =>
    intro hm
    obtain ⟨o', rfl⟩ := mtyp_real o (by rw [ho]; decide)
    have ma := marks_sub [some o'] a [] hm (by simp) d
    simpa using DerT.must o' ho (ih ma)
  | @mustNot o ho a e d ih =>
    intro hm
    obtain ⟨o', rfl⟩ := mtyp_real o (by rw [ho]; decide)
    have ma := marks_sub [some o'] a [] hm (by simp) d
    simpa using DerT.mustNot o' ho (ih ma)
  | @fuzzy0 o ho a e d ih =>
    intro hm
    obtain ⟨o', rfl⟩ := mtyp_real o (by rw [ho]; decide)
    have ma := marks_sub [] a [some o'] hm (by simp) d
    simpa using DerT.fuzzy0 o' ho (ih ma)
  | @fuzzy1 o ho a b e dd d1 d2 ih1 ih2 =>
    intro hm
    obtain ⟨o', rfl⟩ := mtyp_real o (by rw [ho]; decide)
    have ma := marks_sub [] a (some o' :: b) hm (by simp) d1
    have mb := marks_sub (a ++ [some o']) b [] hm (by simp) d2
    simpa using DerT.fuzzy1 o' ho (ih1 ma) (ih2 mb)
  | @boost0 o ho a e d ih =>
    intro hm
    obtain ⟨o', rfl⟩ := mtyp_real o (by rw [ho]; decide)
    have ma := marks_sub [] a [some o'] hm (by simp) d
    simpa using DerT.boost0 o' ho (ih ma)
  | @boost1 o ho a b e dd d1 d2 ih1 ih2 =>
    intro hm
    obtain ⟨o', rfl⟩ := mtyp_real o (by rw [ho]; decide)
    have ma := marks_sub [] a (some o' :: b) hm (by simp) d1
    have mb := marks_sub (a ++ [some o']) b [] hm (by simp) d2
    simpa using DerT.boost1 o' ho (ih1 ma) (ih2 mb)

/-! ### the run -/

theorem term_of_shift' {cur t : TT} (h1 : shouldShift cur t = true) (h2 : t.isTerminal = true) : t.isTerm = true := by
  cases t <;> simp_all [shouldShift, TT.isTerminal, TT.isTerm]

/-- a term token is always shifted at once -/
theorem shift_of_term (cur t : TT) (h : t.isTerm = true) : shouldShift cur t = true := by
  cases t <;> simp_all [shouldShift, TT.isTerminal, TT.isTerm]

/-- when a term token is the lookahead and an expression is on top of the stack, the last consumed token is a
    term token (the expression is its leaf): a term token is never the lookahead of a reduce -/
def J (c : Cfg) (consumed : List MT) (toks : List Tok) : Prop :=
  ∀ e rest, c.stack = .ex e :: rest → (nextOf toks).isTerm = true → EndsTerm consumed

/-- the run on marked streams: the accepted tree has a marked derivation over the consumed stream extended by the
    remaining input with the markers of the injected ANDs, every marker between two term tokens -/
theorem run_soundM (isNum : Bool → Ex → Bool) : ∀ (n : Nat) (c : Cfg) (toks : List Tok) (consumed : List MT) (e : Ex),
    3 * toks.length + c.stack.length ≤ n → (∀ t ∈ toks, t.typ ≠ .eof) → SInvM c.stack consumed →
    Marks consumed → J c consumed toks →
    runW isNum c toks = .ok e → ∃ full, DerM full e ∧ Marks full ∧ erase full = erase consumed ++ toks := by
  intro n
  induction n with
  | zero =>
    intro c toks consumed e hn _ hi _ _ h
    have ht : toks = [] := List.length_eq_zero_iff.mp (by omega)
    have hs : c.stack = [] := List.length_eq_zero_iff.mp (by omega)
    subst ht
    rw [runW.eq_def] at h
    simp only [nextOf, shouldShift] at h
    split at h
    · rename_i hacc
      simp [hs] at hacc
    · simp only [if_true, Bool.false_eq_true, if_false] at h
      split at h
      · simp at h
      · rename_i c' hr
        have hl := reduce_len isNum _ _ hr
        simp [hs] at hl
  | succ n ih =>
    intro c toks consumed e hn hne hi hm hj h
    cases toks with
    | nil =>
      rw [runW.eq_def] at h
      simp only [nextOf, shouldShift] at h
      split at h
      · rename_i hacc
        split at h
        · rename_i e' hst
          simp at h; subst h
          obtain ⟨segs, hg, rfl⟩ := hi
          rw [hst] at hg
          obtain ⟨s, r, rfl, g, hg'⟩ := goods_cons_inv (by simpa using hg)
          have := goods_nil_inv hg'; subst this
          refine ⟨s, by simpa [goodM] using g, by simpa using hm, by simp⟩
        · simp at h
      · simp only [if_true, Bool.false_eq_true, if_false] at h
        split at h
        · simp at h
        · rename_i c' hr
          have hl := reduce_len isNum _ _ hr
          exact ih c' [] consumed e (by simp at hn ⊢; omega) hne (reduce_soundM isNum c c' consumed hi hr) hm
            (by intro _ _ _ ht; simp [nextOf, TT.isTerm] at ht) h
    | cons x tl =>
      have hx : x.typ ≠ .eof := hne x (by simp)
      have hne' : ∀ t ∈ tl, t.typ ≠ .eof := fun t ht => hne t (by simp [ht])
      rw [runW_cons] at h
      simp only [hx, and_false, if_false] at h
      split at h
      · rename_i hs
        split at h
        · rename_i hterm
          have hxt := term_of_shift' hs hterm
          split at h
          · rename_i e0 rest0 hst
            split at h
            · simp at h
            · rename_i c' hc'
              have hl := reduceUntilShift_len isNum _ _ _ _ hc'
              have hi' := reduceUntilShift_soundM isNum .tand consumed _ c c' hi hc'
              have hend : EndsTerm consumed := hj e0 rest0 hst (by simpa [nextOf] using hxt)
              have h2 := sinv_push _ _ (.tok .tand) [none] hi' ⟨none, rfl, rfl⟩
              have h3 := sinv_push _ _ (.ex (.leaf x)) [some x] h2 (DerM.leaf x hxt)
              obtain ⟨full, hd, hmf, hef⟩ := ih _ tl (consumed ++ [none] ++ [some x]) e (by simp at hn ⊢; omega) hne' h3
                (marks_inject consumed x hm hend hxt)
                (fun _ _ _ _ => ⟨consumed ++ [none], x, rfl, hxt⟩) h
              exact ⟨full, hd, hmf, by simpa using hef⟩
          · have h3 := sinv_push _ _ (.ex (.leaf x)) [some x] hi (DerM.leaf x hxt)
            obtain ⟨full, hd, hmf, hef⟩ := ih _ tl (consumed ++ [some x]) e (by simp at hn ⊢; omega) hne' h3
              (marks_snoc_some consumed x hm)
              (fun _ _ _ _ => ⟨consumed, x, rfl, hxt⟩) h
            exact ⟨full, hd, hmf, by simpa using hef⟩
        · have h3 := sinv_push _ _ (.tok x.typ) [some x] hi ⟨some x, rfl, rfl⟩
          obtain ⟨full, hd, hmf, hef⟩ := ih _ tl (consumed ++ [some x]) e (by simp at hn ⊢; omega) hne' h3
            (marks_snoc_some consumed x hm)
            (by intro e0 rest0 hst _; simp at hst) h
          exact ⟨full, hd, hmf, by simpa using hef⟩
      · rename_i hs
        split at h
        · simp at h
        · rename_i c' hr
          have hl := reduce_len isNum _ _ hr
          exact ih c' (x :: tl) consumed e (by simp at hn ⊢; omega) hne (reduce_soundM isNum c c' consumed hi hr) hm
            (by
              intro _ _ _ ht
              exact absurd (shift_of_term (curOf c) x.typ (by simpa [nextOf] using ht)) hs) h

end DerTerm

open DerTerm in
/-- C06 (token level), strengthened: whatever the parser accepts has a derivation in the documented grammar in which
    juxtaposition occurs only between a part ending in a term token and a part starting with a term token, and the
    returned tree is the tree of that derivation. -/
theorem parse_soundT (isNum : Bool → Ex → Bool) (toks : List Tok) (e : Ex) (hne : ∀ t ∈ toks, t.typ ≠ .eof)
    (h : parseToks isNum toks = .ok e) : DerT toks e := by
  obtain ⟨full, hd, hm, he⟩ := run_soundM isNum _ ⟨[], [.start]⟩ toks [] e (Nat.le_refl _) hne
    ⟨[], by simpa using GoodsM.nil, rfl⟩ marks_nil (by intro _ _ hst _; simp at hst) h
  have := derM_toT hd hm
  rw [he] at this
  simpa using this

/-- the leaves of an accepted tree are the term tokens of the input, in order (via the restricted grammar) -/
theorem parse_leavesT (isNum : Bool → Ex → Bool) (toks : List Tok) (e : Ex) (hne : ∀ t ∈ toks, t.typ ≠ .eof)
    (h : parseToks isNum toks = .ok e) : e.leaves = terms toks :=
  DerT_leaves (parse_soundT isNum toks e hne h)

/-! ### the two shapes one might have expected to juxtapose -/

theorem runW_nil' (isNum : Bool → Ex → Bool) (c : Cfg) :
    runW isNum c [] =
      if c.stack.length = 1 then (match c.stack with | [.ex e] => .ok e | _ => .err)
      else match reduce isNum c with
        | none => .err
        | some c' => runW isNum c' [] := by
  rw [runW.eq_def]
  simp only [nextOf, shouldShift]
  split
  · rename_i h; simp only [h.1, if_true]; split <;> simp_all
  · rename_i h
    have : ¬ c.stack.length = 1 := by simpa using h
    simp only [this, if_false, if_true, Bool.false_eq_true]
    split <;> simp_all

/-- `( a ) b` is rejected: no AND is injected after `)` (the top of the stack is the token `)`) -/
theorem paren_then_term_rejected (isNum : Bool → Ex → Bool) (a b : Bytes) :
    parseToks isNum [⟨.lparen, []⟩, ⟨.literal, a⟩, ⟨.rparen, []⟩, ⟨.literal, b⟩] = .err := by
  simp [parseToks, runW_cons, runW_nil', shouldShift, curOf, TT.isTerminal, anyOpenBracket, reduce, reduceLoop, tryReduce]

/-- `a ~ b` is the fuzzy with distance `b`: no AND is injected after `~` (the top of the stack is the token `~`) -/
theorem tilde_then_term_is_distance (isNum : Bool → Ex → Bool) (a b : Bytes) (h : isNum true (.leaf ⟨.literal, b⟩) = true) :
    parseToks isNum [⟨.literal, a⟩, ⟨.tilde, []⟩, ⟨.literal, b⟩] = .ok (.fuzzy (.leaf ⟨.literal, a⟩) (some (.leaf ⟨.literal, b⟩))) := by
  simp [parseToks, runW_cons, runW_nil', shouldShift, curOf, TT.isTerminal, anyOpenBracket, reduce, reduceLoop, tryReduce, h,
    endingRange, anyClosingBracket, hasLessPrecedence, TT.num]

#print axioms parse_soundT
#print axioms DerT.toDer
#print axioms DerT_leaves

end GoLucene
