import GoLucene.Proofs.SqlQuery
/-
  C02 over queries at FULL STRENGTH: sub-queries in value position (`a:(b AND c)`, `a:>(b OR c)`, `a:(b:c)`, …), which
  `lucene.Parse` accepts and which Proofs/SqlQuery.lean had to exclude (`valsAtomic`), are covered here.

  The renderer writes such a node as  column op ( text of the sub-query ) .  This file
    §1  extends the rendered shapes `SqlWide.RK` by that form (`RX`, constructor `cmpx`) and re-proves the grammar half
        (`p_RX`, `parseCst_RX`: PostgreSQL's expression grammar reads the tokens back), the scanner half (`lx_RX`,
        `lex_RX`) and the parser-stack bound (`rx_peak`, `rx_stack`), for the inline text and for the text with
        placeholders alike: `parseSql_RX`;
    §2  defines the fragment `confinedX` / `textX`, the translation `toCstX` / `toAstX` (they extend `confinedFilter`,
        `textWide`, `toCstW`, `toAstW`: `toAstX_eq`) and proves that the renderer's text is the text of `toCstX e`
        (`good_expr_X`);
    §3  `render_parses_X` (PostgreSQL reads the text as `toAstX e`), `confinedX_cols_consts` (provenance);
    §4  `confX_expr`: EVERY validated tree of the parser's shape that the renderer renders is in the fragment;
    §6  `query_confined_full`:  parseQuery env s df = .ok e → render pgFns e = .ok t → depthOKX e →
           parseSql t = toAstX e ∧ (∃ a, parseSql t = some a) ∧ columns are fields of e ∧ constants render values of e
        — no hypothesis on the tree;
    §8  `need_depthX`: the depth measure must count value nesting (`nestX`); `SqlText.nest` is 0 on `a:(a:(…))` and a
        tree of the parser's shape with 3000 such levels renders into a text PostgreSQL's parser rejects;
    §9  the same for the parameterized text: `toCstPX`, `good_expr_PX`, `render_parses_PX`, `param_numbers_PX`,
        `paramX_cols_consts`, `confPX_expr`, and
        `query_confined_param_full`: parseQuery … = .ok e → fieldsColsX e → renderParam pgFns e = .ok (sqlP, ps) →
           depthOKX e → parseSql sqlP = toAstPX e ∧ paramsPX e = some ps ∧ placeholders are 1..n ∧ provenance;
    §10 `fieldsColsX` (every field position holds a column) IS needed: `query_param_numbers_false` (the query
        `5:[1 TO 2]`: four placeholders, three parameters — recorded finding K-numfield-range).
  Remark (not a C02 matter): the predicate read from `a:(b AND c)` compares a column with a boolean expression over
  text constants; PostgreSQL's analyser / executor rejects it.  The query is accepted and rendered into SQL that is one
  confined predicate but cannot run.
-/
set_option linter.unusedSimpArgs false
set_option linter.unusedVariables false

namespace GoLucene.SqlQueryX
open GoLucene Sql SqlMeaning SqlText SqlWide NoPanic SqlQuery

/-! ## 1. rendered shapes with a parenthesised expression as comparison operand -/

/-- `SqlWide.RK` plus `atom op ( expr )`: what the renderer writes for `f:(sub-query)` -/
inductive RX (pm : Bool) : Bool → Cst → Prop
  | atom {a : Cst} (k : Bool) : AtomP pm a → RX pm k a
  | leaf {c : Cst} : LeafP pm c → RX pm false c
  | rng {a c : Cst} : LeafP pm a → LeafP pm c → RX pm false (.and a c)
  | paren {x : Cst} : RX pm false x → RX pm true (.paren x)
  | and {l r : Cst} : RX pm true l → RX pm true r → RX pm false (.and l r)
  | or {l r : Cst} : RX pm true l → RX pm true r → RX pm false (.or l r)
  | not {x : Cst} : RX pm false x → RX pm false (.not (.paren x))
  | cmpx (op : CmpOp) {l x : Cst} : AtomP pm l → RX pm false x → RX pm false (.cmp op l (.paren x))

theorem RX.of {pm k : Bool} {c : Cst} (h : RK pm k c) : RX pm k c := by
  induction h with
  | atom k ha => exact .atom k ha
  | leaf hL => exact .leaf hL
  | rng hA hC => exact .rng hA hC
  | paren _ ih => exact .paren ih
  | and _ _ ihl ihr => exact .and ihl ihr
  | or _ _ ihl ihr => exact .or ihl ihr
  | not _ ih => exact .not ih

/-- fuel that `pOr` needs on the tokens of such an expression (`SqlText.need` does not look below a comparison) -/
def needX : Cst → Nat
  | .paren x => needX x + 7
  | .and l r => max (needX l) (needX r) + 3
  | .or l r => max (needX l) (needX r) + 3
  | .not x => needX x + 2
  | .inList _ items => llen items + 16
  | .cmp _ _ r => needX r + 10
  | _ => 10

theorem atomP_needX {pm : Bool} {a : Cst} (h : AtomP pm a) : needX a = 10 := by cases h <;> simp [needX]

theorem leafP_need_le {pm : Bool} {L : Cst} (h : LeafP pm L) : need L ≤ needX L ∧ 10 ≤ needX L := by
  cases h with
  | cmp op hl hr => simp [need, needX]
  | similar hx hp => simp [need, needX]
  | regex hx hp => simp [need, needX]
  | between hx hlo hhi => simp [need, needX]
  | inList hx hi => simp [need, needX]

theorem needX_ge (c : Cst) : 2 ≤ needX c := by
  cases c <;> simp [needX] <;> omega

/-- a parenthesised expression at the level of `pBet` (operand of a comparison) -/
theorem pBet_parenX {x : Cst} (N : Nat)
    (ih : ∀ (F : Nat) (rest : List Sql.Tok), N ≤ F → closeTok rest = true → pOr F (ctoks x ++ rest) = some (x, rest))
    (f : Nat) (rest : List Sql.Tok) (hf : N ≤ f) (h1 : noTilde rest = true) (h2 : betStop rest = true) :
    pBet (f + 4) (.lparen :: (ctoks x ++ .rparen :: rest)) = some (.paren x, rest) := by
  have e1 : pPrim (f + 2) (.lparen :: (ctoks x ++ .rparen :: rest)) = some (.paren x, rest) := by
    rw [pPrim, ih (f + 1) (.rparen :: rest) (by omega) rfl]
  have e2 : pOp (f + 3) (.lparen :: (ctoks x ++ .rparen :: rest)) = some (.paren x, rest) := by
    rw [pOp, e1]; exact pOpLoop_stop _ _ _ (noTilde_ne h1)
  exact pBet_other _ _ _ _ e2 h2

theorem pNot_parenX {x : Cst} (N : Nat)
    (ih : ∀ (F : Nat) (rest : List Sql.Tok), N ≤ F → closeTok rest = true → pOr F (ctoks x ++ rest) = some (x, rest))
    (f : Nat) (rest : List Sql.Tok) (hf : N ≤ f) (hs : stopTok rest = true) :
    pNot (f + 6) (.lparen :: (ctoks x ++ .rparen :: rest)) = some (.paren x, rest) := by
  rw [pNot_other _ _ rfl]
  exact pCmp_other _ _ _ _ (pBet_parenX N ih f rest hf (stop_noTilde hs) (stop_betStop hs)) (stop_notCmp hs)

/-- `atom op ( expr )` at the level of `pNot` -/
theorem pNot_cmpx {pm : Bool} (op : CmpOp) {l x : Cst} (hl : AtomP pm l) (N : Nat)
    (ih : ∀ (F : Nat) (rest : List Sql.Tok), N ≤ F → closeTok rest = true → pOr F (ctoks x ++ rest) = some (x, rest))
    (f : Nat) (rest : List Sql.Tok) (hf : N ≤ f) (hs : stopTok rest = true) :
    pNot (f + 6) (ctoks (.cmp op l (.paren x)) ++ rest) = some (.cmp op l (.paren x), rest) := by
  have e : ctoks (.cmp op l (.paren x)) ++ rest = ctoks l ++ (.cmp op :: .lparen :: (ctoks x ++ .rparen :: rest)) := by
    simp [ctoks]
  rw [e, pNot_other _ _ (atomP_headNot hl _)]
  show pCmp ((f + 4) + 1) _ = _
  rw [pCmp]
  have e1 : pBet (f + 4) (ctoks l ++ (.cmp op :: .lparen :: (ctoks x ++ .rparen :: rest))) =
      some (l, .cmp op :: .lparen :: (ctoks x ++ .rparen :: rest)) :=
    pBet_atomP hl (f + 1) _ rfl rfl
  rw [e1]
  simp only []
  rw [pBet_parenX N ih f rest hf (stop_noTilde hs) (stop_betStop hs)]
  simp only [stop_notCmp hs, Bool.false_eq_true, ↓reduceIte]

/-- GRAMMAR: PostgreSQL's expression grammar reads the tokens of such an expression back as that expression -/
theorem p_RX {pm : Bool} {k : Bool} {c : Cst} (h : RX pm k c) : ∀ (F : Nat) (rest : List Sql.Tok), needX c ≤ F →
    (k = false → closeTok rest = true → pOr F (ctoks c ++ rest) = some (c, rest)) ∧
    (k = true → stopTok rest = true → pNot F (ctoks c ++ rest) = some (c, rest)) := by
  induction h with
  | @atom a k ha =>
    intro F rest hF
    rw [atomP_needX ha] at hF
    constructor
    · intro _ hc
      obtain ⟨f, rfl⟩ : ∃ f, F = f + 7 := ⟨F - 7, by omega⟩
      have he : endTok rest = true := by
        unfold closeTok at hc; split at hc <;> first | rfl | cases hc
      exact pOr_atomP ha f rest he
    · intro _ hs
      obtain ⟨f, rfl⟩ : ∃ f, F = f + 5 := ⟨F - 5, by omega⟩
      exact pNot_atomP ha f rest hs
  | @leaf L hL =>
    intro F rest hF
    refine ⟨fun _ hc => ?_, fun hk => by cases hk⟩
    have hge := leafP_need_le hL
    obtain ⟨f, rfl⟩ : ∃ f, F = f + 3 := ⟨F - 3, by omega⟩
    rw [pOr, pAnd, pNot_leafP hL (f + 1) rest (by omega) (stop_of_close hc)]
    simp only []
    rw [pAndLoop_stop _ _ _ (close_notAnd hc)]
    simp only []
    rw [pOrLoop_stop _ _ _ (close_notOr hc)]
  | @rng a c hA hC =>
    intro F rest hF
    refine ⟨fun _ hc => ?_, fun hk => by cases hk⟩
    have hga := leafP_need_le hA
    have hgc := leafP_need_le hC
    simp only [needX] at hF
    obtain ⟨f, rfl⟩ : ∃ f, F = f + 4 := ⟨F - 4, by omega⟩
    have e : ctoks (.and a c) ++ rest = ctoks a ++ (.kw .and :: (ctoks c ++ rest)) := by simp [ctoks]
    rw [e, pOr, pAnd, pNot_leafP hA (f + 2) _ (by omega) rfl]
    simp only []
    rw [pAndLoop, pNot_leafP hC (f + 1) rest (by omega) (stop_of_close hc)]
    simp only []
    rw [pAndLoop_stop _ _ _ (close_notAnd hc)]
    simp only []
    rw [pOrLoop_stop _ _ _ (close_notOr hc)]
  | @paren x hx ih =>
    intro F rest hF
    refine ⟨fun hk => (by cases hk), fun _ hs => ?_⟩
    simp only [needX] at hF
    obtain ⟨f, rfl⟩ : ∃ f, F = f + 6 := ⟨F - 6, by omega⟩
    have e : ctoks (.paren x) ++ rest = .lparen :: (ctoks x ++ .rparen :: rest) := by simp [ctoks]
    rw [e]
    exact pNot_parenX (needX x) (fun F' rest' hF' hc' => (ih F' rest' hF').1 rfl hc') f rest (by omega) hs
  | @and l r hl hr ihl ihr =>
    intro F rest hF
    refine ⟨fun _ hc => ?_, fun hk => by cases hk⟩
    simp only [needX] at hF
    have hr2 := needX_ge r
    obtain ⟨f, rfl⟩ : ∃ f, F = f + 4 := ⟨F - 4, by omega⟩
    have e : ctoks (.and l r) ++ rest = ctoks l ++ (.kw .and :: (ctoks r ++ rest)) := by simp [ctoks]
    rw [e, pOr, pAnd, (ihl (f + 2) _ (by omega)).2 rfl rfl]
    simp only []
    rw [pAndLoop, (ihr (f + 1) rest (by omega)).2 rfl (stop_of_close hc)]
    simp only []
    rw [pAndLoop_stop _ _ _ (close_notAnd hc)]
    simp only []
    rw [pOrLoop_stop _ _ _ (close_notOr hc)]
  | @or l r hl hr ihl ihr =>
    intro F rest hF
    refine ⟨fun _ hc => ?_, fun hk => by cases hk⟩
    simp only [needX] at hF
    have hr2 := needX_ge r
    obtain ⟨f, rfl⟩ : ∃ f, F = f + 4 := ⟨F - 4, by omega⟩
    have e : ctoks (.or l r) ++ rest = ctoks l ++ (.kw .or :: (ctoks r ++ rest)) := by simp [ctoks]
    rw [e, pOr, pAnd, (ihl (f + 2) _ (by omega)).2 rfl rfl]
    simp only []
    rw [pAndLoop_stop _ _ _ (by intro r' e'; cases e')]
    simp only []
    rw [pOrLoop, pAnd, (ihr (f + 1) rest (by omega)).2 rfl (stop_of_close hc)]
    simp only []
    rw [pAndLoop_stop _ _ _ (close_notAnd hc)]
    simp only []
    rw [pOrLoop_stop _ _ _ (close_notOr hc)]
  | @not x hx ih =>
    intro F rest hF
    refine ⟨fun _ hc => ?_, fun hk => by cases hk⟩
    simp only [needX] at hF
    obtain ⟨f, rfl⟩ : ∃ f, F = f + 9 := ⟨F - 9, by omega⟩
    have e : ctoks (.not (.paren x)) ++ rest = .kw .not :: .lparen :: (ctoks x ++ .rparen :: rest) := by
      simp [ctoks]
    rw [e, pOr, pAnd, pNot]
    simp only [startsNotLa, Bool.false_eq_true, ↓reduceIte]
    rw [pNot_parenX (needX x) (fun F' rest' hF' hc' => (ih F' rest' hF').1 rfl hc') f rest (by omega)
      (stop_of_close hc)]
    simp only []
    rw [pAndLoop_stop _ _ _ (close_notAnd hc)]
    simp only []
    rw [pOrLoop_stop _ _ _ (close_notOr hc)]
  | @cmpx op l x hl hx ih =>
    intro F rest hF
    refine ⟨fun _ hc => ?_, fun hk => by cases hk⟩
    simp only [needX] at hF
    obtain ⟨f, rfl⟩ : ∃ f, F = f + 8 := ⟨F - 8, by omega⟩
    rw [pOr, pAnd, pNot_cmpx op hl (needX x) (fun F' rest' hF' hc' => (ih F' rest' hF').1 rfl hc') f rest
      (by omega) (stop_of_close hc)]
    simp only []
    rw [pAndLoop_stop _ _ _ (close_notAnd hc)]
    simp only []
    rw [pOrLoop_stop _ _ _ (close_notOr hc)]

/-! ## enough fuel, placeholders -/

theorem leafP_fuelX {pm : Bool} {L : Cst} (h : LeafP pm L) : needX L ≤ 12 * (ctoks L).length := by
  cases h with
  | cmp op hl hr =>
    have := atomP_len hl; have := atomP_len hr
    simp only [ctoks, needX, atomP_needX hr, List.length_append, List.length_cons]; omega
  | similar hx hp =>
    have := atomP_len hx; have := atomP_len hp
    simp only [ctoks, needX, List.length_append, List.length_cons]; omega
  | regex hx hp =>
    have := atomP_len hx; have := atomP_len hp
    simp only [ctoks, needX, List.length_append, List.length_cons]; omega
  | between hx hlo hhi =>
    have := atomP_len hx
    simp only [ctoks, needX, List.length_append, List.length_cons]; omega
  | inList hx hi =>
    have := atomP_len hx; have := atomsP_len hi
    simp only [ctoks, needX, List.length_append, List.length_cons, List.length_nil]; omega

theorem rx_fuel {pm : Bool} {k : Bool} {c : Cst} (h : RX pm k c) : needX c ≤ 12 * (ctoks c).length := by
  induction h with
  | atom k ha => have := atomP_len ha; rw [atomP_needX ha]; omega
  | leaf hL => exact leafP_fuelX hL
  | rng hA hC =>
    have := leafP_fuelX hA; have := leafP_fuelX hC
    simp only [ctoks, needX, List.length_append, List.length_cons]; omega
  | paren hx ih => simp only [ctoks, needX, List.length_append, List.length_cons, List.length_nil]; omega
  | and hl hr ihl ihr => simp only [ctoks, needX, List.length_append, List.length_cons]; omega
  | or hl hr ihl ihr => simp only [ctoks, needX, List.length_append, List.length_cons]; omega
  | not hx ih => simp only [ctoks, needX, List.length_append, List.length_cons, List.length_nil]; omega
  | cmpx op hl hx ih =>
    simp only [ctoks, needX, List.length_append, List.length_cons, List.length_nil]; omega

theorem rx_renum {pm : Bool} {k : Bool} {c : Cst} (h : RX pm k c) : ∀ j : Nat, RX pm k (renum j c) := by
  induction h with
  | @atom a k ha => intro j; exact .atom k (atomP_renum ha j)
  | @leaf L hL => intro j; exact .leaf (leafP_renum hL j)
  | @rng a c hA hC => intro j; rw [renum]; exact .rng (leafP_renum hA _) (leafP_renum hC _)
  | @paren x _ ih => intro j; rw [renum]; exact .paren (ih j)
  | @and l r _ _ ihl ihr => intro j; rw [renum]; exact .and (ihl _) (ihr _)
  | @or l r _ _ ihl ihr => intro j; rw [renum]; exact .or (ihl _) (ihr _)
  | @not x _ ih => intro j; rw [renum, renum]; exact .not (ih j)
  | @cmpx op l x hl _ ih => intro j; rw [renum, renum]; exact .cmpx op (atomP_renum hl _) (ih _)

theorem rx_plain {k : Bool} {c : Cst} (h : RX false k c) : ∀ j : Nat, renum j c = c ∧ pcount c = 0 := by
  induction h with
  | @atom a k ha => intro j; exact atomP_plain ha j
  | @leaf L hL => intro j; exact leafP_plain hL j
  | @rng a c hA hC =>
    intro j
    have h1 := leafP_plain hA j; have h2 := leafP_plain hC j
    simp only [renum, pcount, h1.1, h1.2, h2.1, h2.2, Nat.add_zero, and_self]
  | @paren x _ ih => intro j; have := ih j; simp only [renum, pcount, this.1, this.2, and_self]
  | @and l r _ _ ihl ihr =>
    intro j
    have h1 := ihl j; have h2 := ihr j
    simp only [renum, pcount, h1.1, h1.2, h2.1, h2.2, Nat.add_zero, and_self]
  | @or l r _ _ ihl ihr =>
    intro j
    have h1 := ihl j; have h2 := ihr j
    simp only [renum, pcount, h1.1, h1.2, h2.1, h2.2, Nat.add_zero, and_self]
  | @not x _ ih => intro j; have := ih j; simp only [renum, pcount, this.1, this.2, and_self]
  | @cmpx op l x hl _ ih =>
    intro j
    have h1 := atomP_plain hl j; have h2 := ih j
    simp only [renum, pcount, h1.1, h1.2, h2.1, h2.2, Nat.add_zero, and_self]

/-- GRAMMAR: the `?`-token list is read back as the expression with its placeholders numbered from left to right -/
theorem parseCst_RX {pm : Bool} {c : Cst} (h : RX pm false c) : parseCst (qtoks c) = some (renum 1 c) := by
  have hr := rx_renum h 1
  have hlen : (qtoks c).length = (ctoks (renum 1 c)).length := by
    have := congrArg List.length (number_qtoks c 1 [])
    simp only [List.append_nil, numberParams, numberParams_length] at this
    exact this
  have hn := number_qtoks c 1 []
  simp only [List.append_nil, numberParams] at hn
  have h1 := (p_RX hr (parseFuel (qtoks c).length) [] (by
    have := rx_fuel hr; rw [hlen]; unfold parseFuel; omega)).1 rfl rfl
  rw [List.append_nil] at h1
  unfold parseCst
  rw [qtoks_noParam, Bool.and_false, hn, h1]
  rfl

/-! ## scanner -/

theorem lx_RX {pm : Bool} {k : Bool} {c : Cst} (h : RX pm k c) : ∃ n, Lx (qText c) (qtoks c) n := by
  induction h with
  | @atom a k ha => exact lx_atomP ha
  | @leaf L hL => exact lx_leafP hL
  | @rng a c hA hC =>
    obtain ⟨k1, h1⟩ := lx_leafP hA
    obtain ⟨k2, h2⟩ := lx_leafP hC
    exact ⟨_, ((h1.seqU ux_AND (fun _ => rfl)).seqL h2).cast (by simp only [qText]) (by simp [qtoks, ctoks, qm])⟩
  | @paren x _ ih =>
    obtain ⟨k1, h1⟩ := ih
    exact ⟨_, (ux_parenQ h1).toLx.cast (by simp only [qText]) (by simp [qtoks, ctoks, qm])⟩
  | @and l r _ _ ihl ihr =>
    obtain ⟨k1, h1⟩ := ihl
    obtain ⟨k2, h2⟩ := ihr
    exact ⟨_, ((h1.seqU ux_AND (fun _ => rfl)).seqL h2).cast (by simp only [qText]) (by simp [qtoks, ctoks, qm])⟩
  | @or l r _ _ ihl ihr =>
    obtain ⟨k1, h1⟩ := ihl
    obtain ⟨k2, h2⟩ := ihr
    exact ⟨_, ((h1.seqU ux_OR (fun _ => rfl)).seqL h2).cast (by simp only [qText]) (by simp [qtoks, ctoks, qm])⟩
  | @not x _ ih =>
    obtain ⟨k1, h1⟩ := ih
    exact ⟨_, ((ux_NOTp.seqL h1).seqU ux_rparen (fun _ => rfl)).toLx.cast (by simp [qText])
      (by simp [qtoks, ctoks, qm])⟩
  | @cmpx op l x hl _ ih =>
    obtain ⟨k1, h1⟩ := lx_atomP hl
    obtain ⟨k2, h2⟩ := ih
    exact ⟨_, ((h1.seqU (ux_op op) (term_op op)).seqL (ux_parenQ h2).toLx).cast (by simp only [qText])
      (by simp [qtoks, ctoks, qm])⟩

theorem lex_RX {pm : Bool} {k : Bool} {c : Cst} (h : RX pm k c) : lex (qText c) = some (qtoks c) := by
  obtain ⟨n, hn⟩ := lx_RX h
  exact lex_of_Lx hn

/-- scanner and grammar together -/
theorem parseSql_RX {pm : Bool} {c : Cst} (h : RX pm false c) :
    parseSql (qText c) = if (renum 1 c).peak frameDepth < maxStack then some (renum 1 c).toAst else none := by
  unfold parseSql
  rw [lex_RX h]
  simp only [parse, parseCst_RX h]

theorem parseSql_RX_plain {c : Cst} (h : RX false false c) :
    parseSql (qText c) = if c.peak frameDepth < maxStack then some c.toAst else none := by
  rw [parseSql_RX h, (rx_plain h 1).1]

/-! ## parser stack -/

/-- parenthesis nesting, also below a comparison -/
def pdX : Cst → Nat
  | .paren x => pdX x + 1
  | .and l r => max (pdX l) (pdX r)
  | .or l r => max (pdX l) (pdX r)
  | .not x => pdX x
  | .cmp _ _ r => pdX r
  | _ => 0

theorem atomP_pdX {pm : Bool} {a : Cst} (h : AtomP pm a) : pdX a = 0 := by cases h <;> rfl

theorem leafP_pdX {pm : Bool} {L : Cst} (h : LeafP pm L) : pdX L = 0 := by
  cases h with
  | cmp op hl hr => simp only [pdX, atomP_pdX hr]
  | similar hx hp => rfl
  | regex hx hp => rfl
  | between hx hlo hhi => rfl
  | inList hx hi => rfl

theorem rx_peak {pm : Bool} {k : Bool} {c : Cst} (h : RX pm k c) :
    ∀ d, c.peak d ≤ d + 3 * pdX c + (if k then 7 else 9) := by
  induction h with
  | @atom a k ha =>
    intro d; have := atomP_peak ha d
    cases k <;> simp only [atomP_pdX ha, Bool.false_eq_true, ↓reduceIte] <;> omega
  | @leaf L hL =>
    intro d; have := leafP_peak hL d
    simp only [leafP_pdX hL, Bool.false_eq_true, ↓reduceIte]; omega
  | @rng a c hA hC =>
    intro d
    have h1 := leafP_peak hA d; have h2 := leafP_peak hC (d + 2)
    simp only [Cst.peak, pdX, leafP_pdX hA, leafP_pdX hC, Bool.false_eq_true, ↓reduceIte]; omega
  | @paren x _ ih =>
    intro d
    have := ih (d + 1)
    simp only [Bool.false_eq_true, ↓reduceIte] at this
    simp only [Cst.peak, pdX, ↓reduceIte]; omega
  | @and l r _ _ ihl ihr =>
    intro d
    have h1 := ihl d; have h2 := ihr (d + 2)
    simp only [↓reduceIte] at h1 h2
    simp only [Cst.peak, pdX, Bool.false_eq_true, ↓reduceIte]; omega
  | @or l r _ _ ihl ihr =>
    intro d
    have h1 := ihl d; have h2 := ihr (d + 2)
    simp only [↓reduceIte] at h1 h2
    simp only [Cst.peak, pdX, Bool.false_eq_true, ↓reduceIte]; omega
  | @not x _ ih =>
    intro d
    have := ih (d + 1 + 1)
    simp only [Bool.false_eq_true, ↓reduceIte] at this
    simp only [Cst.peak, pdX, Bool.false_eq_true, ↓reduceIte]; omega
  | @cmpx op l x hl _ ih =>
    intro d
    have h1 := (atomP_peak hl d).1
    have h2 := ih (d + 2 + 1)
    simp only [Bool.false_eq_true, ↓reduceIte] at h2
    simp only [Cst.peak, pdX, Bool.false_eq_true, ↓reduceIte]; omega

theorem pdX_renum : ∀ (c : Cst) (j : Nat), pdX (renum j c) = pdX c
  | .col _, _ => rfl
  | .str _, _ => rfl
  | .num _ _, _ => rfl
  | .param _, _ => rfl
  | .paren x, j => by simp only [renum, pdX, pdX_renum x j]
  | .cmp _ l r, j => by simp only [renum, pdX, pdX_renum r]
  | .between _ _ _, _ => rfl
  | .inList _ _, _ => rfl
  | .similar _ _, _ => rfl
  | .regex _ _, _ => rfl
  | .and l r, j => by simp only [renum, pdX, pdX_renum l, pdX_renum r]
  | .or l r, j => by simp only [renum, pdX, pdX_renum l, pdX_renum r]
  | .not x, j => by simp only [renum, pdX, pdX_renum x j]

/-- with at most 2990 levels of parentheses the parser stack suffices -/
theorem rx_stack {pm : Bool} {c : Cst} (h : RX pm false c) (hd : pdX c ≤ 2990) :
    (renum 1 c).peak frameDepth < maxStack := by
  have h1 := rx_peak (rx_renum h 1) frameDepth
  rw [pdX_renum] at h1
  simp only [Bool.false_eq_true, ↓reduceIte] at h1
  unfold frameDepth at h1 ⊢
  unfold maxStack
  omega

/-! ## 2. the fragment with sub-queries in value position -/

def isCmpOp (o : Op) : Bool := o == .equals || o == .greater || o == .less || o == .greaterEq || o == .lessEq

mutual
def toCstXNode : Node → Option Cst
  | .expr e => toCstX e
  | .prim q => (atomAst q).map emb
  | _ => none
/-- the concrete syntax tree of the text `render pgFns e`: as `SqlWide.toCstW`, and `column op ( sub-query )` when the
    value of a comparison is not a term -/
def toCstX : Expr → Option Cst
  | .mk l o r p d =>
    match o with
    | .and =>
      (match toCstXNode l, toCstXNode r with
       | some a, some c => some (.and (wrapOpd l a) (wrapOpd r c))
       | _, _ => none)
    | .or =>
      (match toCstXNode l, toCstXNode r with
       | some a, some c => some (.or (wrapOpd l a) (wrapOpd r c))
       | _, _ => none)
    | .not | .mustNot => (toCstXNode l).map (fun x => .not (.paren x))
    | .must => toCstXNode l
    | .equals | .greater | .less | .greaterEq | .lessEq =>
      if (opdPrim r).isSome then (toAstW (.mk l o r p d)).map emb
      else
        (match opdAst l, toCstXNode r with
         | some x, some c => some (.cmp (cmpOfOp o) (emb x) (.paren c))
         | _, _ => none)
    | .literal | .wild | .regexp | .like | .in_ | .range => (toAstW (.mk l o r p d)).map emb
    | _ => none
end

/-- what PostgreSQL reads from the text `render pgFns e` -/
def toAstX (e : Expr) : Option Ast := (toCstX e).map Cst.toAst

mutual
def confinedXNode : Node → Bool
  | .expr e => confinedX e
  | .prim q => primShape q
  | _ => false
/-- `SqlWide.confinedFilter`, and comparisons whose value is a (non-simple) expression of the fragment -/
def confinedX : Expr → Bool
  | .mk l o r p d =>
    match o with
    | .and | .or => confinedXNode l && confinedXNode r
    | .not | .mustNot | .must => confinedXNode l && r.isNil
    | .equals | .greater | .less | .greaterEq | .lessEq =>
      if (opdPrim r).isSome then confinedFilter (.mk l o r p d)
      else opdOK l && !isSimple r && confinedXNode r
    | _ => confinedFilter (.mk l o r p d)
end

mutual
def textXNode : Node → Bool
  | .expr e => textX e
  | .prim q => primTextW q
  | _ => true
def textX : Expr → Bool
  | .mk l o r p d =>
    match o with
    | .and | .or => textXNode l && textXNode r
    | .not | .mustNot | .must => textXNode l
    | .equals | .greater | .less | .greaterEq | .lessEq =>
      if (opdPrim r).isSome then textWide (.mk l o r p d) else opdTextW l && textXNode r
    | _ => textWide (.mk l o r p d)
end

mutual
def nestXNode : Node → Nat
  | .expr e => nestX e
  | _ => 0
/-- nesting depth of AND / OR / NOT and of sub-queries in value position (`SqlText.nest` does not look below a
    comparison) -/
def nestX : Expr → Nat
  | .mk l o r _ _ =>
    match o with
    | .and | .or => max (nestXNode l) (nestXNode r) + 1
    | .not | .mustNot => nestXNode l + 1
    | .must => nestXNode l
    | .equals | .greater | .less | .greaterEq | .lessEq => if (opdPrim r).isSome then 0 else nestXNode r + 1
    | _ => 0
end

def depthOKX (e : Expr) : Bool := decide (nestX e ≤ 2990)

def GoodX (e : Expr) (c : Cst) : Prop :=
  toCstX e = some c ∧ RX false false c ∧ render pgFns e = .ok (qText c) ∧
    (isSimple (.expr e) = true → AtomP false c)

theorem GoodX.ofW {e : Expr} {c : Cst} (h : GoodW e c) (he : toCstX e = toCstW e) : GoodX e c :=
  ⟨by rw [he]; exact h.1, .of h.2.1, h.2.2.1, h.2.2.2⟩

theorem wrap_rx {pm : Bool} {n : Node} {c : Cst} (h : RX pm false c) (hs : isSimple n = true → AtomP pm c) :
    RX pm true (wrapOpd n c) := by
  unfold wrapOpd
  cases hn : isSimple n
  · simp only [Bool.false_eq_true, ↓reduceIte]; exact .paren h
  · simp only [↓reduceIte]; exact .atom true (hs hn)

theorem qText_cmp (op : CmpOp) (l r : Cst) : qText (.cmp op l r) = qText l ++ opText op ++ qText r := by rw [qText]

/-- a comparison whose value is a sub-query: `column op ( … )` -/
theorem good_cmpX (l r : Node) (o : Op) (p : F64) (d : Int)
    (ho : o = .equals ∨ o = .greater ∨ o = .less ∨ o = .greaterEq ∨ o = .lessEq)
    (hl : opdOK l = true) (tl : opdTextW l = true) (hno : (opdPrim r).isSome = false) (hns : isSimple r = false)
    (c : Cst) (hcst : toCstXNode r = some c) (hc : RX false false c) (hser : serialize pgFns r = .ok (qText c)) :
    ∃ c', GoodX (.mk l o r p d) c' := by
  obtain ⟨ql, x, _, hxl, _, hAx, hsl, hx⟩ := opd_good hl tl
  refine ⟨.cmp (cmpOfOp o) (emb x) (.paren c), ?_, RX.cmpx _ (.of hAx) hc, ?_, fun h => ?_⟩
  · rcases ho with rfl | rfl | rfl | rfl | rfl <;> simp [toCstX, hno, hxl, hcst]
  · rw [qText_cmp, qText_paren, qText_atom hAx]
    rcases ho with rfl | rfl | rfl | rfl | rfl
    · rw [render_of _ _ _ _ _ _ _ _ hx hser (rfl : pgFns .equals = some (fnInfix " = "))]
      have hp : parenOps .equals = true := by decide
      simp only [hp, hsl, hns, Bool.not_true, Bool.not_false, Bool.and_false, Bool.and_true, Bool.false_eq_true,
        ↓reduceIte, fnInfix_ok, b_eq', cmpOfOp, parenB_eq]
    · rw [render_of _ _ _ _ _ _ _ _ hx hser (rfl : pgFns .greater = some (fnInfix " > "))]
      have hp : parenOps .greater = true := by decide
      simp only [hp, hsl, hns, Bool.not_true, Bool.not_false, Bool.and_false, Bool.and_true, Bool.false_eq_true,
        ↓reduceIte, fnInfix_ok, b_gt, cmpOfOp, parenB_eq]
    · rw [render_of _ _ _ _ _ _ _ _ hx hser (rfl : pgFns .less = some (fnInfix " < "))]
      have hp : parenOps .less = true := by decide
      simp only [hp, hsl, hns, Bool.not_true, Bool.not_false, Bool.and_false, Bool.and_true, Bool.false_eq_true,
        ↓reduceIte, fnInfix_ok, b_lt, cmpOfOp, parenB_eq]
    · rw [render_of _ _ _ _ _ _ _ _ hx hser (rfl : pgFns .greaterEq = some (fnInfix " >= "))]
      have hp : parenOps .greaterEq = true := by decide
      simp only [hp, hsl, hns, Bool.not_true, Bool.not_false, Bool.and_false, Bool.and_true, Bool.false_eq_true,
        ↓reduceIte, fnInfix_ok, b_ge, cmpOfOp, parenB_eq]
    · rw [render_of _ _ _ _ _ _ _ _ hx hser (rfl : pgFns .lessEq = some (fnInfix " <= "))]
      have hp : parenOps .lessEq = true := by decide
      simp only [hp, hsl, hns, Bool.not_true, Bool.not_false, Bool.and_false, Bool.and_true, Bool.false_eq_true,
        ↓reduceIte, fnInfix_ok, b_le, cmpOfOp, parenB_eq]
  · rw [notSimple _ _ _ _ _ (by rcases ho with rfl | rfl | rfl | rfl | rfl <;> decide)] at h; cases h

/-- a comparison whose value is a term, and every other predicate: `SqlWide.good_expr_wide` -/
theorem good_baseX (e : Expr) (hc : confinedFilter e = true) (ht : textWide e = true) (he : toCstX e = toCstW e) :
    ∃ c, GoodX e c := by
  obtain ⟨c, h⟩ := good_expr_wide e hc ht
  exact ⟨c, .ofW h he⟩

mutual
theorem good_node_X : ∀ n : Node, confinedXNode n = true → textXNode n = true →
    ∃ c, toCstXNode n = some c ∧ RX false false c ∧ serialize pgFns n = .ok (qText c) ∧
      (isSimple n = true → AtomP false c)
  | .expr e, hc, ht => by
    simp only [confinedXNode] at hc
    simp only [textXNode] at ht
    rw [serialize_expr]
    simp only [toCstXNode]
    exact good_expr_X e hc ht
  | .prim q, hc, ht => by
    simp only [confinedXNode] at hc
    simp only [textXNode] at ht
    obtain ⟨a, ha, hA, _, hser, _⟩ := prim_atom q hc ht
    exact ⟨emb a, by simp [toCstXNode, ha], .atom false (.of hA), by rw [qText_atom hA]; exact hser, fun _ => .of hA⟩
  | .nil, hc, _ => by simp [confinedXNode] at hc
  | .list _, hc, _ => by simp [confinedXNode] at hc
  | .bound _ _ _, hc, _ => by simp [confinedXNode] at hc
/-- RENDERER: on the extended fragment the text is the text of `toCstX e`, which has the shape `RX` -/
theorem good_expr_X : ∀ e : Expr, confinedX e = true → textX e = true → ∃ c, GoodX e c
  | .mk l o r p d, hc, ht => by
    have cmpcase : isCmpOp o = true → (o = .equals ∨ o = .greater ∨ o = .less ∨ o = .greaterEq ∨ o = .lessEq) := by
      cases o <;> simp [isCmpOp]
    cases o
    case and =>
      simp only [confinedX, Bool.and_eq_true] at hc
      simp only [textX, Bool.and_eq_true] at ht
      obtain ⟨x, hx1, hx2, hx, hxs⟩ := good_node_X l hc.1 ht.1
      obtain ⟨y, hy1, hy2, hy, hys⟩ := good_node_X r hc.2 ht.2
      have hp : parenOps .and = true := by decide
      refine ⟨.and (wrapOpd l x) (wrapOpd r y), by simp only [toCstX, hx1, hy1],
        RX.and (wrap_rx hx2 hxs) (wrap_rx hy2 hys), ?_, fun h => ?_⟩
      · rw [render_of _ _ _ _ _ _ _ _ hx hy (rfl : pgFns .and = some (fnInfix " AND "))]
        rw [parenB_wrap _ _ _ hp, parenB_wrap _ _ _ hp, fnInfix_ok, b_and, qText_and]
      · rw [notSimple _ _ _ _ _ (by decide)] at h; cases h
    case or =>
      simp only [confinedX, Bool.and_eq_true] at hc
      simp only [textX, Bool.and_eq_true] at ht
      obtain ⟨x, hx1, hx2, hx, hxs⟩ := good_node_X l hc.1 ht.1
      obtain ⟨y, hy1, hy2, hy, hys⟩ := good_node_X r hc.2 ht.2
      have hp : parenOps .or = true := by decide
      refine ⟨.or (wrapOpd l x) (wrapOpd r y), by simp only [toCstX, hx1, hy1],
        RX.or (wrap_rx hx2 hxs) (wrap_rx hy2 hys), ?_, fun h => ?_⟩
      · rw [render_of _ _ _ _ _ _ _ _ hx hy (rfl : pgFns .or = some (fnInfix " OR "))]
        rw [parenB_wrap _ _ _ hp, parenB_wrap _ _ _ hp, fnInfix_ok, b_or, qText_or]
      · rw [notSimple _ _ _ _ _ (by decide)] at h; cases h
    case not =>
      simp only [confinedX, Bool.and_eq_true] at hc
      simp only [textX] at ht
      obtain ⟨x, hx1, hx2, hx, _⟩ := good_node_X l hc.1 ht
      cases nil_of_isNil hc.2
      refine ⟨.not (.paren x), by simp only [toCstX, hx1, Option.map_some], RX.not hx2, ?_, fun h => ?_⟩
      · rw [render_of _ _ _ _ _ _ _ _ hx serialize_nil (rfl : pgFns .not = some fnWrapNot)]
        have hp : parenOps .not = false := by decide
        simp only [hp, Bool.false_and, Bool.false_eq_true, ↓reduceIte, fnWrapNot, b_notp, b_rp, qText_not,
          qText_paren]
        simp
      · rw [notSimple _ _ _ _ _ (by decide)] at h; cases h
    case mustNot =>
      simp only [confinedX, Bool.and_eq_true] at hc
      simp only [textX] at ht
      obtain ⟨x, hx1, hx2, hx, _⟩ := good_node_X l hc.1 ht
      cases nil_of_isNil hc.2
      refine ⟨.not (.paren x), by simp only [toCstX, hx1, Option.map_some], RX.not hx2, ?_, fun h => ?_⟩
      · rw [render_of _ _ _ _ _ _ _ _ hx serialize_nil (rfl : pgFns .mustNot = some fnWrapNot)]
        have hp : parenOps .mustNot = false := by decide
        simp only [hp, Bool.false_and, Bool.false_eq_true, ↓reduceIte, fnWrapNot, b_notp, b_rp, qText_not,
          qText_paren]
        simp
      · rw [notSimple _ _ _ _ _ (by decide)] at h; cases h
    case must =>
      simp only [confinedX, Bool.and_eq_true] at hc
      simp only [textX] at ht
      obtain ⟨x, hx1, hx2, hx, _⟩ := good_node_X l hc.1 ht
      cases nil_of_isNil hc.2
      refine ⟨x, by simp only [toCstX, hx1], hx2, ?_, fun h => ?_⟩
      · rw [render_of _ _ _ _ _ _ _ _ hx serialize_nil (rfl : pgFns .must = some fnNoop)]
        have hp : parenOps .must = false := by decide
        simp only [hp, Bool.false_and, Bool.false_eq_true, ↓reduceIte, fnNoop]
      · rw [notSimple _ _ _ _ _ (by decide)] at h; cases h
    case equals =>
      cases hv : (opdPrim r).isSome with
      | true =>
        simp only [confinedX, hv, ↓reduceIte] at hc
        simp only [textX, hv, ↓reduceIte] at ht
        exact good_baseX _ hc ht (by simp only [toCstX, toCstW, hv, ↓reduceIte])
      | false =>
        simp only [confinedX, hv, Bool.false_eq_true, ↓reduceIte, Bool.and_eq_true, Bool.not_eq_true'] at hc
        simp only [textX, hv, Bool.false_eq_true, ↓reduceIte, Bool.and_eq_true] at ht
        obtain ⟨y, hy1, hy2, hy, _⟩ := good_node_X r hc.2 ht.2
        exact good_cmpX l r _ p d (.inl rfl) hc.1.1 ht.1 hv hc.1.2 y hy1 hy2 hy
    case greater =>
      cases hv : (opdPrim r).isSome with
      | true =>
        simp only [confinedX, hv, ↓reduceIte] at hc
        simp only [textX, hv, ↓reduceIte] at ht
        exact good_baseX _ hc ht (by simp only [toCstX, toCstW, hv, ↓reduceIte])
      | false =>
        simp only [confinedX, hv, Bool.false_eq_true, ↓reduceIte, Bool.and_eq_true, Bool.not_eq_true'] at hc
        simp only [textX, hv, Bool.false_eq_true, ↓reduceIte, Bool.and_eq_true] at ht
        obtain ⟨y, hy1, hy2, hy, _⟩ := good_node_X r hc.2 ht.2
        exact good_cmpX l r _ p d (.inr (.inl rfl)) hc.1.1 ht.1 hv hc.1.2 y hy1 hy2 hy
    case less =>
      cases hv : (opdPrim r).isSome with
      | true =>
        simp only [confinedX, hv, ↓reduceIte] at hc
        simp only [textX, hv, ↓reduceIte] at ht
        exact good_baseX _ hc ht (by simp only [toCstX, toCstW, hv, ↓reduceIte])
      | false =>
        simp only [confinedX, hv, Bool.false_eq_true, ↓reduceIte, Bool.and_eq_true, Bool.not_eq_true'] at hc
        simp only [textX, hv, Bool.false_eq_true, ↓reduceIte, Bool.and_eq_true] at ht
        obtain ⟨y, hy1, hy2, hy, _⟩ := good_node_X r hc.2 ht.2
        exact good_cmpX l r _ p d (.inr (.inr (.inl rfl))) hc.1.1 ht.1 hv hc.1.2 y hy1 hy2 hy
    case greaterEq =>
      cases hv : (opdPrim r).isSome with
      | true =>
        simp only [confinedX, hv, ↓reduceIte] at hc
        simp only [textX, hv, ↓reduceIte] at ht
        exact good_baseX _ hc ht (by simp only [toCstX, toCstW, hv, ↓reduceIte])
      | false =>
        simp only [confinedX, hv, Bool.false_eq_true, ↓reduceIte, Bool.and_eq_true, Bool.not_eq_true'] at hc
        simp only [textX, hv, Bool.false_eq_true, ↓reduceIte, Bool.and_eq_true] at ht
        obtain ⟨y, hy1, hy2, hy, _⟩ := good_node_X r hc.2 ht.2
        exact good_cmpX l r _ p d (.inr (.inr (.inr (.inl rfl)))) hc.1.1 ht.1 hv hc.1.2 y hy1 hy2 hy
    case lessEq =>
      cases hv : (opdPrim r).isSome with
      | true =>
        simp only [confinedX, hv, ↓reduceIte] at hc
        simp only [textX, hv, ↓reduceIte] at ht
        exact good_baseX _ hc ht (by simp only [toCstX, toCstW, hv, ↓reduceIte])
      | false =>
        simp only [confinedX, hv, Bool.false_eq_true, ↓reduceIte, Bool.and_eq_true, Bool.not_eq_true'] at hc
        simp only [textX, hv, Bool.false_eq_true, ↓reduceIte, Bool.and_eq_true] at ht
        obtain ⟨y, hy1, hy2, hy, _⟩ := good_node_X r hc.2 ht.2
        exact good_cmpX l r _ p d (.inr (.inr (.inr (.inr rfl)))) hc.1.1 ht.1 hv hc.1.2 y hy1 hy2 hy
    case literal =>
      simp only [confinedX] at hc; simp only [textX] at ht
      exact good_baseX _ hc ht (by simp only [toCstX, toCstW])
    case wild =>
      simp only [confinedX] at hc; simp only [textX] at ht
      exact good_baseX _ hc ht (by simp only [toCstX, toCstW])
    case regexp =>
      simp only [confinedX] at hc; simp only [textX] at ht
      exact good_baseX _ hc ht (by simp only [toCstX, toCstW])
    case like =>
      simp only [confinedX] at hc; simp only [textX] at ht
      exact good_baseX _ hc ht (by simp only [toCstX, toCstW])
    case in_ =>
      simp only [confinedX] at hc; simp only [textX] at ht
      exact good_baseX _ hc ht (by simp only [toCstX, toCstW])
    case range =>
      simp only [confinedX] at hc; simp only [textX] at ht
      exact good_baseX _ hc ht (by simp only [toCstX, toCstW])
    all_goals (simp only [confinedX] at hc; simp [confinedFilter] at hc)
end

/-! ## 3. PostgreSQL reads the text as `toAstX e`; depth; provenance -/

/-- exact form: PostgreSQL reads the rendered text as `toAstX e`, and rejects it exactly when its parser stack would
    overflow -/
theorem render_parses_X_iff (e : Expr) (t : Bytes) (hc : confinedX e = true) (ht : textX e = true)
    (hr : render pgFns e = .ok t) :
    ∃ c, toCstX e = some c ∧ RX false false c ∧
      parseSql t = if c.peak frameDepth < maxStack then some c.toAst else none := by
  obtain ⟨c, hcst, hrx, hren, _⟩ := good_expr_X e hc ht
  have e1 : t = qText c := by rw [hren] at hr; cases hr; rfl
  exact ⟨c, hcst, hrx, by rw [e1, parseSql_RX_plain hrx]⟩

mutual
theorem pdX_emb : ∀ a : Ast, pdX (emb a) = 0
  | .col _ => rfl
  | .str _ => rfl
  | .num _ _ => rfl
  | .param _ => rfl
  | .cmp _ l r => by simp only [emb, pdX, pdX_emb r]
  | .between _ _ _ => rfl
  | .inList _ _ => rfl
  | .similar _ _ => rfl
  | .regex _ _ => rfl
  | .and l r => by simp only [emb, pdX, pdX_emb l, pdX_emb r]; rfl
  | .or l r => by simp only [emb, pdX, pdX_emb l, pdX_emb r]; rfl
  | .not x => by simp only [emb, pdX, pdX_emb x]
end

theorem pdX_wrap (n : Node) (c : Cst) : pdX (wrapOpd n c) ≤ pdX c + 1 := by
  unfold wrapOpd; split <;> simp [pdX]

mutual
theorem pdX_toCstXNode : ∀ (n : Node) (c : Cst), toCstXNode n = some c → pdX c ≤ nestXNode n
  | .expr e, c, h => by simp only [toCstXNode] at h; simp only [nestXNode]; exact pdX_toCstX e c h
  | .nil, _, h => by simp [toCstXNode] at h
  | .prim q, c, h => by
    simp only [toCstXNode, Option.map_eq_some_iff] at h
    obtain ⟨a, _, rfl⟩ := h
    rw [pdX_emb]; exact Nat.zero_le _
  | .list _, _, h => by simp [toCstXNode] at h
  | .bound _ _ _, _, h => by simp [toCstXNode] at h
theorem pdX_toCstX : ∀ (e : Expr) (c : Cst), toCstX e = some c → pdX c ≤ nestX e
  | .mk l o r p d, c, h => by
    have base : ∀ a : Ast, c = emb a → pdX c ≤ nestX (.mk l o r p d) := by
      intro a e; subst e; rw [pdX_emb]; exact Nat.zero_le _
    have cmpc : (o = .equals ∨ o = .greater ∨ o = .less ∨ o = .greaterEq ∨ o = .lessEq) →
        pdX c ≤ nestX (.mk l o r p d) := by
      intro ho
      cases hv : (opdPrim r).isSome with
      | true =>
        have h' : (toAstW (.mk l o r p d)).map emb = some c := by
          rcases ho with rfl | rfl | rfl | rfl | rfl <;> simpa only [toCstX, hv, ↓reduceIte] using h
        obtain ⟨a, _, e⟩ := Option.map_eq_some_iff.mp h'
        exact base a e.symm
      | false =>
        have h' : (match opdAst l, toCstXNode r with
            | some x, some c => some (Cst.cmp (cmpOfOp o) (emb x) (.paren c))
            | _, _ => none) = some c := by
          rcases ho with rfl | rfl | rfl | rfl | rfl <;>
            simpa only [toCstX, hv, Bool.false_eq_true, ↓reduceIte] using h
        split at h'
        · rename_i x y hx hy
          cases h'
          have := pdX_toCstXNode r y hy
          have e : nestX (.mk l o r p d) = nestXNode r + 1 := by
            rcases ho with rfl | rfl | rfl | rfl | rfl <;> simp only [nestX, hv, Bool.false_eq_true, ↓reduceIte]
          rw [e]
          simp only [pdX]; omega
        · cases h'
    cases o
    case and =>
      simp only [toCstX] at h
      split at h
      · rename_i x y hx hy
        cases h
        have := pdX_toCstXNode l x hx; have := pdX_toCstXNode r y hy
        have := pdX_wrap l x; have := pdX_wrap r y
        simp only [pdX, nestX]; omega
      · cases h
    case or =>
      simp only [toCstX] at h
      split at h
      · rename_i x y hx hy
        cases h
        have := pdX_toCstXNode l x hx; have := pdX_toCstXNode r y hy
        have := pdX_wrap l x; have := pdX_wrap r y
        simp only [pdX, nestX]; omega
      · cases h
    case not =>
      simp only [toCstX] at h
      cases hx : toCstXNode l with
      | none => simp [hx] at h
      | some x =>
        simp only [hx, Option.map_some, Option.some.injEq] at h
        subst h
        have := pdX_toCstXNode l x hx
        simp only [pdX, nestX]; omega
    case mustNot =>
      simp only [toCstX] at h
      cases hx : toCstXNode l with
      | none => simp [hx] at h
      | some x =>
        simp only [hx, Option.map_some, Option.some.injEq] at h
        subst h
        have := pdX_toCstXNode l x hx
        simp only [pdX, nestX]; omega
    case must =>
      simp only [toCstX] at h
      have := pdX_toCstXNode l c h
      simp only [nestX]; omega
    case equals => exact cmpc (.inl rfl)
    case greater => exact cmpc (.inr (.inl rfl))
    case less => exact cmpc (.inr (.inr (.inl rfl)))
    case greaterEq => exact cmpc (.inr (.inr (.inr (.inl rfl))))
    case lessEq => exact cmpc (.inr (.inr (.inr (.inr rfl))))
    all_goals first
      | (simp only [toCstX, Option.map_eq_some_iff] at h
         obtain ⟨a, _, rfl⟩ := h
         rw [pdX_emb]; exact Nat.zero_le _)
      | (simp [toCstX] at h)
end

/-- THEOREM (extended fragment): PostgreSQL's scanner and expression grammar read the rendered text as exactly the
    one expression `toAstX e` -/
theorem render_parses_X (e : Expr) (t : Bytes) (hc : confinedX e = true) (ht : textX e = true)
    (hd : depthOKX e = true) (hr : render pgFns e = .ok t) : parseSql t = toAstX e := by
  obtain ⟨c, hcst, hrx, hp⟩ := render_parses_X_iff e t hc ht hr
  have h2 := pdX_toCstX e c hcst
  have h3 : nestX e ≤ 2990 := by simpa [depthOKX] using hd
  have h1 := rx_stack hrx (by omega)
  rw [(rx_plain hrx 1).1] at h1
  rw [hp, if_pos h1]
  simp [toAstX, hcst]

mutual
theorem fromLeavesX_node : ∀ (n : Node) (c : Cst), toCstXNode n = some c → FromLeavesW c.toAst (leavesNode n)
  | .expr e, c, h => by simp only [toCstXNode] at h; simp only [leavesNode]; exact fromLeavesX_expr e c h
  | .nil, _, h => by simp [toCstXNode] at h
  | .prim q, c, h => by
    simp only [toCstXNode, Option.map_eq_some_iff] at h
    obtain ⟨a, ha, rfl⟩ := h
    rw [emb_toAst]
    exact (atomAst_from ha).mono (fun q' hq' => by simpa [leavesNode] using hq')
  | .list _, _, h => by simp [toCstXNode] at h
  | .bound _ _ _, _, h => by simp [toCstXNode] at h
/-- every column reference of `toAstX e` is a column leaf of the tree and every constant renders a value leaf -/
theorem fromLeavesX_expr : ∀ (e : Expr) (c : Cst), toCstX e = some c → FromLeavesW c.toAst (leaves e)
  | .mk l o r p d, c, h => by
    have hL : ∀ q ∈ leavesNode l, q ∈ leaves (.mk l o r p d) := fun q hq => by simp [leaves, hq]
    have hR : ∀ q ∈ leavesNode r, q ∈ leaves (.mk l o r p d) := fun q hq => by simp [leaves, hq]
    have base : (toAstW (.mk l o r p d)).map emb = some c → FromLeavesW c.toAst (leaves (.mk l o r p d)) := by
      intro h'
      obtain ⟨a, ha, rfl⟩ := Option.map_eq_some_iff.mp h'
      rw [emb_toAst]
      exact fromLeavesW_expr _ a ha
    have cmpc : (o = .equals ∨ o = .greater ∨ o = .less ∨ o = .greaterEq ∨ o = .lessEq) →
        FromLeavesW c.toAst (leaves (.mk l o r p d)) := by
      intro ho
      cases hv : (opdPrim r).isSome with
      | true =>
        exact base (by rcases ho with rfl | rfl | rfl | rfl | rfl <;> simpa only [toCstX, hv, ↓reduceIte] using h)
      | false =>
        have h' : (match opdAst l, toCstXNode r with
            | some x, some c => some (Cst.cmp (cmpOfOp o) (emb x) (.paren c))
            | _, _ => none) = some c := by
          rcases ho with rfl | rfl | rfl | rfl | rfl <;>
            simpa only [toCstX, hv, Bool.false_eq_true, ↓reduceIte] using h
        split at h'
        · rename_i x y hx hy
          cases h'
          simp only [Cst.toAst, emb_toAst]
          exact ((opdAst_from hx).mono hL).cmp _ ((fromLeavesX_node r y hy).mono hR)
        · cases h'
    cases o
    case and =>
      simp only [toCstX] at h
      split at h
      · rename_i x y hx hy
        cases h
        simp only [Cst.toAst, wrapOpd_toAst]
        exact ((fromLeavesX_node l x hx).mono hL).and ((fromLeavesX_node r y hy).mono hR)
      · cases h
    case or =>
      simp only [toCstX] at h
      split at h
      · rename_i x y hx hy
        cases h
        simp only [Cst.toAst, wrapOpd_toAst]
        exact ((fromLeavesX_node l x hx).mono hL).or ((fromLeavesX_node r y hy).mono hR)
      · cases h
    case not =>
      simp only [toCstX] at h
      cases hx : toCstXNode l with
      | none => simp [hx] at h
      | some x =>
        simp only [hx, Option.map_some, Option.some.injEq] at h
        subst h
        simp only [Cst.toAst]
        exact ((fromLeavesX_node l x hx).mono hL).not
    case mustNot =>
      simp only [toCstX] at h
      cases hx : toCstXNode l with
      | none => simp [hx] at h
      | some x =>
        simp only [hx, Option.map_some, Option.some.injEq] at h
        subst h
        simp only [Cst.toAst]
        exact ((fromLeavesX_node l x hx).mono hL).not
    case must =>
      simp only [toCstX] at h
      exact (fromLeavesX_node l c h).mono hL
    case equals => exact cmpc (.inl rfl)
    case greater => exact cmpc (.inr (.inl rfl))
    case less => exact cmpc (.inr (.inr (.inl rfl)))
    case greaterEq => exact cmpc (.inr (.inr (.inr (.inl rfl))))
    case lessEq => exact cmpc (.inr (.inr (.inr (.inr rfl))))
    all_goals first
      | (simp only [toCstX] at h; exact base h)
      | (simp [toCstX] at h)
end

/-- COROLLARY (C02, extended fragment): columns are column leaves of the tree, constants render value leaves -/
theorem confinedX_cols_consts (e : Expr) (t : Bytes) (a : Ast) (hc : confinedX e = true) (ht : textX e = true)
    (hr : render pgFns e = .ok t) (hp : parseSql t = some a) :
    (∀ c ∈ cols a, Prim.col c ∈ leaves e) ∧ (∀ k ∈ consts a, ∃ q ∈ leaves e, k ∈ rendersOfW q) := by
  obtain ⟨c, hcst, _, hparse⟩ := render_parses_X_iff e t hc ht hr
  rw [hparse] at hp
  split at hp
  · cases hp; exact fromLeavesX_expr e c hcst
  · cases hp

/-! ## 4. every tree of the parser's shape that renders is in the extended fragment -/

theorem notSimple_of_shape {r : Node} (hs : semNodeT r = true) (hv : (opdPrim r).isSome = false) :
    isSimple r = false := by
  obtain ⟨a, rfl, ha⟩ := semNodeT_inv hs
  obtain ⟨l, o, r', p, d⟩ := a
  have leafc : leafOp o = true → False := by
    intro ho
    have hl : o.isLeafOp = true := by rcases leafOp_cases ho with rfl | rfl | rfl <;> rfl
    obtain ⟨q, o', p', d', e, _, _⟩ := termLeaf_inv (termLeaf_of_shapeT_leafop _ ha hl)
    cases e
    rw [SqlWide.opdPrim_leaf _ _ _ _ ho] at hv
    cases hv
  cases o
  case undefined => simp [semShapeT] at ha
  case list => simp [semShapeT] at ha
  case literal => exact (leafc rfl).elim
  case wild => exact (leafc rfl).elim
  case regexp => exact (leafc rfl).elim
  all_goals simp [isSimple, Expr.op]

mutual
theorem confX_node : ∀ (n : Node) (t : Bytes), semNodeT n = true → validateNode n = true →
    serialize pgFns n = .ok t → confinedXNode n = true ∧ textXNode n = true
  | .expr e, t, hs, hv, hr => by
    simp only [semNodeT] at hs
    simp only [validateNode] at hv
    rw [serialize_expr] at hr
    simp only [confinedXNode, textXNode]
    exact confX_expr e t hs hv hr
  | .nil, _, hs, _, _ => by simp [semNodeT] at hs
  | .prim _, _, hs, _, _ => by simp [semNodeT] at hs
  | .list _, _, hs, _, _ => by simp [semNodeT] at hs
  | .bound _ _ _, _, hs, _, _ => by simp [semNodeT] at hs
/-- KEY LEMMA (no exclusion): a validated tree of the parser's shape that the PostgreSQL renderer renders is in the
    extended confinement fragment -/
theorem confX_expr : ∀ (e : Expr) (t : Bytes), semShapeT e = true → validateExpr e = true →
    render pgFns e = .ok t → confinedX e = true ∧ textX e = true
  | .mk l o r p d, t, hs, hv, hr => by
    obtain ⟨hop, hvl, hvr⟩ := validate_top l o r p d hv
    obtain ⟨left, right, fn, hl, hrr, hfn, hfn2⟩ := render_inv hr
    have cmpc : (o = .equals ∨ o = .greater ∨ o = .less ∨ o = .greaterEq ∨ o = .lessEq) →
        confinedX (.mk l o r p d) = true ∧ textX (.mk l o r p d) = true := by
      intro ho
      cases hvv : (opdPrim r).isSome with
      | true =>
        have hx : valsAtomic (.mk l o r p d) = true := by
          rcases ho with rfl | rfl | rfl | rfl | rfl <;> simp only [valsAtomic, hvv]
        have := conf_expr _ t hs hv hx hr
        rcases ho with rfl | rfl | rfl | rfl | rfl <;> simpa only [confinedX, textX, hvv, ↓reduceIte] using this
      | false =>
        have hs' : (semNodeT l || isColField l) = true ∧ semNodeT r = true := by
          rcases ho with rfl | rfl | rfl | rfl | rfl <;> simpa only [semShapeT, Bool.and_eq_true] using hs
        have hop' : isLiteralExpr l = true := by
          rcases ho with rfl | rfl | rfl | rfl | rfl <;>
            simpa only [validateOp, Expr.op, Expr.left, Option.some.injEq] using hop
        obtain ⟨q, ol, pl, dl, rfl, hol, hq⟩ := field_inv hs'.1 hop'
        have t1 : primTextW q = true := by
          rw [serialize_expr] at hl
          exact leaf_text q ol pl dl _ hol hq hl
        have hr' := confX_node r right hs'.2 hvr hrr
        have hns := notSimple_of_shape hs'.2 hvv
        rcases ho with rfl | rfl | rfl | rfl | rfl <;>
          simp only [confinedX, textX, hvv, Bool.false_eq_true, ↓reduceIte, opdOK, opdTextW,
            SqlWide.opdPrim_leaf _ _ _ _ hol, hq, t1, hns, hr'.1, hr'.2, Bool.not_false, Bool.and_self, and_self]
    have basec : valsAtomic (.mk l o r p d) = true →
        confinedFilter (.mk l o r p d) = true ∧ textWide (.mk l o r p d) = true :=
      fun hx => conf_expr _ t hs hv hx hr
    cases o with
    | and =>
      simp only [semShapeT, Bool.and_eq_true] at hs
      have h1 := confX_node l left hs.1 hvl hl
      have h2 := confX_node r right hs.2 hvr hrr
      simp only [confinedX, textX, h1.1, h1.2, h2.1, h2.2, Bool.and_self, and_self]
    | or =>
      simp only [semShapeT, Bool.and_eq_true] at hs
      have h1 := confX_node l left hs.1 hvl hl
      have h2 := confX_node r right hs.2 hvr hrr
      simp only [confinedX, textX, h1.1, h1.2, h2.1, h2.2, Bool.and_self, and_self]
    | not =>
      simp only [semShapeT, Bool.and_eq_true] at hs
      have h1 := confX_node l left hs.1 hvl hl
      simp only [confinedX, textX, h1.1, h1.2, hs.2, Bool.and_self, and_self]
    | must =>
      simp only [semShapeT, Bool.and_eq_true] at hs
      have h1 := confX_node l left hs.1 hvl hl
      simp only [confinedX, textX, h1.1, h1.2, hs.2, Bool.and_self, and_self]
    | mustNot =>
      simp only [semShapeT, Bool.and_eq_true] at hs
      have h1 := confX_node l left hs.1 hvl hl
      simp only [confinedX, textX, h1.1, h1.2, hs.2, Bool.and_self, and_self]
    | equals => exact cmpc (.inl rfl)
    | greater => exact cmpc (.inr (.inl rfl))
    | less => exact cmpc (.inr (.inr (.inl rfl)))
    | greaterEq => exact cmpc (.inr (.inr (.inr (.inl rfl))))
    | lessEq => exact cmpc (.inr (.inr (.inr (.inr rfl))))
    | literal => simpa only [confinedX, textX] using basec (by simp only [valsAtomic])
    | wild => simpa only [confinedX, textX] using basec (by simp only [valsAtomic])
    | regexp => simpa only [confinedX, textX] using basec (by simp only [valsAtomic])
    | like => simpa only [confinedX, textX] using basec (by simp only [valsAtomic])
    | in_ => simpa only [confinedX, textX] using basec (by simp only [valsAtomic])
    | range => simpa only [confinedX, textX] using basec (by simp only [valsAtomic])
    | fuzzy => simpa only [confinedX, textX] using basec (by simp only [valsAtomic])
    | boost => simpa only [confinedX, textX] using basec (by simp only [valsAtomic])
    | undefined => simpa only [confinedX, textX] using basec (by simp only [valsAtomic])
    | list => simpa only [confinedX, textX] using basec (by simp only [valsAtomic])
end

/-! ## 5. the extension agrees with `SqlWide` where comparison values are terms -/

mutual
theorem toCstXNode_eq : ∀ n : Node, valsAtomicNode n = true → toCstXNode n = toCstWNode n ∧ nestXNode n = nestNode n
  | .expr e, h => by
    simp only [valsAtomicNode] at h
    simp only [toCstXNode, toCstWNode, nestXNode, nestNode]
    exact toCstX_eq e h
  | .nil, _ => ⟨rfl, rfl⟩
  | .prim _, _ => ⟨rfl, rfl⟩
  | .list _, _ => ⟨rfl, rfl⟩
  | .bound _ _ _, _ => ⟨rfl, rfl⟩
theorem toCstX_eq : ∀ e : Expr, valsAtomic e = true → toCstX e = toCstW e ∧ nestX e = nest e
  | .mk l o r p d, h => by
    cases o
    case and =>
      simp only [valsAtomic, Bool.and_eq_true] at h
      have h1 := toCstXNode_eq l h.1; have h2 := toCstXNode_eq r h.2
      refine ⟨?_, by simp only [nestX, nest, h1.2, h2.2]⟩
      simp only [toCstX, toCstW, h1.1, h2.1]
      cases toCstWNode l <;> cases toCstWNode r <;> rfl
    case or =>
      simp only [valsAtomic, Bool.and_eq_true] at h
      have h1 := toCstXNode_eq l h.1; have h2 := toCstXNode_eq r h.2
      refine ⟨?_, by simp only [nestX, nest, h1.2, h2.2]⟩
      simp only [toCstX, toCstW, h1.1, h2.1]
      cases toCstWNode l <;> cases toCstWNode r <;> rfl
    case not =>
      simp only [valsAtomic] at h
      have h1 := toCstXNode_eq l h
      simp only [toCstX, toCstW, nestX, nest, h1.1, h1.2, and_self]
    case mustNot =>
      simp only [valsAtomic] at h
      have h1 := toCstXNode_eq l h
      simp only [toCstX, toCstW, nestX, nest, h1.1, h1.2, and_self]
    case must =>
      simp only [valsAtomic] at h
      have h1 := toCstXNode_eq l h
      simp only [toCstX, toCstW, nestX, nest, h1.1, h1.2, and_self]
    case equals => simp only [valsAtomic] at h; simp only [toCstX, toCstW, nestX, nest, h, ↓reduceIte, and_self]
    case greater => simp only [valsAtomic] at h; simp only [toCstX, toCstW, nestX, nest, h, ↓reduceIte, and_self]
    case less => simp only [valsAtomic] at h; simp only [toCstX, toCstW, nestX, nest, h, ↓reduceIte, and_self]
    case greaterEq => simp only [valsAtomic] at h; simp only [toCstX, toCstW, nestX, nest, h, ↓reduceIte, and_self]
    case lessEq => simp only [valsAtomic] at h; simp only [toCstX, toCstW, nestX, nest, h, ↓reduceIte, and_self]
    all_goals simp only [toCstX, toCstW, nestX, nest, and_self]
end

/-- where comparison values are terms, `toAstX` is `SqlWide.toAstW` and `depthOKX` is `SqlText.depthOK` -/
theorem toAstX_eq (e : Expr) (h : valsAtomic e = true) : toAstX e = toAstW e ∧ depthOKX e = SqlText.depthOK e := by
  have := toCstX_eq e h
  exact ⟨by rw [toAstX, this.1, toCstW_toAstW], by simp only [depthOKX, SqlText.depthOK, this.2]⟩

/-! ## 6. QUERIES, inline text, no exclusion -/

section Query
variable (env : Env) (s df : Bytes) (e : Expr)

theorem query_in_fragmentX (t : Bytes) (h : parseQuery env s df = .ok e) (hr : render pgFns e = .ok t) :
    confinedX e = true ∧ textX e = true := by
  obtain ⟨hs, hv⟩ := JsonParse.parse_shape env s df e h
  exact confX_expr e t hs hv hr

/-- **C02 over queries (inline text), full strength.**  NO hypothesis on the tree beyond: it came out of the
    parser, the renderer succeeded, and nesting (of AND / OR / NOT and of sub-queries in value position) stays within
    PostgreSQL's parser stack.  PostgreSQL reads the rendered text as exactly ONE predicate `toAstX e`; its column
    references are fields (or the default field) of the query; its constants are renderings of values of the query. -/
theorem query_confined_full (t : Bytes) (h : parseQuery env s df = .ok e) (hr : render pgFns e = .ok t)
    (hd : depthOKX e = true) :
    Sql.parseSql t = toAstX e ∧ (∃ a, Sql.parseSql t = some a) ∧ ∀ a, Sql.parseSql t = some a →
      (∀ c ∈ cols a, Prim.col c ∈ leaves e) ∧ (∀ k ∈ consts a, ∃ q ∈ leaves e, k ∈ rendersOfW q) := by
  obtain ⟨hc, ht⟩ := query_in_fragmentX env s df e t h hr
  have hp := render_parses_X e t hc ht hd hr
  obtain ⟨c, hcst, _, _, _⟩ := good_expr_X e hc ht
  exact ⟨hp, ⟨c.toAst, by rw [hp]; simp [toAstX, hcst]⟩, fun a ha => confinedX_cols_consts e t a hc ht hr ha⟩

/-- the exact form: no depth hypothesis; PostgreSQL rejects the text exactly when its parser stack would overflow -/
theorem query_confined_full_stack (t : Bytes) (h : parseQuery env s df = .ok e) (hr : render pgFns e = .ok t) :
    ∃ c, toCstX e = some c ∧
      Sql.parseSql t = if c.peak frameDepth < maxStack then some c.toAst else none := by
  obtain ⟨hc, ht⟩ := query_in_fragmentX env s df e t h hr
  obtain ⟨c, h1, _, h3⟩ := render_parses_X_iff e t hc ht hr
  exact ⟨c, h1, h3⟩

end Query

/-! ## 7. examples -/

section Examples
open JsonParse

/-- the query `a:(b AND c)` (outside `confinedFilter`: `SqlQuery.grouped_value_outside`) is covered: PostgreSQL reads
    `"a" = ('b' AND 'c')` as the comparison of the column with the expression -/
theorem grouped_value_covered :
    confinedX eGrp = true ∧ textX eGrp = true ∧ depthOKX eGrp = true ∧
    (toAstX eGrp == some (.cmp .eq (.col (b "a")) (.and (.str (b "b")) (.str (b "c"))))) = true := by
  decide +kernel

example : Sql.parseSql (b "\"a\" = ('b' AND 'c')") = toAstX eGrp :=
  (query_confined_full asciiEnv (b "a:(b AND c)") [] eGrp _ parse_grp grouped_value_outside.2.1
    grouped_value_covered.2.2.1).1

/-- hand-built trees of the parser's shape with deeper nesting: `a:(b:(c AND NOT d) OR e:>(f))`-like -/
def exNested : Expr :=
  .mk (exField [97]) .equals
    (.expr (.mk
      (.expr (.mk (exField [98]) .equals
        (.expr (.mk (exLit (.str [99])) .and (.expr (.mk (exLit (.str [100])) .not .nil F64.one 1)) F64.one 1))
        F64.one 1))
      .or
      (.expr (.mk (exField [101]) .greater (.expr (.mk (exLit (.int 5)) .must .nil F64.one 1)) F64.one 1))
      F64.one 1))
    F64.one 1

example : semShapeT exNested = true ∧ validateExpr exNested = true ∧ confinedX exNested = true ∧
    textX exNested = true ∧ depthOKX exNested = true ∧ confinedFilter exNested = false ∧
    render pgFns exNested = .ok (b "\"a\" = ((\"b\" = ('c' AND (NOT('d')))) OR (\"e\" > (5)))") ∧
    (match render pgFns exNested with | .ok t => Sql.parseSql t == toAstX exNested | _ => false) = true := by
  decide +kernel

end Examples

/-! ## 8. the depth measure must count sub-queries in value position -/

/-- `a:(a:(… a:b …))`, `n` levels -/
def deepVal : Nat → Expr
  | 0 => .mk (exField [97]) .equals (exLit (.str [98])) F64.one 1
  | n + 1 => .mk (exField [97]) .equals (.expr (deepVal n)) F64.one 1

theorem deepVal_shape : ∀ n, semShapeT (deepVal n) = true ∧ validateExpr (deepVal n) = true ∧
    confinedX (deepVal n) = true ∧ textX (deepVal n) = true ∧ SqlText.depthOK (deepVal n) = true ∧
    isSimple (.expr (deepVal n)) = false ∧ opdPrim (.expr (deepVal n)) = none
  | 0 => by decide +kernel
  | n + 1 => by
    obtain ⟨h1, h2, h3, h4, _, h6, h7⟩ := deepVal_shape n
    have f1 : semNodeT (exField [97]) = false := by decide
    have f2 : isColField (exField [97]) = true := by decide
    have f3 : isLiteralExpr (exField [97]) = true := by decide
    have f4 : validateNode (exField [97]) = true := by decide
    have f5 : opdOK (exField [97]) = true := by decide +kernel
    have f6 : opdTextW (exField [97]) = true := by decide +kernel
    refine ⟨?_, ?_, ?_, ?_, by rfl, by rfl, by rfl⟩
    · simp only [deepVal, semShapeT, semNodeT, f1, f2, h1, Bool.or_true, Bool.and_self]
    · simp only [deepVal, validateExpr, validateOp, Expr.op, Expr.left, f3, f4, validateNode, h2, Bool.and_self]
    · simp only [deepVal, confinedX, h7, Option.isSome_none, Bool.false_eq_true, ↓reduceIte, f5, h6, confinedXNode, h3,
        Bool.not_false, Bool.and_self]
    · simp only [deepVal, textX, h7, Option.isSome_none, Bool.false_eq_true, ↓reduceIte, f6, textXNode, h4,
        Bool.and_self]

theorem deepVal_peak : ∀ n, ∃ c, toCstX (deepVal n) = some c ∧ ∀ d, d + 3 * n ≤ c.peak d
  | 0 => ⟨.cmp .eq (.col [97]) (.str [98]), by rfl, fun d => by simp only [Cst.peak]; omega⟩
  | n + 1 => by
    obtain ⟨c, hc, hp⟩ := deepVal_peak n
    have h7 := (deepVal_shape n).2.2.2.2.2.2
    have f : opdAst (exField [97]) = some (.col [97]) := by rfl
    refine ⟨.cmp .eq (.col [97]) (.paren c), ?_, fun d => ?_⟩
    · simp only [deepVal, toCstX, h7, Option.isSome_none, Bool.false_eq_true, ↓reduceIte, f, toCstXNode, hc, cmpOfOp,
        emb]
    · have := hp (d + 2 + 1)
      simp only [Cst.peak]; omega

/-- NECESSITY of counting value nesting: a tree of the parser's shape (3000 nested `a:( … )`) that passes Validate,
    has `SqlText.nest = 0` (so `SqlText.depthOK` holds), renders — and whose text PostgreSQL rejects (parser stack) -/
theorem need_depthX : ∃ e t, semShapeT e = true ∧ validateExpr e = true ∧ SqlText.depthOK e = true ∧
    render pgFns e = .ok t ∧ Sql.parseSql t = none ∧ (toAstX e).isSome = true := by
  obtain ⟨h1, h2, h3, h4, h5, _, _⟩ := deepVal_shape 3000
  obtain ⟨c, hcst, hrx, hren, _⟩ := good_expr_X _ h3 h4
  obtain ⟨c', hcst', hp⟩ := deepVal_peak 3000
  rw [hcst] at hcst'
  cases hcst'
  refine ⟨_, _, h1, h2, h5, hren, ?_, by simp [toAstX, hcst]⟩
  rw [parseSql_RX_plain hrx]
  have := hp frameDepth
  have e1 : maxStack = 9000 := rfl
  have e2 : frameDepth = 8 := rfl
  rw [if_neg (by rw [e1]; rw [e2] at this ⊢; omega)]

/-! ## 9. the parameterized text with sub-queries in value position -/

mutual
def toCstPXNode : Node → Option (Cst × List Prim)
  | .expr e => toCstPX e
  | .prim q => if pShape q then some (atomCstP q, atomPs q) else none
  | _ => none
/-- the concrete syntax tree of the parameterized text and the parameters: as `SqlWide.toCstP`, and
    `column op ( sub-query )` when the value of a comparison is not a term -/
def toCstPX : Expr → Option (Cst × List Prim)
  | .mk l o r p d =>
    match o with
    | .and =>
      (match toCstPXNode l, toCstPXNode r with
       | some (a, pa), some (c, pc) => some (.and (wrapOpd l a) (wrapOpd r c), pa ++ pc)
       | _, _ => none)
    | .or =>
      (match toCstPXNode l, toCstPXNode r with
       | some (a, pa), some (c, pc) => some (.or (wrapOpd l a) (wrapOpd r c), pa ++ pc)
       | _, _ => none)
    | .not | .mustNot =>
      (match toCstPXNode l with
       | some (x, ps) => some (.not (.paren x), ps)
       | none => none)
    | .must => toCstPXNode l
    | .equals | .greater | .less | .greaterEq | .lessEq =>
      if (opdPrim r).isSome then toCstP (.mk l o r p d)
      else
        (match fldColOf l, toCstPXNode r with
         | some f, some (c, ps) => some (.cmp (cmpOfOp o) (.col f) (.paren c), ps)
         | _, _ => none)
    | .literal | .wild | .regexp | .like | .in_ | .range => toCstP (.mk l o r p d)
    | _ => none
end

def toAstPX (e : Expr) : Option Ast := (toCstPX e).map (fun cp => (renum 1 cp.1).toAst)
def paramsPX (e : Expr) : Option (List Prim) := (toCstPX e).map (fun cp => cp.2)

mutual
def confinedPXNode : Node → Bool
  | .expr e => confinedPX e
  | .prim q => pShape q
  | _ => false
def confinedPX : Expr → Bool
  | .mk l o r p d =>
    match o with
    | .and | .or => confinedPXNode l && confinedPXNode r
    | .not | .mustNot | .must => confinedPXNode l && r.isNil
    | .equals | .greater | .less | .greaterEq | .lessEq =>
      if (opdPrim r).isSome then confinedParam (.mk l o r p d)
      else fldOKP l && !isSimple r && confinedPXNode r
    | _ => confinedParam (.mk l o r p d)
end

mutual
def textPXNode : Node → Bool
  | .expr e => textPX e
  | .prim q => pTextOK q
  | _ => true
def textPX : Expr → Bool
  | .mk l o r p d =>
    match o with
    | .and | .or => textPXNode l && textPXNode r
    | .not | .mustNot | .must => textPXNode l
    | .equals | .greater | .less | .greaterEq | .lessEq =>
      if (opdPrim r).isSome then textParam (.mk l o r p d) else opdTextP l && textPXNode r
    | _ => textParam (.mk l o r p d)
end

mutual
def fieldsColsXNode : Node → Bool
  | .expr e => fieldsColsX e
  | _ => true
/-- every field position holds a column, also inside sub-queries in value position -/
def fieldsColsX : Expr → Bool
  | .mk l o r _ _ =>
    match o with
    | .and | .or => fieldsColsXNode l && fieldsColsXNode r
    | .not | .mustNot | .must => fieldsColsXNode l
    | .equals | .greater | .less | .greaterEq | .lessEq => fldOKP l && fieldsColsXNode r
    | .like | .in_ | .range => fldOKP l
    | _ => true
end

theorem rk_pdX {pm k : Bool} {c : Cst} (h : RK pm k c) : pdX c = pd c := by
  induction h with
  | atom k ha => rw [atomP_pdX ha, (atomP_peak ha 0).2]
  | leaf hL => rw [leafP_pdX hL, (leafP_peak hL 0).2]
  | rng hA hC => simp only [pdX, pd, leafP_pdX hA, leafP_pdX hC, (leafP_peak hA 0).2, (leafP_peak hC 0).2]
  | paren _ ih => simp only [pdX, pd, ih]
  | and _ _ ihl ihr => simp only [pdX, pd, ihl, ihr]
  | or _ _ ihl ihr => simp only [pdX, pd, ihl, ihr]
  | not _ ih => simp only [pdX, pd, ih]

def GoodPX (e : Expr) (c : Cst) (ps : List Prim) : Prop :=
  toCstPX e = some (c, ps) ∧ RX true false c ∧ renderParam pgFns e = .ok (qText c, ps) ∧
    (isSimple (.expr e) = true → AtomP true c) ∧ pcount c = ps.length ∧ pdX c ≤ nestX e

theorem GoodPX.ofP {e : Expr} {c : Cst} {ps : List Prim} (h : GoodP e c ps) (he : toCstPX e = toCstP e)
    (hn : nest e ≤ nestX e) : GoodPX e c ps :=
  ⟨by rw [he]; exact h.1, .of h.2.1, h.2.2.1, h.2.2.2.1, h.2.2.2.2.1, by
    rw [rk_pdX h.2.1]; exact Nat.le_trans h.2.2.2.2.2 hn⟩

theorem good_basePX (e : Expr) (hc : confinedParam e = true) (ht : textParam e = true) (he : toCstPX e = toCstP e)
    (hn : nest e ≤ nestX e) : ∃ c ps, GoodPX e c ps := by
  obtain ⟨c, ps, h⟩ := good_expr_param e hc ht
  exact ⟨c, ps, .ofP h he hn⟩

theorem qText_colP (f : Bytes) : qText (.col f) = [34] ++ f ++ [34] := by rw [qText]

/-- a comparison whose value is a sub-query, parameter mode -/
theorem good_cmpPX (l r : Node) (o : Op) (p : F64) (d : Int)
    (ho : o = .equals ∨ o = .greater ∨ o = .less ∨ o = .greaterEq ∨ o = .lessEq)
    (hl : fldOKP l = true) (tl : opdTextP l = true) (hno : (opdPrim r).isSome = false) (hns : isSimple r = false)
    (c : Cst) (ps : List Prim) (hcst : toCstPXNode r = some (c, ps)) (hc : RX true false c)
    (hser : serializeParams pgFns r = .ok (qText c, ps)) (hcnt : pcount c = ps.length)
    (hpd : pdX c ≤ nestXNode r) :
    ∃ c' ps', GoodPX (.mk l o r p d) c' ps' := by
  obtain ⟨f, hf, hAx, hsl, hx⟩ := fldP_good hl tl
  refine ⟨.cmp (cmpOfOp o) (.col f) (.paren c), ps, ?_, RX.cmpx _ hAx hc, ?_, fun h => ?_, ?_, ?_⟩
  · rcases ho with rfl | rfl | rfl | rfl | rfl <;> simp [toCstPX, hno, hf, hcst]
  · rw [qText_cmp, qText_paren]
    rcases ho with rfl | rfl | rfl | rfl | rfl
    · rw [renderParam_of _ _ _ _ _ (by decide) (by decide) _ (rfl : pgFns .equals = some (fnInfix " = ")) _ _ _ _ hx
        hser]
      have hp : parenOps .equals = true := by decide
      simp only [hp, hsl, hns, Bool.not_true, Bool.not_false, Bool.and_false, Bool.and_true, Bool.false_eq_true,
        ↓reduceIte, fnInfix_ok, b_eq', cmpOfOp, parenB_eq, List.nil_append]
    · rw [renderParam_of _ _ _ _ _ (by decide) (by decide) _ (rfl : pgFns .greater = some (fnInfix " > ")) _ _ _ _ hx
        hser]
      have hp : parenOps .greater = true := by decide
      simp only [hp, hsl, hns, Bool.not_true, Bool.not_false, Bool.and_false, Bool.and_true, Bool.false_eq_true,
        ↓reduceIte, fnInfix_ok, b_gt, cmpOfOp, parenB_eq, List.nil_append]
    · rw [renderParam_of _ _ _ _ _ (by decide) (by decide) _ (rfl : pgFns .less = some (fnInfix " < ")) _ _ _ _ hx
        hser]
      have hp : parenOps .less = true := by decide
      simp only [hp, hsl, hns, Bool.not_true, Bool.not_false, Bool.and_false, Bool.and_true, Bool.false_eq_true,
        ↓reduceIte, fnInfix_ok, b_lt, cmpOfOp, parenB_eq, List.nil_append]
    · rw [renderParam_of _ _ _ _ _ (by decide) (by decide) _ (rfl : pgFns .greaterEq = some (fnInfix " >= ")) _ _ _ _
        hx hser]
      have hp : parenOps .greaterEq = true := by decide
      simp only [hp, hsl, hns, Bool.not_true, Bool.not_false, Bool.and_false, Bool.and_true, Bool.false_eq_true,
        ↓reduceIte, fnInfix_ok, b_ge, cmpOfOp, parenB_eq, List.nil_append]
    · rw [renderParam_of _ _ _ _ _ (by decide) (by decide) _ (rfl : pgFns .lessEq = some (fnInfix " <= ")) _ _ _ _ hx
        hser]
      have hp : parenOps .lessEq = true := by decide
      simp only [hp, hsl, hns, Bool.not_true, Bool.not_false, Bool.and_false, Bool.and_true, Bool.false_eq_true,
        ↓reduceIte, fnInfix_ok, b_le, cmpOfOp, parenB_eq, List.nil_append]
  · rw [notSimple _ _ _ _ _ (by rcases ho with rfl | rfl | rfl | rfl | rfl <;> decide)] at h; cases h
  · simp only [pcount, hcnt, Nat.zero_add]
  · have e : nestX (.mk l o r p d) = nestXNode r + 1 := by
      rcases ho with rfl | rfl | rfl | rfl | rfl <;> simp only [nestX, hno, Bool.false_eq_true, ↓reduceIte]
    rw [e]; simp only [pdX]; omega

mutual
theorem good_node_PX : ∀ n : Node, confinedPXNode n = true → textPXNode n = true →
    ∃ c ps, toCstPXNode n = some (c, ps) ∧ RX true false c ∧ serializeParams pgFns n = .ok (qText c, ps) ∧
      (isSimple n = true → AtomP true c) ∧ pcount c = ps.length ∧ pdX c ≤ nestXNode n
  | .expr e, hc, ht => by
    simp only [confinedPXNode] at hc
    simp only [textPXNode] at ht
    rw [sp_expr]
    simp only [toCstPXNode, nestXNode]
    exact good_expr_PX e hc ht
  | .prim q, hc, ht => by
    simp only [confinedPXNode] at hc
    simp only [textPXNode] at ht
    obtain ⟨hA, hser, _, hcnt⟩ := primP_atom q hc ht
    exact ⟨atomCstP q, atomPs q, by simp [toCstPXNode, hc], .atom false hA, hser, fun _ => hA, hcnt,
      by rw [atomP_pdX hA]; exact Nat.zero_le _⟩
  | .nil, hc, _ => by simp [confinedPXNode] at hc
  | .list _, hc, _ => by simp [confinedPXNode] at hc
  | .bound _ _ _, hc, _ => by simp [confinedPXNode] at hc
/-- RENDERER (parameter mode, extended fragment) -/
theorem good_expr_PX : ∀ e : Expr, confinedPX e = true → textPX e = true → ∃ c ps, GoodPX e c ps
  | .mk l o r p d, hc, ht => by
    cases o
    case and =>
      simp only [confinedPX, Bool.and_eq_true] at hc
      simp only [textPX, Bool.and_eq_true] at ht
      obtain ⟨x, px, hx1, hx2, hx, hxs, hxc, hxd⟩ := good_node_PX l hc.1 ht.1
      obtain ⟨y, py, hy1, hy2, hy, hys, hyc, hyd⟩ := good_node_PX r hc.2 ht.2
      have hp : parenOps .and = true := by decide
      refine ⟨.and (wrapOpd l x) (wrapOpd r y), px ++ py, by simp only [toCstPX, hx1, hy1],
        RX.and (wrap_rx hx2 hxs) (wrap_rx hy2 hys), ?_, fun h => ?_, ?_, ?_⟩
      · rw [renderParam_of _ _ _ _ _ (by decide) (by decide) _ (rfl : pgFns .and = some (fnInfix " AND ")) _ _ _ _
          hx hy]
        rw [parenB_wrap _ _ _ hp, parenB_wrap _ _ _ hp, fnInfix_ok, b_and, qText_and]
      · rw [notSimple _ _ _ _ _ (by decide)] at h; cases h
      · simp only [pcount, pcount_wrap, hxc, hyc, List.length_append]
      · have := pdX_wrap l x; have := pdX_wrap r y
        simp only [pdX, nestX]; omega
    case or =>
      simp only [confinedPX, Bool.and_eq_true] at hc
      simp only [textPX, Bool.and_eq_true] at ht
      obtain ⟨x, px, hx1, hx2, hx, hxs, hxc, hxd⟩ := good_node_PX l hc.1 ht.1
      obtain ⟨y, py, hy1, hy2, hy, hys, hyc, hyd⟩ := good_node_PX r hc.2 ht.2
      have hp : parenOps .or = true := by decide
      refine ⟨.or (wrapOpd l x) (wrapOpd r y), px ++ py, by simp only [toCstPX, hx1, hy1],
        RX.or (wrap_rx hx2 hxs) (wrap_rx hy2 hys), ?_, fun h => ?_, ?_, ?_⟩
      · rw [renderParam_of _ _ _ _ _ (by decide) (by decide) _ (rfl : pgFns .or = some (fnInfix " OR ")) _ _ _ _
          hx hy]
        rw [parenB_wrap _ _ _ hp, parenB_wrap _ _ _ hp, fnInfix_ok, b_or, qText_or]
      · rw [notSimple _ _ _ _ _ (by decide)] at h; cases h
      · simp only [pcount, pcount_wrap, hxc, hyc, List.length_append]
      · have := pdX_wrap l x; have := pdX_wrap r y
        simp only [pdX, nestX]; omega
    case not =>
      simp only [confinedPX, Bool.and_eq_true] at hc
      simp only [textPX] at ht
      obtain ⟨x, px, hx1, hx2, hx, _, hxc, hxd⟩ := good_node_PX l hc.1 ht
      cases nil_of_isNil hc.2
      refine ⟨.not (.paren x), px, by simp only [toCstPX, hx1], RX.not hx2, ?_, fun h => ?_, ?_, ?_⟩
      · rw [renderParam_of _ _ _ _ _ (by decide) (by decide) _ (rfl : pgFns .not = some fnWrapNot) _ _ _ _ hx
          (sp_nil _)]
        have hp : parenOps .not = false := by decide
        simp only [hp, Bool.false_and, Bool.false_eq_true, ↓reduceIte, fnWrapNot, b_notp, b_rp, qText_not,
          qText_paren, List.append_nil]
        simp
      · rw [notSimple _ _ _ _ _ (by decide)] at h; cases h
      · simp only [pcount, hxc]
      · simp only [pdX, nestX]; omega
    case mustNot =>
      simp only [confinedPX, Bool.and_eq_true] at hc
      simp only [textPX] at ht
      obtain ⟨x, px, hx1, hx2, hx, _, hxc, hxd⟩ := good_node_PX l hc.1 ht
      cases nil_of_isNil hc.2
      refine ⟨.not (.paren x), px, by simp only [toCstPX, hx1], RX.not hx2, ?_, fun h => ?_, ?_, ?_⟩
      · rw [renderParam_of _ _ _ _ _ (by decide) (by decide) _ (rfl : pgFns .mustNot = some fnWrapNot) _ _ _ _ hx
          (sp_nil _)]
        have hp : parenOps .mustNot = false := by decide
        simp only [hp, Bool.false_and, Bool.false_eq_true, ↓reduceIte, fnWrapNot, b_notp, b_rp, qText_not,
          qText_paren, List.append_nil]
        simp
      · rw [notSimple _ _ _ _ _ (by decide)] at h; cases h
      · simp only [pcount, hxc]
      · simp only [pdX, nestX]; omega
    case must =>
      simp only [confinedPX, Bool.and_eq_true] at hc
      simp only [textPX] at ht
      obtain ⟨x, px, hx1, hx2, hx, _, hxc, hxd⟩ := good_node_PX l hc.1 ht
      cases nil_of_isNil hc.2
      refine ⟨x, px, by simp only [toCstPX, hx1], hx2, ?_, fun h => ?_, hxc, ?_⟩
      · rw [renderParam_of _ _ _ _ _ (by decide) (by decide) _ (rfl : pgFns .must = some fnNoop) _ _ _ _ hx
          (sp_nil _)]
        have hp : parenOps .must = false := by decide
        simp only [hp, Bool.false_and, Bool.false_eq_true, ↓reduceIte, fnNoop, List.append_nil]
      · rw [notSimple _ _ _ _ _ (by decide)] at h; cases h
      · simp only [nestX]; omega
    case equals =>
      cases hv : (opdPrim r).isSome with
      | true =>
        simp only [confinedPX, hv, ↓reduceIte] at hc
        simp only [textPX, hv, ↓reduceIte] at ht
        exact good_basePX _ hc ht (by simp only [toCstPX, hv, ↓reduceIte]) (by simp only [nest]; exact Nat.zero_le _)
      | false =>
        simp only [confinedPX, hv, Bool.false_eq_true, ↓reduceIte, Bool.and_eq_true, Bool.not_eq_true'] at hc
        simp only [textPX, hv, Bool.false_eq_true, ↓reduceIte, Bool.and_eq_true] at ht
        obtain ⟨y, py, hy1, hy2, hy, _, hyc, hyd⟩ := good_node_PX r hc.2 ht.2
        exact good_cmpPX l r _ p d (.inl rfl) hc.1.1 ht.1 hv hc.1.2 y py hy1 hy2 hy hyc hyd
    case greater =>
      cases hv : (opdPrim r).isSome with
      | true =>
        simp only [confinedPX, hv, ↓reduceIte] at hc
        simp only [textPX, hv, ↓reduceIte] at ht
        exact good_basePX _ hc ht (by simp only [toCstPX, hv, ↓reduceIte]) (by simp only [nest]; exact Nat.zero_le _)
      | false =>
        simp only [confinedPX, hv, Bool.false_eq_true, ↓reduceIte, Bool.and_eq_true, Bool.not_eq_true'] at hc
        simp only [textPX, hv, Bool.false_eq_true, ↓reduceIte, Bool.and_eq_true] at ht
        obtain ⟨y, py, hy1, hy2, hy, _, hyc, hyd⟩ := good_node_PX r hc.2 ht.2
        exact good_cmpPX l r _ p d (.inr (.inl rfl)) hc.1.1 ht.1 hv hc.1.2 y py hy1 hy2 hy hyc hyd
    case less =>
      cases hv : (opdPrim r).isSome with
      | true =>
        simp only [confinedPX, hv, ↓reduceIte] at hc
        simp only [textPX, hv, ↓reduceIte] at ht
        exact good_basePX _ hc ht (by simp only [toCstPX, hv, ↓reduceIte]) (by simp only [nest]; exact Nat.zero_le _)
      | false =>
        simp only [confinedPX, hv, Bool.false_eq_true, ↓reduceIte, Bool.and_eq_true, Bool.not_eq_true'] at hc
        simp only [textPX, hv, Bool.false_eq_true, ↓reduceIte, Bool.and_eq_true] at ht
        obtain ⟨y, py, hy1, hy2, hy, _, hyc, hyd⟩ := good_node_PX r hc.2 ht.2
        exact good_cmpPX l r _ p d (.inr (.inr (.inl rfl))) hc.1.1 ht.1 hv hc.1.2 y py hy1 hy2 hy hyc hyd
    case greaterEq =>
      cases hv : (opdPrim r).isSome with
      | true =>
        simp only [confinedPX, hv, ↓reduceIte] at hc
        simp only [textPX, hv, ↓reduceIte] at ht
        exact good_basePX _ hc ht (by simp only [toCstPX, hv, ↓reduceIte]) (by simp only [nest]; exact Nat.zero_le _)
      | false =>
        simp only [confinedPX, hv, Bool.false_eq_true, ↓reduceIte, Bool.and_eq_true, Bool.not_eq_true'] at hc
        simp only [textPX, hv, Bool.false_eq_true, ↓reduceIte, Bool.and_eq_true] at ht
        obtain ⟨y, py, hy1, hy2, hy, _, hyc, hyd⟩ := good_node_PX r hc.2 ht.2
        exact good_cmpPX l r _ p d (.inr (.inr (.inr (.inl rfl)))) hc.1.1 ht.1 hv hc.1.2 y py hy1 hy2 hy hyc hyd
    case lessEq =>
      cases hv : (opdPrim r).isSome with
      | true =>
        simp only [confinedPX, hv, ↓reduceIte] at hc
        simp only [textPX, hv, ↓reduceIte] at ht
        exact good_basePX _ hc ht (by simp only [toCstPX, hv, ↓reduceIte]) (by simp only [nest]; exact Nat.zero_le _)
      | false =>
        simp only [confinedPX, hv, Bool.false_eq_true, ↓reduceIte, Bool.and_eq_true, Bool.not_eq_true'] at hc
        simp only [textPX, hv, Bool.false_eq_true, ↓reduceIte, Bool.and_eq_true] at ht
        obtain ⟨y, py, hy1, hy2, hy, _, hyc, hyd⟩ := good_node_PX r hc.2 ht.2
        exact good_cmpPX l r _ p d (.inr (.inr (.inr (.inr rfl)))) hc.1.1 ht.1 hv hc.1.2 y py hy1 hy2 hy hyc hyd
    case literal =>
      simp only [confinedPX] at hc; simp only [textPX] at ht
      exact good_basePX _ hc ht (by simp only [toCstPX]) (by simp only [nest]; exact Nat.zero_le _)
    case wild =>
      simp only [confinedPX] at hc; simp only [textPX] at ht
      exact good_basePX _ hc ht (by simp only [toCstPX]) (by simp only [nest]; exact Nat.zero_le _)
    case regexp =>
      simp only [confinedPX] at hc; simp only [textPX] at ht
      exact good_basePX _ hc ht (by simp only [toCstPX]) (by simp only [nest]; exact Nat.zero_le _)
    case like =>
      simp only [confinedPX] at hc; simp only [textPX] at ht
      exact good_basePX _ hc ht (by simp only [toCstPX]) (by simp only [nest]; exact Nat.zero_le _)
    case in_ =>
      simp only [confinedPX] at hc; simp only [textPX] at ht
      exact good_basePX _ hc ht (by simp only [toCstPX]) (by simp only [nest]; exact Nat.zero_le _)
    case range =>
      simp only [confinedPX] at hc; simp only [textPX] at ht
      exact good_basePX _ hc ht (by simp only [toCstPX]) (by simp only [nest]; exact Nat.zero_le _)
    all_goals (simp only [confinedPX] at hc; simp [confinedParam] at hc)
end

/-- exact form (parameter mode, extended fragment) -/
theorem render_parses_PX_iff (e : Expr) (sqlP : Bytes) (ps : List Prim) (hc : confinedPX e = true)
    (ht : textPX e = true) (hr : renderParam pgFns e = .ok (sqlP, ps)) :
    ∃ c, toCstPX e = some (c, ps) ∧ RX true false c ∧ pcount c = ps.length ∧ pdX c ≤ nestX e ∧
      parseSql sqlP = if (renum 1 c).peak frameDepth < maxStack then some (renum 1 c).toAst else none := by
  obtain ⟨c, ps', hcst, hrx, hren, _, hcnt, hpd⟩ := good_expr_PX e hc ht
  rw [hren] at hr
  cases hr
  exact ⟨c, hcst, hrx, hcnt, hpd, parseSql_RX hrx⟩

/-- THEOREM (parameter mode, extended fragment): PostgreSQL reads the text as `toAstPX e`, the parameters are
    `paramsPX e` -/
theorem render_parses_PX (e : Expr) (sqlP : Bytes) (ps : List Prim) (hc : confinedPX e = true)
    (ht : textPX e = true) (hd : depthOKX e = true) (hr : renderParam pgFns e = .ok (sqlP, ps)) :
    parseSql sqlP = toAstPX e ∧ paramsPX e = some ps := by
  obtain ⟨c, hcst, hrx, _, hpd, hp⟩ := render_parses_PX_iff e sqlP ps hc ht hr
  have h3 : nestX e ≤ 2990 := by simpa [depthOKX] using hd
  have hst := rx_stack hrx (by omega)
  rw [hp, if_pos hst]
  simp [toAstPX, paramsPX, hcst]

theorem param_numbers_PX (e : Expr) (sqlP : Bytes) (ps : List Prim) (a : Ast) (hc : confinedPX e = true)
    (ht : textPX e = true) (hr : renderParam pgFns e = .ok (sqlP, ps)) (hp : parseSql sqlP = some a) :
    pnums a = List.range' 1 ps.length := by
  obtain ⟨c, _, _, hcnt, _, hparse⟩ := render_parses_PX_iff e sqlP ps hc ht hr
  rw [hparse] at hp
  split at hp
  · cases hp; rw [pnums_renum, hcnt]
  · cases hp

mutual
theorem provPX_node : ∀ (n : Node) (c : Cst) (ps : List Prim), toCstPXNode n = some (c, ps) →
    ∀ k, ProvA (renum k c).toAst ps (leavesNode n)
  | .expr e, c, ps, h => by
    simp only [toCstPXNode] at h; simp only [leavesNode]; exact provPX_expr e c ps h
  | .prim q, c, ps, h => by
    simp only [toCstPXNode] at h
    split at h
    · cases h
      intro k
      exact (atom_prov q k).mono (fun q' hq' => by simpa [leavesNode] using hq')
    · cases h
  | .nil, _, _, h => by simp [toCstPXNode] at h
  | .list _, _, _, h => by simp [toCstPXNode] at h
  | .bound _ _ _, _, _, h => by simp [toCstPXNode] at h
/-- columns, constants, positions and parameters of the parameterized predicate (extended fragment) -/
theorem provPX_expr : ∀ (e : Expr) (c : Cst) (ps : List Prim), toCstPX e = some (c, ps) →
    ∀ k, ProvA (renum k c).toAst ps (leaves e)
  | .mk l o r p d, c, ps, h => by
    have hL : ∀ q ∈ leavesNode l, q ∈ leaves (.mk l o r p d) := fun q hq => by simp [leaves, hq]
    have hR : ∀ q ∈ leavesNode r, q ∈ leaves (.mk l o r p d) := fun q hq => by simp [leaves, hq]
    have cmpc : (o = .equals ∨ o = .greater ∨ o = .less ∨ o = .greaterEq ∨ o = .lessEq) →
        ∀ k, ProvA (renum k c).toAst ps (leaves (.mk l o r p d)) := by
      intro ho
      cases hv : (opdPrim r).isSome with
      | true =>
        exact provP_expr _ c ps (by
          rcases ho with rfl | rfl | rfl | rfl | rfl <;> simpa only [toCstPX, hv, ↓reduceIte] using h)
      | false =>
        have h' : (match fldColOf l, toCstPXNode r with
            | some f, some (c, ps) => some (Cst.cmp (cmpOfOp o) (.col f) (.paren c), ps)
            | _, _ => none) = some (c, ps) := by
          rcases ho with rfl | rfl | rfl | rfl | rfl <;>
            simpa only [toCstPX, hv, Bool.false_eq_true, ↓reduceIte] using h
        split at h'
        · rename_i f y py hf hy
          simp only [Option.some.injEq, Prod.mk.injEq] at h'
          obtain ⟨rfl, rfl⟩ := h'
          intro k
          have hfl := hL _ (fldColOf_mem hf)
          have h2 := (provPX_node r y _ hy (k + pcount (.col f))).mono hR
          simp only [renum, Cst.toAst]
          refine ⟨fun g hg => ?_, fun c hc => ?_, rfl, h2.2.2.2⟩
          · simp only [cols, List.singleton_append, List.mem_cons] at hg
            rcases hg with rfl | hg
            · exact hfl
            · exact h2.1 g hg
          · simp only [consts, List.nil_append] at hc
            exact h2.2.1 c hc
        · cases h'
    cases o
    case and =>
      simp only [toCstPX] at h
      split at h
      · rename_i x px y py hx hy
        simp only [Option.some.injEq, Prod.mk.injEq] at h
        obtain ⟨rfl, rfl⟩ := h
        intro k
        have h1 := (provPX_node l x _ hx k).mono hL
        have h2 := (provPX_node r y py hy (k + pcount (wrapOpd l x))).mono hR
        simp only [renum, Cst.toAst, renum_wrap]
        exact h1.bin h2 (by simp only [cols]) (by simp only [consts]) (by simp only [fieldsAreCols])
      · cases h
    case or =>
      simp only [toCstPX] at h
      split at h
      · rename_i x px y py hx hy
        simp only [Option.some.injEq, Prod.mk.injEq] at h
        obtain ⟨rfl, rfl⟩ := h
        intro k
        have h1 := (provPX_node l x _ hx k).mono hL
        have h2 := (provPX_node r y py hy (k + pcount (wrapOpd l x))).mono hR
        simp only [renum, Cst.toAst, renum_wrap]
        exact h1.bin h2 (by simp only [cols]) (by simp only [consts]) (by simp only [fieldsAreCols])
      · cases h
    case not =>
      simp only [toCstPX] at h
      split at h
      · rename_i x px hx
        cases h
        intro k
        have h1 := (provPX_node l x _ hx k).mono hL
        simp only [renum, Cst.toAst]
        exact ⟨fun f hf => h1.1 f (by simpa [cols] using hf), fun c hc => h1.2.1 c (by simpa [consts] using hc),
          by simpa [fieldsAreCols] using h1.2.2.1, h1.2.2.2⟩
      · cases h
    case mustNot =>
      simp only [toCstPX] at h
      split at h
      · rename_i x px hx
        cases h
        intro k
        have h1 := (provPX_node l x _ hx k).mono hL
        simp only [renum, Cst.toAst]
        exact ⟨fun f hf => h1.1 f (by simpa [cols] using hf), fun c hc => h1.2.1 c (by simpa [consts] using hc),
          by simpa [fieldsAreCols] using h1.2.2.1, h1.2.2.2⟩
      · cases h
    case must =>
      simp only [toCstPX] at h
      intro k
      exact (provPX_node l c ps h k).mono hL
    case equals => exact cmpc (.inl rfl)
    case greater => exact cmpc (.inr (.inl rfl))
    case less => exact cmpc (.inr (.inr (.inl rfl)))
    case greaterEq => exact cmpc (.inr (.inr (.inr (.inl rfl))))
    case lessEq => exact cmpc (.inr (.inr (.inr (.inr rfl))))
    all_goals first
      | (simp only [toCstPX] at h; exact provP_expr _ c ps h)
      | (simp [toCstPX] at h)
end

theorem paramX_cols_consts (e : Expr) (sqlP : Bytes) (ps : List Prim) (a : Ast) (hc : confinedPX e = true)
    (ht : textPX e = true) (hr : renderParam pgFns e = .ok (sqlP, ps)) (hp : parseSql sqlP = some a) :
    (∀ f ∈ cols a, Prim.col f ∈ leaves e) ∧ (∀ k ∈ consts a, fixedConst k) ∧ fieldsAreCols a = true ∧
      ∀ q ∈ ps, paramFrom q (leaves e) := by
  obtain ⟨c, hcst, _, _, _, hparse⟩ := render_parses_PX_iff e sqlP ps hc ht hr
  rw [hparse] at hp
  split at hp
  · cases hp; exact provPX_expr e c ps hcst 1
  · cases hp

/-! ### every tree of the parser's shape whose fields are columns and that `RenderParam` renders is in the fragment -/

mutual
theorem confPX_node : ∀ (n : Node) (x : Bytes × List Prim), semNodeT n = true → validateNode n = true →
    fieldsColsXNode n = true → serializeParams pgFns n = .ok x →
    confinedPXNode n = true ∧ textPXNode n = true
  | .expr e, x, hs, hv, hf, hr => by
    simp only [semNodeT] at hs
    simp only [validateNode] at hv
    simp only [fieldsColsXNode] at hf
    rw [sp_expr] at hr
    simp only [confinedPXNode, textPXNode]
    exact confPX_expr e x hs hv hf hr
  | .nil, _, hs, _, _, _ => by simp [semNodeT] at hs
  | .prim _, _, hs, _, _, _ => by simp [semNodeT] at hs
  | .list _, _, hs, _, _, _ => by simp [semNodeT] at hs
  | .bound _ _ _, _, hs, _, _, _ => by simp [semNodeT] at hs
theorem confPX_expr : ∀ (e : Expr) (x : Bytes × List Prim), semShapeT e = true → validateExpr e = true →
    fieldsColsX e = true → renderParam pgFns e = .ok x → confinedPX e = true ∧ textPX e = true
  | .mk l o r p d, x, hs, hv, hf, hr => by
    obtain ⟨hop, hvl, hvr⟩ := validate_top l o r p d hv
    obtain ⟨sl, pl, sr, pr, hl, hrr⟩ := renderParam_inv hr
    have cmpc : (o = .equals ∨ o = .greater ∨ o = .less ∨ o = .greaterEq ∨ o = .lessEq) →
        confinedPX (.mk l o r p d) = true ∧ textPX (.mk l o r p d) = true := by
      intro ho
      have hf' : fldOKP l = true ∧ fieldsColsXNode r = true := by
        rcases ho with rfl | rfl | rfl | rfl | rfl <;> simpa only [fieldsColsX, Bool.and_eq_true] using hf
      cases hvv : (opdPrim r).isSome with
      | true =>
        have hx : valsAtomic (.mk l o r p d) = true := by
          rcases ho with rfl | rfl | rfl | rfl | rfl <;> simp only [valsAtomic, hvv]
        have hfc : fieldsCols (.mk l o r p d) = true := by
          rcases ho with rfl | rfl | rfl | rfl | rfl <;> simp only [fieldsCols, hf'.1]
        have := confP_expr _ x hs hv hx hfc hr
        rcases ho with rfl | rfl | rfl | rfl | rfl <;> simpa only [confinedPX, textPX, hvv, ↓reduceIte] using this
      | false =>
        have hs' : (semNodeT l || isColField l) = true ∧ semNodeT r = true := by
          rcases ho with rfl | rfl | rfl | rfl | rfl <;> simpa only [semShapeT, Bool.and_eq_true] using hs
        have hop' : isLiteralExpr l = true := by
          rcases ho with rfl | rfl | rfl | rfl | rfl <;>
            simpa only [validateOp, Expr.op, Expr.left, Option.some.injEq] using hop
        have t1 := fieldP_inv hs'.1 hop' hf'.1 hl
        have hr' := confPX_node r _ hs'.2 hvr hf'.2 hrr
        have hns := notSimple_of_shape hs'.2 hvv
        rcases ho with rfl | rfl | rfl | rfl | rfl <;>
          simp only [confinedPX, textPX, hvv, Bool.false_eq_true, ↓reduceIte, hf'.1, t1, hns, hr'.1, hr'.2,
            Bool.not_false, Bool.and_self, and_self]
    have basec : valsAtomic (.mk l o r p d) = true → fieldsCols (.mk l o r p d) = true →
        confinedParam (.mk l o r p d) = true ∧ textParam (.mk l o r p d) = true :=
      fun hx hfc => confP_expr _ x hs hv hx hfc hr
    cases o with
    | and =>
      simp only [semShapeT, Bool.and_eq_true] at hs
      simp only [fieldsColsX, Bool.and_eq_true] at hf
      have h1 := confPX_node l _ hs.1 hvl hf.1 hl
      have h2 := confPX_node r _ hs.2 hvr hf.2 hrr
      simp only [confinedPX, textPX, h1.1, h1.2, h2.1, h2.2, Bool.and_self, and_self]
    | or =>
      simp only [semShapeT, Bool.and_eq_true] at hs
      simp only [fieldsColsX, Bool.and_eq_true] at hf
      have h1 := confPX_node l _ hs.1 hvl hf.1 hl
      have h2 := confPX_node r _ hs.2 hvr hf.2 hrr
      simp only [confinedPX, textPX, h1.1, h1.2, h2.1, h2.2, Bool.and_self, and_self]
    | not =>
      simp only [semShapeT, Bool.and_eq_true] at hs
      simp only [fieldsColsX] at hf
      have h1 := confPX_node l _ hs.1 hvl hf hl
      simp only [confinedPX, textPX, h1.1, h1.2, hs.2, Bool.and_self, and_self]
    | must =>
      simp only [semShapeT, Bool.and_eq_true] at hs
      simp only [fieldsColsX] at hf
      have h1 := confPX_node l _ hs.1 hvl hf hl
      simp only [confinedPX, textPX, h1.1, h1.2, hs.2, Bool.and_self, and_self]
    | mustNot =>
      simp only [semShapeT, Bool.and_eq_true] at hs
      simp only [fieldsColsX] at hf
      have h1 := confPX_node l _ hs.1 hvl hf hl
      simp only [confinedPX, textPX, h1.1, h1.2, hs.2, Bool.and_self, and_self]
    | equals => exact cmpc (.inl rfl)
    | greater => exact cmpc (.inr (.inl rfl))
    | less => exact cmpc (.inr (.inr (.inl rfl)))
    | greaterEq => exact cmpc (.inr (.inr (.inr (.inl rfl))))
    | lessEq => exact cmpc (.inr (.inr (.inr (.inr rfl))))
    | literal => simpa only [confinedPX, textPX] using basec (by simp only [valsAtomic]) (by simp only [fieldsCols])
    | wild => simpa only [confinedPX, textPX] using basec (by simp only [valsAtomic]) (by simp only [fieldsCols])
    | regexp => simpa only [confinedPX, textPX] using basec (by simp only [valsAtomic]) (by simp only [fieldsCols])
    | like =>
      simp only [fieldsColsX] at hf
      simpa only [confinedPX, textPX] using basec (by simp only [valsAtomic]) (by simp only [fieldsCols, hf])
    | in_ =>
      simp only [fieldsColsX] at hf
      simpa only [confinedPX, textPX] using basec (by simp only [valsAtomic]) (by simp only [fieldsCols, hf])
    | range =>
      simp only [fieldsColsX] at hf
      simpa only [confinedPX, textPX] using basec (by simp only [valsAtomic]) (by simp only [fieldsCols, hf])
    | fuzzy => simpa only [confinedPX, textPX] using basec (by simp only [valsAtomic]) (by simp only [fieldsCols])
    | boost => simpa only [confinedPX, textPX] using basec (by simp only [valsAtomic]) (by simp only [fieldsCols])
    | undefined => simpa only [confinedPX, textPX] using basec (by simp only [valsAtomic]) (by simp only [fieldsCols])
    | list => simpa only [confinedPX, textPX] using basec (by simp only [valsAtomic]) (by simp only [fieldsCols])
end

section QueryP
variable (env : Env) (s df : Bytes) (e : Expr)

theorem query_in_param_fragmentX (sqlP : Bytes) (ps : List Prim) (h : parseQuery env s df = .ok e)
    (hf : fieldsColsX e = true) (hr : renderParam pgFns e = .ok (sqlP, ps)) :
    confinedPX e = true ∧ textPX e = true := by
  obtain ⟨hs, hv⟩ := JsonParse.parse_shape env s df e h
  exact confPX_expr e _ hs hv hf hr

/-- **C02 over queries (parameterized text), only the exclusion `fieldsColsX`** (every field position holds a column:
    the recorded finding K-numfield-range shows it is needed).  PostgreSQL reads the text as ONE predicate `toAstPX e`;
    the parameter list is `paramsPX e`; the placeholders are `$1 … $n`, `n` the number of parameters, from left to
    right; columns are fields of the query; the only constants are placeholders and the fixed `'*'` / `0`; every
    parameter is a value of the query or the LIKE translation of one. -/
theorem query_confined_param_full (sqlP : Bytes) (ps : List Prim) (h : parseQuery env s df = .ok e)
    (hf : fieldsColsX e = true) (hr : renderParam pgFns e = .ok (sqlP, ps)) (hd : depthOKX e = true) :
    Sql.parseSql sqlP = toAstPX e ∧ paramsPX e = some ps ∧ (∃ a, Sql.parseSql sqlP = some a) ∧
    ∀ a, Sql.parseSql sqlP = some a →
      pnums a = List.range' 1 ps.length ∧
      (∀ f ∈ cols a, Prim.col f ∈ leaves e) ∧ (∀ k ∈ consts a, fixedConst k) ∧ fieldsAreCols a = true ∧
      ∀ q ∈ ps, paramFrom q (leaves e) := by
  obtain ⟨hc, ht⟩ := query_in_param_fragmentX env s df e sqlP ps h hf hr
  obtain ⟨h1, h2⟩ := render_parses_PX e sqlP ps hc ht hd hr
  obtain ⟨c, hcst, _, _, _, _⟩ := render_parses_PX_iff e sqlP ps hc ht hr
  exact ⟨h1, h2, ⟨(renum 1 c).toAst, by rw [h1]; simp [toAstPX, hcst]⟩,
    fun a ha => ⟨param_numbers_PX e sqlP ps a hc ht hr ha, paramX_cols_consts e sqlP ps a hc ht hr ha⟩⟩

end QueryP

section ExamplesP
open JsonParse

/-- `a:(b AND c)` in parameter mode: `"a" = (? AND ?)` with the parameters `b`, `c` -/
example : renderParam pgFns eGrp = .ok (b "\"a\" = (? AND ?)", [.str (b "b"), .str (b "c")]) ∧
    fieldsColsX eGrp = true ∧ confinedPX eGrp = true ∧ textPX eGrp = true ∧
    (toAstPX eGrp == some (.cmp .eq (.col (b "a")) (.and (.param 1) (.param 2)))) = true := by decide +kernel

example : Sql.parseSql (b "\"a\" = (? AND ?)") = toAstPX eGrp ∧ paramsPX eGrp = some [.str (b "b"), .str (b "c")] :=
  let h := query_confined_param_full asciiEnv (b "a:(b AND c)") [] eGrp _ _ parse_grp (by decide +kernel)
    (by decide +kernel : renderParam pgFns eGrp = .ok (b "\"a\" = (? AND ?)", [.str (b "b"), .str (b "c")]))
    (by decide +kernel)
  ⟨h.1, h.2.1⟩

example : fieldsColsX exNested = true ∧ confinedPX exNested = true ∧ textPX exNested = true ∧
    (match renderParam pgFns exNested with
     | .ok (t, ps) => Sql.parseSql t == toAstPX exNested && ps.length == 3
     | _ => false) = true := by decide +kernel

end ExamplesP

/-! ## 10. agreement with `SqlWide` / `SqlQuery` in parameter mode; necessity of `fieldsColsX` -/

mutual
theorem toCstPXNode_eq : ∀ n : Node, valsAtomicNode n = true →
    toCstPXNode n = toCstPNode n ∧ fieldsColsXNode n = fieldsColsNode n
  | .expr e, h => by
    simp only [valsAtomicNode] at h
    simp only [toCstPXNode, toCstPNode, fieldsColsXNode, fieldsColsNode]
    exact toCstPX_eq e h
  | .nil, _ => ⟨rfl, rfl⟩
  | .prim _, _ => ⟨rfl, rfl⟩
  | .list _, _ => ⟨rfl, rfl⟩
  | .bound _ _ _, _ => ⟨rfl, rfl⟩
theorem toCstPX_eq : ∀ e : Expr, valsAtomic e = true → toCstPX e = toCstP e ∧ fieldsColsX e = fieldsCols e
  | .mk l o r p d, h => by
    have fr : (opdPrim r).isSome = true → fieldsColsXNode r = true := by
      intro hv
      obtain ⟨q, hq⟩ := Option.isSome_iff_exists.mp hv
      rcases opdPrim_inv hq with ⟨o', p', d', rfl, ho'⟩ | rfl
      · rcases leafOp_cases ho' with rfl | rfl | rfl <;> simp only [fieldsColsXNode, fieldsColsX]
      · simp only [fieldsColsXNode]
    cases o
    case and =>
      simp only [valsAtomic, Bool.and_eq_true] at h
      have h1 := toCstPXNode_eq l h.1; have h2 := toCstPXNode_eq r h.2
      refine ⟨?_, by simp only [fieldsColsX, fieldsCols, h1.2, h2.2]⟩
      simp only [toCstPX, toCstP, h1.1, h2.1]
      cases toCstPNode l <;> cases toCstPNode r <;> rfl
    case or =>
      simp only [valsAtomic, Bool.and_eq_true] at h
      have h1 := toCstPXNode_eq l h.1; have h2 := toCstPXNode_eq r h.2
      refine ⟨?_, by simp only [fieldsColsX, fieldsCols, h1.2, h2.2]⟩
      simp only [toCstPX, toCstP, h1.1, h2.1]
      cases toCstPNode l <;> cases toCstPNode r <;> rfl
    case not =>
      simp only [valsAtomic] at h
      have h1 := toCstPXNode_eq l h
      refine ⟨?_, by simp only [fieldsColsX, fieldsCols, h1.2]⟩
      simp only [toCstPX, toCstP, h1.1]
      cases toCstPNode l <;> rfl
    case mustNot =>
      simp only [valsAtomic] at h
      have h1 := toCstPXNode_eq l h
      refine ⟨?_, by simp only [fieldsColsX, fieldsCols, h1.2]⟩
      simp only [toCstPX, toCstP, h1.1]
      cases toCstPNode l <;> rfl
    case must =>
      simp only [valsAtomic] at h
      have h1 := toCstPXNode_eq l h
      simp only [toCstPX, toCstP, fieldsColsX, fieldsCols, h1.1, h1.2, and_self]
    case equals =>
      simp only [valsAtomic] at h
      simp only [toCstPX, fieldsColsX, fieldsCols, h, fr h, ↓reduceIte, Bool.and_true, and_self]
    case greater =>
      simp only [valsAtomic] at h
      simp only [toCstPX, fieldsColsX, fieldsCols, h, fr h, ↓reduceIte, Bool.and_true, and_self]
    case less =>
      simp only [valsAtomic] at h
      simp only [toCstPX, fieldsColsX, fieldsCols, h, fr h, ↓reduceIte, Bool.and_true, and_self]
    case greaterEq =>
      simp only [valsAtomic] at h
      simp only [toCstPX, fieldsColsX, fieldsCols, h, fr h, ↓reduceIte, Bool.and_true, and_self]
    case lessEq =>
      simp only [valsAtomic] at h
      simp only [toCstPX, fieldsColsX, fieldsCols, h, fr h, ↓reduceIte, Bool.and_true, and_self]
    all_goals first
      | (simp only [toCstPX, fieldsColsX, fieldsCols, and_self]; done)
      | (refine ⟨?_, by simp only [fieldsColsX, fieldsCols]⟩; simp only [toCstPX, toCstP])
end

/-- where comparison values are terms: `toAstPX` is `SqlWide.toAstP`, `fieldsColsX` is `SqlQuery.fieldsCols` -/
theorem toAstPX_eq (e : Expr) (h : valsAtomic e = true) :
    toAstPX e = toAstP e ∧ paramsPX e = paramsP e ∧ fieldsColsX e = fieldsCols e := by
  have := toCstPX_eq e h
  exact ⟨by rw [toAstPX, toAstP, this.1], by rw [paramsPX, paramsP, this.1], this.2⟩

open JsonParse in
/-- NECESSITY of `fieldsColsX` (finding K-numfield-range through the whole of `lucene.Parse`, stated without any
    reference to the translation): for the query `5:[1 TO 2]` PostgreSQL does read the parameterized text as one
    predicate, but its placeholders are `$1 … $4` while there are three parameters -/
theorem query_param_numbers_false :
    ¬ ∀ (env : Env) (s df : Bytes) (e : Expr) (sqlP : Bytes) (ps : List Prim) (a : Ast),
        parseQuery env s df = .ok e → renderParam pgFns e = .ok (sqlP, ps) → depthOKX e = true →
        Sql.parseSql sqlP = some a → pnums a = List.range' 1 ps.length := by
  intro h
  obtain ⟨a, h1, h2, h3⟩ := numeric_field_placeholders
  have := h _ _ _ _ _ _ a parse_numfield h3 (by decide +kernel) h1
  rw [h2] at this
  exact absurd this (by decide)

end GoLucene.SqlQueryX

section Axioms
open GoLucene.SqlQueryX
#print axioms parseSql_RX
#print axioms rx_stack
#print axioms good_expr_X
#print axioms render_parses_X
#print axioms render_parses_X_iff
#print axioms confinedX_cols_consts
#print axioms confX_expr
#print axioms toAstX_eq
#print axioms query_in_fragmentX
#print axioms query_confined_full
#print axioms query_confined_full_stack
#print axioms grouped_value_covered
#print axioms need_depthX
#print axioms good_expr_PX
#print axioms render_parses_PX
#print axioms param_numbers_PX
#print axioms paramX_cols_consts
#print axioms confPX_expr
#print axioms toAstPX_eq
#print axioms query_in_param_fragmentX
#print axioms query_confined_param_full
#print axioms query_param_numbers_false
end Axioms
