import GoLucene.Proofs.LawsDefs
/-
  Laws, glue: how the facts proved in LawsFloatFmt / LawsFloatParse / LawsJsonScan / LawsJsonStr combine into the
  fields of `NumLaws` / `JsonLaws`.  Every theorem here takes the facts it combines as explicit hypotheses, so this file
  depends on LawsDefs only.
-/
set_option linter.unusedSimpArgs false
set_option linter.unusedVariables false

namespace GoLucene
namespace Laws

open Json Num JsonRoundTrip

/-! ## `parseFloat (fmtJSON f) = f` from the formatting spec and the parsing / rounding facts -/

theorem isZero_mag {f : F64} (h : f.isZero = true) : f.mag = 0 := by
  simpa [F64.isZero] using h

theorem isFinite_mag {f : F64} (h : f.isFinite = true) : f.mag < infBits := by
  simpa [F64.isFinite] using h

theorem parseFloat_fmtJSON_glue
    (shortest_spec : ∀ (f : F64), f.isFinite = true → f.isZero = false →
      ∃ (c : Nat) (k : Int), 0 < c ∧ c % 10 ≠ 0 ∧
        Num.shortestOf f = (natDigits c, ((natDigits c).length : Int) + k) ∧
        decInIvl f.mant f.exp2 c k ∧
        -330 ≤ ((natDigits c).length : Int) + k ∧ ((natDigits c).length : Int) + k ≤ 310)
    (parseFloat_fmtF : ∀ (neg : Bool) (c : Nat) (dp : Int), 0 < c → -330 ≤ dp → dp ≤ 310 →
      parseFloat (Num.signed neg (Num.fmtFShortest (natDigits c) dp)) =
        parsedVal neg c (dp - ((natDigits c).length : Int)))
    (parseFloat_fmtE : ∀ (neg : Bool) (c : Nat) (dp : Int), 0 < c → -330 ≤ dp → dp ≤ 310 →
      parseFloat (Num.signed neg (Num.jsonCleanExp (Num.fmtEShortest (natDigits c) dp))) =
        parsedVal neg c (dp - ((natDigits c).length : Int)))
    (parseFloat_zero : parseFloat [48] = some (F64.ofMag false 0) ∧ parseFloat [45, 48] = some (F64.ofMag true 0))
    (rr_correct : ∀ (f : F64), f.isFinite = true → f.isZero = false → ∀ (c : Nat) (k : Int),
      decInIvl f.mant f.exp2 c k → rr c k = f.mag)
    (ofMag_mag : ∀ f : F64, F64.ofMag f.isNeg f.mag = f)
    (f : F64) (t : Bytes) (h : fmtJSON f = some t) : parseFloat t = some f := by
  unfold fmtJSON at h
  by_cases hfin : f.isFinite = true
  · simp only [hfin, Bool.not_true, Bool.false_eq_true, if_false] at h
    by_cases hz : f.isZero = true
    · -- ±0
      have hs : Num.shortestOf f = ([], 0) := by simp [Num.shortestOf, hz]
      rw [hs] at h
      simp only [hz, Bool.not_true, Bool.false_and, Bool.false_eq_true, if_false, Option.some.injEq] at h
      subst h
      have hm := isZero_mag hz
      have hf := ofMag_mag f
      rw [hm] at hf
      cases hn : f.isNeg with
      | true =>
        rw [hn] at hf
        have : Num.signed true (Num.fmtFShortest [] 0) = [45, 48] := by decide
        rw [this, parseFloat_zero.2, hf]
      | false =>
        rw [hn] at hf
        have : Num.signed false (Num.fmtFShortest [] 0) = [48] := by decide
        rw [this, parseFloat_zero.1, hf]
    · have hz' : f.isZero = false := by simpa using hz
      obtain ⟨c, k, hc, _, hs, hin, h1, h2⟩ := shortest_spec f hfin hz'
      rw [hs] at h
      simp only [Option.some.injEq] at h
      have hr := rr_correct f hfin hz' c k hin
      have hval : parsedVal f.isNeg c k = some f := by
        unfold parsedVal
        rw [hr]
        have := isFinite_mag hfin
        rw [if_neg (by omega), ofMag_mag]
      have hk : ((natDigits c).length : Int) + k - ((natDigits c).length : Int) = k := by omega
      subst h
      split
      · rw [parseFloat_fmtE _ c _ hc h1 h2, hk, hval]
      · rw [parseFloat_fmtF _ c _ hc h1 h2, hk, hval]
  · simp [hfin] at h

/-! ## `parse_str` from the scanner fact and the decoder fact -/

theorem trim_str (s : Bytes) : trim (encodeString s) = encodeString s := by
  obtain ⟨o, _, h⟩ := encodeString_eq s
  rw [h]
  unfold trim
  have h1 : (34 :: (o ++ [34])).dropWhile isJsonWs = 34 :: (o ++ [34]) := by
    rw [List.dropWhile_cons_of_neg (by decide)]
  rw [h1]
  have h2 : (34 :: (o ++ [34])).reverse = 34 :: (o.reverse ++ [34]) := by simp
  rw [h2, List.dropWhile_cons_of_neg (by decide)]
  simp

theorem parse_str_of
    (valid_str : ∀ s : Bytes, valid (encodeString s) = true)
    (decodeString_encodeString : ∀ s : Bytes, validUtf8 s = true → decodeString (encodeString s) = some s)
    (s : Bytes) (hv : validUtf8 s = true) : parse1 (encodeString s) = some (.str s) := by
  unfold parse1
  rw [valid_str s, trim_str s]
  obtain ⟨o, _, h⟩ := encodeString_eq s
  simp only [Bool.not_true, Bool.false_eq_true, if_false]
  have hd := decodeString_encodeString s hv
  rw [h] at hd ⊢
  simp only [beq_self_eq_true, if_true, hd, Option.map_some]

end Laws
end GoLucene

#print axioms GoLucene.Laws.parseFloat_fmtJSON_glue
#print axioms GoLucene.Laws.parse_str_of
