import GoLucene.Proofs.LawsNum
/-
  Laws, shared definitions and foundation lemmas:
    * `decodeRune` (Model/Json.lean) by cases on the lead byte;
    * `EncB s o`: `o` is the body (between the quotes) that `encodeString` writes for `s`, chunk by chunk;
      `encodeString_eq`;
    * `JsonNum t`: `t` is a JSON number literal of the form the encoder writes;
    * `inIvl`: a rational lies in the round-to-nearest-even interval of a binary64 value.
-/
set_option linter.unusedSimpArgs false
set_option linter.unusedVariables false

namespace GoLucene
namespace Laws

open Json Num JsonRoundTrip

/-! ## bytes -/

theorem u8_all (P : UInt8 → Prop) (h : ∀ n : Nat, n < 256 → P (UInt8.ofNat n)) : ∀ c : UInt8, P c := by
  intro c
  have := h c.toNat c.toNat_lt
  simpa using this

theorem u8_lt {a c : UInt8} : a < c ↔ a.toNat < c.toNat := UInt8.lt_iff_toNat_lt
theorem u8_le {a c : UInt8} : a ≤ c ↔ a.toNat ≤ c.toNat := UInt8.le_iff_toNat_le

/-! ## `decodeRune` by cases -/

def lo3 (c0 : UInt8) : UInt8 := if c0 == 0xE0 then 0xA0 else 0x80
def hi3 (c0 : UInt8) : UInt8 := if c0 == 0xED then 0x9F else 0xBF
def lo4 (c0 : UInt8) : UInt8 := if c0 == 0xF0 then 0x90 else 0x80
def hi4 (c0 : UInt8) : UInt8 := if c0 == 0xF4 then 0x8F else 0xBF

theorem decodeRune_ascii (c0 : UInt8) (rest : Bytes) (h : c0 < 0x80) : decodeRune (c0 :: rest) = (c0.toNat, 1) := by
  unfold decodeRune; simp only [h, if_true]

theorem decodeRune2 (c0 c1 : UInt8) (t : Bytes) (h1 : 0xC2 ≤ c0) (h2 : c0 < 0xE0) (h3 : isContByte c1 = true) :
    decodeRune (c0 :: c1 :: t) = ((c0.toNat % 32) * 64 + c1.toNat % 64, 2) := by
  have a1 : ¬ c0 < 0x80 := by rw [u8_le] at h1; rw [u8_lt]; simp at h1 ⊢; omega
  have a2 : ¬ c0 < 0xC2 := by rw [u8_le] at h1; rw [u8_lt]; simp at h1 ⊢; omega
  unfold decodeRune
  simp only [a1, a2, h2, h3, if_true, if_false]

theorem decodeRune3 (c0 c1 c2 : UInt8) (t : Bytes) (h1 : 0xE0 ≤ c0) (h2 : c0 < 0xF0) (h3 : lo3 c0 ≤ c1)
    (h4 : c1 ≤ hi3 c0) (h5 : isContByte c2 = true) :
    decodeRune (c0 :: c1 :: c2 :: t) = (((c0.toNat % 16) * 64 + c1.toNat % 64) * 64 + c2.toNat % 64, 3) := by
  have a1 : ¬ c0 < 0x80 := by rw [u8_le] at h1; rw [u8_lt]; simp at h1 ⊢; omega
  have a2 : ¬ c0 < 0xC2 := by rw [u8_le] at h1; rw [u8_lt]; simp at h1 ⊢; omega
  have a3 : ¬ c0 < 0xE0 := by rw [u8_le] at h1; rw [u8_lt]; simp at h1 ⊢; omega
  unfold decodeRune
  simp only [a1, a2, a3, h2, if_true, if_false]
  unfold lo3 at h3; unfold hi3 at h4
  simp only [h3, h4, h5, decide_true, Bool.and_self, if_true]

theorem decodeRune4 (c0 c1 c2 c3 : UInt8) (t : Bytes) (h1 : 0xF0 ≤ c0) (h2 : c0 < 0xF5) (h3 : lo4 c0 ≤ c1)
    (h4 : c1 ≤ hi4 c0) (h5 : isContByte c2 = true) (h6 : isContByte c3 = true) :
    decodeRune (c0 :: c1 :: c2 :: c3 :: t) =
      ((((c0.toNat % 8) * 64 + c1.toNat % 64) * 64 + c2.toNat % 64) * 64 + c3.toNat % 64, 4) := by
  have a1 : ¬ c0 < 0x80 := by rw [u8_le] at h1; rw [u8_lt]; simp at h1 ⊢; omega
  have a2 : ¬ c0 < 0xC2 := by rw [u8_le] at h1; rw [u8_lt]; simp at h1 ⊢; omega
  have a3 : ¬ c0 < 0xE0 := by rw [u8_le] at h1; rw [u8_lt]; simp at h1 ⊢; omega
  have a4 : ¬ c0 < 0xF0 := by rw [u8_le] at h1; rw [u8_lt]; simp at h1 ⊢; omega
  unfold decodeRune
  simp only [a1, a2, a3, a4, h2, if_true, if_false]
  unfold lo4 at h3; unfold hi4 at h4
  simp only [h3, h4, h5, h6, decide_true, Bool.and_self, if_true]

/-- the shapes of a multi-byte decoding -/
inductive RuneCase (c0 : UInt8) (rest : Bytes) : Prop
  | bad : decodeRune (c0 :: rest) = (runeError, 1) → RuneCase c0 rest
  | two (c1 : UInt8) (t : Bytes) : rest = c1 :: t → 0xC2 ≤ c0 → c0 < 0xE0 → isContByte c1 = true → RuneCase c0 rest
  | three (c1 c2 : UInt8) (t : Bytes) : rest = c1 :: c2 :: t → 0xE0 ≤ c0 → c0 < 0xF0 → lo3 c0 ≤ c1 → c1 ≤ hi3 c0 →
      isContByte c2 = true → RuneCase c0 rest
  | four (c1 c2 c3 : UInt8) (t : Bytes) : rest = c1 :: c2 :: c3 :: t → 0xF0 ≤ c0 → c0 < 0xF5 → lo4 c0 ≤ c1 →
      c1 ≤ hi4 c0 → isContByte c2 = true → isContByte c3 = true → RuneCase c0 rest

theorem decodeRune_cases (c0 : UInt8) (rest : Bytes) (h : ¬ c0 < 0x80) : RuneCase c0 rest := by
  by_cases a2 : c0 < 0xC2
  · exact .bad (by unfold decodeRune; simp only [h, a2, if_true, if_false])
  by_cases a3 : c0 < 0xE0
  · cases rest with
    | nil => exact .bad (by unfold decodeRune; simp only [h, a2, a3, if_true, if_false])
    | cons c1 t =>
      by_cases hc : isContByte c1 = true
      · exact .two c1 t rfl (by rw [u8_lt] at a2; rw [u8_le]; simp at a2 ⊢; omega) a3 hc
      · exact .bad (by unfold decodeRune; simp only [h, a2, a3, hc, if_true, if_false, Bool.false_eq_true])
  by_cases a4 : c0 < 0xF0
  · have hge : 0xE0 ≤ c0 := by rw [u8_lt] at a3; rw [u8_le]; simp at a3 ⊢; omega
    match rest with
    | [] => exact .bad (by unfold decodeRune; simp only [h, a2, a3, a4, if_true, if_false])
    | [_] => exact .bad (by unfold decodeRune; simp only [h, a2, a3, a4, if_true, if_false])
    | c1 :: c2 :: t =>
      by_cases hc : (decide (lo3 c0 ≤ c1) && decide (c1 ≤ hi3 c0) && isContByte c2) = true
      · simp only [Bool.and_eq_true, decide_eq_true_eq] at hc
        exact .three c1 c2 t rfl hge a4 hc.1.1 hc.1.2 hc.2
      · refine .bad ?_
        unfold decodeRune
        simp only [h, a2, a3, a4, if_true, if_false]
        unfold lo3 hi3 at hc
        simp only [hc, if_false, Bool.false_eq_true]
  by_cases a5 : c0 < 0xF5
  · have hge : 0xF0 ≤ c0 := by rw [u8_lt] at a4; rw [u8_le]; simp at a4 ⊢; omega
    match rest with
    | [] => exact .bad (by unfold decodeRune; simp only [h, a2, a3, a4, a5, if_true, if_false])
    | [_] => exact .bad (by unfold decodeRune; simp only [h, a2, a3, a4, a5, if_true, if_false])
    | [_, _] => exact .bad (by unfold decodeRune; simp only [h, a2, a3, a4, a5, if_true, if_false])
    | c1 :: c2 :: c3 :: t =>
      by_cases hc : (decide (lo4 c0 ≤ c1) && decide (c1 ≤ hi4 c0) && isContByte c2 && isContByte c3) = true
      · simp only [Bool.and_eq_true, decide_eq_true_eq] at hc
        exact .four c1 c2 c3 t rfl hge a5 hc.1.1.1 hc.1.1.2 hc.1.2 hc.2
      · refine .bad ?_
        unfold decodeRune
        simp only [h, a2, a3, a4, a5, if_true, if_false]
        unfold lo4 hi4 at hc
        simp only [hc, if_false, Bool.false_eq_true]
  · exact .bad (by unfold decodeRune; simp only [h, a2, a3, a4, a5, if_true, if_false])


/-! ## what `encodeString` writes, chunk by chunk -/

/-- bytes that `appendString` copies unchanged -/
def plainByte (c : UInt8) : Bool :=
  decide (0x20 ≤ c) && decide (c < 0x80) && c != 0x22 && c != 0x5C && c != 0x3C && c != 0x3E && c != 0x26

/-- bytes with a two-character escape, and the second character of the escape -/
def esc2 (c : UInt8) : Option UInt8 :=
  if c == 0x22 || c == 0x5C then some c
  else if c == 0x08 then some 0x62
  else if c == 0x0C then some 0x66
  else if c == 0x0A then some 0x6E
  else if c == 0x0D then some 0x72
  else if c == 0x09 then some 0x74
  else none

/-- ASCII bytes written as `\u00xx` -/
def escUByte (c : UInt8) : Bool :=
  (decide (c < 0x20) || c == 0x3C || c == 0x3E || c == 0x26) && (esc2 c).isNone

/-- `EncB s o`: `o` is the text between the quotes that `encodeString` writes for the Go string `s`.
    One constructor per kind of chunk. -/
inductive EncB : Bytes → Bytes → Prop
  | nil : EncB [] []
  | plain (c : UInt8) (s o : Bytes) : plainByte c = true → EncB s o → EncB (c :: s) (c :: o)
  | esc2 (c x : UInt8) (s o : Bytes) : esc2 c = some x → EncB s o → EncB (c :: s) (0x5C :: x :: o)
  | escU (c : UInt8) (s o : Bytes) : escUByte c = true → EncB s o →
      EncB (c :: s) (0x5C :: 0x75 :: 0x30 :: 0x30 :: hexLower (c.toNat / 16) :: hexLower (c.toNat % 16) :: o)
  | bad (c : UInt8) (s o : Bytes) : ¬ c < 0x80 → decodeRune (c :: s) = (runeError, 1) → EncB s o →
      EncB (c :: s) (0x5C :: 0x75 :: 0x66 :: 0x66 :: 0x66 :: 0x64 :: o)
  | ls (c c1 c2 : UInt8) (s o : Bytes) (r : Nat) : ¬ c < 0x80 → decodeRune (c :: c1 :: c2 :: s) = (r, 3) →
      (r = 0x2028 ∨ r = 0x2029) → EncB s o →
      EncB (c :: c1 :: c2 :: s) (0x5C :: 0x75 :: 0x32 :: 0x30 :: 0x32 :: hexLower (r % 16) :: o)
  | multi (c : UInt8) (s o : Bytes) (r n : Nat) : ¬ c < 0x80 → decodeRune (c :: s) = (r, n + 2) → n + 1 ≤ s.length →
      ¬ (r = 0x2028 ∨ r = 0x2029) → EncB (s.drop (n + 1)) o → EncB (c :: s) (c :: (s.take (n + 1) ++ o))

/-- the copying loop of `encodeLoop` -/
theorem encodeLoop_copy : ∀ (k : Nat) (acc rest : Bytes), k ≤ rest.length →
    encodeLoop k acc rest = encodeLoop 0 ((rest.take k).reverse ++ acc) (rest.drop k)
  | 0, acc, rest, _ => by simp
  | k + 1, acc, [], h => by simp at h
  | k + 1, acc, c :: rest, h => by
    rw [encodeLoop, encodeLoop_copy k (c :: acc) rest (by simpa using h)]
    simp

theorem decodeRune_width_len (c : UInt8) (rest : Bytes) (h : ¬ c < 0x80) (r n : Nat)
    (hd : decodeRune (c :: rest) = (r, n)) : n = 1 ∨ (2 ≤ n ∧ n ≤ rest.length + 1 ∧ n ≤ 4) := by
  cases decodeRune_cases c rest h with
  | bad hb => rw [hb] at hd; cases hd; exact .inl rfl
  | two c1 t hr h1 h2 h3 =>
    subst hr; rw [decodeRune2 c c1 t h1 h2 h3] at hd; cases hd; right; simp
  | three c1 c2 t hr h1 h2 h3 h4 h5 =>
    subst hr; rw [decodeRune3 c c1 c2 t h1 h2 h3 h4 h5] at hd; cases hd; right; simp
  | four c1 c2 c3 t hr h1 h2 h3 h4 h5 h6 =>
    subst hr; rw [decodeRune4 c c1 c2 c3 t h1 h2 h3 h4 h5 h6] at hd; cases hd; right; simp

/-- a rune ≥ 0x800 is not written with two bytes -/
theorem decodeRune_big (c : UInt8) (rest : Bytes) (h : ¬ c < 0x80) (r n : Nat)
    (hd : decodeRune (c :: rest) = (r, n)) (hn : 2 ≤ n) (hr : 0x800 ≤ r) : 3 ≤ n := by
  cases decodeRune_cases c rest h with
  | bad hb => rw [hb] at hd; cases hd; omega
  | two c1 t hr' h1 h2 h3 =>
    subst hr'; rw [decodeRune2 c c1 t h1 h2 h3] at hd; cases hd
    have := Nat.mod_lt c.toNat (by decide : 32 > 0)
    have := Nat.mod_lt c1.toNat (by decide : 64 > 0)
    omega
  | three c1 c2 t hr' h1 h2 h3 h4 h5 =>
    subst hr'; rw [decodeRune3 c c1 c2 t h1 h2 h3 h4 h5] at hd; cases hd; omega
  | four c1 c2 c3 t hr' h1 h2 h3 h4 h5 h6 =>
    subst hr'; rw [decodeRune4 c c1 c2 c3 t h1 h2 h3 h4 h5 h6] at hd; cases hd; omega

/-- a rune below 0x10000 is not written with four bytes -/
theorem decodeRune_small (c : UInt8) (rest : Bytes) (h : ¬ c < 0x80) (r n : Nat)
    (hd : decodeRune (c :: rest) = (r, n)) (hr : r < 0x10000) : n ≤ 3 := by
  cases decodeRune_cases c rest h with
  | bad hb => rw [hb] at hd; cases hd; omega
  | two c1 t hr' h1 h2 h3 =>
    subst hr'; rw [decodeRune2 c c1 t h1 h2 h3] at hd; cases hd; omega
  | three c1 c2 t hr' h1 h2 h3 h4 h5 =>
    subst hr'; rw [decodeRune3 c c1 c2 t h1 h2 h3 h4 h5] at hd; cases hd; omega
  | four c1 c2 c3 t hr' h1 h2 h3 h4 h5 h6 =>
    subst hr'; rw [decodeRune4 c c1 c2 c3 t h1 h2 h3 h4 h5 h6] at hd; cases hd
    exfalso
    -- the four-byte value is at least 0x10000
    have e0 : 240 ≤ c.toNat := by rw [u8_le] at h1; exact h1
    have e0' : c.toNat < 245 := by rw [u8_lt] at h2; exact h2
    have e1 : (lo4 c).toNat ≤ c1.toNat := by rw [u8_le] at h3; exact h3
    have hlo : c.toNat = 240 → 144 ≤ c1.toNat := by
      intro hc
      have : c = 240 := UInt8.toNat_inj.mp (by rw [hc]; rfl)
      subst this
      exact e1
    have e2 : c1.toNat ≤ (hi4 c).toNat := by rw [u8_le] at h4; exact h4
    have hhi : c1.toNat ≤ 191 := by
      unfold hi4 at e2
      split at e2
      · have : (0x8F : UInt8).toNat = 143 := rfl
        omega
      · exact e2
    by_cases hc : c.toNat = 240
    · have := hlo hc
      omega
    · omega

theorem encB_exists : ∀ (n : Nat) (s : Bytes), s.length ≤ n → ∀ acc, ∃ o, EncB s o ∧ encodeLoop 0 acc s = o.reverse ++ acc := by
  intro n
  induction n with
  | zero =>
    intro s hs acc
    have : s = [] := by cases s with | nil => rfl | cons _ _ => simp at hs
    subst this
    exact ⟨[], .nil, by simp [encodeLoop]⟩
  | succ n ih =>
    intro s hs acc
    cases s with
    | nil => exact ⟨[], .nil, by simp [encodeLoop]⟩
    | cons c rest =>
      have hrest : rest.length ≤ n := by simpa using hs
      rw [encodeLoop]
      by_cases hlt : c < 0x80
      · simp only [hlt, if_true]
        cases he : esc2 c with
        | some x =>
          -- two-character escape
          obtain ⟨o, ho, hl⟩ := ih rest hrest (x :: 0x5C :: acc)
          refine ⟨_, .esc2 c x rest o he ho, ?_⟩
          have : (if (c == 34 || c == 92) = true then encodeLoop 0 (c :: 92 :: acc) rest
              else if (c == 8) = true then encodeLoop 0 (98 :: 92 :: acc) rest
              else if (c == 12) = true then encodeLoop 0 (102 :: 92 :: acc) rest
              else if (c == 10) = true then encodeLoop 0 (110 :: 92 :: acc) rest
              else if (c == 13) = true then encodeLoop 0 (114 :: 92 :: acc) rest
              else if (c == 9) = true then encodeLoop 0 (116 :: 92 :: acc) rest
              else if (decide (c < 32) || c == 60 || c == 62 || c == 38) = true then encodeLoop 0 (pushU00 c acc) rest
              else encodeLoop 0 (c :: acc) rest) = encodeLoop 0 (x :: 92 :: acc) rest := by
            unfold esc2 at he
            split at he
            · cases he; rename_i h1; simp only [h1, if_true]
            · rename_i h1
              split at he
              · cases he; rename_i h2; simp only [h1, h2, if_true, if_false, Bool.false_eq_true]
              · rename_i h2
                split at he
                · cases he; rename_i h3; simp only [h1, h2, h3, if_true, if_false, Bool.false_eq_true]
                · rename_i h3
                  split at he
                  · cases he; rename_i h4; simp only [h1, h2, h3, h4, if_true, if_false, Bool.false_eq_true]
                  · rename_i h4
                    split at he
                    · cases he; rename_i h5; simp only [h1, h2, h3, h4, h5, if_true, if_false, Bool.false_eq_true]
                    · rename_i h5
                      split at he
                      · cases he; rename_i h6
                        simp only [h1, h2, h3, h4, h5, h6, if_true, if_false, Bool.false_eq_true]
                      · cases he
          rw [this, hl]; simp
        | none =>
          have hn : (c == 34 || c == 92) = false ∧ (c == 8) = false ∧ (c == 12) = false ∧ (c == 10) = false ∧
              (c == 13) = false ∧ (c == 9) = false := by
            unfold esc2 at he
            split at he
            · cases he
            · rename_i h1
              split at he
              · cases he
              · rename_i h2
                split at he
                · cases he
                · rename_i h3
                  split at he
                  · cases he
                  · rename_i h4
                    split at he
                    · cases he
                    · rename_i h5
                      split at he
                      · cases he
                      · rename_i h6
                        simp only [Bool.not_eq_true] at h1 h2 h3 h4 h5 h6
                        exact ⟨h1, h2, h3, h4, h5, h6⟩
          obtain ⟨n1, n2, n3, n4, n5, n6⟩ := hn
          simp only [n1, n2, n3, n4, n5, n6, if_false, Bool.false_eq_true]
          by_cases hu : (decide (c < 32) || c == 60 || c == 62 || c == 38) = true
          · simp only [hu, if_true]
            obtain ⟨o, ho, hl⟩ := ih rest hrest (pushU00 c acc)
            refine ⟨_, .escU c rest o (by simp only [escUByte, hu, he]; rfl) ho, ?_⟩
            rw [hl]; simp [pushU00, pushU]
          · simp only [hu, if_false]
            obtain ⟨o, ho, hl⟩ := ih rest hrest (c :: acc)
            have hp : plainByte c = true := by
              simp only [Bool.or_eq_true, decide_eq_true_eq, beq_iff_eq, not_or] at hu
              simp only [Bool.or_eq_false_iff, beq_eq_false_iff_ne] at n1
              simp only [plainByte, Bool.and_eq_true, decide_eq_true_eq, bne_iff_ne]
              obtain ⟨⟨⟨u1, u2⟩, u3⟩, u4⟩ := hu
              refine ⟨⟨⟨⟨⟨⟨?_, hlt⟩, n1.1⟩, n1.2⟩, u2⟩, u3⟩, u4⟩
              rw [u8_lt] at u1; rw [u8_le]; simp at u1 ⊢; omega
            exact ⟨_, .plain c rest o hp ho, by rw [hl]; simp⟩
      · simp only [hlt, if_false]
        cases hd : decodeRune (c :: rest) with
        | mk r w =>
          simp only []
          rcases decodeRune_width_len c rest hlt r w hd with h1 | ⟨h2, h3, h4⟩
          · subst h1
            simp only [Nat.le_refl, if_true]
            have hbad : decodeRune (c :: rest) = (runeError, 1) := by
              cases decodeRune_cases c rest hlt with
              | bad hb => exact hb
              | two c1 t hr' h1 h2 h3 =>
                subst hr'; rw [decodeRune2 c c1 t h1 h2 h3] at hd; cases hd
              | three c1 c2 t hr' h1 h2 h3 h4 h5 =>
                subst hr'; rw [decodeRune3 c c1 c2 t h1 h2 h3 h4 h5] at hd; cases hd
              | four c1 c2 c3 t hr' h1 h2 h3 h4 h5 h6 =>
                subst hr'; rw [decodeRune4 c c1 c2 c3 t h1 h2 h3 h4 h5 h6] at hd; cases hd
            obtain ⟨o, ho, hl⟩ := ih rest hrest (pushU 102 102 102 100 acc)
            exact ⟨_, .bad c rest o hlt hbad ho, by rw [hl]; simp [pushU]⟩
          · have hw : ¬ w ≤ 1 := by omega
            simp only [hw, if_false]
            by_cases hls : (r == 8232 || r == 8233) = true
            · simp only [hls, if_true]
              have hr : r = 0x2028 ∨ r = 0x2029 := by simpa using hls
              have hw3 : 3 ≤ w := decodeRune_big c rest hlt r w hd h2 (by rcases hr with rfl | rfl <;> decide)
              have hw3' : w ≤ 3 := decodeRune_small c rest hlt r w hd (by rcases hr with rfl | rfl <;> decide)
              have hweq : w = 3 := by omega
              subst hweq
              match rest, h3, hd, hrest with
              | c1 :: c2 :: rest2, _, hd, hrest =>
                simp only []
                obtain ⟨o, ho, hl⟩ := ih rest2 (by simp at hrest; omega) (pushU 50 48 50 (hexLower (r % 16)) acc)
                exact ⟨_, .ls c c1 c2 rest2 o r hlt hd hr ho, by rw [hl]; simp [pushU]⟩
            · simp only [hls, if_false, Bool.false_eq_true]
              have hr : ¬ (r = 0x2028 ∨ r = 0x2029) := by simpa using hls
              obtain ⟨w', rfl⟩ : ∃ w', w = w' + 2 := ⟨w - 2, by omega⟩
              rw [encodeLoop_copy _ _ _ (by omega)]
              obtain ⟨o, ho, hl⟩ := ih (rest.drop (w' + 1)) (by simp; omega)
                ((rest.take (w' + 1)).reverse ++ c :: acc)
              refine ⟨_, .multi c rest o r w' hlt hd (by omega) hr ho, ?_⟩
              show encodeLoop 0 ((rest.take (w' + 2 - 1)).reverse ++ c :: acc) (rest.drop (w' + 2 - 1)) = _
              rw [show w' + 2 - 1 = w' + 1 from rfl, hl]
              simp

/-- `encodeString s` is the body `EncB` describes, between two double quotes -/
theorem encodeString_eq (s : Bytes) : ∃ o, EncB s o ∧ encodeString s = 34 :: (o ++ [34]) := by
  obtain ⟨o, ho, hl⟩ := encB_exists s.length s (Nat.le_refl _) [0x22]
  refine ⟨o, ho, ?_⟩
  unfold encodeString
  rw [hl]
  simp

theorem str_head (s : Bytes) : ∃ m, encodeString s = 34 :: m := by
  obtain ⟨o, _, h⟩ := encodeString_eq s
  exact ⟨_, h⟩


/-! ## decimal digits -/

theorem natDigits_rec (n : Nat) :
    natDigits n = if n < 10 then [UInt8.ofNat (48 + n)] else natDigits (n / 10) ++ [UInt8.ofNat (48 + n % 10)] := by
  unfold natDigits
  rw [Nat.toDigits_eq_if (by decide)]
  split
  · rename_i h
    simp only [List.map_cons, List.map_nil, Nat.toNat_digitChar_of_lt_ten h]
  · have h : n % 10 < 10 := Nat.mod_lt _ (by decide)
    simp only [List.map_append, List.map_cons, List.map_nil, Nat.toNat_digitChar_of_lt_ten h]

theorem natDigits_lt10 (n : Nat) (h : n < 10) : natDigits n = [UInt8.ofNat (48 + n)] := by
  rw [natDigits_rec, if_pos h]

theorem natDigits_ge10 (n : Nat) (h : ¬ n < 10) :
    natDigits n = natDigits (n / 10) ++ [UInt8.ofNat (48 + n % 10)] := by
  rw [natDigits_rec, if_neg h]

theorem natDigits_length_le_iff (n k : Nat) (hk : 0 < k) : (natDigits n).length ≤ k ↔ n < 10 ^ k := by
  unfold natDigits
  rw [List.length_map]
  exact Nat.length_toDigits_le_iff (by decide) hk

/-- no leading zero -/
theorem natDigits_head (n : Nat) (hn : 0 < n) :
    ∃ d t, natDigits n = d :: t ∧ 49 ≤ d.toNat ∧ d.toNat ≤ 57 ∧ ∀ c ∈ t, dig c := by
  induction n using Nat.strongRecOn with
  | _ n ih =>
    by_cases h : n < 10
    · refine ⟨UInt8.ofNat (48 + n), [], natDigits_lt10 n h, ?_, ?_, by simp⟩
      · rw [UInt8.toNat_ofNat']; omega
      · rw [UInt8.toNat_ofNat']; omega
    · obtain ⟨d, t, ht, h1, h2, h3⟩ := ih (n / 10) (by omega) (by omega)
      refine ⟨d, t ++ [UInt8.ofNat (48 + n % 10)], by rw [natDigits_ge10 n h, ht]; rfl, h1, h2, ?_⟩
      intro c hc
      simp only [List.mem_append, List.mem_singleton] at hc
      rcases hc with hc | rfl
      · exact h3 c hc
      · have := Nat.mod_lt n (by decide : 10 > 0)
        unfold dig
        rw [UInt8.toNat_ofNat']; omega

theorem natDigits_zero : natDigits 0 = [48] := by decide

/-! ## JSON number literals of the encoder's form -/

/-- all bytes are ASCII digits -/
def digs (l : Bytes) : Prop := ∀ c ∈ l, dig c

/-- integer part of a JSON number: `0`, or a non-zero digit followed by digits -/
def IntPart (ip : Bytes) : Prop :=
  ip = [48] ∨ ∃ d ds, ip = d :: ds ∧ 49 ≤ d.toNat ∧ d.toNat ≤ 57 ∧ digs ds

/-- `t` is `-? int (. digits+)? (e [+-] digits+)?`: a JSON number literal of the form the encoder writes
    (lower-case `e`, signed exponent) -/
def JsonNum (t : Bytes) : Prop :=
  ∃ (neg : Bool) (ip fr ex : Bytes), t = (if neg then [45] else []) ++ ip ++ fr ++ ex ∧ IntPart ip ∧
    (fr = [] ∨ ∃ ds, ds ≠ [] ∧ digs ds ∧ fr = 46 :: ds) ∧
    (ex = [] ∨ ∃ sg ds, (sg = 43 ∨ sg = 45) ∧ ds ≠ [] ∧ digs ds ∧ ex = 101 :: sg :: ds)

theorem intPart_natDigits (n : Nat) : IntPart (natDigits n) := by
  by_cases h : n = 0
  · subst h; exact .inl natDigits_zero
  · obtain ⟨d, t, ht, h1, h2, h3⟩ := natDigits_head n (by omega)
    exact .inr ⟨d, t, ht, h1, h2, h3⟩

theorem jsonNum_fmtInt (i : Int) : JsonNum (fmtInt i) := by
  by_cases hneg : i < 0
  · exact ⟨true, natDigits i.natAbs, [], [], by rw [fmtInt_neg i hneg]; simp, intPart_natDigits _, .inl rfl, .inl rfl⟩
  · exact ⟨false, natDigits i.natAbs, [], [], by rw [fmtInt_nonneg i hneg]; simp, intPart_natDigits _, .inl rfl,
      .inl rfl⟩

/-- executable version of `JsonNum` (for stating the remaining hypothesis on `fmtJSON`, should one remain) -/
def isJsonNum (t : Bytes) : Bool :=
  let t1 : Bytes := match t with
    | 45 :: r => r
    | _ => t
  let ip : Bytes := t1.takeWhile Json.isDigit
  let r1 : Bytes := t1.dropWhile Json.isDigit
  let ipOK := !ip.isEmpty && (ip == [48] || ip.head? != some 48)
  let (frOK, r2) : Bool × Bytes :=
    match r1 with
    | 46 :: r => (!(r.takeWhile Json.isDigit).isEmpty, r.dropWhile Json.isDigit)
    | _ => (true, r1)
  let exOK : Bool :=
    match r2 with
    | [] => true
    | 101 :: sg :: r => (sg == 43 || sg == 45) && !r.isEmpty && r.all Json.isDigit
    | _ => false
  ipOK && frOK && exOK

/-! ## binary64 rounding intervals; what `parseFloat` returns on the encoder's number texts -/

/-- `N / D` lies in the set of reals that round (to nearest, ties to even) to the binary64 value `m · 2^e`, where
    `m`, `e` are `F64.mant`, `F64.exp2` of a finite non-zero value: between the midpoints to the two neighbours,
    midpoints included iff `m` is even; the lower neighbour is half as far away when `m = 2^52` (bottom of a binade,
    except the smallest normal). -/
def inIvl (m : Nat) (e : Int) (N D : Nat) : Prop :=
  let lowN : Nat := if m = two52 ∧ e ≠ -1074 then 4 * m - 1 else 4 * m - 2
  let hiN : Nat := 4 * m + 2
  let e2 : Int := e - 2
  let sc : Nat := if e2 ≥ 0 then 2 ^ e2.toNat else 1
  let dn : Nat := if e2 ≥ 0 then 1 else 2 ^ (-e2).toNat
  if m % 2 = 0 then lowN * sc * D ≤ N * dn ∧ N * dn ≤ hiN * sc * D
  else lowN * sc * D < N * dn ∧ N * dn < hiN * sc * D

/-- the magnitude bits of the binary64 nearest to `c · 10^k` -/
def rr (c : Nat) (k : Int) : Nat :=
  if k ≥ 0 then roundRatBits (c * 10 ^ k.toNat) 1 else roundRatBits c (10 ^ (-k).toNat)

/-- `c · 10^k` lies in the rounding interval of `m · 2^e` -/
def decInIvl (m : Nat) (e : Int) (c : Nat) (k : Int) : Prop :=
  if k ≥ 0 then inIvl m e (c * 10 ^ k.toNat) 1 else inIvl m e c (10 ^ (-k).toNat)

/-- what `parseFloat` returns on a text denoting `± c · 10^k` -/
def parsedVal (neg : Bool) (c : Nat) (k : Int) : Option F64 :=
  if rr c k ≥ infBits then none else some (F64.ofMag neg (rr c k))

end Laws
end GoLucene
