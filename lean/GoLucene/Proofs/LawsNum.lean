import GoLucene.Proofs.JsonRoundTrip
import GoLucene.Proofs.SqlMeaning
/-
  Laws, part 1: the structural facts about Model/Num.lean (`atoi`, `fmtInt`, `parseFloat` on non-numbers, `F64.eq`,
  `F64.toInt`) behind `NumLaws` / `NumLaws2`.
-/
set_option linter.unusedSimpArgs false
set_option linter.unusedVariables false

namespace GoLucene
namespace Laws

open Num JsonRoundTrip

/-! ## bytes -/

theorem u8_eq_iff (a c : UInt8) : a = c ↔ a.toNat = c.toNat := UInt8.toNat_inj.symm

/-- `c` is an ASCII digit -/
def dig (c : UInt8) : Prop := 48 ≤ c.toNat ∧ c.toNat ≤ 57

theorem dig_isDig {c : UInt8} : Num.isDig c = true ↔ dig c := by
  simp only [Num.isDig, Bool.and_eq_true, decide_eq_true_eq, UInt8.le_iff_toNat_le, dig]
  rfl

theorem natDigits_dig (n : Nat) : ∀ c ∈ natDigits n, dig c := by
  intro c hc
  have := SqlMeaning.natDigits_isDig n c hc
  exact (SqlMeaning.isDig_iff c).mp this

theorem natDigits_ne_nil (n : Nat) : natDigits n ≠ [] := SqlMeaning.natDigits_ne_nil n

theorem natDigits_cons (n : Nat) : ∃ c t, natDigits n = c :: t ∧ dig c := by
  have h := natDigits_dig n
  cases hn : natDigits n with
  | nil => exact absurd hn (natDigits_ne_nil n)
  | cons c t => exact ⟨c, t, rfl, h c (by rw [hn]; simp)⟩

/-- the value of a digit string, most significant digit first -/
def dval (acc : Nat) (ds : Bytes) : Nat := ds.foldl (fun n c => 10 * n + (c.toNat - 48)) acc

theorem dval_nil (acc : Nat) : dval acc [] = acc := rfl
theorem dval_cons (acc : Nat) (c : UInt8) (t : Bytes) : dval acc (c :: t) = dval (10 * acc + (c.toNat - 48)) t := by
  unfold dval; rw [List.foldl_cons]

theorem dval_natDigits (n : Nat) : dval 0 (natDigits n) = n := by
  have := SqlMeaning.digVal_natDigits n
  unfold SqlMeaning.digVal at this
  unfold dval
  exact this

theorem dval_append (acc : Nat) (x y : Bytes) : dval acc (x ++ y) = dval (dval acc x) y := by
  simp [dval, List.foldl_append]

theorem dval_acc (ds : Bytes) : ∀ acc, dval acc ds = acc * 10 ^ ds.length + dval 0 ds := by
  induction ds with
  | nil => intro acc; simp [dval]
  | cons c t ih =>
    intro acc
    rw [dval_cons, ih, dval_cons, ih (10 * 0 + (c.toNat - 48))]
    simp only [List.length_cons, Nat.pow_succ]
    rw [Nat.add_mul, Nat.add_mul]
    simp only [Nat.mul_zero, Nat.zero_mul, Nat.zero_add]
    rw [Nat.add_assoc]
    congr 1
    rw [Nat.mul_comm 10 acc, Nat.mul_assoc, Nat.mul_comm 10]

theorem digitsVal_dig (ds : Bytes) (h : ∀ c ∈ ds, dig c) : ∀ acc, digitsVal acc ds = some (dval acc ds) := by
  induction ds with
  | nil => intro acc; rfl
  | cons c t ih =>
    intro acc
    have hc : Num.isDig c = true := dig_isDig.mpr (h c (by simp))
    rw [digitsVal, if_pos hc, ih (fun x hx => h x (by simp [hx])), dval_cons, Nat.mul_comm]

theorem atoiU_natDigits (n : Nat) : atoiU (natDigits n) = some n := by
  obtain ⟨c, t, hn, _⟩ := natDigits_cons n
  have h := digitsVal_dig (natDigits n) (natDigits_dig n) 0
  rw [dval_natDigits] at h
  unfold atoiU
  rw [hn] at h ⊢
  exact h

/-! ## `atoi`, `fmtInt` -/

theorem fmtInt_neg (i : Int) (h : i < 0) : fmtInt i = 45 :: natDigits i.natAbs := by simp [fmtInt, h]
theorem fmtInt_nonneg (i : Int) (h : ¬ i < 0) : fmtInt i = natDigits i.natAbs := by simp [fmtInt, h]

theorem dig_ne {c : UInt8} (h : dig c) : c ≠ 45 ∧ c ≠ 43 ∧ c ≠ 34 ∧ c ≠ 95 ∧ c ≠ 46 := by
  refine ⟨?_, ?_, ?_, ?_, ?_⟩ <;> (intro e; subst e; revert h; unfold dig; decide)

theorem atoi_fmtInt (i : Int) (hi : isInt64 i = true) : atoi (fmtInt i) = some i := by
  simp only [isInt64, decide_eq_true_eq] at hi
  by_cases hneg : i < 0
  · rw [fmtInt_neg i hneg]
    simp only [atoi, if_true, atoiU_natDigits]
    have : i.natAbs ≤ two63 := by simp only [two63]; omega
    rw [if_pos this]
    congr 1; omega
  · rw [fmtInt_nonneg i hneg]
    obtain ⟨c, t, hn, hc⟩ := natDigits_cons i.natAbs
    have h1 := (dig_ne hc).1
    have h2 := (dig_ne hc).2.1
    have hU := atoiU_natDigits i.natAbs
    rw [hn] at hU ⊢
    simp only [atoi, if_neg h1, if_neg h2, hU]
    have : i.natAbs < two63 := by simp only [two63]; omega
    rw [if_pos this]
    congr 1; omega

theorem atoi_quote (t : Bytes) : atoi (34 :: t) = none := by
  have h1 : ¬ ((34 : UInt8) = 45) := by decide
  have h2 : ¬ ((34 : UInt8) = 43) := by decide
  simp only [atoi, if_neg h1, if_neg h2, atoiU]
  have : digitsVal 0 (34 :: t) = none := by
    rw [digitsVal]; simp [Num.isDig]
  rw [this]

theorem head_int (i : Int) : numHead (fmtInt i) = true := by
  by_cases hneg : i < 0
  · rw [fmtInt_neg i hneg]; rfl
  · rw [fmtInt_nonneg i hneg]
    obtain ⟨c, t, hn, hc⟩ := natDigits_cons i.natAbs
    rw [hn]
    simp only [numHead, Bool.or_eq_true, beq_iff_eq, Bool.and_eq_true, decide_eq_true_eq, UInt8.le_iff_toNat_le]
    exact Or.inr hc

/-! ## `parseFloat` rejects a text starting with a double quote -/

theorem special_quote (t : Bytes) : special (34 :: t) = none := by
  have h1 : ¬ ((34 : UInt8) = 43) := by decide
  have h2 : ¬ ((34 : UInt8) = 45) := by decide
  simp only [special, if_neg h1, if_neg h2, List.map_cons]
  have e : lowerAZ 34 = 34 := by decide
  simp [e]

theorem scanMant_quote (hex : Bool) (st : Scan) (t : Bytes) : scanMant hex st (34 :: t) = (st, 34 :: t) := by
  have h1 : ¬ ((34 : UInt8) = 95) := by decide
  have h2 : ¬ ((34 : UInt8) = 46) := by decide
  have h3 : Num.isDig 34 = false := by decide
  have h4 : isHexLet 34 = false := by decide
  rw [scanMant, if_neg h1, if_neg h2]
  simp [h3, h4]

theorem parseFloat_quote (t : Bytes) : parseFloat (34 :: t) = none := by
  unfold parseFloat
  rw [special_quote]
  have h1 : ¬ ((34 : UInt8) = 43 ∨ (34 : UInt8) = 45) := by decide
  simp only [if_neg h1]
  simp only [Option.isSome, scanMant_quote]
  rfl

/-! ## `F64` -/

theorem eq_one (p : F64) (h : F64.eq p F64.one = true) : p = F64.one := by
  obtain ⟨bits⟩ := p
  simp only [F64.eq, Bool.and_eq_true, Bool.not_eq_true', decide_eq_true_eq] at h
  obtain ⟨⟨_, _⟩, hk⟩ := h
  have hone : F64.one.key = 4607182418800017408 := by decide
  rw [hone] at hk
  simp only [F64.key, F64.isNeg, F64.mag, decide_eq_true_eq, two63] at hk
  have hlt := bits.toNat_lt
  have hb : bits.toNat = 4607182418800017408 := by
    by_cases hc : 9223372036854775808 ≤ bits.toNat
    · simp only [hc, decide_true, if_true] at hk; omega
    · simp only [hc, decide_false, Bool.false_eq_true, if_false] at hk; omega
  have : bits = 0x3FF0000000000000 := by
    apply UInt64.toNat_inj.mp
    rw [hb]; rfl
  rw [this]; rfl

/-- `toInt` as a function of the magnitude bits and the sign -/
def toIntCore (mag : Nat) (neg : Bool) : Int :=
  let indefinite : Int := -(two63 : Int)
  if !decide (mag < infBits) then indefinite else
  let mant : Nat := if mag < two52 then mag else mag % two52 + two52
  let e : Int := if mag < two52 then -1074 else ((mag / two52 : Nat) : Int) - 1075
  if e ≥ 12 then (if mant = 0 then 0 else indefinite) else
  let v : Nat := if e ≥ 0 then mant <<< e.toNat else mant >>> (-e).toNat
  let iv : Int := if neg then -(v : Int) else (v : Int)
  if indefinite ≤ iv ∧ iv < (two63 : Int) then iv else indefinite

theorem toInt_core (f : F64) : f.toInt = toIntCore f.mag f.isNeg := rfl

/-- `toInt` only depends on the order key (so it does not distinguish -0 from +0) -/
theorem toInt_of_key (f g : F64) (hk : f.key = g.key) : f.toInt = g.toInt := by
  have hmag : f.mag = g.mag := by
    simp only [F64.key] at hk
    cases h1 : f.isNeg <;> cases h2 : g.isNeg <;> simp only [h1, h2, if_true, if_false, Bool.false_eq_true] at hk <;> omega
  by_cases hz : f.mag = 0
  · have hz' : g.mag = 0 := hmag ▸ hz
    have e : ∀ h : F64, h.mag = 0 → h.toInt = 0 := by
      intro h hh
      have h1 : h.isFinite = true := by simp [F64.isFinite, hh, infBits]
      have h2 : h.exp2 = -1074 := by simp [F64.exp2, hh, two52]
      have h3 : h.mant = 0 := by simp [F64.mant, hh, two52]
      simp only [F64.toInt, h1, h2, h3, two63]
      simp
    rw [e f hz, e g hz']
  · have hneg : f.isNeg = g.isNeg := by
      simp only [F64.key] at hk
      cases h1 : f.isNeg <;> cases h2 : g.isNeg <;>
        simp only [h1, h2, if_true, if_false, Bool.false_eq_true] at hk <;> first | rfl | omega
    rw [toInt_core, toInt_core, hmag, hneg]

theorem toInt_stable (f : F64) (h : F64.eq f (F64.ofInt f.toInt) = true) :
    toIntIfNecessary (F64.ofInt f.toInt) = .int f.toInt := by
  simp only [F64.eq, Bool.and_eq_true, Bool.not_eq_true', decide_eq_true_eq] at h
  obtain ⟨⟨_, hn⟩, hk⟩ := h
  have e : (F64.ofInt f.toInt).toInt = f.toInt := (toInt_of_key _ _ hk).symm
  simp only [toIntIfNecessary, e]
  have : F64.eq (F64.ofInt f.toInt) (F64.ofInt f.toInt) = true := by
    simp [F64.eq, hn]
  rw [if_pos this]

theorem numLaws2 : NumLaws2 := ⟨toInt_stable⟩

end Laws
end GoLucene
