import GoLucene.Proofs.FloatRT2
import GoLucene.Proofs.SqlText3
/-
  FloatRT, part 3: `strconv.ParseFloat` (Model/Num.lean `parseFloat`) reads the `%v` text of a finite float64
  (`fmtG`) back as that float64.
-/
namespace GoLucene.FloatRT
open GoLucene Num

/-! ## the mantissa scanner on runs of digits -/

/-- decimal value of a run of digits appended to `acc` -/
def dval (acc : Nat) (ds : Bytes) : Nat := ds.foldl (fun n c => n * 10 + (c.toNat - 48)) acc

def AllD (ds : Bytes) : Prop := ∀ c ∈ ds, Num.isDig c = true

theorem isDig_ne (c : UInt8) (h : Num.isDig c = true) : c ≠ 95 ∧ c ≠ 46 := by
  constructor <;> (intro e; subst e; revert h; decide)

/-- digits after the first significant one are all counted -/
theorem scan_counted : ∀ (ds : Bytes) (st : Scan) (rest : Bytes), AllD ds → 0 < st.nd →
    scanMant false st (ds ++ rest) =
      scanMant false { st with sawdigits := st.sawdigits || !ds.isEmpty, nd := st.nd + ds.length,
                               mant := dval st.mant ds } rest
  | [], st, rest, _, _ => by simp [dval]
  | c :: t, st, rest, h, hnd => by
    have hc : Num.isDig c = true := h c (by simp)
    have hne := isDig_ne c hc
    have hz : ¬ (c = 48 ∧ st.nd = 0) := by omega
    rw [List.cons_append, scanMant]
    simp only [hne.1, hne.2, hc, hz, ↓reduceIte, Bool.false_eq_true]
    rw [scan_counted t _ rest (fun x hx => h x (by simp [hx])) (by simp)]
    congr 1
    simp [dval, Nat.add_assoc, Nat.add_comm 1]


/-- a run of digits that starts with a non-zero digit, at the start of the significant digits -/
theorem scan_run (d : UInt8) (t : Bytes) (st : Scan) (rest : Bytes) (h : AllD (d :: t)) (hd : d ≠ 48)
    (hnd : st.nd = 0) :
    scanMant false st (d :: t ++ rest) =
      scanMant false { st with sawdigits := true, nd := (d :: t).length, mant := dval st.mant (d :: t) } rest := by
  have hc : Num.isDig d = true := h d (by simp)
  have hne := isDig_ne d hc
  have hz : ¬ (d = 48 ∧ st.nd = 0) := fun hh => hd hh.1
  rw [List.cons_append, scanMant]
  simp only [hne.1, hne.2, hc, hz, ↓reduceIte, Bool.false_eq_true]
  rw [scan_counted t _ rest (fun x hx => h x (by simp [hx])) (by simp)]
  congr 1
  simp [dval, hnd, Nat.add_comm]

theorem scan_zeros : ∀ (n : Nat) (st : Scan) (rest : Bytes), st.nd = 0 →
    scanMant false st (zeros n ++ rest) =
      scanMant false { st with sawdigits := st.sawdigits || decide (0 < n), dp := st.dp - n } rest
  | 0, st, rest, _ => by simp [zeros]
  | n + 1, st, rest, hnd => by
    have e : zeros (n + 1) ++ rest = 48 :: (zeros n ++ rest) := by simp [zeros, List.replicate_succ]
    have hz : ((48 : UInt8) = 48 ∧ st.nd = 0) := ⟨rfl, hnd⟩
    rw [e, scanMant]
    have h1 : ¬ ((48 : UInt8) = 95) := by decide
    have h2 : ¬ ((48 : UInt8) = 46) := by decide
    have h3 : Num.isDig 48 = true := by decide
    simp only [h1, h2, h3, hz, and_self, ↓reduceIte]
    rw [scan_zeros n _ rest (by simp)]
    congr 1
    simp only [Scan.mk.injEq, true_and]
    refine ⟨by omega, ?_⟩
    simp

theorem scan_dot (st : Scan) (rest : Bytes) (h : st.sawdot = false) :
    scanMant false st (46 :: rest) =
      scanMant false { st with sawdot := true, dp := (st.nd : Int), ndDot := st.nd } rest := by
  rw [scanMant]
  have h1 : ¬ ((46 : UInt8) = 95) := by decide
  simp only [h1, h, ↓reduceIte, Bool.false_eq_true]

theorem scan_nil (st : Scan) : scanMant false st [] = (st, []) := by rw [scanMant]

theorem scan_e (st : Scan) (r : Bytes) : scanMant false st (101 :: r) = (st, 101 :: r) := by
  rw [scanMant]
  have h1 : ¬ ((101 : UInt8) = 95) := by decide
  have h2 : ¬ ((101 : UInt8) = 46) := by decide
  have h3 : Num.isDig 101 = false := by decide
  simp only [h1, h2, h3, ↓reduceIte, Bool.false_eq_true, false_and]


/-! ## digits of natural numbers -/

theorem dval_eq_fold (ds : Bytes) (acc : Nat) :
    dval acc ds = ds.foldl (fun n c => 10 * n + (c.toNat - 48)) acc := by
  unfold dval
  induction ds generalizing acc with
  | nil => rfl
  | cons c t ih => simp only [List.foldl_cons, ih, Nat.mul_comm]

theorem dval_natDigits (n : Nat) : dval 0 (natDigits n) = n := by
  rw [dval_eq_fold]; exact SqlMeaning.digVal_natDigits n

theorem allD_natDigits (n : Nat) : AllD (natDigits n) := fun c hc => SqlMeaning.natDigits_isDig n c hc

theorem dval_mono (ds : Bytes) (acc : Nat) : acc ≤ dval acc ds := by
  unfold dval
  induction ds generalizing acc with
  | nil => exact Nat.le_refl _
  | cons c t ih =>
    simp only [List.foldl_cons]
    have := ih (acc * 10 + (c.toNat - 48))
    omega

theorem dval_append (a c : Bytes) (acc : Nat) : dval acc (a ++ c) = dval (dval acc a) c := by
  simp [dval, List.foldl_append]

theorem dval_zeros (n acc : Nat) : dval acc (zeros n) = acc * 10 ^ n := by
  induction n generalizing acc with
  | zero => simp [dval, zeros]
  | succ n ih =>
    have e : zeros (n + 1) = 48 :: zeros n := by simp [zeros, List.replicate_succ]
    rw [e]
    have : dval acc (48 :: zeros n) = dval (acc * 10 + 0) (zeros n) := rfl
    rw [this, ih, Nat.add_zero, Nat.pow_succ]
    rw [Nat.mul_assoc, Nat.mul_comm 10]

/-- the leading digit of a positive number is not `0` -/
theorem natDigits_head (n : Nat) (h : 0 < n) : ∃ d t, natDigits n = d :: t ∧ d ≠ 48 := by
  induction n using Nat.strongRecOn with
  | _ n ih =>
    unfold natDigits
    rw [Nat.toDigits_eq_if (by decide)]
    split
    · rename_i hlt
      refine ⟨UInt8.ofNat (Nat.digitChar n).toNat, [], rfl, ?_⟩
      intro e
      have h1 := Nat.toNat_digitChar_of_lt_ten hlt
      rw [h1] at e
      have : (UInt8.ofNat (48 + n)).toNat = (48 : UInt8).toNat := by rw [e]
      rw [UInt8.toNat_ofNat'] at this
      have : (48 + n) % 256 = 48 := by simpa using this
      omega
    · rename_i hge
      obtain ⟨d, t, hdt, hd⟩ := ih (n / 10) (by omega) (by omega)
      unfold natDigits at hdt
      rw [List.map_append, hdt]
      exact ⟨d, _, rfl, hd⟩

/-- the number of digits: `10^(len-1) ≤ n < 10^len` -/
theorem natDigits_len (n : Nat) (h : 0 < n) :
    n < 10 ^ (natDigits n).length ∧ 10 ^ ((natDigits n).length - 1) ≤ n := by
  have hl : (natDigits n).length = (Nat.toDigits 10 n).length := by simp [natDigits]
  have hpos : 0 < (Nat.toDigits 10 n).length := Nat.length_toDigits_pos
  rw [hl]
  constructor
  · exact (Nat.length_toDigits_le_iff (by decide) hpos).mp (Nat.le_refl _)
  · by_cases h1 : (Nat.toDigits 10 n).length = 1
    · rw [h1]; simp; omega
    · have hk : 0 < (Nat.toDigits 10 n).length - 1 := by omega
      have := (Nat.length_toDigits_le_iff (b := 10) (n := n) (by decide) hk)
      apply Decidable.byContradiction
      intro hcon
      have := this.mpr (by omega)
      omega

/-! ## the exponent scanner -/

theorem scanExpDigits_all : ∀ (ds : Bytes) (acc : Nat) (us : Bool), AllD ds → dval acc ds < 10000 →
    scanExpDigits acc us ds = (dval acc ds, us, [])
  | [], acc, us, _, _ => rfl
  | c :: t, acc, us, h, hv => by
    have hc : Num.isDig c = true := h c (by simp)
    have hne := isDig_ne c hc
    have hacc : acc < 10000 := by
      have := dval_mono (c :: t) acc; omega
    rw [scanExpDigits]
    simp only [hne.1, hc, hacc, ↓reduceIte]
    exact scanExpDigits_all t _ us (fun x hx => h x (by simp [hx])) hv

theorem scanExp_fmtExp (ex : Int) (us : Bool) (h : ex.natAbs < 10000) :
    scanExp false us (101 :: fmtExp ex) = some (ex, us) := by
  unfold fmtExp
  simp only []
  have hd : AllD (if ex.natAbs < 10 then 48 :: natDigits ex.natAbs else natDigits ex.natAbs) := by
    split
    · intro c hc
      rcases List.mem_cons.mp hc with rfl | hc
      · decide
      · exact allD_natDigits _ c hc
    · exact allD_natDigits _
  have hv : dval 0 (if ex.natAbs < 10 then 48 :: natDigits ex.natAbs else natDigits ex.natAbs) = ex.natAbs := by
    split
    · exact dval_natDigits _
    · exact dval_natDigits _
  obtain ⟨d, t, hdt⟩ : ∃ d t, (if ex.natAbs < 10 then 48 :: natDigits ex.natAbs else natDigits ex.natAbs) = d :: t := by
    split
    · exact ⟨_, _, rfl⟩
    · obtain ⟨d, t, hdt⟩ := List.exists_cons_of_ne_nil (SqlMeaning.natDigits_ne_nil ex.natAbs)
      exact ⟨d, t, hdt⟩
  rw [hdt] at hd hv ⊢
  have hdd : Num.isDig d = true := hd d (by simp)
  have hsc := scanExpDigits_all (d :: t) 0 us hd (by omega)
  unfold scanExp
  have hl : lower 101 = 101 := by decide
  simp only [hl, Bool.false_eq_true, ↓reduceIte]
  by_cases hneg : ex < 0
  · simp only [hneg, ↓reduceIte, hdd, hsc, hv, or_true]
    congr 2; omega
  · have h43 : ¬ ((43 : UInt8) = 45) := by decide
    simp only [hneg, ↓reduceIte, hdd, hsc, hv, true_or, h43]
    congr 2; omega


/-! ## `parseFloat` on a signed decimal text -/

theorem numDig_cases (c : UInt8) (h : Num.isDig c = true) :
    c = 48 ∨ c = 49 ∨ c = 50 ∨ c = 51 ∨ c = 52 ∨ c = 53 ∨ c = 54 ∨ c = 55 ∨ c = 56 ∨ c = 57 :=
  SqlText.dig_cases c h

theorem special_digit (d0 : UInt8) (t0 : Bytes) (h : Num.isDig d0 = true) :
    special (d0 :: t0) = none ∧ special (45 :: d0 :: t0) = none := by
  rcases numDig_cases d0 h with rfl | rfl | rfl | rfl | rfl | rfl | rfl | rfl | rfl | rfl <;> exact ⟨rfl, rfl⟩

/-- the part of `parseFloat` after the sign and the `0x` test -/
def pfDec (neg : Bool) (B : Bytes) : Option F64 :=
  match scanMant false {} B with
  | (st, rest) =>
    if !st.sawdigits then none else
    let dp0 : Int := if st.sawdot then st.dp else (st.nd : Int)
    match scanExp false st.us rest with
    | none => none
    | some (e, us) =>
      if us && !underscoreOK (signed neg B) then none else
      let dp := dp0 + e
      if st.mant = 0 then some (F64.ofMag neg 0) else
      let bits := decimalBits st.mant st.nd (if st.sawdot then st.ndDot else st.nd) dp
      if bits ≥ infBits then none else some (F64.ofMag neg bits)

theorem parseFloat_signed (neg : Bool) (d0 : UInt8) (t0 : Bytes) (h : Num.isDig d0 = true)
    (hnohex : d0 = 48 → ∀ x y r, t0 = x :: y :: r → lower x ≠ 120) :
    parseFloat (signed neg (d0 :: t0)) = pfDec neg (d0 :: t0) := by
  obtain ⟨hs1, hs2⟩ := special_digit d0 t0 h
  have h43 : d0 ≠ 43 := by intro e; subst e; revert h; decide
  have h45 : d0 ≠ 45 := by intro e; subst e; revert h; decide
  rcases numDig_cases d0 h with rfl | rfl | rfl | rfl | rfl | rfl | rfl | rfl | rfl | rfl
  · -- leading `0`
    match t0, hnohex rfl with
    | [], _ =>
      cases neg
      · unfold parseFloat pfDec signed
        simp only [Bool.false_eq_true, ↓reduceIte, hs1, h43, h45, or_self, decide_false]
        rfl
      · unfold parseFloat pfDec signed
        simp only [↓reduceIte, hs2, or_true, decide_true]
        rfl
    | [x], _ =>
      cases neg
      · unfold parseFloat pfDec signed
        simp only [Bool.false_eq_true, ↓reduceIte, hs1, h43, h45, or_self, decide_false]
        rfl
      · unfold parseFloat pfDec signed
        simp only [↓reduceIte, hs2, or_true, decide_true]
        rfl
    | x :: y :: r, hx =>
      have hx' := hx x y r rfl
      cases neg
      · unfold parseFloat pfDec signed
        simp only [Bool.false_eq_true, ↓reduceIte, hs1, hx', h43, h45, or_self, decide_false]
        rfl
      · unfold parseFloat pfDec signed
        simp only [↓reduceIte, hs2, hx', or_true, decide_true]
        rfl
  all_goals
    cases neg
    · unfold parseFloat pfDec signed
      simp only [Bool.false_eq_true, ↓reduceIte, hs1, h43, h45, or_self, decide_false]
      rfl
    · unfold parseFloat pfDec signed
      simp only [↓reduceIte, hs2, or_true, decide_true]
      rfl


/-! ## from the scanner state to the rounded value -/

theorem decBits_val (mant nd : Nat) (dp : Int) (hm : 0 < mant) (h1 : dp ≤ 310) (h2 : -330 ≤ dp) :
    ∃ num den : Nat, 0 < num ∧ 0 < den ∧ decBits mant nd dp = roundRatBits num den ∧
      (num : Rat) / den = (mant : Rat) * p10 (dp - nd) := by
  unfold decBits
  have c1 : ¬ dp > 310 := by omega
  have c2 : ¬ dp < -330 := by omega
  simp only [c1, c2, ↓reduceIte]
  by_cases hx : dp - (nd : Int) ≥ 0
  · simp only [hx, ↓reduceIte]
    refine ⟨mant * 10 ^ (dp - (nd : Int)).toNat, 1, Nat.mul_pos hm (Nat.pow_pos (by decide)), by decide, rfl, ?_⟩
    obtain ⟨n, hn⟩ : ∃ n : Nat, dp - (nd : Int) = n := ⟨(dp - nd).toNat, by omega⟩
    rw [hn, Int.toNat_natCast, p10_nat]
    push_cast
    have : (1 : Rat)⁻¹ = 1 := by grind
    rw [Rat.div_def, this, Rat.mul_one]
  · simp only [hx, ↓reduceIte]
    refine ⟨mant, 10 ^ (-(dp - (nd : Int))).toNat, hm, Nat.pow_pos (by decide), rfl, ?_⟩
    obtain ⟨n, hn⟩ : ∃ n : Nat, dp - (nd : Int) = -(n : Int) := ⟨(-(dp - nd)).toNat, by omega⟩
    rw [hn, Int.neg_neg, Int.toNat_natCast]
    have h3 := p10_neg (-(n : Int))
    rw [Int.neg_neg, p10_nat] at h3
    have hne : ((10 ^ n : Nat) : Rat) ≠ 0 := by
      have := p10_ne (n : Int); rw [p10_nat] at this; exact this
    have h4 := Rat.mul_inv_cancel _ hne
    rw [Rat.div_def]
    generalize ((10 ^ n : Nat) : Rat) = T at h3 h4 hne
    generalize p10 (-(n : Int)) = Q at h3
    have : T⁻¹ = Q := by
      calc T⁻¹ = (T * Q) * T⁻¹ := by rw [h3]; grind
        _ = Q * (T * T⁻¹) := by grind
        _ = Q := by rw [h4]; grind
    rw [this]

/-- what the scan of a decimal text must deliver -/
structure ScanOK (B : Bytes) (c : Nat) (k dp : Int) : Prop where
  head : ∃ d0 t0, B = d0 :: t0 ∧ Num.isDig d0 = true ∧ (d0 = 48 → ∀ x y r, t0 = x :: y :: r → lower x ≠ 120)
  scan : ∃ st rest ex, scanMant false {} B = (st, rest) ∧ st.sawdigits = true ∧ st.us = false ∧
    scanExp false false rest = some (ex, false) ∧ (if st.sawdot then st.dp else (st.nd : Int)) + ex = dp ∧
    (st.mant : Rat) * p10 (dp - st.nd) = (c : Rat) * p10 k ∧ 0 < st.mant ∧
    (if st.sawdot then st.ndDot else st.nd) ≤ 800

/-- a scanned decimal inside the rounding interval of `m · 2^e` parses to the bits of that value -/
theorem pfDec_of_scan (neg : Bool) (B : Bytes) (c : Nat) (k dp : Int) (m : Nat) (e : Int) (h : ScanOK B c k dp)
    (hdp1 : dp ≤ 310) (hdp2 : -330 ≤ dp) (hm : 0 < m) (hm53 : m < 2 ^ 53) (he : -1074 ≤ e)
    (hnorm : -1074 < e → 2 ^ 52 ≤ m) (hI : InIv m e ((c : Rat) * p10 k))
    (hfin : (e + 1074).toNat * two52 + m < infBits) :
    parseFloat (signed neg B) = some (F64.ofMag neg ((e + 1074).toNat * two52 + m)) := by
  obtain ⟨d0, t0, rfl, hd0, hnohex⟩ := h.head
  obtain ⟨st, rest, ex, hscan, hsd, hus, hexp, hdp, hval, hmant, hint⟩ := h.scan
  rw [parseFloat_signed neg d0 t0 hd0 hnohex]
  unfold pfDec
  rw [hscan]
  simp only [hsd, Bool.not_true, Bool.false_eq_true, ↓reduceIte, hus, hexp, Bool.false_and]
  have hm0 : st.mant ≠ 0 := by omega
  simp only [hm0, ↓reduceIte, hdp]
  have hdb : decimalBits st.mant st.nd (if st.sawdot then st.ndDot else st.nd) dp = decBits st.mant st.nd dp := by
    unfold decimalBits
    have : (if st.sawdot then st.ndDot else st.nd) ≤ decimalCap := hint
    simp only [this, ↓reduceIte]
  rw [hdb]
  obtain ⟨num, den, hnum, hden, hdec, hnd⟩ := decBits_val st.mant st.nd dp hmant hdp1 hdp2
  rw [hdec, roundRat_spec num den m e hnum hden hm hm53 he hnorm (by rw [hnd, hval]; exact hI)]
  have : ¬ ((e + 1074).toNat * two52 + m ≥ infBits) := by omega
  simp only [this, ↓reduceIte]


/-! ## the four layouts of `%v` -/

theorem allD_tail {d : UInt8} {t : Bytes} (h : AllD (d :: t)) : AllD t := fun x hx => h x (by simp [hx])

theorem scanExp_nil : scanExp false false [] = some (0, false) := rfl

/-- `d.ddde±XX` -/
theorem scanOK_E (c : Nat) (k dp : Int) (d : UInt8) (t : Bytes) (hD : natDigits c = d :: t) (hd : d ≠ 48)
    (hdp : dp = ((t.length + 1 : Nat) : Int) + k) (hb1 : -330 ≤ dp) (hb2 : dp ≤ 310) (hc : 0 < c) :
    ScanOK (fmtEShortest (d :: t) dp) c k dp := by
  have hall : AllD (d :: t) := hD ▸ allD_natDigits c
  have hval : dval 0 (d :: t) = c := hD ▸ dval_natDigits c
  have hexp := scanExp_fmtExp (dp - 1) false (by omega)
  unfold fmtEShortest
  simp only []
  refine ⟨⟨d, _, rfl, hall d (by simp), fun h => absurd h hd⟩, ?_⟩
  cases t with
  | nil =>
    refine ⟨{ mant := dval 0 [d], nd := 1, sawdigits := true }, 101 :: fmtExp (dp - 1), dp - 1, ?_, rfl, rfl, hexp, ?_, ?_, ?_, ?_⟩
    · simp only [List.isEmpty_nil, ↓reduceIte]
      rw [scan_run d [] {} _ hall hd rfl, scan_e]
      rfl
    · simp only [Bool.false_eq_true, ↓reduceIte]; omega
    · simp only [hval]
      congr 2
      simp at hdp; omega
    · rw [hval]; exact hc
    · simp
  | cons t1 t2 =>
    refine ⟨{ mant := dval 0 (d :: t1 :: t2), nd := (t1 :: t2).length + 1, dp := 1, ndDot := 1, sawdot := true,
              sawdigits := true }, 101 :: fmtExp (dp - 1), dp - 1, ?_, rfl, rfl, hexp, ?_, ?_, ?_, ?_⟩
    · have e : (d :: if (t1 :: t2).isEmpty = true then [] else 46 :: t1 :: t2) ++ 101 :: fmtExp (dp - 1) =
          d :: [] ++ (46 :: ((t1 :: t2) ++ 101 :: fmtExp (dp - 1))) := by simp
      rw [e, scan_run d [] {} _ (fun x hx => hall x (by simp at hx; simp [hx])) hd rfl, scan_dot _ _ rfl,
        scan_counted (t1 :: t2) _ _ (allD_tail hall) (by simp), scan_e]
      congr 1
      simp only [Scan.mk.injEq, and_true, true_and]
      refine ⟨?_, by simp; omega⟩
      simp [dval]
    · simp only [↓reduceIte]; omega
    · simp only [hval]
      congr 2
      simp at hdp ⊢; omega
    · rw [hval]; exact hc
    · simp


theorem allD_zeros (n : Nat) : AllD (zeros n) := by
  intro c hc; simp only [zeros, List.mem_replicate] at hc; rw [hc.2]; decide

/-- `0.000ddd`, `ddd000`, `ddd.ddd` -/
theorem scanOK_F (c : Nat) (k dp : Int) (d : UInt8) (t : Bytes) (hD : natDigits c = d :: t) (hd : d ≠ 48)
    (hdp : dp = ((t.length + 1 : Nat) : Int) + k) (hb2 : dp ≤ 310) (hc : 0 < c) :
    ScanOK (fmtFShortest (d :: t) dp) c k dp := by
  have hall : AllD (d :: t) := hD ▸ allD_natDigits c
  have hval : dval 0 (d :: t) = c := hD ▸ dval_natDigits c
  have hlen : (d :: t).length = t.length + 1 := rfl
  unfold fmtFShortest
  simp only [hlen]
  by_cases h0 : dp ≤ 0
  · -- 0.000ddd
    have hne : ¬ (t.length + 1 = 0) := by omega
    simp only [h0, hne, ↓reduceIte]
    refine ⟨⟨48, _, rfl, by decide, ?_⟩, ?_⟩
    · intro _ x y r hx
      have := (List.cons.inj hx).1
      rw [← this]
      decide
    · refine ⟨{ mant := dval 0 (d :: t), nd := t.length + 1, dp := -((-dp).toNat : Int), ndDot := 0, sawdot := true,
                sawdigits := true }, [], 0, ?_, rfl, rfl, scanExp_nil, ?_, ?_, ?_, ?_⟩
      · have e : (48 :: 46 :: (zeros (-dp).toNat ++ d :: t) : Bytes) =
            zeros 1 ++ (46 :: (zeros (-dp).toNat ++ (d :: t ++ []))) := by simp [zeros]
        rw [e, scan_zeros 1 {} _ rfl, scan_dot _ _ rfl, scan_zeros _ _ _ rfl, scan_run d t _ _ hall hd rfl, scan_nil]
        congr 1
        simp only [Scan.mk.injEq, and_true, true_and]
        simp
      · simp only [↓reduceIte]; omega
      · simp only [hval]
        congr 2
        simp at hdp ⊢; omega
      · rw [hval]; exact hc
      · simp
  · simp only [h0, ↓reduceIte]
    by_cases h1 : t.length + 1 ≤ dp.toNat
    · -- ddd000
      simp only [h1, ↓reduceIte]
      refine ⟨⟨d, _, rfl, hall d (by simp), fun h => absurd h hd⟩, ?_⟩
      refine ⟨{ mant := dval (dval 0 (d :: t)) (zeros (dp.toNat - (t.length + 1))), nd := dp.toNat, sawdigits := true },
        [], 0, ?_, rfl, rfl, scanExp_nil, ?_, ?_, ?_, ?_⟩
      · have e : d :: t ++ zeros (dp.toNat - (t.length + 1)) = d :: t ++ (zeros (dp.toNat - (t.length + 1)) ++ []) := by simp
        rw [e, scan_run d t {} _ hall hd rfl, scan_counted _ _ _ (allD_zeros _) (by simp), scan_nil]
        congr 1
        simp only [Scan.mk.injEq, and_true, true_and]
        refine ⟨by simp [zeros]; omega, ?_⟩
        simp
      · simp only [Bool.false_eq_true, ↓reduceIte]; omega
      · rw [hval, dval_zeros]
        have e1 : dp - ((dp.toNat : Nat) : Int) = 0 := by omega
        have e2 : k = ((dp.toNat - (t.length + 1) : Nat) : Int) := by omega
        rw [e1, p10_zero, e2, p10_nat]
        push_cast
        grind
      · rw [hval, dval_zeros]
        exact Nat.mul_pos hc (Nat.pow_pos (by decide))
      · simp only [Bool.false_eq_true, ↓reduceIte]; omega
    · -- ddd.ddd
      simp only [h1, ↓reduceIte]
      obtain ⟨p, hp⟩ : ∃ p : Nat, dp.toNat = p + 1 := ⟨dp.toNat - 1, by omega⟩
      rw [hp]
      have htake : (d :: t).take (p + 1) = d :: t.take p := rfl
      have hdrop : (d :: t).drop (p + 1) = t.drop p := rfl
      rw [htake, hdrop]
      refine ⟨⟨d, _, rfl, hall d (by simp), fun h => absurd h hd⟩, ?_⟩
      have hsplit : d :: t = (d :: t.take p) ++ t.drop p := by simp
      have hallT : AllD (d :: t.take p) := by
        intro x hx
        rcases List.mem_cons.mp hx with rfl | hx
        · exact hall x (by simp)
        · exact hall x (by simp [List.mem_of_mem_take hx])
      have hallD : AllD (t.drop p) := fun x hx => hall x (by simp [List.mem_of_mem_drop hx])
      refine ⟨{ mant := dval 0 (d :: t), nd := t.length + 1, dp := ((p + 1 : Nat) : Int), ndDot := p + 1, sawdot := true,
                sawdigits := true }, [], 0, ?_, rfl, rfl, scanExp_nil, ?_, ?_, ?_, ?_⟩
      · have e : d :: List.take p t ++ 46 :: List.drop p t = d :: List.take p t ++ (46 :: (List.drop p t ++ [])) := by simp
        rw [e, scan_run d _ {} _ hallT hd rfl, scan_dot _ _ rfl, scan_counted _ _ _ hallD (by simp), scan_nil]
        congr 1
        simp only [Scan.mk.injEq, and_true, true_and]
        have hl : (List.take p t).length = p := by
          rw [List.length_take]; omega
        refine ⟨?_, by simp [hl]; omega, by simp [hl], by simp [hl]⟩
        rw [← dval_append, ← hsplit]
      · simp only [↓reduceIte]; omega
      · simp only [hval]
        congr 2
        simp at hdp ⊢; omega
      · rw [hval]; exact hc
      · simp only [↓reduceIte]; omega


/-! ## the float64 side -/

theorem ofMag_self (f : F64) : F64.ofMag f.isNeg f.mag = f := by
  obtain ⟨bits⟩ := f
  have hb := UInt64.toNat_lt bits
  unfold F64.ofMag F64.ofBitsNat F64.isNeg F64.mag
  simp only []
  congr 1
  have h2 : two63 = 9223372036854775808 := rfl
  by_cases hn : two63 ≤ bits.toNat
  · simp only [hn, decide_true, ↓reduceIte]
    have : bits.toNat % two63 + two63 = bits.toNat := by rw [h2] at hn ⊢; omega
    rw [this, UInt64.ofNat_toNat]
  · simp only [hn, decide_false, Bool.false_eq_true, ↓reduceIte]
    have : bits.toNat % two63 = bits.toNat := by rw [h2] at hn ⊢; omega
    rw [this, UInt64.ofNat_toNat]

theorem mant_exp_facts (f : F64) (hfin : f.isFinite = true) (hnz : f.isZero = false) :
    0 < f.mant ∧ f.mant < 2 ^ 53 ∧ -1074 ≤ f.exp2 ∧ f.exp2 ≤ 971 ∧ (-1074 < f.exp2 → 2 ^ 52 ≤ f.mant) ∧
      f.mag = (f.exp2 + 1074).toNat * two52 + f.mant ∧ f.mag < infBits := by
  have h1 : f.mag < infBits := by simpa [F64.isFinite] using hfin
  have h0 : f.mag ≠ 0 := by simpa [F64.isZero] using hnz
  refine ⟨?_, ?_, ?_, ?_, ?_, ?_, h1⟩
  all_goals
    have h1' : f.mag < 9218868437227405312 := h1
    have hM : f.mant = if f.mag < 4503599627370496 then f.mag else f.mag % 4503599627370496 + 4503599627370496 := rfl
    have hE : f.exp2 = if f.mag < 4503599627370496 then -1074 else ((f.mag / 4503599627370496 : Nat) : Int) - 1075 := rfl
    have e52 : two52 = 4503599627370496 := rfl
    try rw [hM]
    try rw [hE]
    try rw [e52]
    generalize f.mag = g at *
    by_cases hs : g < 4503599627370496 <;> simp only [hs, ↓reduceIte]
  all_goals first
    | omega
    | (have : ((g / 4503599627370496 : Nat) : Int) - 1075 + 1074 = ((g / 4503599627370496 - 1 : Nat) : Int) := by omega
       rw [this, Int.toNat_natCast]
       omega)

theorem zero_cases (f : F64) (hz : f.isZero = true) : f.mag = 0 := by simpa [F64.isZero] using hz

/-- ROUND TRIP: `strconv.ParseFloat` reads the `%v` text of a finite float64 back as that float64 -/
theorem parseFloat_fmtG (f : F64) (hf : f.isFinite = true) : parseFloat (fmtG f) = some f := by
  unfold fmtG
  simp only [hf, Bool.not_true, Bool.false_eq_true, ↓reduceIte]
  unfold shortestOf
  by_cases hz : f.isZero = true
  · simp only [hz, ↓reduceIte]
    have hm := zero_cases f hz
    have hself := ofMag_self f
    rw [hm] at hself
    cases hneg : f.isNeg
    · rw [hneg] at hself
      have : parseFloat (signed false (fmtFShortest [] 0)) = some (F64.ofMag false 0) := by decide
      simpa [hself] using this
    · rw [hneg] at hself
      have : parseFloat (signed true (fmtFShortest [] 0)) = some (F64.ofMag true 0) := by decide
      simpa [hself] using this
  · have hz' : f.isZero = false := by simpa using hz
    simp only [hz', Bool.false_eq_true, ↓reduceIte]
    obtain ⟨hm0, hm53, he1, he2, hnorm, hmag, hfin⟩ := mant_exp_facts f hf hz'
    obtain ⟨c, k, hc, hsh, hI, hk⟩ := shortest_spec f.mant f.exp2 hm0 hm53 he1 he2
    rw [hsh]
    simp only []
    obtain ⟨d, t, hD, hd⟩ := natDigits_head c hc
    obtain ⟨hlen1, hlen2⟩ := natDigits_len c hc
    rw [hD] at hlen1 hlen2 ⊢
    have hLen : (d :: t).length = t.length + 1 := rfl
    rw [hLen] at hlen1 hlen2
    simp only [Nat.add_sub_cancel] at hlen2
    -- bounds on the decimal exponent
    have hw := hI.weak
    have hu := p2_pos (f.exp2 - 2)
    have hcR : (c : Rat) < p10 ((t.length + 1 : Nat) : Int) := by rw [p10_nat]; exact_mod_cast hlen1
    have hcL : p10 ((t.length : Nat) : Int) ≤ (c : Rat) := by rw [p10_nat]; exact_mod_cast hlen2
    have hup : ((t.length + 1 : Nat) : Int) + k ≤ 309 := by
      have h1 : (c : Rat) * p10 k < p2 1024 := by
        have h55 : ((4 * f.mant + 2 : Nat) : Rat) < ((2 ^ 55 : Nat) : Rat) := by
          have : 4 * f.mant + 2 < 2 ^ 55 := by omega
          exact_mod_cast this
        have h2 := Rat.mul_lt_mul_of_pos_right h55 hu
        have h3 : p2 (f.exp2 - 2 + (55 : Nat)) ≤ p2 1024 := p2_mono (by omega)
        rw [p2_shift] at h3
        grind
      have h2 : p2 1024 < p10 309 := lt2_10_sound 1024 309 (by decide +kernel)
      have h3 : p10 ((t.length : Nat) + k) ≤ (c : Rat) * p10 k := by
        rw [p10_add]
        exact Rat.mul_le_mul_of_nonneg_right hcL (Rat.le_of_lt (p10_pos k))
      have := p10_lt_of h3 (by grind : (c : Rat) * p10 k < p10 309)
      omega
    have hlow : -323 ≤ ((t.length + 1 : Nat) : Int) + k := by
      have h1 : p2 (-1075) ≤ (c : Rat) * p10 k := by
        have hl2 : ((2 : Nat) : Rat) ≤ ((lo4 f.mant f.exp2 : Nat) : Rat) := by
          have : 2 ≤ lo4 f.mant f.exp2 := by unfold lo4; split <;> omega
          exact_mod_cast this
        have h2 := Rat.mul_le_mul_of_nonneg_right hl2 (Rat.le_of_lt hu)
        have h3 : p2 (-1075) ≤ p2 (f.exp2 - 2 + (1 : Nat)) := p2_mono (by omega)
        rw [p2_shift] at h3
        grind
      have h2 : p10 (-324) ≤ p2 (-1075) := le10_2_sound (-324) (-1075) (by decide +kernel)
      have h3 : (c : Rat) * p10 k < p10 (((t.length + 1 : Nat) : Int) + k) := by
        rw [p10_add]
        exact Rat.mul_lt_mul_of_pos_right hcR (p10_pos k)
      have := p10_lt_of (Rat.le_trans h2 h1) h3
      omega
    have hres : F64.ofMag f.isNeg ((f.exp2 + 1074).toNat * two52 + f.mant) = f := by
      rw [← hmag]; exact ofMag_self f
    split
    · have := pfDec_of_scan f.isNeg _ c k _ f.mant f.exp2
        (scanOK_E c k (((t.length + 1 : Nat) : Int) + k) d t hD hd rfl (by omega) (by omega) hc) (by omega) (by omega)
        hm0 hm53 he1 hnorm hI (by rw [← hmag]; exact hfin)
      rw [hres] at this
      exact this
    · have := pfDec_of_scan f.isNeg _ c k _ f.mant f.exp2
        (scanOK_F c k (((t.length + 1 : Nat) : Int) + k) d t hD hd rfl (by omega) hc) (by omega) (by omega)
        hm0 hm53 he1 hnorm hI (by rw [← hmag]; exact hfin)
      rw [hres] at this
      exact this

end GoLucene.FloatRT

#print axioms GoLucene.FloatRT.parseFloat_fmtG
