import GoLucene.Proofs.LawsDefs
/-
  Laws, float parsing, part 1 (arithmetic): `roundRatBits` is correctly rounding.
    * `roundRatBits_eq` / `logQ_isLog`: a clean specification of `roundRatBits` (L = ⌊log2 (N/D)⌋, exponent
      `expOf L`, significand `rnd`, round half even);
    * `round_core`, `roundRat_correct`, `rr_correct`: a rational in the rounding interval of `f` rounds to `f.mag`;
    * `ofMag_mag`; `roundRatBits_bound` (no overflow below `2^j`).
  Part 2 (LawsFloatParse2.lean) has the scanner side: `parseFloat_fmtInt`, `parseFloat_fmtF`, `parseFloat_fmtE`.
-/
set_option linter.unusedSimpArgs false
set_option linter.unusedVariables false
namespace GoLucene
namespace Laws
open Num JsonRoundTrip

/-- numerator / denominator of `2^t` for an integer `t` -/
def pn (t : Int) : Nat := 2 ^ t.toNat
def pd (t : Int) : Nat := 2 ^ (-t).toNat

theorem pn_pos (t : Int) : 0 < pn t := Nat.pow_pos (by decide)
theorem pd_pos (t : Int) : 0 < pd t := Nat.pow_pos (by decide)

theorem pn_pd (t : Int) (K : Nat) (h : 0 ≤ t + K) : pn t * 2 ^ K = pd t * 2 ^ (t + K).toNat := by
  unfold pn pd
  by_cases ht : 0 ≤ t
  · have e1 : (-t).toNat = 0 := by omega
    have e2 : (t + K).toNat = t.toNat + K := by omega
    rw [e1, e2, Nat.pow_add, Nat.pow_zero, Nat.one_mul]
  · have e1 : t.toNat = 0 := by omega
    have e2 : K = (-t).toNat + (t + K).toNat := by omega
    rw [e1, Nat.pow_zero, Nat.one_mul, ← Nat.pow_add, ← e2]

theorem shift_le (A B : Nat) (t : Int) (K : Nat) (h : 0 ≤ t + K) :
    A * pn t ≤ B * pd t ↔ A * 2 ^ (t + K).toNat ≤ B * 2 ^ K := by
  have hp := pn_pd t K h
  have h1 : 0 < pd t := pd_pos t
  have h2 : 0 < 2 ^ K := Nat.pow_pos (by decide)
  rw [← Nat.mul_le_mul_right_iff (n := A * pn t) h2, ← Nat.mul_le_mul_right_iff (n := A * 2 ^ (t + K).toNat) h1]
  have e1 : A * pn t * 2 ^ K = A * 2 ^ (t + K).toNat * pd t := by
    rw [Nat.mul_assoc, hp]; ac_rfl
  have e2 : B * pd t * 2 ^ K = B * 2 ^ K * pd t := by ac_rfl
  rw [e1, e2]

theorem shift_le' (A B : Nat) (t : Int) (K : Nat) (h : 0 ≤ t + K) :
    B * pd t ≤ A * pn t ↔ B * 2 ^ K ≤ A * 2 ^ (t + K).toNat := by
  have hp := pn_pd t K h
  have h1 : 0 < pd t := pd_pos t
  have h2 : 0 < 2 ^ K := Nat.pow_pos (by decide)
  rw [← Nat.mul_le_mul_right_iff (m := A * pn t) h2, ← Nat.mul_le_mul_right_iff (m := A * 2 ^ (t + K).toNat) h1]
  have e1 : A * pn t * 2 ^ K = A * 2 ^ (t + K).toNat * pd t := by
    rw [Nat.mul_assoc, hp]; ac_rfl
  have e2 : B * pd t * 2 ^ K = B * 2 ^ K * pd t := by ac_rfl
  rw [e1, e2]

theorem shift_lt (A B : Nat) (t : Int) (K : Nat) (h : 0 ≤ t + K) :
    B * pd t < A * pn t ↔ B * 2 ^ K < A * 2 ^ (t + K).toNat := by
  have := shift_le A B t K h
  rw [← Nat.not_le, ← Nat.not_le, this]

theorem shift_lt' (A B : Nat) (t : Int) (K : Nat) (h : 0 ≤ t + K) :
    A * pn t < B * pd t ↔ A * 2 ^ (t + K).toNat < B * 2 ^ K := by
  have := shift_le' A B t K h
  rw [← Nat.not_le, ← Nat.not_le, this]

/-! ## round half even of a quotient -/

def rnd (n d : Nat) : Nat :=
  if d < 2 * (n % d) ∨ (2 * (n % d) = d ∧ (n / d) % 2 = 1) then n / d + 1 else n / d

theorem rnd_scale (n d c : Nat) (hc : 0 < c) : rnd (n * c) (d * c) = rnd n d := by
  unfold rnd
  rw [Nat.mul_div_mul_right n d hc, Nat.mul_mod_mul_right]
  have e : 2 * (n % d * c) = 2 * (n % d) * c := by ac_rfl
  have h1 : (d * c < 2 * (n % d * c)) ↔ d < 2 * (n % d) := by rw [e]; exact Nat.mul_lt_mul_right hc
  have h2 : (2 * (n % d * c) = d * c) ↔ 2 * (n % d) = d := by rw [e]; exact Nat.mul_right_cancel_iff hc
  simp only [h1, h2]

theorem rnd_eq (n d m : Nat) (hd : 0 < d) (hm : 0 < m)
    (h : if m % 2 = 0 then (2 * m - 1) * d ≤ 2 * n ∧ 2 * n ≤ (2 * m + 1) * d
         else (2 * m - 1) * d < 2 * n ∧ 2 * n < (2 * m + 1) * d) : rnd n d = m := by
  have e1 : (2 * m - 1) * d = 2 * (m * d) - d := by rw [Nat.sub_mul, Nat.mul_assoc, Nat.one_mul]
  have e2 : (2 * m + 1) * d = 2 * (m * d) + d := by rw [Nat.add_mul, Nat.mul_assoc, Nat.one_mul]
  rw [e1, e2] at h
  have hdm := Nat.div_add_mod n d
  have hr := Nat.mod_lt n hd
  have hX : d ≤ m * d := Nat.le_mul_of_pos_left d hm
  unfold rnd
  generalize hq : n / d = q at *
  generalize hrr : n % d = r at *
  have hqm : q ≤ m := by
    false_or_by_contra; rename_i hc
    have h3 : d * (m + 1) ≤ d * q := Nat.mul_le_mul_left d (by omega)
    rw [Nat.mul_add, Nat.mul_one, Nat.mul_comm d m] at h3
    generalize m * d = X at *
    generalize d * q = Y at *
    split at h <;> omega
  have hmq : m ≤ q + 1 := by
    false_or_by_contra; rename_i hc
    have h3 : d * (q + 2) ≤ d * m := Nat.mul_le_mul_left d (by omega)
    rw [Nat.mul_add, Nat.mul_comm d m] at h3
    generalize m * d = X at *
    generalize d * q = Y at *
    split at h <;> omega
  by_cases hc : q = m
  · subst hc
    rw [Nat.mul_comm d q] at hdm
    generalize q * d = X at *
    split at h
    · have : ¬ (d < 2 * r ∨ 2 * r = d ∧ q % 2 = 1) := by omega
      rw [if_neg this]
    · have : ¬ (d < 2 * r ∨ 2 * r = d ∧ q % 2 = 1) := by omega
      rw [if_neg this]
  · have hc' : m = q + 1 := by omega
    subst hc'
    rw [Nat.add_mul, Nat.one_mul, Nat.mul_comm q d] at h
    generalize d * q = Y at *
    split at h
    · have : (d < 2 * r ∨ 2 * r = d ∧ q % 2 = 1) := by omega
      rw [if_pos this]
    · have : (d < 2 * r ∨ 2 * r = d ∧ q % 2 = 1) := by omega
      rw [if_pos this]

/-! ## a clean specification of `roundRatBits` -/

/-- `L = ⌊log2 (N / D)⌋` -/
def IsLog (L : Int) (N D : Nat) : Prop := D * pn L ≤ N * pd L ∧ N * pd (L + 1) < D * pn (L + 1)

/-- the `L` that `roundRatBits` computes -/
def logQ (N D : Nat) : Int :=
  let d : Int := (Nat.log2 N : Int) - (Nat.log2 D : Int)
  let ge : Bool := if d ≥ 0 then decide (D <<< d.toNat ≤ N) else decide (D ≤ N <<< (-d).toNat)
  if ge then d else d - 1

/-- the binary exponent `roundRatBits` rounds at -/
def expOf (L : Int) : Int := if L - 52 < -1074 then -1074 else L - 52

theorem nshift (N : Nat) (e : Int) : (if e ≥ 0 then N else N <<< (-e).toNat) = N * pd e := by
  unfold pd
  by_cases h : e ≥ 0
  · have : (-e).toNat = 0 := by omega
    rw [if_pos h, this, Nat.pow_zero, Nat.mul_one]
  · rw [if_neg h, Nat.shiftLeft_eq]

theorem dshift (D : Nat) (e : Int) : (if e ≥ 0 then D <<< e.toNat else D) = D * pn e := by
  unfold pn
  by_cases h : e ≥ 0
  · rw [if_pos h, Nat.shiftLeft_eq]
  · have : e.toNat = 0 := by omega
    rw [if_neg h, this, Nat.pow_zero, Nat.mul_one]

theorem roundRatBits_eq (N D : Nat) (hN : 0 < N) (hD : 0 < D) :
    roundRatBits N D = ((expOf (logQ N D)) + 1074).toNat * two52
      + rnd (N * pd (expOf (logQ N D))) (D * pn (expOf (logQ N D))) := by
  have h0 : ¬ (N = 0 ∨ D = 0) := by omega
  unfold roundRatBits
  rw [if_neg h0]
  simp only [nshift, dshift]
  rfl

theorem logQ_isLog (N D : Nat) (hN : 0 < N) (hD : 0 < D) : IsLog (logQ N D) N D := by
  have a1 : 2 ^ N.log2 ≤ N := Nat.log2_self_le (by omega)
  have a2 : N < 2 ^ (N.log2 + 1) := Nat.lt_log2_self
  have b1 : 2 ^ D.log2 ≤ D := Nat.log2_self_le (by omega)
  have b2 : D < 2 ^ (D.log2 + 1) := Nat.lt_log2_self
  unfold logQ
  generalize hd : (Nat.log2 N : Int) - (Nat.log2 D : Int) = d
  have hge : (if d ≥ 0 then decide (D <<< d.toNat ≤ N) else decide (D ≤ N <<< (-d).toNat)) = true ↔
      D * pn d ≤ N * pd d := by
    unfold pn pd
    by_cases h : d ≥ 0
    · have : (-d).toNat = 0 := by omega
      rw [if_pos h, this, Nat.pow_zero, Nat.mul_one, Nat.shiftLeft_eq, decide_eq_true_eq]
    · have : d.toNat = 0 := by omega
      rw [if_neg h, this, Nat.pow_zero, Nat.mul_one, Nat.shiftLeft_eq, decide_eq_true_eq]
  simp only []
  by_cases hg : (if d ≥ 0 then decide (D <<< d.toNat ≤ N) else decide (D ≤ N <<< (-d).toNat)) = true
  · rw [if_pos hg]
    refine ⟨hge.mp hg, ?_⟩
    rw [shift_lt D N (d + 1) D.log2 (by omega)]
    have e : (d + 1 + (D.log2 : Int)).toNat = N.log2 + 1 := by omega
    rw [e]
    calc N * 2 ^ D.log2 < 2 ^ (N.log2 + 1) * 2 ^ D.log2 := Nat.mul_lt_mul_of_lt_of_le a2 (Nat.le_refl _) (Nat.pow_pos (by decide))
      _ ≤ 2 ^ (N.log2 + 1) * D := Nat.mul_le_mul_left _ b1
      _ = D * 2 ^ (N.log2 + 1) := Nat.mul_comm _ _
  · rw [if_neg hg]
    have e0 : d - 1 + 1 = d := by omega
    rw [IsLog, e0]
    refine ⟨?_, ?_⟩
    · rw [shift_le D N (d - 1) (D.log2 + 1) (by omega)]
      have e : (d - 1 + ((D.log2 + 1 : Nat) : Int)).toNat = N.log2 := by omega
      rw [e]
      calc D * 2 ^ N.log2 ≤ 2 ^ (D.log2 + 1) * 2 ^ N.log2 := Nat.mul_le_mul_right _ (Nat.le_of_lt b2)
        _ ≤ 2 ^ (D.log2 + 1) * N := Nat.mul_le_mul_left _ a1
        _ = N * 2 ^ (D.log2 + 1) := Nat.mul_comm _ _
    · rw [hge] at hg
      omega

theorem le_mono (N D : Nat) (s t : Int) (hst : s ≤ t) (h : D * pn t ≤ N * pd t) : D * pn s ≤ N * pd s := by
  rw [shift_le D N s (-s).toNat (by omega)]
  rw [shift_le D N t (-s).toNat (by omega)] at h
  refine Nat.le_trans (Nat.mul_le_mul_left D ?_) h
  exact Nat.pow_le_pow_right (by decide) (by omega)

theorem isLog_ge (L t : Int) (N D : Nat) (h : IsLog L N D) (ht : D * pn t ≤ N * pd t) : t ≤ L := by
  false_or_by_contra; rename_i hc
  have := le_mono N D (L + 1) t (by omega) ht
  have := h.2
  omega

theorem isLog_lt (L t : Int) (N D : Nat) (h : IsLog L N D) (ht : N * pd t < D * pn t) : L < t := by
  false_or_by_contra; rename_i hc
  have := le_mono N D t L (by omega) h.1
  omega

/-! ## the rounding interval in normal form -/

theorem sc_eq (e2 : Int) : (if e2 ≥ 0 then 2 ^ e2.toNat else 1) = pn e2 := by
  unfold pn
  by_cases h : e2 ≥ 0
  · rw [if_pos h]
  · have : e2.toNat = 0 := by omega
    rw [if_neg h, this, Nat.pow_zero]

theorem dn_eq (e2 : Int) : (if e2 ≥ 0 then 1 else 2 ^ (-e2).toNat) = pd e2 := by
  unfold pd
  by_cases h : e2 ≥ 0
  · have : (-e2).toNat = 0 := by omega
    rw [if_pos h, this, Nat.pow_zero]
  · rw [if_neg h]

/-- 1074, kept opaque to the simplifier -/
@[irreducible] def K0 : Nat := 1074
theorem K0_eq : (K0 : Int) = 1074 := by unfold K0; rfl

theorem powK2 : (2 : Nat) ^ (K0 + 2) = 4 * 2 ^ K0 := by
  rw [Nat.pow_add]; omega

/-- `inIvl` with everything scaled by `2^1076`: `P = D·2^(e+1074)`, `Q = N·2^1074` -/
def inIvlN (m : Nat) (bd : Prop) [Decidable bd] (P Q : Nat) : Prop :=
  if m % 2 = 0 then (if bd then 4 * (m * P) - P else 4 * (m * P) - 2 * P) ≤ 4 * Q ∧ 4 * Q ≤ 4 * (m * P) + 2 * P
  else (if bd then 4 * (m * P) - P else 4 * (m * P) - 2 * P) < 4 * Q ∧ 4 * Q < 4 * (m * P) + 2 * P

theorem inIvl_norm (m : Nat) (e : Int) (N D : Nat) (he : -1074 ≤ e) :
    inIvl m e N D ↔ inIvlN m (m = two52 ∧ e ≠ -1074) (D * 2 ^ (e + 1074).toNat) (N * 2 ^ K0) := by
  unfold inIvl inIvlN
  simp only [sc_eq, dn_eq]
  have hk := K0_eq
  have hK : 0 ≤ e - 2 + ((K0 + 2 : Nat) : Int) := by omega
  have eE : (e - 2 + ((K0 + 2 : Nat) : Int)).toNat = (e + 1074).toNat := by omega
  generalize hP : D * 2 ^ (e + 1074).toNat = P
  have eQ : N * 2 ^ (K0 + 2) = 4 * (N * 2 ^ K0) := by rw [powK2, Nat.mul_left_comm]
  have key : ∀ A : Nat, A * pn (e - 2) * D = A * D * pn (e - 2) := by intro A; ac_rfl
  have keyP : ∀ A : Nat, A * D * 2 ^ (e + 1074).toNat = A * P := by intro A; rw [← hP]; ac_rfl
  rw [key, key, shift_le _ N (e - 2) (K0 + 2) hK, shift_le' _ N (e - 2) (K0 + 2) hK, shift_lt _ N (e - 2) (K0 + 2) hK,
    shift_lt' _ N (e - 2) (K0 + 2) hK, eE, eQ, keyP, keyP]
  have l1 : (4 * m - 1) * P = 4 * (m * P) - P := by rw [Nat.sub_mul, Nat.mul_assoc, Nat.one_mul]
  have l2 : (4 * m - 2) * P = 4 * (m * P) - 2 * P := by rw [Nat.sub_mul, Nat.mul_assoc]
  have l3 : (4 * m + 2) * P = 4 * (m * P) + 2 * P := by rw [Nat.add_mul, Nat.mul_assoc]
  rw [l3]
  by_cases hb : m = two52 ∧ e ≠ -1074
  · simp only [if_pos hb, l1]
  · simp only [if_neg hb, l2]

theorem rnd_eq' (n d m : Nat) (hd : 0 < d) (hm : 0 < m)
    (h : if m % 2 = 0 then 2 * (m * d) - d ≤ 2 * n ∧ 2 * n ≤ 2 * (m * d) + d
         else 2 * (m * d) - d < 2 * n ∧ 2 * n < 2 * (m * d) + d) : rnd n d = m := by
  apply rnd_eq n d m hd hm
  have e1 : (2 * m - 1) * d = 2 * (m * d) - d := by rw [Nat.sub_mul, Nat.mul_assoc, Nat.one_mul]
  have e2 : (2 * m + 1) * d = 2 * (m * d) + d := by rw [Nat.add_mul, Nat.mul_assoc, Nat.one_mul]
  rw [e1, e2]; exact h

theorem rnd_shift (N D : Nat) (t : Int) (K : Nat) (h : 0 ≤ t + K) :
    rnd (N * pd t) (D * pn t) = rnd (N * 2 ^ K) (D * 2 ^ (t + K).toNat) := by
  rw [← rnd_scale (N * pd t) (D * pn t) (2 ^ K) (Nat.pow_pos (by decide)),
    ← rnd_scale (N * 2 ^ K) (D * 2 ^ (t + K).toNat) (pd t) (pd_pos t)]
  have e1 : D * pn t * 2 ^ K = D * 2 ^ (t + K).toNat * pd t := by
    rw [Nat.mul_assoc, pn_pd t K h]; ac_rfl
  have e2 : N * pd t * 2 ^ K = N * 2 ^ K * pd t := by ac_rfl
  rw [e1, e2]

theorem thr_le (N D : Nat) (e : Int) (j : Nat) (he : -1074 ≤ e) :
    D * pn (e + j) ≤ N * pd (e + j) ↔ D * 2 ^ (e + 1074).toNat * 2 ^ j ≤ N * 2 ^ K0 := by
  have hk := K0_eq
  rw [shift_le D N (e + j) K0 (by omega)]
  have : (e + j + (K0 : Int)).toNat = (e + 1074).toNat + j := by omega
  rw [this, Nat.pow_add, Nat.mul_assoc]

theorem thr_lt (N D : Nat) (e : Int) (j : Nat) (he : -1074 ≤ e) :
    N * pd (e + j) < D * pn (e + j) ↔ N * 2 ^ K0 < D * 2 ^ (e + 1074).toNat * 2 ^ j := by
  rw [← Nat.not_le, ← Nat.not_le, thr_le N D e j he]

theorem inIvlN_weak (m : Nat) (bd : Prop) [Decidable bd] (P Q : Nat) (h : inIvlN m bd P Q) :
    if m % 2 = 0 then 4 * (m * P) - 2 * P ≤ 4 * Q ∧ 4 * Q ≤ 4 * (m * P) + 2 * P
    else 4 * (m * P) - 2 * P < 4 * Q ∧ 4 * Q < 4 * (m * P) + 2 * P := by
  unfold inIvlN at h
  by_cases hb : bd
  · simp only [if_pos hb] at h
    generalize m * P = X at *
    split at h
    · rw [if_pos (by assumption)]; omega
    · rw [if_neg (by assumption)]; omega
  · simp only [if_neg hb] at h
    exact h

theorem inIvlN_bd (m : Nat) (bd : Prop) [Decidable bd] (P Q : Nat) (hb : bd) (h : inIvlN m bd P Q) :
    if m % 2 = 0 then 4 * (m * P) - P ≤ 4 * Q ∧ 4 * Q ≤ 4 * (m * P) + 2 * P
    else 4 * (m * P) - P < 4 * Q ∧ 4 * Q < 4 * (m * P) + 2 * P := by
  unfold inIvlN at h
  simp only [if_pos hb] at h
  exact h

/-- the arithmetic core: `roundRatBits` rounds to nearest, ties to even -/
theorem round_core (m : Nat) (e : Int) (N D : Nat) (hD : 0 < D) (hm : 0 < m) (hm2 : m < 2 * two52)
    (he : -1074 ≤ e) (hsub : m < two52 → e = -1074) (h : inIvl m e N D) :
    roundRatBits N D = (e + 1074).toNat * two52 + m := by
  rw [inIvl_norm m e N D he] at h
  have hw := inIvlN_weak _ _ _ _ h
  have hbd := fun hb => inIvlN_bd _ _ _ _ hb h
  clear h
  simp only [two52] at *
  have hk := K0_eq
  have t51 := thr_le N D e 51 he
  have t52 := thr_lt N D e 52 he
  have t52' := thr_le N D e 52 he
  have t53 := thr_lt N D e 53 he
  have rs0 := rnd_shift N D e K0 (by omega)
  have rs1 := rnd_shift N D (e - 1) (K0 + 1) (by omega)
  have eE0 : (e + (K0 : Int)).toNat = (e + 1074).toNat := by omega
  have eE1 : (e - 1 + ((K0 + 1 : Nat) : Int)).toNat = (e + 1074).toNat := by omega
  have eQ1 : N * 2 ^ (K0 + 1) = 2 * (N * 2 ^ K0) := by rw [Nat.pow_succ]; ac_rfl
  rw [eE0] at rs0
  rw [eE1, eQ1] at rs1
  have hP : 0 < D * 2 ^ (e + 1074).toNat := Nat.mul_pos hD (Nat.pow_pos (by decide))
  generalize D * 2 ^ (e + 1074).toNat = P at *
  have hQN : 0 < N * 2 ^ K0 → 0 < N := by
    intro hq
    false_or_by_contra; rename_i hc
    have : N = 0 := by omega
    rw [this, Nat.zero_mul] at hq
    omega
  generalize N * 2 ^ K0 = Q at *
  have hX : 1 * P ≤ m * P := Nat.mul_le_mul_right P hm
  have hX2 : m * P ≤ 9007199254740991 * P := Nat.mul_le_mul_right P (by omega)
  have hXs : m < 4503599627370496 → m * P ≤ 4503599627370495 * P := fun hh => Nat.mul_le_mul_right P (by omega)
  have hXn : 4503599627370496 ≤ m → 4503599627370496 * P ≤ m * P := fun hh => Nat.mul_le_mul_right P hh
  have hXn' : 4503599627370497 ≤ m → 4503599627370497 * P ≤ m * P := fun hh => Nat.mul_le_mul_right P hh
  have hXe : m = 4503599627370496 → m * P = 4503599627370496 * P := fun hh => by rw [hh]
  have hN : 0 < N := by
    apply hQN
    generalize m * P = X at *
    split at hw <;> omega
  have hL := logQ_isLog N D hN hD
  rw [roundRatBits_eq N D hN hD]
  generalize logQ N D = L at *
  -- the rounding at exponent e
  have hr0 : rnd Q P = m := by
    apply rnd_eq' Q P m hP hm
    generalize m * P = X at *
    split at hw
    · rw [if_pos (by assumption)]; omega
    · rw [if_neg (by assumption)]; omega
  have hlt53 : L < e + 53 := by
    apply isLog_lt L _ N D hL
    rw [show (e + 53 : Int) = e + ((53 : Nat) : Int) from rfl, t53]
    generalize m * P = X at *
    split at hw <;> omega
  -- the three cases where the rounding happens at exponent e
  have main : expOf L = e → (expOf L + 1074).toNat * 4503599627370496 + rnd (N * pd (expOf L)) (D * pn (expOf L)) =
      (e + 1074).toNat * 4503599627370496 + m := by
    intro hE
    rw [hE, rs0, hr0]
  by_cases hs : m < 4503599627370496
  · have he0 := hsub hs
    apply main
    have : L < e + 52 := by
      apply isLog_lt L _ N D hL
      rw [show (e + 52 : Int) = e + ((52 : Nat) : Int) from rfl, t52]
      have := hXs hs
      generalize m * P = X at *
      split at hw <;> omega
    unfold expOf; split <;> omega
  by_cases hq : P * 2 ^ 52 ≤ Q
  · apply main
    have : e + 52 ≤ L := by
      apply isLog_ge L _ N D hL
      rw [show (e + 52 : Int) = e + ((52 : Nat) : Int) from rfl, t52']
      exact hq
    unfold expOf; split <;> omega
  have hlt52 : L < e + 52 := by
    apply isLog_lt L _ N D hL
    rw [show (e + 52 : Int) = e + ((52 : Nat) : Int) from rfl, t52]
    omega
  have hm52 : m = 4503599627370496 := by
    false_or_by_contra; rename_i hc
    have := hXn' (by omega)
    generalize m * P = X at *
    split at hw <;> omega
  have hXeq := hXe hm52
  have hge51 : e + 51 ≤ L := by
    apply isLog_ge L _ N D hL
    rw [show (e + 51 : Int) = e + ((51 : Nat) : Int) from rfl, t51]
    generalize m * P = X at *
    split at hw <;> omega
  by_cases he' : e = -1074
  · apply main
    unfold expOf; split <;> omega
  · have hE : expOf L = e - 1 := by unfold expOf; split <;> omega
    have hb := hbd ⟨hm52, he'⟩
    have hr1 : rnd (2 * Q) P = 9007199254740992 := by
      apply rnd_eq' (2 * Q) P _ hP (by decide)
      rw [if_pos (by decide)]
      generalize m * P = X at *
      split at hb <;> omega
    rw [hE, rs1, hr1, hm52]
    simp only [two52]
    omega

/-! ## (C) `roundRatBits` is correctly rounding -/

theorem mag_eq (f : F64) (hfin : f.isFinite = true) (hnz : f.isZero = false) :
    0 < f.mant ∧ f.mant < 2 * two52 ∧ -1074 ≤ f.exp2 ∧ (f.mant < two52 → f.exp2 = -1074) ∧
      (f.exp2 + 1074).toNat * two52 + f.mant = f.mag := by
  simp only [F64.isFinite, decide_eq_true_eq, infBits] at hfin
  simp only [F64.isZero, beq_eq_false_iff_ne, ne_eq] at hnz
  unfold F64.mant F64.exp2
  generalize f.mag = g at *
  by_cases h : g < two52
  · simp only [if_pos h]
    simp only [two52] at *
    refine ⟨by omega, by omega, by omega, fun _ => trivial, by omega⟩
  · simp only [if_neg h]
    simp only [two52] at *
    refine ⟨by omega, by omega, by omega, by omega, by omega⟩

theorem roundRat_correct (f : F64) (hfin : f.isFinite = true) (hnz : f.isZero = false) (N D : Nat) (hD : 0 < D)
    (h : inIvl f.mant f.exp2 N D) : roundRatBits N D = f.mag := by
  obtain ⟨h1, h2, h3, h4, h5⟩ := mag_eq f hfin hnz
  rw [round_core f.mant f.exp2 N D hD h1 h2 h3 h4 h, h5]

theorem rr_correct (f : F64) (hfin : f.isFinite = true) (hnz : f.isZero = false) (c : Nat) (k : Int)
    (h : decInIvl f.mant f.exp2 c k) : rr c k = f.mag := by
  unfold rr
  unfold decInIvl at h
  by_cases hk : k ≥ 0
  · rw [if_pos hk] at h ⊢
    exact roundRat_correct f hfin hnz _ 1 (by decide) h
  · rw [if_neg hk] at h ⊢
    exact roundRat_correct f hfin hnz _ _ (Nat.pow_pos (by decide)) h

theorem ofMag_mag (f : F64) : F64.ofMag f.isNeg f.mag = f := by
  obtain ⟨bits⟩ := f
  have hlt := bits.toNat_lt
  unfold F64.ofMag F64.ofBitsNat F64.isNeg F64.mag
  simp only [two63]
  congr 1
  by_cases h : 9223372036854775808 ≤ bits.toNat
  · have : bits.toNat % 9223372036854775808 + 9223372036854775808 = bits.toNat := by omega
    simp only [h, decide_true, if_true, this, UInt64.ofNat_toNat]
  · have : bits.toNat % 9223372036854775808 = bits.toNat := by omega
    simp only [h, decide_false, Bool.false_eq_true, if_false, this, UInt64.ofNat_toNat]

/-! ## a bound on `roundRatBits` (no overflow for small quotients) -/

theorem rnd_le_succ (n d : Nat) : rnd n d ≤ n / d + 1 := by
  unfold rnd; split <;> omega

theorem rnd_le (L : Int) (N D : Nat) (hL : IsLog L N D) (e : Int) (he : L - 52 ≤ e) :
    rnd (N * pd e) (D * pn e) ≤ 2 ^ 53 := by
  have h1 : N * pd (e + 53) < D * pn (e + 53) := by
    false_or_by_contra; rename_i hc
    have := le_mono N D (L + 1) (e + 53) (by omega) (by omega)
    have := hL.2
    omega
  rw [shift_lt D N (e + 53) (-e).toNat (by omega)] at h1
  have e1 : (e + 53 + ((-e).toNat : Int)).toNat = (e + ((-e).toNat : Int)).toNat + 53 := by omega
  rw [e1, Nat.pow_add] at h1
  rw [rnd_shift N D e (-e).toNat (by omega)]
  generalize (e + ((-e).toNat : Int)).toNat = a at *
  generalize N * 2 ^ (-e).toNat = n at *
  have hd : 0 < D * 2 ^ a := by
    false_or_by_contra; rename_i hc
    have : D * 2 ^ a = 0 := by omega
    rw [← Nat.mul_assoc, this, Nat.zero_mul] at h1
    omega
  rw [← Nat.mul_assoc] at h1
  generalize D * 2 ^ a = d at *
  have := rnd_le_succ n d
  have : n / d < 2 ^ 53 := (Nat.div_lt_iff_lt_mul hd).mpr (by rw [Nat.mul_comm]; exact h1)
  omega

theorem roundRatBits_bound (N D j : Nat) (hN : 0 < N) (hD : 0 < D) (h : N < D * 2 ^ j) (hj : 53 ≤ j) :
    roundRatBits N D ≤ (j + 1023) * two52 := by
  have hL := logQ_isLog N D hN hD
  rw [roundRatBits_eq N D hN hD]
  generalize logQ N D = L at *
  have hlt : L < (j : Int) := by
    apply isLog_lt L _ N D hL
    have e1 : pd (j : Int) = 1 := by unfold pd; rw [show (-(j : Int)).toNat = 0 by omega, Nat.pow_zero]
    have e2 : pn (j : Int) = 2 ^ j := by unfold pn; rw [Int.toNat_natCast]
    rw [e1, e2, Nat.mul_one]; exact h
  have hE1 : L - 52 ≤ expOf L := by unfold expOf; split <;> omega
  have hE2 : expOf L ≤ (j : Int) - 53 := by unfold expOf; split <;> omega
  have h3 : (expOf L + 1074).toNat ≤ j + 1021 := by omega
  have h4 := Nat.mul_le_mul_right two52 h3
  have h5 := rnd_le L N D hL (expOf L) hE1
  have h6 : (2 : Nat) ^ 53 = 2 * two52 := by decide
  rw [h6] at h5
  calc (expOf L + 1074).toNat * two52 + rnd (N * pd (expOf L)) (D * pn (expOf L))
      ≤ (j + 1021) * two52 + 2 * two52 := Nat.add_le_add h4 h5
    _ = (j + 1023) * two52 := by rw [← Nat.add_mul]

#print axioms roundRat_correct
#print axioms rr_correct
#print axioms ofMag_mag

end Laws
end GoLucene
