import GoLucene.Model.JsonCodec
/-
  C13 for the encoder: `Expression.MarshalJSON` (and json.Marshal of every operand value) never panics, on ANY tree —
  no shape hypothesis at all.  Nothing of the JSON text layer / number formatting is unfolded.
-/
namespace GoLucene

open Json

/-- the optional `"right"` member -/
def rightPartOf (r : Node) : Out Bytes :=
  match r with
  | .nil => .ok []
  | r' =>
    (match marshalNode r' with
     | .ok rr => .ok (b "," ++ jsonKey "right" ++ rr)
     | .err => .err
     | .panic => .panic)

/-- the optional `"power"` member -/
def powerOf (p : F64) : Out Bytes :=
  if F64.eq p F64.one then .ok []
  else match fmtJSON p with
    | some t => .ok (b "," ++ jsonKey "power" ++ t)
    | none => .err

/-- the defining equation of `marshalExpr` (Lean 4.33 fails to generate the equation lemma for this definition, and the
    kernel can only check the equation after a case split on `r`, because of the catch-all `| r' =>` alternative whose
    recursive call is compiled through the `below` argument) -/
theorem marshalExpr_eq (l : Node) (o : Op) (r : Node) (p : F64) (d : Int) :
    marshalExpr (.mk l o r p d) =
      if o = .literal || o = .wild || o = .regexp then marshalNode l
      else
        match marshalNode l with
        | .err => .err
        | .panic => .panic
        | .ok leftRaw =>
          match rightPartOf r with
          | .err => .err
          | .panic => .panic
          | .ok rp =>
            match powerOf p with
            | .err => .err
            | .panic => .panic
            | .ok pw =>
              .ok (b "{" ++ jsonKey "left" ++ leftRaw ++ b "," ++ jsonKey "operator" ++ encodeString o.toStr ++ rp ++
                   (if d != 1 then b "," ++ jsonKey "distance" ++ fmtInt d else []) ++ pw ++ b "}") := by
  cases r <;> rfl

theorem powerOf_no_panic (p : F64) : powerOf p ≠ .panic := by
  unfold powerOf
  split
  · simp
  · split <;> simp

theorem rightPartOf_no_panic (r : Node) (h : marshalNode r ≠ .panic) : rightPartOf r ≠ .panic := by
  unfold rightPartOf
  split
  · simp
  · cases hr : marshalNode r <;> simp_all

mutual
theorem marshalNode_no_panic : ∀ n : Node, marshalNode n ≠ .panic
  | .nil => by simp [marshalNode]
  | .prim p => by
    cases p <;> simp only [marshalNode] <;> try simp
    split <;> simp
  | .expr e => by
    rw [marshalNode]; exact marshalExpr_no_panic e
  | .list es => by
    have h := marshalList_no_panic es
    rw [marshalNode]
    cases hl : marshalList es <;> simp_all
  | .bound mn mx incl => by
    have h1 := marshalNode_no_panic mn
    have h2 := marshalNode_no_panic mx
    rw [marshalNode]
    cases hl : marshalNode mn with
    | panic => exact absurd hl h1
    | err => simp
    | ok a =>
      cases hr : marshalNode mx with
      | panic => exact absurd hr h2
      | err => simp
      | ok c => simp
theorem marshalExpr_no_panic : ∀ e : Expr, marshalExpr e ≠ .panic
  | .mk l o r p d => by
    have h1 := marshalNode_no_panic l
    have h2 := marshalNode_no_panic r
    have h3 := rightPartOf_no_panic r h2
    have h4 := powerOf_no_panic p
    rw [marshalExpr_eq]
    split
    · exact h1
    · cases hl : marshalNode l with
      | panic => exact absurd hl h1
      | err => simp
      | ok a =>
        cases hr : rightPartOf r with
        | panic => exact absurd hr h3
        | err => simp
        | ok rp =>
          cases hp : powerOf p with
          | panic => exact absurd hp h4
          | err => simp
          | ok pw => simp
theorem marshalList_no_panic : ∀ es : ExprList, marshalList es ≠ .panic
  | .nil => by simp [marshalList]
  | .cons e t => by
    have h1 := marshalExpr_no_panic e
    have h2 := marshalList_no_panic t
    rw [marshalList]
    cases hl : marshalExpr e with
    | panic => exact absurd hl h1
    | err => simp
    | ok a =>
      cases hr : marshalList t with
      | panic => exact absurd hr h2
      | err => simp
      | ok c => simp
end

/-- item 5: marshalling never panics, for every tree, operand value and list -/
theorem marshal_no_panic :
    (∀ e : Expr, marshalExpr e ≠ .panic) ∧ (∀ n : Node, marshalNode n ≠ .panic) ∧
    (∀ es : ExprList, marshalList es ≠ .panic) :=
  ⟨marshalExpr_no_panic, marshalNode_no_panic, marshalList_no_panic⟩

end GoLucene
